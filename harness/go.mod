module pvharness

go 1.18

require (
	github.com/irai/packet v0.0.0
	golang.org/x/net v0.34.0
	gopkg.in/yaml.v2 v2.4.0
)

require (
	github.com/mdlayher/netx v0.0.0-20230430222610-7e21880baee8 // indirect
	github.com/vishvananda/netlink v1.3.0 // indirect
	github.com/vishvananda/netns v0.0.5 // indirect
	gitlab.com/golang-commonmark/puny v0.0.0-20191124015043-9f83538fa04f // indirect
	golang.org/x/sys v0.29.0 // indirect
)

replace github.com/irai/packet => /repo
