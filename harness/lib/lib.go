// Package lib: shared plumbing of the correspondence harness.
// Every random choice derives from one PRNG state (Seed), output is a
// tab-separated record stream consumed by /verif/bin/vcheck:
//
//	case  <TAB> KIND arg arg ... <TAB> implementation observation
//	viol  <TAB> key <TAB> description <TAB> replay (single line)
//	known <TAB> key <TAB> description
//	stat  <TAB> key <TAB> integer
//	sample<TAB> text
package lib

import (
	"bufio"
	"encoding/hex"
	"flag"
	"fmt"
	"os"
	"os/signal"
	"sort"
	"strings"
	"sync"
	"syscall"
)

type Run struct {
	Seed  uint64
	Tier  string
	Out   *bufio.Writer
	f     *os.File
	mu    sync.Mutex
	stats map[string]int64
	rng   *Rand
	Args  []string
	Replay  string
	runners map[string]func(args []string) string
}

// Init parses the common flags and opens the output.
func Init() *Run {
	seed := flag.Uint64("seed", 1, "PRNG seed")
	tier := flag.String("tier", "quick", "quick|thorough")
	out := flag.String("out", "", "output file (default stdout)")
	replay := flag.String("replay", "", "run exactly this case line (KIND arg ...) and exit")
	flag.Parse()
	// NewSession starts a NIC monitor that SIGTERMs the process after 3 idle minutes.
	signal.Ignore(syscall.SIGTERM)
	r := &Run{Seed: *seed, Tier: *tier, stats: map[string]int64{}, Args: flag.Args(), Replay: *replay,
		runners: map[string]func(args []string) string{}}
	r.f = os.Stdout
	if *out != "" {
		f, err := os.Create(*out)
		if err != nil {
			fmt.Fprintln(os.Stderr, err)
			os.Exit(2)
		}
		r.f = f
	}
	r.Out = bufio.NewWriterSize(r.f, 1<<20)
	r.rng = NewRand(*seed)
	return r
}

func (r *Run) Rand() *Rand { return r.rng }

// Register installs the implementation runner of a case kind: it maps the
// textual arguments of a case line to the implementation's observation.
// A panic inside the runner is the observation "panic".
func (r *Run) Register(kind string, f func(args []string) string) { r.runners[kind] = f }

// Exec runs the registered runner under recover.
func (r *Run) Exec(kind string, args []string) (obs string) {
	f := r.runners[kind]
	if f == nil {
		return "no-runner"
	}
	defer func() {
		if e := recover(); e != nil {
			obs = "panic"
		}
	}()
	return f(args)
}

// Do runs one case through its runner and records it; returns the observation.
func (r *Run) Do(kind string, args ...string) string {
	obs := r.Exec(kind, args)
	r.Case(kind, args, obs)
	return obs
}

// Replayed handles -replay: runs the single given case line, records it, and
// reports true so that main can return without generating anything.
func (r *Run) Replayed() bool {
	if r.Replay == "" {
		return false
	}
	f := strings.Fields(r.Replay)
	if len(f) == 0 {
		return true
	}
	r.Do(f[0], f[1:]...)
	return true
}
func (r *Run) Thorough() bool { return r.Tier == "thorough" }

func clean(s string) string {
	s = strings.ReplaceAll(s, "\t", " ")
	s = strings.ReplaceAll(s, "\n", " ")
	s = strings.ReplaceAll(s, "\"", "'")
	return s
}

// Case records one compared case: the model input line and what the implementation did.
func (r *Run) Case(kind string, args []string, obs string) {
	r.mu.Lock()
	defer r.mu.Unlock()
	fmt.Fprintf(r.Out, "case\t%s %s\t%s\n", kind, strings.Join(args, " "), clean(obs))
	r.stats["cases."+kind]++
}

func (r *Run) Viol(key, desc, replay string) {
	r.mu.Lock()
	defer r.mu.Unlock()
	fmt.Fprintf(r.Out, "viol\t%s\t%s\t%s\n", clean(key), clean(desc), clean(replay))
}

func (r *Run) Known(key, desc string) {
	r.mu.Lock()
	defer r.mu.Unlock()
	fmt.Fprintf(r.Out, "known\t%s\t%s\n", clean(key), clean(desc))
}

func (r *Run) Stat(key string, n int64) {
	r.mu.Lock()
	defer r.mu.Unlock()
	r.stats[key] += n
}

func (r *Run) Sample(text string) {
	r.mu.Lock()
	defer r.mu.Unlock()
	fmt.Fprintf(r.Out, "sample\t%s\n", clean(text))
}

func (r *Run) Close() {
	r.mu.Lock()
	defer r.mu.Unlock()
	keys := make([]string, 0, len(r.stats))
	for k := range r.stats {
		keys = append(keys, k)
	}
	sort.Strings(keys)
	for _, k := range keys {
		fmt.Fprintf(r.Out, "stat\t%s\t%d\n", k, r.stats[k])
	}
	r.Out.Flush()
	if r.f != os.Stdout {
		r.f.Close()
	}
}

// Hex token: "-" for the empty string so tokens are never empty.
func Hex(b []byte) string {
	if len(b) == 0 {
		return "-"
	}
	return hex.EncodeToString(b)
}

func UnHex(s string) []byte {
	if s == "-" {
		return nil
	}
	b, err := hex.DecodeString(s)
	if err != nil {
		panic(err)
	}
	return b
}

// Rand is splitmix64: small, reproducible, independent of math/rand versions.
type Rand struct{ s uint64 }

func NewRand(seed uint64) *Rand { return &Rand{s: seed*0x9E3779B97F4A7C15 + 0x1234567} }
func (r *Rand) U64() uint64 {
	r.s += 0x9E3779B97F4A7C15
	z := r.s
	z = (z ^ (z >> 30)) * 0xBF58476D1CE4E5B9
	z = (z ^ (z >> 27)) * 0x94D049BB133111EB
	return z ^ (z >> 31)
}
func (r *Rand) Intn(n int) int {
	if n <= 0 {
		return 0
	}
	return int(r.U64() % uint64(n))
}
func (r *Rand) Bool() bool      { return r.U64()&1 == 1 }
func (r *Rand) Byte() byte      { return byte(r.U64()) }
func (r *Rand) Chance(p int) bool { return r.Intn(100) < p } // p percent
func (r *Rand) Bytes(n int) []byte {
	b := make([]byte, n)
	for i := range b {
		b[i] = r.Byte()
	}
	return b
}
func (r *Rand) Fork() *Rand { return NewRand(r.U64()) }

// Pick returns one of the given ints.
func (r *Rand) Pick(v ...int) int { return v[r.Intn(len(v))] }

// Catch runs f and reports whether it panicked.
func Catch(f func()) (panicked bool, msg string) {
	defer func() {
		if e := recover(); e != nil {
			panicked = true
			msg = fmt.Sprint(e)
		}
	}()
	f()
	return
}
