package lib

// Independent plain byte writers for protocol frames (no use of the library's
// encoders), a recording net.PacketConn and a standard test session.

import (
	"net"
	"net/netip"
	"sync"
	"time"

	"github.com/irai/packet"
)

// RFC1071 is an independent big-endian Internet checksum.
func RFC1071(b []byte) uint16 {
	var s uint64
	for i := 0; i+1 < len(b); i += 2 {
		s += uint64(b[i])<<8 | uint64(b[i+1])
	}
	if len(b)%2 == 1 {
		s += uint64(b[len(b)-1]) << 8
	}
	for s>>16 != 0 {
		s = (s & 0xffff) + (s >> 16)
	}
	return ^uint16(s)
}

func be16(v uint16) []byte { return []byte{byte(v >> 8), byte(v)} }

// MkEther builds dst|src|ethertype|payload.
func MkEther(dst, src net.HardwareAddr, et uint16, payload []byte) []byte {
	b := make([]byte, 0, 14+len(payload))
	b = append(b, dst[:6]...)
	b = append(b, src[:6]...)
	b = append(b, be16(et)...)
	return append(b, payload...)
}

// MkIP4 builds a 20-byte-header IPv4 packet with a correct header checksum.
func MkIP4(src, dst netip.Addr, proto byte, ttl byte, payload []byte) []byte {
	h := make([]byte, 20, 20+len(payload))
	h[0] = 0x45
	tl := 20 + len(payload)
	h[2], h[3] = byte(tl>>8), byte(tl)
	h[8] = ttl
	h[9] = proto
	s, d := src.As4(), dst.As4()
	copy(h[12:16], s[:])
	copy(h[16:20], d[:])
	c := RFC1071(h)
	h[10], h[11] = byte(c>>8), byte(c)
	return append(h, payload...)
}

// MkIP6 builds a 40-byte IPv6 header + payload.
func MkIP6(src, dst netip.Addr, next byte, hop byte, payload []byte) []byte {
	h := make([]byte, 40, 40+len(payload))
	h[0] = 0x60
	h[4], h[5] = byte(len(payload)>>8), byte(len(payload))
	h[6] = next
	h[7] = hop
	s, d := src.As16(), dst.As16()
	copy(h[8:24], s[:])
	copy(h[24:40], d[:])
	return append(h, payload...)
}

func MkUDP(sp, dp uint16, payload []byte) []byte {
	h := make([]byte, 8, 8+len(payload))
	copy(h[0:2], be16(sp))
	copy(h[2:4], be16(dp))
	copy(h[4:6], be16(uint16(8+len(payload))))
	return append(h, payload...)
}

func MkTCP(sp, dp uint16, payload []byte) []byte {
	h := make([]byte, 20, 20+len(payload))
	copy(h[0:2], be16(sp))
	copy(h[2:4], be16(dp))
	h[12] = 5 << 4
	h[13] = 0x10
	return append(h, payload...)
}

func MkARP(op uint16, smac net.HardwareAddr, sip netip.Addr, tmac net.HardwareAddr, tip netip.Addr) []byte {
	b := make([]byte, 28)
	b[0], b[1] = 0, 1
	b[2], b[3] = 0x08, 0x00
	b[4], b[5] = 6, 4
	copy(b[6:8], be16(op))
	copy(b[8:14], smac[:6])
	s := sip.As4()
	copy(b[14:18], s[:])
	copy(b[18:24], tmac[:6])
	t := tip.As4()
	copy(b[24:28], t[:])
	return b
}

// MkICMPEcho builds an ICMPv4 echo message with a correct checksum.
func MkICMPEcho(typ, code byte, id, seq uint16, data []byte) []byte {
	b := make([]byte, 8, 8+len(data))
	b[0], b[1] = typ, code
	copy(b[4:6], be16(id))
	copy(b[6:8], be16(seq))
	b = append(b, data...)
	c := RFC1071(b)
	b[2], b[3] = byte(c>>8), byte(c)
	return b
}

// ICMP6Checksum computes the ICMPv6 checksum over the pseudo header + message (checksum field taken as is).
func ICMP6Checksum(src, dst netip.Addr, msg []byte) uint16 {
	s, d := src.As16(), dst.As16()
	psh := make([]byte, 0, 40+len(msg))
	psh = append(psh, s[:]...)
	psh = append(psh, d[:]...)
	psh = append(psh, 0, 0, byte(len(msg)>>8), byte(len(msg)), 0, 0, 0, 58)
	psh = append(psh, msg...)
	return RFC1071(psh)
}

// MkICMP6 builds type|code|checksum|body with a correct checksum for src/dst.
func MkICMP6(src, dst netip.Addr, typ, code byte, body []byte) []byte {
	b := make([]byte, 4, 4+len(body))
	b[0], b[1] = typ, code
	b = append(b, body...)
	c := ICMP6Checksum(src, dst, b)
	b[2], b[3] = byte(c>>8), byte(c)
	return b
}

// ---------------------------------------------------------------------------

// RecConn is a net.PacketConn that records every frame written to it.
type RecConn struct {
	// Fail, when set, is consulted at the start of every WriteTo (under no lock of the connection): a non-nil
	// result makes the write fail with that error and nothing is recorded (fault injection: ENOBUFS, EAGAIN, ...).
	Fail   func(b []byte) error
	mu     sync.Mutex
	frames [][]byte
	times  []time.Time
	closed chan struct{}
	once   sync.Once
}

func NewRecConn() *RecConn { return &RecConn{closed: make(chan struct{})} }

func (c *RecConn) WriteTo(b []byte, _ net.Addr) (int, error) {
	if f := c.Fail; f != nil {
		if err := f(b); err != nil {
			return 0, err
		}
	}
	c.mu.Lock()
	c.frames = append(c.frames, append([]byte{}, b...))
	c.times = append(c.times, time.Now())
	c.mu.Unlock()
	return len(b), nil
}

// ReadFrom blocks until Close (the harness feeds packets to Parse directly).
func (c *RecConn) ReadFrom(b []byte) (int, net.Addr, error) {
	<-c.closed
	return 0, nil, net.ErrClosed
}
func (c *RecConn) Close() error                       { c.once.Do(func() { close(c.closed) }); return nil }
func (c *RecConn) LocalAddr() net.Addr                { return nil }
func (c *RecConn) SetDeadline(t time.Time) error      { return nil }
func (c *RecConn) SetReadDeadline(t time.Time) error  { return nil }
func (c *RecConn) SetWriteDeadline(t time.Time) error { return nil }

// Take returns and clears the frames recorded so far.
func (c *RecConn) Take() [][]byte {
	c.mu.Lock()
	defer c.mu.Unlock()
	f := c.frames
	c.frames = nil
	c.times = nil
	return f
}

// TakeTimed returns and clears frames with their write times.
func (c *RecConn) TakeTimed() ([][]byte, []time.Time) {
	c.mu.Lock()
	defer c.mu.Unlock()
	f, t := c.frames, c.times
	c.frames, c.times = nil, nil
	return f, t
}

func (c *RecConn) Len() int {
	c.mu.Lock()
	defer c.mu.Unlock()
	return len(c.frames)
}

// WaitQuiet waits until no frame has been written for d (at most max).
func (c *RecConn) WaitQuiet(d, max time.Duration) {
	deadline := time.Now().Add(max)
	last := c.Len()
	lastChange := time.Now()
	for time.Now().Before(deadline) {
		time.Sleep(d / 4)
		if n := c.Len(); n != last {
			last, lastChange = n, time.Now()
		} else if time.Since(lastChange) >= d {
			return
		}
	}
}

// ---------------------------------------------------------------------------

// Standard small universe used by the history-based checks.
var (
	HostMAC   = net.HardwareAddr{0x00, 0x55, 0x55, 0x55, 0x55, 0x55}
	HostIP4   = netip.MustParseAddr("192.168.0.129")
	HostLLA   = netip.MustParseAddr("fe80::1:129")
	RouterMAC = net.HardwareAddr{0x00, 0x66, 0x66, 0x66, 0x66, 0x66}
	RouterIP4 = netip.MustParseAddr("192.168.0.11")
	RouterLLA = netip.MustParseAddr("fe80::1:11")
	HomeLAN   = netip.MustParsePrefix("192.168.0.0/24")
)

// NewSession builds a session on a recording connection with the standard NIC
// (home LAN 192.168.0.0/24, host .129, router .11). The session's NIC monitor
// (SIGTERM after 3 idle minutes) is pushed out to a day; SIGTERM is ignored by lib.Init anyway.
func NewSession() (*packet.Session, *RecConn) {
	return NewSessionWith(&packet.NICInfo{
		HomeLAN4:    HomeLAN,
		HostAddr4:   packet.Addr{MAC: HostMAC, IP: HostIP4},
		RouterAddr4: packet.Addr{MAC: RouterMAC, IP: RouterIP4},
		HostLLA:     netip.PrefixFrom(HostLLA, 64),
		RouterLLA:   netip.PrefixFrom(RouterLLA, 64),
	})
}

func NewSessionWith(nic *packet.NICInfo) (*packet.Session, *RecConn) {
	packet.VerifSetMonitorNICFrequency(24 * time.Hour)
	conn := NewRecConn()
	s, err := packet.Config{Conn: conn, NICInfo: nic,
		ProbeDeadline: packet.DefaultProbeDeadline, OfflineDeadline: packet.DefaultOfflineDeadline,
		PurgeDeadline: packet.DefaultPurgeDeadline}.NewSession("")
	if err != nil {
		panic(err)
	}
	return s, conn
}
