// Independent DNS wire builder of the C17 harness: plain byte writers with
// symbolic marks and compression pointers, resolved in two passes. Nothing of
// the library under test (and nothing of dnsmessage) is used to build messages.
package main

import "fmt"

type item struct {
	raw  []byte
	ptr  string // 2-byte compression pointer to this mark
	mark string // zero-width: remember the offset under this name
	abs  int    // ptr == "" && mark == "" && raw == nil: 2-byte pointer to an absolute offset
	isAbs bool
}

type asm struct{ items []item }

func (a *asm) Raw(b ...byte) *asm   { a.items = append(a.items, item{raw: append([]byte{}, b...)}); return a }
func (a *asm) U16(v int) *asm       { return a.Raw(byte(v>>8), byte(v)) }
func (a *asm) U32(v uint32) *asm    { return a.Raw(byte(v>>24), byte(v>>16), byte(v>>8), byte(v)) }
func (a *asm) Mark(m string) *asm   { a.items = append(a.items, item{mark: m}); return a }
func (a *asm) Ptr(m string) *asm    { a.items = append(a.items, item{ptr: m}); return a }
func (a *asm) PtrAbs(off int) *asm  { a.items = append(a.items, item{abs: off, isAbs: true}); return a }
func (a *asm) Append(b *asm) *asm   { a.items = append(a.items, b.items...); return a }

// Labels writes the labels (length octet + bytes) without terminator.
func (a *asm) Labels(labels [][]byte) *asm {
	for _, l := range labels {
		a.Raw(byte(len(l)))
		a.Raw(l...)
	}
	return a
}

// Name writes labels followed by the root octet (tail == "") or a pointer to mark tail.
func (a *asm) Name(labels [][]byte, tail string) *asm {
	a.Labels(labels)
	if tail == "" {
		return a.Raw(0)
	}
	return a.Ptr(tail)
}

func (a *asm) size(it item) int {
	if it.ptr != "" || it.isAbs {
		return 2
	}
	return len(it.raw)
}

// Bytes resolves marks and pointers. Offsets are relative to the start of the assembly
// (the DNS header is part of it). Pointers beyond 0x3fff are truncated to 14 bits.
func (a *asm) Bytes() ([]byte, map[string]int) {
	marks := map[string]int{}
	off := 0
	for _, it := range a.items {
		if it.mark != "" {
			marks[it.mark] = off
		}
		off += a.size(it)
	}
	out := make([]byte, 0, off)
	for _, it := range a.items {
		switch {
		case it.ptr != "":
			t, ok := marks[it.ptr]
			if !ok {
				panic(fmt.Sprint("unresolved mark ", it.ptr))
			}
			out = append(out, 0xc0|byte(t>>8)&0x3f, byte(t))
		case it.isAbs:
			out = append(out, 0xc0|byte(it.abs>>8)&0x3f, byte(it.abs))
		default:
			out = append(out, it.raw...)
		}
	}
	return out, marks
}

// header writes the 12-byte DNS header.
func header(id int, flags int, qd, an, ns, ar int) *asm {
	a := &asm{}
	return a.U16(id).U16(flags).U16(qd).U16(an).U16(ns).U16(ar)
}

func wireLen(labels [][]byte) int {
	n := 1
	for _, l := range labels {
		n += 1 + len(l)
	}
	return n
}

func dotted(labels [][]byte) []byte {
	var out []byte
	for i, l := range labels {
		if i > 0 {
			out = append(out, '.')
		}
		out = append(out, l...)
	}
	return out
}

// Size is the encoded size of the assembly.
func (a *asm) Size() int {
	n := 0
	for _, it := range a.items {
		n += a.size(it)
	}
	return n
}
