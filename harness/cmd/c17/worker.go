package main

// Killable child workers: every decoder case runs in a re-exec'd copy of this binary
// ("-worker"), so that a fatal runtime error of the library (stack overflow, which recover
// cannot catch) or a hang costs one worker, not the run: the case being processed gets the
// observation "panic" (worker died) or "fuel" (no answer in time; worker killed), the worker is
// restarted, and the check names the concrete failing case.

import (
	"bufio"
	"fmt"
	"io"
	"os"
	"os/exec"
	"runtime/debug"
	"strings"
	"sync"
	"time"

	"github.com/irai/packet/fastlog"
)

// rawRunners: pure library calls, no oracle, no access to the Run
var rawRunners = map[string]func(a []string) string{}

func workerMain() {
	debug.SetMaxStack(32 << 20) // a runaway recursion dies quickly
	proto := os.Stdout
	fastlog.DefaultIOWriter = io.Discard
	if dn, err := os.OpenFile(os.DevNull, os.O_WRONLY, 0); err == nil {
		os.Stdout = dn // the library prints diagnostics with fmt.Println
		os.Stderr = dn
	}
	in := bufio.NewReaderSize(os.Stdin, 1<<20)
	out := bufio.NewWriter(proto)
	for {
		line, err := in.ReadString('\n')
		if err != nil {
			return
		}
		f := strings.Fields(line)
		if len(f) == 0 {
			continue
		}
		obs := "no-runner"
		if run := rawRunners[f[0]]; run != nil {
			obs = guarded(func() string { return run(f[1:]) })
		}
		fmt.Fprintln(out, strings.ReplaceAll(obs, "\n", " "))
		out.Flush()
		if obs == "fuel" {
			os.Exit(3) // a goroutine is still spinning: start over with a clean process
		}
	}
}

type worker struct {
	mu   sync.Mutex
	cmd  *exec.Cmd
	in   io.WriteCloser
	out  *bufio.Reader
	dead int
}

var pool worker

func (w *worker) start() error {
	exe, err := os.Executable()
	if err != nil {
		return err
	}
	w.cmd = exec.Command(exe, "-worker")
	w.cmd.Stderr = nil
	if w.in, err = w.cmd.StdinPipe(); err != nil {
		return err
	}
	so, err := w.cmd.StdoutPipe()
	if err != nil {
		return err
	}
	w.out = bufio.NewReaderSize(so, 1<<20)
	return w.cmd.Start()
}

func (w *worker) stop() {
	if w.cmd != nil {
		w.in.Close()
		w.cmd.Process.Kill()
		w.cmd.Wait()
		w.cmd = nil
	}
}

// run sends one case to the worker. "panic": the worker died on it; "fuel": no answer within the limit.
func (w *worker) run(kind string, args []string) string {
	w.mu.Lock()
	defer w.mu.Unlock()
	if w.cmd == nil {
		if err := w.start(); err != nil {
			return "worker-start-failed"
		}
	}
	if _, err := fmt.Fprintln(w.in, kind+" "+strings.Join(args, " ")); err != nil {
		w.stop()
		w.dead++
		return "panic"
	}
	type ans struct {
		s   string
		err error
	}
	ch := make(chan ans, 1)
	go func() {
		s, err := w.out.ReadString('\n')
		ch <- ans{s, err}
	}()
	select {
	case a := <-ch:
		if a.err != nil {
			w.stop()
			w.dead++
			return "panic"
		}
		obs := strings.TrimRight(a.s, "\n")
		if obs == "fuel" {
			w.stop()
		}
		return obs
	case <-time.After(20 * time.Second):
		w.stop()
		w.dead++
		return "fuel"
	}
}

// viaWorker wraps a raw runner: the library call happens in the child, the oracle (if any) in the parent.
func viaWorker(kind string, oracle func(a []string, obs string)) func(a []string) string {
	return func(a []string) string {
		obs := pool.run(kind, a)
		if oracle != nil && obs != "panic" && obs != "fuel" {
			oracle(a, obs)
		}
		return obs
	}
}
