package main

import (
	"fmt"
	"strings"

	"pvharness/lib"
)

const hostChars = "abcdefghijklmnopqrstuvwxyz0123456789-_"

// label of n bytes: mode 0 hostname characters, 1 arbitrary bytes except '.', 2 arbitrary bytes
func genLabel(rng *lib.Rand, n, mode int) []byte {
	b := make([]byte, n)
	for i := range b {
		switch mode {
		case 0:
			b[i] = hostChars[rng.Intn(len(hostChars))]
		case 1:
			b[i] = rng.Byte()
			if b[i] == '.' || b[i] == ':' {
				b[i] = 'x'
			}
		default:
			b[i] = rng.Byte()
		}
	}
	return b
}

// genLabels: nl labels; the wire length (sum(1+len)+1) is kept <= maxWire when maxWire > 0
func genLabels(rng *lib.Rand, nl, maxLab, mode, maxWire int) [][]byte {
	var out [][]byte
	wire := 1
	for i := 0; i < nl; i++ {
		n := 1 + rng.Intn(maxLab)
		if rng.Chance(5) {
			n = 63
		}
		if maxWire > 0 && wire+1+n > maxWire {
			n = maxWire - wire - 1
			if n < 1 {
				break
			}
		}
		out = append(out, genLabel(rng, n, mode))
		wire += 1 + n
	}
	return out
}

// labelsOfWire builds a name whose wire length is exactly w (2 <= w), using maximal labels
func labelsOfWire(rng *lib.Rand, w int) [][]byte {
	var out [][]byte
	rest := w - 1
	for rest > 0 {
		n := 63
		if rest-1 < n {
			n = rest - 1
		}
		if n == 0 { // one byte left: grow the previous label is impossible at 63; use a 1-byte label by shrinking previous
			last := out[len(out)-1]
			out[len(out)-1] = last[:len(last)-1]
			n = 1
			rest++
		}
		out = append(out, genLabel(rng, n, 0))
		rest -= n + 1
	}
	return out
}

func genName(rng *lib.Rand) [][]byte {
	mode := 0
	if rng.Chance(10) {
		mode = 1
	}
	switch rng.Intn(10) {
	case 0:
		return genLabels(rng, 1, 63, mode, 255)
	case 1:
		return genLabels(rng, 127, 1, mode, 255) // up to 127 one-byte labels
	case 2:
		return genLabels(rng, 2+rng.Intn(120), 3, mode, 255)
	default:
		return genLabels(rng, 1+rng.Intn(5), 12, mode, 255)
	}
}

func spare(rng *lib.Rand) []byte {
	switch rng.Intn(4) {
	case 0:
		return nil
	case 1:
		return rng.Bytes(1 + rng.Intn(4))
	case 2:
		return rng.Bytes(16)
	}
	b := make([]byte, 64)
	for i := range b {
		b[i] = 0xa5
	}
	return b
}

func bufArgs(rng *lib.Rand) (string, string) {
	pre := "-"
	if rng.Chance(15) {
		pre = lib.Hex(genLabel(rng, 1+rng.Intn(5), 0))
	}
	return pre, fmt.Sprint(rng.Pick(0, 0, 1, 8, 64, 64, 64, 300))
}

func doDQ(r *lib.Run, rng *lib.Rand, class string, p []byte, sp []byte, index int) {
	pre, n := bufArgs(rng)
	r.Do("dq", lib.Hex(p), lib.Hex(sp), fmt.Sprint(index), pre, n)
	r.Stat("class.dq."+class, 1)
}

// question message: header, optional backward area, question at index, optional forward area
type qmsg struct {
	pre, name, post *asm
	qtype, qclass   int
}

func (m qmsg) build(qd int) ([]byte, int) {
	a := header(0x1234, 0x0100, qd, 0, 0, 0)
	if m.pre != nil {
		a.Append(m.pre)
	}
	a.Mark("Q")
	a.Append(m.name)
	a.U16(m.qtype).U16(m.qclass)
	if m.post != nil {
		a.Append(m.post)
	}
	b, marks := a.Bytes()
	return b, marks["Q"]
}

func genDQ(r *lib.Run, rng *lib.Rand) {
	N := 1500
	if r.Thorough() {
		N = 30000
	}
	qt := func() int { return rng.Pick(1, 28, 5, 12, 255, 33, 16, rng.Intn(65536)) }
	// 1. plain names
	for i := 0; i < N; i++ {
		ls := genName(rng)
		m := qmsg{name: (&asm{}).Name(ls, ""), qtype: qt(), qclass: rng.Pick(1, 1, 255, 0x8001)}
		b, idx := m.build(1)
		doDQ(r, rng, "plain", b, spare(rng), idx)
	}
	// wire-length boundary 253..258 (RFC limit 255; the code limits each segment)
	for w := 250; w <= 260; w++ {
		for k := 0; k < 4; k++ {
			ls := labelsOfWire(rng, w)
			b, idx := qmsg{name: (&asm{}).Name(ls, ""), qtype: 1, qclass: 1}.build(1)
			doDQ(r, rng, fmt.Sprintf("wire%d", w), b, spare(rng), idx)
		}
	}
	// 2. compressed: suffix behind / ahead, chains of pointers
	for i := 0; i < N; i++ {
		ls := genName(rng)
		if len(ls) == 0 {
			continue
		}
		cut := rng.Intn(len(ls) + 1)
		head, tail := ls[:cut], ls[cut:]
		hops := rng.Pick(0, 0, 0, 1, 2, 3, 9, 10, 11)
		area := &asm{}
		if rng.Chance(15) { // large offsets: pointer targets beyond 255 / 1023 / 4095
			area.Raw(rng.Bytes(rng.Pick(250, 600, 1100, 2000, 4200))...)
		}
		// tail segment + chain of pointer cells: T0 -> T1 -> ... -> tail
		area.Mark("T0")
		for h := 0; h < hops; h++ {
			area.Ptr(fmt.Sprintf("T%d", h+1)).Raw(rng.Bytes(rng.Intn(3))...).Mark(fmt.Sprintf("T%d", h+1))
		}
		area.Name(tail, "")
		m := qmsg{name: (&asm{}).Name(head, "T0"), qtype: qt(), qclass: 1}
		class := "compressed-back"
		if rng.Bool() {
			m.pre = area
		} else {
			m.post = area
			class = "compressed-forward"
		}
		b, idx := m.build(1)
		doDQ(r, rng, fmt.Sprintf("%s-hops%d", class, hops), b, spare(rng), idx)
	}
	// multi-segment names: labels split over k segments chained by pointers
	for i := 0; i < N/2; i++ {
		ls := genName(rng)
		k := 1 + rng.Intn(4)
		area := &asm{}
		cuts := []int{0}
		for j := 0; j < k; j++ {
			cuts = append(cuts, rng.Intn(len(ls)+1))
		}
		cuts = append(cuts, len(ls))
		// sort cuts
		for x := range cuts {
			for y := x + 1; y < len(cuts); y++ {
				if cuts[y] < cuts[x] {
					cuts[x], cuts[y] = cuts[y], cuts[x]
				}
			}
		}
		nseg := len(cuts) - 1
		for s := nseg - 1; s >= 1; s-- {
			area.Mark(fmt.Sprintf("S%d", s))
			if s == nseg-1 {
				area.Name(ls[cuts[s]:cuts[s+1]], "")
			} else {
				area.Name(ls[cuts[s]:cuts[s+1]], fmt.Sprintf("S%d", s+1))
			}
		}
		m := qmsg{pre: area, qtype: qt(), qclass: 1}
		if nseg == 1 {
			m.name = (&asm{}).Name(ls, "")
		} else {
			m.name = (&asm{}).Name(ls[:cuts[1]], "S1")
		}
		b, idx := m.build(1)
		doDQ(r, rng, fmt.Sprintf("segments%d", nseg), b, spare(rng), idx)
	}
	// recursion bound: chains of 250..257 pointers (the library allows 254)
	for hops := 250; hops <= 258; hops++ {
		area := &asm{}
		area.Mark("T0")
		for h := 0; h < hops-1; h++ {
			area.Ptr(fmt.Sprintf("T%d", h+1)).Mark(fmt.Sprintf("T%d", h+1))
		}
		area.Name(genLabels(rng, 2, 5, 0, 255), "")
		b, idx := qmsg{pre: area, name: (&asm{}).Name(genLabels(rng, 1, 5, 0, 255), "T0"), qtype: 1, qclass: 1}.build(1)
		doDQ(r, rng, fmt.Sprintf("chain%d", hops), b, spare(rng), idx)
	}
	// total length over 255 through compression (each segment short)
	for i := 0; i < 20; i++ {
		area := &asm{}
		area.Mark("S1").Name(labelsOfWire(rng, 150+rng.Intn(100)), "")
		b, idx := qmsg{pre: area, name: (&asm{}).Name(labelsOfWire(rng, 120+rng.Intn(130))[0:2], "S1"), qtype: 1, qclass: 1}.build(1)
		doDQ(r, rng, "long-compressed", b, spare(rng), idx)
	}
	// 3. malformed: loops, pointers beyond the message, reserved label bits, truncation
	for i := 0; i < N/3; i++ {
		head := genLabels(rng, rng.Intn(3), 8, 0, 255)
		var m qmsg
		class := ""
		switch rng.Intn(6) {
		case 0: // self loop
			m = qmsg{name: (&asm{}).Labels(head).Mark("L").Ptr("L")}
			class = "loop-self"
		case 1: // loop back to the start of the name
			m = qmsg{name: (&asm{}).Mark("L").Labels(genLabels(rng, 1+rng.Intn(2), 8, 0, 255)).Ptr("L")}
			class = "loop-name"
		case 2: // two-cell cycle
			m = qmsg{pre: (&asm{}).Mark("A").Labels(genLabels(rng, rng.Intn(2), 4, 0, 255)).Ptr("B"), name: (&asm{}).Labels(head).Mark("B").Ptr("A")}
			class = "loop-two"
		case 3: // pointer at / beyond the end
			m = qmsg{name: (&asm{}).Labels(head).PtrAbs(rng.Pick(0x3fff, 0x3000, 2000))}
			class = "ptr-beyond"
		case 4: // reserved label type
			m = qmsg{name: (&asm{}).Labels(head).Raw(byte(rng.Pick(0x40, 0x80)) | byte(rng.Intn(64))).Raw(rng.Bytes(rng.Intn(4))...).Raw(0)}
			class = "reserved-bits"
		case 5: // pointer into the header / into rdata garbage
			m = qmsg{name: (&asm{}).Labels(head).PtrAbs(rng.Intn(12))}
			class = "ptr-header"
		}
		m.qtype, m.qclass = 1, 1
		b, idx := m.build(1)
		doDQ(r, rng, class, b, spare(rng), idx)
	}
	// pointer exactly at len-1 / len / len+1
	for d := -2; d <= 2; d++ {
		m := qmsg{name: (&asm{}).Labels(genLabels(rng, 1, 5, 0, 255)).PtrAbs(0)}
		b, idx := m.build(1)
		tgt := len(b) + d
		b[idx+len(b)-idx-6] = 0xc0 | byte(tgt>>8)
		b[idx+len(b)-idx-5] = byte(tgt)
		for _, sp := range [][]byte{nil, {0, 0, 0, 0, 0, 0, 0, 0}} {
			doDQ(r, rng, "ptr-at-end", b, sp, idx)
		}
	}
	// truncation at every offset of valid (plain and compressed) questions; spare none / poison
	for i := 0; i < 12; i++ {
		ls := genLabels(rng, 1+rng.Intn(3), 6, 0, 255)
		var m qmsg
		if i%2 == 0 {
			m = qmsg{name: (&asm{}).Name(ls, ""), qtype: 1, qclass: 1}
		} else {
			m = qmsg{pre: (&asm{}).Mark("T").Name(genLabels(rng, 2, 4, 0, 255), ""), name: (&asm{}).Name(ls, "T"), qtype: 28, qclass: 1}
		}
		b, idx := m.build(1)
		for cut := 0; cut <= len(b); cut++ {
			doDQ(r, rng, "truncated", b[:cut], nil, idx)
			doDQ(r, rng, "truncated-spare", b[:cut], b[cut:], idx)
			doDQ(r, rng, "truncated-poison", b[:cut], []byte{0xa5, 0xa5, 0xa5, 0xa5, 0xa5, 0xa5, 0xa5, 0xa5, 0xa5, 0xa5, 0xa5, 0xa5}, idx)
		}
	}
	// 4. QDCOUNT and index variations
	for i := 0; i < 60; i++ {
		b, idx := qmsg{name: (&asm{}).Name(genLabels(rng, 2, 6, 0, 255), ""), qtype: 1, qclass: 1}.build(rng.Pick(0, 2, 256, 65535, 1))
		doDQ(r, rng, "qdcount", b, spare(rng), idx)
		b, idx = qmsg{name: (&asm{}).Name(genLabels(rng, 1, 3, 0, 255), ""), qtype: 1, qclass: 1}.build(1)
		doDQ(r, rng, "index", b, spare(rng), rng.Pick(-1, -7, 0, 3, idx+1, len(b)-6, len(b)-5, len(b)-1, len(b), len(b)+1, 1<<20))
	}
	// 5. random bytes and single-byte mutations
	for i := 0; i < N/2; i++ {
		ls := genName(rng)
		b, idx := qmsg{pre: (&asm{}).Mark("T").Name(genLabels(rng, 2, 4, 0, 255), ""), name: (&asm{}).Name(ls, "T"), qtype: 1, qclass: 1}.build(1)
		k := 1 + rng.Intn(3)
		for j := 0; j < k; j++ {
			b[rng.Intn(len(b))] = rng.Byte()
		}
		doDQ(r, rng, "mutated", b, spare(rng), idx)
	}
	for i := 0; i < N/3; i++ {
		b := rng.Bytes(rng.Intn(80))
		if len(b) >= 6 && rng.Chance(80) {
			b[4], b[5] = 0, 1
		}
		for j := range b { // bias to small bytes so that label walks happen
			if rng.Chance(50) {
				b[j] &= 0x07
			} else if rng.Chance(20) {
				b[j] |= 0xc0
				if j+1 < len(b) {
					b[j] &= 0xc0
					b[j+1] = byte(rng.Intn(len(b) + 2))
				}
			}
		}
		doDQ(r, rng, "random", b, spare(rng), rng.Pick(12, 12, 0, 6, rng.Intn(20)))
	}
}

// genDQExhaustive: every question body of 1..maxLen bytes over a small alphabet (root, label lengths 1 and 2,
// reserved bits, pointer marker, pointer targets 12..15 = the body itself, a letter), followed by type/class:
// every label / pointer / loop / truncation layout of that size.
func genDQExhaustive(r *lib.Run, maxLen int) {
	alphabet := []byte{0x00, 0x01, 0x02, 0x40, 0xc0, 0x0c, 0x0d, 0x0e, 0x0f, 0x61}
	hdr := []byte{0x12, 0x34, 0x01, 0x00, 0x00, 0x01, 0, 0, 0, 0, 0, 0}
	tail := []byte{0x00, 0x01, 0x00, 0x01}
	body := make([]byte, maxLen)
	var rec func(pos, n int)
	rec = func(pos, n int) {
		if pos == n {
			msg := append(append(append([]byte{}, hdr...), body[:n]...), tail...)
			r.Do("dq", lib.Hex(msg), "-", "12", "-", "64")
			return
		}
		for _, c := range alphabet {
			body[pos] = c
			rec(pos+1, n)
		}
	}
	for n := 1; n <= maxLen; n++ {
		rec(0, n)
	}
	r.Stat("class.dq.exhaustive-maxlen", int64(maxLen))
}

// ---------------------------------------------------------------- merges

var strU = []string{"-", "-", "61", "62", "686f737431", "4170706c65"}

func genEntry(rng *lib.Rand, typ string) string {
	s := func() string { return strU[rng.Intn(len(strU))] }
	return strings.Join([]string{typ, s(), s(), s(), s(), fmt.Sprint(rng.Pick(0, 0, 5, 9))}, ",")
}

var typeTags = []string{"6468637034", "6c6c6d6e72", "6d646e73", "73736470", "6e626e73"}

func genMerge(r *lib.Run, rng *lib.Rand) {
	N := 4000
	if r.Thorough() {
		N = 60000
	}
	for i := 0; i < N; i++ {
		r.Do("merge", genEntry(rng, typeTags[rng.Intn(5)]), genEntry(rng, typeTags[rng.Intn(5)]))
	}
	r.Stat("class.merge.random", int64(N))
	// histories: 3 hosts sharing one MAC entry, five sources
	H := 300
	if r.Thorough() {
		H = 5000
	}
	for i := 0; i < H; i++ {
		depth := 30 + rng.Intn(31)
		var ops []string
		for j := 0; j < depth; j++ {
			src := rng.Intn(5)
			ops = append(ops, fmt.Sprintf("%d,%d,%s", rng.Intn(3), src, genEntry(rng, typeTags[src])))
		}
		r.Do("upd", strings.Join(ops, ";"))
	}
	r.Stat("class.upd.history", int64(H))
}
