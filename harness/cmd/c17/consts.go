package main

// Source-derived constants: the numeric constants the Coq models hard-code are read from the Go
// source of the tree under test ($VERIF_REPO) with go/ast and compared with the model's table
// (case kind `consts <name> <value>`; Model/DNSConsts.v). An AST shape that is not recognised any
// more is counted (stat consts.unrecognised.<name>) and produces no case.

import (
	"bytes"
	"fmt"
	"go/ast"
	"go/parser"
	"go/printer"
	"go/token"
	"os"
	"path/filepath"
	"regexp"
	"strconv"
	"strings"

	"pvharness/lib"
)

type constPat struct {
	name string
	fn   string         // enclosing function ("" = file level)
	re   *regexp.Regexp // matched against the printed source of expression / case-list / spec nodes
	idx  int            // which match in source order (0 = first)
	body *regexp.Regexp // for case clauses / tests inside a case: the printed clause body must match (robust against reordering)
}

func src(fset *token.FileSet, n ast.Node) string {
	var b bytes.Buffer
	printer.Fprint(&b, fset, n)
	return strings.Join(strings.Fields(b.String()), " ")
}

func num(s string) (int64, bool) {
	v, err := strconv.ParseInt(s, 0, 64)
	return v, err == nil
}

// extract returns name -> value for the patterns found in one file
func extract(path string, pats []constPat) (map[string]int64, error) {
	fset := token.NewFileSet()
	f, err := parser.ParseFile(fset, path, nil, 0)
	if err != nil {
		return nil, err
	}
	out := map[string]int64{}
	hits := map[string]int{}
	named := map[string]int64{} // const name = literal, anywhere in the file
	ast.Inspect(f, func(n ast.Node) bool {
		if vs, ok := n.(*ast.ValueSpec); ok {
			for i, id := range vs.Names {
				if i < len(vs.Values) {
					if bl, ok := vs.Values[i].(*ast.BasicLit); ok {
						if v, ok := num(bl.Value); ok {
							named[id.Name] = v
						}
					}
				}
			}
		}
		return true
	})
	match := func(fn string, n ast.Node, body string, withBody bool) {
		s := src(fset, n)
		for _, p := range pats {
			if p.fn != fn || (p.body != nil) != withBody {
				continue
			}
			if withBody && !p.body.MatchString(body) {
				continue
			}
			if m := p.re.FindStringSubmatch(s); m != nil {
				v, ok := num(m[1])
				if !ok {
					v, ok = named[m[1]]
				}
				if ok {
					if hits[p.name] == p.idx {
						out[p.name] = v
					}
					hits[p.name]++
				}
			}
		}
	}
	try := func(fn string, n ast.Node) { match(fn, n, "", false) }
	tryBody := func(fn string, n ast.Node, body string) { match(fn, n, body, true) }
	for _, d := range f.Decls {
		switch d := d.(type) {
		case *ast.GenDecl:
			for _, sp := range d.Specs {
				try("", sp)
			}
		case *ast.FuncDecl:
			if d.Body == nil {
				continue
			}
			name := d.Name.Name
			ast.Inspect(d.Body, func(n ast.Node) bool {
				switch n := n.(type) {
				case *ast.BinaryExpr, *ast.AssignStmt, *ast.CallExpr:
					try(name, n)
				case *ast.SwitchStmt:
					if n.Tag != nil {
						try(name, n.Tag)
					}
				case *ast.CaseClause:
					// a case value is identified by what its body does; tests inside the body inherit that identity
					b := src(fset, &ast.BlockStmt{List: n.Body})
					for _, e := range n.List {
						tryBody(name, &ast.ExprStmt{X: &ast.CallExpr{Fun: ast.NewIdent("case"), Args: []ast.Expr{e}}}, b)
					}
					for _, st := range n.Body {
						ast.Inspect(st, func(m ast.Node) bool {
							if be, ok := m.(*ast.BinaryExpr); ok {
								tryBody(name, be, b)
							}
							return true
						})
					}
				}
				return true
			})
		}
	}
	return out, nil
}

func re(s string) *regexp.Regexp { return regexp.MustCompile(s) }

// a literal, or the name of a constant declared in the same file (resolved through the file's const declarations)
const lit = `(0[xX][0-9a-fA-F]+|\d+|[A-Za-z_]\w*)`

func genConsts(r *lib.Run) {
	repo := os.Getenv("VERIF_REPO")
	if repo == "" {
		repo = "/repo"
	}
	files := []struct {
		path string
		pats []constPat
	}{
		{"layer_dns.go", []constPat{
			{"maxRecursionLevel", "", re(`^maxRecursionLevel = ` + lit + `$`), 0, nil},
			{"name.window", "decodeName", re(`^index2-offset > ` + lit + `$`), 0, nil},
			{"name.topmask", "decodeName", re(`^data\[index\] & ` + lit + `$`), 0, nil},
			{"name.case.pointer", "decodeName", re(`^case\(` + lit + `\)$`), 0, re(`decodeName\(`)},
			{"name.case.reserved40", "decodeName", re(`^case\(` + lit + `\)$`), 0, re(`0x40`)},
			{"name.case.reserved80", "decodeName", re(`^case\(` + lit + `\)$`), 0, re(`0x80`)},
			{"name.ptrmask", "decodeName", re(`^binary\.BigEndian\.Uint16\(data\[index:index\+2\]\) & ` + lit + `$`), 0, nil},
			{"header.min", "IsValid", re(`^len\(p\) >= ` + lit + `$`), 0, nil},
			{"question.count", "DecodeQuestion", re(`^p\.QDCount\(\) != ` + lit + `$`), 0, nil},
			{"question.min", "DecodeQuestion", re(`^index\+` + lit + ` > len\(p\)$`), 0, nil},
			{"question.tail", "DecodeQuestion", re(`^endq\+` + lit + ` > len\(p\)$`), 0, nil},
			{"rr.header", "decodeRRs", re(`^endq\+` + lit + ` > len\(p\)$`), 0, nil},
			{"rr.type.A", "decodeRRs", re(`^case\(` + lit + `\)$`), 0, re(`IP4Records`)},
			{"rr.type.AAAA", "decodeRRs", re(`^case\(` + lit + `\)$`), 0, re(`IP6Records`)},
			{"rr.type.CNAME", "decodeRRs", re(`^case\(` + lit + `\)$`), 0, re(`CNameRecords`)},
			{"rr.type.MX", "decodeRRs", re(`^case\(` + lit + `\)$`), 0, re(`MX record`)},
			{"rr.type.PTR", "decodeRRs", re(`^case\(` + lit + `\)$`), 0, re(`PTRRecords`)},
			{"rr.len.A", "decodeRRs", re(`^dataLen != ` + lit + `$`), 0, re(`IP4Records`)},
			{"rr.len.AAAA", "decodeRRs", re(`^dataLen != ` + lit + `$`), 0, re(`IP6Records`)},
		}},
		{"handlers/dns_naming/dns.go", []constPat{
			{"processdns.index", "ProcessDNS", re(`^index := ` + lit + `$`), 0, nil},
			{"processdns.buffer", "ProcessDNS", re(`^make\(\[\]byte, 0, ` + lit + `\)$`), 0, nil},
		}},
		{"handlers/dns_naming/nbns.go", []constPat{
			{"nbns.entry", "parseNodeNameArray", re(`^len\(b\) < n\*` + lit + `$`), 0, nil},
			{"nbns.name", "", re(`^netbiosMaxNameLen = ` + lit + `$`), 0, nil},
			{"nbns.groupflag", "parseNodeNameArray", re(`^flags & ` + lit + `$`), 0, nil},
			{"nbns.encoded.label", "decodeNBNSName", re(`^buf\[0\] != ` + lit + `$`), 0, nil},
		}},
		{"handlers/dns_naming/mdns.go", []constPat{
			{"mdns.cache.minutes", "putMDNSCache", re(`^time\.Minute \* ` + lit + `$`), 0, nil},
		}},
	}
	for _, f := range files {
		got, err := extract(filepath.Join(repo, f.path), f.pats)
		if err != nil {
			r.Stat("consts.unparsed."+f.path, 1)
			continue
		}
		for _, p := range f.pats {
			v, ok := got[p.name]
			if !ok {
				r.Stat("consts.unrecognised."+p.name, 1)
				continue
			}
			r.Case("consts", []string{p.name, fmt.Sprint(v)}, "ok")
			r.Stat("consts.read", 1)
		}
	}
}
