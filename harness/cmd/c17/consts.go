package main

// Source-derived constants: the numeric constants the Coq models hard-code are read from the Go
// source of the tree under test ($VERIF_REPO) with go/ast and compared with the model's table
// (case kind `consts <name> <value>`; Model/DNSConsts.v). An AST shape that is not recognised any
// more is counted (stat consts.unrecognised.<name>) and produces no case.

import (
	"bytes"
	"fmt"
	"go/ast"
	"go/parser"
	"go/printer"
	"go/token"
	"os"
	"path/filepath"
	"regexp"
	"strconv"
	"strings"

	"pvharness/lib"
)

type constPat struct {
	name string
	fn   string         // enclosing function ("" = file level)
	re   *regexp.Regexp // matched against the printed source of expression / case-list / spec nodes
	idx  int            // which match in source order (0 = first): case values and repeated tests are identified by position
}

func src(fset *token.FileSet, n ast.Node) string {
	var b bytes.Buffer
	printer.Fprint(&b, fset, n)
	return strings.Join(strings.Fields(b.String()), " ")
}

func num(s string) (int64, bool) {
	v, err := strconv.ParseInt(s, 0, 64)
	return v, err == nil
}

// extract returns name -> value for the patterns found in one file
func extract(path string, pats []constPat) (map[string]int64, error) {
	fset := token.NewFileSet()
	f, err := parser.ParseFile(fset, path, nil, 0)
	if err != nil {
		return nil, err
	}
	out := map[string]int64{}
	hits := map[string]int{}
	try := func(fn string, n ast.Node) {
		s := src(fset, n)
		for _, p := range pats {
			if p.fn != fn {
				continue
			}
			if m := p.re.FindStringSubmatch(s); m != nil {
				if v, ok := num(m[1]); ok {
					if hits[p.name] == p.idx {
						out[p.name] = v
					}
					hits[p.name]++
				}
			}
		}
	}
	for _, d := range f.Decls {
		switch d := d.(type) {
		case *ast.GenDecl:
			for _, sp := range d.Specs {
				try("", sp)
			}
		case *ast.FuncDecl:
			if d.Body == nil {
				continue
			}
			name := d.Name.Name
			ast.Inspect(d.Body, func(n ast.Node) bool {
				switch n := n.(type) {
				case *ast.BinaryExpr, *ast.AssignStmt, *ast.CallExpr:
					try(name, n)
				case *ast.SwitchStmt:
					if n.Tag != nil {
						try(name, n.Tag)
					}
				case *ast.CaseClause:
					for _, e := range n.List {
						try(name, &ast.ExprStmt{X: &ast.CallExpr{Fun: ast.NewIdent("case"), Args: []ast.Expr{e}}})
					}
				}
				return true
			})
		}
	}
	return out, nil
}

func re(s string) *regexp.Regexp { return regexp.MustCompile(s) }

const lit = `(0[xX][0-9a-fA-F]+|\d+)`

func genConsts(r *lib.Run) {
	repo := os.Getenv("VERIF_REPO")
	if repo == "" {
		repo = "/repo"
	}
	files := []struct {
		path string
		pats []constPat
	}{
		{"layer_dns.go", []constPat{
			{"maxRecursionLevel", "", re(`^maxRecursionLevel = ` + lit + `$`), 0},
			{"name.window", "decodeName", re(`^index2-offset > ` + lit + `$`), 0},
			{"name.topmask", "decodeName", re(`^data\[index\] & ` + lit + `$`), 0},
			{"name.case.pointer", "decodeName", re(`^case\(` + lit + `\)$`), 0},
			{"name.case.reserved40", "decodeName", re(`^case\(` + lit + `\)$`), 1},
			{"name.case.reserved80", "decodeName", re(`^case\(` + lit + `\)$`), 2},
			{"name.ptrmask", "decodeName", re(`^binary\.BigEndian\.Uint16\(data\[index:index\+2\]\) & ` + lit + `$`), 0},
			{"header.min", "IsValid", re(`^len\(p\) >= ` + lit + `$`), 0},
			{"question.count", "DecodeQuestion", re(`^p\.QDCount\(\) != ` + lit + `$`), 0},
			{"question.min", "DecodeQuestion", re(`^index\+` + lit + ` > len\(p\)$`), 0},
			{"question.tail", "DecodeQuestion", re(`^endq\+` + lit + ` > len\(p\)$`), 0},
			{"rr.header", "decodeRRs", re(`^endq\+` + lit + ` > len\(p\)$`), 0},
			{"rr.type.A", "decodeRRs", re(`^case\(` + lit + `\)$`), 0},
			{"rr.type.AAAA", "decodeRRs", re(`^case\(` + lit + `\)$`), 1},
			{"rr.type.CNAME", "decodeRRs", re(`^case\(` + lit + `\)$`), 2},
			{"rr.type.MX", "decodeRRs", re(`^case\(` + lit + `\)$`), 3},
			{"rr.type.PTR", "decodeRRs", re(`^case\(` + lit + `\)$`), 4},
			{"rr.len.A", "decodeRRs", re(`^dataLen != ` + lit + `$`), 0},
			{"rr.len.AAAA", "decodeRRs", re(`^dataLen != ` + lit + `$`), 1},
		}},
		{"handlers/dns_naming/dns.go", []constPat{
			{"processdns.index", "ProcessDNS", re(`^index := ` + lit + `$`), 0},
			{"processdns.buffer", "ProcessDNS", re(`^make\(\[\]byte, 0, ` + lit + `\)$`), 0},
		}},
		{"handlers/dns_naming/nbns.go", []constPat{
			{"nbns.entry", "parseNodeNameArray", re(`^len\(b\) < n\*` + lit + `$`), 0},
			{"nbns.name", "", re(`^netbiosMaxNameLen = ` + lit + `$`), 0},
			{"nbns.groupflag", "parseNodeNameArray", re(`^flags & ` + lit + `$`), 0},
			{"nbns.encoded.label", "decodeNBNSName", re(`^buf\[0\] != ` + lit + `$`), 0},
		}},
		{"handlers/dns_naming/mdns.go", []constPat{
			{"mdns.cache.minutes", "putMDNSCache", re(`^time\.Minute \* ` + lit + `$`), 0},
		}},
	}
	for _, f := range files {
		got, err := extract(filepath.Join(repo, f.path), f.pats)
		if err != nil {
			r.Stat("consts.unparsed."+f.path, 1)
			continue
		}
		for _, p := range f.pats {
			v, ok := got[p.name]
			if !ok {
				r.Stat("consts.unrecognised."+p.name, 1)
				continue
			}
			r.Case("consts", []string{p.name, fmt.Sprint(v)}, "ok")
			r.Stat("consts.read", 1)
		}
	}
}
