package main

import (
	"bytes"
	"fmt"
	"net"
	"net/netip"
	"sort"
	"strings"
	"sync"

	"github.com/irai/packet"
	"github.com/irai/packet/handlers/dns_naming"
	"golang.org/x/net/dns/dnsmessage"
	"pvharness/lib"
)

type triple struct {
	k, v []byte
	ttl  uint32
}

func showTriples(tag string, l []triple) string {
	sort.Slice(l, func(i, j int) bool { return bytes.Compare(l[i].k, l[j].k) < 0 })
	var s []string
	for _, t := range l {
		s = append(s, fmt.Sprintf("%s=%s=%d", lib.Hex(t.k), lib.Hex(t.v), t.ttl))
	}
	return tag + ":" + strings.Join(s, ",")
}

func dumpEntry(e packet.DNSEntry) string {
	var a, q, c, p []triple
	for k, v := range e.IP4Records {
		a = append(a, triple{k.AsSlice(), []byte(v.Name), v.TTL})
	}
	for k, v := range e.IP6Records {
		q = append(q, triple{k.AsSlice(), []byte(v.Name), v.TTL})
	}
	for k, v := range e.CNameRecords {
		c = append(c, triple{[]byte(k), []byte(v.CName), v.TTL})
		if k != v.Name {
			panic("harness: CNAME map key differs from record name")
		}
	}
	for k, v := range e.PTRRecords {
		p = append(p, triple{[]byte(k), v.IP.AsSlice(), v.TTL})
		if k != v.Name {
			panic("harness: PTR map key differs from record name")
		}
	}
	return strings.Join([]string{showTriples("4", a), showTriples("6", q), showTriples("c", c), showTriples("p", p)}, "/")
}

// ---- independent view of a message through dnsmessage ----
type refMsg struct {
	qname   string
	records []string // "A name ip ttl" ...
}

// refParse reads question + answers with dnsmessage; ok=false when dnsmessage rejects the message.
func refParse(msg []byte) (m refMsg, ok bool, why string) {
	// pass 1: bounds of every section (the typed accessors below do not check RDLENGTH against the message)
	var p1 dnsmessage.Parser
	if _, err := p1.Start(msg); err != nil {
		return m, false, err.Error()
	}
	if err := p1.SkipAllQuestions(); err != nil {
		return m, false, err.Error()
	}
	if err := p1.SkipAllAnswers(); err != nil {
		return m, false, err.Error()
	}
	var p dnsmessage.Parser
	if _, err := p.Start(msg); err != nil {
		return m, false, err.Error()
	}
	q, err := p.Question()
	if err != nil {
		return m, false, err.Error()
	}
	m.qname = strings.TrimSuffix(q.Name.String(), ".")
	if _, err := p.Question(); err != dnsmessage.ErrSectionDone {
		return m, false, "more than one question"
	}
	for {
		hdr, err := p.AnswerHeader()
		if err == dnsmessage.ErrSectionDone {
			break
		}
		if err != nil {
			return m, false, err.Error()
		}
		owner := strings.TrimSuffix(hdr.Name.String(), ".")
		switch hdr.Type {
		case dnsmessage.TypeA:
			if hdr.Length != 4 { // dnsmessage does not compare RDLENGTH with the fixed size
				return m, false, "A RDLENGTH != 4"
			}
			r, err := p.AResource()
			if err != nil {
				return m, false, err.Error()
			}
			m.records = append(m.records, fmt.Sprintf("A %x %x %d", "."+owner, r.A[:], hdr.TTL))
		case dnsmessage.TypeAAAA:
			if hdr.Length != 16 {
				return m, false, "AAAA RDLENGTH != 16"
			}
			r, err := p.AAAAResource()
			if err != nil {
				return m, false, err.Error()
			}
			m.records = append(m.records, fmt.Sprintf("AAAA %x %x %d", "."+owner, r.AAAA[:], hdr.TTL))
		case dnsmessage.TypeCNAME:
			r, err := p.CNAMEResource()
			if err != nil {
				return m, false, err.Error()
			}
			m.records = append(m.records, fmt.Sprintf("CNAME %x %x %d", "."+owner, "."+strings.TrimSuffix(r.CNAME.String(), "."), hdr.TTL))
		case dnsmessage.TypePTR:
			r, err := p.PTRResource()
			if err != nil {
				return m, false, err.Error()
			}
			m.records = append(m.records, fmt.Sprintf("PTR %x %x %d", "."+owner, "."+strings.TrimSuffix(r.PTR.String(), "."), hdr.TTL))
		default:
			if err := p.SkipAnswer(); err != nil {
				return m, false, err.Error()
			}
		}
	}
	return m, true, ""
}

// expected entry of a fresh cache from the dnsmessage view (insert-if-absent, IPv4 reverse owners only)
func refEntry(m refMsg) (string, bool) {
	var a, q, c, p []triple
	seen := map[string]bool{}
	skippedPTR := false
	for _, r := range m.records {
		f := strings.Split(r, " ")
		var ttl uint32
		fmt.Sscan(f[3], &ttl)
		unhex := func(x string) string { return string(lib.UnHex(x))[1:] } // names travel hex-encoded with a leading '.'
		f[1] = unhex(f[1])
		if f[0] == "CNAME" || f[0] == "PTR" {
			f[2] = unhex(f[2])
		}
		switch f[0] {
		case "A", "AAAA":
			var ip []byte
			fmt.Sscanf(f[2], "%x", &ip)
			if seen[f[0]+f[2]] {
				continue
			}
			seen[f[0]+f[2]] = true
			if f[0] == "A" {
				a = append(a, triple{ip, []byte(f[1]), ttl})
			} else {
				q = append(q, triple{ip, []byte(f[1]), ttl})
			}
		case "CNAME":
			if seen["C"+f[1]] {
				continue
			}
			seen["C"+f[1]] = true
			c = append(c, triple{[]byte(f[1]), []byte(f[2]), ttl})
		case "PTR":
			if !strings.HasSuffix(f[1], ".in-addr.arpa") {
				skippedPTR = true
				continue
			}
			ip, err := netip.ParseAddr(strings.TrimSuffix(f[1], ".in-addr.arpa"))
			if err != nil || !ip.Is4() {
				skippedPTR = true
				continue
			}
			b := ip.As4()
			if seen["P"+f[2]] {
				continue
			}
			seen["P"+f[2]] = true
			p = append(p, triple{[]byte(f[2]), []byte{b[3], b[2], b[1], b[0]}, ttl})
		}
	}
	return strings.Join([]string{showTriples("4", a), showTriples("6", q), showTriples("c", c), showTriples("p", p)}, "/"), skippedPTR
}

// ---- rrs: DecodeAnswers on a fresh entry ----
func rawRRS(a []string) string {
	p := withCap(lib.UnHex(a[0]), lib.UnHex(a[1]))
	off := atoi(a[2])
	pre := lib.UnHex(a[3])
	buf := make([]byte, len(pre), len(pre)+atoi(a[4]))
	copy(buf, pre)
	e := packet.NewDNSEntry()
	res := guarded(func() string {
		n, upd, err := e.DecodeAnswers(packet.DNS(p), off, buf)
		if err != nil {
			return errClass(err)
		}
		return fmt.Sprintf("ok:%d:%s", n, tf(upd))
	})
	return res + " " + dumpEntry(e)
}

// ---- pdns: ProcessDNS history ----
var (
	sessOnce sync.Once
	sess     *packet.Session
)

func session() *packet.Session {
	sessOnce.Do(func() { sess, _ = lib.NewSession() })
	return sess
}

var dnsServerIP = netip.MustParseAddr("8.8.8.8")

func dnsFrame(msg, spare []byte) []byte {
	f := lib.MkEther(lib.HostMAC, lib.RouterMAC, 0x0800, lib.MkIP4(dnsServerIP, lib.HostIP4, 17, 64, lib.MkUDP(53, 40000, msg)))
	return withCap(f, spare)
}

func rawPDNS(a []string) string {
	s := session()
	h := dns_naming.VerifNew(s)
	var out []string
	for _, m := range strings.Split(a[0], ";") {
		f := strings.Split(m, ":")
		msg, sp := lib.UnHex(f[0]), lib.UnHex(f[1])
		frame, err := s.Parse(dnsFrame(msg, sp))
		if err != nil {
			out = append(out, "parse-error")
			continue
		}
		if !bytes.Equal(frame.Payload(), msg) {
			out = append(out, "payload-mismatch")
			continue
		}
		res := guarded(func() string {
			e, err := h.ProcessDNS(frame)
			if err != nil {
				return errClass(err)
			}
			if e.IP4Records == nil && e.Name == "" {
				return "none"
			}
			return "upd:" + lib.Hex([]byte(e.Name)) + ">" + dumpEntry(e)
		})
		out = append(out, res)
	}
	var names []string
	for k := range h.DNSTable {
		names = append(names, k)
	}
	sort.Slice(names, func(i, j int) bool { return bytes.Compare([]byte(names[i]), []byte(names[j])) < 0 })
	var tbl []string
	for _, k := range names {
		e := h.DNSFind(k)
		if e.Name != k {
			tbl = append(tbl, "table-key-mismatch")
		}
		tbl = append(tbl, lib.Hex([]byte(k))+">"+dumpEntry(e))
	}
	return strings.Join(out, ";") + " " + strings.Join(tbl, "|")
}

// oraclePDNS: dnsmessage as independent implementation. On a message it accepts, ProcessDNS must not fail
// (except the recorded PTR-owner class); on the first message of a history (fresh table) the returned entry
// must equal the entry built from dnsmessage's view of question and answers.
func oraclePDNS(r *lib.Run, step int, msg []byte, res string, replay string) {
	m, ok, _ := refParse(msg)
	if !ok {
		r.Stat("oracle.pdns.dnsmessage-rejects", 1)
		return
	}
	r.Stat("oracle.pdns.dnsmessage-ok", 1)
	want, skipped := refEntry(m)
	if strings.HasPrefix(res, "err:") || res == "panic" || res == "fuel" {
		if skipped {
			r.Known("ptr-owner-not-ipv4", "ProcessDNS fails on a message dnsmessage decodes: a PTR owner is not an IPv4 in-addr.arpa name ("+res+")")
			return
		}
		r.Viol("pdns-rejects-valid-message", fmt.Sprintf("dnsmessage decodes the message (question %q, %d records), ProcessDNS: %s", m.qname, len(m.records), res), replay)
		return
	}
	if step != 0 {
		return
	}
	empty := "4:/6:/c:/p:"
	got := empty
	if strings.HasPrefix(res, "upd:") {
		name, dump, _ := strings.Cut(strings.TrimPrefix(res, "upd:"), ">")
		got = dump
		if string(lib.UnHex(name)) != m.qname {
			r.Viol("pdns-question-name", fmt.Sprintf("dnsmessage question %q, entry returned for %q", m.qname, lib.UnHex(name)), replay)
			return
		}
	}
	if got == want {
		r.Stat("oracle.pdns.entry-equal", 1)
		return
	}
	gs, ws := strings.Split(got, "/"), strings.Split(want, "/")
	if gs[0] == ws[0] && gs[1] == ws[1] && gs[3] == ws[3] {
		r.Known("cname-owner-aliased", "CNAME records stored differ from those dnsmessage reads: got "+gs[2]+" want "+ws[2])
		return
	}
	r.Viol("pdns-records-differ", fmt.Sprintf("entry differs from dnsmessage view: got %s want %s", got, want), replay)
}

// ---- nbns: ProcessNBNS on a response with one NODE STATUS answer ----
func nbnsMessage(rdata []byte) []byte {
	a := header(0x4242, 0x8400, 0, 1, 0, 0)
	name := []byte{0x20}
	for _, c := range []byte("*               ") {
		name = append(name, 'A'+(c>>4), 'A'+(c&0x0f))
	}
	name = append(name, 0)
	a.Raw(name...).U16(0x21).U16(1).U32(0).U16(len(rdata)).Raw(rdata...)
	b, _ := a.Bytes()
	return b
}

func rawNBNS(a []string) string {
	rdata := lib.UnHex(a[0])
	h := dns_naming.VerifNew(session())
	msg := nbnsMessage(rdata)
	n, err := h.ProcessNBNS(nil, packet.Ether(nil), msg)
	if err != nil {
		return errClass(err)
	}
	if n.Name == "" {
		return "none"
	}
	return "name:" + lib.Hex([]byte(n.Name))
}

// ---- nbenc / nbdec / nna: the unexported NetBIOS codecs through the verif hooks ----
func runNBEnc(r *lib.Run) func(a []string) string {
	return func(a []string) string {
		return lib.Hex(dns_naming.VerifEncodeNBNSName(string(lib.UnHex(a[0]))))
	}
}

func rawNBDec(a []string) string {
	buf := withCap(lib.UnHex(a[0]), lib.UnHex(a[1]))
	n, name, err := dns_naming.VerifDecodeNBNSName(buf)
	if err != nil {
		return errClass(err)
	}
	return fmt.Sprintf("%d %s", n, lib.Hex([]byte(name)))
}

func rawNNA(a []string) string {
	b := lib.UnHex(a[0])
	b = b[:len(b):len(b)]
	names, err := dns_naming.VerifParseNodeNameArray(b)
	if err != nil {
		return errClass(err)
	}
	if len(names) == 0 {
		return "none"
	}
	var out []string
	for _, n := range names {
		out = append(out, lib.Hex([]byte(n)))
	}
	return strings.Join(out, ",")
}

var _ = net.IPv4len
