// C17: DNS name / question / record decoding and the name-merge algebra of
// irai/packet against the Coq model (Model/DNS*.v), the Coq reference decoder
// (Spec/RFC1035.v) and golang.org/x/net/dns/dnsmessage as an independent
// implementation (Go-side oracle => viol records).
package main

import (
	"errors"
	"fmt"
	"io"
	"os"
	"strconv"
	"strings"
	"time"

	"github.com/irai/packet"
	"github.com/irai/packet/fastlog"
	"golang.org/x/net/dns/dnsmessage"
	"pvharness/lib"
)

func errClass(err error) string {
	switch {
	case errors.Is(err, packet.ErrParseFrame):
		return "err:EParseFrame"
	case errors.Is(err, packet.ErrFrameLen):
		return "err:EFrameLen"
	default:
		return "err:EOther"
	}
}

// withCap returns p with exactly len(spare) bytes of spare capacity holding spare.
func withCap(p, spare []byte) []byte {
	full := make([]byte, len(p)+len(spare))
	copy(full, p)
	copy(full[len(p):], spare)
	return full[:len(p):len(full)]
}

// guarded runs f under recover and a watchdog: "panic" / "fuel".
func guarded(f func() string) string {
	ch := make(chan string, 1)
	go func() {
		defer func() {
			if e := recover(); e != nil {
				ch <- "panic"
			}
		}()
		ch <- f()
	}()
	select {
	case s := <-ch:
		return s
	case <-time.After(5 * time.Second):
		return "fuel"
	}
}

func atoi(s string) int {
	v, err := strconv.Atoi(s)
	if err != nil {
		panic(err)
	}
	return v
}

// ---------------------------------------------------------------- dq

// rawDQ: dq <p> <spare> <index> <bufpre> <bufspare>
func rawDQ(a []string) string {
	p := withCap(lib.UnHex(a[0]), lib.UnHex(a[1]))
	index := atoi(a[2])
	pre := lib.UnHex(a[3])
	buf := make([]byte, len(pre), len(pre)+atoi(a[4]))
	copy(buf, pre)
	q, off, err := packet.DecodeQuestion(packet.DNS(p), index, buf)
	if err != nil {
		return errClass(err)
	}
	return fmt.Sprintf("%s %d %d %d", lib.Hex(q.Name), q.Type, q.Class, off)
}

// oracleDQ compares with dnsmessage when the question sits at offset 12 of a message with QDCOUNT 1.
func oracleDQ(r *lib.Run, a []string, p []byte, index int, obs string) {
	if index != 12 || len(p) < 12 || p[4] != 0 || p[5] != 1 {
		return
	}
	replay := "dq " + strings.Join(a, " ")
	var ps dnsmessage.Parser
	if _, err := ps.Start(p); err != nil {
		return
	}
	q, err := ps.Question()
	libOK := !strings.HasPrefix(obs, "err:") && obs != "panic" && obs != "fuel"
	if err == nil {
		r.Stat("oracle.dq.dnsmessage-ok", 1)
		want := strings.TrimSuffix(q.Name.String(), ".")
		if !libOK {
			r.Viol("dq-rejects-valid-question", fmt.Sprintf("dnsmessage decodes question %q, library: %s", want, obs), replay)
			return
		}
		f := strings.Fields(obs)
		got := string(lib.UnHex(f[0]))
		if got != want || f[1] != fmt.Sprint(uint16(q.Type)) || f[2] != fmt.Sprint(uint16(q.Class)) {
			r.Viol("dq-differs-from-dnsmessage", fmt.Sprintf("dnsmessage: %q %d %d, library: %q %s %s", want, q.Type, q.Class, got, f[1], f[2]), replay)
		}
		return
	}
	es := err.Error()
	switch {
	case strings.Contains(es, "too many pointers"):
		r.Stat("oracle.dq.dnsmessage-ptr-limit", 1) // dnsmessage follows at most 10 pointers: outside its domain
	case strings.Contains(es, "invalid dns name") || strings.Contains(es, "name too long"):
		r.Stat("oracle.dq.dnsmessage-stricter", 1) // dots inside labels / 255-octet limit: leniency of the library, not contradicted by the property
	default:
		r.Stat("oracle.dq.dnsmessage-err", 1)
		if libOK {
			if obs != "" {
				// accepted a question dnsmessage rejects: truncated type/class (#17) is flagged by the model key;
				// anything else is reported here
				f := strings.Fields(obs)
				off := atoi(f[3])
				if off > len(p) {
					r.Stat("oracle.dq.type-class-past-len", 1) // #17: flagged by the model's key dq-past-len
					return
				}
			}
			r.Viol("dq-accepts-invalid-question", fmt.Sprintf("dnsmessage rejects (%v), library: %s", err, obs), replay)
		}
	}
}

// ---------------------------------------------------------------- merge / upd

func mkTime(k int) time.Time {
	if k == 0 {
		return time.Time{}
	}
	return time.Unix(int64(k), 0)
}
func showTime(t time.Time) string {
	if t == (time.Time{}) {
		return "0"
	}
	return fmt.Sprint(t.Unix())
}

func parseEntry(f []string) packet.NameEntry {
	s := func(x string) string { return string(lib.UnHex(x)) }
	return packet.NameEntry{Type: s(f[0]), Name: s(f[1]), Model: s(f[2]), Manufacturer: s(f[3]), OS: s(f[4]), Expire: mkTime(atoi(f[5]))}
}
func showEntry(e packet.NameEntry) string {
	h := func(x string) string { return lib.Hex([]byte(x)) }
	return strings.Join([]string{h(e.Type), h(e.Name), h(e.Model), h(e.Manufacturer), h(e.OS), showTime(e.Expire)}, ",")
}
func tf(b bool) string {
	if b {
		return "T"
	}
	return "F"
}

type attrs struct {
	name, model, os, manu string
	exp                    time.Time
}

func attrsOf(e packet.NameEntry) attrs { return attrs{e.Name, e.Model, e.OS, e.Manufacturer, e.Expire} }

// Go-side oracle of the merge algebra, independent of the Coq statements.
func oracleMerge(r *lib.Run, e, n, m packet.NameEntry, mod bool, replay string) {
	erased := (e.Name != "" && m.Name == "") || (e.Model != "" && m.Model == "") || (e.OS != "" && m.OS == "") ||
		(e.Manufacturer != "" && m.Manufacturer == "") || (e.Expire != (time.Time{}) && m.Expire == (time.Time{}))
	if erased {
		r.Viol("merge-erases", "Merge erased a non-empty attribute", replay)
	}
	if mod != (attrsOf(e) != attrsOf(m)) {
		r.Viol("merge-report", fmt.Sprintf("Merge reports %v but attributes changed=%v", mod, attrsOf(e) != attrsOf(m)), replay)
	}
	m2, mod2 := m.Merge(n)
	if mod2 || m2 != m {
		r.Viol("merge-idempotent", "Merge is not idempotent", replay)
	}
}

func runMerge(r *lib.Run) func(a []string) string {
	return func(a []string) string {
		e := parseEntry(strings.Split(a[0], ","))
		n := parseEntry(strings.Split(a[1], ","))
		m, mod := e.Merge(n)
		oracleMerge(r, e, n, m, mod, "merge "+a[0]+" "+a[1])
		return showEntry(m) + " " + tf(mod)
	}
}

func hostEntry(h *packet.Host, src int) *packet.NameEntry {
	switch src {
	case 0:
		return &h.DHCP4Name
	case 1:
		return &h.LLMNRName
	case 2:
		return &h.MDNSName
	case 3:
		return &h.SSDPName
	}
	return &h.NBNSName
}
func macEntry(m *packet.MACEntry, src int) *packet.NameEntry {
	switch src {
	case 0:
		return &m.DHCP4Name
	case 1:
		return &m.LLMNRName
	case 2:
		return &m.MDNSName
	case 3:
		return &m.SSDPName
	}
	return &m.NBNSName
}

func runUpd(r *lib.Run) func(a []string) string {
	return func(a []string) string {
		mac := &packet.MACEntry{}
		hosts := []*packet.Host{{MACEntry: mac}, {MACEntry: mac}, {MACEntry: mac}}
		var out []string
		for _, op := range strings.Split(a[0], ";") {
			f := strings.Split(op, ",")
			h, src := hosts[atoi(f[0])], atoi(f[1])
			n := parseEntry(f[2:])
			before, macBefore, dirtyBefore := *hostEntry(h, src), *macEntry(mac, src), h.Dirty()
			switch src {
			case 0:
				h.UpdateDHCP4Name(n)
			case 1:
				h.UpdateLLMNRName(n)
			case 2:
				h.UpdateMDNSName(n)
			case 3:
				h.UpdateSSDPName(n)
			case 4:
				h.UpdateNBNSName(n)
			}
			after, macAfter := *hostEntry(h, src), *macEntry(mac, src)
			changed := attrsOf(before) != attrsOf(after)
			if h.Dirty() != (dirtyBefore || changed) {
				r.Viol("update-dirty", fmt.Sprintf("Dirty()=%v after an update that changed=%v (dirty before %v)", h.Dirty(), changed, dirtyBefore), "upd "+a[0])
			}
			for _, pr := range [][2]packet.NameEntry{{before, after}, {macBefore, macAfter}} {
				b, c := pr[0], pr[1]
				if (b.Name != "" && c.Name == "") || (b.Model != "" && c.Model == "") || (b.OS != "" && c.OS == "") ||
					(b.Manufacturer != "" && c.Manufacturer == "") || (b.Expire != (time.Time{}) && c.Expire == (time.Time{})) {
					r.Viol("update-erases", "Update*Name erased a non-empty attribute", "upd "+a[0])
				}
			}
			out = append(out, "d"+tf(h.Dirty())+":"+showEntry(after)+"|"+showEntry(macAfter))
		}
		return strings.Join(out, ";")
	}
}

// ---------------------------------------------------------------- main

func main() {
	rawRunners["dq"] = rawDQ
	rawRunners["rrs"] = rawRRS
	rawRunners["pdns"] = rawPDNS
	rawRunners["nbns"] = rawNBNS
	rawRunners["nbdec"] = rawNBDec
	rawRunners["nna"] = rawNNA
	rawRunners["mdns"] = rawMDNS
	if len(os.Args) > 1 && os.Args[1] == "-worker" {
		workerMain()
		return
	}
	defer pool.stop()
	r := lib.Init()
	defer r.Close()
	rng := r.Rand()
	fastlog.DefaultIOWriter = io.Discard
	if dn, err := os.OpenFile(os.DevNull, os.O_WRONLY, 0); err == nil {
		os.Stdout = dn // the library prints diagnostics with fmt.Println
	}

	r.Register("dq", viaWorker("dq", func(a []string, obs string) {
		oracleDQ(r, a, lib.UnHex(a[0]), atoi(a[2]), obs)
	}))
	r.Register("merge", runMerge(r))
	r.Register("upd", runUpd(r))
	r.Register("consts", func(a []string) string { return "ok" }) // the value is in the case line (read from the source)
	r.Register("rrs", viaWorker("rrs", nil))
	r.Register("pdns", viaWorker("pdns", func(a []string, obs string) {
		steps := strings.Split(strings.Fields(obs)[0], ";")
		for i, m := range strings.Split(a[0], ";") {
			if i < len(steps) {
				oraclePDNS(r, i, lib.UnHex(strings.Split(m, ":")[0]), steps[i], "pdns "+a[0])
			}
		}
	}))
	r.Register("nbns", viaWorker("nbns", nil))
	r.Register("mdns", viaWorker("mdns", func(a []string, obs string) {
		for _, ss := range strings.Split(a[1], ";") {
			st := parseMStep(ss)
			oracleMDNSWire(r, st, st.wire(), "mdns "+a[0]+" "+a[1])
		}
	}))
	r.Register("nbenc", runNBEnc(r))
	r.Register("nbdec", viaWorker("nbdec", nil))
	r.Register("nna", viaWorker("nna", nil))
	if r.Replayed() {
		return
	}
	genConsts(r)
	genDQ(r, rng)
	if r.Thorough() {
		genDQExhaustive(r, 5) // 111110 bodies
	} else {
		genDQExhaustive(r, 3) // 1110 bodies
	}
	genRRS(r, rng)
	genPDNS(r, rng)
	genNBNS(r, rng)
	genNBName(r, rng)
	genMDNS(r, rng)
	genMerge(r, rng)
}
