package main

import (
	"bytes"
	"fmt"
	"net"
	"net/netip"
	"strings"
	"time"

	"github.com/irai/packet"
	"github.com/irai/packet/handlers/dns_naming"
	"golang.org/x/net/dns/dnsmessage"
	"pvharness/lib"
)

// one mDNS / LLMNR message as the case line describes it
type mItem struct {
	sec  string // "q" question, "a" answer, "n" authority, "r" additional
	typ  string // A, Q (AAAA), T (TXT), P (PTR), S (SRV), N (type 47), U (type 99)
	name string // presentation form without trailing dot; "" = root
	data []byte // A/AAAA address, TXT rdata, PTR/SRV target name (presentation), raw otherwise
}
type mStep struct {
	now      int // seconds on the virtual clock
	id       int
	response bool
	comp     int
	items    []mItem
}

func parseMStep(s string) mStep {
	f := strings.Split(s, ",")
	st := mStep{id: atoi(f[0]), response: f[1] == "R", comp: atoi(f[2])}
	if len(f) > 4 {
		st.now = atoi(f[4])
	}
	for _, it := range strings.Split(f[3], "/") {
		if it == "-" {
			continue
		}
		p := strings.Split(it, ":")
		if p[0] == "q" {
			st.items = append(st.items, mItem{sec: "q", name: string(lib.UnHex(p[1]))})
		} else {
			st.items = append(st.items, mItem{sec: p[0], typ: p[1], name: string(lib.UnHex(p[2])), data: lib.UnHex(p[3])})
		}
	}
	return st
}

// compName writes a name, compressing against suffixes already written when comp > 0
func compName(a *asm, name string, seen map[string]bool, comp int) {
	labels := lbl(name)
	for i := range labels {
		suffix := strings.Join(strings.Split(name, ".")[i:], ".")
		if comp > 0 && seen[suffix] && (comp == 2 || i == 0) {
			a.Ptr("S:" + suffix)
			return
		}
		if !seen[suffix] {
			seen[suffix] = true
			a.Mark("S:" + suffix)
		}
		a.Raw(byte(len(labels[i]))).Raw(labels[i]...)
	}
	a.Raw(0)
}

var mTypes = map[string]int{"A": 1, "Q": 28, "T": 16, "P": 12, "S": 33, "N": 47, "U": 99}

func (st mStep) wire() []byte {
	cnt := map[string]int{}
	for _, it := range st.items {
		cnt[it.sec]++
	}
	flags := 0
	if st.response {
		flags = 0x8400
	}
	a := header(st.id, flags, cnt["q"], cnt["a"], cnt["n"], cnt["r"])
	seen := map[string]bool{}
	for _, sec := range []string{"q", "a", "n", "r"} {
		for _, it := range st.items {
			if it.sec != sec {
				continue
			}
			compName(a, it.name, seen, st.comp)
			if sec == "q" {
				a.U16(255).U16(1)
				continue
			}
			rd := &asm{}
			switch it.typ {
			case "P":
				compName(rd, string(it.data), seen, st.comp)
			case "S":
				rd.U16(0).U16(0).U16(8080)
				compName(rd, string(it.data), map[string]bool{}, 0) // dnsmessage rejects compressed SRV targets
			default:
				rd.Raw(it.data...)
			}
			a.U16(mTypes[it.typ]).U16(1).U32(120).U16(rd.Size()).Append(rd)
		}
	}
	b, _ := a.Bytes()
	return b
}

var mdnsDstMAC = net.HardwareAddr{0x01, 0x00, 0x5e, 0x00, 0x00, 0xfb}

func showIPN(l []packet.IPNameEntry) string {
	var out []string
	for _, e := range l {
		ip := "-"
		if e.Addr.IP.IsValid() {
			ip = lib.Hex(e.Addr.IP.AsSlice())
		}
		h := func(s string) string { return lib.Hex([]byte(s)) }
		out = append(out, ip+"="+h(e.NameEntry.Name)+"="+h(e.NameEntry.Model)+"="+h(e.NameEntry.Manufacturer))
	}
	return strings.Join(out, ",")
}

// mdns <mac> <step>;<step>...
func rawMDNS(a []string) string {
	s := session()
	h := dns_naming.VerifNew(s)
	mac := net.HardwareAddr(lib.UnHex(a[0]))
	var out []string
	clock := 0
	for _, ss := range strings.Split(a[1], ";") {
		st := parseMStep(ss)
		if st.now > clock { // the cache reads time.Now(): age its entries instead of waiting
			h.VerifAgeMDNSCache(time.Duration(st.now-clock) * time.Second)
			clock = st.now
		}
		msg := st.wire()
		f := lib.MkEther(mdnsDstMAC, mac, 0x0800, lib.MkIP4(netip.MustParseAddr("192.168.0.50"), netip.MustParseAddr("224.0.0.251"), 17, 255, lib.MkUDP(5353, 5353, msg)))
		frame, err := s.Parse(f)
		if err != nil || !bytes.Equal(frame.Payload(), msg) {
			out = append(out, "parse-error")
			continue
		}
		res := guarded(func() string {
			v4, v6, err := h.ProcessMDNS(frame)
			if err != nil {
				return errClass(err)
			}
			for _, e := range append(append([]packet.IPNameEntry{}, v4...), v6...) {
				if e.Addr.IP.IsValid() && !bytes.Equal(e.Addr.MAC, mac) {
					return "wrong-mac"
				}
				if e.NameEntry.Type != "mdns" {
					return "wrong-type"
				}
			}
			return "4:" + showIPN(v4) + "|6:" + showIPN(v6)
		})
		out = append(out, res)
	}
	return strings.Join(out, ";")
}

// oracleMDNSWire: dnsmessage must read from the wire exactly the names and addresses the builder put in
// (independent check of builder and of the compression layouts; the library relies on dnsmessage here).
func oracleMDNSWire(r *lib.Run, st mStep, msg []byte, replay string) {
	var p dnsmessage.Parser
	if _, err := p.Start(msg); err != nil {
		r.Viol("mdns-builder", "dnsmessage rejects the header: "+err.Error(), replay)
		return
	}
	qs, err := p.AllQuestions()
	if err != nil {
		r.Viol("mdns-builder", "dnsmessage rejects the questions: "+err.Error(), replay)
		return
	}
	var want []string
	for _, it := range st.items {
		if it.sec == "q" {
			want = append(want, it.name)
		}
	}
	for i, q := range qs {
		if i >= len(want) || strings.TrimSuffix(q.Name.String(), ".") != want[i] {
			r.Viol("mdns-builder", fmt.Sprintf("question %d: dnsmessage reads %q", i, q.Name.String()), replay)
			return
		}
	}
	for _, sec := range []string{"a", "n", "r"} {
		var all []dnsmessage.Resource
		switch sec {
		case "a":
			all, err = p.AllAnswers()
		case "n":
			all, err = p.AllAuthorities()
		case "r":
			all, err = p.AllAdditionals()
		}
		if err != nil {
			r.Viol("mdns-builder", "dnsmessage rejects section "+sec+": "+err.Error(), replay)
			return
		}
		k := 0
		for _, it := range st.items {
			if it.sec != sec {
				continue
			}
			if k >= len(all) {
				r.Viol("mdns-builder", "dnsmessage sees fewer resources in section "+sec, replay)
				return
			}
			if strings.TrimSuffix(all[k].Header.Name.String(), ".") != it.name {
				r.Viol("mdns-builder", fmt.Sprintf("resource owner: dnsmessage reads %q, built %q", all[k].Header.Name.String(), it.name), replay)
				return
			}
			k++
		}
	}
	r.Stat("oracle.mdns.dnsmessage-agrees", 1)
}

// ---- generator ----
var mNames = []string{"myhost.local", "printer.local", "Test-iPad.local", "host.example.com", "_ipp._tcp.local", "_services._dns-sd._udp.local",
	"sleep-proxy._udp.local", "my-sleep-proxy.local", "local", "", "x.local.lan", "a.local", "nas.home.local", "LOCAL.local", "b.Local",
	"MyHost.local", "MYHOST.LOCAL", "myhost.Local", "Printer_2-x.local", "caf\xc3\xa9.local", "n\x00l.local"}

func genMDNS(r *lib.Run, rng *lib.Rand) {
	N := 1500
	if r.Thorough() {
		N = 25000
	}
	hx := func(s string) string { return lib.Hex([]byte(s)) }
	txt := func() []byte {
		var out []byte
		n := rng.Pick(0, 1, 2, 3, 4, 5)
		for i := 0; i < n; i++ {
			s := pick(rng, []string{"model=MacBookPro15,1", "ty=Brother HL-L2350DW", "DvTy=iPhone", "md=Chromecast", "txtvers=1", "rp=ipp/print", "a=b=c", "novalue", "=x", "model=", "md", "Model=Mac=Book", "MD=Cast", "TY=Laser=1", "dvty=iPad", "DVTY=x", "mOdEl=m"})
			out = append(out, byte(len(s)))
			out = append(out, s...)
		}
		if n == 0 {
			out = []byte{0}
		}
		return out
	}
	for i := 0; i < N; i++ {
		mac := []byte{0x02, 0x11, 0x22, 0x33, 0x44, byte(rng.Intn(2))}
		var steps []string
		now := 1000
		for s := 0; s < 1+rng.Intn(4); s++ {
			now += rng.Pick(0, 0, 1, 150, 299, 300, 301, 600)
			id := rng.Pick(0, 1, 2)
			comp := rng.Intn(3)
			var items []string
			if rng.Chance(30) { // query
				for q := 0; q < rng.Pick(0, 1, 1, 2, 3); q++ {
					items = append(items, "q:"+hx(pick(rng, mNames)))
				}
				if len(items) == 0 {
					items = []string{"-"}
				}
				steps = append(steps, fmt.Sprintf("%d,Q,%d,%s,%d", id, comp, strings.Join(items, "/"), now))
				continue
			}
			if rng.Chance(20) {
				items = append(items, "q:"+hx(pick(rng, mNames)))
			}
			for k := 0; k < rng.Pick(0, 1, 2, 3, 5); k++ {
				sec := pick(rng, []string{"a", "a", "a", "n", "r", "r"})
				name := pick(rng, mNames)
				switch rng.Intn(9) {
				case 0, 1, 2:
					items = append(items, fmt.Sprintf("%s:A:%s:%s", sec, hx(name), lib.Hex([]byte{192, 168, 0, byte(rng.Intn(4))})))
				case 3, 4:
					ip := make([]byte, 16)
					ip[0], ip[1], ip[15] = 0xfe, 0x80, byte(rng.Intn(3))
					items = append(items, fmt.Sprintf("%s:Q:%s:%s", sec, hx(name), lib.Hex(ip)))
				case 5:
					items = append(items, fmt.Sprintf("%s:T:%s:%s", sec, hx(name), lib.Hex(txt())))
				case 6:
					items = append(items, fmt.Sprintf("%s:P:%s:%s", sec, hx(name), hx(pick(rng, mNames))))
				case 7:
					items = append(items, fmt.Sprintf("%s:S:%s:%s", sec, hx(name), hx(pick(rng, mNames))))
				case 8: // types the handler skips: only the answer section is skippable (SkipAnswer)
					items = append(items, fmt.Sprintf("a:%s:%s:%s", pick(rng, []string{"N", "U"}), hx(name), lib.Hex(rng.Bytes(1+rng.Intn(6)))))
				}
			}
			if len(items) == 0 {
				items = []string{"-"}
			}
			steps = append(steps, fmt.Sprintf("%d,R,%d,%s,%d", id, comp, strings.Join(items, "/"), now))
		}
		r.Do("mdns", lib.Hex(mac), strings.Join(steps, ";"))
	}
	r.Stat("class.mdns.history", int64(N))
}
