package main

import (
	"fmt"
	"strings"

	"pvharness/lib"
)

func lbl(s string) [][]byte {
	var out [][]byte
	if s == "" {
		return out
	}
	for _, p := range strings.Split(s, ".") {
		out = append(out, []byte(p))
	}
	return out
}

var namePool = []string{"www.example.com", "cdn.example.net", "a.b", "host1.lan", "printer.local", "x", "mail.example.com",
	"WWW.Example.COM", "Host1.LAN", "CDN.example.net", "x_1-Y.Z9", "b\xfcro.Example",
	"a-very-long-label-that-fills-the-sixty-four-byte-buffer-quickly.example.org", "edge.cdn.example.net"}
var ptrOwners = []string{"4.3.2.1.in-addr.arpa", "129.0.168.192.in-addr.arpa", "1.0.0.127.in-addr.arpa", "255.255.255.255.in-addr.arpa"}
var badPtrOwners = []string{"4.3.2.1", "::ffff:4.3.2.1.in-addr.arpa", "::1.in-addr.arpa", "1%2.3.2.1.in-addr.arpa", "4.3.2.1.5.in-addr.arpa",
	"1000.3.2.1.in-addr.arpa", "00.0.0.0.in-addr.arpa", "0.0.0.0.in-addr.arpa", "in-addr.arpa", "1.in-addr.arpa", "a.3.2.1.in-addr.arpa",
	"4.3.2.1.in-addr.arpa.lan", "4.3.2.1.in-addr", "-1.3.2.1.in-addr.arpa", "+1.3.2.1.in-addr.arpa", "1 .3.2.1.in-addr.arpa", "255.255.255.256.in-addr.arpa","b.a.9.8.7.6.5.0.4.0.0.0.3.0.0.0.2.0.0.0.1.0.0.0.0.0.0.0.1.2.3.4.ip6.arpa", "_services._dns-sd._udp.local",
	"4.3.2.in-addr.arpa", "04.3.2.1.in-addr.arpa", "256.3.2.1.in-addr.arpa", "4.3.2.1.IN-ADDR.ARPA", "lb._dns-sd._udp.0.0.168.192.in-addr.arpa"}
var ip4Pool = [][]byte{{192, 168, 0, 10}, {10, 0, 0, 1}, {8, 8, 8, 8}, {0, 0, 0, 0}}
var ttlPool = []uint32{0, 60, 300, 86400, 0xffffffff}

type rr struct {
	owner    string // dotted; "" = root
	ownerPtr string // when set: owner is a pointer to this mark (plus ownerHead labels before it)
	ownerHead string
	typ      int
	ttl      uint32
	rdata    *asm
	rdlenAdj int  // added to the true RDLENGTH
	mark     string // mark placed at the start of the owner name
	rdmark   string // mark placed at the start of RDATA
	ownerLabels [][]byte // when set: the owner labels verbatim (labels may contain dots)
}

type response struct {
	qname           string
	qtype           int
	an, ns, ar      []rr
	anCountAdj      int
	flags           int
}

func (m response) build() []byte {
	a := header(0xbeef, m.flags, 1, len(m.an)+m.anCountAdj, len(m.ns), len(m.ar))
	a.Mark("Q").Name(lbl(m.qname), "").U16(m.qtype).U16(1)
	for _, sec := range [][]rr{m.an, m.ns, m.ar} {
		for _, r := range sec {
			if r.mark != "" {
				a.Mark(r.mark)
			}
			if r.ownerLabels != nil {
				a.Name(r.ownerLabels, "")
			} else if r.ownerPtr != "" {
				a.Name(lbl(r.ownerHead), r.ownerPtr)
			} else {
				a.Name(lbl(r.owner), "")
			}
			rd := r.rdata
			if rd == nil {
				rd = &asm{}
			}
			a.U16(r.typ).U16(1).U32(r.ttl).U16(rd.Size() + r.rdlenAdj)
			if r.rdmark != "" {
				a.Mark(r.rdmark)
			}
			a.Append(rd)
		}
	}
	b, _ := a.Bytes()
	return noColon(b)
}

// (historical) the first model did not cover net.ParseIP's IPv6 text syntax; since the PTR owner is parsed
// with netip.ParseAddr + Is4 every byte is allowed again
func noColon(b []byte) []byte { return b }

func pick[T any](rng *lib.Rand, l []T) T { return l[rng.Intn(len(l))] }

// genAnswers: n answer records over the small universe; compression of owners and rdata names varies
func genAnswers(rng *lib.Rand, qname string, n int, badPTR bool) []rr {
	var out []rr
	prevName := "" // mark of an earlier rdata name
	for i := 0; i < n; i++ {
		r := rr{ttl: pick(rng, ttlPool)}
		owner := qname
		if rng.Chance(35) {
			owner = pick(rng, namePool)
		}
		r.owner = owner
		if owner == qname && rng.Chance(60) {
			r.ownerPtr, r.ownerHead = "Q", ""
		} else if prevName != "" && rng.Chance(30) {
			r.ownerPtr, r.ownerHead = prevName, ""
			r.owner = "" // resolved by pointer; the reference decoders see the real name
		}
		switch rng.Intn(10) {
		case 0, 1, 2:
			r.typ = 1
			r.rdata = (&asm{}).Raw(pick(rng, ip4Pool)...)
		case 3, 4:
			r.typ = 28
			ip := make([]byte, 16)
			copy(ip, []byte{0x20, 0x01, 0x0d, 0xb8})
			ip[15] = byte(rng.Intn(3))
			if rng.Chance(15) { // v4-mapped
				ip = []byte{0, 0, 0, 0, 0, 0, 0, 0, 0, 0, 0xff, 0xff, 10, 0, 0, 1}
			}
			r.rdata = (&asm{}).Raw(ip...)
		case 5, 6:
			r.typ = 5
			target := pick(rng, namePool)
			r.rdmark = fmt.Sprintf("RD%d", i)
			if rng.Chance(40) {
				// compress the tail against the question
				r.rdata = (&asm{}).Name(lbl(strings.Split(target, ".")[0]), "Q")
			} else {
				r.rdata = (&asm{}).Name(lbl(target), "")
			}
			prevName = r.rdmark
		case 7:
			r.typ = 12
			r.ownerPtr = ""
			r.owner = pick(rng, ptrOwners)
			if badPTR && rng.Chance(50) {
				r.owner = pick(rng, badPtrOwners)
			}
			if badPTR && rng.Chance(10) { // dots inside labels: the dotted form looks like a reverse name
				r.ownerLabels = pick(rng, [][][]byte{{[]byte("4.3"), []byte("2"), []byte("1"), []byte("in-addr"), []byte("arpa")},
					{[]byte("4"), []byte("3"), []byte("2"), []byte("1"), []byte("in-addr.arpa")}, {[]byte("4.3.2.1.in-addr.arpa")},
					{[]byte("4"), []byte("3"), []byte("2"), []byte("1.in-addr"), []byte("arpa")}})
			}
			r.rdmark = fmt.Sprintf("RD%d", i)
			r.rdata = (&asm{}).Name(lbl(pick(rng, namePool)), "")
			prevName = r.rdmark
		case 8:
			r.typ = rng.Pick(15, 16, 2, 6, 33, 41, 47, 255, 0, 65535)
			r.rdata = (&asm{}).Raw(rng.Bytes(rng.Intn(12))...)
		case 9:
			r.typ = 1
			r.rdata = (&asm{}).Raw(pick(rng, ip4Pool)...)
			r.ttl = pick(rng, ttlPool)
		}
		out = append(out, r)
	}
	return out
}

func genResponse(rng *lib.Rand, badPTR bool) response {
	m := response{qname: pick(rng, namePool), qtype: rng.Pick(1, 28, 5, 12, 255), flags: 0x8180}
	if rng.Chance(10) {
		m.qname = string(dotted(genLabels(rng, 1+rng.Intn(4), 10, 0, 120)))
	}
	m.an = genAnswers(rng, m.qname, rng.Pick(0, 1, 1, 2, 3, 4, 6), badPTR)
	if rng.Chance(25) {
		m.ns = genAnswers(rng, m.qname, 1+rng.Intn(2), false)
	}
	if rng.Chance(25) {
		m.ar = genAnswers(rng, m.qname, 1+rng.Intn(2), false)
	}
	return m
}

func doRRS(r *lib.Run, rng *lib.Rand, class string, b, sp []byte, off int) {
	pre, n := bufArgs(rng)
	r.Do("rrs", lib.Hex(b), lib.Hex(sp), fmt.Sprint(off), pre, n)
	r.Stat("class.rrs."+class, 1)
}

func answersOffset(m response) int { return 12 + wireLen(lbl(m.qname)) + 4 }

func genRRS(r *lib.Run, rng *lib.Rand) {
	N := 2500
	if r.Thorough() {
		N = 40000
	}
	for i := 0; i < N; i++ {
		m := genResponse(rng, false)
		doRRS(r, rng, "valid", m.build(), spare(rng), answersOffset(m))
	}
	for i := 0; i < N/10; i++ {
		m := genResponse(rng, true)
		doRRS(r, rng, "ptr-owner-variants", m.build(), spare(rng), answersOffset(m))
	}
	// boundary: RDLENGTH of A / AAAA, RDLENGTH +-1, ANCOUNT +-1
	for i := 0; i < N/8; i++ {
		m := genResponse(rng, false)
		if len(m.an) == 0 {
			continue
		}
		k := rng.Intn(len(m.an))
		class := ""
		switch rng.Intn(4) {
		case 0:
			m.an[k].typ = 1
			m.an[k].rdata = (&asm{}).Raw(rng.Bytes(rng.Pick(0, 3, 5, 16))...)
			class = "a-len"
		case 1:
			m.an[k].typ = 28
			m.an[k].rdata = (&asm{}).Raw(rng.Bytes(rng.Pick(0, 4, 15, 17))...)
			class = "aaaa-len"
		case 2:
			m.an[k].rdlenAdj = rng.Pick(-1, 1, 2, 1000, 65000)
			if m.an[k].rdata == nil || m.an[k].rdata.Size()+m.an[k].rdlenAdj < 0 {
				m.an[k].rdlenAdj = 1
			}
			class = "rdlength-adj"
		case 3:
			m.anCountAdj = rng.Pick(1, 2, -1, 100)
			if len(m.an)+m.anCountAdj < 0 {
				m.anCountAdj = 1
			}
			class = "ancount-adj"
		}
		doRRS(r, rng, class, m.build(), spare(rng), answersOffset(m))
	}
	// truncation at every offset, with none / real / poisoned spare capacity
	for i := 0; i < 10; i++ {
		m := genResponse(rng, false)
		for len(m.an) == 0 {
			m = genResponse(rng, false)
		}
		m.ns, m.ar = nil, nil
		b := m.build()
		off := answersOffset(m)
		for cut := off; cut <= len(b); cut++ {
			doRRS(r, rng, "truncated", b[:cut], nil, off)
			doRRS(r, rng, "truncated-spare", b[:cut], b[cut:], off)
			doRRS(r, rng, "truncated-poison", b[:cut], []byte{0xa5, 0xa5, 0xa5, 0xa5, 0xa5, 0xa5, 0xa5, 0xa5, 0xa5, 0xa5, 0xa5, 0xa5}, off)
		}
	}
	// offset variations and mutations
	for i := 0; i < N/5; i++ {
		m := genResponse(rng, false)
		b := m.build()
		off := answersOffset(m)
		if rng.Chance(30) {
			doRRS(r, rng, "offset", b, spare(rng), rng.Pick(-1, 0, 12, off-1, off+1, len(b), len(b)+1))
			continue
		}
		k := 1 + rng.Intn(3)
		for j := 0; j < k; j++ {
			b[rng.Intn(len(b))] = rng.Byte()
		}
		doRRS(r, rng, "mutated", noColon(b), spare(rng), off)
	}
}

// registered RR TYPE / QTYPE values (IANA) + meta types; ProcessDNS must treat the question type, the opcode,
// the rcode and every header flag as irrelevant for what it stores from the answer section
var qtypes = []int{1, 2, 5, 6, 12, 13, 15, 16, 17, 18, 24, 25, 28, 29, 33, 35, 36, 37, 39, 41, 42, 43, 44, 45, 46, 47, 48, 49, 50, 51, 52, 53,
	55, 59, 60, 61, 62, 63, 64, 65, 99, 108, 109, 249, 250, 251, 252, 253, 254, 255, 256, 257, 32768, 32769, 0, 65535}

func genPDNSHeaderSweep(r *lib.Run, rng *lib.Rand) {
	one := func(flags, qtype int, class string) {
		m := genResponse(rng, false)
		for len(m.an) == 0 {
			m = genResponse(rng, false)
		}
		m.flags, m.qtype = flags, qtype
		r.Do("pdns", lib.Hex(m.build())+":-")
		r.Stat("class.pdns."+class, 1)
	}
	for _, qt := range qtypes {
		one(0x8180, qt, "qtype-registered")
	}
	for i := 0; i < 150; i++ {
		one(0x8180, rng.Intn(65536), "qtype-random")
	}
	for op := 0; op < 16; op++ { // every opcode x rcode, QR / AA / TC / RD / RA / Z bits at random
		for rc := 0; rc < 16; rc++ {
			one(rng.Intn(2)<<15|op<<11|rng.Intn(16)<<7&0x0780|rng.Intn(8)<<4|rc, rng.Pick(1, 28, 255), "opcode-rcode")
		}
	}
	for i := 0; i < 100; i++ {
		one(rng.Intn(65536), rng.Intn(65536), "header-random")
	}
}

// NAME SPELLING ACROSS A HISTORY: one name asked again and again (same spelling, and other spellings of the
// same name: lower / UPPER / 0x20 MiXeD case, digits, hyphen, underscore, non-ASCII octets, NUL), every
// response carrying a different record set. The table key is the exact octet string (Spec: table_key).
var spellingFamilies = [][]string{
	{"www.example.com", "WWW.EXAMPLE.COM", "wWw.ExAmPlE.cOm", "Www.example.com", "www.example.coM"},
	{"Host-01.LAN", "host-01.lan", "HOST-01.LAN", "hOST-01.lan"},
	{"_srv_1._TCP.Example.org", "_srv_1._tcp.example.org", "_SRV_1._TCP.EXAMPLE.ORG"},
	{"caf\xc3\xa9.Example", "CAF\xc3\xa9.example", "caf\xc3\x89.example", "caf\xe9.example"},
	{"nul\x00byte.Z", "NUL\x00BYTE.z", "nul\x00byte.z"},
	{"X", "x"},
	{"A1-b_2.C3", "a1-b_2.c3", "A1-B_2.C3"},
}

func genPDNSSpellings(r *lib.Run, rng *lib.Rand) {
	H := 250
	if r.Thorough() {
		H = 4000
	}
	for i := 0; i < H; i++ {
		fam := spellingFamilies[i%len(spellingFamilies)]
		class := "spelling-same"
		var msgs []string
		first := pick(rng, fam)
		depth := 3 + rng.Intn(5)
		for j := 0; j < depth; j++ {
			name := first
			if i%2 == 1 && rng.Chance(50) { // other spellings of the same name in between
				name = pick(rng, fam)
				class = "spelling-mixed"
			}
			m := response{qname: name, qtype: rng.Pick(1, 28, 255), flags: 0x8180}
			// a different record set every time: fresh addresses / names from the pools
			m.an = genAnswers(rng, name, 1+rng.Intn(3), false)
			m.an = append(m.an, rr{owner: name, ownerPtr: "Q", typ: 1, ttl: 60, rdata: (&asm{}).Raw(10, byte(i), byte(j), byte(rng.Intn(250)))})
			msgs = append(msgs, lib.Hex(m.build())+":"+lib.Hex(spare(rng)))
		}
		r.Do("pdns", strings.Join(msgs, ";"))
		r.Stat("class.pdns."+class, 1)
	}
}

func genPDNS(r *lib.Run, rng *lib.Rand) {
	genPDNSHeaderSweep(r, rng)
	genPDNSSpellings(r, rng)
	H := 700
	if r.Thorough() {
		H = 12000
	}
	for i := 0; i < H; i++ {
		depth := 1 + rng.Intn(7)
		var msgs []string
		class := "valid"
		for j := 0; j < depth; j++ {
			m := genResponse(rng, i%12 == 0)
			b := m.build()
			sp := spare(rng)
			switch {
			case i%10 == 1 && rng.Chance(40):
				b = b[:rng.Intn(len(b)+1)]
				class = "with-truncated"
			case i%10 == 2 && rng.Chance(40):
				b[rng.Intn(len(b))] = rng.Byte()
				b = noColon(b)
				class = "with-mutated"
			case i%10 == 3 && rng.Chance(30):
				b[4], b[5] = 0, byte(rng.Pick(0, 2))
				class = "with-qdcount"
			}
			msgs = append(msgs, lib.Hex(b)+":"+lib.Hex(sp))
		}
		if i%12 == 0 {
			class = "with-ptr-owner-variants"
		}
		r.Do("pdns", strings.Join(msgs, ";"))
		r.Stat("class.pdns."+class, 1)
	}
}

// NODE STATUS RDATA
func nodeStatus(rng *lib.Rand, n int, statLen int) []byte {
	b := []byte{byte(n)}
	names := []string{"DESKTOP-AB12", "WORKGROUP", "NAS", "PRINTER-LONGNAME", "X"}
	for i := 0; i < n; i++ {
		nm := []byte(pick(rng, names))
		e := make([]byte, 16)
		for j := range e {
			e[j] = ' '
		}
		copy(e, nm)
		if len(nm) < 16 {
			e[15] = byte(rng.Pick(0x00, 0x20, 0x03, 0x1e, 0x00))
		}
		if rng.Chance(10) {
			for j := len(nm); j < 16; j++ {
				e[j] = 0
			}
		}
		flags := []byte{0x04, 0x00}
		if rng.Chance(45) {
			flags[0] |= 0x80
		}
		b = append(b, e...)
		b = append(b, flags...)
	}
	return append(b, rng.Bytes(statLen)...)
}

func genNBNS(r *lib.Run, rng *lib.Rand) {
	N := 1500
	if r.Thorough() {
		N = 20000
	}
	for i := 0; i < N; i++ {
		n := rng.Intn(7)
		b := nodeStatus(rng, n, rng.Pick(46, 46, 0, 1, 2, 3))
		class := "wellformed"
		switch rng.Intn(6) {
		case 0: // truncate anywhere
			b = b[:rng.Intn(len(b)+1)]
			class = "truncated"
		case 1: // NUM_NAMES larger / smaller than the array
			if len(b) > 0 {
				b[0] = byte(rng.Pick(0, 1, n+1, n+2, 255))
			}
			class = "num-names"
		}
		r.Do("nbns", lib.Hex(b))
		r.Stat("class.nbns."+class, 1)
	}
	// every length around the two bounds 16n+2 and 18n for n = 0..5
	for n := 0; n <= 5; n++ {
		full := nodeStatus(rng, n, 4)
		for l := 0; l <= len(full); l++ {
			r.Do("nbns", lib.Hex(full[:l]))
			r.Stat("class.nbns.every-length", 1)
		}
	}
}

// first-level encoded names (independent encoder) and the node-name list
func nbEncode(name []byte) []byte {
	out := []byte{0x20}
	for _, c := range name {
		out = append(out, 'A'+c/16, 'A'+c%16)
	}
	return append(out, 0)
}

func genNBName(r *lib.Run, rng *lib.Rand) {
	N := 1200
	if r.Thorough() {
		N = 20000
	}
	for i := 0; i < N; i++ {
		// encode: names of 0..20 bytes, ASCII and arbitrary bytes
		n := rng.Intn(21)
		if rng.Chance(40) {
			n = rng.Pick(15, 16, 17)
		}
		name := genLabel(rng, n, rng.Pick(0, 0, 2))
		if rng.Chance(20) && n > 0 {
			name[rng.Intn(n)] = ' '
		}
		r.Do("nbenc", lib.Hex(name))
		r.Stat("class.nbenc", 1)
		// decode: valid encodings of 16-byte names (ASCII / every byte value), with and without scope, mutated, truncated
		raw := genLabel(rng, 16, rng.Pick(0, 2))
		for j := 12 + rng.Intn(4); j < 16 && rng.Bool(); j++ {
			raw[j] = ' '
		}
		enc := nbEncode(raw)
		class := "valid"
		switch rng.Intn(8) {
		case 0:
			enc = enc[:rng.Intn(len(enc)+1)]
			class = "truncated"
		case 1:
			enc[rng.Intn(len(enc))] = rng.Byte()
			class = "mutated"
		case 2:
			enc = append(enc[:33], append([]byte{3, 'l', 'a', 'n'}, 0)...) // scope id
			class = "scoped"
		case 3:
			enc[1+rng.Intn(32)] = byte(rng.Pick('@', 'Q', 'a', 0, 255))
			class = "non-nibble-char"
		}
		r.Do("nbdec", lib.Hex(enc), lib.Hex(spare(rng)))
		r.Stat("class.nbdec."+class, 1)
	}
	for b := 0; b < 256; b++ { // every byte value at every position parity
		raw := []byte("ABCDEFGHIJKLMNOP")
		raw[b%16] = byte(b)
		r.Do("nbdec", lib.Hex(nbEncode(raw)), "-")
		r.Do("nbenc", lib.Hex(raw))
	}
	r.Stat("class.nbdec.every-byte", 256)
	// whole node-name list
	for i := 0; i < N; i++ {
		n := rng.Intn(7)
		b := nodeStatus(rng, n, rng.Pick(46, 0, 1, 2, 3))
		switch rng.Intn(6) {
		case 0:
			b = b[:rng.Intn(len(b)+1)]
		case 1:
			if len(b) > 0 {
				b[0] = byte(rng.Pick(0, 1, n+1, n+2, 255))
			}
		}
		r.Do("nna", lib.Hex(b))
	}
	r.Stat("class.nna", int64(N))
}
