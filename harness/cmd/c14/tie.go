package main

// Source-derived components, recomputed from the code on every run (no constant of the model is taken on
// trust): the option-type switch of newParseOptions (sweep over all 256 types), the flag bits and field
// offsets of the RA getters (one-hot sweeps), the field lists of icmp_spoofer.Router and packet.NewOptions
// (reflection, compared as sorted sets: reordering is silent, an added or removed field is an alarm); and
// the option decoder exercised in isolation through the exported ICMP6RouterAdvertisement.Options().

import (
	"fmt"
	"reflect"
	"sort"
	"strings"
	"time"

	"github.com/irai/packet"
	"github.com/irai/packet/handlers/icmp_spoofer"
	"pvharness/lib"
)

func showOptsAll(o packet.NewOptions) string {
	return fmt.Sprintf("slla=%s tlla=%s mtu=%d pfx=%s rdnss=%s dnssl=%s ri=%s legacy:%s", hx(o.SourceLLA.MAC), hx(o.TargetLLA.MAC),
		uint32(o.MTU), showPfx(o.Prefixes), showRDs(o.RDNSSList), showDSs(o.DNSSearchLists), showRIs(o.Routes), showLegacy(o))
}

// obsOpts: the decoder alone, no session, no handler.
func obsOpts(msg []byte) (ret string) {
	if hasXN(msg) {
		return "puny"
	}
	buf := newRxBuf()
	o, err := packet.ICMP6RouterAdvertisement(buf.load(msg)).Options()
	buf.poison()
	if err != nil {
		return errName(err)
	}
	return showOptsAll(o)
}

func classify(o packet.NewOptions) string {
	switch {
	case len(o.SourceLLA.MAC) != 0:
		return "slla"
	case len(o.TargetLLA.MAC) != 0:
		return "tlla"
	case o.MTU != 0:
		return "mtu"
	case len(o.Prefixes) != 0:
		return "prefix"
	case len(o.Routes) != 0:
		return "route"
	case len(o.RDNSSList) != 0:
		return "rdnss"
	case len(o.DNSSearchLists) != 0:
		return "dnssl"
	}
	return "-"
}

func tabTypes() string {
	rep := func(b byte, n int) []byte {
		r := make([]byte, n)
		for i := range r {
			r[i] = b
		}
		return r
	}
	probes := []struct {
		l    int
		body []byte
	}{
		{1, []byte{0, 0, 0, 0, 5, 220}},
		{4, append([]byte{64, 192, 0, 0, 0, 9, 0, 0, 0, 8, 0, 0, 0, 0}, rep(32, 16)...)},
		{3, append([]byte{0, 0, 0, 0, 0, 9}, rep(32, 16)...)},
		{2, []byte{0, 0, 0, 0, 0, 9, 1, 97, 0, 0, 0, 0, 0, 0}},
	}
	var out []string
	for t := 0; t < 256; t++ {
		k := "-"
		for _, p := range probes {
			msg := append(make([]byte, 16), opt(byte(t), p.l, p.body)...)
			msg[0] = 134
			if o, err := packet.ICMP6RouterAdvertisement(msg).Options(); err == nil {
				if k = classify(o); k != "-" {
					break
				}
			}
		}
		if k != "-" {
			out = append(out, fmt.Sprintf("%d:%s", t, k))
		}
	}
	return strings.Join(out, " ")
}

func hdrWith(i int, v byte) packet.ICMP6RouterAdvertisement {
	m := make([]byte, 16)
	m[0] = 134
	m[i] = v
	return packet.ICMP6RouterAdvertisement(m)
}

// learnHdr pushes a 16-byte RA through the handler and returns the record (the getters AND the assignments of icmp6.go)
func learnHdr(m []byte) icmp_spoofer.Router {
	_, r, _ := runRA(m)
	return r
}

func tabFlags() string {
	var out []string
	for k := 0; k < 8; k++ {
		r := learnHdr(hdrWith(5, 1<<uint(k)))
		out = append(out, fmt.Sprintf("%d:M%sO%sP%d", k, b01(r.ManagedFlag), b01(r.OtherCondigFlag), r.Preference))
	}
	return strings.Join(out, " ")
}

func tabOffsets() string {
	var out []string
	for j := 4; j < 16; j++ {
		r := learnHdr(hdrWith(j, 1))
		out = append(out, fmt.Sprintf("%d:%d/%d/%d/%d", j, r.CurHopLimit, int64(r.DefaultLifetime/time.Second), r.ReacheableTime, r.RetransTimer))
	}
	return strings.Join(out, " ")
}

func fieldSet(t reflect.Type) string {
	var f []string
	for i := 0; i < t.NumField(); i++ {
		f = append(f, t.Field(i).Name+":"+t.Field(i).Type.String())
	}
	sort.Strings(f)
	return strings.Join(f, " ")
}

func tabFields() string {
	return "Router{" + fieldSet(reflect.TypeOf(icmp_spoofer.Router{})) + "} NewOptions{" + fieldSet(reflect.TypeOf(packet.NewOptions{})) + "}"
}

// obsLim: the rate limiter is one package-level counter for every Handler6 of the process.  Counter at -1; an RA
// (lifetime 1800) to handler 1; n RAs to a SECOND handler; an RA (lifetime 600) to handler 1: which lifetime
// handler 1 has recorded depends on n.  No counter preset between the packets.
func obsLim(n int) (ret string) {
	s := session()
	h1, _ := icmp_spoofer.New6(s)
	h2, _ := icmp_spoofer.New6(s)
	rx := newRxBuf()
	raMu.Lock()
	defer raMu.Unlock()
	icmp_spoofer.VerifSetRepeat(-1)
	push := func(h *icmp_spoofer.Handler6, life uint16) {
		m := []byte{134, 0, 0, 0, 64, 0, byte(life >> 8), byte(life), 0, 0, 0, 0, 0, 0, 0, 0}
		if f, err := s.Parse(rx.load(raFrame(lib.RouterMAC, srcLLA, m))); err == nil {
			h.ProcessPacket(f)
		}
		rx.poison()
	}
	push(h1, 1800)
	for i := 0; i < n; i++ {
		push(h2, 1800)
	}
	push(h1, 600)
	r := h1.FindRouter(srcLLA)
	if !r.Addr.IP.IsValid() {
		return "none"
	}
	return "life" + secs(r.DefaultLifetime)
}

func registerTie(r *lib.Run) {
	r.Register("lim", func(a []string) string {
		n := 0
		fmt.Sscan(a[0], &n)
		return obsLim(n)
	})
	r.Register("opts", func(a []string) string { return obsOpts(lib.UnHex(a[0])) })
	r.Register("tab", func(a []string) string {
		switch a[0] {
		case "types":
			return tabTypes()
		case "flags":
			return tabFlags()
		case "offsets":
			return tabOffsets()
		case "fields":
			return tabFields()
		case "widths":
			return tabWidths()
		}
		return "badtab"
	})
}

func tieCases(r *lib.Run) {
	for _, w := range []string{"types", "flags", "offsets", "fields", "widths"} {
		r.Do("tab", w)
	}
	for n := 0; n <= 8; n++ {
		r.Do("lim", fmt.Sprint(n))
	}
}
