package main

// Source-derived: the WIDTH of every length computation of the NDP option decoders.  The decoder file is
// parsed and type-checked on every run (go/parser + go/types, unresolved identifiers of the rest of the
// package tolerated); every arithmetic sub-expression (* + - <<) inside newParseOptions and the unmarshal
// methods whose static type is an 8-bit unsigned integer is listed.  The model does every length
// computation in unbounded integers, i.e. it assumes that list is EMPTY: uint8 arithmetic on a decoded
// length octet wraps at Length >= 32 (c4022d7 repaired one such, the seeded C14-9 is another).
// Robust against renames and reordering: no identifier of the source is named here except the decoder
// entry points' names (unmarshal / newParseOptions).

import (
	"go/ast"
	"go/importer"
	"go/parser"
	"go/printer"
	"go/token"
	"go/types"
	"os"
	"path/filepath"
	"sort"
	"strings"
)

func repoDir() string {
	if d := os.Getenv("VERIF_REPO"); d != "" {
		return d
	}
	return "/repo"
}

func tabWidths() string {
	fset := token.NewFileSet()
	file, err := parser.ParseFile(fset, filepath.Join(repoDir(), "layer_icmp6_options.go"), nil, 0)
	if err != nil {
		return "parse-error"
	}
	info := &types.Info{Types: map[ast.Expr]types.TypeAndValue{}}
	conf := types.Config{Importer: importer.ForCompiler(fset, "source", nil), Error: func(error) {}}
	conf.Check("packet", fset, []*ast.File{file}, info) // errors (identifiers of other files, third-party imports) are expected
	var out []string
	for _, d := range file.Decls {
		fn, ok := d.(*ast.FuncDecl)
		if !ok || fn.Body == nil || !(fn.Name.Name == "unmarshal" || fn.Name.Name == "newParseOptions") {
			continue
		}
		recv := ""
		if fn.Recv != nil && len(fn.Recv.List) > 0 {
			var sb strings.Builder
			printer.Fprint(&sb, fset, fn.Recv.List[0].Type)
			recv = strings.TrimPrefix(sb.String(), "*") + "."
		}
		ast.Inspect(fn.Body, func(n ast.Node) bool {
			be, ok := n.(*ast.BinaryExpr)
			if !ok {
				return true
			}
			switch be.Op {
			case token.MUL, token.ADD, token.SUB, token.SHL:
			default:
				return true
			}
			tv, ok := info.Types[be]
			if !ok || tv.Value != nil { // untyped / constant expressions do not wrap at run time
				return true
			}
			if b, ok := tv.Type.Underlying().(*types.Basic); ok && (b.Kind() == types.Uint8 || b.Kind() == types.Int8) {
				var sb strings.Builder
				printer.Fprint(&sb, fset, be)
				out = append(out, recv+fn.Name.Name+":"+strings.ReplaceAll(sb.String(), " ", ""))
			}
			return true
		})
	}
	if len(out) == 0 {
		return "none"
	}
	sort.Strings(out)
	return strings.Join(out, " ")
}
