package main

// Hunt scenarios: the REAL Handler6 (spoofLoop goroutines, real 2-2.8 s timers) on a recording
// connection.  A scenario is a script of API calls and received RAs with real-time delays.  The
// frames captured on the connection are grouped into bursts (one pass of one spoofLoop = one
// neighbour advertisement per learned router to one destination); every observed burst becomes a
// `W:<eth dst>:<ip dst>` event placed where it happened in the call log, so that the model is asked
// "what does a loop with this destination emit in the state reached here" and must answer exactly
// the advertisements that were captured (a burst to a MAC that is not hunted, or before a router is
// known, or after Close, has no counterpart in the model: disagreement).
// Independent Go-side oracles (no model) check the property's words directly on the capture.

import (
	"bytes"
	"fmt"
	"net"
	"net/netip"
	"sort"
	"strconv"
	"strings"
	"sync"
	"time"

	"github.com/irai/packet"
	"github.com/irai/packet/handlers/icmp_spoofer"
	"pvharness/lib"
)

type hop struct {
	kind    byte // S P C R X
	mac     net.HardwareAddr
	ip      netip.Addr // zero = invalid
	counter int
	hk      bool
	src     netip.Addr
	eth     net.HardwareAddr
	msg     []byte
	delay   int // ms to sleep after the call
}

func ipTok(ip netip.Addr) string {
	if !ip.IsValid() {
		return "-"
	}
	return hx(ip.AsSlice())
}
func tokIP(s string) netip.Addr {
	if s == "-" {
		return netip.Addr{}
	}
	ip, _ := netip.AddrFromSlice(lib.UnHex(s))
	return ip
}

func (o hop) tok() string {
	switch o.kind {
	case 'S', 'P':
		return fmt.Sprintf("%c:%s:%s", o.kind, hx(o.mac), ipTok(o.ip))
	case 'C':
		return "C"
	case 'X':
		return "X:" + hx(o.msg)
	case 'R':
		hk := "F"
		if o.hk {
			hk = "T"
		}
		return fmt.Sprintf("R:%d:%s:%s:%s:%s", o.counter, hk, ipTok(o.src), hx(o.eth), hx(o.msg))
	}
	return "?"
}

func parseScript(toks []string) []hop {
	var ops []hop
	for _, t := range toks {
		f := strings.Split(t, ":")
		switch f[0] {
		case "S", "P":
			ops = append(ops, hop{kind: f[0][0], mac: lib.UnHex(f[1]), ip: tokIP(f[2])})
		case "C":
			ops = append(ops, hop{kind: 'C'})
		case "R":
			c, _ := strconv.Atoi(f[1])
			ops = append(ops, hop{kind: 'R', counter: c, hk: f[2] == "T", src: tokIP(f[3]), eth: lib.UnHex(f[4]), msg: lib.UnHex(f[5])})
		case "X":
			ops = append(ops, hop{kind: 'X', msg: lib.UnHex(f[1])})
		case "D":
			if n := len(ops); n > 0 {
				ops[n-1].delay, _ = strconv.Atoi(f[1])
			}
		case "W": // derived from the capture; ignored on input
		}
	}
	return ops
}

type naRec struct {
	t                          time.Time
	ethDst, ethSrc             string
	ipSrc, ipDst               string
	hop                        int
	flags                      string
	target, tlla               string
	ethDstB                    []byte
}

func (n naRec) show() string {
	return fmt.Sprintf("%s/%s/%d/%s/%s/%s", n.target, n.ipSrc, n.hop, n.flags, n.tlla, n.ethSrc)
}

// independent decode of a captured frame; ok only for an ICMPv6 neighbour advertisement with a TLLA option
func decodeNA(f []byte, t time.Time) (naRec, bool) {
	if len(f) < 14+40+32 || f[12] != 0x86 || f[13] != 0xdd || f[14+6] != 58 || f[54] != 136 {
		return naRec{}, false
	}
	fl := f[58]
	n := naRec{t: t, ethDst: hx(f[0:6]), ethSrc: hx(f[6:12]), hop: int(f[14+7]), ipSrc: hx(f[22:38]), ipDst: hx(f[38:54]),
		flags: b01(fl&0x80 != 0) + b01(fl&0x40 != 0) + b01(fl&0x20 != 0), target: hx(f[62:78]), ethDstB: f[0:6]}
	if f[78] == 2 && f[79] == 1 {
		n.tlla = hx(f[80:86])
	} else {
		n.tlla = "-"
	}
	return n, true
}

type callLog struct {
	op       hop
	t0, t1   time.Time
	obs      string
	newRtr   string // hex of the router IP this RA created, "" otherwise
	nRouters int    // after the call
	learned  bool   // the source of this RA is in the table after the call
}

type event struct {
	t    time.Time
	tok  string
	obs  string
	call int // index in calls or -1 for a burst
	nas  []naRec
}

func stageName(s packet.HuntStage, err error) string {
	n := "?"
	switch s {
	case packet.StageNoChange:
		n = "nochange"
	case packet.StageNormal:
		n = "normal"
	case packet.StageHunt:
		n = "hunt"
	}
	if err != nil {
		n += "!" + strings.TrimPrefix(errName(err), "err:")
	}
	return n
}

// runScript executes the script in real time and returns the derived model line (tokens) and the observation.
func runScript(r *lib.Run, ops []hop, label string) ([]string, string) {
	s, conn := lib.NewSession()
	h, _ := icmp_spoofer.New6(s)
	rx := newRxBuf()
	lastRA := map[netip.Addr][]byte{}
	calls := make([]callLog, 0, len(ops))
	closedAt := time.Time{}
	for _, o := range ops {
		c := callLog{op: o, t0: time.Now()}
		switch o.kind {
		case 'S':
			st, err := h.StartHunt(packet.Addr{MAC: o.mac, IP: o.ip})
			c.obs = stageName(st, err)
		case 'P':
			st, err := h.StopHunt(packet.Addr{MAC: o.mac, IP: o.ip})
			c.obs = stageName(st, err)
		case 'C':
			h.Close()
			c.obs = "closed"
			if closedAt.IsZero() {
				closedAt = time.Now()
			}
		case 'R':
			h.Lock()
			before := len(h.LANRouters)
			h.Unlock()
			ret, hkActual := deliverHK(s, h, rx, o.counter, o.eth, o.src, o.msg, o.hk)
			o.hk = hkActual // the model is told what ProcessPacket really saw
			c.op = o
			h.Lock()
			after := len(h.LANRouters)
			h.Unlock()
			c.obs = ret + " " + showTable(h)
			c.nRouters = after
			c.learned = h.FindRouter(o.src).Addr.IP.IsValid()
			if after > before {
				a := o.src.As16()
				c.newRtr = hx(a[:])
			}
			if ret == "ok" && o.hk && (o.counter+1)%4 == 0 && h.FindRouter(o.src).Addr.IP.IsValid() {
				lastRA[o.src] = o.msg
			}
		case 'X':
			// another ICMPv6 message from some host through the same receive buffer
			deliver(s, h, rx, 0, hMACs[3], netip.MustParseAddr("fe80::1:99"), o.msg, true)
			c.obs = "other " + showTable(h)
		}
		// "records exactly" must hold for as long as the entry lives: after EVERY step every learned
		// router is compared with the independent decoding of the ORIGINAL bytes of its last processed RA
		for src, m := range lastRA {
			if rt := h.FindRouter(src); rt.Addr.IP.IsValid() {
				oracleRAfrom(r, m, rt, nil, label+" (persistence, after "+o.tok()+")")
			}
		}
		c.t1 = time.Now()
		calls = append(calls, c)
		time.Sleep(time.Duration(o.delay) * time.Millisecond)
	}
	// let every loop run out: Close wakes them all; a loop may be between its check and its sends
	h.Close()
	endT := time.Now()
	time.Sleep(60 * time.Millisecond)
	frames, times := conn.TakeTimed()
	go s.Close()

	var nas []naRec
	for i, f := range frames {
		if n, ok := decodeNA(f, times[i]); ok {
			nas = append(nas, n)
		} else {
			r.Viol("unexpected-frame", label+": the handler emitted a frame that is not a neighbour advertisement: "+hx(f), "")
		}
	}
	// ---- bursts: per destination, clusters in time, split into layers of distinct targets ----
	byKey := map[string][]naRec{}
	for _, n := range nas {
		k := n.ethDst + ":" + n.ipDst
		byKey[k] = append(byKey[k], n)
	}
	var evs []event
	for k, l := range byKey {
		sort.SliceStable(l, func(i, j int) bool { return l[i].t.Before(l[j].t) })
		var cluster []naRec
		flush := func() {
			if len(cluster) == 0 {
				return
			}
			// layer j holds the j-th occurrence of every target
			cnt := map[string]int{}
			var layers [][]naRec
			for _, n := range cluster {
				j := cnt[n.target]
				cnt[n.target]++
				for len(layers) <= j {
					layers = append(layers, nil)
				}
				layers[j] = append(layers[j], n)
			}
			// fuller layers first (a loop that saw more routers woke later than one that saw fewer is
			// decided below by content, not by this order)
			for _, ly := range layers {
				f := strings.SplitN(k, ":", 2)
				ipd := f[1]
				evs = append(evs, event{t: ly[0].t, tok: "W:" + f[0] + ":" + ipd, call: -1, nas: ly})
			}
			cluster = nil
		}
		for _, n := range l {
			if len(cluster) > 0 {
				prev := cluster[len(cluster)-1].t
				split := n.t.Sub(prev) > 25*time.Millisecond
				for _, c := range calls { // a call that started in between separates two passes
					if c.t0.After(prev) && !c.t0.After(n.t) {
						split = true
					}
				}
				if split {
					flush()
				}
			}
			cluster = append(cluster, n)
		}
		flush()
	}
	for i := range evs {
		l := evs[i].nas
		s := make([]string, len(l))
		for j, n := range l {
			s[j] = n.show()
		}
		sort.Strings(s) // target is the leading field
		evs[i].obs = "na[" + strings.Join(s, ",") + "]"
	}
	for i, c := range calls {
		evs = append(evs, event{t: c.t0, tok: c.op.tok(), obs: c.obs, call: i})
	}
	sort.SliceStable(evs, func(i, j int) bool { return evs[i].t.Before(evs[j].t) })
	// ---- placement corrections (the schedule is recovered from what was observed) ----
	// (a) an RA that created router X wakes the loops before the table is updated: a burst right
	//     after it that lacks X ran before the update.  (b) a burst that started while StopHunt/Close
	//     was executing was already past its membership check.
	for ci, c := range calls {
		j := -1
		for k, e := range evs {
			if e.call == ci {
				j = k
			}
		}
		var moved, stay []event
		k := j + 1
		for ; k < len(evs) && evs[k].call < 0; k++ {
			e := evs[k]
			move := false
			switch c.op.kind {
			case 'R':
				if c.newRtr != "" && e.t.Sub(c.t0) < 100*time.Millisecond {
					has := false
					for _, n := range e.nas {
						if n.target == c.newRtr {
							has = true
						}
					}
					move = !has
				}
			case 'P', 'C':
				move = !e.t.After(c.t1.Add(2 * time.Millisecond))
			}
			if move {
				moved = append(moved, e)
			} else {
				stay = append(stay, e)
			}
		}
		if len(moved) > 0 {
			seg := append(append(append([]event{}, moved...), evs[j]), stay...)
			copy(evs[j:k], seg)
		}
	}
	toks, obs := []string{}, []string{}
	for _, e := range evs {
		toks = append(toks, e.tok)
		obs = append(obs, e.obs)
		if e.call >= 0 && calls[e.call].op.delay > 0 {
			toks = append(toks, fmt.Sprintf("D:%d", calls[e.call].op.delay))
		}
	}
	huntOracles(r, "h "+strings.Join(toks, " "), calls, nas, closedAt, endT)
	r.Stat("hunt.bursts", int64(len(evs)-len(calls)))
	r.Stat("hunt.nas", int64(len(nas)))
	return toks, strings.Join(obs, " | ")
}

// huntOracles: the property's words checked on the capture, without the model.
func huntOracles(r *lib.Run, label string, calls []callLog, nas []naRec, closedAt, endT time.Time) {
	const slack = 20 * time.Millisecond
	host := hx(lib.HostMAC)
	for _, n := range nas {
		// hunted at emission? replay the call log up to the emission time
		hunted := false
		var lastStop time.Time
		routers := map[string]bool{}
		anyRouter := false
		for _, c := range calls {
			if c.t0.After(n.t) {
				break
			}
			switch c.op.kind {
			case 'S':
				if strings.HasPrefix(c.obs, "hunt") && hx(c.op.mac) == n.ethDst {
					hunted = true
				}
			case 'P':
				if c.obs == "normal" && hx(c.op.mac) == n.ethDst {
					hunted = false
					lastStop = c.t1
				}
			case 'R':
				if strings.HasPrefix(c.obs, "ok") && c.nRouters > 0 {
					anyRouter = true
				}
				if c.learned {
					a := c.op.src.As16()
					routers[hx(a[:])] = true
				}
			}
		}
		replay := label
		if !hunted && !(n.t.Sub(lastStop) < slack) {
			r.Viol("na-to-unhunted", fmt.Sprintf("forged NA to %s which is not in the hunt list at emission (target %s)", n.ethDst, n.target), replay)
		}
		if !anyRouter {
			r.Viol("na-before-router", "forged NA emitted before any router was learned: "+n.show(), replay)
		}
		if !routers[n.target] {
			r.Viol("na-unknown-target", "forged NA for an address that is not a learned router: "+n.show(), replay)
		}
		if n.flags != "001" || n.hop != 255 || n.tlla != host || n.ethSrc != host || n.ipSrc != n.target {
			r.Viol("na-shape", "forged NA is not (router address bound to our MAC, override, hop limit 255): "+n.show(), replay)
		}
		if !closedAt.IsZero() && n.t.Sub(closedAt) > slack {
			r.Viol("na-after-close", "forged NA emitted after Close: "+n.show(), replay)
		}
	}
	// after StopHunt (effective) no NA reaches the host later than one loop period, unless hunted again
	for i, c := range calls {
		if c.op.kind != 'P' || c.obs != "normal" {
			continue
		}
		until := endT
		for _, d := range calls[i+1:] {
			if d.op.kind == 'S' && hx(d.op.mac) == hx(c.op.mac) && strings.HasPrefix(d.obs, "hunt") {
				until = d.t0
				break
			}
		}
		for _, n := range nas {
			if n.ethDst == hx(c.op.mac) && n.t.After(c.t1.Add(slack)) && n.t.Before(until) {
				r.Viol("na-after-stop", fmt.Sprintf("forged NA to %s %v after StopHunt returned", n.ethDst, n.t.Sub(c.t1)), label)
			}
		}
	}
}

// ---------------------------------------------------------------------------------------------

var (
	hMACs = []net.HardwareAddr{{2, 0, 0, 0, 0, 1}, {2, 0, 0, 0, 0, 2}, {2, 0, 0, 0, 0, 3}, {2, 0, 0, 0, 0, 4}}
	rSrcs = []netip.Addr{netip.MustParseAddr("fe80::1:11"), netip.MustParseAddr("fe80::1:12"), netip.MustParseAddr("2001:db8::1")}
	rEths = []net.HardwareAddr{{0, 0x66, 0x66, 0x66, 0x66, 0x66}, {0, 0x77, 0x77, 0x77, 0x77, 0x77}, {0, 0x88, 0x88, 0x88, 0x88, 0x88}}
)

// other ICMPv6 messages sharing the receive buffer: echo request, echo reply, NS for an LLA, NA, RS
var otherMsgs = func() [][]byte {
	pad := bytes.Repeat([]byte{0x5a}, 120)
	tgt := []byte{0xfe, 0x80, 0, 0, 0, 0, 0, 0, 0, 0, 0, 0, 0, 0, 0, 0x77}
	ns := append(append([]byte{135, 0, 0, 0, 0, 0, 0, 0}, tgt...), 1, 1, 2, 0, 0, 0, 0, 4)
	na := append(append([]byte{136, 0, 0, 0, 0x60, 0, 0, 0}, tgt...), 2, 1, 2, 0, 0, 0, 0, 4)
	return [][]byte{
		append([]byte{128, 0, 0, 0, 0, 1, 0, 1}, pad...),
		append([]byte{129, 0, 0, 0, 0, 1, 0, 1}, pad...),
		append(ns, pad...), append(na, pad...),
		append([]byte{133, 0, 0, 0, 0, 0, 0, 0, 1, 1, 2, 0, 0, 0, 0, 4}, pad...),
	}
}()

func huntIP(rng *lib.Rand, m int) netip.Addr {
	switch rng.Intn(12) {
	case 0, 1, 2:
		return netip.Addr{} // address-less
	case 3, 4, 5, 6:
		return netip.AddrFrom16([16]byte{0xfe, 0x80, 0, 0, 0, 0, 0, 0, 0, 0, 0, 0, 0, 0, 1, byte(m + 1)})
	case 7:
		return netip.AddrFrom16([16]byte{0xfe, 0x80, 0, 0, 0, 0, 0, 0, 0, 0, 0, 0, 0, 0, 2, byte(m + 1)}) // a second LLA of the same host
	case 8:
		return netip.AddrFrom16([16]byte{0x20, 0x01, 0x0d, 0xb8, 0, 0, 0, 0, 0, 0, 0, 0, 0, 0, 0, byte(m + 1)}) // global
	case 9:
		return netip.AddrFrom4([4]byte{192, 168, 0, byte(10 + m)}) // IPv4
	case 10:
		return netip.AddrFrom4([4]byte{169, 254, 1, byte(10 + m)}) // IPv4 link-local
	default:
		return netip.AddrFrom16([16]byte{0, 0, 0, 0, 0, 0, 0, 0, 0, 0, 0xff, 0xff, 169, 254, 1, byte(m + 1)}) // 4in6 link-local
	}
}

// specialEth: Ethernet sources with the group bit clear (Parse drops the others before any handler):
// all-zero, our own MAC, the IPv4 router's MAC, device-like
func specialEth(rng *lib.Rand) net.HardwareAddr {
	for {
		if m := specialMAC(rng); m[0]&1 == 0 {
			return m
		}
	}
}

func genScript(rng *lib.Rand, n int, delay func() int, ras [][]byte) []hop {
	var ops []hop
	for i := 0; i < n; i++ {
		var o hop
		switch c := rng.Intn(100); {
		case c < 34:
			m := rng.Intn(len(hMACs))
			o = hop{kind: 'S', mac: hMACs[m], ip: huntIP(rng, m)}
		case c < 56:
			m := rng.Intn(len(hMACs))
			o = hop{kind: 'P', mac: hMACs[m], ip: huntIP(rng, m)}
		case c < 60:
			o = hop{kind: 'C'}
		case c < 70:
			o = hop{kind: 'X', msg: otherMsgs[rng.Intn(len(otherMsgs))]}
		default:
			k := rng.Intn(len(rSrcs))
			if rng.Chance(60) {
				k = 0
			}
			o = hop{kind: 'R', counter: rng.Pick(3, 3, 3, 3, -1, 7, 0, 1, 2, 4), hk: !rng.Chance(8), src: rSrcs[k], eth: rEths[k], msg: ras[rng.Intn(len(ras))]}
			if rng.Chance(25) { // address-like fields from the special value domain: Ethernet source and IPv6 source
				o.eth = specialEth(rng)
				if rng.Chance(50) {
					a, _ := netip.AddrFromSlice(specialIP6(rng))
					o.src = a
				}
			}
		}
		o.delay = delay()
		ops = append(ops, o)
	}
	return ops
}

func registerHunt(r *lib.Run) {
	r.Register("h", func(a []string) string {
		toks, obs := runScript(r, parseScript(a), "replay")
		r.Sample("replayed history derived line: h " + strings.Join(toks, " "))
		return obs
	})
}

func huntScenarios(r *lib.Run, rng *lib.Rand) {
	ras := directedRAs()[:6]
	cdr := countDomainRAs(rng)
	for i := 0; i < 4; i++ { // many-entry options in the router-table histories too
		ras = append(ras, cdr[rng.Intn(len(cdr))])
	}
	for i := 0; i < 6; i++ {
		_, m := genRA(rng)
		if !hasXN(m) {
			ras = append(ras, m)
		}
	}
	nImm, nTimed, timedOps := 40, 3, 8
	if r.Thorough() {
		nImm, nTimed, timedOps = 600, 24, 14
	}
	var wg sync.WaitGroup
	run := func(class string, ops []hop) {
		defer wg.Done()
		t0 := time.Now()
		label := class
		toks, obs := runScript(r, ops, class)
		if class != "timed" && time.Since(t0) > 1700*time.Millisecond {
			r.Stat("hunt.immediate.too-slow-dropped", 1) // a loop timer may have fired: not an immediate scenario any more
			return
		}
		_ = label
		r.Case("h", toks, obs)
		r.Stat("class.h."+class, 1)
	}
	// timed scenarios first: they run alongside everything else
	for i := 0; i < nTimed; i++ {
		rg := rng.Fork()
		ops := genScript(rg, timedOps, func() int { return rg.Pick(30, 300, 1200, 2100, 2900, 3100) }, ras)
		// make sure something can be observed: a processed RA and a hunt early on
		ops = append([]hop{
			{kind: 'R', counter: 3, hk: true, src: rSrcs[0], eth: rEths[0], msg: ras[1], delay: 20},
			{kind: 'S', mac: hMACs[0], ip: netip.Addr{}, delay: 400},
			{kind: 'S', mac: hMACs[1], ip: huntIP(rg, 1), delay: 2500},
		}, ops...)
		wg.Add(1)
		go run("timed", ops)
	}
	// directed immediate scenarios
	lla1 := netip.MustParseAddr("fe80::1:1")
	directed := [][]hop{
		{ // hunts before any router: nothing may be sent; then the RA, then both loops fire
			{kind: 'S', mac: hMACs[0], ip: lla1, delay: 20}, {kind: 'S', mac: hMACs[1], delay: 20},
			{kind: 'R', counter: 3, hk: true, src: rSrcs[0], eth: rEths[0], msg: ras[1], delay: 40},
			{kind: 'R', counter: 3, hk: true, src: rSrcs[1], eth: rEths[1], msg: ras[3], delay: 40},
			{kind: 'P', mac: hMACs[0], ip: lla1, delay: 20},
			{kind: 'R', counter: 0, hk: true, src: rSrcs[0], eth: rEths[0], msg: ras[1], delay: 40},
			{kind: 'C', delay: 20},
		},
		{ // filters and idempotence
			{kind: 'R', counter: 3, hk: true, src: rSrcs[0], eth: rEths[0], msg: ras[1], delay: 20},
			{kind: 'S', mac: hMACs[0], ip: netip.MustParseAddr("192.168.0.10"), delay: 20},
			{kind: 'S', mac: hMACs[0], ip: netip.MustParseAddr("2001:db8::1"), delay: 20},
			{kind: 'S', mac: hMACs[0], ip: lla1, delay: 30}, {kind: 'S', mac: hMACs[0], ip: lla1, delay: 30},
			{kind: 'S', mac: hMACs[0], delay: 30},
			{kind: 'P', mac: hMACs[0], ip: netip.MustParseAddr("2001:db8::1"), delay: 20},
			{kind: 'R', counter: 1, hk: true, src: rSrcs[0], eth: rEths[0], msg: ras[1], delay: 40},
			{kind: 'P', mac: hMACs[0], delay: 20},
			{kind: 'R', counter: 1, hk: true, src: rSrcs[0], eth: rEths[0], msg: ras[1], delay: 40},
		},
		{ // default router: the last CREATED entry; lifetime 0 of the default and a higher preference elsewhere do not move it
			{kind: 'R', counter: 3, hk: true, src: rSrcs[0], eth: rEths[0], msg: mkRA(64, 0, 1800, 0, 0), delay: 20},
			{kind: 'R', counter: 3, hk: true, src: rSrcs[1], eth: rEths[1], msg: mkRA(64, 0, 1800, 0, 0), delay: 20},
			{kind: 'R', counter: 3, hk: true, src: rSrcs[1], eth: rEths[1], msg: mkRA(64, 0, 0, 0, 0), delay: 20},
			{kind: 'R', counter: 3, hk: true, src: rSrcs[0], eth: rEths[0], msg: mkRA(64, 0x08, 9000, 0, 0), delay: 20},
			{kind: 'S', mac: hMACs[0], delay: 40},
		},
		{ // Close with a hunted host, then an RA (ra-after-close), then another
			{kind: 'R', counter: 3, hk: true, src: rSrcs[0], eth: rEths[0], msg: ras[1], delay: 20},
			{kind: 'S', mac: hMACs[2], delay: 30}, {kind: 'C', delay: 20},
			{kind: 'R', counter: 3, hk: true, src: rSrcs[1], eth: rEths[1], msg: ras[1], delay: 30},
			{kind: 'R', counter: 3, hk: true, src: rSrcs[1], eth: rEths[1], msg: ras[1], delay: 30},
			{kind: 'S', mac: hMACs[3], delay: 30},
		},
	}
	par := 8
	if r.Thorough() {
		par = 16
	}
	sem := make(chan bool, par)
	for _, ops := range directed {
		wg.Add(1)
		sem <- true
		go func(ops []hop) { defer func() { <-sem }(); run("immediate", ops) }(ops)
	}
	for i := 0; i < nImm; i++ {
		rg := rng.Fork()
		ops := genScript(rg, 4+rg.Intn(9), func() int { return rg.Pick(30, 45, 60) }, ras)
		wg.Add(1)
		sem <- true
		go func(ops []hop) { defer func() { <-sem }(); run("immediate", ops) }(ops)
	}
	if r.Thorough() {
		// bounded-exhaustive: every script of depth 3 over a small alphabet (validates the model on all
		// short interleavings; the theorems cover every depth)
		g := netip.MustParseAddr("2001:db8::5")
		alpha := []hop{
			{kind: 'S', mac: hMACs[0]}, {kind: 'S', mac: hMACs[0], ip: lla1}, {kind: 'S', mac: hMACs[0], ip: g},
			{kind: 'P', mac: hMACs[0]}, {kind: 'P', mac: hMACs[0], ip: g}, {kind: 'C'},
			{kind: 'R', counter: 3, hk: true, src: rSrcs[0], eth: rEths[0], msg: ras[1]},
			{kind: 'R', counter: 3, hk: true, src: rSrcs[1], eth: rEths[1], msg: ras[3]},
			{kind: 'R', counter: 1, hk: true, src: rSrcs[1], eth: rEths[1], msg: ras[3]},
		}
		for a := range alpha {
			for b := range alpha {
				for c := range alpha {
					ops := []hop{alpha[a], alpha[b], alpha[c], {kind: 'R', counter: 0, hk: true, src: rSrcs[0], eth: rEths[0], msg: ras[1]}}
					for i := range ops {
						ops[i].delay = 30
					}
					wg.Add(1)
					sem <- true
					go func(ops []hop) { defer func() { <-sem }(); run("exhaustive3", ops) }(ops)
				}
			}
		}
	}
	wg.Wait()
}
