package main

import "pvharness/lib"

func registerHunt(r *lib.Run)                {}
func huntScenarios(r *lib.Run, rng *lib.Rand) {}
