package main

// Generators: router advertisements written byte by byte from generated option lists
// (no use of the library's marshal functions).

import (
	"bytes"

	"pvharness/lib"
)

func be32b(v uint32) []byte { return []byte{byte(v >> 24), byte(v >> 16), byte(v >> 8), byte(v)} }

// opt writes type, length (units of 8 bytes) and the body padded/truncated to 8*l-2 bytes.
func opt(t byte, l int, body []byte) []byte {
	b := make([]byte, 8*l)
	b[0], b[1] = t, byte(l)
	copy(b[2:], body)
	return b
}

// Value domain of address-like fields: besides device-like values every MAC-valued field takes the
// all-zero, broadcast, multicast (IPv4 and IPv6 mapping), our own, the IPv4 router's (= the Ethernet
// source of the `ra` cases) MAC, and every IPv6-address field takes ::, ::1, all-ones, IPv4-mapped,
// multicast, link-local, global and ULA addresses.
func specialMAC(rng *lib.Rand) []byte {
	switch rng.Intn(8) {
	case 0:
		return []byte{0, 0, 0, 0, 0, 0}
	case 1:
		return []byte{0xff, 0xff, 0xff, 0xff, 0xff, 0xff}
	case 2:
		return []byte{0x01, 0x00, 0x5e, 0x01, 0x02, 0x03}
	case 3:
		return []byte{0x33, 0x33, 0x00, 0x00, 0x00, 0x01}
	case 4:
		return append([]byte{}, lib.HostMAC...) // our own
	case 5:
		return append([]byte{}, lib.RouterMAC...) // the IPv4 router's = Ethernet source of the ra cases
	case 6:
		return []byte{0x00, 0x77, 0x77, 0x77, 0x77, 0x77}
	}
	return []byte{0x02, rng.Byte(), rng.Byte(), rng.Byte(), rng.Byte(), rng.Byte()}
}

var specialIP6s = [][]byte{
	make([]byte, 16), // ::
	{0, 0, 0, 0, 0, 0, 0, 0, 0, 0, 0, 0, 0, 0, 0, 1},                                     // ::1
	{0xff, 0xff, 0xff, 0xff, 0xff, 0xff, 0xff, 0xff, 0xff, 0xff, 0xff, 0xff, 0xff, 0xff, 0xff, 0xff}, // all ones
	{0, 0, 0, 0, 0, 0, 0, 0, 0, 0, 0xff, 0xff, 192, 168, 0, 1},                            // ::ffff:192.168.0.1
	{0xff, 0x02, 0, 0, 0, 0, 0, 0, 0, 0, 0, 0, 0, 0, 0, 1},                                // ff02::1
	{0xfe, 0x80, 0, 0, 0, 0, 0, 0, 0, 0, 0, 0, 0, 0, 0, 1},                                // fe80::1
	{0x20, 0x01, 0x0d, 0xb8, 0, 0, 0, 0, 0, 0, 0, 0, 0, 0, 0, 1},                          // 2001:db8::1
	{0xfd, 0, 0, 0, 0, 0, 0, 0, 0, 0, 0, 0, 0, 0, 0, 1},                                   // fd00::1 (ULA)
}

func specialIP6(rng *lib.Rand) []byte {
	if rng.Chance(15) {
		return rng.Bytes(16)
	}
	return append([]byte{}, specialIP6s[rng.Intn(len(specialIP6s))]...)
}

func pick32(rng *lib.Rand) uint32 {
	switch rng.Intn(7) {
	case 0:
		return 0
	case 1:
		return 0xffffffff
	case 6:
		return 1
	case 2:
		return uint32(rng.Intn(100000))
	case 3:
		return 1 << uint(rng.Intn(32))
	}
	return uint32(rng.U64())
}

func optSLLA(rng *lib.Rand, t byte) []byte {
	l := 1
	if rng.Chance(6) {
		l = 2
	}
	if l == 1 && rng.Chance(60) {
		return opt(t, 1, specialMAC(rng))
	}
	return opt(t, l, rng.Bytes(8*l-2))
}

func optMTU(rng *lib.Rand) []byte {
	var mtu uint32
	switch rng.Intn(10) {
	case 8:
		mtu = 1279
	case 9:
		mtu = 0xffffffff
	case 0:
		mtu = 0
	case 1:
		mtu = 1280
	case 2:
		mtu = 1500
	case 3:
		mtu = 9000
	case 4:
		mtu = 65535
	case 5:
		mtu = 65536
	case 6:
		mtu = 0x05dc05dc
	default:
		mtu = uint32(rng.U64())
	}
	res := []byte{0, 0}
	if rng.Chance(15) {
		res = rng.Bytes(2)
	}
	l := 1
	if rng.Chance(6) {
		l = rng.Pick(2, 3, 33)
	}
	return opt(5, l, append(res, be32b(mtu)...))
}

var plens = []int{0, 1, 1, 7, 8, 9, 15, 16, 32, 47, 48, 56, 60, 63, 63, 64, 64, 65, 65, 71, 72, 96, 120, 121, 127, 127, 128, 128}

func optPrefix(rng *lib.Rand) []byte {
	pl := plens[rng.Intn(len(plens))]
	if rng.Chance(10) {
		pl = rng.Intn(129)
	}
	if rng.Chance(4) {
		pl = rng.Pick(129, 130, 200, 255)
	}
	fl := byte(0)
	switch rng.Intn(4) {
	case 0:
		fl = 0xc0
	case 1:
		fl = 0x80
	case 2:
		fl = 0x40
	default:
		fl = rng.Byte()
	}
	body := []byte{byte(pl), fl}
	body = append(body, be32b(pick32(rng))...)
	body = append(body, be32b(pick32(rng))...)
	if rng.Chance(20) {
		body = append(body, rng.Bytes(4)...)
	} else {
		body = append(body, 0, 0, 0, 0)
	}
	pfx := rng.Bytes(16)
	if rng.Chance(30) {
		copy(pfx, []byte{0x20, 0x01, 0x0d, 0xb8})
	}
	if rng.Chance(40) {
		pfx = specialIP6(rng)
	}
	body = append(body, pfx...)
	l := 4
	if rng.Chance(5) {
		l = rng.Pick(3, 5)
	}
	return opt(3, l, body)
}

func optRoute(rng *lib.Rand) []byte {
	pl := plens[rng.Intn(len(plens))]
	if rng.Chance(10) {
		pl = rng.Intn(129)
	}
	l := 3
	switch {
	case pl == 0:
		l = rng.Pick(1, 2, 3)
	case pl <= 64:
		l = rng.Pick(2, 3)
	}
	if rng.Chance(6) { // inconsistent length / prefix length
		l = rng.Pick(1, 2, 3, 4)
		pl = rng.Pick(0, 1, 64, 65, 128, 129, 255)
	}
	prf := []byte{0x00, 0x08, 0x18}[rng.Intn(3)]
	if rng.Chance(5) {
		prf = 0x10 // reserved
	}
	if rng.Chance(20) {
		prf |= rng.Byte() & 0xe7
	}
	body := []byte{byte(pl), prf}
	body = append(body, be32b(pick32(rng))...)
	pfx := rng.Bytes(16)
	if rng.Chance(35) {
		pfx = specialIP6(rng)
	}
	if rng.Chance(25) { // well-formed sender: bits after the prefix length are zero
		for i := range pfx {
			switch {
			case 8*i >= pl:
				pfx[i] = 0
			case 8*(i+1) > pl:
				pfx[i] &= ^byte(0xff >> uint(pl-8*i))
			}
		}
	}
	body = append(body, pfx...)
	return opt(24, l, body)
}

func optRDNSS(rng *lib.Rand) []byte {
	n := rng.Pick(1, 1, 2, 3)
	l := 1 + 2*n
	if rng.Chance(8) {
		l = rng.Pick(1, 2, 4, 6)
	}
	body := []byte{0, 0}
	if rng.Chance(10) {
		body = rng.Bytes(2)
	}
	body = append(body, be32b(pick32(rng))...)
	for i := 0; i <= n; i++ {
		if rng.Chance(45) {
			body = append(body, specialIP6(rng)...)
		} else {
			body = append(body, rng.Bytes(16)...)
		}
	}
	return opt(25, l, body)
}

var labelAlphabet = []byte("abcdexn-019_@")

func genLabel(rng *lib.Rand) []byte {
	n := 1 + rng.Intn(6)
	if rng.Chance(3) {
		n = rng.Pick(20, 63)
	}
	b := make([]byte, n)
	for i := range b {
		b[i] = labelAlphabet[rng.Intn(len(labelAlphabet))]
	}
	if rng.Chance(4) {
		b[rng.Intn(n)] = byte(rng.Pick('.', ' ', 0x80, 0xff, 0x7f, 0x01))
	}
	return b
}

func optDNSSL(rng *lib.Rand) []byte {
	body := []byte{0, 0}
	if rng.Chance(10) {
		body = rng.Bytes(2)
	}
	body = append(body, be32b(pick32(rng))...)
	names := rng.Pick(1, 1, 2, 3)
	if rng.Chance(4) {
		names = 0
	}
	if rng.Chance(5) {
		names = rng.Pick(12, 30) // long option: 256 bytes and more
	}
	for i := 0; i < names; i++ {
		for j := rng.Pick(1, 2, 2, 3); j > 0; j-- {
			lab := genLabel(rng)
			body = append(body, byte(len(lab)))
			body = append(body, lab...)
		}
		if !(i == names-1 && rng.Chance(4)) { // rarely: last name not terminated
			body = append(body, 0)
		}
	}
	// pad to a multiple of 8 (with the 2 header bytes); sometimes a whole extra block or dirty padding
	for (len(body)+2)%8 != 0 {
		body = append(body, 0)
	}
	if rng.Chance(10) {
		body = append(body, 0, 0, 0, 0, 0, 0, 0, 0)
	}
	if rng.Chance(4) && len(body) > 8 {
		body[len(body)-1] = rng.Byte()
	}
	l := (len(body) + 2) / 8
	if l > 255 {
		l = 255
	}
	return opt(31, l, body)
}

func optUnknown(rng *lib.Rand) []byte {
	t := byte(rng.Pick(0, 4, 6, 7, 8, 13, 14, 23, 26, 30, 32, 38, 253, 255))
	if rng.Chance(20) {
		t = rng.Byte()
		for t == 1 || t == 2 || t == 3 || t == 5 || t == 24 || t == 25 || t == 31 {
			t = rng.Byte()
		}
	}
	l := rng.Pick(1, 1, 2, 3, 5)
	return opt(t, l, rng.Bytes(8*l-2))
}

func raHeader(rng *lib.Rand) []byte {
	h := make([]byte, 16)
	h[0] = 134
	h[1] = 0
	h[2], h[3] = rng.Byte(), rng.Byte()
	h[4] = byte(rng.Pick(0, 1, 64, 255, rng.Intn(256)))
	switch rng.Intn(5) {
	case 0:
		h[5] = 0
	case 1:
		h[5] = 0xc0
	case 2:
		h[5] = byte(rng.Pick(0x08, 0x18, 0x10, 0x88, 0x58))
	default:
		h[5] = rng.Byte()
	}
	lt := uint16(rng.Pick(0, 1, 1800, 9000, 65535, rng.Intn(65536)))
	h[6], h[7] = byte(lt>>8), byte(lt)
	copy(h[8:12], be32b(pick32(rng)))
	copy(h[12:16], be32b(pick32(rng)))
	return h
}

var optGens = []struct {
	name string
	f    func(*lib.Rand) []byte
}{
	{"slla", func(r *lib.Rand) []byte { return optSLLA(r, 1) }},
	{"tlla", func(r *lib.Rand) []byte { return optSLLA(r, 2) }},
	{"mtu", optMTU}, {"prefix", optPrefix}, {"route", optRoute}, {"rdnss", optRDNSS}, {"dnssl", optDNSSL}, {"unknown", optUnknown},
}

// weights: the option types the property names dominate
var optWeights = []int{0, 0, 0, 1, 2, 2, 3, 3, 3, 4, 4, 4, 5, 5, 5, 6, 6, 6, 7, 7}

func genRA(rng *lib.Rand) (string, []byte) {
	msg := raHeader(rng)
	class := "mixed"
	switch c := rng.Intn(100); {
	case c < 6: // header only
		return "header-only", msg
	case c < 20: // one option of one type
		g := optGens[rng.Intn(len(optGens))]
		return "single-" + g.name, append(msg, g.f(rng)...)
	case c < 32: // the same type repeated
		g := optGens[rng.Intn(len(optGens))]
		n := rng.Pick(2, 2, 3)
		for i := 0; i < n; i++ {
			msg = append(msg, g.f(rng)...)
			if rng.Chance(30) {
				msg = append(msg, optUnknown(rng)...)
			}
		}
		return "repeated-" + g.name, msg
	default:
		n := 1 + rng.Intn(7)
		for i := 0; i < n; i++ {
			msg = append(msg, optGens[optWeights[rng.Intn(len(optWeights))]].f(rng)...)
		}
	}
	// boundary / malformed
	switch c := rng.Intn(100); {
	case c < 6: // truncated at a random offset inside the option area
		if len(msg) > 17 {
			msg = msg[:16+rng.Intn(len(msg)-16)]
			class = "truncated"
		}
	case c < 9: // one trailing byte
		msg = append(msg, rng.Byte())
		class = "trailing-byte"
	case c < 12: // a length field that overruns the packet
		msg = append(msg, byte(rng.Pick(1, 3, 24, 25, 31, 77)), byte(2+rng.Intn(200)), 0, 0, 0, 0, 0, 0)
		class = "overrun"
	case c < 15: // an option of length zero (RFC 4861 4.6: the advertisement must be discarded), at the end or in the middle
		z := []byte{byte(rng.Pick(1, 2, 3, 5, 24, 25, 31, 14, 0)), 0, 0, 0, 0, 0, 0, 0}
		if rng.Bool() {
			msg = append(msg, z...)
		} else {
			msg = append(append(append([]byte{}, msg[:16]...), z...), msg[16:]...)
		}
		class = "zero-length"
	case c < 18: // random mutation of one byte of the option area
		if len(msg) > 16 {
			msg[16+rng.Intn(len(msg)-16)] = rng.Byte()
			class = "mutated"
		}
	}
	return class, msg
}

func hasXN(msg []byte) bool {
	if len(msg) <= 16 {
		return false
	}
	return bytes.Contains(msg[16:], []byte("xn--"))
}

func mkRA(hop, flags byte, life uint16, reach, retr uint32, opts ...[]byte) []byte {
	m := []byte{134, 0, 0, 0, hop, flags, byte(life >> 8), byte(life)}
	m = append(m, be32b(reach)...)
	m = append(m, be32b(retr)...)
	for _, o := range opts {
		m = append(m, o...)
	}
	return m
}

func dnsslBody(lifetime uint32, names ...string) []byte {
	body := append([]byte{0, 0}, be32b(lifetime)...)
	for _, n := range names {
		for _, lab := range bytes.Split([]byte(n), []byte(".")) {
			body = append(body, byte(len(lab)))
			body = append(body, lab...)
		}
		body = append(body, 0)
	}
	for (len(body)+2)%8 != 0 {
		body = append(body, 0)
	}
	return body
}
func optD(lifetime uint32, names ...string) []byte {
	b := dnsslBody(lifetime, names...)
	return opt(31, (len(b)+2)/8, b)
}
func optR(pl int, prf byte, life uint32, l int, pfx ...byte) []byte {
	body := append([]byte{byte(pl), prf}, be32b(life)...)
	return opt(24, l, append(body, pfx...))
}
func optP(pl int, fl byte, valid, pref uint32, pfx ...byte) []byte {
	body := append([]byte{byte(pl), fl}, be32b(valid)...)
	body = append(body, be32b(pref)...)
	body = append(body, 0, 0, 0, 0)
	p := make([]byte, 16)
	copy(p, pfx)
	return opt(3, 4, append(body, p...))
}
func optS(ttl uint32, servers ...[]byte) []byte {
	body := append([]byte{0, 0}, be32b(ttl)...)
	for _, s := range servers {
		a := make([]byte, 16)
		copy(a, s)
		body = append(body, a...)
	}
	return opt(25, 1+2*len(servers), body)
}

// directedRAs: the witnesses of the refutation lemmas and one advertisement per option class.
func directedRAs() [][]byte {
	mac := []byte{0xaa, 0xbb, 0xcc, 0xdd, 0xee, 0xff}
	s1 := []byte{0x20, 0x01, 0x48, 0x60, 0x48, 0x60, 0, 0, 0, 0, 0, 0, 0, 0, 0x88, 0x88}
	s2 := []byte{0x20, 0x01, 0x48, 0x60, 0x48, 0x60, 0, 0, 0, 0, 0, 0, 0, 0, 0x88, 0x44}
	long := []string{}
	for i := 0; i < 30; i++ {
		long = append(long, "aaaaaaa.bb")
	}
	return [][]byte{
		mkRA(64, 0xc0, 1800, 1, 2),
		mkRA(64, 0xc0, 1800, 1, 2, opt(1, 1, mac)),
		mkRA(64, 0x08, 1800, 0, 0, opt(5, 1, []byte{0, 0, 0, 0, 0x05, 0xdc})),                                          // mtu-offset, router-mtu-unset
		mkRA(64, 0x18, 1800, 0, 0, opt(1, 1, mac), optP(64, 0xc0, 86400, 14400, 0x20, 0x01, 0x0d, 0xb8, 0, 1, 0, 2)),      // typical
		mkRA(64, 0, 1800, 0, 0, optP(60, 0xc0, 1, 2, 0x20, 0x01, 0x0d, 0xb8, 0xff, 0xff, 0xff, 0xff, 0xff)),               // prefix masked inside an octet
		mkRA(64, 0, 1800, 0, 0, optR(60, 0x08, 600, 2, 0x20, 0x01, 0x0d, 0xb8, 0, 0, 0, 0xf0)),                            // ri-prefix-bits
		mkRA(64, 0, 1800, 0, 0, optR(64, 0x08, 600, 2, 0x20, 0x01, 0x0d, 0xb8, 0, 0, 0, 0xf0)),                            // whole octets: exact
		mkRA(64, 0, 1800, 0, 0, optR(0, 0, 0, 1)),                                                                         // ::/0
		mkRA(64, 0, 1800, 0, 0, optR(48, 0x08, 600, 2, 0x20, 0x01, 0x0d, 0xb8, 0, 1), optR(56, 0x18, 700, 2, 0x20, 0x01, 0x0d, 0xb8, 0, 2, 3)), // ri-multiple
		mkRA(64, 0, 1800, 0, 0, optS(600, s1), optS(1200, s2)),                                                            // rdnss-multiple
		mkRA(64, 0, 1800, 0, 0, optS(600, s1, s2)),
		mkRA(64, 0, 1800, 0, 0, optD(600, "example.com", "lan")),
		mkRA(64, 0, 1800, 0, 0, optD(600, "example.com"), optD(900, "home.arpa")),                                          // dnssl-multiple
		mkRA(64, 0, 1800, 0, 0, optD(600, long...)),                                                                         // dnssl-long
		mkRA(64, 0, 1800, 0, 0, opt(14, 1, []byte{1, 2, 3, 4, 5, 6}), opt(1, 1, mac), opt(253, 2, nil)),                   // unknown types skipped
		mkRA(64, 0, 1800, 0, 0, opt(1, 1, mac), opt(1, 1, []byte{1, 2, 3, 4, 5, 6})),                                       // repeated SLLA
		mkRA(64, 0, 1800, 0, 0, opt(1, 1, []byte{0, 0, 0, 0, 0, 0})),                                                       // SLLA present but all-zero: recorded as advertised
		mkRA(64, 0, 1800, 0, 0, opt(1, 1, []byte{0xff, 0xff, 0xff, 0xff, 0xff, 0xff})),                                     // SLLA broadcast
		mkRA(64, 0, 1800, 0, 0, opt(1, 1, []byte{0x33, 0x33, 0, 0, 0, 1})),                                                 // SLLA multicast
		mkRA(64, 0, 1800, 0, 0, opt(1, 1, lib.HostMAC)),                                                                    // SLLA = our own MAC
		mkRA(64, 0, 1800, 0, 0, opt(1, 1, lib.RouterMAC)),                                                                  // SLLA = Ethernet source
		mkRA(0, 0x10, 0, 0, 0xffffffff, opt(5, 1, []byte{0, 0, 0, 0, 4, 0xff}), optP(128, 0xc0, 0xffffffff, 1, specialIP6s[2]...)), // hop 0, reserved preference, MTU 1279, /128 all-ones
		mkRA(255, 0, 65535, 1, 1, opt(5, 1, []byte{0, 0, 0xff, 0xff, 0xff, 0xff}), optP(0, 0, 0, 0), optP(1, 0, 1, 1, 0xff), optP(127, 0, 0, 0, specialIP6s[2]...), optS(0, specialIP6s[0], specialIP6s[3])),
		mkRA(64, 0, 1800, 0, 0, opt(1, 1, mac), []byte{31, 0, 0, 0, 0, 0, 0, 0}),                                            // zero-length option: rejected
		mkRA(64, 0, 1800, 0, 0, optS(600, s1), opt(25, 2, []byte{0, 0, 0, 0, 0, 9})),                                       // malformed RDNSS after a good one (was: lifetime overwritten)
		mkRA(64, 0, 1800, 0, 0, optS(600, s1), opt(25, 4, append([]byte{0, 0, 0, 0, 0, 9}, s2...))),                        // RDNSS of even length
		mkRA(64, 0, 1800, 0, 0, optR(48, 0x08, 600, 2, 0x20, 0x01, 0x0d, 0xb8, 0, 1), optR(56, 0x10, 700, 2, 0x20, 1)),      // reserved preference after a good route (was: fields overwritten)
		mkRA(64, 0, 1800, 0, 0, opt(1, 1, mac), append([]byte{3, 4, 200, 0xc0}, make([]byte, 28)...)),                       // prefix length 200 (was: accepted with a nil prefix)
	}
}

// ---------------------------------------------------------------------------------------------
// MANY ENTRIES OF ONE ELEMENT, up to what the Length octet allows: the count domain
// 1, 2, 15, 16, 17, 31, 32, 33, 63, 64, max for every variable-length option the handler records, and the
// Length octet domain 1, 2, 31, 32, 33, 127, 128, 254, 255 with matching and non-matching actual sizes.
var countDomain = []int{1, 2, 15, 16, 17, 31, 32, 33, 63, 64}
var lengthDomain = []int{1, 2, 31, 32, 33, 127, 128, 254, 255}

func rdnssN(rng *lib.Rand, n int) []byte { // n servers in ONE option: Length = 1 + 2n (n <= 127)
	body := append([]byte{0, 0}, be32b(uint32(600+n))...)
	for i := 0; i < n; i++ {
		a := []byte{0x20, 0x01, 0x0d, 0xb8, 0, 0, 0, 0, 0, 0, 0, 0, 0, 0, byte(i >> 8), byte(i)}
		if rng.Chance(10) {
			a = specialIP6(rng)
		}
		body = append(body, a...)
	}
	return opt(25, 1+2*n, body)
}

func dnsslN(rng *lib.Rand, names int, labels int) []byte { // names x labels short labels, as long as the option fits 255*8 bytes
	body := append([]byte{0, 0}, be32b(uint32(900+names))...)
	for i := 0; i < names; i++ {
		nb := []byte{}
		for j := 0; j < labels; j++ {
			lab := []byte{byte('a' + (i+j)%26), byte('0' + j%10)}
			nb = append(nb, byte(len(lab)))
			nb = append(nb, lab...)
		}
		nb = append(nb, 0)
		if len(body)+len(nb)+2 > 255*8-8 {
			break
		}
		body = append(body, nb...)
	}
	for (len(body)+2)%8 != 0 {
		body = append(body, 0)
	}
	return opt(31, (len(body)+2)/8, body)
}

func countDomainRAs(rng *lib.Rand) [][]byte {
	var out [][]byte
	hdr := func() []byte { return mkRA(64, 0xc0, 1800, 1, 2) }
	for _, n := range append(append([]int{}, countDomain...), 126, 127) {
		out = append(out, append(hdr(), rdnssN(rng, n)...))                          // one RDNSS option with n servers
		out = append(out, append(hdr(), dnsslN(rng, n, 1)...))                       // n one-label names
		out = append(out, append(hdr(), dnsslN(rng, 1, n)...))                       // one name of n labels
	}
	out = append(out, append(append(hdr(), rdnssN(rng, 16)...), rdnssN(rng, 17)...)) // two big options
	for _, n := range []int{1, 2, 15, 16, 17, 31, 32, 33, 45, 63, 64} {             // n options of one kind
		m1, m2, m3, m4, m5 := hdr(), hdr(), hdr(), hdr(), hdr()
		for i := 0; i < n; i++ {
			m1 = append(m1, optP(64, 0xc0, uint32(i), uint32(i), 0x20, 0x01, 0x0d, 0xb8, byte(i))...)
			m2 = append(m2, optR(48, 0x08, uint32(i), 2, 0x20, 0x01, 0x0d, 0xb8, 0, byte(i))...)
			m3 = append(m3, opt(5, 1, []byte{0, 0, 0, 0, 5, byte(i)})...)
			m4 = append(m4, opt(1, 1, []byte{2, 0, 0, 0, 0, byte(i)})...)
			m5 = append(m5, rdnssN(rng, 1)...)
		}
		out = append(out, m1, m2, m3, m4, m5)
	}
	// the Length octet domain for every known type and one unknown type: a matching body, a body one block
	// short (overrun) and one block long (the rest is parsed as further options)
	for _, t := range []byte{1, 2, 3, 5, 24, 25, 31, 14} {
		for _, l := range lengthDomain {
			body := rng.Bytes(8*l - 2)
			if t == 25 || t == 31 || t == 24 {
				copy(body, []byte{0, 0, 0, 0, 0, 9})
			}
			if t == 31 { // a plausible name list so that long DNSSL options are decoded, not just rejected
				b := dnsslN(rng, 200, 1)
				copy(body[6:], b[8:])
			}
			full := opt(t, l, body)
			out = append(out, append(hdr(), full...))
			if l > 1 {
				out = append(out, append(hdr(), full[:len(full)-8]...))
			}
			out = append(out, append(append(hdr(), full...), opt(1, 1, []byte{2, 0, 0, 0, 0, 1})...))
		}
	}
	return out
}
