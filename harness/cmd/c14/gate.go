package main

// Deterministic replay of the interleaving  Lookup ; StopHunt (or Close) ; Send  on the REAL handler,
// without any hook: the harness owns the connection.  gateConn blocks the first forged neighbour
// advertisement of a pass inside WriteTo until released; by then spoofLoop has collected its list under
// the handler's lock and released the lock, so StopHunt/Close return at once; after the release the
// frames decided before are written although the call has returned (the second one is even started
// after it).  No sleep decides anything: bounded waits are failure detection only.

import (
	"fmt"
	"net"
	"net/netip"
	"sort"
	"strings"
	"sync"
	"time"

	"github.com/irai/packet"
	"github.com/irai/packet/handlers/icmp_spoofer"
	"pvharness/lib"
)

type gateConn struct {
	mu      sync.Mutex
	frames  [][]byte
	armed   bool
	blocked chan struct{} // closed when the first NA of the pass is inside WriteTo
	release chan struct{} // closed by the harness
	done    chan struct{}
	once    sync.Once
}

func newGateConn() *gateConn {
	return &gateConn{blocked: make(chan struct{}), release: make(chan struct{}), done: make(chan struct{})}
}
func (c *gateConn) WriteTo(b []byte, _ net.Addr) (int, error) {
	isNA := len(b) > 54 && b[12] == 0x86 && b[13] == 0xdd && b[20] == 58 && b[54] == 136
	c.mu.Lock()
	first := c.armed && isNA
	if first {
		c.armed = false
	}
	c.mu.Unlock()
	if first {
		close(c.blocked)
		select {
		case <-c.release:
		case <-time.After(10 * time.Second): // failure detection only
		}
	}
	c.mu.Lock()
	c.frames = append(c.frames, append([]byte{}, b...))
	c.mu.Unlock()
	return len(b), nil
}
func (c *gateConn) ReadFrom(b []byte) (int, net.Addr, error) { <-c.done; return 0, nil, net.ErrClosed }
func (c *gateConn) Close() error                             { c.once.Do(func() { close(c.done) }); return nil }
func (c *gateConn) LocalAddr() net.Addr                      { return nil }
func (c *gateConn) SetDeadline(time.Time) error              { return nil }
func (c *gateConn) SetReadDeadline(time.Time) error          { return nil }
func (c *gateConn) SetWriteDeadline(time.Time) error         { return nil }
func (c *gateConn) count() int                               { c.mu.Lock(); defer c.mu.Unlock(); return len(c.frames) }

var gateMAC = net.HardwareAddr{2, 0, 0, 0, 0, 9}
var gateSrcs = []netip.Addr{netip.MustParseAddr("fe80::1:11"), netip.MustParseAddr("fe80::1:12"), netip.MustParseAddr("fe80::1:13")}
var gateRA = []byte{134, 0, 0, 0, 64, 0, 7, 8, 0, 0, 0, 0, 0, 0, 0, 0}

// obsGate: what = "stop" | "close", k routers learned before the hunt.
func obsGate(what string, k int) string {
	packet.VerifSetMonitorNICFrequency(24 * time.Hour)
	conn := newGateConn()
	s, err := packet.Config{Conn: conn, NICInfo: &packet.NICInfo{
		HomeLAN4:    lib.HomeLAN,
		HostAddr4:   packet.Addr{MAC: lib.HostMAC, IP: lib.HostIP4},
		RouterAddr4: packet.Addr{MAC: lib.RouterMAC, IP: lib.RouterIP4},
		HostLLA:     netip.PrefixFrom(lib.HostLLA, 64), RouterLLA: netip.PrefixFrom(lib.RouterLLA, 64)},
		ProbeDeadline: packet.DefaultProbeDeadline, OfflineDeadline: packet.DefaultOfflineDeadline,
		PurgeDeadline: packet.DefaultPurgeDeadline}.NewSession("")
	if err != nil {
		return "session:" + err.Error()
	}
	defer func() { go s.Close() }()
	h, _ := icmp_spoofer.New6(s)
	rx := newRxBuf()
	for i := 0; i < k; i++ {
		if ret := deliver(s, h, rx, 3, lib.RouterMAC, gateSrcs[i], gateRA, true); ret != "ok" {
			return "ra:" + ret
		}
	}
	conn.mu.Lock()
	conn.armed = true
	conn.mu.Unlock()
	st, e := h.StartHunt(packet.Addr{MAC: gateMAC})
	out := []string{stageName(st, e)}
	select {
	case <-conn.blocked:
		out = append(out, "blocked") // the pass has decided (lock released) and is inside its first send
	case <-time.After(5 * time.Second):
		h.Close()
		return strings.Join(append(out, "not-blocked"), " | ")
	}
	before := conn.count() // frames written before the call returns: none, the first one is held
	switch what {
	case "stop":
		st, e = h.StopHunt(packet.Addr{MAC: gateMAC})
		out = append(out, stageName(st, e))
	case "close":
		h.Close()
		out = append(out, "closed")
	}
	// StopHunt/Close HAS RETURNED.  Only now let the held frame go.
	close(conn.release)
	deadline := time.Now().Add(3 * time.Second)
	for conn.count() < before+k && time.Now().Before(deadline) { // failure detection: the model says exactly k
		time.Sleep(time.Millisecond)
	}
	h.Close() // wakes the loop (StopHunt case): it finds the MAC gone and returns without sending
	time.Sleep(40 * time.Millisecond)
	conn.mu.Lock()
	frames := append([][]byte{}, conn.frames[before:]...)
	conn.mu.Unlock()
	var nas []string
	for _, f := range frames {
		n, ok := decodeNA(f, time.Time{})
		if !ok {
			nas = append(nas, "not-an-na:"+hx(f))
			continue
		}
		x := n.show()
		if n.ethDst != hx(gateMAC) {
			x += "/wrong-dst:" + n.ethDst
		}
		nas = append(nas, x)
	}
	sort.Strings(nas)
	out = append(out, "after:na["+strings.Join(nas, ",")+"]")
	return strings.Join(out, " | ")
}

func registerGate(r *lib.Run) {
	r.Register("gate", func(a []string) string {
		k := 2
		fmt.Sscan(a[1], &k)
		return obsGate(a[0], k)
	})
}

func gateCases(r *lib.Run) {
	for _, c := range [][2]string{{"stop", "1"}, {"stop", "2"}, {"stop", "3"}, {"close", "1"}, {"close", "2"}, {"close", "3"}} {
		r.Do("gate", c[0], c[1])
	}
}
