// C14: ICMPv6 spoofing is confined to hunted hosts; routers are learned exactly.
//
// The REAL icmp_spoofer.Handler6 runs on a recording connection.
//   ra <proj> <msg>   one router advertisement (ICMPv6 message bytes written by this file's own
//                     writer) through Session.Parse + ProcessPacket on a fresh handler with the
//                     package-global RA counter set so that the RA is processed; the observation is
//                     one field group of FindRouter(src) (ret hdr slla omtu rmtu pfx rdnss dnssl ri rip).
//   h <events...>     a real-time history of StartHunt/StopHunt/Close/RA (see hunt.go).
// An independent Go decoder of the RA (oracle.go) checks the same router record (viol records).
package main

import (
	"bytes"
	"errors"
	"flag"
	"fmt"
	"net"
	"net/netip"
	"os"
	"sort"
	"strings"
	"sync"
	"time"

	"github.com/irai/packet"
	"github.com/irai/packet/fastlog"
	"github.com/irai/packet/handlers/icmp_spoofer"
	"pvharness/lib"
)

var (
	srcLLA = netip.MustParseAddr("fe80::1:11")
	allN   = netip.MustParseAddr("ff02::1")
	// ProcessPacket reads and writes the package-global counter: every delivery is serialised.
	raMu sync.Mutex

	sessOnce sync.Once
	sess     *packet.Session
)

func session() *packet.Session {
	sessOnce.Do(func() { sess, _ = lib.NewSession() })
	return sess
}

func hx(b []byte) string { return lib.Hex(b) }

// unicastMAC: an Ethernet source Parse accepts (group bit clear): all-zero, our own, the IPv4 router's, device-like
func unicastMAC(rng *lib.Rand) []byte {
	for {
		if m := specialMAC(rng); m[0]&1 == 0 && !bytes.Equal(m, lib.HostMAC) {
			return m
		}
	}
}
func b01(b bool) string {
	if b {
		return "1"
	}
	return "0"
}
func joinOr(l []string, sep string) string {
	if len(l) == 0 {
		return "-"
	}
	return strings.Join(l, sep)
}

func errName(err error) string {
	switch {
	case err == nil:
		return "ok"
	case errors.Is(err, packet.ErrFrameLen):
		return "err:EFrameLen"
	case errors.Is(err, packet.ErrInvalidIP):
		return "err:EInvalidIP"
	default:
		return "err:EOther"
	}
}

// zeroLenOption reports an option with length field 0 inside the option area that the parse loop
// would reach (DESIGN section 11 #12: panic or endless loop; excluded from this check by hypothesis).
func zeroLenOption(msg []byte) bool {
	if len(msg) <= 16 {
		return false
	}
	b := msg[16:]
	for i := 0; i < len(b); {
		if len(b[i:]) < 2 {
			return false
		}
		l := int(b[i+1]) * 8
		if l == 0 {
			return true
		}
		if l > len(b[i:]) {
			return false
		}
		i += l
	}
	return false
}

func raFrame(ethSrc net.HardwareAddr, src netip.Addr, msg []byte) []byte {
	return lib.MkEther(lib.HostMAC, ethSrc, 0x86dd, lib.MkIP6(src, allN, 58, 255, msg))
}

// rxBuf is ONE receive buffer per handler under test, as in a real read loop: every packet is
// copied into it, parsed in place (Parse is zero-copy) and processed; afterwards the buffer is
// overwritten (poison, then the next packet).  Anything the handler retained by reference instead
// of by copy changes under its feet and shows up in the router table read later.
type rxBuf struct{ b []byte }

func newRxBuf() *rxBuf { return &rxBuf{b: make([]byte, 8192)} } // an RA with a 255*8 byte option and more fits

func (x *rxBuf) load(frame []byte) []byte {
	n := copy(x.b, frame)
	for i := n; i < len(x.b); i++ {
		x.b[i] = 0xee // spare capacity behind the frame
	}
	return x.b[:n]
}
func (x *rxBuf) poison() {
	for i := range x.b {
		x.b[i] = 0xa5
	}
}

// deliver pushes one ICMPv6 message through Parse + ProcessPacket with the counter preset.
func deliver(s *packet.Session, h *icmp_spoofer.Handler6, rx *rxBuf, counter int, ethSrc net.HardwareAddr, src netip.Addr, msg []byte, hostKnown bool) string {
	ret, _ := deliverHK(s, h, rx, counter, ethSrc, src, msg, hostKnown)
	return ret
}

// deliverHK also reports whether ProcessPacket saw a host (Parse creates none for frames from our own
// MAC, for non link-local / non global sources, and for global sources behind the IPv4 router's MAC).
func deliverHK(s *packet.Session, h *icmp_spoofer.Handler6, rx *rxBuf, counter int, ethSrc net.HardwareAddr, src netip.Addr, msg []byte, hostKnown bool) (ret string, hk bool) {
	defer rx.poison()
	f, err := s.Parse(rx.load(raFrame(ethSrc, src, msg)))
	if err != nil {
		return "parse:" + errName(err), false
	}
	if !hostKnown {
		f.Host = nil
	}
	hk = f.Host != nil
	raMu.Lock()
	defer raMu.Unlock()
	defer func() {
		if e := recover(); e != nil {
			ret = "panic"
		}
	}()
	icmp_spoofer.VerifSetRepeat(counter)
	return errName(h.ProcessPacket(f)), hk
}

func secs(d time.Duration) string { return fmt.Sprint(int64(d / time.Second)) }

func showPI(p packet.PrefixInformation) string {
	return fmt.Sprintf("%d/%s%s/%s/%s/%s", p.PrefixLength, b01(p.OnLink), b01(p.AutonomousAddressConfiguration),
		secs(p.ValidLifetime), secs(p.PreferredLifetime), hx(p.Prefix))
}
func showHdr(r icmp_spoofer.Router) string {
	return fmt.Sprintf("M%s O%s prf%d hop%d life%s reach%d retr%d mac%s", b01(r.ManagedFlag), b01(r.OtherCondigFlag),
		r.Preference, r.CurHopLimit, secs(r.DefaultLifetime), r.ReacheableTime, r.RetransTimer, hx(r.Addr.MAC))
}
func showIPs(l []net.IP) string {
	s := []string{}
	for _, ip := range l {
		s = append(s, hx(ip))
	}
	return joinOr(s, ",")
}
func showRD(r packet.RecursiveDNSServer) string {
	if r.Lifetime == 0 && len(r.Servers) == 0 {
		return "-"
	}
	return secs(r.Lifetime) + ":" + showIPs(r.Servers)
}
func showDS(d packet.DNSSearchList) string {
	if d.Lifetime == 0 && len(d.DomainNames) == 0 {
		return "-"
	}
	s := []string{}
	for _, n := range d.DomainNames {
		s = append(s, hx([]byte(n)))
	}
	return secs(d.Lifetime) + ":" + joinOr(s, ",")
}
func showRI(r packet.RouteInformation) string {
	if r.Prefix == nil && r.PrefixLength == 0 && r.Preference == 0 && r.RouteLifetime == 0 {
		return "-"
	}
	s := fmt.Sprintf("%d/%d/%s", r.PrefixLength, r.Preference, secs(r.RouteLifetime))
	if r.Prefix == nil {
		s += "/unset"
	}
	return s
}
func showRIP(r packet.RouteInformation) string {
	if r.Prefix == nil {
		return "-"
	}
	p := make([]byte, 16)
	copy(p, r.Prefix)
	return hx(p)
}
func showPfx(l []packet.PrefixInformation) string {
	s := []string{}
	for _, p := range l {
		s = append(s, showPI(p))
	}
	return joinOr(s, ",")
}

func showRDs(l []packet.RecursiveDNSServer) string {
	s := []string{}
	for _, r := range l {
		s = append(s, secs(r.Lifetime)+":"+showIPs(r.Servers))
	}
	return joinOr(s, ";")
}
func showDSs(l []packet.DNSSearchList) string {
	s := []string{}
	for _, d := range l {
		n := []string{}
		for _, x := range d.DomainNames {
			n = append(n, hx([]byte(x)))
		}
		s = append(s, secs(d.Lifetime)+":"+joinOr(n, ","))
	}
	return joinOr(s, ";")
}
func showRIs(l []packet.RouteInformation) string {
	s := []string{}
	for _, r := range l {
		s = append(s, fmt.Sprintf("%d/%d/%s/%s", r.PrefixLength, r.Preference, secs(r.RouteLifetime), hx(r.Prefix)))
	}
	return joinOr(s, ";")
}
func showLegacy(o packet.NewOptions) string {
	return fmt.Sprintf("rdnss=%s dnssl=%s ri=%s rip=%s", showRD(o.RDNSS), showDS(o.DNSSearchList), showRI(o.RouteInformation), showRIP(o.RouteInformation))
}

var projs = []string{"ret", "hdr", "slla", "omtu", "rmtu", "pfx", "rdnss", "dnssl", "ri", "rip", "legacy"}

func project(proj string, r icmp_spoofer.Router) string {
	o := r.Options
	switch proj {
	case "ret":
		return "ok"
	case "hdr":
		return showHdr(r)
	case "slla":
		return hx(o.SourceLLA.MAC)
	case "omtu":
		return fmt.Sprint(uint32(o.MTU))
	case "rmtu":
		return fmt.Sprint(r.MTU)
	case "pfx":
		return showPfx(r.Prefixes)
	case "rdnss":
		return showRDs(o.RDNSSList)
	case "dnssl":
		return showDSs(o.DNSSearchLists)
	case "ri":
		return showRIs(o.Routes)
	case "rip":
		return showRIP(o.RouteInformation)
	case "legacy":
		return showLegacy(o)
	}
	return "badproj"
}

func showRouterAll(r icmp_spoofer.Router) string {
	ip := r.Addr.IP.As16()
	return fmt.Sprintf("%s %s slla=%s omtu=%d rmtu=%d pfx=%s rdnss=%s dnssl=%s ri=%s legacy:%s", hx(ip[:]), showHdr(r),
		hx(r.Options.SourceLLA.MAC), uint32(r.Options.MTU), r.MTU, showPfx(r.Prefixes), showRDs(r.Options.RDNSSList),
		showDSs(r.Options.DNSSearchLists), showRIs(r.Options.Routes), showLegacy(r.Options))
}

// showTable: default router, number of routers and EVERY router record, sorted by address.
func showTable(h *icmp_spoofer.Handler6) string {
	h.Lock()
	def := "-"
	if h.Router != nil {
		a := h.Router.Addr.IP.As16()
		def = hx(a[:])
	}
	var l []string
	for _, r := range h.LANRouters {
		l = append(l, " ["+showRouterAll(*r)+"]")
	}
	n := len(h.LANRouters)
	h.Unlock()
	sort.Strings(l) // the address is the leading field
	return fmt.Sprintf("def=%s n=%d%s", def, n, strings.Join(l, ""))
}

// runRA: fresh handler, counter 3 -> 4 (processed), host known, standard source.
func runRA(msg []byte) (ret string, r icmp_spoofer.Router, found bool) {
	s := session()
	h, _ := icmp_spoofer.New6(s)
	ret = deliver(s, h, newRxBuf(), 3, lib.RouterMAC, srcLLA, msg, true)
	if ret != "ok" {
		return ret, r, false
	}
	r = h.FindRouter(srcLLA)
	return ret, r, r.Addr.IP.IsValid()
}

// obsV4: the ICMPv6 message inside an IPv4 packet (protocol 58) from a LAN host, through Parse + ProcessPacket.
func obsV4(msg []byte) (ret string) {
	s := session()
	h, _ := icmp_spoofer.New6(s)
	fr := lib.MkEther(lib.HostMAC, hMACs[2], 0x0800, lib.MkIP4(netip.MustParseAddr("192.168.0.50"), lib.HostIP4, 58, 64, msg))
	f, err := s.Parse(newRxBuf().load(fr))
	if err != nil {
		return "parse:" + errName(err)
	}
	raMu.Lock()
	defer raMu.Unlock()
	defer func() {
		if e := recover(); e != nil {
			ret = "panic"
		}
	}()
	icmp_spoofer.VerifSetRepeat(0)
	return errName(h.ProcessPacket(f))
}

// runRA2: a NEW entry by msg1 (Ethernet source eth1), then an UPDATE by msg2 (Ethernet source eth2), same IPv6
// source, both processed; the record after the second advertisement.
func runRA2(eth1, msg1, eth2, msg2 []byte) (ret string, r icmp_spoofer.Router, found bool) {
	s := session()
	h, _ := icmp_spoofer.New6(s)
	rx := newRxBuf()
	deliver(s, h, rx, 3, eth1, srcLLA, msg1, true)
	ret = deliver(s, h, rx, 3, eth2, srcLLA, msg2, true)
	if ret != "ok" {
		return ret, r, false
	}
	r = h.FindRouter(srcLLA)
	return ret, r, r.Addr.IP.IsValid()
}

func obsRA2(proj string, eth1, msg1, eth2, msg2 []byte) string {
	ret, r, found := runRA2(eth1, msg1, eth2, msg2)
	if ret != "ok" {
		return ret
	}
	if !found {
		return "none"
	}
	return project(proj, r)
}

func obsRA(proj string, msg []byte) string {
	ret, r, found := runRA(msg)
	if ret != "ok" {
		return ret
	}
	if !found {
		return "none"
	}
	return project(proj, r)
}

func main() {
	r := lib.Init()
	defer r.Close()
	if f := flag.Lookup("out"); f != nil && f.Value.String() != "" {
		// the library prints diagnostics with fmt.Printf on these paths
		if dn, err := os.OpenFile(os.DevNull, os.O_WRONLY, 0); err == nil {
			os.Stdout = dn
			fastlog.DefaultIOWriter = dn
		}
	}
	rng := r.Rand()
	r.Register("ra", func(a []string) string { return obsRA(a[0], lib.UnHex(a[1])) })
	r.Register("ra2", func(a []string) string {
		return obsRA2(a[0], lib.UnHex(a[1]), lib.UnHex(a[2]), lib.UnHex(a[3]), lib.UnHex(a[4]))
	})
	r.Register("v4", func(a []string) string { return obsV4(lib.UnHex(a[0])) })
	registerHunt(r)
	registerTie(r)
	registerGate(r)
	if r.Replayed() {
		return
	}

	n := 1500
	if r.Thorough() {
		n = 20000
	}
	tieCases(r)
	gateCases(r)
	seen := map[string]bool{}
	emit := func(class string, msg []byte) {
		if hasXN(msg) {
			r.Stat("gen.rejected", 1)
			return
		}
		k := string(msg)
		if seen[k] {
			return
		}
		seen[k] = true
		ret, rt, found := runRA(msg)
		for _, p := range projs {
			obs := ret
			if ret == "ok" {
				if found {
					obs = project(p, rt)
				} else {
					obs = "none"
				}
			}
			r.Case("ra", []string{p, hx(msg)}, obs)
		}
		r.Do("opts", hx(msg)) // the decoder in isolation on the same bytes
		r.Stat("class.ra."+class, 1)
		r.Stat("ret."+ret, 1)
		if ret == "ok" && found {
			oracleRA(r, msg, rt)
		}
	}
	for _, c := range directedRAs() {
		emit("directed", c)
	}
	for _, c := range countDomainRAs(rng) {
		emit("count-domain", c)
	}
	// ICMPv6 messages carried by an IPv4 packet with protocol 58 (Parse classifies them as ICMPv6)
	for _, t := range []byte{135, 200, 128, 136, 133} {
		m := make([]byte, 24+8*rng.Intn(3))
		m[0] = t
		r.Do("v4", hx(m))
	}
	for i := 0; i < n; i++ {
		class, msg := genRA(rng)
		emit(class, msg)
	}
	// UPDATE of a known router: pairs (creating RA, updating RA), Ethernet sources from the special pool
	n2 := 250
	if r.Thorough() {
		n2 = 4000
	}
	pairs := [][4][]byte{}
	d := directedRAs()
	zero := []byte{0, 0, 0, 0, 0, 0}
	pairs = append(pairs,
		[4][]byte{lib.RouterMAC, d[1], lib.RouterMAC, d[0]},  // SLLA then none: MAC stays, SLLA field follows the update
		[4][]byte{lib.RouterMAC, d[0], lib.RouterMAC, d[1]},  // none then SLLA
		[4][]byte{lib.RouterMAC, d[2], lib.RouterMAC, d[0]},  // MTU then no MTU option: MTU back to 0
		[4][]byte{zero, d[0], lib.RouterMAC, d[0]},           // created from an all-zero Ethernet source
		[4][]byte{lib.RouterMAC, d[0], zero, d[3]},
	)
	cd := countDomainRAs(rng)
	for i := 0; i < 12; i++ { // many-entry options as the creating and as the updating advertisement
		pairs = append(pairs, [4][]byte{lib.RouterMAC, cd[rng.Intn(len(cd))], lib.RouterMAC, cd[rng.Intn(len(cd))]})
	}
	for i := 0; i < n2; i++ {
		_, m1 := genRA(rng)
		_, m2 := genRA(rng)
		if rng.Chance(30) {
			m1 = d[rng.Intn(len(d))]
		}
		pairs = append(pairs, [4][]byte{unicastMAC(rng), m1, unicastMAC(rng), m2})
	}
	for _, pr := range pairs {
		if hasXN(pr[1]) || hasXN(pr[3]) {
			continue
		}
		ret, rt, found := runRA2(pr[0], pr[1], pr[2], pr[3])
		for _, p := range projs {
			obs := ret
			if ret == "ok" {
				if found {
					obs = project(p, rt)
				} else {
					obs = "none"
				}
			}
			r.Case("ra2", []string{p, hx(pr[0]), hx(pr[1]), hx(pr[2]), hx(pr[3])}, obs)
		}
		r.Stat("class.ra2", 1)
		if ret == "ok" && found {
			oracleRAfrom(r, pr[3], rt, nil, "update")
		}
	}
	huntScenarios(r, rng)
	_ = sort.Strings
}
