package main

// Independent Go decoder of a router advertisement (written from RFC 4861 4.2/4.6, RFC 4191 2.3,
// RFC 8106 5.1/5.2; shares nothing with the library or with the Coq spec) and the comparison of
// what it reads with the router record the handler learned.  Disagreements are `viol` records;
// the three classes the library's data structure cannot represent carry their recorded keys.

import (
	"bytes"
	"encoding/binary"
	"fmt"
	"strings"
	"time"

	"github.com/irai/packet/handlers/icmp_spoofer"
	"pvharness/lib"
)

type oPrefix struct {
	pl             int
	onlink, auto   bool
	valid, pref    uint32
	prefix         []byte
}
type oRoute struct {
	pl, prf int
	life    uint32
	prefix  []byte
}
type oRDNSS struct {
	life    uint32
	servers [][]byte
}
type oDNSSL struct {
	life  uint32
	names []string
}
type oRA struct {
	hop, prf       int
	managed, other bool
	life           uint16
	reach, retrans uint32
	slla           []byte
	mtu            uint32
	hasMTU         bool
	prefixes       []oPrefix
	routes         []oRoute
	rdnss          []oRDNSS
	dnssl          []oDNSSL
}

func maskBits(a []byte, pl int) []byte {
	out := make([]byte, 16)
	for bit := 0; bit < pl && bit < 128; bit++ {
		if bit/8 < len(a) && a[bit/8]&(0x80>>uint(bit%8)) != 0 {
			out[bit/8] |= 0x80 >> uint(bit%8)
		}
	}
	return out
}

// decodeRA returns ok=false when the advertisement is not well formed by the RFCs' own rules.
func decodeRA(m []byte) (ra oRA, ok bool) {
	if len(m) < 16 {
		return ra, false
	}
	ra.hop = int(m[4])
	ra.managed, ra.other = m[5]>>7&1 == 1, m[5]>>6&1 == 1
	ra.prf = int(m[5] >> 3 & 3)
	ra.life = binary.BigEndian.Uint16(m[6:])
	ra.reach, ra.retrans = binary.BigEndian.Uint32(m[8:]), binary.BigEndian.Uint32(m[12:])
	o := m[16:]
	for len(o) > 0 {
		if len(o) < 2 || o[1] == 0 || int(o[1])*8 > len(o) {
			return ra, false
		}
		t, l := o[0], int(o[1])
		v := o[2 : l*8]
		o = o[l*8:]
		switch t {
		case 1:
			if l != 1 {
				return ra, false
			}
			ra.slla = append([]byte{}, v...)
		case 2:
			if l != 1 {
				return ra, false
			}
		case 5:
			if l != 1 {
				return ra, false
			}
			ra.mtu, ra.hasMTU = binary.BigEndian.Uint32(v[2:]), true
		case 3:
			if l != 4 || v[0] > 128 {
				return ra, false
			}
			ra.prefixes = append(ra.prefixes, oPrefix{pl: int(v[0]), onlink: v[1]&0x80 != 0, auto: v[1]&0x40 != 0,
				valid: binary.BigEndian.Uint32(v[2:]), pref: binary.BigEndian.Uint32(v[6:]), prefix: maskBits(v[14:30], int(v[0]))})
		case 24:
			pl, prf := int(v[0]), int(v[1]>>3&3)
			if l > 3 || pl > 128 || (pl > 64 && l != 3) || (pl > 0 && l < 2) || prf == 2 {
				return ra, false
			}
			ra.routes = append(ra.routes, oRoute{pl: pl, prf: prf, life: binary.BigEndian.Uint32(v[2:]), prefix: maskBits(v[6:], pl)})
		case 25:
			if l < 3 || l%2 == 0 {
				return ra, false
			}
			r := oRDNSS{life: binary.BigEndian.Uint32(v[2:])}
			for a := v[6:]; len(a) >= 16; a = a[16:] {
				r.servers = append(r.servers, a[:16])
			}
			ra.rdnss = append(ra.rdnss, r)
		case 31:
			if l < 2 {
				return ra, false
			}
			d := oDNSSL{life: binary.BigEndian.Uint32(v[2:])}
			rest := v[6:]
			for len(rest) > 0 && rest[0] != 0 {
				var labels []string
				for {
					if len(rest) == 0 {
						return ra, false // name not terminated inside the option
					}
					n := int(rest[0])
					rest = rest[1:]
					if n == 0 {
						break
					}
					if n >= len(rest) {
						return ra, false
					}
					lab := rest[:n]
					for _, c := range lab {
						if c >= 0x80 || c == '.' || c == ' ' {
							return ra, false
						}
					}
					labels = append(labels, string(lab))
					rest = rest[n:]
				}
				d.names = append(d.names, strings.Join(labels, "."))
			}
			if len(d.names) == 0 {
				return ra, false
			}
			ra.dnssl = append(ra.dnssl, d)
		}
	}
	return ra, true
}

func oracleRA(r *lib.Run, msg []byte, rt icmp_spoofer.Router) { oracleRAfrom(r, msg, rt, lib.RouterMAC, "") }

// oracleRAfrom: ethSrc nil = the record may have been created by an earlier RA (MAC not checked).
func oracleRAfrom(r *lib.Run, msg []byte, rt icmp_spoofer.Router, ethSrc []byte, where string) {
	ra, ok := decodeRA(msg)
	if !ok {
		r.Stat("oracle.skipped-malformed", 1)
		return
	}
	r.Stat("oracle.checked", 1)
	replay := "ra ret " + hx(msg)
	bad := func(key, what string) {
		r.Viol(key, what+" (RA "+hx(msg)+") "+where, replay)
	}
	sec := func(d time.Duration) uint32 { return uint32(d / time.Second) }
	if rt.ManagedFlag != ra.managed || rt.OtherCondigFlag != ra.other || int(rt.Preference) != ra.prf || int(rt.CurHopLimit) != ra.hop ||
		rt.DefaultLifetime != time.Duration(ra.life)*time.Second || uint32(rt.ReacheableTime) != ra.reach || uint32(rt.RetransTimer) != ra.retrans {
		bad("oracle-hdr", fmt.Sprintf("router header fields differ from the advertisement: %s", showHdr(rt)))
	}
	if !bytes.Equal(rt.Options.SourceLLA.MAC, ra.slla) {
		bad("oracle-slla", "source link-layer address differs: "+hx(rt.Options.SourceLLA.MAC)+" vs "+hx(ra.slla))
	}
	wantMAC := ra.slla
	if len(wantMAC) != 6 {
		wantMAC = ethSrc
	}
	if ethSrc != nil && !bytes.Equal(rt.Addr.MAC, wantMAC) {
		bad("oracle-mac", "router MAC differs: "+hx(rt.Addr.MAC)+" vs "+hx(wantMAC))
	}
	if rt.MTU != ra.mtu || uint32(rt.Options.MTU) != ra.mtu {
		bad("oracle-mtu", fmt.Sprintf("MTU differs: Router.MTU=%d Options.MTU=%d advertised=%d", rt.MTU, uint32(rt.Options.MTU), ra.mtu))
	}
	pok := len(rt.Prefixes) == len(ra.prefixes)
	for i := 0; pok && i < len(ra.prefixes); i++ {
		a, b := rt.Prefixes[i], ra.prefixes[i]
		pok = int(a.PrefixLength) == b.pl && a.OnLink == b.onlink && a.AutonomousAddressConfiguration == b.auto &&
			sec(a.ValidLifetime) == b.valid && sec(a.PreferredLifetime) == b.pref && bytes.Equal(a.Prefix, b.prefix)
	}
	if !pok {
		bad("oracle-prefix", "prefix list differs: "+showPfx(rt.Prefixes))
	}
	// options that may repeat: every one is recorded in packet order; the single fields keep the last
	rok := len(rt.Options.Routes) == len(ra.routes)
	for i := 0; rok && i < len(ra.routes); i++ {
		a, w := rt.Options.Routes[i], ra.routes[i]
		rok = int(a.PrefixLength) == w.pl && int(a.Preference) == w.prf && sec(a.RouteLifetime) == w.life && bytes.Equal(a.Prefix, w.prefix)
	}
	if !rok {
		bad("oracle-route", "route information options not recorded as advertised: "+showRIs(rt.Options.Routes))
	}
	ri := rt.Options.RouteInformation
	if len(ra.routes) == 0 {
		if ri.Prefix != nil {
			bad("oracle-route", "route information recorded without a route option")
		}
	} else if w := ra.routes[len(ra.routes)-1]; int(ri.PrefixLength) != w.pl || int(ri.Preference) != w.prf || sec(ri.RouteLifetime) != w.life || !bytes.Equal(ri.Prefix, w.prefix) {
		bad("oracle-route", "the last route option is not in RouteInformation: "+showRI(ri)+" "+showRIP(ri))
	}
	dok := len(rt.Options.RDNSSList) == len(ra.rdnss)
	var all [][]byte
	for i := 0; dok && i < len(ra.rdnss); i++ {
		a, w := rt.Options.RDNSSList[i], ra.rdnss[i]
		dok = sec(a.Lifetime) == w.life && len(a.Servers) == len(w.servers)
		for j := 0; dok && j < len(w.servers); j++ {
			dok = bytes.Equal(a.Servers[j], w.servers[j])
		}
		all = append(all, w.servers...)
	}
	rd := rt.Options.RDNSS
	if dok && len(ra.rdnss) > 0 {
		dok = sec(rd.Lifetime) == ra.rdnss[len(ra.rdnss)-1].life && len(rd.Servers) == len(all)
		for j := 0; dok && j < len(all); j++ {
			dok = bytes.Equal(rd.Servers[j], all[j])
		}
	} else if dok {
		dok = len(rd.Servers) == 0 && rd.Lifetime == 0
	}
	if !dok {
		bad("oracle-rdnss", "RDNSS options not recorded as advertised: "+showRDs(rt.Options.RDNSSList)+" / "+showRD(rd))
	}
	sok := len(rt.Options.DNSSearchLists) == len(ra.dnssl)
	for i := 0; sok && i < len(ra.dnssl); i++ {
		a, w := rt.Options.DNSSearchLists[i], ra.dnssl[i]
		sok = sec(a.Lifetime) == w.life && len(a.DomainNames) == len(w.names)
		for j := 0; sok && j < len(w.names); j++ {
			sok = a.DomainNames[j] == w.names[j]
		}
	}
	ds := rt.Options.DNSSearchList
	if sok && len(ra.dnssl) > 0 {
		w := ra.dnssl[len(ra.dnssl)-1]
		sok = sec(ds.Lifetime) == w.life && len(ds.DomainNames) == len(w.names)
		for j := 0; sok && j < len(w.names); j++ {
			sok = ds.DomainNames[j] == w.names[j]
		}
	} else if sok {
		sok = len(ds.DomainNames) == 0 && ds.Lifetime == 0
	}
	if !sok {
		bad("oracle-dnssl", "DNSSL options not recorded as advertised: "+showDSs(rt.Options.DNSSearchLists)+" / "+showDS(ds))
	}
}
