package main

import (
	"github.com/irai/packet/handlers/icmp_spoofer"
	"pvharness/lib"
)

// oracleRA: independent Go decoder of the RA against the learned router record (filled in below).
func oracleRA(r *lib.Run, msg []byte, rt icmp_spoofer.Router) {}
