// ro.go — coverage class ENCODERS ARE READ-ONLY IN EVERY ARGUMENT EXCEPT THE DESTINATION.
//
// Kind "ro <kind> <args>": the case is executed with every slice-typed argument (MACs, payloads, names, xid,
// chaddr, the DHCP order list and option values) handed over as a view WITH SPARE CAPACITY into one
// sentinel-filled array, the arguments placed directly behind one another in the order the runner
// materialises them (for DHCP: the order list, then the option values, as in a received message).  After the
// call the whole array is compared with what was put there: "args=clean", or "args=DIRTY@off:hex" with the
// changed window.  In the model arguments are values (theorem C03_encode_args_unchanged), so it answers with the
// observation of the plain case and "args=clean".
//
// Kind "ethalias": EncodeEther with MAC arguments that are views into the destination buffer itself.
package main

import (
	"fmt"
	"net"

	"github.com/irai/packet"
	"pvharness/lib"
)

type roArenaT struct {
	buf, want []byte
	off       int
	unplaced  int
	placed    [][]byte // an argument equal to an earlier one IS the earlier one (arguments aliasing each other)
}

var roArena *roArenaT // non-nil only while an ro case runs (sequential phase only)

func newArena() *roArenaT {
	a := &roArenaT{buf: make([]byte, 16384), want: make([]byte, 16384), off: 32}
	for i := range a.buf {
		a.buf[i] = byte(0xA5 ^ (i * 7))
	}
	copy(a.want, a.buf)
	return a
}

func (a *roArenaT) place(b []byte) []byte {
	if a.off+len(b)+64 > len(a.buf) {
		a.unplaced++
		return append([]byte{}, b...)
	}
	for _, p := range a.placed {
		if eq(p, b) {
			return p
		}
	}
	copy(a.buf[a.off:], b)
	copy(a.want[a.off:], b)
	s := a.buf[a.off : a.off+len(b)] // capacity: everything behind it, the next arguments included
	a.off += len(b)
	a.placed = append(a.placed, s)
	return s
}

func (a *roArenaT) verdict() string {
	h := hull(a.want, a.buf)
	if h == "-" {
		return "args=clean"
	}
	return "args=DIRTY@" + h
}

// slice-typed argument; mac argument (outside the ro kind: capacity == length, as documented in props)
func sarg(b []byte) []byte {
	if roArena == nil || len(b) == 0 {
		return b
	}
	return roArena.place(b)
}
func marg(b []byte) []byte {
	if roArena == nil {
		return exact(b)
	}
	if len(b) == 0 {
		return nil
	}
	return roArena.place(b)
}

func roExec(kind string, args []string) (string, []byte) {
	ar := newArena()
	roArena = ar
	defer func() { roArena = nil }()
	if kind == "dhcp4" {
		obs, wire := dhcpOnce(args[:14])
		return obs + " " + ar.verdict(), wire
	}
	obs := theRun.Exec(kind, args)
	return obs + " " + ar.verdict(), nil
}

// replay runner
func runRO(a []string) string {
	if len(a) == 0 {
		return "badargs"
	}
	if a[0] == "dhcp4" && len(a) >= 16 {
		want := lib.Hex(unhex(a[15]))
		obs := ""
		for try := 0; try < 2000; try++ {
			var w []byte
			obs, w = roExec("dhcp4", a[1:])
			if lib.Hex(w) == want {
				return obs
			}
		}
		return obs
	}
	obs, _ := roExec(a[0], a[1:])
	return obs
}

func runROPhase(r *lib.Run) {
	saved := recording
	recording = 0
	defer func() { recording = saved }()
	ndh, dirty := 0, 0
	for j, c := range pool {
		if c.kind == "dhcp4" {
			if ndh >= 1200 && !r.Thorough() {
				continue
			}
			ndh++
			obs, wire := roExec("dhcp4", c.args)
			r.Case("ro", append(append([]string{"dhcp4"}, c.args[:14]...), lib.Hex(wire)), obs)
			if len(obs) < 10 || obs[len(obs)-10:] != "args=clean" {
				dirty++
			}
			continue
		}
		if j%2 != 0 && !r.Thorough() {
			continue
		}
		obs, _ := roExec(c.kind, c.args)
		r.Case("ro", append([]string{c.kind}, c.args...), obs)
		if len(obs) < 10 || obs[len(obs)-10:] != "args=clean" {
			dirty++
		}
	}
	r.Stat("ro.dirty", int64(dirty))
}

// ---------------------------------------------------------------- EncodeEther with MACs aliasing the destination

func runEthAlias(a []string) string {
	c, l, seed, ht := atoi(a[0]), atoi(a[1]), uint64(atoi(a[2])), uint16(atoi(a[3]))
	so, sl, do, dl := atoi(a[4]), atoi(a[5]), atoi(a[6]), atoi(a[7])
	buf, full, old := mkbuf(c, l, seed)
	if so+sl > c || do+dl > c {
		return "badargs"
	}
	src, dst := full[so:so+sl:so+sl], full[do:do+dl:do+dl]
	e := packet.EncodeEther(buf, ht, net.HardwareAddr(src), net.HardwareAddr(dst))
	return encOK(e, full, old) + " " + rbEther(e)
}

func (g *gen) aliasCases() {
	rng := g.rng
	n := 60
	if g.r.Thorough() {
		n = 1500
	}
	for i := 0; i < n; i++ {
		c := 14 + rng.Intn(40)
		if rng.Chance(10) {
			c = rng.Intn(14)
		}
		ln := func() int { return rng.Pick(6, 6, 6, 6, 0, 3, 8, 14) }
		sl, dl := ln(), ln()
		if sl > c {
			sl = c
		}
		if dl > c {
			dl = c
		}
		so, do := rng.Intn(c-sl+1), rng.Intn(c-dl+1)
		if rng.Chance(40) { // the interesting overlaps: inside the header being written
			so, do = rng.Intn(13), rng.Intn(13)
			if so+sl > c {
				so = c - sl
			}
			if do+dl > c {
				do = c - dl
			}
		}
		g.r.Do("ethalias", itoa(c), itoa(g.lenFor(c)), g.seed(), itoa(g.etype()), itoa(so), itoa(sl), itoa(do), itoa(dl))
	}
	// arguments aliasing each other: the same MAC slice as source and destination, the payload equal to a MAC
	for i := 0; i < n/4+5; i++ {
		m := g.mac()
		c := g.capFor(60)
		for _, cs := range [][]string{
			{"ether", itoa(c), itoa(g.lenFor(c)), g.seed(), itoa(g.etype()), lib.Hex(m), lib.Hex(m)},
			{"ethpl", itoa(c), itoa(g.lenFor(c)), g.seed(), "2048", lib.Hex(m), lib.Hex(m), g.mode(), lib.Hex(m), "0"},
			{"arp", "64", "64", g.seed(), "1", lib.Hex(m), lib.Hex(g.ip4()), lib.Hex(m), lib.Hex(g.ip4())},
		} {
			obs, _ := roExec(cs[0], cs[1:])
			g.r.Case("ro", cs, obs)
		}
	}
	_ = fmt.Sprint
}

// unhex: a byte-string token: hex, "-", or the compact form R<seed>x<len> = ramp(seed, len)
func unhex(s string) []byte {
	if len(s) > 1 && s[0] == 'R' {
		var sd uint64
		var n int
		if _, err := fmt.Sscanf(s[1:], "%dx%d", &sd, &n); err == nil && n >= 0 && n <= 1<<20 {
			return ramp(sd, n)
		}
	}
	return lib.UnHex(s)
}

// ---------------------------------------------------------------- LENGTHS AT THE WIDTH OF THE LENGTH FIELD
// Set/AppendPayload and the composed frames with payloads around 2^16 (and around the capacity), into buffers
// of capacity 100 and 70000: the 16-bit length fields wrap there, the capacity check must not.
func (g *gen) wideCases() {
	r := g.r
	rt := func(n int) string { return "R" + g.seed() + "x" + itoa(n) }
	ip4s, ip4d := lib.Hex(g.ip4()), lib.Hex(g.ip4())
	ip6s, ip6d := lib.Hex(g.ip6()), lib.Hex(g.ip6())
	for _, c := range []int{100, 70000, 70100} {
		for _, mode := range []string{modeS, modeA} {
			for _, n := range []int{65526, 65527, 65528, 65529, 65535, 65536, 65537, 69992, 69993, 70000, 131072 + 3} {
				r.Do("udppl", itoa(c), itoa(g.lenFor(c)), g.seed(), itoa(g.port()), itoa(g.port()), mode, rt(n))
			}
			for _, n := range []int{65514, 65515, 65516, 65517, 65535, 65536, 69980, 69981, 70000, 131072 + 3} {
				r.Do("ip4pl", itoa(c), itoa(c), g.seed(), "64", ip4s, ip4d, "17", mode, rt(n))
			}
			for _, n := range []int{65495, 65496, 65534, 65535, 65536, 65537, 69960, 69961, 70000, 70060, 70061, 131072 + 3} {
				r.Do("ip6pl", itoa(c), itoa(g.lenFor(c)), g.seed(), "64", ip6s, ip6d, "17", mode, rt(n))
			}
		}
		for _, n := range []int{65506, 65507, 65508, 65527, 65528, 65535, 65536, 69958, 69959} {
			r.Do("frame4", itoa(c), itoa(g.lenFor(c)), g.seed(), lib.Hex(g.mac()), lib.Hex(g.mac()), "64", ip4s, ip4d, itoa(g.port()), itoa(g.port()), rt(n))
		}
		for _, n := range []int{65526, 65527, 65528, 65535, 65536, 69938, 69939} {
			r.Do("frame6", itoa(c), itoa(g.lenFor(c)), g.seed(), lib.Hex(g.mac()), lib.Hex(g.mac()), "64", ip6s, ip6d, itoa(g.port()), itoa(g.port()), rt(n))
		}
		for _, n := range []int{65535, 65536, 69986, 69987} {
			r.Do("ethpl", itoa(c), itoa(g.lenFor(c)), g.seed(), "2048", lib.Hex(g.mac()), lib.Hex(g.mac()), modeA, rt(n), "0")
		}
	}
	for _, n := range []int{495, 496, 497, 512, 65535, 65536} {
		r.Do("dnsq", itoa(g.rng.Intn(65536)), "256", rt(n), "1")
	}
}
