// Re-use of views: a header is encoded once; then SetPayload / AppendPayload / re-slicing are
// applied one after another, each on the view the previous call returned (larger, smaller and
// empty payloads; a view longer than the header; Set after Append and vice versa).  Per step
// the length of the returned view and the layer's own length field are recorded, at the end the
// changed window of the buffer and the getters of the final view.
package main

import (
	"fmt"
	"net"
	"strings"

	"github.com/irai/packet"
	"pvharness/lib"
)

type reLayer struct {
	hdr   int
	set   func(cur []byte, pl []byte) []byte
	app   func(cur []byte, pl []byte) ([]byte, error)
	field func(cur []byte) string
	rb    func(cur []byte) string
}

func runReuse(ly reLayer, full, old, start []byte, ops string) string {
	cur := start
	tr := "ok"
	for _, t := range strings.Split(ops, ",") {
		kind, arg := t[0], t[2:]
		switch kind {
		case 'v':
			cur = cur[:atoi(arg)]
			tr += " v" + arg
		case 's':
			pl := unhex(arg)
			if ly.hdr+len(pl) <= cap(cur) {
				copy(full[ly.hdr:], pl) // the caller writes the payload in place
			}
			cur = ly.set(cur, pl)
			tr += fmt.Sprintf(" %d/%s", len(cur), ly.field(cur))
		case 'a':
			pl := unhex(arg)
			if pl == nil {
				pl = []byte{}
			}
			out, err := ly.app(cur, pl)
			if err != nil {
				tr += " " + strings.Fields(encErr(err, full, old))[0]
				continue
			}
			cur = out
			tr += fmt.Sprintf(" %d/%s", len(cur), ly.field(cur))
		}
	}
	return tr + " | " + hull(old, full) + " | " + ly.rb(cur)
}

func runRe4(a []string) string {
	c, l, seed, ttl := atoi(a[0]), atoi(a[1]), uint64(atoi(a[2])), byte(atoi(a[3]))
	proto := byte(atoi(a[6]))
	buf, full, old := mkbuf(c, l, seed)
	ip := packet.EncodeIP4(buf, ttl, addr(unhex(a[4])), addr(unhex(a[5])))
	return runReuse(reLayer{20,
		func(cur, pl []byte) []byte { return packet.IP4(cur).SetPayload(pl, proto) },
		func(cur, pl []byte) ([]byte, error) { return packet.IP4(cur).AppendPayload(pl, proto) },
		func(cur []byte) string { return g(func() string { return itoa(packet.IP4(cur).TotalLen()) }) },
		func(cur []byte) string { return rbIP4(cur) }}, full, old, ip, a[7])
}

func runRe6(a []string) string {
	c, l, seed, hop := atoi(a[0]), atoi(a[1]), uint64(atoi(a[2])), byte(atoi(a[3]))
	nh := byte(atoi(a[6]))
	if c < 40 {
		return "fresh"
	}
	buf, full, old := mkbuf(c, l, seed)
	ip := packet.EncodeIP6(buf, hop, addr(unhex(a[4])), addr(unhex(a[5])))
	return runReuse(reLayer{40,
		func(cur, pl []byte) []byte { return packet.IP6(cur).SetPayload(pl, nh) },
		func(cur, pl []byte) ([]byte, error) { return packet.IP6(cur).AppendPayload(pl, nh) },
		func(cur []byte) string { return g(func() string { return itoa(int(packet.IP6(cur).PayloadLen())) }) },
		func(cur []byte) string { return rbIP6(cur) }}, full, old, ip, a[7])
}

func runReU(a []string) string {
	c, l, seed := atoi(a[0]), atoi(a[1]), uint64(atoi(a[2]))
	if c < 8 {
		return "nil"
	}
	buf, full, old := mkbuf(c, l, seed)
	u := packet.EncodeUDP(buf, uint16(atoi(a[3])), uint16(atoi(a[4])))
	return runReuse(reLayer{8,
		func(cur, pl []byte) []byte { return packet.UDP(cur).SetPayload(pl) },
		func(cur, pl []byte) ([]byte, error) { return packet.UDP(cur).AppendPayload(pl) },
		func(cur []byte) string { return g(func() string { return itoa(int(packet.UDP(cur).Len())) }) },
		func(cur []byte) string { return rbUDP(cur) }}, full, old, u, a[5])
}

func runReE(a []string) string {
	c, l, seed, ht := atoi(a[0]), atoi(a[1]), uint64(atoi(a[2])), uint16(atoi(a[3]))
	buf, full, old := mkbuf(c, l, seed)
	e := packet.EncodeEther(buf, ht, net.HardwareAddr(marg(unhex(a[4]))), net.HardwareAddr(marg(unhex(a[5]))))
	return runReuse(reLayer{14,
		func(cur, pl []byte) []byte { out, _ := packet.Ether(cur).SetPayload(pl); return out },
		func(cur, pl []byte) ([]byte, error) { return packet.Ether(cur).AppendPayload(pl[:len(pl):len(pl)]) },
		func(cur []byte) string { return "-" },
		func(cur []byte) string { return rbEther(cur) }}, full, old, e, a[6])
}

func runReC(a []string) string {
	c, l, seed := atoi(a[0]), atoi(a[1]), uint64(atoi(a[2]))
	t, code, id, seq := byte(atoi(a[3])), byte(atoi(a[4])), uint16(atoi(a[5])), uint16(atoi(a[6]))
	buf, full, old := mkbuf(c, l, seed)
	return runReuse(reLayer{8,
		func(cur, pl []byte) []byte { panic("no SetPayload on ICMPEcho") },
		func(cur, pl []byte) ([]byte, error) { return packet.EncodeICMPEcho(cur, t, code, id, seq, pl), nil },
		func(cur []byte) string { return "-" },
		func(cur []byte) string { return rbEcho(cur) }}, full, old, buf, a[7])
}

func registerReuse(r *lib.Run) {
	r.Register("re4", runRe4)
	r.Register("re6", runRe6)
	r.Register("reu", runReU)
	r.Register("ree", runReE)
	r.Register("rec", runReC)
}

// ops: 2..4 steps; payload sizes small / larger / smaller / empty / up to the room; views between header and capacity
func (g *gen) reOps(hdr, c int, withSet bool) string {
	rng := g.rng
	n := 2 + rng.Intn(3)
	var ops []string
	room := c - hdr
	if room < 0 {
		room = 0
	}
	for i := 0; i < n; i++ {
		sz := rng.Pick(0, 1, 2, 5, 9, 18, 30, rng.Intn(40))
		if rng.Chance(10) {
			sz = rng.Pick(room, room+1, room/2)
		}
		if sz > 200 {
			sz = 200
		}
		pl := lib.Hex(rng.Bytes(sz))
		switch k := rng.Intn(10); {
		case k < 4 && withSet:
			ops = append(ops, "s="+pl)
		case k < 8:
			ops = append(ops, "a="+pl)
		default:
			v := hdr + rng.Intn(room+1)
			if rng.Chance(10) {
				v = rng.Intn(hdr + 1)
			}
			ops = append(ops, "v="+itoa(v))
		}
	}
	return strings.Join(ops, ",")
}

func (g *gen) reuseCases() {
	r, rng := g.r, g.rng
	capOf := func(hdr int) int { return rng.Pick(hdr+40, hdr+64, 64, 100, 128, 256, hdr+9, hdr+1) }
	ip := func() []byte {
		if rng.Chance(90) {
			return g.ip4()
		}
		return g.anyIP()
	}
	c := capOf(20)
	r.Do("re4", itoa(c), itoa(c), g.seed(), itoa(rng.Intn(256)), lib.Hex(ip()), lib.Hex(ip()), itoa(rng.Intn(256)), g.reOps(20, c, true))
	c = capOf(40)
	r.Do("re6", itoa(c), itoa(g.lenFor(c)), g.seed(), itoa(rng.Intn(256)), lib.Hex(g.anyIP()), lib.Hex(g.anyIP()), itoa(rng.Intn(256)), g.reOps(40, c, true))
	c = capOf(8)
	r.Do("reu", itoa(c), itoa(g.lenFor(c)), g.seed(), itoa(g.port()), itoa(g.port()), g.reOps(8, c, true))
	c = rng.Pick(60, 64, 100, 128, 256, 61)
	r.Do("ree", itoa(c), itoa(g.lenFor(c)), g.seed(), itoa(rng.Pick(0x0800, 0x86dd, 0x0806, 0x0800, 0x8100)), lib.Hex(g.mac()), lib.Hex(g.mac()), g.reOps(14, c, true))
	c = capOf(8)
	r.Do("rec", itoa(c), itoa(g.lenFor(c)), g.seed(), itoa(rng.Pick(0, 8, 128)), "0", itoa(rng.Intn(65536)), itoa(rng.Intn(65536)), g.reOps(8, c, false))
}
