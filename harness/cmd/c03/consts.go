// Source-derived constants: the numeric constants the Coq model hard-codes are extracted from the
// source under $VERIF_REPO with go/ast (constant declarations, and a few literals inside the
// encoder bodies) and compared with the model's values through the case kind `consts`.
// An AST shape that is not recognised is counted (stat consts.unrecognised.*), not reported.
package main

import (
	"fmt"
	"go/ast"
	"go/parser"
	"go/token"
	"os"
	"path/filepath"
	"sort"
	"strconv"
	"strings"
	"syscall"

	"golang.org/x/net/ipv6"
	"pvharness/lib"
)

type constEnv struct {
	decl  map[string]ast.Expr // constant name -> defining expression
	funcs map[string]*ast.FuncDecl
	memo  map[string]int64
	vars  map[string]*ast.ValueSpec // package-level variables
}

func loadConsts(dir string) (*constEnv, error) {
	fset := token.NewFileSet()
	env := &constEnv{decl: map[string]ast.Expr{}, funcs: map[string]*ast.FuncDecl{}, memo: map[string]int64{}, vars: map[string]*ast.ValueSpec{}}
	files, _ := filepath.Glob(filepath.Join(dir, "*.go"))
	for _, fn := range files {
		if strings.HasSuffix(fn, "_test.go") {
			continue
		}
		f, err := parser.ParseFile(fset, fn, nil, 0)
		if err != nil {
			return nil, err
		}
		for _, d := range f.Decls {
			switch d := d.(type) {
			case *ast.GenDecl:
				if d.Tok == token.VAR {
					for _, s := range d.Specs {
						vs := s.(*ast.ValueSpec)
						for _, n := range vs.Names {
							if n.Name != "_" {
								env.vars[n.Name] = vs
							}
						}
					}
				}
				if d.Tok != token.CONST {
					continue
				}
				for _, s := range d.Specs {
					vs := s.(*ast.ValueSpec)
					for i, n := range vs.Names {
						if i < len(vs.Values) {
							env.decl[n.Name] = vs.Values[i]
						}
					}
				}
			case *ast.FuncDecl:
				name := d.Name.Name
				if d.Recv != nil && len(d.Recv.List) == 1 {
					t := d.Recv.List[0].Type
					if st, ok := t.(*ast.StarExpr); ok {
						t = st.X
					}
					if id, ok := t.(*ast.Ident); ok {
						name = id.Name + "." + name
					}
				}
				env.funcs[name] = d
			}
		}
	}
	return env, nil
}

// eval: integer constant expressions made of literals, other constants, + - * << | & and conversions
func (e *constEnv) eval(x ast.Expr) (int64, bool) {
	switch x := x.(type) {
	case *ast.BasicLit:
		if x.Kind != token.INT {
			return 0, false
		}
		v, err := strconv.ParseInt(x.Value, 0, 64)
		return v, err == nil
	case *ast.ParenExpr:
		return e.eval(x.X)
	case *ast.Ident:
		if v, ok := e.memo[x.Name]; ok {
			return v, true
		}
		d, ok := e.decl[x.Name]
		if !ok {
			return 0, false
		}
		v, ok := e.eval(d)
		if ok {
			e.memo[x.Name] = v
		}
		return v, ok
	case *ast.CallExpr: // conversion T(x)
		if len(x.Args) == 1 {
			return e.eval(x.Args[0])
		}
	case *ast.BinaryExpr:
		a, ok1 := e.eval(x.X)
		b, ok2 := e.eval(x.Y)
		if !ok1 || !ok2 {
			return 0, false
		}
		switch x.Op {
		case token.ADD:
			return a + b, true
		case token.SUB:
			return a - b, true
		case token.MUL:
			return a * b, true
		case token.SHL:
			return a << uint(b), true
		case token.OR:
			return a | b, true
		case token.AND:
			return a & b, true
		}
	}
	return 0, false
}

// the integer literal compared with `lhsText` by operator op somewhere in the function body
func (e *constEnv) cmpLiteral(fn string, op token.Token, pred func(ast.Expr) bool) (int64, bool) {
	f := e.funcs[fn]
	if f == nil {
		return 0, false
	}
	var out int64
	found := false
	ast.Inspect(f.Body, func(n ast.Node) bool {
		if b, ok := n.(*ast.BinaryExpr); ok && b.Op == op && pred(b.X) {
			if v, ok := e.eval(b.Y); ok && !found {
				out, found = v, true
			}
		}
		return true
	})
	return out, found
}

func isCall(name string) func(ast.Expr) bool {
	return func(x ast.Expr) bool {
		c, ok := x.(*ast.CallExpr)
		if !ok {
			return false
		}
		id, ok := c.Fun.(*ast.Ident)
		return ok && id.Name == name
	}
}
func isIdent(name string) func(ast.Expr) bool {
	return func(x ast.Expr) bool { id, ok := x.(*ast.Ident); return ok && id.Name == name }
}

// elements of the first composite literal []byte{...} that is an argument of a call to method `callee`
// (callee == "") or assigned to variable `callee`
func (e *constEnv) byteList(fn, callee string) (string, bool) {
	f := e.funcs[fn]
	if f == nil {
		return "", false
	}
	res, found := "", false
	render := func(cl *ast.CompositeLit) {
		var parts []string
		for _, el := range cl.Elts {
			v, ok := e.eval(el)
			if !ok {
				return
			}
			parts = append(parts, strconv.FormatInt(v, 10))
		}
		res, found = strings.Join(parts, ","), true
	}
	ast.Inspect(f.Body, func(n ast.Node) bool {
		if found {
			return false
		}
		switch n := n.(type) {
		case *ast.CallExpr:
			if sel, ok := n.Fun.(*ast.SelectorExpr); ok && sel.Sel.Name == callee {
				for _, a := range n.Args {
					if cl, ok := a.(*ast.CompositeLit); ok {
						render(cl)
					}
				}
			}
		case *ast.ValueSpec:
			for i, nm := range n.Names {
				if nm.Name == callee && i < len(n.Values) {
					if cl, ok := n.Values[i].(*ast.CompositeLit); ok {
						render(cl)
					}
				}
			}
		}
		return true
	})
	return res, found
}

// value assigned to b[idx] in the function (first match)
func (e *constEnv) indexAssign(fn string, idx int64) (int64, bool) {
	f := e.funcs[fn]
	if f == nil {
		return 0, false
	}
	var out int64
	found := false
	ast.Inspect(f.Body, func(n ast.Node) bool {
		as, ok := n.(*ast.AssignStmt)
		if !ok || found || len(as.Lhs) != 1 || len(as.Rhs) != 1 || as.Tok != token.ASSIGN {
			return true
		}
		ix, ok := as.Lhs[0].(*ast.IndexExpr)
		if !ok {
			return true
		}
		if i, ok := e.eval(ix.Index); ok && i == idx {
			if v, ok := e.eval(as.Rhs[0]); ok {
				out, found = v, true
			}
		}
		return true
	})
	return out, found
}

// all integer literals compared with == inside the function, sorted and unique
func (e *constEnv) eqLiterals(fn string, min int64) (string, bool) {
	f := e.funcs[fn]
	if f == nil {
		return "", false
	}
	set := map[int64]bool{}
	ast.Inspect(f.Body, func(n ast.Node) bool {
		if b, ok := n.(*ast.BinaryExpr); ok && b.Op == token.EQL {
			if sel, ok := b.X.(*ast.SelectorExpr); ok && sel.Sel.Name == "Port" {
				if v, ok := e.eval(b.Y); ok && v >= min {
					set[v] = true
				}
			}
		}
		return true
	})
	if len(set) == 0 {
		return "", false
	}
	var vs []int
	for v := range set {
		vs = append(vs, int(v))
	}
	sort.Ints(vs)
	parts := make([]string, len(vs))
	for i, v := range vs {
		parts[i] = strconv.Itoa(v)
	}
	return strings.Join(parts, ","), true
}

// census of the encoder functions of package packet: every function or method whose name says it writes
// packet bytes (Encode*, *Marshal, marshal*, encode*, SetPayload, AppendPayload, AppendOptions), as "Recv.Name",
// sorted.  The model keeps the same list, each entry classified as modelled by C03 or by another cluster: a
// new, removed or renamed encoder shows.  Exported functions are always listed.  An unexported one is listed
// only when somebody other than a census function calls it (or nobody does); an unexported helper that is
// called solely by census functions (e.g. one extracted from an encoder by a refactoring) inherits their
// classification and is only counted (second result).
func encoderName(n string) bool {
	base := n
	if i := strings.LastIndex(n, "."); i >= 0 {
		base = n[i+1:]
	}
	return strings.HasPrefix(base, "Encode") || strings.HasSuffix(base, "Marshal") || strings.HasPrefix(base, "marshal") ||
		strings.HasPrefix(base, "encode") || base == "SetPayload" || base == "AppendPayload" || base == "AppendOptions"
}

func baseName(n string) string {
	if i := strings.LastIndex(n, "."); i >= 0 {
		return n[i+1:]
	}
	return n
}

// callees by name: plain calls f(...) and method calls x.m(...) (the receiver type is not resolved: a method
// name stands for every method of that name)
func calleeNames(fd *ast.FuncDecl) map[string]bool {
	out := map[string]bool{}
	if fd.Body == nil {
		return out
	}
	ast.Inspect(fd.Body, func(n ast.Node) bool {
		if c, ok := n.(*ast.CallExpr); ok {
			switch f := c.Fun.(type) {
			case *ast.Ident:
				out[f.Name] = true
			case *ast.SelectorExpr:
				out[f.Sel.Name] = true
			}
		}
		return true
	})
	return out
}

func (e *constEnv) census() (string, []string) {
	var names, inherited []string
	for n := range e.funcs {
		if !encoderName(n) {
			continue
		}
		base := baseName(n)
		if ast.IsExported(base) {
			names = append(names, n)
			continue
		}
		callers, outside := 0, 0
		for cn, fd := range e.funcs {
			if cn == n {
				continue
			}
			if calleeNames(fd)[base] {
				callers++
				if !encoderName(cn) {
					outside++
				}
			}
		}
		if callers > 0 && outside == 0 {
			inherited = append(inherited, n)
		} else {
			names = append(names, n)
		}
	}
	sort.Strings(names)
	sort.Strings(inherited)
	return strings.Join(names, ","), inherited
}

// package-level variables the encoders touch: for every census function (listed or inherited) and every
// package function reachable from it by plain calls (and by method calls whose name is unique in the package),
// the package-level variables its body mentions.  "Func:var+var;Func:var", sorted.  The model keeps the
// expected list (today: none beyond read-only tables), so that new shared state under an encoder is a tie alarm.
func (e *constEnv) globals() string {
	byBase := map[string][]string{}
	for n := range e.funcs {
		byBase[baseName(n)] = append(byBase[baseName(n)], n)
	}
	seen := map[string]bool{}
	var work []string
	for n := range e.funcs {
		if encoderName(n) {
			seen[n] = true
			work = append(work, n)
		}
	}
	for len(work) > 0 {
		n := work[len(work)-1]
		work = work[:len(work)-1]
		for c := range calleeNames(e.funcs[n]) {
			if l := byBase[c]; len(l) == 1 && !seen[l[0]] {
				seen[l[0]] = true
				work = append(work, l[0])
			}
		}
	}
	var rows []string
	for n := range seen {
		fd := e.funcs[n]
		if fd.Body == nil {
			continue
		}
		used := map[string]bool{}
		var visit func(ast.Node) bool
		visit = func(x ast.Node) bool {
			switch t := x.(type) {
			case *ast.SelectorExpr:
				ast.Inspect(t.X, visit)
				return false
			case *ast.KeyValueExpr:
				ast.Inspect(t.Value, visit)
				if _, isId := t.Key.(*ast.Ident); !isId {
					ast.Inspect(t.Key, visit)
				}
				return false
			case *ast.Ident:
				vs, ok := e.vars[t.Name]
				if !ok {
					return true
				}
				if t.Obj == nil || t.Obj.Decl == vs {
					used[t.Name] = true
				}
			}
			return true
		}
		ast.Inspect(fd.Body, visit)
		if len(used) > 0 {
			var vs []string
			for v := range used {
				vs = append(vs, v)
			}
			sort.Strings(vs)
			rows = append(rows, n+":"+strings.Join(vs, "+"))
		}
	}
	sort.Strings(rows)
	if len(rows) == 0 {
		return "-"
	}
	return strings.Join(rows, ";")
}

func runConsts(r *lib.Run) {
	dir := os.Getenv("VERIF_REPO")
	if dir == "" {
		dir = "/repo"
	}
	env, err := loadConsts(dir)
	if err != nil {
		r.Stat("consts.parse-error", 1)
		return
	}
	emit := func(name, val string, ok bool) {
		if !ok {
			r.Stat("consts.unrecognised."+name, 1)
			return
		}
		r.Case("consts", []string{name}, val)
	}
	num := func(v int64, ok bool) (string, bool) { return strconv.FormatInt(v, 10), ok }
	cen, inh := env.census()
	r.Case("census", []string{"encoders"}, cen)
	for _, n := range inh {
		r.Stat("census.inherited."+n, 1)
	}
	r.Case("globals", []string{"encoders"}, env.globals())
	if w, ok := widthsTable(dir); ok {
		r.Case("widths", []string{"encoders"}, w)
	} else {
		r.Stat("consts.widths-parse-error", 1)
	}
	// declared constants
	for _, n := range []string{"EthMaxSize", "EthHeaderLen", "EthAddrLen", "EthType8021AD", "HeaderLen", "UDPHeaderLen",
		"IP6HeaderLen", "ARPLen", "ARPOperationRequest", "ARPOperationReply", "ICMP4TypeEchoReply", "ICMP4TypeEchoRequest",
		"ICMP6TypeEchoRequest", "ICMP6TypeEchoReply", "DHCP4ServerPort", "DHCP4ClientPort", "DHCP4BootRequest", "DHCP4BootReply",
		"DHCP4End", "DHCP4Pad", "DHCP4OptionSubnetMask", "DHCP4OptionRouter", "DHCP4OptionStaticRoute", "DHCP4OptionDHCPMessageType",
		"questionClassInternet", "PayloadEther", "Payload8023", "PayloadIP4", "PayloadIP6", "PayloadICMP4", "PayloadUDP",
		"PayloadDHCP4", "PayloadDHCP6", "PayloadDNS", "PayloadMDNS", "PayloadSSL", "PayloadNTP", "PayloadSSDP", "PayloadWSDP",
		"PayloadNBNS", "PayloadPlex", "PayloadUbiquiti", "PayloadLLMNR"} {
		d, ok := env.decl[n]
		if !ok {
			emit(n, "", false)
			continue
		}
		v, ok := env.eval(d)
		s, _ := num(v, ok)
		emit(n, s, ok)
	}
	// constants of the packet the model does not use (RA/RS body lengths): counted only
	for _, n := range []string{"raLen", "rsLen"} {
		if d, ok := env.decl[n]; ok {
			if v, ok := env.eval(d); ok {
				r.Stat(fmt.Sprintf("consts.unmodelled.%s=%d", n, v), 1)
			}
		}
	}
	// literals inside the encoders
	s, ok := num(env.cmpLiteral("EncodeDHCP4", token.LSS, isCall("cap")))
	emit("EncodeDHCP4.mincap", s, ok)
	s, ok = num(env.cmpLiteral("EncodeDHCP4", token.LSS, isIdent("n")))
	emit("EncodeDHCP4.padto", s, ok)
	s, ok = env.byteList("EncodeDHCP4", "SetCookie")
	emit("EncodeDHCP4.cookie", s, ok)
	s, ok = env.byteList("DHCP4.AppendOptions", "optionsReplyParametersList")
	emit("AppendOptions.reply", s, ok)
	s, ok = num(env.cmpLiteral("DHCP4.AppendOptions", token.LSS, isCall("cap")))
	emit("AppendOptions.fixedlen", s, ok)
	s, ok = num(env.cmpLiteral("Ether.AppendPayload", token.LSS, isIdent("n")))
	emit("Ether.AppendPayload.minframe", s, ok)
	s, ok = num(env.cmpLiteral("EncodeEther", token.LSS, isCall("cap")))
	emit("EncodeEther.mincap", s, ok)
	s, ok = num(env.indexAssign("ICMP6NeighborSolicitationMarshal", 24))
	emit("NS.option.type", s, ok)
	s, ok = num(env.indexAssign("ICMP6NeighborAdvertisementMarshal", 24))
	emit("NA.option.type", s, ok)
	s, ok = num(env.indexAssign("EncodeIP4", 1))
	emit("EncodeIP4.tos", s, ok)
	s, ok = num(env.indexAssign("EncodeIP6", 6))
	emit("EncodeIP6.nonext", s, ok)
	s, ok = env.eqLiterals("Session.Parse", 2)
	emit("Parse.udp.ports", s, ok)
	// constants of the Go standard library / x/net the library refers to (values of the toolchain in use)
	emit("syscall.ETH_P_IP", strconv.Itoa(syscall.ETH_P_IP), true)
	emit("syscall.ETH_P_IPV6", strconv.Itoa(syscall.ETH_P_IPV6), true)
	emit("syscall.ETH_P_ARP", strconv.Itoa(syscall.ETH_P_ARP), true)
	emit("syscall.ETH_P_8021Q", strconv.Itoa(syscall.ETH_P_8021Q), true)
	emit("syscall.IPPROTO_UDP", strconv.Itoa(syscall.IPPROTO_UDP), true)
	emit("syscall.IPPROTO_ICMP", strconv.Itoa(syscall.IPPROTO_ICMP), true)
	emit("ipv6.ICMPTypeNeighborSolicitation", strconv.Itoa(int(ipv6.ICMPTypeNeighborSolicitation)), true)
	emit("ipv6.ICMPTypeNeighborAdvertisement", strconv.Itoa(int(ipv6.ICMPTypeNeighborAdvertisement)), true)
}
