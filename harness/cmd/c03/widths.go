// widths.go — source-derived, tie only: every NON-CONSTANT arithmetic expression (+ - * <<) of an 8- or 16-bit
// integer type inside the encoder functions (the census functions), with the place it is used in
// (arg = argument of a call such as PutUint16, assign, cond, index = slice / index expression, other).
// The model computes lengths in unbounded integers and wraps explicitly (u16) exactly where the code stores a
// length into a 16-bit field; a capacity check or a re-slice computed in 16 bits is a new row.
// The package is parsed and type-checked on every run (go/parser + go/types; unresolved imports tolerated).
package main

import (
	"go/ast"
	"go/importer"
	"go/parser"
	"go/printer"
	"go/token"
	"go/types"
	"path/filepath"
	"sort"
	"strings"
)

func widthsTable(dir string) (string, bool) {
	fset := token.NewFileSet()
	names, _ := filepath.Glob(filepath.Join(dir, "*.go"))
	var files []*ast.File
	for _, fn := range names {
		if strings.HasSuffix(fn, "_test.go") {
			continue
		}
		f, err := parser.ParseFile(fset, fn, nil, 0)
		if err != nil {
			return "", false
		}
		files = append(files, f)
	}
	info := &types.Info{Types: map[ast.Expr]types.TypeAndValue{}}
	conf := types.Config{Importer: importer.ForCompiler(fset, "source", nil), Error: func(error) {}}
	conf.Check("packet", fset, files, info) // errors (third-party imports) are expected
	var out []string
	for _, file := range files {
		for _, d := range file.Decls {
			fn, ok := d.(*ast.FuncDecl)
			if !ok || fn.Body == nil {
				continue
			}
			name := fn.Name.Name
			if fn.Recv != nil && len(fn.Recv.List) == 1 {
				t := fn.Recv.List[0].Type
				if st, ok := t.(*ast.StarExpr); ok {
					t = st.X
				}
				if id, ok := t.(*ast.Ident); ok {
					name = id.Name + "." + name
				}
			}
			if !encoderName(name) {
				continue
			}
			var stack []ast.Node
			ast.Inspect(fn.Body, func(n ast.Node) bool {
				if n == nil {
					stack = stack[:len(stack)-1]
					return true
				}
				stack = append(stack, n)
				be, ok := n.(*ast.BinaryExpr)
				if !ok {
					return true
				}
				switch be.Op {
				case token.MUL, token.ADD, token.SUB, token.SHL:
				default:
					return true
				}
				tv, ok := info.Types[be]
				if !ok || tv.Value != nil {
					return true
				}
				b, ok := tv.Type.Underlying().(*types.Basic)
				if !ok {
					return true
				}
				switch b.Kind() {
				case types.Uint8, types.Int8, types.Uint16, types.Int16:
				default:
					return true
				}
				ctx := "other"
				for i := len(stack) - 2; i >= 0; i-- {
					switch p := stack[i].(type) {
					case *ast.ParenExpr, *ast.BinaryExpr, *ast.UnaryExpr:
						continue
					case *ast.CallExpr:
						ctx = "arg"
						if len(p.Args) == 1 {
							if tv2, ok := info.Types[p.Fun]; ok && tv2.IsType() {
								continue // a conversion: look further up
							}
						}
					case *ast.AssignStmt, *ast.ValueSpec:
						ctx = "assign"
					case *ast.IfStmt, *ast.ForStmt, *ast.SwitchStmt:
						ctx = "cond"
					case *ast.SliceExpr, *ast.IndexExpr:
						ctx = "index"
					}
					break
				}
				var sb strings.Builder
				printer.Fprint(&sb, fset, be)
				out = append(out, name+":"+strings.ReplaceAll(sb.String(), " ", "")+"@"+ctx)
				return false // the outermost narrow expression only
			})
		}
	}
	if len(out) == 0 {
		return "none", true
	}
	sort.Strings(out)
	return strings.Join(out, ";"), true
}
