// conc.go — coverage class ENCODERS ARE PURE IN THEIR ARGUMENTS: no state outside the destination buffer.
//
// While the sequential generators run, the whole-frame cases (Ether/IPv4/UDP frames, padded frames, IPv6 frames,
// DHCPv4 with options, NDP NS/NA with options, DNS queries, ICMP echo, ARP) are recorded with the observation
// they produced.  Afterwards W goroutines re-execute the recorded cases at the same time, every execution on
// buffers, maps and slices of its own.  The model of an encoder call has no input but its arguments and the
// destination buffer (theorem C03_encode_deterministic), so every concurrent execution must produce exactly the
// observation of the sequential one — which the model has been compared with.  A different observation is
// written as a case of kind "conc" (= the case line of the frame that came out wrong, prefixed "conc"): the
// model answers with the sequential observation and the check reports the concrete failing input.
// DHCPv4: the Go map iteration order differs between executions; an execution with another wire order is a
// legitimate new case and is passed to the model with its own order (bounded number), the Go-side reference
// decoder checks every one of them.
package main

import (
	"bytes"
	"os"
	"os/exec"
	"path/filepath"
	"strings"
	"sync"
	"sync/atomic"

	"pvharness/lib"
)

var sharedMu sync.Mutex // harness-side shared state (oracle counters, the Session used for Parse)

type recCase struct {
	kind string
	args []string
	obs  string
}

var (
	pool      []recCase
	recording int32 = 1
	inConc    int32
	poolCap   = map[string]int{}
)

func concTag() string {
	if atomic.LoadInt32(&inConc) == 1 {
		return " [while other goroutines were encoding into buffers of their own]"
	}
	return ""
}
func concPrefix() string {
	if atomic.LoadInt32(&inConc) == 1 {
		return "conc "
	}
	return ""
}

func poolAdd(kind string, args []string, obs string) {
	if atomic.LoadInt32(&recording) == 0 {
		return
	}
	sharedMu.Lock()
	defer sharedMu.Unlock()
	lim := 400
	if kind == "dhcp4" {
		lim = 4000
	}
	if poolCap[kind] >= lim {
		return
	}
	poolCap[kind]++
	pool = append(pool, recCase{kind, args, obs})
}

// rec wraps a runner: its sequential executions are recorded for the concurrent phase
func rec(kind string, f func([]string) string) func([]string) string {
	return func(a []string) string {
		obs := f(a)
		poolAdd(kind, append([]string{}, a...), obs)
		return obs
	}
}

type concOut struct {
	execs, mismatches, reordered int64
}

// concPhase runs the pool on w goroutines; emit receives the cases to be compared with the model
func concPhase(r *lib.Run, w, rounds int, emit func(kind string, args []string, obs string)) concOut {
	atomic.StoreInt32(&recording, 0)
	atomic.StoreInt32(&inConc, 1)
	defer atomic.StoreInt32(&inConc, 0)
	var out concOut
	var emitted, emittedOrder int64
	orderCap := int64(400)
	if r.Thorough() {
		orderCap = 1500
	}
	var wg sync.WaitGroup
	start := make(chan struct{})
	for wi := 0; wi < w; wi++ {
		wg.Add(1)
		go func(wi int) {
			defer wg.Done()
			<-start
			n := len(pool)
			for round := 0; round < rounds; round++ {
				for j := 0; j < n; j++ {
					// every worker walks the pool from a different offset and with a different stride, so that
					// different frames are being encoded at the same moment
					c := pool[(j*(2*wi+1)+wi*n/w+round*7)%n]
					atomic.AddInt64(&out.execs, 1)
					if c.kind == "dhcp4" {
						obs, wire := dhcpOnce(c.args[:14])
						if lib.Hex(wire) == lib.Hex(unhex(c.args[14])) || obs == "panic" {
							if obs != c.obs {
								atomic.AddInt64(&out.mismatches, 1)
								if atomic.AddInt64(&emitted, 1) <= 40 {
									emit("dhcp4", c.args, obs)
								}
							} else if wi == 0 && round == 0 && j%4 == 0 {
								emit("dhcp4", c.args, obs)
							}
							continue
						}
						atomic.AddInt64(&out.reordered, 1)
						if atomic.AddInt64(&emittedOrder, 1) <= orderCap {
							emit("dhcp4", append(append([]string{}, c.args[:14]...), lib.Hex(wire)), obs)
						}
						continue
					}
					obs := r.Exec(c.kind, c.args)
					if obs != c.obs {
						atomic.AddInt64(&out.mismatches, 1)
						if atomic.AddInt64(&emitted, 1) <= 40 {
							emit(c.kind, c.args, obs)
						}
					} else if wi == 0 && round == 0 && j%4 == 0 {
						emit(c.kind, c.args, obs)
					}
				}
			}
		}(wi)
	}
	close(start)
	wg.Wait()
	return out
}

func runConc(r *lib.Run, w int) {
	if len(pool) == 0 {
		return
	}
	rounds := 1
	if r.Thorough() {
		rounds = 3
	}
	o := concPhase(r, w, rounds, func(kind string, args []string, obs string) {
		r.Case("conc", append([]string{kind}, args...), obs)
	})
	r.Stat("conc.executions", o.execs)
	r.Stat("conc.differs-from-sequential", o.mismatches)
	r.Stat("conc.dhcp-other-map-order", o.reordered)
	r.Stat("conc.pool", int64(len(pool)))
}

// ---- the same phase in a binary built with -race (thorough tier) ----

// runner of the replay kind "concrace": builds a pool with the sequential generators and runs the concurrent phase
func runConcRace(a []string) string {
	r := theRun
	g := &gen{r, r.Rand()}
	for i := 0; i < 150; i++ {
		g.more(i)
		g.padCase(i % 65)
	}
	o := concPhase(r, 8, 2, func(string, []string, string) {})
	return "execs=" + itoa(int(o.execs)) + " differs=" + itoa(int(o.mismatches))
}

func raceRun(r *lib.Run) {
	scratch := os.Getenv("VERIF_SCRATCH")
	src := filepath.Join(scratch, "harness")
	if scratch == "" {
		r.Stat("conc.race-skipped", 1)
		return
	}
	bin := filepath.Join(scratch, "h_c03_race")
	cmd := exec.Command("go", "build", "-race", "-tags", "verif", "-o", bin, "./cmd/c03")
	cmd.Dir = src
	if out, err := cmd.CombinedOutput(); err != nil {
		r.Stat("conc.race-build-failed", 1)
		r.Sample("go build -race failed: " + string(out))
		return
	}
	run := exec.Command(bin, "-seed", "7", "-tier", "quick", "-out", filepath.Join(scratch, "c03_race.tsv"), "-replay", "concrace x")
	run.Dir = scratch
	var buf bytes.Buffer
	run.Stdout, run.Stderr = &buf, &buf
	err := run.Run()
	text := buf.String()
	if strings.Contains(text, "DATA RACE") {
		i := strings.Index(text, "DATA RACE")
		rep := text[i:]
		if len(rep) > 1200 {
			rep = rep[:1200]
		}
		r.Viol("encoder-data-race", "encoders running at the same time on buffers of their own race on shared state: "+rep, "conc (binary built with -race: -replay 'concrace x')")
		return
	}
	if err != nil {
		r.Stat("conc.race-run-error", 1)
		r.Sample("race run: " + err.Error() + " " + text)
		return
	}
	r.Stat("conc.race-run-clean", 1)
}
