// Runners and generators for IPv6, ARP, ICMP echo, NDP NS/NA, DNS query, DHCPv4.
package main

import (
	"bytes"
	"fmt"
	"net"
	"sort"
	"strings"

	"github.com/irai/packet"
	"pvharness/lib"
)

const modeN = "0c" // AppendPayload(nil)

func as16(b []byte) []byte {
	switch len(b) {
	case 4:
		return append([]byte{0, 0, 0, 0, 0, 0, 0, 0, 0, 0, 0xff, 0xff}, b...)
	case 16:
		return b
	}
	return make([]byte, 16)
}

func fresh(res []byte) string {
	return fmt.Sprintf("ok %d %d %s", len(res), cap(res), lib.Hex(res))
}

// ---------------------------------------------------------------- IPv6

func rbIP6(p packet.IP6) string {
	return fmt.Sprintf("v=%s plen=%s nh=%s hop=%s s=%s d=%s ok=%s pl=%s",
		g(func() string { return itoa(p.Version()) }),
		g(func() string { return itoa(int(p.PayloadLen())) }),
		g(func() string { return itoa(int(p.NextHeader())) }),
		g(func() string { return itoa(int(p.HopLimit())) }),
		g(func() string { return lib.Hex(p.Src().AsSlice()) }),
		g(func() string { return lib.Hex(p.Dst().AsSlice()) }),
		g(func() string { return tf(p.IsValid() == nil) }),
		g(func() string { return win(p, p.Payload()) }))
}

func runIP6(a []string) string {
	c, l, seed, hop := atoi(a[0]), atoi(a[1]), uint64(atoi(a[2])), byte(atoi(a[3]))
	src, dst := addr(unhex(a[4])), addr(unhex(a[5]))
	buf, full, old := mkbuf(c, l, seed)
	ip := packet.EncodeIP6(buf, hop, src, dst)
	if c < 40 || !sameArrayEnd(full, ip) {
		return "fresh " + fresh(ip) + " " + hull(old, full) + " " + rbIP6(ip)
	}
	return encOK(ip, full, old) + " " + rbIP6(ip)
}

func runIP6Pl(a []string) string {
	c, l, seed, hop := atoi(a[0]), atoi(a[1]), uint64(atoi(a[2])), byte(atoi(a[3]))
	srcb, dstb := unhex(a[4]), unhex(a[5])
	nh, mode, payload := byte(atoi(a[6])), a[7], sarg(unhex(a[8]))
	if payload == nil {
		payload = []byte{}
	}
	buf, full, old := mkbuf(c, l, seed)
	ip := packet.EncodeIP6(buf, hop, addr(srcb), addr(dstb))
	isFresh := c < 40 || !sameArrayEnd(full, ip)
	var out packet.IP6
	var err error
	switch mode {
	case modeS:
		if !isFresh && 40+len(payload) <= c {
			copy(full[40:], payload)
		}
		out = ip.SetPayload(payload, nh)
	case modeN:
		out, err = ip.AppendPayload(nil, nh)
	default:
		out, err = ip.AppendPayload(payload, nh)
	}
	if isFresh {
		if hull(old, full) != "-" {
			return "fresh-but-buffer-written " + hull(old, full)
		}
		if err != nil {
			return "fresh " + strings.Fields(encErr(err, full, old))[0]
		}
		return "fresh " + fresh(out) + " - " + rbIP6(out)
	}
	if err != nil {
		return encErr(err, full, old)
	}
	if 40+len(payload) <= c && 40+len(payload) <= 1508 && mode != modeN {
		d, ok := refIP6(out)
		if !ok || d.class != 0 || d.flow != 0 || d.plen != len(payload) || d.next != nh || d.hop != hop ||
			!eq(d.src, as16(srcb)) || !eq(d.dst, as16(dstb)) || !eq(d.payload, payload) || len(out) != 40+len(payload) {
			viol("ip6-rt", "IPv6 packet does not decode to the supplied values", "ip6pl", a)
		}
	}
	return encOK(out, full, old) + " " + rbIP6(out)
}

func runFrame6(a []string) string {
	c, l, seed := atoi(a[0]), atoi(a[1]), uint64(atoi(a[2]))
	smac, dmac := marg(unhex(a[3])), marg(unhex(a[4]))
	hop := byte(atoi(a[5]))
	sipb, dipb := unhex(a[6]), unhex(a[7])
	sp, dp := uint16(atoi(a[8])), uint16(atoi(a[9]))
	data := sarg(unhex(a[10]))
	buf, full, old := mkbuf(c, l, seed)
	ether := packet.EncodeEther(buf, 0x86dd, net.HardwareAddr(smac), net.HardwareAddr(dmac))
	ip6 := packet.EncodeIP6(ether.Payload(), hop, addr(sipb), addr(dipb))
	udp := packet.EncodeUDP(ip6.Payload(), sp, dp)
	udp, err := udp.AppendPayload(data)
	if err != nil {
		return encErr(err, full, old)
	}
	ip6 = ip6.SetPayload(udp, 17)
	ether, _ = ether.SetPayload(ip6)
	dl := len(data)
	if 62+dl <= c && 62+dl <= 1522 && len(smac) == 6 && len(dmac) == 6 && smac[0]&1 == 0 {
		bad := ""
		e, ok := refEther(ether)
		if !ok || !eq(e.dst, dmac) || !eq(e.src, smac) || e.etype != 0x86dd || len(e.payload) != 48+dl {
			bad = "ether"
		} else if i, ok := refIP6(e.payload); !ok || i.hop != hop || i.next != 17 || !eq(i.src, as16(sipb)) || !eq(i.dst, as16(dipb)) || i.plen != 8+dl {
			bad = "ip6"
		} else if u, ok := refUDP(i.payload); !ok || u.sport != sp || u.dport != dp || u.length != 8+dl || !eq(u.payload, data) {
			bad = "udp"
		}
		if bad != "" {
			viol("frame6-rt", "composed frame does not decode to the supplied values at layer "+bad, "frame6", a)
		}
	}
	ipv := g(func() string { return rbIP6(packet.IP6(ether.Payload())) })
	udv := g(func() string { return rbUDP(packet.UDP(packet.IP6(ether.Payload()).Payload())) })
	return encOK(ether, full, old) + " " + rbEther(ether) + " | " + ipv + " | " + udv + " | " + parseClass(ether)
}

// ---------------------------------------------------------------- ARP

func rbARP(p packet.ARP) string {
	return fmt.Sprintf("ht=%s pr=%s hl=%s pl=%s op=%s sm=%s si=%s dm=%s di=%s ok=%s",
		g(func() string { return itoa(int(p.HType())) }),
		g(func() string { return itoa(int(p.Proto())) }),
		g(func() string { return itoa(int(p.HLen())) }),
		g(func() string { return itoa(int(p.PLen())) }),
		g(func() string { return itoa(int(p.Operation())) }),
		g(func() string { return lib.Hex(p.SrcMAC()) }),
		g(func() string { return lib.Hex(p.SrcIP().AsSlice()) }),
		g(func() string { return lib.Hex(p.DstMAC()) }),
		g(func() string { return lib.Hex(p.DstIP().AsSlice()) }),
		g(func() string { return tf(p.IsValid() == nil) }))
}

func runARP(a []string) string {
	c, l, seed, op := atoi(a[0]), atoi(a[1]), uint64(atoi(a[2])), uint16(atoi(a[3]))
	smac, sip, dmac, dip := marg(unhex(a[4])), unhex(a[5]), marg(unhex(a[6])), unhex(a[7])
	buf, full, old := mkbuf(c, l, seed)
	out := packet.EncodeARP(buf, op, packet.Addr{MAC: net.HardwareAddr(smac), IP: addr(sip)}, packet.Addr{MAC: net.HardwareAddr(dmac), IP: addr(dip)})
	if c >= 28 && len(smac) == 6 && len(dmac) == 6 && len(sip) == 4 && len(dip) == 4 {
		d, ok := refARP(out)
		if !ok || d.op != op || !eq(d.sha, smac) || !eq(d.spa, sip) || !eq(d.tha, dmac) || !eq(d.tpa, dip) || len(out) != 28 {
			viol("arp-rt", "ARP packet does not decode to the supplied values", "arp", a)
		}
	}
	return encOK(out, full, old) + " " + rbARP(out)
}

// ---------------------------------------------------------------- ICMP echo

func rbEcho(p packet.ICMPEcho) string {
	return fmt.Sprintf("t=%s c=%s ck=%s id=%s seq=%s ok=%s data=%s",
		g(func() string { return itoa(int(p.Type())) }),
		g(func() string { return itoa(int(p.Code())) }),
		g(func() string { return itoa(int(p.Checksum())) }),
		g(func() string { return itoa(int(p.EchoID())) }),
		g(func() string { return itoa(int(p.EchoSeq())) }),
		tf(p.IsValid() == nil),
		g(func() string { return win(p, p.EchoData()) }))
}

func runEcho(a []string) string {
	c, l, seed := atoi(a[0]), atoi(a[1]), uint64(atoi(a[2]))
	t, code, id, seq := byte(atoi(a[3])), byte(atoi(a[4])), uint16(atoi(a[5])), uint16(atoi(a[6]))
	data := sarg(unhex(a[7]))
	buf, full, old := mkbuf(c, l, seed)
	out := packet.EncodeICMPEcho(buf, t, code, id, seq, data)
	if 8+len(data) <= c {
		d, ok := refEcho(out)
		if !ok || d.typ != t || d.code != code || d.cksum != 0 || d.id != id || d.seq != seq || !eq(d.data, data) {
			viol("echo-rt", "ICMP echo does not decode to the supplied values", "echo", a)
		}
	}
	return encOK(out, full, old) + " " + rbEcho(out)
}

// ---------------------------------------------------------------- NDP

func llaStr(m net.HardwareAddr) string {
	if m == nil {
		return "nil"
	}
	return lib.Hex(m)
}

func runNA(a []string) string {
	ro, so, ov := a[0] == "T", a[1] == "T", a[2] == "T"
	tip, tmac := unhex(a[3]), marg(unhex(a[4]))
	b := packet.ICMP6NeighborAdvertisementMarshal(ro, so, ov, packet.Addr{MAC: net.HardwareAddr(tmac), IP: addr(tip)})
	p := packet.ICMP6NeighborAdvertisement(b)
	if len(tip) == 16 && len(tmac) == 6 {
		d, ok := refND(b)
		fl := byte(0)
		if ro {
			fl |= 0x80
		}
		if so {
			fl |= 0x40
		}
		if ov {
			fl |= 0x20
		}
		if !ok || d.typ != 136 || d.code != 0 || d.flags != fl || !eq(d.target, tip) || d.opts[2] == nil || !eq(d.opts[2], tmac) {
			viol("na-rt", "neighbour advertisement does not decode to the supplied values", "na", a)
		}
	}
	return fresh(b) + " " + fmt.Sprintf("t=%s c=%s R=%s S=%s O=%s tgt=%s lla=%s ok=%s",
		g(func() string { return itoa(int(p.Type())) }),
		g(func() string { return itoa(int(p.Code())) }),
		g(func() string { return tf(p.Router()) }),
		g(func() string { return tf(p.Solicited()) }),
		g(func() string { return tf(p.Override()) }),
		g(func() string { return lib.Hex(p.TargetAddress().AsSlice()) }),
		g(func() string { return llaStr(p.TargetLLA()) }),
		tf(p.IsValid() == nil))
}

func runNS(a []string) string {
	tip, slla := unhex(a[0]), marg(unhex(a[1]))
	b, err := packet.ICMP6NeighborSolicitationMarshal(addr(tip), net.HardwareAddr(slla))
	if err != nil {
		return "err:EOther"
	}
	p := packet.ICMP6NeighborSolicitation(b)
	if len(tip) == 16 && len(slla) == 6 {
		d, ok := refND(b)
		if !ok || d.typ != 135 || d.code != 0 || !eq(d.target, tip) || d.opts[1] == nil || !eq(d.opts[1], slla) {
			// RFC 4861 4.3: the source link-layer address is option type 1
			viol("ns-marshal-option-type", "neighbour solicitation: the reference decoder finds no source link-layer address option (type 1) holding the supplied MAC", "ns", a)
		}
	}
	return fresh(b) + " " + fmt.Sprintf("t=%s c=%s tgt=%s lla=%s ok=%s",
		g(func() string { return itoa(int(p.Type())) }),
		g(func() string { return itoa(int(p.Code())) }),
		g(func() string { return lib.Hex(p.TargetAddress().AsSlice()) }),
		g(func() string { return llaStr(p.SourceLLA()) }),
		tf(p.IsValid() == nil))
}

// ---------------------------------------------------------------- DNS query

// plainName: labels of 1..63 bytes closed by a zero byte and nothing after it
func plainName(n []byte) bool {
	i := 0
	for {
		if i >= len(n) {
			return false
		}
		l := int(n[i])
		if l == 0 {
			return i == len(n)-1
		}
		if l > 63 || i+1+l > len(n) {
			return false
		}
		i += 1 + l
	}
}

// walkHitsSpecial: following the labels of the question from offset 12 as decodeName does, is a length octet
// with one of the two top bits set (compression pointer / extended label type) met before the walk ends?
// Those branches of decodeName are outside the modelled fragment (DNS cluster, C17).
func walkHitsSpecial(p []byte) bool {
	i := 12
	for i < len(p) {
		l := int(p[i])
		if l == 0 {
			return false
		}
		if l&0xc0 != 0 {
			return true
		}
		i2 := i + l + 1
		if i2-12 > 255 || i2 >= len(p) {
			return false
		}
		if bytes.IndexByte(p[i+1:i2], '.') >= 0 {
			return false // since repo commit c8663df decodeName stops with ErrParseFrame at a label containing '.'
		}
		i = i2
	}
	return false
}

func runDNSQ(a []string) string {
	id, fl, name, qt := uint16(atoi(a[0])), uint16(atoi(a[1])), sarg(unhex(a[2])), uint16(atoi(a[3]))
	p := packet.EncodeDNSQuery(id, fl, name, qt)
	if plainName(name) && len(name) <= 255 {
		d, ok := refDNSQuery(p)
		if !ok || d.id != id || d.flags != fl || d.qd != 1 || d.an != 0 || d.ns != 0 || d.ar != 0 || !eq(d.name, name) ||
			d.qtype != qt || d.qclass != 1 || d.trailing != 0 {
			viol("dnsq-rt", "DNS query does not decode to the supplied values", "dnsq", a)
		}
	}
	q := g(func() string {
		if len(p) >= 17 && walkHitsSpecial(p) {
			return "unmodelled"
		}
		qq, off, err := packet.DecodeQuestion(p, 12, make([]byte, 0, 512))
		if err != nil {
			switch err {
			case packet.ErrParseFrame:
				return "err:EParseFrame"
			}
			return "unmodelled"
		}
		return fmt.Sprintf("name=%s qt=%d qc=%d end=%d", lib.Hex(qq.Name), qq.Type, qq.Class, off)
	})
	return fresh(p) + " " + fmt.Sprintf("id=%s fl=%s qd=%s an=%s ns=%s ar=%s %s",
		g(func() string { return itoa(int(p.TransactionID())) }),
		g(func() string { return itoa(int(uint16(p[2])<<8 | uint16(p[3]))) }),
		g(func() string { return itoa(int(p.QDCount())) }),
		g(func() string { return itoa(int(p.ANCount())) }),
		g(func() string { return itoa(int(p.NSCount())) }),
		g(func() string { return itoa(int(p.ARCount())) }), q)
}

// ---------------------------------------------------------------- DHCPv4

type optKV struct {
	k byte
	v []byte
}

func parseOptsTok(s string) []optKV {
	if s == "-" {
		return nil
	}
	var out []optKV
	for _, t := range strings.Split(s, ",") {
		kv := strings.SplitN(t, "=", 2)
		v := []byte{}
		if kv[1] != "" {
			v = unhex(kv[1])
		}
		out = append(out, optKV{byte(atoi(kv[0])), v})
	}
	return out
}
func optsTok(o []optKV) string {
	if len(o) == 0 {
		return "-"
	}
	s := make([]string, len(o))
	for i, kv := range o {
		s[i] = fmt.Sprintf("%d=%x", kv.k, kv.v)
	}
	return strings.Join(s, ",")
}
func showOptsMap(m packet.DHCP4Options) string {
	if len(m) == 0 {
		return "-"
	}
	ks := make([]int, 0, len(m))
	for k := range m {
		ks = append(ks, int(k))
	}
	sort.Ints(ks)
	s := make([]string, len(ks))
	for i, k := range ks {
		s[i] = fmt.Sprintf("%d=%x", k, m[packet.DHCP4OptionCode(k)])
	}
	return strings.Join(s, ",")
}

func rbDHCP(p packet.DHCP4) string {
	return fmt.Sprintf("op=%s ht=%s hl=%s hops=%s xid=%s secs=%s fl=%s ci=%s yi=%s si=%s gi=%s ch=%s ck=%s ok=%s opts=%s",
		g(func() string { return itoa(int(p.OpCode())) }),
		g(func() string { return itoa(int(p.HType())) }),
		g(func() string { return itoa(int(p.HLen())) }),
		g(func() string { return itoa(int(p.Hops())) }),
		g(func() string { return lib.Hex(p.XId()) }),
		g(func() string { return itoa(int(p.Secs())) }),
		g(func() string { return itoa(int(p.Flags())) }),
		g(func() string { return lib.Hex(p.CIAddr().AsSlice()) }),
		g(func() string { return lib.Hex(p.YIAddr().AsSlice()) }),
		g(func() string { return lib.Hex(p.SIAddr().AsSlice()) }),
		g(func() string { return lib.Hex(p.GIAddr().AsSlice()) }),
		g(func() string { return lib.Hex(p.CHAddr()) }),
		g(func() string { return lib.Hex(p.Cookie()) }),
		g(func() string { return tf(p.IsValid() == nil) }),
		g(func() string { return showOptsMap(p.ParseOptions()) }))
}

// wireOrder: option codes in the order they appear after the cookie.  Independent walk that knows the
// key set (each key is emitted once, so 0 and 255 used as keys are told apart from Pad and End).
func wireOrder(p []byte, keys map[byte]bool) []byte {
	var order []byte
	if len(p) <= 240 {
		return nil
	}
	left := map[byte]bool{}
	for k := range keys {
		left[k] = true
	}
	o := p[240:]
	for len(o) >= 1 && left[o[0]] {
		order = append(order, o[0]) // also an option cut off by the end of the buffer (nil return): it was the next one
		if len(o) < 2 || len(o) < 2+int(o[1]) {
			break
		}
		delete(left, o[0])
		o = o[2+int(o[1]):]
	}
	return order
}

// dhcpOnce runs EncodeDHCP4 once; returns the observation and the wire order of the options
func dhcpOnce(a []string) (obs string, wire []byte) {
	c, l, seed := atoi(a[0]), atoi(a[1]), uint64(atoi(a[2]))
	opcode, mt := byte(atoi(a[3])), byte(atoi(a[4]))
	var ch net.HardwareAddr
	if a[5] == "T" {
		ch = net.HardwareAddr(sarg(unhex(a[6])))
		if ch == nil {
			ch = net.HardwareAddr{}
		}
	}
	ci, yi := addr(unhex(a[7])), addr(unhex(a[8]))
	var xid []byte
	if a[9] == "T" {
		xid = sarg(unhex(a[10]))
		if xid == nil {
			xid = []byte{}
		}
	}
	bc := a[11] == "T"
	kvs := parseOptsTok(a[12])
	// the requested order first, the option values directly behind it (as in a received message, where the
	// parameter request list is followed by the next option)
	order := sarg(unhex(a[13]))
	opts := packet.DHCP4Options{}
	for _, kv := range kvs {
		opts[packet.DHCP4OptionCode(kv.k)] = sarg(kv.v)
	}
	buf, full, old := mkbuf(c, l, seed)
	defer func() {
		if e := recover(); e != nil {
			obs, wire = "panic", nil
		}
	}()
	out := packet.EncodeDHCP4(buf, packet.DHCP4OpCode(opcode), packet.DHCP4MessageType(mt), ch, ci, yi, xid, bc, opts, order)
	keyset := map[byte]bool{53: true}
	for _, kv := range kvs {
		keyset[kv.k] = true
	}
	if out == nil && c >= 300 {
		wire = wireOrder(full, keyset) // nil return: the options that fitted are in the buffer
	} else {
		wire = wireOrder(out, keyset)
	}
	// Go-side oracle in the domain "distinct keys other than 0/255, values <= 255 bytes, everything fits"
	size := 3
	okDom := c >= 300 && (a[5] != "T" || len(ch) == 6) && (a[9] != "T" || len(xid) == 4)
	seen := map[byte]bool{}
	for _, kv := range kvs {
		if kv.k == 0 || kv.k == 255 || len(kv.v) > 255 || seen[kv.k] {
			okDom = false
		}
		seen[kv.k] = true
		if kv.k != 53 {
			size += 2 + len(kv.v)
		}
	}
	if okDom && 241+size <= c {
		d, ok := refDHCP(out)
		bad := ""
		switch {
		case !ok:
			bad = "not a well-formed DHCP message"
		case d.op != opcode || d.htype != 1 || d.hlen != 6 || d.hops != 0 || d.secs != 0:
			bad = "fixed fields"
		case bc != (d.flags == 0x8000) || (!bc && d.flags != 0):
			bad = "broadcast flag"
		case a[9] == "T" && !eq(d.xid, xid), a[5] == "T" && !eq(d.chaddr[:6], ch), ci.Is4() && !eq(d.ciaddr, ci.AsSlice()), yi.Is4() && !eq(d.yiaddr, yi.AsSlice()):
			bad = "xid/chaddr/ciaddr/yiaddr"
		case !allZero(d.siaddr) || !allZero(d.giaddr) || !allZero(d.chaddr[6:]) || !allZero(d.sname) || !allZero(d.file) || !allZero(d.pad):
			bad = "zeroed fields"
		case len(out) < 300:
			bad = "shorter than 300"
		}
		if bad == "" {
			want := map[byte][]byte{53: {mt}}
			for _, kv := range kvs {
				if kv.k != 53 {
					want[kv.k] = kv.v
				}
			}
			if len(d.opts) != len(want) {
				bad = "option count"
			}
			for _, kv := range d.opts {
				if w, ok := want[kv.k]; !ok || !eq(w, kv.v) {
					bad = "option value"
				}
			}
		}
		if bad != "" {
			viol("dhcp4-rt", "EncodeDHCP4 does not decode to the supplied values: "+bad, "dhcp4", a)
		} else {
			im, ir := -1, -1
			for i, kv := range d.opts {
				if kv.k == 1 && im < 0 {
					im = i
				}
				if kv.k == 3 && ir < 0 {
					ir = i
				}
			}
			if im >= 0 && ir >= 0 && ir < im {
				viol("dhcp-router-before-mask", "EncodeDHCP4 emits the router option before the subnet mask (RFC 2132 3.3)", "dhcp4", a)
			}
		}
	}
	return encOK(out, full, old) + " " + rbDHCP(out), wire
}

// replay: the map iteration order is not controllable; retry until the recorded order comes up
func runDHCP4(a []string) string {
	want := lib.Hex(unhex(a[14]))
	obs := ""
	for try := 0; try < 2000; try++ {
		var w []byte
		obs, w = dhcpOnce(a[:14])
		if obs == "panic" || lib.Hex(w) == want {
			return obs
		}
	}
	return obs
}

// ---------------------------------------------------------------- generators

func (g *gen) ip6() []byte {
	a := g.rng.Bytes(16)
	switch g.rng.Intn(4) {
	case 0:
		a[0], a[1] = 0xfe, 0x80
	case 1:
		a[0], a[1] = 0xff, 0x02
	}
	return a
}
func (g *gen) anyIP() []byte {
	switch g.rng.Intn(10) {
	case 0:
		return nil
	case 1, 2, 3:
		return g.ip4()
	}
	return g.ip6()
}

func (g *gen) name() []byte {
	var n []byte
	labels := g.rng.Intn(5)
	for i := 0; i < labels; i++ {
		l := 1 + g.rng.Intn(12)
		if g.rng.Chance(5) {
			l = g.rng.Pick(62, 63)
		}
		n = append(n, byte(l))
		for j := 0; j < l; j++ {
			ch := byte('a' + g.rng.Intn(26))
			if g.rng.Chance(3) {
				ch = g.rng.Byte()
			}
			n = append(n, ch)
		}
	}
	return append(n, 0)
}

func (g *gen) dhcpCase() {
	rng := g.rng
	c := g.rng.Pick(300, 301, 1522, 1522, 1522, 4096, 299, 310, 400, 548, 600)
	if rng.Chance(10) {
		c = 280 + rng.Intn(400)
	}
	l := g.lenFor(c)
	nopt := rng.Intn(9)
	codes := []int{1, 3, 6, 12, 15, 28, 33, 42, 43, 50, 51, 54, 55, 57, 58, 59, 60, 61, 66, 67, 81, 119, 121, 252, 254, 2, 4}
	seen := map[int]bool{}
	var kvs []optKV
	for i := 0; i < nopt; i++ {
		k := codes[rng.Intn(len(codes))]
		if rng.Chance(45) {
			k = rng.Pick(1, 3, 33, 6, 51, 54)
		}
		if rng.Chance(3) {
			k = rng.Pick(0, 255, 53)
		}
		if seen[k] {
			continue
		}
		seen[k] = true
		vl := rng.Pick(0, 1, 4, 4, 4, 8, 2, rng.Intn(20), rng.Intn(256))
		if k == 1 || k == 3 || k == 54 {
			vl = 4
		}
		kvs = append(kvs, optKV{byte(k), rng.Bytes(vl)})
	}
	// requested-parameter order: some of the present codes, some absent, duplicates, 1/3 in either order
	var order []byte
	for _, kv := range kvs {
		if rng.Chance(50) {
			order = append(order, kv.k)
		}
	}
	for i := 0; i < rng.Intn(4); i++ {
		order = append(order, byte(rng.Pick(1, 3, 6, 15, 33, 44, 51, 119)))
	}
	rng2 := rng
	for i := len(order) - 1; i > 0; i-- {
		j := rng2.Intn(i + 1)
		order[i], order[j] = order[j], order[i]
	}
	if rng.Chance(30) {
		order = nil
	}
	g.emitDHCP(c, l, kvs, order)
}

// boundary: option sets whose encoding ends around the 1024-byte scratch / the capacity; all but at most one
// option named in the order so that the map iteration order cannot change the outcome
func (g *gen) dhcpBoundary() {
	rng := g.rng
	target := rng.Pick(1019, 1020, 1021, 1022, 1023, 1024, 1025, 1026, 1030, 1100)
	c := rng.Pick(1522, 4096, 1266, 1265, 1264, 1263, 1300)
	if rng.Chance(30) { // capacity boundary instead of scratch boundary
		target = rng.Pick(50, 56, 57, 58, 59, 60, 100, 300)
		c = 241 + target + rng.Pick(-2, -1, 0, 0, 1, 2)
		if c < 300 {
			c = 300
		}
	}
	size := 3 // option 53
	var kvs []optKV
	k := 60
	for size < target && k < 250 {
		room := target - size - 2
		vl := 255
		if rng.Chance(10) {
			vl = 256 + rng.Intn(40) // byte(len) wraps
		}
		if room < vl {
			vl = room
		}
		if vl < 0 {
			break
		}
		kvs = append(kvs, optKV{byte(k), rng.Bytes(vl)})
		size += 2 + vl
		k++
	}
	var order []byte
	for i, kv := range kvs {
		if i > 0 {
			order = append(order, kv.k)
		}
	}
	order = append(order, 53)
	g.emitDHCP(c, g.lenFor(c), kvs, order)
}

func (g *gen) emitDHCP(c, l int, kvs []optKV, order []byte) {
	rng := g.rng
	chf, xf := "F", "F"
	var ch, xid []byte
	if rng.Chance(60) {
		chf = "T"
		ch = g.mac()
		if rng.Chance(8) {
			ch = rng.Bytes(rng.Intn(20))
		}
	}
	if rng.Chance(60) {
		xf = "T"
		xid = rng.Bytes(4)
		if rng.Chance(8) {
			xid = rng.Bytes(rng.Intn(7))
		}
	}
	ipOrNone := func() []byte {
		switch rng.Intn(8) {
		case 0:
			return nil
		case 1:
			return g.ip6()
		}
		return g.ip4()
	}
	a := []string{itoa(c), itoa(l), g.seed(), itoa(rng.Pick(1, 2, 2, 2, 0, 3, 255)), itoa(rng.Pick(1, 2, 3, 4, 5, 6, 7, 8, rng.Intn(256))),
		chf, lib.Hex(ch), lib.Hex(ipOrNone()), lib.Hex(ipOrNone()), xf, lib.Hex(xid), tf(rng.Bool()), optsTok(kvs), lib.Hex(order)}
	obs, wire := dhcpOnce(a)
	g.r.Case("dhcp4", append(a, lib.Hex(wire)), obs)
	poolAdd("dhcp4", append(append([]string{}, a...), lib.Hex(wire)), obs)
	g.r.Stat("class.dhcp4.nopts="+itoa(len(kvs)), 1)
}

func registerMore(r *lib.Run) {
	r.Register("ip6", runIP6)
	r.Register("ip6pl", rec("ip6pl", runIP6Pl))
	r.Register("frame6", rec("frame6", runFrame6))
	r.Register("arp", rec("arp", runARP))
	r.Register("echo", rec("echo", runEcho))
	r.Register("na", rec("na", runNA))
	r.Register("ns", rec("ns", runNS))
	r.Register("dnsq", rec("dnsq", runDNSQ))
	r.Register("dhcp4", runDHCP4)
}

func (g *gen) more(i int) {
	r, rng := g.r, g.rng
	// IPv6
	c := g.capFor(40)
	r.Do("ip6", itoa(c), itoa(g.lenFor(c)), g.seed(), itoa(rng.Intn(256)), lib.Hex(g.anyIP()), lib.Hex(g.anyIP()))
	c = g.capFor(40)
	pl := rng.Bytes(g.plenFor(c, 40))
	mode := g.mode()
	if rng.Chance(5) {
		mode = modeN
	}
	r.Do("ip6pl", itoa(c), itoa(g.lenFor(c)), g.seed(), itoa(rng.Intn(256)), lib.Hex(g.anyIP()), lib.Hex(g.anyIP()), itoa(rng.Intn(256)), mode, lib.Hex(pl))
	c = g.capFor(62)
	pl = rng.Bytes(g.plenFor(c, 62))
	r.Do("frame6", itoa(c), itoa(g.lenFor(c)), g.seed(), lib.Hex(g.mac()), lib.Hex(g.mac()), itoa(rng.Intn(256)),
		lib.Hex(g.anyIP()), lib.Hex(g.anyIP()), itoa(g.port()), itoa(g.port()), lib.Hex(pl))
	// ARP
	c = g.capFor(28)
	m1, m2 := g.mac(), g.mac()
	if rng.Chance(6) {
		m1 = rng.Bytes(rng.Intn(9))
	}
	if rng.Chance(6) {
		m2 = rng.Bytes(rng.Intn(9))
	}
	ipa := func() []byte {
		if rng.Chance(90) {
			return g.ip4()
		}
		return g.anyIP()
	}
	r.Do("arp", itoa(c), itoa(g.lenFor(c)), g.seed(), itoa(rng.Pick(1, 2, 1, 2, 0, 65535, rng.Intn(65536))), lib.Hex(m1), lib.Hex(ipa()), lib.Hex(m2), lib.Hex(ipa()))
	// ICMP echo
	c = g.capFor(8)
	pl = rng.Bytes(g.plenFor(c, 8))
	r.Do("echo", itoa(c), itoa(g.lenFor(c)), g.seed(), itoa(rng.Pick(0, 8, 128, 129, rng.Intn(256))), itoa(rng.Pick(0, 0, rng.Intn(256))),
		itoa(rng.Intn(65536)), itoa(rng.Intn(65536)), lib.Hex(pl))
	// NDP
	tm := g.mac()
	if rng.Chance(8) {
		tm = rng.Bytes(rng.Intn(10))
	}
	tip := g.ip6()
	if rng.Chance(10) {
		tip = g.anyIP()
	}
	r.Do("na", tf(rng.Bool()), tf(rng.Bool()), tf(rng.Bool()), lib.Hex(tip), lib.Hex(tm))
	r.Do("ns", lib.Hex(tip), lib.Hex(tm))
	// DNS query
	nm := g.name()
	if rng.Chance(8) {
		nm = rng.Bytes(rng.Intn(40))
	}
	if rng.Chance(3) {
		nm = rng.Bytes(rng.Pick(255, 256, 495, 496, 497, 498, 499, 500, 501, 600))
		for j := range nm {
			nm[j] = 1 + nm[j]%60
		}
	}
	r.Do("dnsq", itoa(rng.Intn(65536)), itoa(rng.Pick(0, 0x0100, 0x0010, rng.Intn(65536))), lib.Hex(nm), itoa(rng.Pick(1, 28, 12, 33, 255, 0x20, 0x21, rng.Intn(65536))))
	// DHCPv4
	g.dhcpCase()
	if i%4 == 0 {
		g.dhcpBoundary()
	}
}
