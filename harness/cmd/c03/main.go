// C03: encoders and decoders are mutually inverse at every layer.
//
// Every case calls the REAL encoder(s) of irai/packet into a buffer of a
// given capacity/length pre-filled with a poison ramp, and records
//   - what the call did to the buffer: result length, capacity and the
//     smallest window of the whole capacity that changed (so a write outside
//     the frame, or any write on an ErrPayloadTooBig path, is visible),
//   - what the library's own getters read back from the result.
//
// The Coq model (coq/Model/Encode*.v) must produce the identical line.  An
// independent mini-decoder written here (refdec.go) decodes the produced
// bytes and compares them with the supplied values (Go-side oracle, `viol`).
package main

import (
	"fmt"
	"io"
	"net"
	"net/netip"
	"strconv"
	"strings"

	"github.com/irai/packet"
	"github.com/irai/packet/fastlog"
	"pvharness/lib"
)

// ---------------------------------------------------------------- buffers

// ramp: poison of period 251 starting at seed%251 (Model/EncodeBase.ramp)
func ramp(seed uint64, n int) []byte {
	b := make([]byte, n)
	v := byte(seed % 251)
	for i := range b {
		b[i] = v
		if v == 250 {
			v = 0
		} else {
			v++
		}
	}
	return b
}

// mkbuf returns a slice of length l and capacity exactly c over poisoned storage, and a copy of the storage.
func mkbuf(c, l int, seed uint64) (buf []byte, full []byte, old []byte) {
	full = ramp(seed, c)
	old = append([]byte{}, full...)
	if c == 0 {
		return nil, full, old
	}
	return full[:l:c], full, old
}

// hull: smallest window outside of which old and cur agree: "-" or "off:hex"
func hull(old, cur []byte) string {
	i := 0
	for i < len(old) && old[i] == cur[i] {
		i++
	}
	if i == len(old) {
		return "-"
	}
	j := len(old)
	for j > i && old[j-1] == cur[j-1] {
		j--
	}
	return fmt.Sprintf("%d:%s", i, lib.Hex(cur[i:j]))
}

// sameArrayEnd: do two slices share the end of their backing array (child is a suffix-aligned sub-slice)
func sameArrayEnd(a, b []byte) bool {
	if cap(a) == 0 || cap(b) == 0 {
		return false
	}
	return &a[:cap(a)][cap(a)-1] == &b[:cap(b)][cap(b)-1]
}

// win: position of a sub-slice inside its parent: "off+len", "empty" when it has no capacity,
// "foreign" when it does not alias the parent.
func win(parent, child []byte) string {
	if cap(child) == 0 {
		return "empty"
	}
	if !sameArrayEnd(parent, child) {
		return "foreign"
	}
	return fmt.Sprintf("%d+%d", cap(parent)-cap(child), len(child))
}

// g runs a getter; a panic is the value "panic"
func g(f func() string) (s string) {
	defer func() {
		if e := recover(); e != nil {
			s = "panic"
		}
	}()
	return f()
}

func tf(b bool) string {
	if b {
		return "T"
	}
	return "F"
}
func itoa(i int) string { return strconv.Itoa(i) }
func atoi(s string) int {
	v, err := strconv.ParseUint(s, 10, 64)
	if err != nil {
		panic("bad decimal " + s)
	}
	return int(v)
}

// encRes renders the outcome of an encoder call on the buffer
func encOK(res []byte, full, old []byte) string {
	return fmt.Sprintf("ok %d %d %s", len(res), cap(res), hull(old, full))
}
func encErr(err error, full, old []byte) string {
	e := "EOther"
	switch err {
	case packet.ErrPayloadTooBig:
		e = "EPayloadTooBig"
	case packet.ErrFrameLen:
		e = "EFrameLen"
	case packet.ErrParseFrame:
		e = "EParseFrame"
	}
	return "err:" + e + " " + hull(old, full)
}

// addr: 0 bytes = zero netip.Addr, 4 = v4, 16 = v6
func addr(b []byte) netip.Addr {
	switch len(b) {
	case 4:
		return netip.AddrFrom4(*(*[4]byte)(b))
	case 16:
		return netip.AddrFrom16(*(*[16]byte)(b))
	}
	return netip.Addr{}
}

// exact-capacity copy (so that cap(MAC) == len(MAC), as the model assumes)
func exact(b []byte) []byte {
	if len(b) == 0 {
		return nil
	}
	c := make([]byte, len(b))
	copy(c, b)
	return c[:len(b):len(b)]
}

// ---------------------------------------------------------------- read-back through the library's getters

func rbEther(e packet.Ether) string {
	return fmt.Sprintf("d=%s s=%s t=%s hl=%s pl=%s",
		g(func() string { return lib.Hex(e.Dst()) }),
		g(func() string { return lib.Hex(e.Src()) }),
		g(func() string { return itoa(int(e.EtherType())) }),
		g(func() string { return itoa(e.HeaderLen()) }),
		g(func() string { return win(e, e.Payload()) }))
}

func rbIP4(p packet.IP4) string {
	cv := "short"
	if len(p) >= 20 {
		cv = tf(lib.RFC1071(p[:20]) == 0)
	}
	return fmt.Sprintf("v=%s ihl=%s tos=%s tl=%s id=%s fl=%s ttl=%s pr=%s s=%s d=%s ok=%s cv=%s pl=%s",
		g(func() string { return itoa(p.Version()) }),
		g(func() string { return itoa(p.IHL()) }),
		g(func() string { return itoa(p.TOS()) }),
		g(func() string { return itoa(p.TotalLen()) }),
		g(func() string { return itoa(p.ID()) }),
		g(func() string { return itoa(int(p.Flags())) }),
		g(func() string { return itoa(p.TTL()) }),
		g(func() string { return itoa(int(p.Protocol())) }),
		g(func() string { return lib.Hex(p.Src().AsSlice()) }),
		g(func() string { return lib.Hex(p.Dst().AsSlice()) }),
		g(func() string { return tf(p.IsValid() == nil) }),
		cv,
		g(func() string { return win(p, p.Payload()) }))
}

func rbUDP(p packet.UDP) string {
	return fmt.Sprintf("sp=%s dp=%s ln=%s ck=%s ok=%s pl=%s",
		g(func() string { return itoa(int(p.SrcPort())) }),
		g(func() string { return itoa(int(p.DstPort())) }),
		g(func() string { return itoa(int(p.Len())) }),
		g(func() string { return itoa(int(p.Checksum())) }),
		tf(p.IsValid() == nil),
		g(func() string { return win(p, p.Payload()) }))
}

const modeS, modeA = "0a", "0b"

var theRun *lib.Run

var violCount = map[string]int{}

// viol records a Go-side oracle violation (at most 3 per key per run; the rest is counted)
func viol(key, desc string, kind string, a []string) {
	sharedMu.Lock()
	violCount[key]++
	n := violCount[key]
	sharedMu.Unlock()
	theRun.Stat("oracle."+key, 1)
	if n <= 3 {
		theRun.Viol(key, desc+concTag(), concPrefix()+kind+" "+strings.Join(a, " "))
	}
}

// ---------------------------------------------------------------- runners

func runEther(a []string) string {
	c, l, seed, ht := atoi(a[0]), atoi(a[1]), uint64(atoi(a[2])), uint16(atoi(a[3]))
	src, dst := marg(unhex(a[4])), marg(unhex(a[5]))
	buf, full, old := mkbuf(c, l, seed)
	e := packet.EncodeEther(buf, ht, net.HardwareAddr(src), net.HardwareAddr(dst))
	if c >= 14 && len(src) == 6 && len(dst) == 6 {
		if d, ok := refEther(e); !ok || !eq(d.dst, dst) || !eq(d.src, src) || d.etype != ht {
			viol("ether-rt", "EncodeEther does not decode to the supplied values", "ether", a)
		}
	}
	return encOK(e, full, old) + " " + rbEther(e)
}

func runEthPl(a []string) string {
	c, l, seed, ht := atoi(a[0]), atoi(a[1]), uint64(atoi(a[2])), uint16(atoi(a[3]))
	src, dst := marg(unhex(a[4])), marg(unhex(a[5]))
	mode, payload, extra := a[6], sarg(unhex(a[7])), atoi(a[8])
	buf, full, old := mkbuf(c, l, seed)
	e := packet.EncodeEther(buf, ht, net.HardwareAddr(src), net.HardwareAddr(dst))
	var out packet.Ether
	var err error
	want := 14 + len(payload)
	if mode == modeS {
		hl := e.HeaderLen()
		if hl+len(payload) <= c {
			copy(full[hl:], payload) // the caller writes the payload in place
		}
		out, err = e.SetPayload(payload)
	} else {
		pl := payload
		if roArena == nil {
			pl = make([]byte, len(payload), len(payload)+extra)
			copy(pl, payload)
		}
		out, err = e.AppendPayload(pl)
		if want < 60 {
			want = 60
		}
	}
	if err != nil {
		return encErr(err, full, old)
	}
	if e.HeaderLen() == 14 && 14+len(payload) <= c && c >= 60 && len(src) == 6 && len(dst) == 6 {
		d, ok := refEther(out)
		if !ok || !eq(d.dst, dst) || !eq(d.src, src) || d.etype != ht || len(d.payload) != want-14 ||
			!eq(d.payload[:len(payload)], payload) || !allZero(d.payload[len(payload):]) {
			viol("ether-rt", "Ether payload does not decode to the supplied values", "ethpl", a)
		}
	}
	return encOK(out, full, old) + " " + rbEther(out)
}

func runIP4(a []string) string {
	c, l, seed, ttl := atoi(a[0]), atoi(a[1]), uint64(atoi(a[2])), byte(atoi(a[3]))
	src, dst := addr(unhex(a[4])), addr(unhex(a[5]))
	buf, full, old := mkbuf(c, l, seed)
	ip := packet.EncodeIP4(buf, ttl, src, dst)
	return encOK(ip, full, old) + " " + rbIP4(ip)
}

func v4orZero(b []byte) []byte {
	if len(b) == 4 {
		return b
	}
	return []byte{0, 0, 0, 0}
}

func runIP4Pl(a []string) string {
	c, l, seed, ttl := atoi(a[0]), atoi(a[1]), uint64(atoi(a[2])), byte(atoi(a[3]))
	srcb, dstb := unhex(a[4]), unhex(a[5])
	proto, mode, payload := byte(atoi(a[6])), a[7], sarg(unhex(a[8]))
	buf, full, old := mkbuf(c, l, seed)
	ip := packet.EncodeIP4(buf, ttl, addr(srcb), addr(dstb))
	var out packet.IP4
	var err error
	if mode == modeS {
		if 20+len(payload) <= c {
			copy(full[20:], payload)
		}
		out = ip.SetPayload(payload, proto)
	} else {
		out, err = ip.AppendPayload(payload, proto)
	}
	if err != nil {
		return encErr(err, full, old)
	}
	if l >= 10 && 20+len(payload) <= c && 20+len(payload) <= 1508 {
		d, ok := refIP4(out)
		if !ok || d.tos != 0xc0 || d.totlen != 20+len(payload) || d.id != 0 || d.flagsfrag != 0 || d.ttl != ttl ||
			d.proto != proto || !eq(d.src, v4orZero(srcb)) || !eq(d.dst, v4orZero(dstb)) || len(d.options) != 0 || !eq(d.payload, payload) {
			viol("ip4-rt", "IPv4 packet does not decode to the supplied values", "ip4pl", a)
		}
	}
	return encOK(out, full, old) + " " + rbIP4(out)
}

func runUDP(a []string) string {
	c, l, seed := atoi(a[0]), atoi(a[1]), uint64(atoi(a[2]))
	sp, dp := uint16(atoi(a[3])), uint16(atoi(a[4]))
	buf, full, old := mkbuf(c, l, seed)
	u := packet.EncodeUDP(buf, sp, dp)
	return encOK(u, full, old) + " " + rbUDP(u)
}

func runUDPPl(a []string) string {
	c, l, seed := atoi(a[0]), atoi(a[1]), uint64(atoi(a[2]))
	sp, dp := uint16(atoi(a[3])), uint16(atoi(a[4]))
	mode, payload := a[5], sarg(unhex(a[6]))
	buf, full, old := mkbuf(c, l, seed)
	u := packet.EncodeUDP(buf, sp, dp)
	var out packet.UDP
	var err error
	if mode == modeS {
		if 8+len(payload) <= c {
			copy(full[8:], payload)
		}
		out = u.SetPayload(payload)
	} else {
		out, err = u.AppendPayload(payload)
	}
	if err != nil {
		return encErr(err, full, old)
	}
	if 8+len(payload) <= c && 8+len(payload) <= 1488 {
		d, ok := refUDP(out)
		if !ok || d.sport != sp || d.dport != dp || d.length != 8+len(payload) || d.cksum != 0 || !eq(d.payload, payload) {
			viol("udp-rt", "UDP datagram does not decode to the supplied values", "udppl", a)
		}
	}
	return encOK(out, full, old) + " " + rbUDP(out)
}

var session *packet.Session

func parseClass(frame []byte) string {
	return g(func() string {
		sharedMu.Lock() // Session.Parse is not an encoder: serialised while the concurrent kind runs
		defer sharedMu.Unlock()
		if session == nil {
			session, _ = lib.NewSession()
		}
		f, err := session.Parse(frame)
		return fmt.Sprintf("%d/%s", int(f.PayloadID), tf(err != nil))
	})
}

// the composition used by the library's own senders
func runFrame4(a []string) string {
	c, l, seed := atoi(a[0]), atoi(a[1]), uint64(atoi(a[2]))
	smac, dmac := marg(unhex(a[3])), marg(unhex(a[4]))
	ttl := byte(atoi(a[5]))
	sipb, dipb := unhex(a[6]), unhex(a[7])
	sp, dp := uint16(atoi(a[8])), uint16(atoi(a[9]))
	data := sarg(unhex(a[10]))
	buf, full, old := mkbuf(c, l, seed)
	ether := packet.EncodeEther(buf, 0x0800, net.HardwareAddr(smac), net.HardwareAddr(dmac))
	ip4 := packet.EncodeIP4(ether.Payload(), ttl, addr(sipb), addr(dipb))
	udp := packet.EncodeUDP(ip4.Payload(), sp, dp)
	udp, err := udp.AppendPayload(data)
	if err != nil {
		return encErr(err, full, old)
	}
	ip4 = ip4.SetPayload(udp, 17)
	ether, err = ether.SetPayload(ip4)
	if err != nil {
		return encErr(err, full, old)
	}
	dl := len(data)
	if 42+dl <= c && 42+dl <= 1522 && len(smac) == 6 && len(dmac) == 6 && len(sipb) == 4 && len(dipb) == 4 && smac[0]&1 == 0 {
		bad := ""
		e, ok := refEther(ether)
		if !ok || !eq(e.dst, dmac) || !eq(e.src, smac) || e.etype != 0x0800 || len(e.payload) != 28+dl {
			bad = "ether"
		} else if i, ok := refIP4(e.payload); !ok || i.ttl != ttl || i.proto != 17 || !eq(i.src, sipb) || !eq(i.dst, dipb) || i.totlen != 28+dl {
			bad = "ip4"
		} else if u, ok := refUDP(i.payload); !ok || u.sport != sp || u.dport != dp || u.length != 8+dl || !eq(u.payload, data) {
			bad = "udp"
		}
		if bad != "" {
			viol("frame4-rt", "composed frame does not decode to the supplied values at layer "+bad, "frame4", a)
		}
	}
	ipv := g(func() string { return rbIP4(packet.IP4(ether.Payload())) })
	udv := g(func() string { return rbUDP(packet.UDP(packet.IP4(ether.Payload()).Payload())) })
	return encOK(ether, full, old) + " " + rbEther(ether) + " | " + ipv + " | " + udv + " | " + parseClass(ether)
}

// ---------------------------------------------------------------- generators

type gen struct {
	r   *lib.Run
	rng *lib.Rand
}

func (g *gen) mac() []byte {
	m := g.rng.Bytes(6)
	if g.rng.Chance(85) {
		m[0] &^= 1
	}
	return m
}
func (g *gen) ip4() []byte { return g.rng.Bytes(4) }

// capacities: min, min+1, EthMaxSize, 4096, plus below-min and random ones
func (g *gen) capFor(min int) int {
	switch g.rng.Intn(20) {
	case 0, 1, 2, 3:
		return min
	case 4, 5, 6:
		return min + 1
	case 7, 8, 9, 10, 11, 12:
		return packet.EthMaxSize
	case 13:
		return 4096
	case 14:
		if min > 0 {
			return min - 1
		}
		return 0
	case 15:
		return g.rng.Intn(min + 1)
	case 16:
		return 60 + g.rng.Intn(8)
	default:
		return min + g.rng.Intn(200)
	}
}
func (g *gen) lenFor(c int) int {
	switch g.rng.Intn(6) {
	case 0:
		return 0
	case 1, 2, 3:
		return c
	default:
		return g.rng.Intn(c + 1)
	}
}

// payload length around what still fits after hdr bytes in capacity c
func (g *gen) plenFor(c, hdr int) int {
	room := c - hdr
	if room < 0 {
		room = 0
	}
	switch g.rng.Intn(12) {
	case 0:
		return 0
	case 1:
		return 1
	case 2:
		return room
	case 3:
		return room + 1
	case 4:
		if room > 0 {
			return room - 1
		}
		return 0
	case 5:
		return g.rng.Pick(45, 46, 47, 17, 18, 19)
	case 6:
		return g.rng.Intn(1501)
	default:
		return g.rng.Intn(64)
	}
}
func (g *gen) mode() string {
	if g.rng.Bool() {
		return modeS
	}
	return modeA
}
func (g *gen) port() int {
	if g.rng.Chance(60) {
		return g.rng.Pick(443, 67, 68, 546, 547, 53, 5353, 5355, 123, 1900, 3702, 137, 138, 32412, 32414, 10001, 0, 65535, 1024)
	}
	return g.rng.Intn(65536)
}
func (g *gen) etype() int {
	if g.rng.Chance(70) {
		return g.rng.Pick(0x0800, 0x86dd, 0x0806, 0x8100, 0x88a8, 0x88cc, 0, 1500, 1536, 0xffff)
	}
	return g.rng.Intn(65536)
}
func (g *gen) seed() string { return itoa(g.rng.Intn(251)) }

func main() {
	r := lib.Init()
	defer r.Close()
	theRun = r
	fastlog.DefaultIOWriter = io.Discard // Session.Parse logs every online transition
	packet.Logger.SetLevel(fastlog.LevelError)
	rng := r.Rand()
	r.Register("ether", rec("ether", runEther))
	r.Register("ethpl", rec("ethpl", runEthPl))
	r.Register("ip4", runIP4)
	r.Register("ip4pl", rec("ip4pl", runIP4Pl))
	r.Register("udp", runUDP)
	r.Register("udppl", rec("udppl", runUDPPl))
	r.Register("frame4", rec("frame4", runFrame4))
	registerMore(r)
	registerPad(r)
	registerReuse(r)
	r.Register("concrace", runConcRace)
	r.Register("ro", runRO)
	r.Register("ethalias", runEthAlias)
	if r.Replayed() {
		return
	}
	runConsts(r) // constants extracted from the source vs the model's
	g := &gen{r, rng}
	n := 1500
	if r.Thorough() {
		n = 30000
	}
	for i := 0; i < n; i++ {
		// EncodeEther alone
		c := g.capFor(14)
		src, dst := g.mac(), g.mac()
		if rng.Chance(5) {
			src = rng.Bytes(rng.Intn(9))
		}
		if rng.Chance(5) {
			dst = rng.Bytes(rng.Intn(9))
		}
		r.Do("ether", itoa(c), itoa(g.lenFor(c)), g.seed(), itoa(g.etype()), lib.Hex(src), lib.Hex(dst))

		// EncodeEther + SetPayload/AppendPayload
		c = g.capFor(60)
		pl := rng.Bytes(g.plenFor(c, 14))
		extra := 0
		if rng.Chance(25) {
			extra = rng.Pick(1, 2, 100, 2000, 4096)
		}
		et := 0x0800
		if rng.Chance(15) {
			et = g.etype()
		}
		r.Do("ethpl", itoa(c), itoa(g.lenFor(c)), g.seed(), itoa(et), lib.Hex(g.mac()), lib.Hex(g.mac()), g.mode(), lib.Hex(pl), itoa(extra))

		// EncodeIP4 alone, then with payload
		c = g.capFor(20)
		a4 := func() []byte {
			switch rng.Intn(12) {
			case 0:
				return nil
			case 1:
				return rng.Bytes(16)
			}
			return g.ip4()
		}
		r.Do("ip4", itoa(c), itoa(g.lenFor(c)), g.seed(), itoa(rng.Intn(256)), lib.Hex(a4()), lib.Hex(a4()))
		c = g.capFor(20)
		l := c
		if rng.Chance(30) {
			l = g.lenFor(c)
		}
		pl = rng.Bytes(g.plenFor(c, 20))
		r.Do("ip4pl", itoa(c), itoa(l), g.seed(), itoa(rng.Intn(256)), lib.Hex(a4()), lib.Hex(a4()), itoa(rng.Intn(256)), g.mode(), lib.Hex(pl))

		// EncodeUDP alone, then with payload
		c = g.capFor(8)
		r.Do("udp", itoa(c), itoa(g.lenFor(c)), g.seed(), itoa(g.port()), itoa(g.port()))
		c = g.capFor(8)
		pl = rng.Bytes(g.plenFor(c, 8))
		r.Do("udppl", itoa(c), itoa(g.lenFor(c)), g.seed(), itoa(g.port()), itoa(g.port()), g.mode(), lib.Hex(pl))

		// composed frame
		c = g.capFor(42)
		pl = rng.Bytes(g.plenFor(c, 42))
		r.Do("frame4", itoa(c), itoa(g.lenFor(c)), g.seed(), lib.Hex(g.mac()), lib.Hex(g.mac()), itoa(rng.Intn(256)),
			lib.Hex(a4()), lib.Hex(a4()), itoa(g.port()), itoa(g.port()), lib.Hex(pl))
		g.more(i)
		g.padCase(i % 65) // every inner payload size 0..64, repeatedly
		g.reuseCases()
		if i%8 == 0 {
			g.padCase(g.plenFor(packet.EthMaxSize, 42))
		}
	}
	g.aliasCases()
	g.wideCases()
	runROPhase(r)
	runConc(r, 8)
	if r.Thorough() {
		raceRun(r)
	}
	r.Sample("frame4 64 0 7 001122334455 665544332211 64 c0a80001 c0a80002 68 67 aabbcc => 45-byte frame, DHCP4 class 10")
}
