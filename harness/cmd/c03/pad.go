// Small IPv4 packets (UDP, ICMP echo) built in their own exact-size buffer and finished with
// Ether.AppendPayload, which pads the frame to the 60-byte minimum.  The Ethernet payload then
// carries bytes beyond the inner length fields: every inner layer is read back through the
// library's own Payload() getters (Ether.Payload -> IP4.Payload -> UDP.Payload / EchoData) and
// must yield exactly the supplied payload, with len(view) equal to the layer's own length field.
package main

import (
	"fmt"
	"net"

	"github.com/irai/packet"
	"pvharness/lib"
)

func vl(f func() []byte) string {
	return "vl=" + g(func() string { return itoa(len(f())) })
}

func padObs(ether packet.Ether, inner func(b []byte) string, data func(b []byte) []byte) string {
	ipv := func() []byte { return ether.Payload() }
	inv := func() []byte { return packet.IP4(ether.Payload()).Payload() }
	return rbEther(ether) + " | " + vl(ipv) + " " + g(func() string { return rbIP4(packet.IP4(ipv())) }) +
		" | " + vl(inv) + " " + g(func() string { return inner(inv()) }) +
		" | data=" + g(func() string { return lib.Hex(data(inv())) }) + " | " + parseClass(ether)
}

func padOracle(kind string, a []string, ether packet.Ether, c int, smac, dmac, sipb, dipb []byte, ttl, proto byte, innerLen int, check func(inner []byte) bool) {
	if !(c >= 60 && 34+innerLen <= c && 34+innerLen <= 1522 && len(smac) == 6 && len(dmac) == 6 && len(sipb) == 4 && len(dipb) == 4 && smac[0]&1 == 0) {
		return
	}
	bad := ""
	want := 20 + innerLen
	if want < 46 {
		want = 46
	}
	e, ok := refEther(ether)
	if !ok || !eq(e.dst, dmac) || !eq(e.src, smac) || e.etype != 0x0800 || len(e.payload) != want || !allZero(e.payload[20+innerLen:]) {
		bad = "ether"
	} else if i, ok := refIP4(e.payload); !ok || i.ttl != ttl || i.proto != proto || !eq(i.src, sipb) || !eq(i.dst, dipb) || i.totlen != 20+innerLen || len(i.payload) != innerLen {
		bad = "ip4"
	} else if !check(i.payload) {
		bad = "inner"
	}
	if bad != "" {
		viol("pad4-rt", "padded frame does not decode to the supplied values at layer "+bad, kind, a)
	}
}

func runPad4U(a []string) string {
	c, l, seed := atoi(a[0]), atoi(a[1]), uint64(atoi(a[2]))
	smac, dmac := marg(unhex(a[3])), marg(unhex(a[4]))
	ttl := byte(atoi(a[5]))
	sipb, dipb := unhex(a[6]), unhex(a[7])
	sp, dp := uint16(atoi(a[8])), uint16(atoi(a[9]))
	data := sarg(unhex(a[10]))
	buf, full, old := mkbuf(c, l, seed)
	ether := packet.EncodeEther(buf, 0x0800, net.HardwareAddr(smac), net.HardwareAddr(dmac))
	ipbuf := make([]byte, 28+len(data))
	ip4 := packet.EncodeIP4(ipbuf, ttl, addr(sipb), addr(dipb))
	udp := packet.EncodeUDP(ip4.Payload(), sp, dp)
	udp, err := udp.AppendPayload(data)
	if err != nil {
		return encErr(err, full, old)
	}
	ip4 = ip4.SetPayload(udp, 17)
	ether, err = ether.AppendPayload(ip4)
	if err != nil {
		return encErr(err, full, old)
	}
	padOracle("pad4u", a, ether, c, smac, dmac, sipb, dipb, ttl, 17, 8+len(data), func(in []byte) bool {
		u, ok := refUDP(in)
		return ok && u.sport == sp && u.dport == dp && u.length == 8+len(data) && eq(u.payload, data)
	})
	return encOK(ether, full, old) + " " + padObs(ether,
		func(b []byte) string { return rbUDP(packet.UDP(b)) },
		func(b []byte) []byte { return packet.UDP(b).Payload() })
}

func runPad4E(a []string) string {
	c, l, seed := atoi(a[0]), atoi(a[1]), uint64(atoi(a[2]))
	smac, dmac := marg(unhex(a[3])), marg(unhex(a[4]))
	ttl := byte(atoi(a[5]))
	sipb, dipb := unhex(a[6]), unhex(a[7])
	t, code, id, seq := byte(atoi(a[8])), byte(atoi(a[9])), uint16(atoi(a[10])), uint16(atoi(a[11]))
	data := sarg(unhex(a[12]))
	buf, full, old := mkbuf(c, l, seed)
	ether := packet.EncodeEther(buf, 0x0800, net.HardwareAddr(smac), net.HardwareAddr(dmac))
	ipbuf := make([]byte, 28+len(data))
	ip4 := packet.EncodeIP4(ipbuf, ttl, addr(sipb), addr(dipb))
	echo := packet.EncodeICMPEcho(ip4.Payload(), t, code, id, seq, data)
	ip4 = ip4.SetPayload(echo, 1)
	ether, err := ether.AppendPayload(ip4)
	if err != nil {
		return encErr(err, full, old)
	}
	padOracle("pad4e", a, ether, c, smac, dmac, sipb, dipb, ttl, 1, 8+len(data), func(in []byte) bool {
		e, ok := refEcho(in)
		return ok && e.typ == t && e.code == code && e.id == id && e.seq == seq && eq(e.data, data)
	})
	return encOK(ether, full, old) + " " + padObs(ether,
		func(b []byte) string { return rbEcho(packet.ICMPEcho(b)) },
		func(b []byte) []byte { return packet.ICMPEcho(b).EchoData() })
}

func registerPad(r *lib.Run) {
	r.Register("pad4u", rec("pad4u", runPad4U))
	r.Register("pad4e", rec("pad4e", runPad4E))
}

func (g *gen) padCase(dl int) {
	r, rng := g.r, g.rng
	c := rng.Pick(60, 61, 64, packet.EthMaxSize, packet.EthMaxSize, 4096, 59, 42+dl, 43+dl, 41+dl)
	if c < 14 {
		c = 14
	}
	ip := func() []byte {
		if rng.Chance(95) {
			return g.ip4()
		}
		return g.anyIP()
	}
	r.Do("pad4u", itoa(c), itoa(g.lenFor(c)), g.seed(), lib.Hex(g.mac()), lib.Hex(g.mac()), itoa(rng.Intn(256)),
		lib.Hex(ip()), lib.Hex(ip()), itoa(g.port()), itoa(g.port()), lib.Hex(rng.Bytes(dl)))
	r.Do("pad4e", itoa(c), itoa(g.lenFor(c)), g.seed(), lib.Hex(g.mac()), lib.Hex(g.mac()), itoa(rng.Intn(256)),
		lib.Hex(ip()), lib.Hex(ip()), itoa(rng.Pick(0, 8, 8, 0, rng.Intn(256))), itoa(rng.Pick(0, 0, rng.Intn(256))),
		itoa(rng.Intn(65536)), itoa(rng.Intn(65536)), lib.Hex(rng.Bytes(dl)))
	r.Stat(fmt.Sprintf("class.pad4.dl<=%d", ((dl+15)/16)*16), 1)
}
