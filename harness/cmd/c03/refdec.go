// Independent mini-decoders (no use of irai/packet): plain byte arithmetic
// written from the RFCs.  They are the Go-side oracle of C03: the bytes an
// encoder produced must decode to the supplied values.
package main

import "bytes"

func eq(a, b []byte) bool { return bytes.Equal(a, b) }
func allZero(b []byte) bool {
	for _, v := range b {
		if v != 0 {
			return false
		}
	}
	return true
}
func u16(b []byte, i int) int { return int(b[i])<<8 | int(b[i+1]) }

// one's complement sum over big-endian 16-bit words must be 0xffff
func sumsToFFFF(b []byte) bool {
	var s uint32
	for i := 0; i+1 < len(b); i += 2 {
		s += uint32(b[i])<<8 | uint32(b[i+1])
	}
	if len(b)%2 == 1 {
		s += uint32(b[len(b)-1]) << 8
	}
	for s>>16 != 0 {
		s = s&0xffff + s>>16
	}
	return s == 0xffff
}

type dEther struct {
	dst, src []byte
	etype    uint16
	payload  []byte
}

func refEther(f []byte) (d dEther, ok bool) {
	if len(f) < 14 {
		return d, false
	}
	return dEther{dst: f[0:6], src: f[6:12], etype: uint16(u16(f, 12)), payload: f[14:]}, true
}

type dIP4 struct {
	tos       byte
	totlen    int
	id        int
	flagsfrag int
	ttl       byte
	proto     byte
	src, dst  []byte
	options   []byte
	payload   []byte
}

func refIP4(f []byte) (d dIP4, ok bool) {
	if len(f) < 20 || f[0]>>4 != 4 {
		return d, false
	}
	hl := int(f[0]&0x0f) * 4
	tl := u16(f, 2)
	if hl < 20 || tl < hl || tl > len(f) || !sumsToFFFF(f[:hl]) {
		return d, false
	}
	return dIP4{tos: f[1], totlen: tl, id: u16(f, 4), flagsfrag: u16(f, 6), ttl: f[8], proto: f[9],
		src: f[12:16], dst: f[16:20], options: f[20:hl], payload: f[hl:tl]}, true
}

type dUDP struct {
	sport, dport uint16
	length       int
	cksum        int
	payload      []byte
}

func refUDP(f []byte) (d dUDP, ok bool) {
	if len(f) < 8 {
		return d, false
	}
	n := u16(f, 4)
	if n < 8 || n > len(f) {
		return d, false
	}
	return dUDP{sport: uint16(u16(f, 0)), dport: uint16(u16(f, 2)), length: n, cksum: u16(f, 6), payload: f[8:n]}, true
}

type dIP6 struct {
	class    int
	flow     int
	plen     int
	next     byte
	hop      byte
	src, dst []byte
	payload  []byte
}

func refIP6(f []byte) (d dIP6, ok bool) {
	if len(f) < 40 || f[0]>>4 != 6 {
		return d, false
	}
	pl := u16(f, 4)
	if 40+pl > len(f) {
		return d, false
	}
	return dIP6{class: int(f[0]&0x0f)<<4 | int(f[1]>>4), flow: int(f[1]&0x0f)<<16 | int(f[2])<<8 | int(f[3]),
		plen: pl, next: f[6], hop: f[7], src: f[8:24], dst: f[24:40], payload: f[40 : 40+pl]}, true
}

type dARP struct {
	op                 uint16
	sha, spa, tha, tpa []byte
}

func refARP(f []byte) (d dARP, ok bool) {
	if len(f) < 28 || u16(f, 0) != 1 || u16(f, 2) != 0x0800 || f[4] != 6 || f[5] != 4 {
		return d, false
	}
	return dARP{op: uint16(u16(f, 6)), sha: f[8:14], spa: f[14:18], tha: f[18:24], tpa: f[24:28]}, true
}

type dEcho struct {
	typ, code byte
	cksum     int
	id, seq   uint16
	data      []byte
}

func refEcho(f []byte) (d dEcho, ok bool) {
	if len(f) < 8 {
		return d, false
	}
	return dEcho{typ: f[0], code: f[1], cksum: u16(f, 2), id: uint16(u16(f, 4)), seq: uint16(u16(f, 6)), data: f[8:]}, true
}

type dND struct {
	typ, code, flags byte
	target           []byte
	opts             map[byte][]byte // first option of each type, body without type/length
}

// RFC 4861: NS/NA = 4 bytes ICMPv6 header, 4 bytes flags/reserved, 16 bytes target, options (type, len*8)
func refND(f []byte) (d dND, ok bool) {
	if len(f) < 24 {
		return d, false
	}
	d = dND{typ: f[0], code: f[1], flags: f[4], target: f[8:24], opts: map[byte][]byte{}}
	o := f[24:]
	for len(o) > 0 {
		if len(o) < 2 || o[1] == 0 || int(o[1])*8 > len(o) {
			return d, false
		}
		n := int(o[1]) * 8
		if _, dup := d.opts[o[0]]; !dup {
			d.opts[o[0]] = o[2:n]
		}
		o = o[n:]
	}
	return d, true
}

type dDNSQ struct {
	id, flags, qd, an, ns, ar uint16
	name                      []byte // wire form including the root label
	qtype, qclass             uint16
	trailing                  int
}

// RFC 1035 4.1: header, one question with an uncompressed name
func refDNSQuery(f []byte) (d dDNSQ, ok bool) {
	if len(f) < 12 {
		return d, false
	}
	i := 12
	for {
		if i >= len(f) {
			return d, false
		}
		l := int(f[i])
		if l == 0 {
			i++
			break
		}
		if l > 63 || i+1+l > len(f) {
			return d, false
		}
		i += 1 + l
	}
	if i+4 > len(f) {
		return d, false
	}
	return dDNSQ{id: uint16(u16(f, 0)), flags: uint16(u16(f, 2)), qd: uint16(u16(f, 4)), an: uint16(u16(f, 6)),
		ns: uint16(u16(f, 8)), ar: uint16(u16(f, 10)), name: f[12:i], qtype: uint16(u16(f, i)), qclass: uint16(u16(f, i+2)),
		trailing: len(f) - i - 4}, true
}

type dOpt struct {
	k byte
	v []byte
}
type dDHCP struct {
	op, htype, hlen, hops          byte
	xid                            []byte
	secs, flags                    int
	ciaddr, yiaddr, siaddr, giaddr []byte
	chaddr, sname, file            []byte
	opts                           []dOpt // wire order
	pad                            []byte // after End
}

// RFC 2131 fixed format + magic cookie, RFC 2132 options (Pad, End, code/len/value); End is required
func refDHCP(f []byte) (d dDHCP, ok bool) {
	if len(f) < 241 || !eq(f[236:240], []byte{99, 130, 83, 99}) {
		return d, false
	}
	d = dDHCP{op: f[0], htype: f[1], hlen: f[2], hops: f[3], xid: f[4:8], secs: u16(f, 8), flags: u16(f, 10),
		ciaddr: f[12:16], yiaddr: f[16:20], siaddr: f[20:24], giaddr: f[24:28], chaddr: f[28:44], sname: f[44:108], file: f[108:236]}
	o := f[240:]
	for {
		if len(o) == 0 {
			return d, false
		}
		if o[0] == 255 {
			d.pad = o[1:]
			return d, true
		}
		if o[0] == 0 {
			o = o[1:]
			continue
		}
		if len(o) < 2 || len(o) < 2+int(o[1]) {
			return d, false
		}
		d.opts = append(d.opts, dOpt{o[0], o[2 : 2+int(o[1])]})
		o = o[2+int(o[1]):]
	}
}
