// Independent mini-decoders (no use of irai/packet): plain byte arithmetic
// written from the RFCs.  They are the Go-side oracle of C03: the bytes an
// encoder produced must decode to the supplied values.
package main

import "bytes"

func eq(a, b []byte) bool { return bytes.Equal(a, b) }
func allZero(b []byte) bool {
	for _, v := range b {
		if v != 0 {
			return false
		}
	}
	return true
}
func u16(b []byte, i int) int { return int(b[i])<<8 | int(b[i+1]) }

// one's complement sum over big-endian 16-bit words must be 0xffff
func sumsToFFFF(b []byte) bool {
	var s uint32
	for i := 0; i+1 < len(b); i += 2 {
		s += uint32(b[i])<<8 | uint32(b[i+1])
	}
	if len(b)%2 == 1 {
		s += uint32(b[len(b)-1]) << 8
	}
	for s>>16 != 0 {
		s = s&0xffff + s>>16
	}
	return s == 0xffff
}

type dEther struct {
	dst, src []byte
	etype    uint16
	payload  []byte
}

func refEther(f []byte) (d dEther, ok bool) {
	if len(f) < 14 {
		return d, false
	}
	return dEther{dst: f[0:6], src: f[6:12], etype: uint16(u16(f, 12)), payload: f[14:]}, true
}

type dIP4 struct {
	tos       byte
	totlen    int
	id        int
	flagsfrag int
	ttl       byte
	proto     byte
	src, dst  []byte
	options   []byte
	payload   []byte
}

func refIP4(f []byte) (d dIP4, ok bool) {
	if len(f) < 20 || f[0]>>4 != 4 {
		return d, false
	}
	hl := int(f[0]&0x0f) * 4
	tl := u16(f, 2)
	if hl < 20 || tl < hl || tl > len(f) || !sumsToFFFF(f[:hl]) {
		return d, false
	}
	return dIP4{tos: f[1], totlen: tl, id: u16(f, 4), flagsfrag: u16(f, 6), ttl: f[8], proto: f[9],
		src: f[12:16], dst: f[16:20], options: f[20:hl], payload: f[hl:tl]}, true
}

type dUDP struct {
	sport, dport uint16
	length       int
	cksum        int
	payload      []byte
}

func refUDP(f []byte) (d dUDP, ok bool) {
	if len(f) < 8 {
		return d, false
	}
	n := u16(f, 4)
	if n < 8 || n > len(f) {
		return d, false
	}
	return dUDP{sport: uint16(u16(f, 0)), dport: uint16(u16(f, 2)), length: n, cksum: u16(f, 6), payload: f[8:n]}, true
}
