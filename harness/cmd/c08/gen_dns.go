package main

// DNS wire-format builders (independent of the library and of dnsmessage) and
// the generators for the mDNS / NBNS processors.

import (
	"pvharness/lib"
)

func be(v int) []byte { return []byte{byte(v >> 8), byte(v)} }

func dnsName(labels ...string) []byte {
	var b []byte
	for _, l := range labels {
		b = append(b, byte(len(l)))
		b = append(b, l...)
	}
	return append(b, 0)
}

type rr struct {
	name  []byte
	typ   int
	class int
	rdata []byte
	rdlen int // -1: actual
}

func (r rr) bytes() []byte {
	b := append([]byte{}, r.name...)
	b = append(b, be(r.typ)...)
	b = append(b, be(r.class)...)
	b = append(b, 0, 0, 0, 120)
	l := r.rdlen
	if l < 0 {
		l = len(r.rdata)
	}
	b = append(b, be(l)...)
	return append(b, r.rdata...)
}

type dnsMsg struct {
	id, flags      int
	qd, an, ns, ar int // header counts (-1: actual)
	questions      [][]byte
	sec            [3][]rr
}

func (m *dnsMsg) bytes() []byte {
	cnt := func(v, actual int) int {
		if v < 0 {
			return actual
		}
		return v
	}
	b := append(be(m.id), be(m.flags)...)
	b = append(b, be(cnt(m.qd, len(m.questions)))...)
	b = append(b, be(cnt(m.an, len(m.sec[0])))...)
	b = append(b, be(cnt(m.ns, len(m.sec[1])))...)
	b = append(b, be(cnt(m.ar, len(m.sec[2])))...)
	for _, q := range m.questions {
		b = append(b, q...)
	}
	for _, s := range m.sec {
		for _, r := range s {
			b = append(b, r.bytes()...)
		}
	}
	return b
}

func question(name []byte, typ int) []byte {
	return append(append(append([]byte{}, name...), be(typ)...), 0, 1)
}

var hostName = dnsName("printer", "local")

// a valid record of the given type (name: uncompressed or a pointer to offset 12)
func mkRR(typ int, rng *lib.Rand) rr {
	name := hostName
	if rng.Chance(30) {
		name = dnsName("_ipp", "_tcp", "local")
	}
	r := rr{name: name, typ: typ, class: 1, rdlen: -1}
	switch typ {
	case 1:
		r.rdata = rng.Bytes(4)
	case 28:
		r.rdata = rng.Bytes(16)
	case 12, 2, 5:
		r.rdata = dnsName("dev", "local")
	case 16:
		t := "model=MacBookPro11"
		r.rdata = append([]byte{byte(len(t))}, t...)
		if rng.Bool() {
			r.rdata = append(r.rdata, 3, 'a', '=', 'b')
		}
	case 33:
		r.rdata = append([]byte{0, 0, 0, 0, 0x1f, 0x90}, dnsName("dev", "local")...)
	case 41:
		r.name = []byte{0}
		r.class = 1440
		r.rdata = []byte{0, 4, 0, 2, 1, 2}
	case 47:
		r.rdata = append(dnsName("printer", "local"), 0, 1, 0x40)
	case 32:
		r.rdata = []byte{0, 0, 192, 168, 0, 50}
	default:
		r.rdata = rng.Bytes(rng.Intn(12))
	}
	return r
}

var rrTypes = []int{1, 28, 12, 33, 16, 41, 47, 2, 5, 13, 32, 99, 255, 0}

func randResponse(rng *lib.Rand, types []int, maxPerSec int) *dnsMsg {
	m := &dnsMsg{id: rng.Intn(65536), flags: 0x8400, qd: -1, an: -1, ns: -1, ar: -1}
	if rng.Chance(20) {
		m.questions = append(m.questions, question(hostName, 255))
	}
	for s := 0; s < 3; s++ {
		for k := rng.Intn(maxPerSec + 1); k > 0; k-- {
			m.sec[s] = append(m.sec[s], mkRR(types[rng.Intn(len(types))], rng))
		}
	}
	return m
}

// at most spinCap predicted endless loops per generator class (each costs its time-out)
var (
	spinCap   = 10
	spinCount = map[string]int{}
)

func addMDNS(cl *caseList, class string, msg []byte, _ bool) {
	v := viewOf(msg)
	spin := predictSpinMDNS(v)
	if spin {
		if spinCount["mdns."+class] >= spinCap {
			cl.dropped["mdns."+class]++
			return
		}
		spinCount["mdns."+class]++
	}
	cl.addH(spin, "mdns."+class, "mdns", append([]string{hx(msg)}, v.tokens(false)...)...)
}
func addNBNS(cl *caseList, class string, msg []byte, _ bool) {
	v := viewOf(msg)
	spin := predictSpinNBNS(v)
	if spin {
		if spinCount["nbns."+class] >= spinCap {
			cl.dropped["nbns."+class]++
			return
		}
		spinCount["nbns."+class]++
	}
	cl.addH(spin, "nbns."+class, "nbns", append([]string{hx(msg)}, v.tokens(true)...)...)
}

// record types the mDNS loop consumes properly wherever they stand
var typedOK = []int{1, 28, 12, 33, 16, 41}

func genMDNS(cl *caseList, rng *lib.Rand, scale int) {
	// responses made of typed records only: every section, no defect expected
	for k := 0; k < 200*scale; k++ {
		addMDNS(cl, "typed", randResponse(rng, typedOK, 3).bytes(), false)
	}
	// queries
	for k := 0; k < 40*scale; k++ {
		m := &dnsMsg{id: rng.Intn(65536), flags: 0, qd: -1, an: -1, ns: -1, ar: -1}
		for q := 1 + rng.Intn(3); q > 0; q-- {
			m.questions = append(m.questions, question(dnsName("Test-iPad", "local"), rng.Pick(1, 12, 255)))
		}
		b := m.bytes()
		addMDNS(cl, "query", b, false)
		if k < 3 {
			for cut := 0; cut < len(b); cut++ {
				addMDNS(cl, "query.trunc", b[:cut], false)
			}
		}
	}
	// section placement of every record type: one record of type T in section S between typed neighbours
	for _, t := range rrTypes {
		for s := 0; s < 3; s++ {
			for k := 0; k < 2; k++ {
				m := randResponse(rng, typedOK, 1)
				m.sec[s] = append(m.sec[s], mkRR(t, rng))
				if k == 1 {
					m.sec[s] = append(m.sec[s], mkRR(typedOK[rng.Intn(len(typedOK))], rng))
				}
				addMDNS(cl, "placement", m.bytes(), s > 0)
			}
		}
	}
	// untyped records confined to the answer section: skipped properly
	for k := 0; k < 100*scale; k++ {
		m := randResponse(rng, typedOK, 2)
		for j := 1 + rng.Intn(3); j > 0; j-- {
			m.sec[0] = append(m.sec[0], mkRR(rrTypes[rng.Intn(len(rrTypes))], rng))
		}
		addMDNS(cl, "answer-mix", m.bytes(), false)
	}
	// truncation at every offset (a cut inside a record body in the answer section is the
	// ignored-SkipAnswer-error class: bounded number of messages)
	for k := 0; k < 2*scale; k++ {
		b := randResponse(rng, typedOK, 2).bytes()
		for cut := 0; cut < len(b); cut++ {
			addMDNS(cl, "trunc", b[:cut], true)
		}
	}
	// count corruption
	for k := 0; k < 60*scale; k++ {
		m := randResponse(rng, typedOK, 2)
		switch rng.Intn(4) {
		case 0:
			m.an = rng.Pick(0, len(m.sec[0])+1, len(m.sec[0])-1, 65535)
		case 1:
			m.ns = rng.Pick(0, len(m.sec[1])+1, 65535)
		case 2:
			m.ar = rng.Pick(0, len(m.sec[2])+1, 65535)
		case 3:
			m.qd = rng.Pick(1, 2, 65535)
		}
		if m.an < -1 {
			m.an = 0
		}
		addMDNS(cl, "counts", m.bytes(), true)
	}
	// RDLENGTH corruption
	for k := 0; k < 80*scale; k++ {
		m := randResponse(rng, typedOK, 2)
		s := rng.Intn(3)
		if len(m.sec[s]) == 0 {
			m.sec[s] = append(m.sec[s], mkRR(typedOK[rng.Intn(len(typedOK))], rng))
		}
		i := rng.Intn(len(m.sec[s]))
		l := len(m.sec[s][i].rdata)
		m.sec[s][i].rdlen = rng.Pick(0, 1, l-1, l+1, l+7, 65535)
		if m.sec[s][i].rdlen < 0 {
			m.sec[s][i].rdlen = 0
		}
		addMDNS(cl, "rdlength", m.bytes(), true)
	}
	// compression pointers in owner names and in RDATA names: backward, self, mutual, forward, beyond
	for k := 0; k < 60*scale; k++ {
		m := randResponse(rng, typedOK, 1)
		ptr := func() []byte {
			switch rng.Intn(5) {
			case 0:
				return []byte{0xc0, 12} // start of the first name after the header
			case 1:
				return []byte{0xc0, byte(12 + rng.Intn(40))}
			case 2:
				return []byte{0xc0, 0x0c + 2, 0xc0, 0x0c} // two pointers at each other when placed first
			case 3:
				return []byte{0xff, 0xff}
			}
			return []byte{3, 'a', 'b', 'c', 0xc0, 12}
		}
		m.questions = [][]byte{question(hostName, 255)}
		r := mkRR(rng.Pick(1, 12, 33, 16), rng)
		r.name = ptr()
		if (r.typ == 12 || r.typ == 33) && rng.Bool() {
			p := ptr()
			if r.typ == 33 {
				p = append([]byte{0, 0, 0, 0, 0, 80}, p...)
			}
			r.rdata = p
		}
		s := rng.Intn(3)
		m.sec[s] = append([]rr{r}, m.sec[s]...)
		addMDNS(cl, "pointers", m.bytes(), true)
	}
	{ // self-pointing name right behind the header
		b := append([]byte{0, 1, 0x84, 0, 0, 0, 0, 1, 0, 0, 0, 0}, 0xc0, 12, 0, 1, 0, 1, 0, 0, 0, 9, 0, 4, 1, 2, 3, 4)
		addMDNS(cl, "pointers", b, true)
	}
	// random mutation
	for k := 0; k < 150*scale; k++ {
		b := randResponse(rng, typedOK, 2).bytes()
		for j := 1 + rng.Intn(2); j > 0; j-- {
			b[rng.Intn(len(b))] = rng.Byte()
		}
		addMDNS(cl, "mutate", b, true)
	}
	for k := 0; k < 40*scale; k++ {
		addMDNS(cl, "random", rng.Bytes(rng.Intn(60)), true)
	}
	for _, m := range dnsNameStress(rng) { // pointer cycles / chains / label runs at the bounds
		addMDNS(cl, "namestress", m, true)
		addNBNS(cl, "namestress", m, true)
	}
}

// ---------------------------------------------------------------- NBNS

func nbName(rng *lib.Rand) []byte { // first-level encoded 16-byte name: 32 letters
	b := []byte{32}
	for i := 0; i < 32; i++ {
		b = append(b, byte('A'+rng.Intn(16)))
	}
	return append(b, 0)
}

func nodeStatusRData(n int, numNames int, tail int, rng *lib.Rand) []byte {
	b := []byte{byte(numNames)}
	for i := 0; i < n; i++ {
		name := []byte("WORKSTATION    ")
		b = append(b, name...)
		b = append(b, byte(rng.Pick(0, 0x20)))
		fl := 0x0400
		if rng.Chance(30) {
			fl |= 0x8000
		}
		b = append(b, be(fl)...)
	}
	return append(b, rng.Bytes(tail)...)
}

func genNBNS(cl *caseList, rng *lib.Rand, scale int) {
	resp := func(rrs ...rr) *dnsMsg {
		return &dnsMsg{id: rng.Intn(65536), flags: 0x8400, qd: -1, an: -1, ns: -1, ar: -1, sec: [3][]rr{rrs, nil, nil}}
	}
	ns := func(n, num, tail int) rr {
		return rr{name: nbName(rng), typ: 0x21, class: 1, rdata: nodeStatusRData(n, num, tail, rng), rdlen: -1}
	}
	// node status responses: consistent arrays of 0..6 names with statistics behind
	for k := 0; k < 100*scale; k++ {
		n := rng.Intn(7)
		addNBNS(cl, "status", resp(ns(n, n, 46)).bytes(), false)
	}
	// NUM_NAMES against the bytes present: the 16n+2 check versus the 18n stride
	for n := 0; n <= 6; n++ {
		for num := 0; num <= 8; num++ {
			for _, tail := range []int{0, 1, 2, 3, 17, 18, 46} {
				addNBNS(cl, "numnames", resp(ns(n, num, tail)).bytes(), false)
			}
		}
	}
	for k := 0; k < 40*scale; k++ {
		addNBNS(cl, "numnames", resp(ns(rng.Intn(4), rng.Pick(0, 1, 2, 14, 15, 16, 255), rng.Intn(300))).bytes(), false)
	}
	// short RDATA
	for l := 0; l < 6; l++ {
		addNBNS(cl, "short", resp(rr{name: nbName(rng), typ: 0x21, class: 1, rdata: rng.Bytes(l), rdlen: -1}).bytes(), false)
	}
	// queries and requests
	for k := 0; k < 20*scale; k++ {
		m := &dnsMsg{id: rng.Intn(65536), flags: 0x0110, qd: -1, an: -1, ns: -1, ar: -1}
		m.questions = [][]byte{question(nbName(rng), rng.Pick(0x20, 0x21))}
		addNBNS(cl, "query", m.bytes(), false)
	}
	// answers of type 0x20 (name query response) and of other types: never skipped (DESIGN #19)
	for _, t := range []int{0x20, 1, 0x22, 99, 255, 0} {
		r := rr{name: nbName(rng), typ: t, class: 1, rdata: []byte{0, 0, 192, 168, 0, 50}, rdlen: -1}
		addNBNS(cl, "nametype", resp(r).bytes(), true)
		addNBNS(cl, "nametype", resp(ns(1, 1, 46), r).bytes(), true) // behind a status answer that returns
		if scale > 1 {
			addNBNS(cl, "nametype", resp(ns(0, 0, 3), r).bytes(), true) // behind an empty status answer: reached
		}
	}
	// truncation at every offset, count / RDLENGTH corruption, mutation
	for k := 0; k < 2*scale; k++ {
		b := resp(ns(2, 2, 46)).bytes()
		for cut := 0; cut < len(b); cut++ {
			addNBNS(cl, "trunc", b[:cut], true)
		}
	}
	for k := 0; k < 40*scale; k++ {
		m := resp(ns(rng.Intn(3), rng.Intn(3), 46))
		switch rng.Intn(3) {
		case 0:
			m.an = rng.Pick(0, 2, 65535)
		case 1:
			l := len(m.sec[0][0].rdata)
			m.sec[0][0].rdlen = rng.Pick(0, 1, 2, l-1, l+1, 65535)
		case 2:
			m.qd = rng.Pick(1, 65535)
		}
		addNBNS(cl, "corrupt", m.bytes(), true)
	}
	for k := 0; k < 80*scale; k++ {
		b := resp(ns(1+rng.Intn(2), 1+rng.Intn(2), 46)).bytes()
		b[rng.Intn(len(b))] = rng.Byte()
		addNBNS(cl, "mutate", b, true)
	}
	for k := 0; k < 30*scale; k++ {
		addNBNS(cl, "random", rng.Bytes(rng.Intn(50)), true)
	}
}
