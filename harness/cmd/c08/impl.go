package main

// Implementation runners: executed inside the worker processes only.

import (
	"github.com/irai/packet"
	"pvharness/lib"
)

var impls = map[string]func(a []string) string{}

func oe(err error) string {
	if err != nil {
		return "err"
	}
	return "ok"
}

// withCap returns a slice holding b whose capacity is exactly len(b)+len(spare),
// the spare bytes (poison) lying behind the length.
func withCap(b, spare []byte) []byte {
	buf := make([]byte, len(b)+len(spare))
	copy(buf, b)
	copy(buf[len(b):], spare)
	return buf[:len(b):len(buf)]
}

func init() {
	// the census is a comparison of the source with the model's table: the implementation side
	// is the source itself, its observation is "ok"
	impls["census"] = func(a []string) string { return "ok" }
	impls["censusall"] = func(a []string) string { return "ok" }
	impls["counters"] = func(a []string) string { return "ok" }
	// newParseOptions is unexported: reached through RouterAdvertisement.Options, which hands
	// over p[16:] when len(p) > 16 (an empty option block returns early there and in the model).
	impls["ndp"] = func(a []string) string {
		b, spare := lib.UnHex(a[0]), lib.UnHex(a[1])
		p := withCap(append(make([]byte, 16), b...), spare)
		_, err := packet.ICMP6RouterAdvertisement(p).Options()
		return oe(err)
	}
	impls["ra"] = func(a []string) string {
		p := withCap(lib.UnHex(a[0]), lib.UnHex(a[1]))
		_, err := packet.ICMP6RouterAdvertisement(p).Options()
		return oe(err)
	}
	impls["rs"] = func(a []string) string {
		p := withCap(lib.UnHex(a[0]), lib.UnHex(a[1]))
		_, err := packet.ICMP6RouterSolicitation(p).Options()
		return oe(err)
	}
	impls["hbh"] = func(a []string) string {
		p := withCap(lib.UnHex(a[0]), lib.UnHex(a[1]))
		_, err := packet.HopByHopExtensionHeader(p).ParseHopByHopExtensions()
		return oe(err)
	}
}
