package main

import (
	"net"
	"net/netip"
	"sync"

	"github.com/irai/packet"
	"github.com/irai/packet/handlers/dns_naming"
	"pvharness/lib"
)

var (
	sessOnce sync.Once
	sess     *packet.Session
)

func session() *packet.Session {
	sessOnce.Do(func() { sess, _ = lib.NewSession() })
	return sess
}

var (
	peerMAC = net.HardwareAddr{0x02, 0x11, 0x22, 0x33, 0x44, 0x55}
	peerIP4 = netip.MustParseAddr("192.168.0.50")
)

// udpFrame wraps a UDP payload into Ethernet/IPv4/UDP from a LAN peer.
func udpFrame(sp, dp uint16, dst netip.Addr, dmac net.HardwareAddr, payload []byte) []byte {
	return lib.MkEther(dmac, peerMAC, 0x0800, lib.MkIP4(peerIP4, dst, 17, 64, lib.MkUDP(sp, dp, payload)))
}

func init() {
	impls["mdns"] = func(a []string) string {
		msg := lib.UnHex(a[0])
		s := session()
		f := udpFrame(5353, 5353, netip.MustParseAddr("224.0.0.251"), net.HardwareAddr{0x01, 0x00, 0x5e, 0, 0, 0xfb}, msg)
		frame, err := s.Parse(f)
		if err != nil || frame.PayloadID != packet.PayloadMDNS {
			return "parse-rejected"
		}
		h := dns_naming.VerifNew(s)
		_, _, err = h.ProcessMDNS(frame)
		return oe(err)
	}
	impls["ptxt"] = func(a []string) string { return impls["mdns"](a[:1]) } // same path; the model side is parse_txt
	impls["nbns"] = func(a []string) string {
		msg := lib.UnHex(a[0])
		c := ctxFor(false)
		f := udpFrame(137, 137, netip.MustParseAddr("192.168.0.255"), packet.EthBroadcast, msg)
		frame, err := c.s.Parse(exact(f))
		if err != nil || frame.PayloadID != packet.PayloadNBNS {
			return "parse-rejected"
		}
		_, err = dispatch(c, env{}, frame)
		return oe(err)
	}
}
