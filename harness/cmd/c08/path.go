package main

// The full receive path as the examples/ drive it: Session.Parse, then dispatch by
// frame.PayloadID to the processor of that protocol.  Used by the worker (implementation
// runs) and by the parent (generation side pass: payload, PayloadID, reply recovery).
// Table state the processors branch on is set up per case from the environment tokens.

import (
	"fmt"
	"net"
	"net/netip"

	"github.com/irai/packet"
	"github.com/irai/packet/fastlog"
	"github.com/irai/packet/handlers/arp_spoofer"
	"github.com/irai/packet/handlers/dhcp4_spoofer"
	"github.com/irai/packet/handlers/dns_naming"
	"github.com/irai/packet/handlers/icmp_spoofer"
	"pvharness/lib"
)

// a session is shared by at most sessionSpan consecutive cases (fresh for every DHCP case:
// the lease decision must not depend on earlier cases)
const sessionSpan = 50

type pathCtx struct {
	s    *packet.Session
	conn *lib.RecConn
	used int
}

var pctx *pathCtx

func ctxFor(fresh bool) *pathCtx {
	if pctx == nil || fresh || pctx.used >= sessionSpan {
		s, c := lib.NewSession()
		pctx = &pathCtx{s: s, conn: c}
	}
	pctx.used++
	return pctx
}

type env struct {
	closed, hunting, offer, debug, captured bool
}

func setLevel(l *fastlog.Logger, debug bool) {
	if debug {
		l.EnableDebug()
	} else {
		l.EnableInfo()
	}
}

// dispatch mirrors examples/*: switch on frame.PayloadID.
func dispatch(c *pathCtx, e env, frame packet.Frame) (handled bool, err error) {
	s := c.s
	switch frame.PayloadID {
	case packet.PayloadARP:
		setLevel(arp_spoofer.Logger, e.debug)
		h, _ := arp_spoofer.New(s)
		if e.hunting {
			h.StartHunt(packet.Addr{MAC: peerMAC, IP: peerIP4})
		}
		if e.offer {
			s.SetDHCPv4IPOffer(peerMAC, netip.MustParseAddr("192.168.0.200"), packet.NameEntry{})
		} else {
			s.SetDHCPv4IPOffer(peerMAC, netip.Addr{}, packet.NameEntry{})
		}
		if e.closed {
			h.Close()
		}
		err = h.ProcessPacket(frame)
		if !e.closed {
			go h.Close()
		}
		return true, err
	case packet.PayloadICMP4:
		if e.debug {
			icmp_spoofer.Logger4.EnableInfo()
		} else {
			icmp_spoofer.Logger4.Disable()
		}
		h, _ := icmp_spoofer.New4(s)
		return true, h.ProcessPacket(frame)
	case packet.PayloadICMP6:
		setLevel(icmp_spoofer.Logger6, e.debug)
		h, _ := icmp_spoofer.New6(s)
		if e.hunting {
			h.StartHunt(packet.Addr{MAC: peerMAC, IP: peerLLA})
		}
		icmp_spoofer.VerifSetRepeat(-1) // the next router advertisement is the one in four that is processed
		err = h.ProcessPacket(frame)
		go h.Close()
		return true, err
	case packet.PayloadDHCP4:
		setLevel(dhcp4_spoofer.Logger, e.debug)
		if e.captured {
			s.Capture(peerMAC)
		}
		h := dhcpHandler(s)
		return true, h.ProcessPacket(frame)
	case packet.PayloadDNS:
		_, err = dns_naming.VerifNew(s).ProcessDNS(frame)
		return true, err
	case packet.PayloadMDNS, packet.PayloadLLMNR:
		_, _, err = dns_naming.VerifNew(s).ProcessMDNS(frame)
		return true, err
	case packet.PayloadNBNS:
		_, err = dns_naming.VerifNew(s).ProcessNBNS(frame.Host, frame.Ether(), frame.Payload())
		return true, err
	case packet.PayloadSSDP:
		_, _, err = dns_naming.VerifNew(s).ProcessSSDP(frame.Host, frame.Ether(), frame.Payload())
		return true, err
	case packet.Payload8023:
		_, _, err = packet.Process8023Frame(frame, 0)
		return true, err
	case packet.PayloadLLDP:
		p := packet.LLDP(frame.Payload())
		if err = p.IsValid(); err == nil {
			_ = p.GetPDU(3)
		}
		return true, err
	}
	return false, nil
}

func envOf(t []string) env { // closed hunting offer debug captured
	var e env
	b := func(i int) bool { return i < len(t) && t[i] == "T" }
	e.closed, e.hunting, e.offer, e.debug, e.captured = b(0), b(1), b(2), b(3), b(4)
	return e
}

var (
	peerLLAw = netip.MustParseAddr("fe80::11:22ff:fe33:4455")
)

// runPath: args = pid framehex ... ; envTokens = the five state flags
func runPath(frameHex string, pid int, e env, fresh bool) string {
	c := ctxFor(fresh)
	frame, err := c.s.Parse(exact(lib.UnHex(frameHex)))
	if err != nil {
		return "parse-rejected"
	}
	if int(frame.PayloadID) != pid {
		return fmt.Sprintf("payloadid-%d", int(frame.PayloadID))
	}
	dispatch(c, e, frame)
	return "ret"
}

func atoi(s string) int {
	n := 0
	for _, ch := range s {
		n = n*10 + int(ch-'0')
	}
	return n
}

func initPath() {
	// arp frame payload closed hunting offer debug
	impls["arp"] = func(a []string) string {
		return runPath(a[0], int(packet.PayloadARP), env{closed: a[2] == "T", hunting: a[3] == "T", offer: a[4] == "T", debug: a[5] == "T"}, false)
	}
	// icmp4 frame payload info
	impls["icmp4"] = func(a []string) string {
		return runPath(a[0], int(packet.PayloadICMP4), env{debug: a[2] == "T"}, false)
	}
	// icmp6 frame payload debug ip6view raprocessed hunting
	impls["icmp6"] = func(a []string) string {
		c := ctxFor(false)
		frame, err := c.s.Parse(exact(lib.UnHex(a[0])))
		if err != nil || frame.PayloadID != packet.PayloadICMP6 {
			return "parse-rejected"
		}
		if (frame.Host != nil) != (a[4] == "T") {
			return "host-flag-differs"
		}
		if v := frame.IP6(); (v == nil) != (a[3] == "nil") || (v != nil && lib.Hex(v) != a[3]) {
			return "ip6-view-differs"
		}
		dispatch(c, env{debug: a[2] == "T", hunting: a[5] == "T"}, frame)
		return "ret"
	}
	// dhcp4 frame payload clientport reply info captured
	impls["dhcp4"] = func(a []string) string {
		return runPath(a[0], int(packet.PayloadDHCP4), env{debug: a[4] == "T", captured: a[5] == "T"}, true)
	}
	// other frame pid : classes without a processor, and the remaining processors by PayloadID
	impls["other"] = func(a []string) string { return runPath(a[0], atoi(a[1]), env{}, false) }
	// llmnr msghex view... : port 5355 through Parse, dispatched like mDNS
	impls["llmnr"] = func(a []string) string {
		msg := lib.UnHex(a[0])
		f := udpFrame(5355, 5355, netip.MustParseAddr("224.0.0.252"), net.HardwareAddr{0x01, 0x00, 0x5e, 0, 0, 0xfc}, msg)
		c := ctxFor(false)
		frame, err := c.s.Parse(exact(f))
		if err != nil || frame.PayloadID != packet.PayloadLLMNR {
			return "parse-rejected"
		}
		_, err = dispatch(c, env{}, frame)
		return oe(err)
	}
	impls["dnsproc"] = func(a []string) string {
		c := ctxFor(false)
		frame, err := c.s.Parse(exact(lib.UnHex(a[0])))
		if err != nil || frame.PayloadID != packet.PayloadDNS {
			return "parse-rejected"
		}
		dispatch(c, env{}, frame)
		return "ret"
	}
	// exported DNS decoders called directly (Go-side oracle; models: DNS cluster)
	impls["dnsq"] = func(a []string) string { // msghex index
		p := packet.DNS(exact(lib.UnHex(a[0])))
		if p.IsValid() != nil {
			return "ret"
		}
		packet.DecodeQuestion(p, atoi(a[1]), make([]byte, 0, 64))
		return "ret"
	}
	impls["dnsans"] = func(a []string) string { // msghex offset
		p := packet.DNS(exact(lib.UnHex(a[0])))
		if p.IsValid() != nil {
			return "ret"
		}
		e := packet.NewDNSEntry()
		e.IP4Records = map[netip.Addr]packet.IPResourceRecord{}
		e.IP6Records = map[netip.Addr]packet.IPResourceRecord{}
		e.CNameRecords = map[string]packet.NameResourceRecord{}
		e.PTRRecords = map[string]packet.IPResourceRecord{}
		e.DecodeAnswers(p, atoi(a[1]), make([]byte, 0, 64))
		return "ret"
	}
	initUPNP()
}
