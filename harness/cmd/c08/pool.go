package main

// Killable worker processes: the harness binary re-executes itself with
// C08_WORKER=1; the parent sends one case line on the child's stdin and reads
// one observation line from fd 3 (stdout/stderr of the child are discarded:
// the library prints on them).  A child that neither answers nor stops
// burning CPU is killed: observation "fuel".  A recovered panic is "panic";
// a child that dies (panic in another goroutine, fatal error) is "panic" too.

import (
	"bufio"
	"fmt"
	"os"
	"os/exec"
	"runtime/debug"
	"strconv"
	"strings"
	"sync"
	"sync/atomic"
	"time"
)

const (
	wallSoft   = 1500 * time.Millisecond // first look at the CPU clock of the child
	cpuLimit   = 1.0                     // seconds of CPU burnt on one case => spinning
	wallHard   = 12 * time.Second        // blocked without burning CPU (or starved machine)
	recycleAt  = 400                     // cases per child (sessions are leaked inside)
	ticksPerSs = 100.0
)

// tail keeps the last bytes a worker wrote on stderr: the Go runtime reports unrecoverable
// errors there ("fatal error: stack overflow", "concurrent map writes", "out of memory")
type tail struct {
	mu   sync.Mutex
	head []byte // text from the first "fatal error:" / "panic:" on (first 4 kB; the trace can be long)
	b    []byte
}

func (t *tail) Write(p []byte) (int, error) {
	t.mu.Lock()
	if t.head != nil {
		if len(t.head) < 4096 {
			t.head = append(t.head, p...)
		}
	} else {
		for _, key := range []string{"fatal error:", "panic:"} {
			if i := strings.Index(string(p), key); i >= 0 {
				t.head = append([]byte{}, p[i:]...)
				break
			}
		}
	}
	t.b = append(t.b, p...)
	if len(t.b) > 1<<16 {
		t.b = t.b[len(t.b)-(1<<15):]
	}
	t.mu.Unlock()
	return len(p), nil
}

func (t *tail) fatal() string {
	t.mu.Lock()
	defer t.mu.Unlock()
	l := string(t.head)
	if k := strings.IndexByte(l, '\n'); k >= 0 {
		l = l[:k]
	}
	return l
}

var (
	workerDeaths int64
	deathMu      sync.Mutex
	deathNotes   []string // "case line => fatal error: ..." of the workers that died
)

type child struct {
	errTail *tail
	cmd     *exec.Cmd
	in      *bufio.Writer
	out     chan string // one line per case; closed when the child dies
	cases   int
}

func startChild() *child {
	exe, err := os.Executable()
	if err != nil {
		panic(err)
	}
	pr, pw, _ := os.Pipe()
	cmd := exec.Command(exe)
	cmd.Env = append(os.Environ(), "C08_WORKER=1")
	cmd.ExtraFiles = []*os.File{pw}
	stdin, _ := cmd.StdinPipe()
	et := &tail{}
	cmd.Stdout, cmd.Stderr = nil, et
	if err := cmd.Start(); err != nil {
		panic(err)
	}
	pw.Close()
	c := &child{errTail: et, cmd: cmd, in: bufio.NewWriter(stdin), out: make(chan string, 1)}
	go func() {
		sc := bufio.NewScanner(pr)
		sc.Buffer(make([]byte, 1<<20), 1<<24)
		for sc.Scan() {
			c.out <- sc.Text()
		}
		close(c.out)
		pr.Close()
	}()
	return c
}

func (c *child) kill() {
	c.cmd.Process.Kill()
	go c.cmd.Wait()
}

func cpuSeconds(pid int) float64 {
	b, err := os.ReadFile("/proc/" + strconv.Itoa(pid) + "/stat")
	if err != nil {
		return 0
	}
	s := string(b)
	i := strings.LastIndexByte(s, ')')
	if i < 0 {
		return 0
	}
	f := strings.Fields(s[i+1:])
	if len(f) < 13 {
		return 0
	}
	ut, _ := strconv.ParseFloat(f[11], 64)
	st, _ := strconv.ParseFloat(f[12], 64)
	return (ut + st) / ticksPerSs
}

var hangs int64 // number of cases observed as fuel (each costs its timeout)

// runCase executes one case in the child and returns (observation, childStillUsable).
func (c *child) runCase(line string) (string, bool) {
	cpu0 := cpuSeconds(c.cmd.Process.Pid)
	c.in.WriteString(line)
	c.in.WriteByte('\n')
	if err := c.in.Flush(); err != nil {
		return "panic", false
	}
	c.cases++
	start := time.Now()
	first := wallSoft
	if strings.HasPrefix(line, "scale ") { // long histories carry their own per-call watchdog
		first = 10 * time.Minute
	}
	soft := time.NewTimer(first)
	defer soft.Stop()
	for {
		select {
		case o, ok := <-c.out:
			if !ok {
				// the worker died while running this case: an unrecoverable runtime error
				// (stack overflow, concurrent map writes, out of memory) or a panic in another
				// goroutine: the packet loop of a real process would be down
				c.cmd.Wait()
				atomic.AddInt64(&workerDeaths, 1)
				deathMu.Lock()
				if len(deathNotes) < 8 {
					l := line
					if len(l) > 160 {
						l = l[:160] + "..."
					}
					deathNotes = append(deathNotes, l+" => worker died: "+c.errTail.fatal())
				}
				deathMu.Unlock()
				return "panic", false
			}
			return o, c.cases < recycleAt
		case <-soft.C:
			burnt := cpuSeconds(c.cmd.Process.Pid) - cpu0
			if burnt >= cpuLimit || time.Since(start) >= wallHard {
				c.kill()
				atomic.AddInt64(&hangs, 1)
				return "fuel", false
			}
			soft.Reset(200 * time.Millisecond)
		}
	}
}

type job struct {
	line string
	res  *string
	wg   *sync.WaitGroup
}

type pool struct {
	jobs chan job
	wg   sync.WaitGroup
}

func newPool(n int) *pool {
	p := &pool{jobs: make(chan job, 4*n)}
	for i := 0; i < n; i++ {
		p.wg.Add(1)
		go func() {
			defer p.wg.Done()
			var c *child
			for j := range p.jobs {
				if c == nil {
					c = startChild()
				}
				o, ok := c.runCase(j.line)
				if o == "fuel" { // confirm on a fresh worker: a starved machine must not look like a hang
					atomic.AddInt64(&hangs, -1)
					c.kill()
					c = startChild()
					o, ok = c.runCase(j.line)
				}
				*j.res = o
				j.wg.Done()
				if !ok {
					c.kill()
					c = nil
				}
			}
			if c != nil {
				c.kill()
			}
		}()
	}
	return p
}

func (p *pool) close() { close(p.jobs); p.wg.Wait() }

// runAll runs the lines concurrently and returns the observations in order.
func (p *pool) runAll(lines []string) []string {
	res := make([]string, len(lines))
	var wg sync.WaitGroup
	wg.Add(len(lines))
	for i := range lines {
		p.jobs <- job{line: lines[i], res: &res[i], wg: &wg}
	}
	wg.Wait()
	return res
}

func (p *pool) runOne(line string) string { return p.runAll([]string{line})[0] }

// workerMain is the child side.
func workerMain() {
	// a runaway recursion must die quickly ("fatal error: stack overflow", exit status 2) instead
	// of growing the stack to the 1 GB default
	debug.SetMaxStack(32 << 20)
	out := os.NewFile(3, "obs")
	sc := bufio.NewScanner(os.Stdin)
	sc.Buffer(make([]byte, 1<<20), 1<<24)
	for sc.Scan() {
		f := strings.Fields(sc.Text())
		o := "badcase"
		if len(f) > 0 {
			o = execCase(f[0], f[1:])
		}
		fmt.Fprintln(out, o)
	}
}

func execCase(kind string, args []string) (obs string) {
	f := impls[kind]
	if f == nil {
		return "no-runner"
	}
	defer func() {
		if e := recover(); e != nil {
			obs = "panic"
			if kind == "dnsproc" || kind == "dnsq" || kind == "dnsans" { // Go-side oracle kinds carry the panic class (narrow finding keys)
				msg := fmt.Sprint(e)
				switch {
				case strings.Contains(msg, "slice bounds out of range"):
					obs = "panic-slice-bounds"
				case strings.Contains(msg, "index out of range"):
					obs = "panic-index"
				default:
					obs = "panic-other"
				}
			}
		}
	}()
	return f(args)
}
