// C08: protocol handlers and payload-level decoders terminate without panic.
// The real processors/decoders run in killable worker processes (pool.go);
// the observation per case is ok | err | panic | fuel.
package main

import (
	"os"
	"runtime"
	"strings"

	"pvharness/lib"
)

type caseList struct {
	lines []string
	class []string
}

func (c *caseList) add(class, kind string, args ...string) {
	c.lines = append(c.lines, kind+" "+strings.Join(args, " "))
	c.class = append(c.class, class)
}

func main() {
	if os.Getenv("C08_WORKER") != "" {
		workerMain()
		return
	}
	r := lib.Init()
	defer r.Close()
	rng := r.Rand()
	n := runtime.NumCPU()
	if n > 16 {
		n = 16
	}
	p := newPool(n)
	defer p.close()
	for k := range impls {
		kind := k
		r.Register(kind, func(a []string) string { return p.runOne(kind + " " + strings.Join(a, " ")) })
	}
	if r.Replayed() {
		return
	}
	scale := 1
	if r.Thorough() {
		scale = 12
	}
	cl := &caseList{}
	genNDP(cl, rng.Fork(), scale)
	genHBH(cl, rng.Fork(), scale)

	obs := p.runAll(cl.lines)
	for i, l := range cl.lines {
		f := strings.Fields(l)
		r.Case(f[0], f[1:], obs[i])
		r.Stat("class."+cl.class[i], 1)
		r.Stat("obs."+f[0]+"."+obs[i], 1)
	}
	r.Stat("hangs", hangs)
	for i := 0; i < len(cl.lines) && i < 5; i++ {
		r.Sample(cl.lines[i] + " => " + obs[i])
	}
}
