// C08: protocol handlers and payload-level decoders terminate without panic.
// The real processors/decoders run in killable worker processes (pool.go);
// the observation per case is ok | err | panic | fuel.
package main

import (
	"flag"
	"os"
	"runtime"
	"strings"
	"syscall"

	"pvharness/lib"
)

type caseList struct {
	lines   []string
	class   []string
	hang    []bool // predicted endless loop: subject to the global hang budget
	dropped map[string]int
}

func (c *caseList) add(class, kind string, args ...string) { c.addH(false, class, kind, args...) }
func (c *caseList) addH(hangProne bool, class, kind string, args ...string) {
	c.lines = append(c.lines, kind+" "+strings.Join(args, " "))
	c.class = append(c.class, class)
	c.hang = append(c.hang, hangProne)
}

func main() {
	if os.Getenv("C08_WORKER") != "" {
		workerMain()
		return
	}
	r := lib.Init()
	defer r.Close()
	// the library prints on stdout/stderr (generation side pass runs Parse here): discard it
	// when the records go to a file
	if o := flag.Lookup("out"); o != nil && o.Value.String() != "" {
		if dn, err := os.OpenFile(os.DevNull, os.O_WRONLY, 0); err == nil {
			syscall.Dup2(int(dn.Fd()), 1)
			syscall.Dup2(int(dn.Fd()), 2)
		}
	}
	rng := r.Rand()
	n := runtime.NumCPU()
	if n > 16 {
		n = 16
	}
	p := newPool(n)
	defer p.close()
	for k := range impls {
		kind := k
		r.Register(kind, func(a []string) string { return p.runOne(kind + " " + strings.Join(a, " ")) })
	}
	if r.Replayed() {
		return
	}
	scale := 1
	if r.Thorough() {
		scale = 60
	}
	cl := &caseList{dropped: map[string]int{}}
	if r.Thorough() {
		spinCap = 25
		wideStress = true
	}
	genCorpus(cl)
	genCensus(cl, r)
	genZeroEverywhere(cl, rng.Fork())
	genNDP(cl, rng.Fork(), scale)
	genHBH(cl, rng.Fork(), scale)
	genMDNS(cl, rng.Fork(), scale)
	genNBNS(cl, rng.Fork(), scale)
	genDHCPOpt(cl, rng.Fork(), scale)
	genLLDP(cl, rng.Fork(), scale)
	gen8023(cl, rng.Fork(), scale)
	genSSDP(cl, rng.Fork(), scale)
	genARP(cl, rng.Fork(), scale)
	genICMP4(cl, rng.Fork(), scale)
	genICMP6(cl, rng.Fork(), scale)
	genCrossICMP(cl, rng.Fork(), scale)
	genDHCP4(cl, rng.Fork(), scale)
	genDNSProc(cl, rng.Fork(), scale)
	genLLMNR(cl, rng.Fork(), scale)
	genUPNP(cl, rng.Fork(), scale)
	genOther(cl, rng.Fork(), scale)
	genEnumSweep(cl, rng.Fork())
	genIDNA(cl, rng.Fork())
	genSeq(cl, rng.Fork(), scale)
	if r.Thorough() {
		genExhaustive(cl, 3) // all strings of length <= 3 over 6 symbols, per decoder
	} else {
		genExhaustive(cl, 2)
	}

	genRepeat(cl, r.Thorough())
	genScale(cl, r.Thorough()) // last: the long histories run after everything else (see the chunks below)
	// every endless loop costs its time-out: once the budget of observed hangs is used up the
	// remaining cases of hang-prone classes are dropped (deterministic: fixed chunks, fixed order)
	budget := int64(64)
	if r.Thorough() {
		budget = 600
	}
	const chunk = 64
	kindHangs := map[string]int{}
	kindCap := 40
	if r.Thorough() {
		kindCap = 200
	}
	for k, n := range cl.dropped {
		r.Stat("dropped."+k, int64(n))
	}
	samples := 0
	for lo := 0; lo < len(cl.lines); lo += chunk {
		hi := lo + chunk
		if hi > len(cl.lines) {
			hi = len(cl.lines)
		}
		var idx []int
		var lines []string
		for i := lo; i < hi; i++ {
			kind := cl.lines[i][:strings.IndexByte(cl.lines[i], ' ')]
			if kindHangs[kind] >= kindCap { // a regression that makes a whole kind spin: already a violation
				r.Stat("dropped.hangcap."+kind, 1)
				continue
			}
			if cl.hang[i] && hangs >= budget {
				r.Stat("dropped."+cl.class[i], 1)
				continue
			}
			idx = append(idx, i)
			lines = append(lines, cl.lines[i])
		}
		obs := p.runAll(lines)
		for j, i := range idx {
			f := strings.Fields(cl.lines[i])
			if f[0] == "dnsproc" || f[0] == "dnsq" || f[0] == "dnsans" { // Go-side oracle: decoders modelled by the DNS cluster
				r.Stat("oracle."+f[0]+"."+obs[j], 1)
				r.Stat("class."+cl.class[i], 1)
				if f[0] == "dnsproc" {
					r.Stat("payloadid.PayloadDNS", 1)
				}
				if strings.HasPrefix(obs[j], "panic") || obs[j] == "fuel" {
					what := map[string]string{"dnsproc": "ProcessDNS on a frame accepted by Parse", "dnsq": "DecodeQuestion", "dnsans": "DNSEntry.DecodeAnswers"}[f[0]]
					r.Viol("dns-"+f[0]+"-"+obs[j], what+": "+obs[j]+" (panic = recovered panic or worker killed by a fatal runtime error)", cl.lines[i])
				}
				continue
			}
			if obs[j] == "fuel" {
				kindHangs[f[0]]++
			}
			r.Case(f[0], f[1:], obs[j])
			if pid := payloadIDOf(f[0], cl.class[i]); pid != "" { // full path Parse -> PayloadID -> processor
				r.Stat("payloadid."+pid, 1)
			}
			r.Stat("class."+cl.class[i], 1)
			r.Stat("obs."+f[0]+"."+obs[j], 1)
			if samples < 8 && (obs[j] == "fuel" || i%997 == 0) {
				r.Sample(cl.lines[i] + " => " + obs[j])
				samples++
			}
		}
	}
	r.Stat("hangs", hangs)
	r.Stat("worker.deaths", workerDeaths)
	for _, n := range deathNotes {
		r.Sample(n)
	}
}

// genCorpus adds the committed witnesses (corpus/C08/*.txt): case lines, or raw messages
// ("mdnsmsg <hex>", "nbnsmsg <hex>") whose structured view is derived here.
func genCorpus(cl *caseList) {
	dir := os.Getenv("VERIF_CORPUS")
	if dir == "" {
		dir = "/verif/corpus/C08"
	}
	ents, _ := os.ReadDir(dir)
	for _, e := range ents {
		b, err := os.ReadFile(dir + "/" + e.Name())
		if err != nil {
			continue
		}
		for _, l := range strings.Split(string(b), "\n") {
			f := strings.Fields(l)
			if len(f) < 2 || strings.HasPrefix(f[0], "#") {
				continue
			}
			switch f[0] {
			case "mdnsmsg":
				msg := lib.UnHex(f[1])
				cl.add("corpus", "mdns", append([]string{f[1]}, viewOf(msg).tokens(false)...)...)
			case "nbnsmsg":
				msg := lib.UnHex(f[1])
				cl.add("corpus", "nbns", append([]string{f[1]}, viewOf(msg).tokens(true)...)...)
			default:
				if impls[f[0]] != nil {
					cl.add("corpus", f[0], f[1:]...)
				}
			}
		}
	}
}

// payloadIDOf names the PayloadID class of the kinds that run the full receive path.
func payloadIDOf(kind, class string) string {
	switch kind {
	case "arp":
		return "PayloadARP"
	case "icmp4":
		return "PayloadICMP4"
	case "icmp6":
		return "PayloadICMP6"
	case "dhcp4":
		return "PayloadDHCP4"
	case "mdns":
		return "PayloadMDNS"
	case "llmnr":
		return "PayloadLLMNR"
	case "nbns":
		return "PayloadNBNS"
	case "ssdp", "ssdpcc":
		return "PayloadSSDP"
	case "p8023":
		return "Payload8023"
	case "other":
		f := strings.Split(class, ".")
		if len(f) > 1 {
			return f[1]
		}
	}
	return ""
}
