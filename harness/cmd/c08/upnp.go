package main

// UPNP service discovery (handlers/dns_naming/upnp.go): the location delivered by the SSDP
// processors goes to http.NewRequest / client.Do; the description body goes to
// unmarshalUPNPServiceDescriptor.  The HTTP exchange itself is third-party: bodies are served
// by a loopback server inside the worker, locations are restricted to those that fail
// before any network access or point at the loopback server / a closed loopback port.

import (
	"net"
	"net/http"
	"sync"

	"github.com/irai/packet"
	"github.com/irai/packet/handlers/dns_naming"
	"pvharness/lib"
)

var (
	upnpOnce sync.Once
	upnpBase string
	upnpBody []byte
	upnpMu   sync.Mutex
)

func upnpServer() string {
	upnpOnce.Do(func() {
		ln, err := net.Listen("tcp", "127.0.0.1:0")
		if err != nil {
			panic("harness: " + err.Error())
		}
		upnpBase = "http://" + ln.Addr().String()
		go http.Serve(ln, http.HandlerFunc(func(w http.ResponseWriter, r *http.Request) {
			upnpMu.Lock()
			b := upnpBody
			upnpMu.Unlock()
			if r.URL.Path == "/404" {
				w.WriteHeader(404)
				return
			}
			w.Write(b)
		}))
	})
	return upnpBase
}

func initUPNP() {
	// upnp bodyhex xmlok : description body through the loopback server
	impls["upnp"] = func(a []string) string {
		base := upnpServer()
		upnpMu.Lock()
		upnpBody = lib.UnHex(a[0])
		upnpMu.Unlock()
		h := dns_naming.VerifNew(session())
		_, err := h.UPNPServiceDiscovery(packet.Addr{}, base+"/d.xml")
		return oe(err)
	}
	// upnploc lochex : location strings (never reach a remote host)
	impls["upnploc"] = func(a []string) string {
		loc := string(lib.UnHex(a[0]))
		if loc == "@server404" {
			loc = upnpServer() + "/404"
		}
		h := dns_naming.VerifNew(session())
		h.UPNPServiceDiscovery(packet.Addr{}, loc)
		return "ret"
	}
}
