package main

// Stateful sequences: ONE session and ONE handler per protocol are kept across a short history
// of frames from the same source (worker side: kind "seq"), so that panics which need state
// from earlier packets (router table, lease table, DNS / mDNS caches, hunt lists) and scale
// (log lines of state that grows with the input) are reachable.  Observation: one word per
// step (ret | rej | panic), the history stops at the first panic.

import (
	"strings"

	"github.com/irai/packet"
	"github.com/irai/packet/handlers/arp_spoofer"
	"github.com/irai/packet/handlers/dhcp4_spoofer"
	"github.com/irai/packet/handlers/dns_naming"
	"github.com/irai/packet/handlers/icmp_spoofer"
	"pvharness/lib"
)

type seqCtx struct {
	s    *packet.Session
	arp  *arp_spoofer.Handler
	i4   *icmp_spoofer.Handler4
	i6   *icmp_spoofer.Handler6
	dhcp *dhcp4_spoofer.Handler
	dns  *dns_naming.DNSHandler
}

func setAllLoggers(debug bool) {
	setLevel(arp_spoofer.Logger, debug)
	setLevel(icmp_spoofer.Logger6, debug)
	setLevel(dhcp4_spoofer.Logger, debug)
	setLevel(dns_naming.Logger, debug)
	setLevel(dns_naming.LoggerMDNS, debug)
	setLevel(packet.Logger, debug)
	dns_naming.Debug = debug
	if debug {
		icmp_spoofer.Logger4.EnableInfo()
	} else {
		icmp_spoofer.Logger4.Disable()
	}
}

func (c *seqCtx) step(frame packet.Frame, hunting bool) {
	switch frame.PayloadID {
	case packet.PayloadARP:
		if c.arp == nil {
			c.arp, _ = arp_spoofer.New(c.s)
			if hunting {
				c.arp.StartHunt(packet.Addr{MAC: peerMAC, IP: peerIP4})
			}
		}
		c.arp.ProcessPacket(frame)
	case packet.PayloadICMP4:
		if c.i4 == nil {
			c.i4, _ = icmp_spoofer.New4(c.s)
		}
		c.i4.ProcessPacket(frame)
	case packet.PayloadICMP6:
		if c.i6 == nil {
			c.i6, _ = icmp_spoofer.New6(c.s)
			if hunting {
				c.i6.StartHunt(packet.Addr{MAC: peerMAC, IP: peerLLAw})
			}
		}
		icmp_spoofer.VerifSetRepeat(-1) // every router advertisement is processed
		c.i6.ProcessPacket(frame)
	case packet.PayloadDHCP4:
		if c.dhcp == nil {
			c.dhcp = dhcpHandler(c.s)
		}
		c.dhcp.ProcessPacket(frame)
	case packet.PayloadDNS:
		c.dnsH().ProcessDNS(frame)
	case packet.PayloadMDNS, packet.PayloadLLMNR:
		c.dnsH().ProcessMDNS(frame)
	case packet.PayloadNBNS:
		c.dnsH().ProcessNBNS(frame.Host, frame.Ether(), frame.Payload())
	case packet.PayloadSSDP:
		c.dnsH().ProcessSSDP(frame.Host, frame.Ether(), frame.Payload())
	case packet.Payload8023:
		packet.Process8023Frame(frame, 0)
	}
}

func (c *seqCtx) dnsH() *dns_naming.DNSHandler {
	if c.dns == nil {
		c.dns = dns_naming.VerifNew(c.s)
	}
	return c.dns
}

func init() {
	// seq debug hunting frame1,frame2,...
	impls["seq"] = func(a []string) string {
		debug, hunting := a[0] == "T", a[1] == "T"
		setAllLoggers(debug)
		defer setAllLoggers(false)
		s, _ := lib.NewSession()
		c := &seqCtx{s: s}
		var obs []string
		for _, fh := range strings.Split(a[2], ",") {
			o := func() (o string) {
				defer func() {
					if e := recover(); e != nil {
						o = "panic"
					}
				}()
				frame, err := s.Parse(exact(lib.UnHex(fh)))
				if err != nil {
					return "rej"
				}
				c.step(frame, hunting)
				return "ret"
			}()
			obs = append(obs, o)
			if o == "panic" {
				break
			}
		}
		return strings.Join(obs, ",")
	}
}
