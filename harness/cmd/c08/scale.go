package main

// Handler state at scale under a watchdog (kind "scale"): ONE handler instance receives thousands
// of distinct well-formed frames that each create a new entry of one stateful table (mDNS cache,
// DNS table, DHCP lease table, ICMPv6 router table / hunt list, ARP hunt list; NBNS / SSDP have no
// table but are driven the same way), then the exported queries and Close.  Every call runs under
// a watchdog: a call that does not return within 3 s ends the history with "blocked@<step>"
// (a lock that is never released, a channel nobody reads).  The frames are a pure function of
// (table, n), built inside the worker.

import (
	"fmt"
	"net"
	"net/netip"
	"strings"
	"time"

	"github.com/irai/packet"
	"github.com/irai/packet/handlers/arp_spoofer"
	"github.com/irai/packet/handlers/dns_naming"
	"github.com/irai/packet/handlers/icmp_spoofer"
	"pvharness/lib"
)

const watchdog = 3 * time.Second

// guarded runs f; "" when it returned, "blocked" / "panic" otherwise
func guarded(f func()) string {
	done := make(chan string, 1)
	go func() {
		defer func() {
			if e := recover(); e != nil {
				done <- "panic"
			}
		}()
		f()
		done <- ""
	}()
	select {
	case r := <-done:
		return r
	case <-time.After(watchdog):
		return "blocked"
	}
}

func macN(k int) net.HardwareAddr {
	return net.HardwareAddr{0x02, 0xaa, byte(k >> 16), byte(k >> 8), byte(k), 0x01}
}

func init() {
	impls["scale"] = func(a []string) string {
		table, n := a[0], atoi(a[1])
		// "<table>.same": the SAME frame n times (one key); "<table>.cycle": a cycle of three keys /
		// message types of one client; otherwise n distinct keys.  a[2] = T: debug log level
		mode := ""
		if i := strings.IndexByte(table, '.'); i >= 0 {
			table, mode = table[:i], table[i+1:]
		}
		key := func(k int) int {
			switch mode {
			case "same":
				return 7
			case "cycle":
				return 7 + k%3
			}
			return k
		}
		debug := len(a) > 2 && a[2] == "T"
		setAllLoggers(debug)
		defer setAllLoggers(false)
		s, _ := lib.NewSession()
		step := 0
		var bad string
		do := func(f func()) bool {
			if bad != "" {
				return false
			}
			step++
			if r := guarded(f); r != "" {
				bad = fmt.Sprintf("%s@%d", r, step)
				return false
			}
			return true
		}
		parse := func(f []byte) (packet.Frame, bool) {
			fr, err := s.Parse(exact(f))
			return fr, err == nil
		}
		udp := func(mac net.HardwareAddr, src netip.Addr, sp, dp uint16, dst netip.Addr, dmac net.HardwareAddr, pl []byte) []byte {
			return lib.MkEther(dmac, mac, 0x0800, lib.MkIP4(src, dst, 17, 64, lib.MkUDP(sp, dp, pl)))
		}
		ip4N := func(k int) netip.Addr { return netip.AddrFrom4([4]byte{192, 168, 0, byte(1 + k%250)}) }
		mc := net.HardwareAddr{1, 0, 0x5e, 0, 0, 0xfb}
		m5 := netip.MustParseAddr("224.0.0.251")
		mdnsResp := func(id int) []byte {
			m := &dnsMsg{id: id & 0xffff, flags: 0x8400, qd: -1, an: -1, ns: -1, ar: -1}
			m.sec[0] = []rr{{name: dnsName(fmt.Sprintf("host%d", id), "local"), typ: 1, class: 1, rdata: []byte{192, 168, 0, byte(id)}, rdlen: -1}}
			return m.bytes()
		}
		switch table {
		case "mdns", "dns", "nbns", "ssdp":
			h := dns_naming.VerifNew(s)
			for k0 := 0; k0 < n && bad == ""; k0++ {
				k := key(k0)
				var f []byte
				switch table {
				case "mdns": // distinct (source MAC, transaction id): a new cache entry each
					f = udp(macN(k), ip4N(k), 5353, 5353, m5, mc, mdnsResp(k))
				case "dns": // distinct question names: a new DNS table entry each
					m := &dnsMsg{id: k & 0xffff, flags: 0x8180, qd: -1, an: -1, ns: -1, ar: -1}
					nm := dnsName(fmt.Sprintf("site%d", k), "example", "com")
					m.questions = [][]byte{question(nm, 1)}
					m.sec[0] = []rr{{name: nm, typ: 1, class: 1, rdata: []byte{10, byte(k >> 16), byte(k >> 8), byte(k)}, rdlen: -1}}
					f = udp(peerMAC, netip.MustParseAddr("192.168.0.11"), 53, 40000, netip.MustParseAddr("192.168.0.129"), hostMAC, m.bytes())
				case "nbns":
					r := rr{name: []byte{0}, typ: 0x21, class: 1, rdlen: -1,
						rdata: append(append([]byte{1}, []byte(fmt.Sprintf("PC%-13d", k))...), 0, 4, 0)}
					r.rdata = append(r.rdata, make([]byte, 46)...)
					m := &dnsMsg{id: k & 0xffff, flags: 0x8400, qd: -1, an: -1, ns: -1, ar: -1, sec: [3][]rr{{r}, nil, nil}}
					f = udp(macN(k), ip4N(k), 137, 137, netip.MustParseAddr("192.168.0.255"), packet.EthBroadcast, m.bytes())
				case "ssdp":
					t := fmt.Sprintf("NOTIFY * HTTP/1.1\r\nHOST: 239.255.255.250:1900\r\nCACHE-CONTROL: max-age=1800\r\nLOCATION: http://192.168.0.%d/d.xml\r\nNT: upnp:rootdevice\r\nNTS: ssdp:alive\r\nUSN: uuid:%d\r\n\r\n", 1+k%250, k)
					f = udp(macN(k), ip4N(k), 1900, 1900, netip.MustParseAddr("239.255.255.250"), packet.EthBroadcast, []byte(t))
				}
				fr, ok := parse(f)
				if !ok {
					return "parse-rejected"
				}
				do(func() {
					switch fr.PayloadID {
					case packet.PayloadMDNS:
						h.ProcessMDNS(fr)
					case packet.PayloadDNS:
						h.ProcessDNS(fr)
					case packet.PayloadNBNS:
						h.ProcessNBNS(fr.Host, fr.Ether(), fr.Payload())
					case packet.PayloadSSDP:
						h.ProcessSSDP(fr.Host, fr.Ether(), fr.Payload())
					}
				})
			}
			// any later call on the same handler, the exported queries, Close
			if fr, ok := parse(udp(macN(1), ip4N(1), 5353, 5353, m5, mc, mdnsResp(1))); ok {
				do(func() { h.ProcessMDNS(fr) })
			}
			do(func() { h.DNSFind("site1.example.com") })
			do(func() { h.DNSExist(netip.MustParseAddr("10.0.0.1")) })
			do(func() { h.PrintDNSTable() })
			do(func() { h.VerifMDNSCache() })
			do(func() { h.Close() })
		case "dhcp":
			h := dhcpHandler(s)
			zero, bc := netip.AddrFrom4([4]byte{}), netip.MustParseAddr("255.255.255.255")
			for k0 := 0; k0 < n && bad == ""; k0++ {
				k := key(k0)
				p := make([]byte, 240)
				p[0], p[1], p[2] = 1, 1, 6
				p[4], p[5], p[6], p[7] = byte(k>>24), byte(k>>16), byte(k>>8), byte(k)
				copy(p[28:34], macN(k))
				copy(p[236:240], []byte{99, 130, 83, 99})
				mt := byte(1)
				if k0%3 == 2 && mode != "same" { // DISCOVER, DISCOVER, REQUEST
					mt = 3
				}
				if mode == "cycle" {
					k = 7 // one client: DISCOVER / DISCOVER / REQUEST cycle
				}
				p = append(p, 53, 1, mt, 61, 7, 1)
				p = append(p, macN(k)...)
				p = append(p, 50, 4, 192, 168, 0, byte(k), 12, 4, 'h', byte('0'+k%10), byte('0'+k/10%10), byte('0'+k/100%10), 255)
				p = append(p, make([]byte, 60)...)
				fr, ok := parse(lib.MkEther(packet.EthBroadcast, macN(k), 0x0800, lib.MkIP4(zero, bc, 17, 64, lib.MkUDP(68, 67, p))))
				if !ok {
					return "parse-rejected"
				}
				do(func() { h.ProcessPacket(fr) })
			}
			do(func() { h.PrintTable() })
			do(func() { h.MinuteTicker(time.Now()) })
			do(func() { h.Close() })
		case "icmp6", "icmp6hunt":
			h, _ := icmp_spoofer.New6(s)
			mc6 := net.HardwareAddr{0x33, 0x33, 0, 0, 0, 1}
			all := netip.MustParseAddr("ff02::1")
			hunts := 0
			for k0 := 0; k0 < n && bad == ""; k0++ {
				k := key(k0)
				lla := netip.AddrFrom16([16]byte{0xfe, 0x80, 0, 0, 0, 0, 0, 0, 0, 0xaa, byte(k >> 16), 0xff, 0xfe, byte(k >> 8), byte(k), 1})
				if table == "icmp6hunt" && k0%16 == 0 && hunts < 150 {
					hunts++
					do(func() { h.StartHunt(packet.Addr{MAC: macN(k), IP: lla}) })
				}
				body := append([]byte{64, 0x40, 7, 8, 0, 0, 0, 0, 0, 0, 0, 0, 1, 1}, macN(k)...)
				pi := make([]byte, 32)
				pi[0], pi[1], pi[2], pi[3], pi[16], pi[17], pi[22], pi[23] = 3, 4, 64, 0xc0, 0x20, 0x01, byte(k>>8), byte(k)
				body = append(body, pi...)
				fr, ok := parse(lib.MkEther(mc6, macN(k), 0x86dd, lib.MkIP6(lla, all, 58, 255, lib.MkICMP6(lla, all, 134, 0, body))))
				if !ok {
					return "parse-rejected"
				}
				do(func() { icmp_spoofer.VerifSetRepeat(-1); h.ProcessPacket(fr) })
			}
			do(func() { h.PrintTable() })
			do(func() { h.Close() })
		case "arp":
			h, _ := arp_spoofer.New(s)
			router := netip.MustParseAddr("192.168.0.11")
			for k0 := 0; k0 < n && bad == ""; k0++ {
				k := key(k0)
				if k0%16 == 0 && k0/16 < 150 {
					do(func() { h.StartHunt(packet.Addr{MAC: macN(k), IP: ip4N(k)}) })
				}
				a := lib.MkARP(1, macN(k), ip4N(k), net.HardwareAddr{0, 0, 0, 0, 0, 0}, router)
				fr, ok := parse(lib.MkEther(packet.EthBroadcast, macN(k), 0x0806, a))
				if !ok {
					return "parse-rejected"
				}
				do(func() { h.ProcessPacket(fr) })
			}
			do(func() { h.PrintTable() })
			do(func() { h.Close() })
		default:
			return "no-table"
		}
		if bad != "" {
			return bad
		}
		return fmt.Sprintf("ret:%d", n)
	}
	// limits: comparison of the source with the model's list (the implementation side is the source)
	impls["limits"] = func(a []string) string { return "ok" }
}
