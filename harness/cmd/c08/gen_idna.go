package main

// Inputs that the third-party transformation inside a walker ACCEPTS: DNSSearchList.unmarshal
// passes every label through puny.ToUnicode; the decoded text has a different length than the wire
// label for real IDNA A-labels.  A dictionary of A-labels that expand, shrink and keep their length
// (plus invalid xn-- labels, mixed case, labels that decode to odd text) is placed at every label
// position of DNSSL options packed so that the name ends exactly at the option end, one byte short
// and one byte over; through the decoder (ndp), the exported view (ra) and the full path (icmp6).

import (
	"net"

	"github.com/irai/packet"
	"pvharness/lib"
)

var aLabels = []string{
	"xn--80akhbyknj4f",                             // испытание: 16 octets -> 18 bytes of UTF-8 (expands)
	"xn--e1afmkfd",                                 // пример: 12 -> 12 (same length)
	"xn--p1ai",                                     // рф: 8 -> 4 (shrinks)
	"xn--bcher-kva",                                // bücher: 13 -> 7
	"xn--mnchen-3ya",                               // münchen: 14 -> 8
	"xn--fiqs8s",                                   // 中国: 10 -> 6
	"xn--wgv71a119e",                               // 日本語: 14 -> 9
	"xn--zckzah",                                   // テスト: 10 -> 9
	"xn--hxajbheg2az3al",                           // παράδειγμα: 18 -> 20 (expands)
	"xn--9t4b11yi5a",                               // 테스트: 14 -> 9
	"xn--kgbechtv",                                 // إختبار: 12 -> 12
	"xn--a",                                        // one letter after the prefix
	"XN--80AKHBYKNJ4F", "Xn--p1ai", "xN--E1AFMKFD", // mixed case prefix / body
	"xn--", "xn---", "xn--0", "xn--zzzzzzzzzz", "xn--80akhbyknj4", "xn--80akhbyknj4ff", "xn--a-", "xn---a", // invalid / odd punycode
	"xn--nxa", "xn--tda", "xn--4ca", // single non-ASCII letters
	"a", "ab", "example",
}

func genIDNA(cl *caseList, rng *lib.Rand) {
	mkOption := func(labels [][]string, pad int) []byte {
		v := []byte{0, 0, 0, 0, 0, 60} // reserved, lifetime
		for _, dom := range labels {
			for _, l := range dom {
				v = append(append(v, byte(len(l))), l...)
			}
			v = append(v, 0)
		}
		v = append(v, make([]byte, pad)...)
		return v
	}
	emit := func(class string, v []byte) {
		// v = value bytes behind type/length; only complete options (multiple of 8) are well-formed,
		// the others are cut or padded to show both neighbours
		for _, total := range []int{(len(v) + 2) / 8 * 8, (len(v) + 2 + 7) / 8 * 8} {
			if total < 8 {
				continue
			}
			o := make([]byte, total)
			o[0], o[1] = 31, byte(total/8)
			copy(o[2:], v)
			cl.add("idna."+class, "ndp", hx(o), "-")
			ra := append(append([]byte{134, 0, 0, 0, 64, 0, 7, 8, 0, 0, 0, 0, 0, 0, 0, 0}, optLLA(1, rng)...), o...)
			cl.add("idna."+class+".ra", "ra", hx(ra), "-")
			if class == "exact" {
				body := append(append([]byte{64, 0x40, 7, 8, 0, 0, 0, 0, 0, 0, 0, 0}, optLLA(1, rng)...), o...)
				f := lib.MkEther(net.HardwareAddr{0x33, 0x33, 0, 0, 0, 1}, peerMAC, 0x86dd,
					lib.MkIP6(peerLLA, allNodes, 58, 255, lib.MkICMP6(peerLLA, allNodes, 134, 0, body)))
				addProc(cl, "icmp6", "idna", f, packet.PayloadICMP6,
					func(_ []byte, hostNil bool) []string { return []string{tf(rng.Bool()), lastIP6, tf(!hostNil), "F"} })
			}
		}
	}
	for _, al := range aLabels {
		for pos := 0; pos < 3; pos++ {
			dom := []string{"ab", "cd", "ef"}
			dom[pos] = al
			// the name alone, last in the option: filler label sized so that 2+6+name+1 is a multiple of 8
			for _, before := range [][]string{nil, {"local"}} {
				base := [][]string{}
				if before != nil {
					base = append(base, before)
				}
				need := func(extra int) int { return (8 - (2+len(mkOption(append(base, dom), 0))+extra)%8) % 8 }
				k := need(0)
				exact := append([]string{}, dom...)
				if k == 1 { // a filler label needs a length byte and at least one letter
					k = 9
				}
				if k >= 2 {
					fill := make([]byte, k-1)
					for i := range fill {
						fill[i] = 'z'
					}
					// keep the A-label LAST when pos == 2 (the cursor arithmetic is used right after it)
					if pos == 2 {
						exact = append([]string{string(fill)}, exact...)
					} else {
						exact = append(exact, string(fill))
					}
				}
				emit("exact", mkOption(append(base, exact), 0))  // ends exactly at the option end
				emit("short", mkOption(append(base, exact), 1))  // one padding byte
				emit("padded", mkOption(append(base, exact), 7)) // almost a whole unit of padding
				v := mkOption(append(base, exact), 0)
				emit("noterm", v[:len(v)-1]) // the terminating zero is missing
				emit("over", append(v, 1))   // one byte beyond the terminator
			}
		}
		// the A-label as the ONLY label of the only domain
		emit("single", mkOption([][]string{{al}}, 0))
		// two domains that are both A-labels
		emit("pair", mkOption([][]string{{al, "xn--p1ai"}, {"xn--80akhbyknj4f", al}}, 0))
	}
}
