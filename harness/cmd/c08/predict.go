package main

// Budgeting only: a Go-side walk over the structured view that predicts whether the mDNS /
// NBNS loop will spin, so that the number of endless-loop cases per generator class can be
// capped (each costs its time-out).  Never used for a verdict.

type pst struct {
	section, index, pos int
	valid               bool
}

func (v *msgView) count(sec int) int {
	switch sec {
	case 3:
		return v.an
	case 4:
		return v.ns
	case 5:
		return v.ar
	}
	return 0
}

// header: 0 ok, 1 section done, 2 error
func (v *msgView) header(st *pst, sec int) (int, *recView) {
	if st.section < sec {
		return 2, nil
	}
	if st.section > sec {
		return 1, nil
	}
	st.valid = false
	if st.index == v.count(sec) {
		st.index = 0
		st.section++
		return 1, nil
	}
	if st.pos >= len(v.recs) || !v.recs[st.pos].hdrOK {
		return 2, nil
	}
	st.valid = true
	return 0, &v.recs[st.pos]
}

func (st *pst) consume() { st.index++; st.pos++; st.valid = false }

func predictSpinMDNS(v *msgView) bool {
	if !v.startOK || !v.response || !v.skipQ {
		return false
	}
	st := pst{section: 3}
	sec := 3
	for n := 0; n < 2*len(v.recs)+16; n++ {
		before := st
		bsec := sec
		code, r := v.header(&st, sec)
		if code == 1 {
			if sec == 5 {
				return false
			}
			sec++
			continue
		}
		if code == 2 {
			return false
		}
		skip := func() {
			if st.valid && st.section == 3 && r.fits {
				st.consume()
			}
		}
		switch r.typ {
		case 1, 28:
			if !r.bodyOK {
				return false
			}
			st.consume()
		case 12, 33, 16, 41:
			if r.bodyOK {
				st.consume()
			} else {
				skip()
			}
		default:
			skip()
		}
		if st == before && sec == bsec {
			return true
		}
	}
	return true
}

func predictSpinNBNS(v *msgView) bool {
	if !v.valid || !v.startOK || !v.response || !v.skipQ {
		return false
	}
	st := pst{section: 3}
	for n := 0; n < 2*len(v.recs)+8; n++ {
		code, r := v.header(&st, 3)
		if code != 0 {
			return false
		}
		if r.typ != 0x21 {
			return true
		}
		if !r.fits {
			return false
		}
		st.consume()
		// a non-empty table returns; whether it is non-empty is not predicted: assume it continues
	}
	return false
}
