package main

// Side pass: the structured view of a DNS message that the abstract parser
// model (coq/Model/HandlersDnsMsg.v) works on, derived by running
// dnsmessage.Parser itself on copies of its state.

import (
	"fmt"
	"strings"

	"golang.org/x/net/dns/dnsmessage"
	"pvharness/lib"
)

type recView struct {
	hdrOK, bodyOK, fits, rawSkip bool
	typ                          int
	data                         []byte
}

type msgView struct {
	valid, startOK, response, skipQ bool
	an, ns, ar                      int
	recs                            []recView
}

func tf(b bool) string {
	if b {
		return "T"
	}
	return "F"
}

func (v *msgView) tokens(withValid bool) []string {
	var rs []string
	for _, r := range v.recs {
		rs = append(rs, fmt.Sprintf("%s,%d,%s,%s,%s,%s", tf(r.hdrOK), r.typ, tf(r.bodyOK), tf(r.fits), tf(r.rawSkip), lib.Hex(r.data)))
	}
	recs := "-"
	if len(rs) > 0 {
		recs = strings.Join(rs, ";")
	}
	t := []string{}
	if withValid {
		t = append(t, tf(v.valid))
	}
	return append(t, tf(v.startOK), tf(v.response), tf(v.skipQ), fmt.Sprint(v.an), fmt.Sprint(v.ns), fmt.Sprint(v.ar), recs)
}

// typed applies the parser the mDNS handler applies to this record type.
func typed(p *dnsmessage.Parser, t dnsmessage.Type) error {
	var err error
	switch t {
	case dnsmessage.TypeA:
		_, err = p.AResource()
	case dnsmessage.TypeAAAA:
		_, err = p.AAAAResource()
	case dnsmessage.TypePTR:
		_, err = p.PTRResource()
	case dnsmessage.TypeSRV:
		_, err = p.SRVResource()
	case dnsmessage.TypeTXT:
		_, err = p.TXTResource()
	case dnsmessage.TypeOPT:
		_, err = p.OPTResource()
	default:
		err = fmt.Errorf("untyped")
	}
	return err
}

func viewOf(msg []byte) *msgView {
	v := &msgView{valid: len(msg) >= 12}
	var p dnsmessage.Parser
	hdr, err := p.Start(msg)
	if err != nil {
		return v
	}
	v.startOK = true
	v.response = hdr.Response
	// counts straight from the wire (independent of the parser)
	v.an = int(msg[6])<<8 | int(msg[7])
	v.ns = int(msg[8])<<8 | int(msg[9])
	v.ar = int(msg[10])<<8 | int(msg[11])
	if err := p.SkipAllQuestions(); err != nil {
		return v
	}
	v.skipQ = true
	type secOps struct {
		header func(*dnsmessage.Parser) (dnsmessage.ResourceHeader, error)
		skip   func(*dnsmessage.Parser) error
	}
	secs := []secOps{
		{(*dnsmessage.Parser).AnswerHeader, (*dnsmessage.Parser).SkipAnswer},
		{(*dnsmessage.Parser).AuthorityHeader, (*dnsmessage.Parser).SkipAuthority},
		{(*dnsmessage.Parser).AdditionalHeader, (*dnsmessage.Parser).SkipAdditional},
	}
	for _, s := range secs {
		for {
			pre := p // state at the record start, no header pending
			h, err := s.header(&p)
			if err == dnsmessage.ErrSectionDone {
				break
			}
			if err != nil {
				v.recs = append(v.recs, recView{})
				return v
			}
			r := recView{hdrOK: true, typ: int(h.Type)}
			t := p
			r.bodyOK = typed(&t, h.Type) == nil
			u := p
			if ur, e := u.UnknownResource(); e == nil {
				r.data = ur.Data
			}
			sk := p
			r.fits = s.skip(&sk) == nil
			raw := pre
			r.rawSkip = s.skip(&raw) == nil
			v.recs = append(v.recs, r)
			if !r.fits {
				// no way to get behind this record inside the message: if a typed parser
				// consumes it anyway the offset lies beyond the message and every later
				// header fails, which is what the model assumes beyond the stream
				return v
			}
			p = sk
		}
	}
	return v
}
