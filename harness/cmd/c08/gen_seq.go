package main

// Generators of stateful histories (kind "seq"): 2..6 well-formed and malformed frames from the
// same source to one handler, with state that grows with the input, debug logging on in a share
// of the runs, every RA processed.  Frames Parse rejects are left out at generation time.

import (
	"net"
	"net/netip"
	"strings"

	"github.com/irai/packet"
	"pvharness/lib"
)

func parses(f []byte) bool {
	genSessOnce.Do(func() { genSess, _ = lib.NewSession() })
	ok := false
	func() {
		defer func() { recover() }()
		_, err := genSess.Parse(exact(f))
		ok = err == nil
	}()
	return ok
}

func addSeq(cl *caseList, rng *lib.Rand, class string, frames [][]byte) {
	var hs []string
	for _, f := range frames {
		if len(f) <= 1514 && parses(f) {
			hs = append(hs, hx(f))
		}
	}
	if len(hs) == 0 {
		return
	}
	for _, dbg := range []bool{false, true} {
		cl.add("seq."+class, "seq", tf(dbg), tf(rng.Chance(40)), strings.Join(hs, ","))
	}
}

func genSeq(cl *caseList, rng *lib.Rand, scale int) {
	mc := net.HardwareAddr{0x33, 0x33, 0, 0, 0, 1}
	ra6 := func(opts []byte) []byte {
		body := append([]byte{64, 0x40, 0x07, 0x08, 0, 0, 0, 0, 0, 0, 0, 0}, opts...)
		return lib.MkEther(mc, peerMAC, 0x86dd, lib.MkIP6(peerLLA, allNodes, 58, 255, lib.MkICMP6(peerLLA, allNodes, 134, 0, body)))
	}
	pi := func(k int) []byte {
		o := make([]byte, 32)
		o[0], o[1], o[2], o[3] = 3, 4, 64, 0xc0
		o[16], o[17], o[18], o[19], o[23] = 0x20, 0x01, 0x0d, 0xb8, byte(k)
		o[22] = byte(k >> 8)
		return o
	}
	prefixes := func(n, first int) []byte {
		var b []byte
		for k := 0; k < n; k++ {
			b = append(b, pi(first+k)...)
		}
		return b
	}
	rdnss := func(n int) []byte {
		o := make([]byte, 8+16*n)
		o[0], o[1] = 25, byte(1+2*n)
		o[7] = 60
		for k := 0; k < n; k++ {
			o[8+16*k], o[8+16*k+1], o[8+16*k+15] = 0x20, 0x01, byte(k)
		}
		return o
	}
	dnssl := func(units int) []byte {
		o := make([]byte, 8*units)
		o[0], o[1], o[7] = 31, byte(units), 60
		v := o[8:]
		for i := 0; i+8 < len(v); i += 8 { // domains "aaaaaa." of 7+1 bytes
			v[i] = 6
			for k := 1; k <= 6; k++ {
				v[i+k] = 'a' + byte(i/8%26)
			}
			v[i+7] = 0
		}
		return o
	}
	slla := append([]byte{1, 1}, peerMAC...)
	// ---- ICMPv6: router advertisements that build up state, then change / remove it
	for _, n := range []int{1, 12, 13, 14, 15, 20, 40} {
		for _, m := range []int{1, 14, 40} {
			addSeq(cl, rng, "ra.prefixes", [][]byte{
				ra6(append(append([]byte{}, slla...), prefixes(n, 1)...)),
				ra6(append(append([]byte{}, slla...), prefixes(m, 100)...)), // first prefix differs
				ra6(append(append([]byte{}, slla...), prefixes(n, 1)...)),   // and back
				ra6(slla), // prefixes removed
				ra6(append(append([]byte{}, slla...), prefixes(1, 7)...)),
			})
		}
	}
	for _, n := range []int{1, 8, 40, 80} {
		addSeq(cl, rng, "ra.rdnss", [][]byte{
			ra6(append(append(append([]byte{}, slla...), prefixes(2, 1)...), rdnss(n)...)),
			ra6(append(append(append([]byte{}, slla...), prefixes(2, 9)...), rdnss(1)...)),
			ra6(append(append([]byte{}, slla...), rdnss(n)...)),
		})
	}
	for _, u := range []int{2, 31, 64, 150} {
		addSeq(cl, rng, "ra.dnssl", [][]byte{
			ra6(append(append(append([]byte{}, slla...), prefixes(14, 1)...), dnssl(u)...)),
			ra6(append(append(append([]byte{}, slla...), prefixes(14, 50)...), dnssl(2)...)),
			ra6(append(append([]byte{}, slla...), dnssl(u)...)),
		})
	}
	for k := 0; k < 10*scale; k++ { // mixed ND traffic around RAs, malformed frames in between
		b1, _ := optBlock(rng, 1+rng.Intn(5))
		b2, offs := optBlock(rng, 1+rng.Intn(5))
		bad := append([]byte{}, b2...)
		bad[offs[rng.Intn(len(offs))]+1] = byte(rng.Pick(0, 1, 9, 255))
		ns := append(append([]byte{0, 0, 0, 0}, netip.MustParseAddr("2001:db8::50").AsSlice()...), slla...)
		na := append(append([]byte{0x20, 0, 0, 0}, peerLLA.AsSlice()...), 2, 1, 2, 0x11, 0x22, 0x33, 0x44, 0x55)
		mk := func(t byte, body []byte) []byte {
			return lib.MkEther(mc, peerMAC, 0x86dd, lib.MkIP6(peerLLA, allNodes, 58, 255, lib.MkICMP6(peerLLA, allNodes, t, 0, body)))
		}
		addSeq(cl, rng, "nd.mixed", [][]byte{
			ra6(append(append([]byte{}, slla...), b1...)), mk(135, ns), ra6(bad), mk(136, na),
			ra6(append(append([]byte{}, slla...), b2...)), mk(133, append([]byte{0, 0, 0, 0}, slla...)),
		})
	}

	// ---- DHCPv4: DISCOVER / REQUEST / DECLINE / RELEASE histories with maximal-size options
	zero, bc := netip.AddrFrom4([4]byte{}), netip.MustParseAddr("255.255.255.255")
	dh := func(mt byte, extra ...[]byte) []byte {
		p := make([]byte, 240)
		p[0], p[1], p[2] = 1, 1, 6
		copy(p[4:8], []byte{9, 9, 9, 9})
		copy(p[28:34], peerMAC)
		copy(p[236:240], []byte{99, 130, 83, 99})
		p = append(p, 53, 1, mt)
		for _, e := range extra {
			p = append(p, e...)
		}
		p = append(p, 255)
		for len(p) < 300 {
			p = append(p, 0)
		}
		return lib.MkEther(bcast, peerMAC, 0x0800, lib.MkIP4(zero, bc, 17, 64, lib.MkUDP(68, 67, p)))
	}
	opt := func(code byte, v []byte) []byte { return append([]byte{code, byte(len(v))}, v...) }
	long := func(n int, c byte) []byte { return []byte(strings.Repeat(string(rune(c)), n)) }
	for _, hn := range []int{4, 63, 200, 255} {
		for _, cid := range []int{7, 60, 255} {
			name, id := opt(12, long(hn, 'h')), opt(61, long(cid, 7))
			prl := opt(55, lib.NewRand(uint64(hn*cid)).Bytes(rng.Pick(4, 60, 255)))
			req := opt(50, []byte{192, 168, 0, 77})
			sid := opt(54, []byte{192, 168, 0, 129})
			addSeq(cl, rng, "dhcp.handshake", [][]byte{
				dh(1, name, id, prl), dh(1, name, id), dh(3, name, id, req, sid, prl), dh(3, id, req),
				dh(4, id, req, sid), dh(7, id, sid),
			})
		}
	}
	for k := 0; k < 6*scale; k++ {
		var fs [][]byte
		for j := 0; j < 2+rng.Intn(5); j++ {
			mt := byte(rng.Pick(1, 3, 3, 4, 7, 8, 2, 5, 6))
			var ex [][]byte
			if rng.Bool() {
				ex = append(ex, opt(12, long(rng.Pick(1, 100, 255), 'n')))
			}
			if rng.Bool() {
				ex = append(ex, opt(61, long(rng.Pick(0, 1, 16, 255), 3)))
			}
			if rng.Bool() {
				ex = append(ex, opt(50, []byte{192, 168, 0, byte(rng.Intn(256))}))
			}
			if rng.Bool() {
				ex = append(ex, opt(54, []byte{192, 168, 0, byte(rng.Pick(129, 11))}))
			}
			fs = append(fs, dh(mt, ex...))
		}
		addSeq(cl, rng, "dhcp.random", fs)
	}

	// ---- mDNS / DNS / NBNS / SSDP: many and long records, then changed ones
	u4 := func(sp, dp uint16, dst netip.Addr, dmac net.HardwareAddr, pl []byte) []byte {
		return lib.MkEther(dmac, peerMAC, 0x0800, lib.MkIP4(peerIP4, dst, 17, 64, lib.MkUDP(sp, dp, pl)))
	}
	lname := func(c byte) []byte { // a 4 x 63 byte name
		var b []byte
		for k := 0; k < 3; k++ {
			b = append(append(b, 63), long(63, c)...)
		}
		return append(append(append(b, 5), "local"...), 0)
	}
	for _, n := range []int{1, 10, 40} {
		mk := func(c byte, txt int) []byte {
			m := &dnsMsg{id: 7, flags: 0x8400, qd: -1, an: -1, ns: -1, ar: -1}
			for k := 0; k < n; k++ {
				m.sec[0] = append(m.sec[0], rr{name: lname(c), typ: 1, class: 1, rdata: []byte{192, 168, 0, byte(k)}, rdlen: -1})
			}
			t := long(txt, 'm')
			m.sec[0] = append(m.sec[0], rr{name: lname(c), typ: 16, class: 1, rdata: append([]byte{byte(len(t))}, t...), rdlen: -1})
			m.sec[2] = append(m.sec[2], rr{name: lname(c), typ: 28, class: 1, rdata: make([]byte, 16), rdlen: -1})
			return m.bytes()
		}
		m5 := netip.MustParseAddr("224.0.0.251")
		addSeq(cl, rng, "mdns.growing", [][]byte{
			u4(5353, 5353, m5, net.HardwareAddr{1, 0, 0x5e, 0, 0, 0xfb}, mk('a', 200)),
			u4(5353, 5353, m5, net.HardwareAddr{1, 0, 0x5e, 0, 0, 0xfb}, mk('b', 255)),
			u4(5353, 5353, m5, net.HardwareAddr{1, 0, 0x5e, 0, 0, 0xfb}, mk('a', 1)),
		})
		// unicast DNS answers: A / CNAME chains of long names merged into one table entry
		dn := func(k int) []byte {
			m := &dnsMsg{id: k, flags: 0x8180, qd: -1, an: -1, ns: -1, ar: -1}
			m.questions = [][]byte{question(lname('q'), 1)}
			for j := 0; j < n && j < 12; j++ {
				m.sec[0] = append(m.sec[0], rr{name: lname('q'), typ: 5, class: 1, rdata: lname(byte('c' + (j+k)%20)), rdlen: -1})
				m.sec[0] = append(m.sec[0], rr{name: lname('q'), typ: 1, class: 1, rdata: []byte{10, byte(k), 0, byte(j)}, rdlen: -1})
			}
			return m.bytes()
		}
		addSeq(cl, rng, "dns.merge", [][]byte{
			u4(53, 40000, netip.MustParseAddr("192.168.0.129"), hostMAC, dn(1)),
			u4(53, 40000, netip.MustParseAddr("192.168.0.129"), hostMAC, dn(2)),
			u4(53, 40000, netip.MustParseAddr("192.168.0.129"), hostMAC, dn(3)),
			u4(53, 40000, netip.MustParseAddr("192.168.0.129"), hostMAC, dn(4)),
		})
	}
	for k := 0; k < 4*scale; k++ {
		ns := func(n int) []byte {
			r := rr{name: nbName(rng), typ: 0x21, class: 1, rdata: nodeStatusRData(n, n, 46, rng), rdlen: -1}
			return (&dnsMsg{id: k, flags: 0x8400, qd: -1, an: -1, ns: -1, ar: -1, sec: [3][]rr{{r}, nil, nil}}).bytes()
		}
		addSeq(cl, rng, "nbns.repeat", [][]byte{
			u4(137, 137, netip.MustParseAddr("192.168.0.255"), bcast, ns(1)),
			u4(137, 137, netip.MustParseAddr("192.168.0.255"), bcast, ns(6)),
			u4(137, 137, netip.MustParseAddr("192.168.0.255"), bcast, ns(14)),
		})
		loc := "http://192.168.0.50:49152/" + strings.Repeat("x", rng.Pick(10, 500, 1200)) + ".xml"
		nt := "NOTIFY * HTTP/1.1\r\nHOST: 239.255.255.250:1900\r\nCACHE-CONTROL: max-age=1800\r\nLOCATION: " + loc +
			"\r\nNT: upnp:rootdevice\r\nNTS: ssdp:alive\r\nSERVER: " + strings.Repeat("S", rng.Pick(5, 300)) + "\r\nUSN: uuid:1\r\n\r\n"
		ms := "M-SEARCH * HTTP/1.1\r\nHOST: 239.255.255.250:1900\r\nMAN: \"ssdp:discover\"\r\nMX: 1\r\nST: ssdp:all\r\nUSER-AGENT: " +
			strings.Repeat("Chrome iPhone Windows ", rng.Pick(1, 40)) + "\r\n\r\n"
		addSeq(cl, rng, "ssdp.repeat", [][]byte{
			u4(1900, 1900, netip.MustParseAddr("239.255.255.250"), bcast, []byte(nt)),
			u4(40000, 1900, netip.MustParseAddr("239.255.255.250"), bcast, []byte(ms)),
			u4(1900, 1900, netip.MustParseAddr("239.255.255.250"), bcast, []byte(strings.Replace(nt, "ssdp:alive", "ssdp:byebye", 1))),
		})
	}

	// ---- ARP: probe / announce / request histories from one MAC with changing addresses
	router := netip.MustParseAddr("192.168.0.11")
	for k := 0; k < 8*scale; k++ {
		var fs [][]byte
		for j := 0; j < 3+rng.Intn(4); j++ {
			sip := netip.AddrFrom4([4]byte{192, 168, 0, byte(rng.Pick(50, 51, 52, 200))})
			if rng.Chance(30) {
				sip = zero
			}
			tip := []netip.Addr{router, sip, netip.AddrFrom4([4]byte{192, 168, 0, byte(rng.Intn(256))})}[rng.Intn(3)]
			a := lib.MkARP(uint16(rng.Pick(1, 1, 2)), peerMAC, sip, net.HardwareAddr{0, 0, 0, 0, 0, 0}, tip)
			fs = append(fs, lib.MkEther(bcast, peerMAC, 0x0806, a))
		}
		addSeq(cl, rng, "arp.history", fs)
	}
	_ = packet.PayloadARP
}
