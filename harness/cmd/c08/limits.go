package main

// Size limits of the handler packages, derived from the source on every run (go/ast): every
// integer value >= 64 that a `len(x)` is compared with (literal or package-level constant), and
// every package-level integer constant whose name starts with max/Max/limit/Limit.  One `limits`
// case per package: the model lists the values it knows (none = the tables are unbounded maps).
// A NEW limit is a tie alarm that names the package and the value, and the scale histories are
// sized beyond every limit found (each step is watched, so n > limit+2 walks limit-1, limit, limit+1).

import (
	"fmt"
	"go/ast"
	"go/parser"
	"go/token"
	"os"
	"path/filepath"
	"sort"
	"strconv"
	"strings"
)

func sourceLimits() map[string][]int {
	root := os.Getenv("VERIF_REPO")
	if root == "" {
		root = "/repo"
	}
	out := map[string][]int{}
	for _, pkg := range []string{"arp_spoofer", "icmp_spoofer", "dhcp4_spoofer", "dns_naming"} {
		fset := token.NewFileSet()
		files, _ := filepath.Glob(filepath.Join(root, "handlers", pkg, "*.go"))
		consts := map[string]int{}
		var afs []*ast.File
		for _, f := range files {
			if strings.HasSuffix(f, "_test.go") || strings.Contains(f, "verif_hooks") {
				continue
			}
			af, err := parser.ParseFile(fset, f, nil, 0)
			if err != nil {
				continue
			}
			afs = append(afs, af)
			for _, d := range af.Decls {
				gd, ok := d.(*ast.GenDecl)
				if !ok || gd.Tok != token.CONST {
					continue
				}
				for _, sp := range gd.Specs {
					vs := sp.(*ast.ValueSpec)
					for i, nm := range vs.Names {
						if i < len(vs.Values) {
							if bl, ok := vs.Values[i].(*ast.BasicLit); ok && bl.Kind == token.INT {
								if v, err := strconv.ParseInt(bl.Value, 0, 64); err == nil {
									consts[nm.Name] = int(v)
								}
							}
						}
					}
				}
			}
		}
		set := map[int]bool{}
		for nm, v := range consts {
			l := strings.ToLower(nm)
			if strings.HasPrefix(l, "max") || strings.HasPrefix(l, "limit") {
				set[v] = true
			}
		}
		val := func(e ast.Expr) (int, bool) {
			switch x := e.(type) {
			case *ast.BasicLit:
				if x.Kind == token.INT {
					v, err := strconv.ParseInt(x.Value, 0, 64)
					return int(v), err == nil
				}
			case *ast.Ident:
				v, ok := consts[x.Name]
				return v, ok
			}
			return 0, false
		}
		isLen := func(e ast.Expr) bool {
			c, ok := e.(*ast.CallExpr)
			if !ok {
				return false
			}
			id, ok := c.Fun.(*ast.Ident)
			return ok && id.Name == "len"
		}
		for _, af := range afs {
			ast.Inspect(af, func(n ast.Node) bool {
				b, ok := n.(*ast.BinaryExpr)
				if !ok {
					return true
				}
				switch b.Op {
				case token.LSS, token.LEQ, token.GTR, token.GEQ, token.EQL, token.NEQ:
				default:
					return true
				}
				if isLen(b.X) {
					if v, ok := val(b.Y); ok && v >= 64 {
						set[v] = true
					}
				}
				if isLen(b.Y) {
					if v, ok := val(b.X); ok && v >= 64 {
						set[v] = true
					}
				}
				return true
			})
		}
		var vs []int
		for v := range set {
			vs = append(vs, v)
		}
		sort.Ints(vs)
		out[pkg] = vs
	}
	return out
}

func genScale(cl *caseList, thorough bool) {
	lim := sourceLimits()
	n := 2600
	if thorough {
		n = 50000
	}
	for _, pkg := range []string{"arp_spoofer", "dhcp4_spoofer", "dns_naming", "icmp_spoofer"} {
		var ss []string
		for _, v := range lim[pkg] {
			ss = append(ss, fmt.Sprint(v))
			if v+16 > n && v < 200000 {
				n = v + 16
			}
		}
		tok := "-"
		if len(ss) > 0 {
			tok = strings.Join(ss, ",")
		}
		cl.add("limits", "limits", pkg, tok)
	}
	for _, t := range []string{"mdns", "dns", "nbns", "ssdp", "dhcp", "icmp6", "icmp6hunt", "arp"} {
		k := n
		if t == "dhcp" && !thorough {
			k = 1200 // every DISCOVER walks the lease table: quadratic
		}
		if t == "dhcp" && thorough {
			k = 6000
		}
		cl.add("scale."+t, "scale", t, fmt.Sprint(k))
	}
}

// sourceCounters: per handler package, the struct fields that are incremented / decremented / added to
// anywhere in the package (`x.f++`, `x.f--`, `x.f += e`, `x.f -= e`, `x.f = x.f + e`): per-entry
// counters are where "many events on one key" defects live (wrap-around, shift counts, moduli).
func sourceCounters() map[string][]string {
	root := os.Getenv("VERIF_REPO")
	if root == "" {
		root = "/repo"
	}
	out := map[string][]string{}
	for _, pkg := range []string{"arp_spoofer", "icmp_spoofer", "dhcp4_spoofer", "dns_naming"} {
		fset := token.NewFileSet()
		files, _ := filepath.Glob(filepath.Join(root, "handlers", pkg, "*.go"))
		set := map[string]bool{}
		for _, f := range files {
			if strings.HasSuffix(f, "_test.go") || strings.Contains(f, "verif_hooks") {
				continue
			}
			af, err := parser.ParseFile(fset, f, nil, 0)
			if err != nil {
				continue
			}
			field := func(e ast.Expr) (string, bool) {
				if s, ok := e.(*ast.SelectorExpr); ok {
					return s.Sel.Name, true
				}
				return "", false
			}
			ast.Inspect(af, func(n ast.Node) bool {
				switch v := n.(type) {
				case *ast.IncDecStmt:
					if nm, ok := field(v.X); ok {
						set[nm] = true
					}
				case *ast.AssignStmt:
					if len(v.Lhs) != 1 || len(v.Rhs) != 1 {
						return true
					}
					nm, ok := field(v.Lhs[0])
					if !ok {
						return true
					}
					switch v.Tok {
					case token.ADD_ASSIGN, token.SUB_ASSIGN:
						if _, isStr := v.Rhs[0].(*ast.BasicLit); !isStr || v.Rhs[0].(*ast.BasicLit).Kind == token.INT {
							set[nm] = true
						}
					case token.ASSIGN:
						if b, ok := v.Rhs[0].(*ast.BinaryExpr); ok && (b.Op == token.ADD || b.Op == token.SUB) {
							if n2, ok := field(b.X); ok && n2 == nm {
								set[nm] = true
							}
						}
					}
				}
				return true
			})
		}
		var vs []string
		for v := range set {
			vs = append(vs, v)
		}
		sort.Strings(vs)
		out[pkg] = vs
	}
	return out
}

func genRepeat(cl *caseList, thorough bool) {
	cs := sourceCounters()
	for _, pkg := range []string{"arp_spoofer", "dhcp4_spoofer", "dns_naming", "icmp_spoofer"} {
		tok := "-"
		if len(cs[pkg]) > 0 {
			tok = strings.Join(cs[pkg], ",")
		}
		cl.add("counters", "counters", pkg, tok)
	}
	n := 5000
	if thorough {
		n = 70000 // beyond 2^16: 16-bit per-entry counters wrap
	}
	for _, t := range []string{"mdns.same", "dns.same", "nbns.same", "ssdp.same", "dhcp.same", "dhcp.cycle", "icmp6.same", "icmp6hunt.same", "arp.same", "arp.cycle", "mdns.cycle"} {
		for _, dbg := range []string{"F", "T"} {
			k := n
			if strings.HasPrefix(t, "dhcp") && thorough {
				k = 70000
			}
			cl.add("repeat."+t, "scale", t, fmt.Sprint(k), dbg)
		}
	}
}
