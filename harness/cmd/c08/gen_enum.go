package main

// Full value domain of the one-byte enumerations the processors and decoders switch on or index
// with: every value 0..255 (boundary values for 16-bit fields) with the rest of the packet valid,
// through the full Parse -> dispatch -> processor path and through the decoders directly.  The
// models return for every value, so a table lookup / switch without a default that panics for an
// unexpected value is a correspondence failure (implementation panic, model ret/ok).

import (
	"fmt"
	"net"
	"net/netip"

	"github.com/irai/packet"
	"pvharness/lib"
)

// addFrame parses the frame (generation side pass) and emits the case kind of whatever PayloadID
// class Parse puts it in, with the state flags drawn at random.
func addFrame(cl *caseList, rng *lib.Rand, class string, f []byte) {
	genSessOnce.Do(func() { genSess, _ = lib.NewSession() })
	var pid packet.PayloadID
	var payload []byte
	var hostNil bool
	ip6 := "nil"
	ok := func() (ok bool) {
		defer func() { recover() }()
		frame, err := genSess.Parse(exact(f))
		if err != nil {
			return false
		}
		pid, payload, hostNil = frame.PayloadID, frame.Payload(), frame.Host == nil
		if v := frame.IP6(); v != nil {
			ip6 = hx(v)
		}
		return true
	}()
	if !ok {
		cl.dropped["enum.rejected"]++
		return
	}
	switch pid {
	case packet.PayloadARP:
		cl.add("arp."+class, "arp", hx(f), hx(payload), tf(rng.Chance(10)), tf(rng.Bool()), tf(rng.Bool()), tf(rng.Chance(30)))
	case packet.PayloadICMP4:
		cl.add("icmp4."+class, "icmp4", hx(f), hx(payload), tf(rng.Bool()))
	case packet.PayloadICMP6:
		cl.add("icmp6."+class, "icmp6", hx(f), hx(payload), tf(rng.Bool()), ip6, tf(!hostNil), tf(rng.Chance(30)))
	case packet.PayloadDHCP4:
		captured := rng.Chance(20)
		dp := int(f[36])<<8 | int(f[37])
		if len(f) > 38 && f[12] == 8 && f[13] == 0 && f[14]&0x0f == 5 {
			cl.add("dhcp4."+class, "dhcp4", hx(f), hx(payload), tf(dp == 68), dhcpReplyOf(f, captured), tf(rng.Bool()), tf(captured))
		}
	case packet.PayloadDNS:
		cl.add("dnsproc."+class, "dnsproc", hx(f))
	case packet.PayloadMDNS:
		cl.add("mdns."+class, "mdns", append([]string{hx(payload)}, viewOf(payload).tokens(false)...)...)
	case packet.PayloadLLMNR:
		cl.add("llmnr."+class, "llmnr", append([]string{hx(payload)}, viewOf(payload).tokens(false)...)...)
	case packet.PayloadNBNS:
		cl.add("nbns."+class, "nbns", append([]string{hx(payload)}, viewOf(payload).tokens(true)...)...)
	case packet.PayloadSSDP:
		v := ssdpViewOf(payload)
		cl.add("ssdp."+class, "ssdp", hx(payload), fmt.Sprint(v.kind), tf(v.httpOK), fmt.Sprint(v.nts), tf(v.methodNotify), hx(v.cc), tf(v.manOK), tf(v.statusOK))
	case packet.Payload8023:
		cl.add("p8023."+class, "p8023", hx(f), hx(payload))
	default:
		cl.add(fmt.Sprintf("other.%s.%s", pid, class), "other", hx(f), fmt.Sprint(int(pid)), hx(payload))
	}
}

func genEnumSweep(cl *caseList, rng *lib.Rand) {
	zero4 := netip.AddrFrom4([4]byte{})
	bc4 := netip.MustParseAddr("255.255.255.255")
	host4 := netip.MustParseAddr("192.168.0.129")
	router4 := netip.MustParseAddr("192.168.0.11")
	u4 := func(sp, dp uint16, src, dst netip.Addr, dmac net.HardwareAddr, pl []byte) []byte {
		return lib.MkEther(dmac, peerMAC, 0x0800, lib.MkIP4(src, dst, 17, 64, lib.MkUDP(sp, dp, pl)))
	}

	// ---- DHCP message type 0..255: server path (port 67) and client path (port 68) x
	//      server identifier ours / other / zero / missing x chaddr ordinary / attack prefix
	sids := [][]byte{{192, 168, 0, 129}, {192, 168, 0, 11}, {0, 0, 0, 0}, nil}
	chs := [][]byte{{0x02, 0x11, 0x22, 0x33, 0x44, 0x55}, {0xff, 0xee, 0xdd, 0xcc, 0xbb, 0x07}}
	dmsg := func(op byte, mt int, sid, ch []byte) []byte {
		p := make([]byte, 240)
		p[0], p[1], p[2] = op, 1, 6
		copy(p[4:8], []byte{1, 2, 3, 4})
		copy(p[16:20], []byte{192, 168, 0, 60})
		copy(p[28:34], ch)
		copy(p[236:240], []byte{99, 130, 83, 99})
		p = append(p, 53, 1, byte(mt))
		if sid != nil {
			p = append(append(p, 54, 4), sid...)
		}
		p = append(p, 50, 4, 192, 168, 0, 60, 12, 2, 'p', 'c', 255)
		return append(p, make([]byte, 48)...)
	}
	for mt := 0; mt < 256; mt++ {
		for si, sid := range sids {
			for ci, ch := range chs {
				cls := fmt.Sprintf("enum.msgtype.sid%d.ch%d", si, ci)
				addFrame(cl, rng, cls+".client", u4(67, 68, router4, bc4, bcast, dmsg(2, mt, sid, ch)))
				if ci == 0 {
					addFrame(cl, rng, cls+".server", u4(68, 67, zero4, bc4, bcast, dmsg(1, mt, sid, ch)))
				}
			}
		}
	}
	// ---- DHCP op / htype / hlen / option code, through the path and directly
	for v := 0; v < 256; v++ {
		for _, field := range []int{0, 1, 2} {
			m := dmsg(1, 1, nil, chs[0])
			m[field] = byte(v)
			addFrame(cl, rng, fmt.Sprintf("enum.hdr%d", field), u4(68, 67, zero4, bc4, bcast, m))
			cl.add("dhcpvalid.enum", "dhcpvalid", hx(m), "-")
			m2 := dmsg(2, 2, sids[1], chs[0])
			m2[field] = byte(v)
			addFrame(cl, rng, fmt.Sprintf("enum.hdr%d.client", field), u4(67, 68, router4, bc4, bcast, m2))
		}
		m := dmsg(1, 3, nil, chs[0])
		m = append(m[:240], append([]byte{53, 1, 3, byte(v), 1, 7, 255}, make([]byte, 50)...)...)
		addFrame(cl, rng, "enum.optcode", u4(68, 67, zero4, bc4, bcast, m))
		cl.add("dhcpopt.enum", "dhcpopt", hx(m), "-")
	}

	// ---- ARP: operation (16 bit: every low byte with high byte 0 and 255, every high byte),
	//      htype / ptype / hlen / plen bytes
	arp := func() []byte {
		return lib.MkARP(1, peerMAC, peerIP4, net.HardwareAddr{0, 0, 0, 0, 0, 0}, router4)
	}
	for v := 0; v < 256; v++ {
		for _, hi := range []byte{0, 1, 255} {
			a := arp()
			a[6], a[7] = hi, byte(v)
			addFrame(cl, rng, "enum.op", lib.MkEther(bcast, peerMAC, 0x0806, a))
		}
		a := arp()
		a[6], a[7] = byte(v), 1
		addFrame(cl, rng, "enum.op", lib.MkEther(bcast, peerMAC, 0x0806, a))
		for i := 0; i < 6; i++ {
			a := arp()
			a[i] = byte(v)
			addFrame(cl, rng, fmt.Sprintf("enum.hdr%d", i), lib.MkEther(bcast, peerMAC, 0x0806, a))
		}
	}

	// ---- ICMPv4 type x code; embedded protocol of destination unreachable
	inner := lib.MkIP4(host4, netip.MustParseAddr("8.8.8.8"), 17, 64, lib.MkUDP(5000, 53, []byte{1, 2, 3, 4}))
	for v := 0; v < 256; v++ {
		for _, code := range []byte{0, 3, 255} {
			b := append([]byte{byte(v), code, 0, 0, 0, 0, 0, 0}, inner...)
			addFrame(cl, rng, "enum.type", lib.MkEther(hostMAC, peerMAC, 0x0800, lib.MkIP4(peerIP4, host4, 1, 64, b)))
		}
		for _, t := range []byte{3, 5, 11} {
			b := append([]byte{t, byte(v), 0, 0, 0, 0, 0, 0}, inner...)
			addFrame(cl, rng, "enum.code", lib.MkEther(hostMAC, peerMAC, 0x0800, lib.MkIP4(peerIP4, host4, 1, 64, b)))
		}
		in2 := append([]byte{}, inner...)
		in2[9] = byte(v)
		b := append([]byte{3, 3, 0, 0, 0, 0, 0, 0}, in2...)
		addFrame(cl, rng, "enum.innerproto", lib.MkEther(hostMAC, peerMAC, 0x0800, lib.MkIP4(peerIP4, host4, 1, 64, b)))
	}

	// ---- ICMPv6 type x code, over IPv6 and over IPv4 (protocol 58); NDP option type in an RA
	body6 := func(t, c byte) []byte {
		b := append([]byte{t, c, 0, 0, 0x20, 0, 0, 0}, peerLLA.AsSlice()...)
		b = append(b, 2, 1, 2, 3, 4, 5, 6, 7) // TLLA / SLLA shaped option
		return append(b, make([]byte, 16)...) // up to the redirect minimum of 40
	}
	for v := 0; v < 256; v++ {
		for _, c := range []byte{0, 1, 255} {
			b := body6(byte(v), c)
			addFrame(cl, rng, "enum.type", lib.MkEther(net.HardwareAddr{0x33, 0x33, 0, 0, 0, 1}, peerMAC, 0x86dd,
				lib.MkIP6(peerLLA, allNodes, 58, 255, lib.MkICMP6(peerLLA, allNodes, byte(v), c, b[4:]))))
		}
		addFrame(cl, rng, "enum.type.in-ipv4", lib.MkEther(hostMAC, peerMAC, 0x0800, lib.MkIP4(peerIP4, host4, 58, 64, body6(byte(v), 0))))
		for _, t := range []byte{134, 135, 136} {
			addFrame(cl, rng, "enum.code", lib.MkEther(net.HardwareAddr{0x33, 0x33, 0, 0, 0, 1}, peerMAC, 0x86dd,
				lib.MkIP6(peerLLA, allNodes, 58, 255, lib.MkICMP6(peerLLA, allNodes, t, byte(v), body6(t, byte(v))[4:]))))
		}
		// NDP option type with the length of its regular shape and with length 1
		for _, units := range []int{1, 2, 3, 4} {
			o := make([]byte, 8*units)
			o[0], o[1] = byte(v), byte(units)
			ra := append([]byte{64, 0x40, 7, 8, 0, 0, 0, 0, 0, 0, 0, 0}, o...)
			addFrame(cl, rng, "enum.ndpopt", lib.MkEther(net.HardwareAddr{0x33, 0x33, 0, 0, 0, 1}, peerMAC, 0x86dd,
				lib.MkIP6(peerLLA, allNodes, 58, 255, lib.MkICMP6(peerLLA, allNodes, 134, 0, ra))))
			cl.add("ndp.enum", "ndp", hx(o), "-")
		}
	}

	// ---- IPv6 next header, IPv4 protocol, EtherType (low byte under the known high bytes), UDP ports
	for v := 0; v < 256; v++ {
		pl := make([]byte, 48)
		pl[0] = 0
		addFrame(cl, rng, "enum.nexthdr", lib.MkEther(hostMAC, peerMAC, 0x86dd, lib.MkIP6(peerLLA, hostLLA, byte(v), 64, pl)))
		addFrame(cl, rng, "enum.proto", lib.MkEther(hostMAC, peerMAC, 0x0800, lib.MkIP4(peerIP4, host4, byte(v), 64, pl)))
		for _, hi := range []uint16{0x00, 0x05, 0x06, 0x08, 0x69, 0x81, 0x86, 0x88, 0x89} {
			addFrame(cl, rng, "enum.ethertype", lib.MkEther(bcast, peerMAC, hi<<8|uint16(v), make([]byte, 46)))
		}
	}
	for _, port := range []uint16{53, 67, 68, 123, 137, 138, 443, 546, 547, 1900, 3702, 5353, 5355, 10001, 32412, 32414, 0, 65535} {
		for _, other := range []uint16{40000, port} {
			m := randResponse(rng, rrTypes, 1).bytes()
			addFrame(cl, rng, "enum.port", u4(other, port, peerIP4, host4, hostMAC, m))
			addFrame(cl, rng, "enum.port", u4(port, other, peerIP4, host4, hostMAC, m))
		}
	}

	// ---- DNS family: flags bytes (opcode, rcode, QR...), RR type / class bytes, question type
	for v := 0; v < 256; v++ {
		m := randResponse(rng, typedOK, 1)
		m.questions = [][]byte{question(hostName, 255)}
		m.sec[0] = append(m.sec[0], mkRR(1, rng))
		b := m.bytes()
		for _, port := range []uint16{53, 5353, 5355, 137} {
			for _, off := range []int{2, 3} {
				c := append([]byte{}, b...)
				c[off] = byte(v)
				if port == 53 {
					addFrame(cl, rng, "enum.flags", u4(53, 40000, peerIP4, host4, hostMAC, c))
				} else {
					addFrame(cl, rng, "enum.flags", u4(port, port, peerIP4, host4, hostMAC, c))
				}
			}
		}
		for s := 0; s < 3; s++ {
			for _, hi := range []int{0, 1, 255} {
				m2 := randResponse(rng, typedOK, 1)
				r := mkRR(99, rng)
				r.typ = hi<<8 | v
				m2.sec[s] = append(m2.sec[s], r)
				c := m2.bytes()
				addFrame(cl, rng, "enum.rrtype", u4(5353, 5353, peerIP4, host4, hostMAC, c))
				if s == 0 {
					addFrame(cl, rng, "enum.rrtype", u4(137, 137, peerIP4, host4, hostMAC, c))
					addFrame(cl, rng, "enum.rrtype", u4(53, 40000, peerIP4, host4, hostMAC, c))
				}
			}
		}
		m3 := randResponse(rng, typedOK, 1)
		r := mkRR(1, rng)
		r.class = v<<8 | 1
		m3.sec[0] = append(m3.sec[0], r)
		m3.questions = [][]byte{question(hostName, v)}
		addFrame(cl, rng, "enum.class", u4(53, 40000, peerIP4, host4, hostMAC, m3.bytes()))
		addFrame(cl, rng, "enum.class", u4(5353, 5353, peerIP4, host4, hostMAC, m3.bytes()))
	}

	// ---- LLDP TLV type (7 bits x length bit), LLC DSAP / SSAP / control, hop-by-hop option type
	for v := 0; v < 256; v++ {
		l := []byte{byte(v), 3, 1, 2, 3, 0, 0, 0, 0, 0, 0}
		cl.add("lldp.enum", "lldp", hx(l), "-", fmt.Sprint(v>>1))
		cl.add("lldp.enum", "lldp", hx(append(lldpTLV(1, 2, []byte{4, 5}), l...)), "-", "127")
		addFrame(cl, rng, "enum.tlv", lib.MkEther(bcast, peerMAC, 0x88cc, append(lldpTLV(1, 2, []byte{4, 5}), l...)))
		for i := 0; i < 3; i++ {
			p := []byte{0xaa, 0xaa, 3, 0, 0, 0, 8, 0, 1, 2, 3, 4}
			p[i] = byte(v)
			addFrame(cl, rng, "enum.llc", lib.MkEther(net.HardwareAddr{0x01, 0x80, 0xc2, 0, 0, 0}, peerMAC, uint16(len(p)), p))
		}
		for _, ol := range []byte{0, 2, 4} {
			h := []byte{58, 0, byte(v), ol, 0, 0, 0, 0}
			cl.add("hbh.enum", "hbh", hx(h), "-")
			cl.add("hbh.enum", "hbh", hx(append(h, 0, 0)), "-")
		}
	}
}
