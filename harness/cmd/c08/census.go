package main

// Source census (go/parser + go/ast on $VERIF_REPO, every run): every function reachable by name
// from the ProcessPacket / Process* / decoder entry points of the four handler packages and of
// package packet that contains a for/range loop (package packet) or a loop / index / slice
// expression (handler packages).  Package packet: one `census <func> <loops>` case per function;
// the model (Extract/D08.v census_table) answers whether the function is listed with that loop
// count and what covers it, and `censusall` checks that no listed function vanished.  Handler
// packages: reported as statistics only (helper extraction / inlining changes names and counts
// without changing behaviour: harmless/patch2), plus the existence of every entry point.

import (
	"fmt"
	"go/ast"
	"go/parser"
	"go/token"
	"os"
	"path/filepath"
	"sort"
	"strings"

	"pvharness/lib"
)

type censusFn struct {
	pkg, name      string
	loops, indexes int
	calls, sel     map[string]bool
}

var censusEntries = []string{"arp_spoofer:Handler.ProcessPacket", "icmp_spoofer:Handler6.ProcessPacket", "icmp_spoofer:Handler4.ProcessPacket",
	"dhcp4_spoofer:Handler.ProcessPacket", "dns_naming:DNSHandler.ProcessDNS", "dns_naming:DNSHandler.ProcessMDNS", "dns_naming:DNSHandler.ProcessNBNS",
	"dns_naming:DNSHandler.ProcessSSDP", "dns_naming:DNSHandler.UPNPServiceDiscovery", "packet:Process8023Frame",
	"packet:HopByHopExtensionHeader.ParseHopByHopExtensions", "packet:LLDP.GetPDU", "packet:DHCP4.IsValid", "packet:DHCP4.ParseOptions",
	"packet:ICMP6RouterAdvertisement.Options", "packet:ICMP6RouterSolicitation.Options", "packet:DecodeQuestion", "packet:DNSEntry.DecodeAnswers"}

func genCensus(cl *caseList, r *lib.Run) {
	root := os.Getenv("VERIF_REPO")
	if root == "" {
		root = "/repo"
	}
	dirs := map[string]string{"packet": ".", "arp_spoofer": "handlers/arp_spoofer", "icmp_spoofer": "handlers/icmp_spoofer",
		"dhcp4_spoofer": "handlers/dhcp4_spoofer", "dns_naming": "handlers/dns_naming"}
	fns := map[string]*censusFn{}
	byName := map[string][]string{}
	for pkg, d := range dirs {
		fset := token.NewFileSet()
		files, _ := filepath.Glob(filepath.Join(root, d, "*.go"))
		sort.Strings(files)
		for _, f := range files {
			if strings.HasSuffix(f, "_test.go") || strings.Contains(f, "verif_hooks") {
				continue
			}
			af, err := parser.ParseFile(fset, f, nil, 0)
			if err != nil {
				r.Viol("census-parse-error", "go/parser cannot read "+f+": "+err.Error(), "")
				continue
			}
			for _, dcl := range af.Decls {
				fd, ok := dcl.(*ast.FuncDecl)
				if !ok || fd.Body == nil {
					continue
				}
				name := fd.Name.Name
				if fd.Recv != nil && len(fd.Recv.List) > 0 {
					t := fd.Recv.List[0].Type
					if s, ok := t.(*ast.StarExpr); ok {
						t = s.X
					}
					if id, ok := t.(*ast.Ident); ok {
						name = id.Name + "." + name
					}
				}
				x := &censusFn{pkg: pkg, name: name, calls: map[string]bool{}, sel: map[string]bool{}}
				ast.Inspect(fd.Body, func(n ast.Node) bool {
					switch v := n.(type) {
					case *ast.ForStmt, *ast.RangeStmt:
						x.loops++
					case *ast.IndexExpr, *ast.SliceExpr:
						x.indexes++
					case *ast.CallExpr:
						switch f := v.Fun.(type) {
						case *ast.Ident:
							x.calls[f.Name] = true
						case *ast.SelectorExpr:
							x.sel[f.Sel.Name] = true
						}
					}
					return true
				})
				key := pkg + ":" + name
				fns[key] = x
				byName[pkg+":"+fd.Name.Name] = append(byName[pkg+":"+fd.Name.Name], key)
			}
		}
	}
	seen := map[string]bool{}
	var walk func(k string)
	walk = func(k string) {
		if seen[k] || fns[k] == nil {
			return
		}
		seen[k] = true
		x := fns[k]
		for c := range x.calls {
			for _, t := range byName[x.pkg+":"+c] {
				walk(t)
			}
		}
		for c := range x.sel {
			for _, t := range byName[x.pkg+":"+c] {
				walk(t)
			}
			if x.pkg != "packet" {
				for _, t := range byName["packet:"+c] {
					walk(t)
				}
			}
		}
	}
	for _, e := range censusEntries {
		if fns[e] == nil {
			r.Viol("census-entry-point-missing", "entry point "+e+" not found in the source", "")
		}
		walk(e)
	}
	var names []string
	for k := range seen {
		x := fns[k]
		switch {
		case x.pkg == "packet" && x.loops > 0:
			cl.add("census", "census", x.name, fmt.Sprint(x.loops))
			names = append(names, x.name)
		case x.pkg != "packet" && (x.loops > 0 || x.indexes > 0):
			r.Stat("census.handlers."+x.pkg+".functions", 1)
			r.Stat("census.handlers."+x.pkg+".loops", int64(x.loops))
			r.Stat("census.handlers."+x.pkg+".index-exprs", int64(x.indexes))
		}
	}
	sort.Strings(names)
	cl.add("census", "censusall", strings.Join(names, ","))
	r.Stat("census.reachable-functions", int64(len(seen)))
}
