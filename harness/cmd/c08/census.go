package main

// Source census (go/parser + go/ast on $VERIF_REPO, every run): every function reachable by name
// from the ProcessPacket / Process* / decoder entry points of the four handler packages and of
// package packet that contains a DATA-DEPENDENT loop (package packet: `for range` and counted loops
// terminate by construction and are not listed) or a loop / index / slice
// expression (handler packages).  Package packet: one `census <func> <loops>` case per function;
// the model (Extract/D08.v census_table) answers whether the function is listed with that loop
// count and what covers it, and `censusall` checks that no listed function vanished.  Handler
// packages: reported as statistics only (helper extraction / inlining changes names and counts
// without changing behaviour: harmless/patch2), plus the existence of every entry point.

import (
	"fmt"
	"go/ast"
	"go/parser"
	"go/token"
	"os"
	"path/filepath"
	"sort"
	"strings"

	"pvharness/lib"
)

// countedLoop recognises `for [i := a]; i OP bound; [i++ / i-- / i += c]` (the step may also be one
// top-level statement of the body) whose bound is a literal, a
// plain identifier or len()/cap() of an identifier / selector, where neither the index nor the bound
// operand is assigned (or address-taken) in the body: such a loop terminates by construction, like
// every `for range` (not counted either).  Everything else — `for cond {}`, `for {}`, an index
// advanced by a decoded length — is data-dependent and is what the census lists.
func countedLoop(f *ast.ForStmt) bool {
	cond, ok := f.Cond.(*ast.BinaryExpr)
	if !ok {
		return false
	}
	switch cond.Op {
	case token.LSS, token.LEQ, token.GTR, token.GEQ, token.NEQ:
	default:
		return false
	}
	var watched []string // names of the bound operand: must not be assigned in the body
	var base func(e ast.Expr) bool
	base = func(e ast.Expr) bool {
		switch x := e.(type) {
		case *ast.BasicLit:
			return true
		case *ast.Ident:
			watched = append(watched, x.Name)
			return true
		case *ast.SelectorExpr:
			return base(x.X)
		case *ast.ParenExpr:
			return base(x.X)
		case *ast.CallExpr:
			if id, ok := x.Fun.(*ast.Ident); ok && len(x.Args) == 1 { // len(v), cap(v), int(v), uint16(v) ...
				_ = id
				return base(x.Args[0])
			}
			if sel, ok := x.Fun.(*ast.SelectorExpr); ok && len(x.Args) == 0 { // p.NumAddrs(): a getter of a value not assigned
				return base(sel.X)
			}
			return false
		case *ast.BinaryExpr: // len(x)-1, n/2 ...
			return base(x.X) && base(x.Y)
		}
		return false
	}
	// the index is the identifier side of the condition whose other side is an admissible bound
	idxOf := func(e ast.Expr) (string, bool) { // i, i+c, i-c
		if id, ok := e.(*ast.Ident); ok {
			return id.Name, true
		}
		if b, ok := e.(*ast.BinaryExpr); ok && (b.Op == token.ADD || b.Op == token.SUB) {
			if id, ok := b.X.(*ast.Ident); ok {
				if _, lit := b.Y.(*ast.BasicLit); lit {
					return id.Name, true
				}
			}
		}
		return "", false
	}
	var iv string
	if nm, ok := idxOf(cond.X); ok && base(cond.Y) {
		iv = nm
	} else {
		watched = nil
		if nm, ok := idxOf(cond.Y); ok && base(cond.X) {
			iv = nm
		} else {
			return false
		}
	}
	for _, w := range watched {
		if w == iv {
			return false
		}
	}
	// exactly one step of the index: i++ / i-- / i += c, either the post statement or a statement
	// at the top level of the body (not under a condition); nothing else assigns the index or the bound
	isStep := func(st ast.Stmt) bool {
		switch p := st.(type) {
		case *ast.IncDecStmt:
			id, ok := p.X.(*ast.Ident)
			return ok && id.Name == iv
		case *ast.AssignStmt:
			if len(p.Lhs) == 1 && len(p.Rhs) == 1 && (p.Tok == token.ADD_ASSIGN || p.Tok == token.SUB_ASSIGN) {
				if id, ok := p.Lhs[0].(*ast.Ident); ok && id.Name == iv {
					_, lit := p.Rhs[0].(*ast.BasicLit)
					return lit
				}
			}
		}
		return false
	}
	steps := 0
	if f.Post != nil {
		if !isStep(f.Post) {
			return false
		}
		steps++
	}
	var stepStmt ast.Stmt
	for _, st := range f.Body.List {
		if isStep(st) {
			steps++
			stepStmt = st
		}
	}
	if steps != 1 {
		return false
	}
	okBody := true
	ast.Inspect(f.Body, func(n ast.Node) bool {
		if n == ast.Node(stepStmt) && stepStmt != nil {
			return false
		}
		touch := func(e ast.Expr) {
			for {
				switch x := e.(type) {
				case *ast.Ident:
					if x.Name == iv {
						okBody = false
					}
					for _, w := range watched {
						if x.Name == w {
							okBody = false
						}
					}
					return
				case *ast.SelectorExpr:
					e = x.X
				case *ast.IndexExpr:
					return // an element write does not change len
				case *ast.ParenExpr:
					e = x.X
				case *ast.StarExpr:
					e = x.X
				default:
					return
				}
			}
		}
		switch v := n.(type) {
		case *ast.AssignStmt:
			for _, l := range v.Lhs {
				touch(l)
			}
		case *ast.IncDecStmt:
			touch(v.X)
		case *ast.UnaryExpr:
			if v.Op == token.AND {
				touch(v.X)
			}
		}
		return okBody
	})
	return okBody
}

type censusFn struct {
	pkg, name      string
	loops, indexes int
	calls, sel     map[string]bool
}

var censusEntries = []string{"arp_spoofer:Handler.ProcessPacket", "icmp_spoofer:Handler6.ProcessPacket", "icmp_spoofer:Handler4.ProcessPacket",
	"dhcp4_spoofer:Handler.ProcessPacket", "dns_naming:DNSHandler.ProcessDNS", "dns_naming:DNSHandler.ProcessMDNS", "dns_naming:DNSHandler.ProcessNBNS",
	"dns_naming:DNSHandler.ProcessSSDP", "dns_naming:DNSHandler.UPNPServiceDiscovery", "packet:Process8023Frame",
	"packet:HopByHopExtensionHeader.ParseHopByHopExtensions", "packet:LLDP.GetPDU", "packet:DHCP4.IsValid", "packet:DHCP4.ParseOptions",
	"packet:ICMP6RouterAdvertisement.Options", "packet:ICMP6RouterSolicitation.Options", "packet:DecodeQuestion", "packet:DNSEntry.DecodeAnswers"}

func genCensus(cl *caseList, r *lib.Run) {
	root := os.Getenv("VERIF_REPO")
	if root == "" {
		root = "/repo"
	}
	dirs := map[string]string{"packet": ".", "arp_spoofer": "handlers/arp_spoofer", "icmp_spoofer": "handlers/icmp_spoofer",
		"dhcp4_spoofer": "handlers/dhcp4_spoofer", "dns_naming": "handlers/dns_naming"}
	fns := map[string]*censusFn{}
	byName := map[string][]string{}
	for pkg, d := range dirs {
		fset := token.NewFileSet()
		files, _ := filepath.Glob(filepath.Join(root, d, "*.go"))
		sort.Strings(files)
		for _, f := range files {
			if strings.HasSuffix(f, "_test.go") || strings.Contains(f, "verif_hooks") {
				continue
			}
			af, err := parser.ParseFile(fset, f, nil, 0)
			if err != nil {
				r.Viol("census-parse-error", "go/parser cannot read "+f+": "+err.Error(), "")
				continue
			}
			for _, dcl := range af.Decls {
				fd, ok := dcl.(*ast.FuncDecl)
				if !ok || fd.Body == nil {
					continue
				}
				name := fd.Name.Name
				if fd.Recv != nil && len(fd.Recv.List) > 0 {
					t := fd.Recv.List[0].Type
					if s, ok := t.(*ast.StarExpr); ok {
						t = s.X
					}
					if id, ok := t.(*ast.Ident); ok {
						name = id.Name + "." + name
					}
				}
				x := &censusFn{pkg: pkg, name: name, calls: map[string]bool{}, sel: map[string]bool{}}
				ast.Inspect(fd.Body, func(n ast.Node) bool {
					switch v := n.(type) {
					case *ast.ForStmt:
						if !countedLoop(v) { // only loops with a data-dependent step or condition need a theorem
							x.loops++
						}
					case *ast.IndexExpr, *ast.SliceExpr:
						x.indexes++
					case *ast.CallExpr:
						switch f := v.Fun.(type) {
						case *ast.Ident:
							x.calls[f.Name] = true
						case *ast.SelectorExpr:
							x.sel[f.Sel.Name] = true
						}
					}
					return true
				})
				key := pkg + ":" + name
				fns[key] = x
				byName[pkg+":"+fd.Name.Name] = append(byName[pkg+":"+fd.Name.Name], key)
			}
		}
	}
	seen := map[string]bool{}
	var walk func(k string)
	walk = func(k string) {
		if seen[k] || fns[k] == nil {
			return
		}
		seen[k] = true
		x := fns[k]
		for c := range x.calls {
			for _, t := range byName[x.pkg+":"+c] {
				walk(t)
			}
		}
		for c := range x.sel {
			for _, t := range byName[x.pkg+":"+c] {
				walk(t)
			}
			if x.pkg != "packet" {
				for _, t := range byName["packet:"+c] {
					walk(t)
				}
			}
		}
	}
	for _, e := range censusEntries {
		if fns[e] == nil {
			r.Viol("census-entry-point-missing", "entry point "+e+" not found in the source", "")
		}
		walk(e)
	}
	var names []string
	for k := range seen {
		x := fns[k]
		switch {
		case x.pkg == "packet" && x.loops > 0:
			cl.add("census", "census", x.name, fmt.Sprint(x.loops))
			names = append(names, x.name)
		case x.pkg != "packet" && (x.loops > 0 || x.indexes > 0):
			r.Stat("census.handlers."+x.pkg+".functions", 1)
			r.Stat("census.handlers."+x.pkg+".loops", int64(x.loops))
			r.Stat("census.handlers."+x.pkg+".index-exprs", int64(x.indexes))
		}
	}
	sort.Strings(names)
	cl.add("census", "censusall", strings.Join(names, ","))
	r.Stat("census.reachable-functions", int64(len(seen)))
}
