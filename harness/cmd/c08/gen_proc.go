package main

// Generators for the remaining decoders and for whole frames dispatched to the processors.

import (
	"bufio"
	"bytes"
	"encoding/xml"
	"fmt"
	"net"
	"net/http"
	"net/netip"
	"strings"
	"sync"

	"github.com/irai/packet"
	"github.com/irai/packet/handlers/dns_naming"
	"pvharness/lib"
)

var (
	genSessOnce sync.Once
	genSess     *packet.Session
)

// parseFor runs the real Parse (generation side pass) and returns the payload handed to the
// processor when the frame is accepted and classified as wanted.
func parseFor(f []byte, want packet.PayloadID) (payload []byte, hostNil bool, ok bool) {
	genSessOnce.Do(func() { genSess, _ = lib.NewSession() })
	defer func() {
		if e := recover(); e != nil { // a panic inside Parse belongs to C01, not to this property
			ok = false
		}
	}()
	frame, err := genSess.Parse(exact(f))
	if err != nil || frame.PayloadID != want {
		return nil, false, false
	}
	lastIP6 = "nil"
	if v := frame.IP6(); v != nil {
		lastIP6 = hx(v)
	}
	return frame.Payload(), frame.Host == nil, true
}

// lastIP6: frame.IP6() of the frame parseFor accepted last ("nil": no IPv6 header, e.g. ICMPv6 in IPv4)
var lastIP6 string

var bcast = net.HardwareAddr{0xff, 0xff, 0xff, 0xff, 0xff, 0xff}

func truncations(f []byte, from int) [][]byte {
	var out [][]byte
	for cut := from; cut < len(f); cut++ {
		out = append(out, f[:cut])
	}
	return out
}

// ---------------------------------------------------------------- DHCP4 options / LLDP (direct)

func dhcpOptions(rng *lib.Rand) []byte {
	var o []byte
	for n := rng.Intn(8); n > 0; n-- {
		switch rng.Intn(6) {
		case 0:
			o = append(o, 0) // pad
		case 1:
			o = append(o, 53, 1, byte(1+rng.Intn(9)))
		case 2:
			h := "host" + fmt.Sprint(rng.Intn(100))
			o = append(append(o, 12, byte(len(h))), h...)
		case 3:
			o = append(append(o, 50, 4), rng.Bytes(4)...)
		case 4:
			o = append(append(o, 54, 4), 192, 168, 0, byte(rng.Intn(256)))
		case 5:
			l := rng.Intn(20)
			o = append(append(o, byte(1+rng.Intn(254)), byte(l)), rng.Bytes(l)...)
		}
	}
	if rng.Chance(80) {
		o = append(o, 255)
	}
	return o
}

func dhcpMsg(rng *lib.Rand, op byte, opts []byte) []byte {
	p := make([]byte, 240)
	p[0], p[1], p[2] = op, 1, 6
	copy(p[4:8], rng.Bytes(4))
	copy(p[28:34], []byte{0x02, 0x11, 0x22, 0x33, 0x44, byte(rng.Intn(4))})
	copy(p[236:240], []byte{99, 130, 83, 99})
	return append(p, opts...)
}

func genDHCPOpt(cl *caseList, rng *lib.Rand, scale int) {
	both := func(class string, p []byte) {
		sp := spareOf(rng)
		cl.add("dhcpopt."+class, "dhcpopt", hx(p), hx(sp))
		cl.add("dhcpvalid."+class, "dhcpvalid", hx(p), hx(sp))
	}
	for k := 0; k < 150*scale; k++ {
		both("valid", dhcpMsg(rng, byte(1+rng.Intn(2)), dhcpOptions(rng)))
	}
	for k := 0; k < 3*scale; k++ {
		p := dhcpMsg(rng, 1, dhcpOptions(rng))
		for cut := 200; cut <= len(p); cut++ {
			both("trunc", p[:cut])
		}
	}
	for k := 0; k < 150*scale; k++ { // option length corruption, header corruption
		p := dhcpMsg(rng, 1, append(dhcpOptions(rng), dhcpOptions(rng)...))
		switch rng.Intn(4) {
		case 0:
			if len(p) > 242 {
				p[241+rng.Intn(len(p)-241)] = byte(rng.Pick(0, 1, 254, 255))
			}
		case 1:
			p[0] = byte(rng.Pick(0, 3, 255))
		case 2:
			p[2] = byte(rng.Pick(0, 5, 7, 16))
		case 3:
			p = append(p[:240], rng.Bytes(rng.Intn(40))...)
		}
		both("corrupt", p)
	}
	for k := 0; k < 40*scale; k++ {
		both("random", rng.Bytes(rng.Intn(300)))
	}
}

func lldpTLV(t, l int, v []byte) []byte {
	return append([]byte{byte(t<<1 | l>>8), byte(l)}, v...)
}

func genLLDP(cl *caseList, rng *lib.Rand, scale int) {
	add := func(class string, p []byte, pdu int) {
		cl.add("lldp."+class, "lldp", hx(p), hx(spareOf(rng)), fmt.Sprint(pdu))
	}
	mk := func() []byte {
		var p []byte
		p = append(p, lldpTLV(1, 7, append([]byte{4}, rng.Bytes(6)...))...)
		p = append(p, lldpTLV(2, 4, []byte{5, 'e', 't', 'h'})...)
		p = append(p, lldpTLV(3, 2, []byte{0, 120})...)
		for n := rng.Intn(4); n > 0; n-- {
			l := 2 + rng.Intn(12)
			p = append(p, lldpTLV(4+rng.Intn(5), l, rng.Bytes(l))...)
		}
		p = append(p, 0, 0)
		return append(p, make([]byte, rng.Intn(6))...)
	}
	for k := 0; k < 150*scale; k++ {
		add("valid", mk(), rng.Pick(0, 1, 2, 3, 5, 8, 127))
	}
	for k := 0; k < 4*scale; k++ {
		p := mk()
		for cut := 0; cut <= len(p); cut++ {
			add("trunc", p[:cut], rng.Pick(3, 8, 127))
		}
	}
	for k := 0; k < 200*scale; k++ { // TLV length corruption: 0 and 1 are the DESIGN #7 class
		p := mk()
		i := rng.Pick(0, 9, 15)
		if i+1 < len(p) {
			p[i+1] = byte(rng.Pick(0, 1, 2, 3, 255))
			if rng.Chance(20) {
				p[i] |= 1 // 9-bit length
			}
		}
		add("lencorrupt", p, rng.Pick(3, 8, 127))
	}
	for k := 0; k < 100*scale; k++ {
		add("random", rng.Bytes(rng.Intn(40)), rng.Intn(128))
	}
	// TLV chains at the bounds: a full-size frame of zero-length TLVs (700 iterations), of
	// 9-bit-length TLVs (511), a value ending exactly at / one beyond the end, a header in the
	// last 1 / 2 / 3 bytes
	for _, size := range spans([]int{6, 7, 8, 9, 512, 513, 514, 515, 1500},
		[2]int{6, 40}, [2]int{250, 262}, [2]int{505, 530}, [2]int{1015, 1030}, [2]int{1490, 1500}) {
		mk := func(fill func(p []byte)) {
			p := make([]byte, size)
			fill(p)
			add("chain", p, 127)
			add("chain", p, 3)
		}
		mk(func(p []byte) { // type 5, length 0 repeated
			for i := 0; i+1 < len(p); i += 2 {
				p[i], p[i+1] = 5<<1, 0
			}
		})
		mk(func(p []byte) { // 9-bit length 511 repeated
			for i := 0; i+1 < len(p); i += 513 {
				p[i], p[i+1] = 5<<1|1, 255
			}
		})
		mk(func(p []byte) { p[0], p[1] = 5<<1|byte((size-2)>>8&1), byte(size-2) })                     // value fills the frame exactly
		mk(func(p []byte) { p[0], p[1] = 5<<1|byte((size-1)>>8&1), byte(size-1) })                     // one byte beyond
		mk(func(p []byte) { p[0], p[1] = 5<<1|byte((size-3)>>8&1), byte(size-3); p[size-1] = 7 << 1 }) // header byte alone at the end
		mk(func(p []byte) { p[0], p[1] = 5<<1|byte((size-4)>>8&1), byte(size-4); p[size-2] = 7 << 1; p[size-1] = 9 })
	}
}

// ---------------------------------------------------------------- 802.3

func gen8023(cl *caseList, rng *lib.Rand, scale int) {
	add := func(class string, payload []byte) {
		f := lib.MkEther(net.HardwareAddr{0x01, 0x80, 0xc2, 0, 0, 0}, peerMAC, uint16(len(payload)), payload)
		if p, _, ok := parseFor(f, packet.Payload8023); ok {
			cl.add("p8023."+class, "p8023", hx(f), hx(p))
		} else {
			cl.dropped["p8023.rejected"]++
		}
	}
	heads := [][]byte{{0x42, 0x42, 3}, {0xaa, 0xaa, 3, 0, 0, 0, 0x08, 0x00}, {0xe0, 0xe0, 3}, {0xaa, 0xaa, 0}, {0x10, 0x20, 0x01}, {0, 0, 0}}
	for k := 0; k < 60*scale; k++ {
		h := heads[rng.Intn(len(heads))]
		add("valid", append(append([]byte{}, h...), rng.Bytes(rng.Intn(40))...))
	}
	for _, h := range heads {
		p := append(append([]byte{}, h...), rng.Bytes(8)...)
		for cut := 0; cut <= len(p); cut++ {
			add("trunc", p[:cut])
		}
	}
	for k := 0; k < 60*scale; k++ {
		add("random", rng.Bytes(rng.Intn(20)))
	}
}

// ---------------------------------------------------------------- SSDP

type ssdpView struct {
	kind                 int
	httpOK, methodNotify bool
	nts                  int
	cc                   []byte
	manOK, statusOK      bool
}

func ssdpViewOf(raw []byte) ssdpView {
	v := ssdpView{kind: 2, nts: 2}
	switch {
	case bytes.HasPrefix(raw, []byte("NOTIFY ")):
		v.kind = 0
	case bytes.HasPrefix(raw, []byte("M-SEARCH ")):
		v.kind = 1
	}
	if v.kind < 2 {
		req, err := http.ReadRequest(bufio.NewReader(bytes.NewReader(raw)))
		if err != nil {
			return v
		}
		v.httpOK = true
		v.methodNotify = req.Method == "NOTIFY"
		switch req.Header.Get("NTS") {
		case "ssdp:alive":
			v.nts = 0
		case "ssdp:byebye":
			v.nts = 1
		}
		v.cc = []byte(req.Header.Get("CACHE-CONTROL"))
		v.manOK = req.Header.Get("MAN") == `"ssdp:discover"`
		return v
	}
	resp, err := http.ReadResponse(bufio.NewReader(bytes.NewReader(raw)), nil)
	if err != nil {
		return v
	}
	v.httpOK = true
	v.statusOK = resp.StatusCode == 200
	resp.Body.Close()
	return v
}

func genSSDP(cl *caseList, rng *lib.Rand, scale int) {
	add := func(class string, raw []byte) {
		v := ssdpViewOf(raw)
		cl.add("ssdp."+class, "ssdp", hx(raw), fmt.Sprint(v.kind), tf(v.httpOK), fmt.Sprint(v.nts), tf(v.methodNotify), hx(v.cc), tf(v.manOK), tf(v.statusOK))
	}
	ccs := []string{"max-age=1800", "max-age = 1800", "MAX-AGE=100", "no-cache", "", "max-age", "x=max-age", "x=MAX-AGE", "=max-age", "max-age=", "a=b=c", "max-age=1=2", "a=b=max-age=3", "=", "==", "max-age=max-age", "Max-Age=x"}
	notify := func(nts, cc string) []byte {
		return []byte("NOTIFY * HTTP/1.1\r\nHOST: 239.255.255.250:1900\r\nCACHE-CONTROL: " + cc + "\r\nLOCATION: http://192.168.0.50:49152/d.xml\r\nNT: upnp:rootdevice\r\nNTS: " + nts + "\r\nSERVER: Linux UPnP/1.0\r\nUSN: uuid:1234\r\n\r\n")
	}
	for _, cc := range ccs {
		cl.add("ssdpcc.directed", "ssdpcc", hx([]byte(cc)))
		add("notify", notify("ssdp:alive", cc))
		add("notify", notify("ssdp:byebye", cc))
	}
	alpha := "max-ageMAXGE=x0123 "
	for k := 0; k < 150*scale; k++ { // random values over a small alphabet; no leading/trailing blank (net/http trims)
		n := rng.Intn(14)
		b := make([]byte, n)
		for i := range b {
			b[i] = alpha[rng.Intn(len(alpha))]
		}
		s := strings.TrimSpace(string(b))
		if rng.Chance(30) {
			s = s + "=max-age"
		}
		cl.add("ssdpcc.random", "ssdpcc", hx([]byte(s)))
	}
	msearch := []byte("M-SEARCH * HTTP/1.1\r\nHOST: 239.255.255.250:1900\r\nMAN: \"ssdp:discover\"\r\nMX: 1\r\nST: ssdp:all\r\nUSER-AGENT: Google Chrome/92.0 Windows\r\n\r\n")
	response := []byte("HTTP/1.1 200 OK\r\nCACHE-CONTROL: max-age=100\r\nLOCATION: http://192.168.0.1:1900/igd.xml\r\nST: upnp:rootdevice\r\nUSN: uuid:1\r\n\r\n")
	base := [][]byte{notify("ssdp:alive", "max-age=1800"), notify("ssdp:other", "x"), msearch, response,
		[]byte("NOTIFY * HTTP/1.1\r\nNTS: ssdp:alive\r\n\r\n"), []byte("GET * HTTP/1.1\r\nNTS: ssdp:alive\r\n\r\n"),
		[]byte("HTTP/1.1 404 Not Found\r\n\r\n"), []byte("M-SEARCH * HTTP/1.1\r\nMAN: ssdp:discover\r\n\r\n")}
	for _, b := range base {
		add("base", b)
		for cut := 0; cut < len(b); cut += 1 + (1-min(scale, 2)+1)*2 {
			add("trunc", b[:cut])
		}
	}
	for k := 0; k < 150*scale; k++ {
		b := append([]byte{}, base[rng.Intn(len(base))]...)
		b[rng.Intn(len(b))] = rng.Byte()
		add("mutate", b)
	}
	for k := 0; k < 30*scale; k++ {
		add("random", rng.Bytes(rng.Intn(60)))
	}
}

func min(a, b int) int {
	if a < b {
		return a
	}
	return b
}

// ---------------------------------------------------------------- processors on whole frames

var (
	routerMAC = net.HardwareAddr{0x00, 0x66, 0x66, 0x66, 0x66, 0x66}
	hostMAC   = net.HardwareAddr{0x00, 0x55, 0x55, 0x55, 0x55, 0x55}
	peerLLA   = netip.MustParseAddr("fe80::11:22ff:fe33:4455")
	hostLLA   = netip.MustParseAddr("fe80::55:55ff:fe55:5555")
	allNodes  = netip.MustParseAddr("ff02::1")
)

func addProc(cl *caseList, kind, class string, f []byte, want packet.PayloadID, extra func(payload []byte, hostNil bool) []string) {
	p, hostNil, ok := parseFor(f, want)
	if !ok {
		cl.dropped[kind+".rejected"]++
		return
	}
	args := []string{hx(f), hx(p)}
	if extra != nil {
		args = append(args, extra(p, hostNil)...)
	}
	cl.add(kind+"."+class, kind, args...)
}

func genARP(cl *caseList, rng *lib.Rand, scale int) {
	ip := func() netip.Addr {
		return netip.AddrFrom4([4]byte{192, 168, 0, byte(rng.Pick(0, 1, 11, 50, 51, 129, 200, 255))})
	}
	// state the processor branches on: handler closed, sender hunted, DHCP offer pending, log level
	envTok := func() []string {
		return []string{tf(rng.Chance(10)), tf(rng.Bool()), tf(rng.Bool()), tf(rng.Chance(30))}
	}
	add := func(class string, arp []byte, e []string) {
		addProc(cl, "arp", class, lib.MkEther(bcast, peerMAC, 0x0806, arp), packet.PayloadARP,
			func([]byte, bool) []string { return e })
	}
	zero := netip.AddrFrom4([4]byte{})
	router := netip.MustParseAddr("192.168.0.11")
	for k := 0; k < 80*scale; k++ {
		sip := ip()
		if rng.Chance(25) {
			sip = zero // ACD probe
		}
		if rng.Chance(10) {
			sip = netip.AddrFrom4([4]byte{169, 254, 1, 2})
		}
		tip := ip()
		if rng.Chance(20) {
			tip = sip // announcement
		}
		if rng.Chance(25) {
			tip = router // request for the router: answered when the sender is hunted
		}
		if rng.Chance(5) {
			tip = netip.AddrFrom4([4]byte{8, 8, 8, 8})
		}
		a := lib.MkARP(uint16(rng.Pick(1, 1, 2, 3, 0)), peerMAC, sip, net.HardwareAddr{0, 0, 0, 0, 0, 0}, tip)
		add("valid", append(a, make([]byte, rng.Pick(0, 18))...), envTok())
	}
	// every combination of the state flags on the three request shapes
	for _, tgt := range []netip.Addr{router, netip.MustParseAddr("192.168.0.77")} {
		for _, src := range []netip.Addr{peerIP4, zero} {
			a := lib.MkARP(1, peerMAC, src, net.HardwareAddr{0, 0, 0, 0, 0, 0}, tgt)
			for m := 0; m < 16; m++ {
				add("state", a, []string{tf(m&1 != 0), tf(m&2 != 0), tf(m&4 != 0), tf(m&8 != 0)})
			}
		}
	}
	a := lib.MkARP(1, peerMAC, peerIP4, net.HardwareAddr{0, 0, 0, 0, 0, 0}, router)
	for _, t := range truncations(a, 0) {
		add("trunc", t, envTok())
	}
	for k := 0; k < 80*scale; k++ {
		c := append([]byte{}, a...)
		c[rng.Intn(8)] = byte(rng.Pick(0, 1, 4, 6, 8, 255))
		add("hdrcorrupt", c, envTok())
	}
}

func genICMP4(cl *caseList, rng *lib.Rand, scale int) {
	add := func(class string, msg []byte) {
		f := lib.MkEther(hostMAC, peerMAC, 0x0800, lib.MkIP4(peerIP4, netip.MustParseAddr("192.168.0.129"), 1, 64, msg))
		info := tf(rng.Bool())
		addProc(cl, "icmp4", class, f, packet.PayloadICMP4, func([]byte, bool) []string { return []string{info} })
	}
	inner := func(proto byte, ihl, totalLen int, payload []byte) []byte {
		ip := lib.MkIP4(netip.MustParseAddr("192.168.0.129"), netip.MustParseAddr("8.8.8.8"), proto, 64, payload)
		if ihl >= 0 {
			ip[0] = 0x40 | byte(ihl)
		}
		if totalLen >= 0 {
			ip[2], ip[3] = byte(totalLen>>8), byte(totalLen)
		}
		return ip
	}
	unreach := func(code byte, ip []byte) []byte { return append([]byte{3, code, 0, 0, 0, 0, 0, 0}, ip...) }
	for k := 0; k < 40*scale; k++ {
		add("echo", lib.MkICMPEcho(byte(rng.Pick(0, 8)), 0, uint16(rng.Intn(65536)), uint16(k), rng.Bytes(rng.Intn(32))))
		add("other", append([]byte{byte(rng.Pick(5, 11, 12, 13, 255)), 0, 0, 0}, rng.Bytes(4+rng.Intn(30))...))
	}
	for k := 0; k < 80*scale; k++ {
		proto := byte(rng.Pick(17, 6, 1, 47))
		pl := lib.MkUDP(5000, 53, rng.Bytes(rng.Intn(12)))
		if proto == 6 {
			pl = lib.MkTCP(5000, 80, rng.Bytes(rng.Intn(12)))
		}
		if rng.Chance(30) {
			pl = pl[:rng.Intn(len(pl)+1)]
		}
		add("unreach", unreach(byte(rng.Pick(2, 3, 1, 0)), inner(proto, -1, -1, pl)))
	}
	// embedded header length fields: IHL 0..15, TotalLen around IHL and around the real length
	for _, proto := range []byte{17, 6, 1} {
		for _, ihl := range []int{0, 4, 5, 6, 15} {
			for _, tl := range []int{0, 19, 20, 21, 27, 28, 29, 60, 65535} {
				add("unreach.len", unreach(3, inner(proto, ihl, tl, lib.MkUDP(1, 2, []byte{1, 2, 3, 4}))))
			}
		}
	}
	m := unreach(3, inner(17, -1, -1, lib.MkUDP(5000, 53, []byte{1, 2, 3, 4})))
	for _, t := range truncations(m, 0) {
		add("trunc", t)
	}
	for k := 0; k < 100*scale; k++ {
		c := append([]byte{}, m...)
		c[rng.Intn(len(c))] = rng.Byte()
		add("mutate", c)
	}
}

func genICMP6(cl *caseList, rng *lib.Rand, scale int) {
	add := func(class string, src, dst netip.Addr, typ byte, body []byte) {
		dbg, hunt := tf(rng.Chance(40)), tf(rng.Chance(30))
		flag := func(_ []byte, hostNil bool) []string { return []string{dbg, lastIP6, tf(!hostNil), hunt} }
		f := lib.MkEther(net.HardwareAddr{0x33, 0x33, 0, 0, 0, 1}, peerMAC, 0x86dd, lib.MkIP6(src, dst, 58, 255, lib.MkICMP6(src, dst, typ, 0, body)))
		addProc(cl, "icmp6", class, f, packet.PayloadICMP6, flag)
	}
	unspec := netip.IPv6Unspecified()
	gua := netip.MustParseAddr("2001:db8::50")
	for k := 0; k < 40*scale; k++ {
		// NA: flags (R,S,O) x with/without a target link-layer option
		b := append([]byte{byte(rng.Pick(0, 0x20, 0x40, 0x60, 0xa0, 0xe0)), 0, 0, 0}, peerLLA.AsSlice()...)
		switch rng.Intn(4) {
		case 0:
			b = append(b, optLLA(2, rng)...)
		case 1:
			b = append(b, optLLA(1, rng)...)
		case 2:
			b = append(b, 2, 2, 0, 0, 0, 0, 0, 0, 0, 0, 0, 0, 0, 0, 0, 0)
		}
		add("na", peerLLA, allNodes, 136, b)
		// NS: DAD (unspecified source), LLA target, GUA target
		tgt := []netip.Addr{peerLLA, gua, hostLLA}[rng.Intn(3)]
		nsb := append([]byte{0, 0, 0, 0}, tgt.AsSlice()...)
		if rng.Bool() {
			nsb = append(nsb, optLLA(1, rng)...)
		}
		add("ns", []netip.Addr{peerLLA, unspec, gua}[rng.Intn(3)], netip.MustParseAddr("ff02::1:ff00:50"), 135, nsb)
		add("rs", []netip.Addr{peerLLA, unspec}[rng.Intn(2)], netip.MustParseAddr("ff02::2"), 133, append([]byte{0, 0, 0, 0}, optLLA(1, rng)...))
		add("echo", peerLLA, hostLLA, byte(rng.Pick(128, 129)), append([]byte{0, 1, 0, byte(k)}, rng.Bytes(rng.Intn(16))...))
		add("mld", peerLLA, netip.MustParseAddr("ff02::16"), byte(rng.Pick(143, 130, 131, 132)), rng.Bytes(4+rng.Intn(24)))
		add("redirect", peerLLA, hostLLA, 137, rng.Bytes(rng.Pick(4, 35, 36, 37, 60)))
		add("other", peerLLA, hostLLA, byte(rng.Pick(1, 2, 3, 4, 138, 200, 255)), rng.Bytes(4+rng.Intn(24)))
	}
	// RA with option blocks from a router on the LAN; the zero-length classes are bounded in number
	ra := func(opts []byte) []byte {
		return append([]byte{64, 0x40, 0x07, 0x08, 0, 0, 0, 0, 0, 0, 0, 0}, opts...)
	}
	for k := 0; k < 120*scale; k++ {
		b, _ := optBlock(rng, rng.Intn(5))
		add("ra", peerLLA, allNodes, 134, ra(b))
	}
	for k := 0; k < 60*scale; k++ {
		b, offs := optBlock(rng, 1+rng.Intn(4))
		i := offs[rng.Intn(len(offs))]
		b[i+1] = byte(rng.Pick(1, 2, 3, 4, 5, 32, 255))
		add("ra.lencorrupt", peerLLA, allNodes, 134, ra(b))
	}
	for _, t := range []byte{1, 3, 5, 25, 31, 14} {
		z := []byte{t, 0, 0, 0, 0, 0, 0, 0}
		add("ra.zerolen", peerLLA, allNodes, 134, ra(z))
		add("ra.zerolen", peerLLA, allNodes, 134, ra(append(optMTU(rng), z...)))
	}
	add("ra.unspec", unspec, allNodes, 134, ra(optLLA(1, rng))) // no host for the source: returns before Options
	// truncation of the ICMPv6 message at every length (IPv6 payload length kept consistent)
	b, _ := optBlock(rng, 2)
	for _, t := range truncations(ra(b), 0) {
		add("ra.trunc", peerLLA, allNodes, 134, t)
	}
	na := append(append([]byte{0x20, 0, 0, 0}, peerLLA.AsSlice()...), optLLA(2, rng)...)
	for _, t := range truncations(na, 0) {
		add("na.trunc", peerLLA, allNodes, 136, t)
	}
	nsb := append(append([]byte{0, 0, 0, 0}, gua.AsSlice()...), optLLA(1, rng)...)
	for _, t := range truncations(nsb, 0) {
		add("ns.trunc", peerLLA, allNodes, 135, t)
	}
	for k := 0; k < 100*scale; k++ {
		c := append([]byte{}, ra(b)...)
		v := rng.Byte()
		if v == 0 {
			v = 1
		}
		c[rng.Intn(len(c))] = v
		add("ra.mutate", peerLLA, allNodes, 134, c)
	}
}

// dhcpReplyOf runs the frame through a fresh session + handler in THIS process, on a copy with
// a large capacity (EncodeDHCP4 writes its reply into the request buffer up to its capacity),
// and reports what the lease table decided: "none", "nak", or the number of option bytes of
// the OFFER/ACK.  The model takes this decision as a parameter.
func dhcpReplyOf(f []byte, captured bool) (tok string) {
	tok = "none"
	defer func() { recover() }()
	s, conn := lib.NewSession()
	if captured {
		s.Capture(peerMAC)
	}
	h := dhcpHandler(s)
	buf := make([]byte, 4096)
	frame, err := s.Parse(buf[:copy(buf, f)])
	if err != nil || frame.PayloadID != packet.PayloadDHCP4 {
		return
	}
	h.ProcessPacket(frame)
	for _, out := range conn.Take() {
		if len(out) < 14+20+8+241 || out[12] != 8 || out[13] != 0 || out[23] != 17 {
			continue
		}
		udp := out[34:]
		if int(udp[0])<<8|int(udp[1]) != 67 { // replies of the server only (attack / decline frames come from port 68)
			continue
		}
		d := udp[8:]
		pos, nak := 0, false
		for o := d[240:]; len(o) >= 1 && o[0] != 255; {
			if o[0] == 0 {
				o, pos = o[1:], pos+1
				continue
			}
			if len(o) < 2 || len(o) < 2+int(o[1]) {
				break
			}
			if o[0] == 53 && o[1] == 1 && o[2] == 6 {
				nak = true
			}
			pos += 2 + int(o[1])
			o = o[2+int(o[1]):]
		}
		if nak {
			return "nak"
		}
		return fmt.Sprint(pos)
	}
	return
}

// ICMPv6 carried by IPv4 (protocol 58) and ICMPv4 carried by IPv6 (next header 1): Parse accepts
// both and classifies by the protocol number alone, so the processor of the OTHER IP version is
// dispatched without its IP header (frame.IP6() / frame.IP4() are nil)
func genCrossICMP(cl *caseList, rng *lib.Rand, scale int) {
	bodies6 := func() [][]byte {
		tgt := netip.MustParseAddr("2001:db8::50").AsSlice()
		opts, _ := optBlock(rng, 2)
		return [][]byte{
			append(append([]byte{135, 0, 0, 0, 0, 0, 0, 0}, tgt...), optLLA(1, rng)...),    // NS
			append(append([]byte{136, 0, 0, 0, 0x20, 0, 0, 0}, tgt...), optLLA(2, rng)...), // NA override
			append([]byte{134, 0, 0, 0, 64, 0x40, 7, 8, 0, 0, 0, 0, 0, 0, 0, 0}, opts...),  // RA
			append([]byte{133, 0, 0, 0, 0, 0, 0, 0}, optLLA(1, rng)...),                    // RS
			{128, 0, 0, 0, 0, 1, 0, 2, 1, 2, 3, 4}, {129, 0, 0, 0, 0, 1, 0, 2},             // echo
			append([]byte{137, 0, 0, 0, 0, 0, 0, 0}, rng.Bytes(40)...),                       // redirect
			{143, 0, 0, 0, 0, 0, 0, 1}, {1, 0, 0, 0, 0, 0, 0, 0}, {200, 0, 0, 0, 0, 0, 0, 0}, // MLDv2, unreachable, unknown
		}
	}
	for k := 0; k < 4*scale; k++ {
		for _, b := range bodies6() {
			f := lib.MkEther(hostMAC, peerMAC, 0x0800, lib.MkIP4(peerIP4, netip.MustParseAddr("192.168.0.129"), 58, 64, b))
			dbg, hunt := tf(rng.Bool()), tf(rng.Chance(30))
			addProc(cl, "icmp6", "in-ipv4", f, packet.PayloadICMP6,
				func(_ []byte, hostNil bool) []string { return []string{dbg, lastIP6, tf(!hostNil), hunt} })
			for cut := 0; cut < len(b) && k == 0; cut += 3 {
				ft := lib.MkEther(hostMAC, peerMAC, 0x0800, lib.MkIP4(peerIP4, netip.MustParseAddr("192.168.0.129"), 58, 64, b[:cut]))
				addProc(cl, "icmp6", "in-ipv4.trunc", ft, packet.PayloadICMP6,
					func(_ []byte, hostNil bool) []string { return []string{dbg, lastIP6, tf(!hostNil), hunt} })
			}
		}
		inner := lib.MkIP4(netip.MustParseAddr("192.168.0.129"), netip.MustParseAddr("8.8.8.8"), 17, 64, lib.MkUDP(5000, 53, []byte{1, 2, 3, 4}))
		for _, b := range [][]byte{
			lib.MkICMPEcho(8, 0, 1, 2, []byte{1, 2, 3}), lib.MkICMPEcho(0, 0, 1, 2, nil),
			append([]byte{3, 3, 0, 0, 0, 0, 0, 0}, inner...), append([]byte{5, 0, 0, 0}, rng.Bytes(12)...), {13, 0, 0, 0, 0, 0, 0, 0},
		} {
			f := lib.MkEther(hostMAC, peerMAC, 0x86dd, lib.MkIP6(peerLLA, hostLLA, 1, 64, b))
			info := tf(rng.Bool())
			addProc(cl, "icmp4", "in-ipv6", f, packet.PayloadICMP4, func([]byte, bool) []string { return []string{info} })
		}
	}
}

func genDHCP4(cl *caseList, rng *lib.Rand, scale int) {
	add := func(class string, sp, dp uint16, src netip.Addr, msg []byte) {
		f := lib.MkEther(bcast, peerMAC, 0x0800, lib.MkIP4(src, netip.MustParseAddr("255.255.255.255"), 17, 64, lib.MkUDP(sp, dp, msg)))
		captured := rng.Chance(30)
		info := tf(rng.Bool())
		addProc(cl, "dhcp4", class, f, packet.PayloadDHCP4, func([]byte, bool) []string {
			return []string{tf(dp == 68), dhcpReplyOf(f, captured), info, tf(captured)}
		})
	}
	zero := netip.AddrFrom4([4]byte{})
	opts := func(mt byte) []byte {
		o := []byte{53, 1, mt}
		if rng.Bool() {
			o = append(append(o, 50, 4), 192, 168, 0, byte(rng.Intn(256)))
		}
		if rng.Bool() {
			o = append(append(o, 54, 4), 192, 168, 0, byte(rng.Pick(129, 11, 1)))
		}
		if rng.Bool() {
			o = append(append(o, 61, 7, 1), peerMAC...)
		}
		if rng.Bool() {
			o = append(append(o, 12, 4), "host"...)
		}
		if rng.Bool() {
			o = append(o, 55, 4, 1, 3, 6, 15)
		}
		if rng.Chance(70) {
			o = append(o, 255)
		}
		if rng.Chance(50) { // BOOTP padding to 300 bytes and beyond
			o = append(o, make([]byte, rng.Pick(20, 60, 61, 80))...)
		}
		return o
	}
	for k := 0; k < 40*scale; k++ {
		mt := byte(rng.Pick(1, 1, 3, 3, 4, 7, 8, 2, 5, 6, 0, 9))
		add("server", 68, 67, zero, dhcpMsg(rng, 1, opts(mt)))
		add("client", 67, 68, netip.MustParseAddr("192.168.0.11"), dhcpMsg(rng, 2, opts(byte(rng.Pick(2, 2, 5, 6)))))
	}
	for k := 0; k < 60*scale; k++ { // option value lengths the handlers convert: 0, 1, 3, 5, 16
		o := []byte{53, 1, byte(rng.Pick(1, 3, 4, 7))}
		for _, code := range []byte{50, 54, 61, 12, 55} {
			if rng.Bool() {
				l := rng.Pick(0, 1, 3, 4, 5, 16)
				o = append(append(o, code, byte(l)), rng.Bytes(l)...)
			}
		}
		if rng.Chance(20) {
			o[1] = byte(rng.Pick(0, 2))
			o = append(o[:2], append(rng.Bytes(int(o[1])), o[3:]...)...)
		}
		if rng.Bool() {
			o = append(o, 255)
		}
		add("optlen", 68, 67, zero, dhcpMsg(rng, 1, o))
	}
	// long client identifiers: the NAK carries the identifier back and is encoded INTO the
	// request buffer (EncodeDHCP4(p, ...)): identifier length x trailing bytes around the fit
	for _, l := range []int{40, 47, 48, 49, 50, 55, 60, 100, 200, 255} {
		for _, tail := range []int{0, 1, 5, 6, 7, 8, 20} {
			for _, mt := range []byte{3, 1} {
				o := []byte{53, 1, mt, 50, 4, 192, 168, 0, 77}
				o = append(append(o, 61, byte(l)), rng.Bytes(l)...)
				o = append(o, make([]byte, tail)...)
				add("clientid", 68, 67, zero, dhcpMsg(rng, 1, o))
			}
		}
	}
	m := dhcpMsg(rng, 1, opts(1))
	for cut := 0; cut <= len(m); cut += 1 + 7*(2-min(scale, 2)) {
		add("trunc", 68, 67, zero, m[:cut])
	}
	for cut := 236; cut <= len(m); cut++ {
		add("trunc", 68, 67, zero, m[:cut])
	}
	for k := 0; k < 60*scale; k++ {
		c := append([]byte{}, m...)
		c[rng.Intn(len(c))] = rng.Byte()
		add("mutate", 68, 67, zero, c)
	}
}

// DNS messages whose names stress the decoder's recursion and length guards: compression
// pointer cycles in every name position, pointer chains and label runs at and beyond the
// bounds (maxRecursionLevel = 255, name length 255, narrow-integer wrap points 127/128/255/256).
// wideStress (thorough tier): ten times the inventory of chain lengths / label totals
var wideStress bool

func spans(base []int, wide ...[2]int) []int {
	if !wideStress {
		return base
	}
	seen := map[int]bool{}
	out := []int{}
	for _, v := range base {
		if !seen[v] {
			seen[v] = true
			out = append(out, v)
		}
	}
	for _, w := range wide {
		for v := w[0]; v <= w[1]; v++ {
			if !seen[v] {
				seen[v] = true
				out = append(out, v)
			}
		}
	}
	return out
}

func dnsNameStress(rng *lib.Rand) (msgs [][]byte) {
	hdr := func(qd, an int) []byte {
		return []byte{0x12, 0x34, 0x84, 0, byte(qd >> 8), byte(qd), byte(an >> 8), byte(an), 0, 0, 0, 0}
	}
	ptr := func(off int) []byte { return []byte{0xc0 | byte(off>>8), byte(off)} }
	tail := []byte{0, 1, 0, 1} // type A class IN
	rrFixed := func(typ, rdlen int) []byte {
		return []byte{byte(typ >> 8), byte(typ), 0, 1, 0, 0, 0, 60, byte(rdlen >> 8), byte(rdlen)}
	}
	q := append(dnsName("www", "example", "com"), tail...) // question at 12, 21 bytes: answers start at 33
	aOff := 12 + len(q)
	add := func(b ...[]byte) {
		var m []byte
		for _, x := range b {
			m = append(m, x...)
		}
		msgs = append(msgs, m)
	}
	// --- question name
	add(hdr(1, 0), ptr(12), tail)                           // points at itself
	add(hdr(1, 0), []byte{3, 'a', 'b', 'c'}, ptr(12), tail) // label, then pointer back to the label
	add(hdr(1, 0), ptr(14), ptr(12), []byte{0, 1})          // 12 -> 14 -> 12 (the type field is the second pointer)
	add(hdr(1, 0), ptr(16), tail, ptr(18), ptr(16))         // forward, then a two-pointer cycle behind the question
	add(hdr(1, 0), []byte{1, 'a'}, ptr(14), tail)           // pointer at itself behind a label
	add(hdr(1, 0), ptr(13), tail)                           // into the middle of itself
	add(hdr(1, 0), ptr(0x3fff), tail)                       // beyond the message
	add(hdr(1, 0), ptr(18), tail)                           // exactly len(msg)
	add(hdr(1, 0), ptr(17), tail)                           // last byte
	// --- owner name of an answer
	for _, typ := range []int{1, 5, 12, 2, 28, 16} {
		rd := []byte{1, 2, 3, 4}
		if typ == 28 {
			rd = make([]byte, 16)
		}
		add(hdr(1, 1), q, ptr(aOff), rrFixed(typ, len(rd)), rd)                      // owner points at itself
		add(hdr(1, 1), q, []byte{2, 'x', 'y'}, ptr(aOff), rrFixed(typ, len(rd)), rd) // label + pointer back
		add(hdr(1, 1), q, ptr(aOff+2), ptr(aOff), rrFixed(typ, len(rd)), rd)         // owner <-> next two bytes
	}
	// --- name inside RDATA (CNAME 5, PTR 12, NS 2): at itself, at its own owner (which points at
	//     the RDATA), label + pointer, into the fixed header
	for _, typ := range []int{5, 12, 2} {
		rdOff := aOff + 2 + 10                                                                               // owner is a 2-byte pointer
		add(hdr(1, 1), q, ptr(12), rrFixed(typ, 2), ptr(rdOff))                                              // rdata -> rdata
		add(hdr(1, 1), q, ptr(rdOff), rrFixed(typ, 2), ptr(aOff))                                            // owner -> rdata -> owner
		add(hdr(1, 1), q, ptr(12), rrFixed(typ, 6), []byte{3, 'f', 'o', 'o'}, ptr(rdOff))                    // label + pointer to itself
		add(hdr(1, 1), q, ptr(12), rrFixed(typ, 2), ptr(aOff+2))                                             // into the record header
		add(hdr(1, 2), q, ptr(12), rrFixed(typ, 2), ptr(rdOff+2+2+10), ptr(12), rrFixed(typ, 2), ptr(rdOff)) // two records' rdata at each other
		// PTR owner in in-addr.arpa form with a cyclic target
		arpa := dnsName("4", "3", "2", "1", "in-addr", "arpa")
		r2 := aOff + len(arpa) + 10
		add(hdr(1, 1), q, arpa, rrFixed(typ, 2), ptr(r2))
	}
	// --- pointer chains: n hops ending at a real name (at / beyond maxRecursionLevel and at the
	//     wrap points of 8-bit counters), and the same chains closed into a cycle
	for _, n := range spans([]int{1, 2, 126, 127, 128, 129, 253, 254, 255, 256, 257, 258, 300, 511, 512, 600},
		[2]int{1, 40}, [2]int{118, 138}, [2]int{244, 268}, [2]int{504, 520}, [2]int{630, 640}) {
		base := 12 + 2 + 4 // question = pointer to the chain, then type/class
		chain := []byte{}
		for k := 0; k < n; k++ {
			chain = append(chain, ptr(base+2*(k+1))...)
		}
		end := dnsName("end")
		add(hdr(1, 0), ptr(base), tail, chain, end) // open chain
		cyc := append([]byte{}, chain...)
		copy(cyc[len(cyc)-2:], ptr(base)) // last hop back to the first
		add(hdr(1, 0), ptr(base), tail, cyc, end)
		// the same chain as owner of an answer record and as CNAME target
		add(hdr(1, 1), q, ptr(aOff+2+10+4), rrFixed(1, 4), []byte{1, 2, 3, 4}, shift(chain, aOff+2+10+4-base), end)
		add(hdr(1, 1), q, ptr(12), rrFixed(5, 2), ptr(aOff+2+10+2), shift(cyc, aOff+2+10+2-base), end)
	}
	// --- label runs: total name length at and beyond 255, single labels 63/64, run of 1-byte labels
	for _, total := range spans([]int{62, 63, 64, 127, 128, 250, 253, 254, 255, 256, 257, 300, 512},
		[2]int{2, 20}, [2]int{55, 72}, [2]int{120, 136}, [2]int{244, 268}, [2]int{505, 520}) {
		var nm []byte
		for len(nm) < total {
			l := 63
			if total-len(nm)-1 < l {
				l = total - len(nm) - 1
			}
			if l <= 0 {
				break
			}
			nm = append(append(nm, byte(l)), bytes.Repeat([]byte{'a'}, l)...)
		}
		add(hdr(1, 0), nm, []byte{0}, tail)
		add(hdr(1, 0), nm, ptr(12), tail) // long label run closed by a pointer to its start
		var ones []byte
		for k := 0; k < total/2; k++ {
			ones = append(ones, 1, 'b')
		}
		add(hdr(1, 1), q, ones, []byte{0}, rrFixed(1, 4), []byte{1, 2, 3, 4})
	}
	add(hdr(1, 0), []byte{64}, bytes.Repeat([]byte{'a'}, 64), []byte{0}, tail) // 0x40 label type
	add(hdr(1, 0), []byte{0x80, 1}, tail)                                      // 0x80 label type
	// --- counts beyond the records present
	add(hdr(1, 65535), q, ptr(12), rrFixed(1, 4), []byte{1, 2, 3, 4})
	add(hdr(2, 1), q, q)
	_ = rng
	return msgs
}

// shift re-bases a pointer chain built for offset 0 by delta bytes
func shift(chain []byte, delta int) []byte {
	out := append([]byte{}, chain...)
	for i := 0; i+1 < len(out); i += 2 {
		off := (int(out[i]&0x3f)<<8 | int(out[i+1])) + delta
		out[i], out[i+1] = 0xc0|byte(off>>8), byte(off)
	}
	return out
}

// ProcessDNS through the full path and the exported decoders directly: no model in this
// cluster (DNS cluster); the Go-side oracle reports panic / fatal runtime error / hang
func genDNSProc(cl *caseList, rng *lib.Rand, scale int) {
	add := func(class string, msg []byte) {
		f := udpFrame(53, 40000, netip.MustParseAddr("192.168.0.129"), hostMAC, msg)
		if _, _, ok := parseFor(f, packet.PayloadDNS); ok {
			cl.add("dnsproc."+class, "dnsproc", hx(f))
		}
		// exported decoders, at the regular offsets and at a few arbitrary ones
		if len(msg) >= 12 {
			cl.add("dnsq."+class, "dnsq", hx(msg), "12")
			qend := 12
			for qend < len(msg) && msg[qend] != 0 && msg[qend]&0xc0 == 0 {
				qend += 1 + int(msg[qend])
			}
			if qend < len(msg) && msg[qend]&0xc0 == 0xc0 {
				qend++
			}
			cl.add("dnsans."+class, "dnsans", hx(msg), fmt.Sprint(qend+1+4))
			if rng.Chance(20) {
				o := rng.Intn(len(msg) + 2)
				cl.add("dnsq."+class+".off", "dnsq", hx(msg), fmt.Sprint(o))
				cl.add("dnsans."+class+".off", "dnsans", hx(msg), fmt.Sprint(o))
			}
		}
	}
	for _, m := range dnsNameStress(rng) {
		add("namestress", m)
	}
	for k := 0; k < 60*scale; k++ {
		m := randResponse(rng, []int{1, 28, 5, 12, 16, 2, 33, 99}, 2)
		m.questions = [][]byte{question(dnsName("www", "example", "com"), 1)}
		b := m.bytes()
		add("valid", b)
		if k < 2 {
			for cut := 0; cut < len(b); cut++ {
				add("trunc", b[:cut])
			}
		}
		c := append([]byte{}, b...)
		c[rng.Intn(len(c))] = rng.Byte()
		add("mutate", c)
		// a random pointer planted at a random position behind the header
		d := append([]byte{}, b...)
		if len(d) > 16 {
			i := 12 + rng.Intn(len(d)-14)
			t := rng.Pick(i, i-1, 12, rng.Intn(len(d)), len(d), len(d)-1)
			if t < 0 {
				t = 0
			}
			d[i], d[i+1] = 0xc0|byte(t>>8), byte(t)
			add("pointer", d)
		}
	}
}

// ---------------------------------------------------------------- LLMNR (dispatched like mDNS)
func genLLMNR(cl *caseList, rng *lib.Rand, scale int) {
	add := func(class string, msg []byte) {
		v := viewOf(msg)
		cl.add("llmnr."+class, "llmnr", append([]string{hx(msg)}, v.tokens(false)...)...)
	}
	for k := 0; k < 60*scale; k++ {
		add("response", randResponse(rng, rrTypes, 2).bytes())
		m := &dnsMsg{id: rng.Intn(65536), flags: 0, qd: -1, an: -1, ns: -1, ar: -1}
		m.questions = [][]byte{question(dnsName("WIN-PC"), rng.Pick(1, 28, 255))}
		add("query", m.bytes())
	}
	b := randResponse(rng, rrTypes, 2).bytes()
	for cut := 0; cut < len(b); cut++ {
		add("trunc", b[:cut])
	}
	for k := 0; k < 60*scale; k++ {
		c := append([]byte{}, b...)
		c[rng.Intn(len(c))] = rng.Byte()
		add("mutate", c)
	}
	for _, m := range dnsNameStress(rng) {
		add("namestress", m)
	}
}

// ---------------------------------------------------------------- UPNP description / location
func genUPNP(cl *caseList, rng *lib.Rand, scale int) {
	xmlOK := func(b []byte) bool {
		var v dns_naming.UPNPService
		return xml.Unmarshal(b, &v) == nil
	}
	add := func(class string, body []byte) { cl.add("upnp."+class, "upnp", hx(body), tf(xmlOK(body))) }
	good := []byte(`<?xml version="1.0"?><root xmlns="urn:schemas-upnp-org:device-1-0"><specVersion><major>1</major><minor>0</minor></specVersion><device><friendlyName>192.168.0.103 - Sonos Play:1</friendlyName><manufacturer>Sonos, Inc.</manufacturer><modelNumber>S1</modelNumber><modelName>Sonos Play:1</modelName></device></root>`)
	add("valid", good)
	add("valid", []byte("<root><device/></root>"))
	add("empty", nil)
	for cut := 0; cut < len(good); cut += 3 {
		add("trunc", good[:cut])
	}
	for k := 0; k < 80*scale; k++ {
		c := append([]byte{}, good...)
		c[rng.Intn(len(c))] = rng.Byte()
		add("mutate", c)
	}
	for k := 0; k < 20*scale; k++ {
		add("random", rng.Bytes(rng.Intn(80)))
	}
	for _, loc := range []string{"", "d.xml", "://x", "http://", "ftp://127.0.0.1/x", "http://127.0.0.1:1/d.xml", "http://[::1]:1/", "http://127.0.0.1:99999/", "%zz", "http://127.0.0.1:1/\x7f", "@server404", "HTTP://127.0.0.1:1", "http:127.0.0.1"} {
		cl.add("upnploc", "upnploc", hx([]byte(loc)))
	}
}

// ---------------------------------------------------------------- every other PayloadID class
// frames of the classes Parse distinguishes that have no processor in handlers/ (dispatch falls
// through, as in examples/), and LLDP through the dispatcher
func genOther(cl *caseList, rng *lib.Rand, scale int) {
	add := func(class string, f []byte) {
		genSessOnce.Do(func() { genSess, _ = lib.NewSession() })
		var pid int
		var payload []byte
		ok := func() (ok bool) {
			defer func() { recover() }()
			frame, err := genSess.Parse(exact(f))
			if err != nil {
				return false
			}
			pid, payload = int(frame.PayloadID), frame.Payload()
			return true
		}()
		if !ok {
			cl.dropped["other.rejected"]++
			return
		}
		switch packet.PayloadID(pid) { // classes with a dedicated kind are generated there
		case packet.PayloadARP, packet.PayloadICMP4, packet.PayloadICMP6, packet.PayloadDHCP4, packet.PayloadDNS,
			packet.PayloadMDNS, packet.PayloadLLMNR, packet.PayloadNBNS, packet.PayloadSSDP, packet.Payload8023:
			return
		}
		cl.add(fmt.Sprintf("other.%s.%s", packet.PayloadID(pid), class), "other", hx(f), fmt.Sprint(pid), hx(payload))
	}
	dst4 := netip.MustParseAddr("192.168.0.129")
	ip4 := func(proto byte, pl []byte) []byte {
		return lib.MkEther(hostMAC, peerMAC, 0x0800, lib.MkIP4(peerIP4, dst4, proto, 64, pl))
	}
	ports := [][2]uint16{{40000, 443}, {123, 123}, {546, 547}, {3702, 3702}, {40000, 32412}, {10001, 10001}, {40000, 9999}, {68, 4000}}
	for k := 0; k < 8*scale; k++ {
		for _, pp := range ports {
			add("udp", ip4(17, lib.MkUDP(pp[0], pp[1], rng.Bytes(rng.Intn(40)))))
		}
		add("tcp", ip4(6, lib.MkTCP(40000, 443, rng.Bytes(rng.Intn(40)))))
		add("igmp", ip4(2, append([]byte{0x16, 0, 0, 0}, 224, 0, 0, 251)))
		add("ipother", ip4(byte(rng.Pick(47, 50, 89, 132)), rng.Bytes(8+rng.Intn(20))))
		f6 := lib.MkEther(hostMAC, peerMAC, 0x86dd, lib.MkIP6(peerLLA, hostLLA, 17, 64, lib.MkUDP(546, 547, rng.Bytes(12))))
		add("udp6", f6)
		for _, et := range []uint16{0x8808, 0x8899, 0x88cc, 0x890d, 0x893a, 0x6970, 0x880a, 0x1234, 0x8100, 0x88a8} {
			pl := rng.Bytes(4 + rng.Intn(40))
			if et == 0x88cc { // LLDP: TLV chains incl. lengths 0/1 (DESIGN #7)
				pl = lldpTLV(1, 7, append([]byte{4}, rng.Bytes(6)...))
				pl = append(pl, lldpTLV(2, rng.Pick(4, 4, 1, 0), []byte{5, 'e', 't', 'h'})...)
				pl = append(pl, lldpTLV(3, 2, []byte{0, 120})...)
				pl = append(pl, 0, 0, 0, 0)
			}
			add("ether", lib.MkEther(bcast, peerMAC, et, pl))
		}
	}
	l := lldpTLV(1, 7, append([]byte{4}, rng.Bytes(6)...))
	l = append(append(l, lldpTLV(3, 2, []byte{0, 120})...), 0, 0, 0, 0)
	for cut := 0; cut <= len(l); cut++ {
		add("lldp.trunc", lib.MkEther(bcast, peerMAC, 0x88cc, l[:cut]))
	}
}

// ---------------------------------------------------------------- bounded-exhaustive small payloads
// every byte string of length 0..maxLen over a 6-symbol alphabet chosen per decoder (length
// bytes 0/1/2, a type byte, a pointer byte, 0xff), appended to the fixed header the decoder needs
func genExhaustive(cl *caseList, maxLen int) {
	var strs [][]byte
	var rec func(pre []byte, alpha []byte, n int)
	rec = func(pre []byte, alpha []byte, n int) {
		strs = append(strs, append([]byte{}, pre...))
		if n == 0 {
			return
		}
		for _, a := range alpha {
			rec(append(pre, a), alpha, n-1)
		}
	}
	all := func(alpha []byte) [][]byte {
		strs = nil
		rec(nil, alpha, maxLen)
		return strs
	}
	for _, b := range all([]byte{0, 1, 2, 3, 31, 255}) { // NDP: types 1,2,3,31 / lengths 0,1,2
		cl.add("exh.ndp", "ndp", hx(b), "-")
		cl.add("exh.ndp", "ndp", hx(append(append([]byte{}, b...), make([]byte, 16)...)), "-")
	}
	for _, b := range all([]byte{0, 1, 2, 5, 0xc2, 255}) { // hop-by-hop: Pad1, PadN, router alert, jumbo
		cl.add("exh.hbh", "hbh", hx(append([]byte{58, 0}, b...)), "-")
		cl.add("exh.hbh", "hbh", hx(append(append([]byte{58, 0}, b...), make([]byte, 8)...)), "-")
		cl.add("exh.hbh", "hbh", hx(b), "-")
	}
	for _, b := range all([]byte{0, 1, 2, 3, 6, 255}) { // LLDP: type<<1|len9, length
		cl.add("exh.lldp", "lldp", hx(b), "-", "3")
		cl.add("exh.lldp", "lldp", hx(append(append([]byte{}, b...), 0, 0, 0, 0, 0, 0)), "-", "127")
	}
	hdr := make([]byte, 240)
	hdr[0], hdr[1], hdr[2] = 1, 1, 6
	copy(hdr[236:], []byte{99, 130, 83, 99})
	for _, b := range all([]byte{0, 1, 2, 53, 61, 255}) { // DHCP options: pad, lengths, message type, client id, end
		p := append(append([]byte{}, hdr...), b...)
		cl.add("exh.dhcpopt", "dhcpopt", hx(p), "-")
		cl.add("exh.dhcpvalid", "dhcpvalid", hx(p), "-")
	}
	dh := []byte{0x12, 0x34, 0x84, 0, 0, 1, 0, 1, 0, 0, 0, 0}
	for _, b := range all([]byte{0, 1, 0x0c, 0x0d, 0xc0, 255}) { // DNS names: root, label, pointer to 12/13
		m := append(append([]byte{}, dh...), b...)
		cl.add("exh.dnsq", "dnsq", hx(m), "12")
		cl.add("exh.dnsans", "dnsans", hx(m), "12")
		m2 := append(append([]byte{}, m...), 0, 1, 0, 1, 0, 0, 0, 0, 0, 0)
		cl.add("exh.dnsq", "dnsq", hx(m2), "12")
		cl.add("exh.dnsans", "dnsans", hx(m2), "12")
		f := udpFrame(53, 40000, netip.MustParseAddr("192.168.0.129"), hostMAC, m2)
		if _, _, ok := parseFor(f, packet.PayloadDNS); ok {
			cl.add("exh.dnsproc", "dnsproc", hx(f))
		}
		v := viewOf(m2)
		cl.add("exh.mdns", "mdns", append([]string{hx(m2)}, v.tokens(false)...)...)
		cl.add("exh.nbns", "nbns", append([]string{hx(m2)}, v.tokens(true)...)...)
		cl.add("exh.llmnr", "llmnr", append([]string{hx(m2)}, v.tokens(false)...)...)
	}
	for _, b := range all([]byte("ma-x=g")) { // CACHE-CONTROL fragments around "max-age" and '='
		sv := strings.TrimSpace(string(b))
		cl.add("exh.ssdpcc", "ssdpcc", hx([]byte(sv+"max-age")))
		cl.add("exh.ssdpcc", "ssdpcc", hx([]byte("max-age"+sv)))
	}
	for _, b := range all([]byte{0, 3, 0x42, 0xaa, 0xe0, 255}) { // LLC/SNAP
		f := lib.MkEther(net.HardwareAddr{0x01, 0x80, 0xc2, 0, 0, 0}, peerMAC, uint16(len(b)), b)
		if p, _, ok := parseFor(f, packet.Payload8023); ok {
			cl.add("exh.p8023", "p8023", hx(f), hx(p))
		}
	}
	for _, b := range all([]byte{0, 2, 33, 32, 16, 255}) { // NBNS node status RDATA: count, flags
		v := append([]byte{}, b...)
		r := rr{name: []byte{0}, typ: 0x21, class: 1, rdata: v, rdlen: -1}
		m := (&dnsMsg{id: 1, flags: 0x8400, qd: -1, an: -1, ns: -1, ar: -1, sec: [3][]rr{{r}, nil, nil}}).bytes()
		vw := viewOf(m)
		cl.add("exh.nbns.rdata", "nbns", append([]string{hx(m)}, vw.tokens(true)...)...)
	}
}
