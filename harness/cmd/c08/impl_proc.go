package main

// Runners of the remaining decoders and of the protocol processors (worker side).

import (
	"net/netip"
	"os"

	"github.com/irai/packet"
	"github.com/irai/packet/handlers/dhcp4_spoofer"
	"pvharness/lib"
)

func ret(err error) string { return "ret" }

// exact returns a copy whose capacity equals its length.
func exact(b []byte) []byte { return withCap(b, nil) }

func dhcpHandler(s *packet.Session) *dhcp4_spoofer.Handler {
	f, _ := os.CreateTemp("", "c08lease")
	name := f.Name()
	f.Close()
	os.Remove(name)
	h, err := dhcp4_spoofer.Config{Mode: dhcp4_spoofer.ModeSecondaryServerNice,
		NetfilterIP: netip.MustParsePrefix("192.168.0.129/25"), LeaseFilename: name}.New(s)
	if err != nil {
		panic("harness: dhcp handler: " + err.Error())
	}
	go func() { os.Remove(name) }()
	return h
}

func init() {
	impls["dhcpopt"] = func(a []string) string {
		p := withCap(lib.UnHex(a[0]), lib.UnHex(a[1]))
		_ = packet.DHCP4(p).ParseOptions()
		return "ok"
	}
	impls["dhcpvalid"] = func(a []string) string {
		p := withCap(lib.UnHex(a[0]), lib.UnHex(a[1]))
		return oe(packet.DHCP4(p).IsValid())
	}
	impls["lldp"] = func(a []string) string {
		p := withCap(lib.UnHex(a[0]), lib.UnHex(a[1]))
		var t int
		for _, c := range a[2] {
			t = t*10 + int(c-'0')
		}
		_ = packet.LLDP(p).GetPDU(t)
		return "ok"
	}
	impls["p8023"] = func(a []string) string {
		s := session()
		frame, err := s.Parse(exact(lib.UnHex(a[0])))
		if err != nil || frame.PayloadID != packet.Payload8023 {
			return "parse-rejected"
		}
		_, _, err = packet.Process8023Frame(frame, 0)
		return oe(err)
	}
	ssdp := func(a []string) string {
		payload := lib.UnHex(a[0])
		c := ctxFor(false)
		f := udpFrame(1900, 1900, netip.MustParseAddr("239.255.255.250"), packet.EthBroadcast, payload)
		frame, err := c.s.Parse(exact(f))
		if err != nil || frame.PayloadID != packet.PayloadSSDP {
			return "parse-rejected"
		}
		_, err = dispatch(c, env{}, frame)
		return oe(err)
	}
	impls["ssdp"] = ssdp
	impls["ssdpcc"] = func(a []string) string {
		v := lib.UnHex(a[0])
		msg := "NOTIFY * HTTP/1.1\r\nHOST: 239.255.255.250:1900\r\nCACHE-CONTROL: " + string(v) +
			"\r\nLOCATION: http://192.168.0.50:80/d.xml\r\nNT: upnp:rootdevice\r\nNTS: ssdp:alive\r\nUSN: uuid:1\r\n\r\n"
		return ssdp([]string{lib.Hex([]byte(msg))})
	}
	initPath()
}
