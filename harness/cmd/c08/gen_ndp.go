package main

// Generators for the NDP option block (newParseOptions and every option
// unmarshal) and for the hop-by-hop extension header.  Builders are plain
// byte writers, independent of the library's marshal functions.

import (
	"pvharness/lib"
)

func hx(b []byte) string { return lib.Hex(b) }

// spare capacity: mostly none, sometimes a few poisoned bytes
func spareOf(rng *lib.Rand) []byte {
	switch rng.Intn(10) {
	case 0:
		return poison(1 + rng.Intn(8))
	case 1:
		return poison(16 + rng.Intn(48))
	}
	return nil
}
func poison(n int) []byte {
	b := make([]byte, n)
	for i := range b {
		b[i] = 0xAA
	}
	return b
}

func optLLA(t byte, rng *lib.Rand) []byte { return append([]byte{t, 1}, rng.Bytes(6)...) }
func optMTU(rng *lib.Rand) []byte         { return []byte{5, 1, 0, 0, 0, 0, 5, byte(rng.Intn(256))} }
func optPI(rng *lib.Rand) []byte {
	o := make([]byte, 32)
	o[0], o[1] = 3, 4
	o[2] = byte(rng.Pick(0, 1, 48, 64, 96, 128, 129, 255))
	o[3] = byte(rng.Pick(0xc0, 0x80, 0x40, 0))
	copy(o[4:], rng.Bytes(8))
	copy(o[16:], rng.Bytes(16))
	return o
}
func optRI(rng *lib.Rand) []byte {
	pl := rng.Pick(0, 1, 8, 63, 64, 65, 127, 128)
	l := 1
	if pl > 0 {
		l = 2
	}
	if pl > 64 || rng.Chance(20) {
		l = 3
	}
	o := make([]byte, 8*l)
	o[0], o[1], o[2] = 24, byte(l), byte(pl)
	o[3] = byte(rng.Pick(0, 0x08, 0x18)) // medium, high, low
	copy(o[4:], rng.Bytes(len(o)-4))
	return o
}
func optRDNSS(rng *lib.Rand) []byte {
	n := 1 + rng.Intn(3)
	o := make([]byte, 8+16*n)
	o[0], o[1] = 25, byte(1+2*n)
	copy(o[4:], rng.Bytes(len(o)-4))
	return o
}
func optDNSSL(rng *lib.Rand) []byte {
	v := []byte{0, 0, 0, 0, 1, 0}
	nd := 1 + rng.Intn(2)
	for d := 0; d < nd; d++ {
		nl := 1 + rng.Intn(3)
		for l := 0; l < nl; l++ {
			ln := 1 + rng.Intn(6)
			v = append(v, byte(ln))
			for k := 0; k < ln; k++ {
				v = append(v, byte('a'+rng.Intn(26)))
			}
		}
		v = append(v, 0)
	}
	for (len(v)+2)%8 != 0 {
		v = append(v, 0)
	}
	return append([]byte{31, byte((len(v) + 2) / 8)}, v...)
}
func optUnknown(rng *lib.Rand) []byte {
	l := 1 + rng.Intn(3)
	o := make([]byte, 8*l)
	copy(o, rng.Bytes(len(o)))
	o[0], o[1] = byte(rng.Pick(0, 4, 6, 14, 26, 38, 200, 255)), byte(l)
	return o
}

var optTypes = []int{1, 2, 3, 5, 24, 25, 31, 14}

func mkOpt(t int, rng *lib.Rand) []byte {
	switch t {
	case 1, 2:
		return optLLA(byte(t), rng)
	case 3:
		return optPI(rng)
	case 5:
		return optMTU(rng)
	case 24:
		return optRI(rng)
	case 25:
		return optRDNSS(rng)
	case 31:
		return optDNSSL(rng)
	}
	return optUnknown(rng)
}

// a block of options with the offsets at which each starts
func optBlock(rng *lib.Rand, n int) ([]byte, []int) {
	var b []byte
	var offs []int
	for i := 0; i < n; i++ {
		offs = append(offs, len(b))
		b = append(b, mkOpt(optTypes[rng.Intn(len(optTypes))], rng)...)
	}
	return b, offs
}

func genNDP(cl *caseList, rng *lib.Rand, scale int) {
	add := func(class string, b []byte) { cl.add("ndp."+class, "ndp", hx(b), hx(spareOf(rng))) }

	// every single option type, valid; then every truncation of it
	for _, t := range optTypes {
		for k := 0; k < 6*scale; k++ {
			o := mkOpt(t, rng)
			add("valid1", o)
			if k == 0 {
				for cut := 0; cut < len(o); cut++ {
					add("trunc1", o[:cut])
				}
			}
		}
	}
	// valid blocks
	for k := 0; k < 300*scale; k++ {
		b, _ := optBlock(rng, 1+rng.Intn(6))
		add("valid", b)
	}
	// truncation of blocks at every offset
	for k := 0; k < 12*scale; k++ {
		b, _ := optBlock(rng, 2+rng.Intn(3))
		for cut := 0; cut <= len(b); cut++ {
			add("trunc", b[:cut])
		}
	}
	// length-byte corruption of one option: 0 is the DESIGN #12 class (panic / endless loop).
	// Zero lengths are bounded in number: every endless loop costs its time-out.
	lens := []int{1, 2, 3, 4, 5, 7, 31, 32, 33, 64, 65, 255}
	for k := 0; k < 60*scale; k++ {
		b, offs := optBlock(rng, 1+rng.Intn(4))
		i := offs[rng.Intn(len(offs))]
		c := append([]byte{}, b...)
		c[i+1] = byte(lens[rng.Intn(len(lens))])
		// pad so that a longer declared length can still fit
		if rng.Bool() {
			c = append(c, rng.Bytes(8*rng.Intn(40))...)
		}
		add("lencorrupt", c)
	}
	zeroTypes := []int{1, 2, 3, 5, 24, 25, 31, 14, 0, 255}
	for _, t := range zeroTypes {
		// alone, in front of a valid block, behind a valid block
		z := []byte{byte(t), 0, 0, 0, 0, 0, 0, 0}
		add("zerolen", z)
		add("zerolen", z[:2])
		b, _ := optBlock(rng, 2)
		if t != 31 && t != 14 && t != 0 && t != 255 || scale > 1 {
			add("zerolen", append(append([]byte{}, z...), b...))
		}
		// behind options that do not return an error (MTU, unknown): the zero option is reached
		pre := append(optMTU(rng), optUnknown(rng)...)
		add("zerolen", append(pre, z...))
	}
	// option-specific field corruption
	for k := 0; k < 40*scale; k++ { // route information: prefix length x option length x preference
		l := rng.Intn(5) + rng.Intn(2)*rng.Intn(30)
		if l == 0 {
			l = 1
		}
		o := make([]byte, 8*l)
		copy(o, rng.Bytes(len(o)))
		o[0], o[1] = 24, byte(l)
		o[2] = byte(rng.Pick(0, 1, 64, 65, 128, 129, 255, rng.Intn(256)))
		add("ri", o)
	}
	for k := 0; k < 40*scale; k++ { // RDNSS with every small length
		l := 1 + rng.Intn(8)
		o := make([]byte, 8*l)
		copy(o, rng.Bytes(len(o)))
		o[0], o[1] = 25, byte(l)
		add("rdnss", o)
	}
	for k := 0; k < 30*scale; k++ { // MTU / LLA / PI with a wrong but non-zero length
		t := rng.Pick(1, 2, 3, 5)
		l := 1 + rng.Intn(6)
		if rng.Chance(15) {
			l = rng.Pick(32, 33, 65) // uint8 wrap of b[1]*8
		}
		o := make([]byte, 8*l)
		copy(o, rng.Bytes(len(o)))
		o[0], o[1] = byte(t), byte(l)
		add("fixedlen", o)
	}
	for k := 0; k < 120*scale; k++ { // DNSSL label structure corruption
		o := optDNSSL(rng)
		switch rng.Intn(7) {
		case 0:
			o[8+rng.Intn(len(o)-8)] = byte(rng.Intn(256))
		case 1:
			o[8] = byte(len(o)) // label longer than the value
		case 2:
			o[9] = 0x80 | rng.Byte() // not ASCII
		case 3:
			o[9] = '.'
		case 4:
			for i := 8; i < len(o); i++ { // no terminator anywhere
				if o[i] == 0 {
					o[i] = 1
				}
			}
		case 5:
			o = append(o, rng.Bytes(8)...) // trailing garbage after the padding
			o[1]++
		case 6:
			if len(o) >= 16 {
				o = o[:len(o)-8] // value shorter than declared: RawOption.unmarshal mismatch
			}
		}
		add("dnssl", o)
	}
	{ // DNSSL with 32 and more units: int(r.Length*8) wraps
		o := make([]byte, 8*32)
		o[0], o[1] = 31, 32
		add("dnssl", o)
		o = make([]byte, 8*33)
		o[0], o[1] = 31, 33
		add("dnssl", o)
	}
	// DNSSL at the bounds of its label loop: option of 255 units (2040 bytes) filled with 1-byte
	// labels, with 63-byte labels, with one domain longer than 255, with no terminator up to the
	// very last byte, terminator in the last / last but one byte
	for _, units := range spans([]int{2, 3, 31, 32, 33, 127, 128, 255}, [2]int{2, 40}, [2]int{120, 136}, [2]int{245, 255}) {
		n := units*8 - 2 // value bytes
		mk := func(fill func(v []byte)) {
			o := make([]byte, units*8)
			o[0], o[1] = 31, byte(units)
			fill(o[8:]) // behind reserved + lifetime
			_ = n
			add("dnssl.bound", o)
		}
		mk(func(v []byte) { // 1-byte labels to the end
			for i := 0; i+1 < len(v); i += 2 {
				v[i], v[i+1] = 1, 'a'
			}
		})
		mk(func(v []byte) { // 63-byte labels, never terminated
			for i := 0; i < len(v); {
				l := 63
				if len(v)-i-1 < l {
					l = len(v) - i - 1
				}
				if l <= 0 {
					v[i] = 1
					break
				}
				v[i] = byte(l)
				for k := 1; k <= l; k++ {
					v[i+k] = 'b'
				}
				i += 1 + l
			}
		})
		mk(func(v []byte) { // many one-label domains: 1 'c' 0 ...
			for i := 0; i+2 < len(v); i += 3 {
				v[i], v[i+1], v[i+2] = 1, 'c', 0
			}
		})
		mk(func(v []byte) { // label whose length reaches exactly / one beyond the end
			if len(v) >= 2 {
				v[0] = byte(min(len(v)-1, 255))
			}
		})
		mk(func(v []byte) {
			if len(v) >= 2 {
				v[0] = byte(min(len(v)-2, 255))
				for k := 1; k < len(v)-1 && k < 256; k++ {
					v[k] = 'd'
				}
			}
		})
	}
	// random bytes and single-byte mutations (length bytes are kept non-zero with high
	// probability by construction: a mutation rarely hits one with value 0)
	for k := 0; k < 150*scale; k++ {
		b := rng.Bytes(rng.Intn(64))
		for i := 1; i < len(b); i += 1 + rng.Intn(8) {
			if b[i] == 0 {
				b[i] = 1
			}
		}
		add("random", b)
	}
	for k := 0; k < 300*scale; k++ {
		b, _ := optBlock(rng, 1+rng.Intn(4))
		i := rng.Intn(len(b))
		v := rng.Byte()
		if v == 0 {
			v = 1
		}
		b[i] = v
		add("mutate", b)
	}
	// through the exported views: router advertisement / solicitation of every length
	for k := 0; k < 20*scale; k++ {
		b, _ := optBlock(rng, 1+rng.Intn(3))
		ra := append(append([]byte{134, 0, 0, 0}, rng.Bytes(12)...), b...)
		rs := append(append([]byte{133, 0, 0, 0}, rng.Bytes(20)...), b...)
		cl.add("ndp.ra", "ra", hx(ra), hx(spareOf(rng)))
		cl.add("ndp.rs", "rs", hx(rs), hx(spareOf(rng)))
		if k < 2*scale {
			for cut := 0; cut < len(ra); cut++ {
				cl.add("ndp.ra.trunc", "ra", hx(ra[:cut]), "-")
			}
			for cut := 0; cut < len(rs); cut++ {
				cl.add("ndp.rs.trunc", "rs", hx(rs[:cut]), "-")
			}
		}
	}
}

// ---------------------------------------------------------------- hop-by-hop

func hbhOption(rng *lib.Rand) []byte {
	switch rng.Intn(6) {
	case 0:
		return []byte{0} // Pad1
	case 1:
		n := rng.Intn(6)
		return append([]byte{1, byte(n)}, make([]byte, n)...) // PadN
	case 2:
		return []byte{5, 2, 0, byte(rng.Intn(4))} // router alert
	case 3:
		return []byte{0xC2, 4, 0, 1, 0, 0} // jumbo payload (type 194: low 5 bits = 2)
	case 4:
		n := rng.Intn(8)
		return append([]byte{byte(rng.Pick(0x1e, 0x26, 0x3f, 0x7, 0xee)), byte(n)}, rng.Bytes(n)...)
	}
	return []byte{byte(0xE0 | rng.Intn(2))} // high bits set, type 0/1
}

func hbhHeader(rng *lib.Rand) []byte {
	body := []byte{}
	for n := 1 + rng.Intn(5); n > 0; n-- {
		body = append(body, hbhOption(rng)...)
	}
	for (len(body)+2)%8 != 0 {
		body = append(body, 0)
	}
	l := (len(body)+2)/8 - 1
	h := append([]byte{byte(rng.Pick(58, 17, 6, 0)), byte(l)}, body...)
	return h
}

func genHBH(cl *caseList, rng *lib.Rand, scale int) {
	add := func(class string, b, spare []byte) { cl.add("hbh."+class, "hbh", hx(b), hx(spare)) }
	for k := 0; k < 300*scale; k++ {
		h := hbhHeader(rng)
		// IsValid wants two bytes beyond Len(): with and without them
		if rng.Bool() {
			h = append(h, rng.Bytes(2+rng.Intn(20))...)
		}
		add("valid", h, spareOf(rng))
	}
	for k := 0; k < 10*scale; k++ {
		h := append(hbhHeader(rng), rng.Bytes(4)...)
		for cut := 0; cut <= len(h); cut++ {
			add("trunc", h[:cut], nil)
			// the same bytes present as spare capacity: Data() re-slices up to the capacity
			add("trunc.cap", h[:cut], h[cut:])
		}
	}
	for k := 0; k < 100*scale; k++ { // length byte corruption
		h := append(hbhHeader(rng), rng.Bytes(rng.Intn(24))...)
		h[1] = byte(rng.Pick(0, 1, 2, 3, int(h[1])+1, 31, 255))
		add("lencorrupt", h, spareOf(rng))
	}
	for k := 0; k < 200*scale; k++ { // option length corruption / random mutation
		h := append(hbhHeader(rng), rng.Bytes(2)...)
		h[2+rng.Intn(len(h)-2)] = rng.Byte()
		add("mutate", h, spareOf(rng))
	}
	for k := 0; k < 100*scale; k++ {
		add("random", rng.Bytes(rng.Intn(40)), spareOf(rng))
	}
	// option chains at the bounds: the largest header (255 -> 2048 bytes) filled with Pad1, with
	// PadN of length 0 / 255, with options that end exactly at / one beyond / far beyond the end
	for _, l1 := range spans([]int{0, 1, 30, 31, 32, 254, 255}, [2]int{0, 40}, [2]int{120, 136}, [2]int{240, 255}) {
		size := l1*8 + 8
		mk := func(fill func(d []byte)) {
			h := make([]byte, size)
			h[0], h[1] = 58, byte(l1)
			fill(h[2:])
			add("chain", h, nil)
			add("chain", append(h, 0, 0), nil) // IsValid wants two more bytes
		}
		mk(func(d []byte) {}) // all Pad1
		mk(func(d []byte) {   // PadN of length 0: advances by 2
			for i := 0; i+1 < len(d); i += 2 {
				d[i], d[i+1] = 1, 0
			}
		})
		mk(func(d []byte) { // PadN 255 repeated
			for i := 0; i+1 < len(d); i += 257 {
				d[i], d[i+1] = 1, 255
			}
		})
		mk(func(d []byte) { d[0], d[1] = 1, byte(min(len(d)-2, 255)) }) // ends exactly at the end
		mk(func(d []byte) { d[0], d[1] = 1, byte(min(len(d)-1, 255)) }) // one beyond
		mk(func(d []byte) { d[0], d[1] = 0x3e, 255 })                   // unknown type, far beyond
		mk(func(d []byte) { d[len(d)-1] = 1 })                          // PadN type in the last byte: no length byte
		mk(func(d []byte) { d[len(d)-3] = 5 })                          // router alert cut off by the end
		mk(func(d []byte) { d[len(d)-4] = 5 })                          // router alert ending exactly at the end
	}
}
