package main

// A zero-length element at EVERY position of a valid chain, for every walker (ties the progress
// theorems C08_progress_*: the iteration that meets it must end the walk or advance), and the
// TXT strings handed to parseTXT.

import (
	"net"
	"net/netip"
	"strings"

	"pvharness/lib"
)

func genZeroEverywhere(cl *caseList, rng *lib.Rand) {
	// NDP: option k of a 6-option block gets length 0 (every option type at every position)
	for _, t := range []int{1, 2, 3, 5, 24, 25, 31, 14} {
		for pos := 0; pos < 6; pos++ {
			var b []byte
			for k := 0; k < 6; k++ {
				o := mkOpt([]int{5, 14, 25, 24, 31, 5}[k], rng) // options that do not end the walk
				if k == pos {
					o = mkOpt(t, rng)
					o[1] = 0
				}
				b = append(b, o...)
			}
			cl.add("zero.ndp", "ndp", hx(b), "-")
			ra := append([]byte{134, 0, 0, 0, 64, 0, 7, 8, 0, 0, 0, 0, 0, 0, 0, 0}, b...)
			cl.add("zero.ra", "ra", hx(ra), "-")
		}
	}
	// DNSSL: a zero label at every label boundary of a 3-domain list
	base := optDNSSL(lib.NewRand(5))
	for i := 8; i < len(base); i++ {
		c := append([]byte{}, base...)
		c[i] = 0
		cl.add("zero.dnssl", "ndp", hx(c), "-")
	}
	// hop-by-hop: PadN of length 0 / unknown option of length 0 at every position of an 8-option area
	for _, ty := range []byte{1, 0x1e, 5, 0xc2} {
		for pos := 0; pos < 7; pos++ {
			d := []byte{}
			for k := 0; k < 7; k++ {
				if k == pos {
					d = append(d, ty, 0)
				} else {
					d = append(d, 1, 0)
				}
			}
			for (len(d)+2)%8 != 0 {
				d = append(d, 0)
			}
			h := append([]byte{58, byte((len(d)+2)/8 - 1)}, d...)
			cl.add("zero.hbh", "hbh", hx(h), "-")
		}
	}
	// DHCP: option of length 0 / pad / end at every position of a 6-option area
	hdr := make([]byte, 240)
	hdr[0], hdr[1], hdr[2] = 1, 1, 6
	copy(hdr[236:], []byte{99, 130, 83, 99})
	for _, el := range [][]byte{{12, 0}, {0}, {53, 0}, {255}} {
		for pos := 0; pos < 6; pos++ {
			p := append([]byte{}, hdr...)
			for k := 0; k < 6; k++ {
				if k == pos {
					p = append(p, el...)
				} else {
					p = append(p, 50, 4, 192, 168, 0, byte(k))
				}
			}
			cl.add("zero.dhcp", "dhcpopt", hx(p), "-")
			cl.add("zero.dhcp", "dhcpvalid", hx(p), "-")
		}
	}
	// LLDP: TLV of length 0 (type != 0) and the end marker at every position of a 6-TLV chain
	for _, el := range [][]byte{{5 << 1, 0}, {0, 0}, {127 << 1, 0}} {
		for pos := 0; pos < 6; pos++ {
			var p []byte
			for k := 0; k < 6; k++ {
				if k == pos {
					p = append(p, el...)
				} else {
					p = append(p, lldpTLV(4+k, 3, []byte{1, 2, 3})...)
				}
			}
			p = append(p, 0, 0, 0, 0)
			cl.add("zero.lldp", "lldp", hx(p), "-", "127")
			cl.add("zero.lldp", "lldp", hx(p), "-", "3")
		}
	}
	// mDNS / NBNS / LLMNR: a record with RDLENGTH 0 of every type at every position of every section
	for _, t := range []int{1, 12, 16, 33, 41, 47, 32, 99} {
		for s := 0; s < 3; s++ {
			for pos := 0; pos < 3; pos++ {
				m := &dnsMsg{id: 1, flags: 0x8400, qd: -1, an: -1, ns: -1, ar: -1}
				for k := 0; k < 3; k++ {
					r := mkRR(1, rng)
					if k == pos {
						r = rr{name: hostName, typ: t, class: 1, rdata: nil, rdlen: 0}
					}
					m.sec[s] = append(m.sec[s], r)
				}
				b := m.bytes()
				v := viewOf(b)
				cl.add("zero.mdns", "mdns", append([]string{hx(b)}, v.tokens(false)...)...)
				cl.add("zero.llmnr", "llmnr", append([]string{hx(b)}, v.tokens(false)...)...)
				if s == 0 {
					cl.add("zero.nbns", "nbns", append([]string{hx(b)}, v.tokens(true)...)...)
				}
			}
		}
	}
	// parseTXT through ProcessMDNS: one TXT record whose strings are given
	txts := [][]string{{"model=MacBookPro14,1", "osxvers=20", "ecolor=157"}, {"a", "b", "c"}, {"=", "=", "="}, {"model", "ty", "md"},
		{"x=1", "model=", "y"}, {"", "", ""}, {"a=b=c=d", "DvTy=iPad", "z"}, {"md=Chromecast", "q=", "=v"}, {"model=A", "ty=B"}, {"only"},
		{"k=v", "k=v", "k=v", "k=v", "md==", "=md"}, {strings.Repeat("x", 200) + "=1", "ty=" + strings.Repeat("y", 200), "="}}
	for _, ss := range txts {
		var rd []byte
		var toks []string
		for _, x := range ss {
			rd = append(append(rd, byte(len(x))), x...)
			toks = append(toks, hx([]byte(x)))
		}
		m := &dnsMsg{id: 2, flags: 0x8400, qd: -1, an: -1, ns: -1, ar: -1}
		m.sec[0] = []rr{{name: hostName, typ: 16, class: 1, rdata: rd, rdlen: -1}}
		cl.add("ptxt", "ptxt", hx(m.bytes()), strings.Join(toks, ","))
	}
	_ = net.IPv4len
	_ = netip.Addr{}
}
