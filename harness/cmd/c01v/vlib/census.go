package vlib

import (
	"fmt"
	"go/ast"
	"go/parser"
	"go/token"
	"os"
	"path/filepath"
	"sort"
	"strings"
)

// SliceCensus: for every getter / decoder of a view type whose result can alias the view ([]byte, net.IP,
// net.HardwareAddr, []net.IP, DHCP4Options, or a tuple containing []byte), the number of two-index and of
// three-index slice expressions in its body, as T.M:n2/n3 (sorted). A two-index expression p[a:b] that flows to the
// result keeps the capacity up to the end of the frame's buffer: a caller's append to the returned slice would
// scribble on the bytes that follow (this is how a decoder can come to write into the frame). The model records the
// same list (Model/ViewsDispatch.v slice_census); a getter that starts or stops clipping the capacity, or a new
// aliasing getter, changes the line. Counting whole bodies keeps the census silent under introduced temporaries,
// reordered statements and renamed locals.
func SliceCensus() string {
	repo := os.Getenv("VERIF_REPO")
	if repo == "" {
		repo = "/repo"
	}
	want := map[string]bool{}
	for i := range Types {
		want[Types[i].Name] = true
	}
	files, _ := filepath.Glob(filepath.Join(repo, "*.go"))
	fset := token.NewFileSet()
	var out []string
	aliasing := func(e ast.Expr) bool {
		s := exprString(e)
		switch s {
		case "[]byte", "net.IP", "net.HardwareAddr", "[]net.IP", "DHCP4Options":
			return true
		}
		return false
	}
	for _, f := range files {
		if strings.HasSuffix(f, "_test.go") {
			continue
		}
		af, err := parser.ParseFile(fset, f, nil, 0)
		if err != nil {
			continue
		}
		for _, d := range af.Decls {
			fd, ok := d.(*ast.FuncDecl)
			if !ok || fd.Body == nil || fd.Type.Results == nil {
				continue
			}
			owner := ""
			if fd.Recv != nil && len(fd.Recv.List) == 1 {
				owner = exprString(fd.Recv.List[0].Type)
				if !want[owner] {
					continue
				}
			} else if fd.Name.Name != "trimNull" {
				continue
			}
			// getters and decoders only: no parameters besides at most one int (GetPDU, getTLV); trimNull takes the slice
			np := 0
			for _, p := range fd.Type.Params.List {
				n := len(p.Names)
				if n == 0 {
					n = 1
				}
				np += n
			}
			if owner != "" && np > 1 {
				continue
			}
			if owner != "" && np == 1 && exprString(fd.Type.Params.List[0].Type) != "int" {
				continue
			}
			al := false
			for _, r := range fd.Type.Results.List {
				if aliasing(r.Type) {
					al = true
				}
			}
			if !al {
				continue
			}
			n2, n3 := 0, 0
			ast.Inspect(fd.Body, func(n ast.Node) bool {
				if se, ok := n.(*ast.SliceExpr); ok {
					if se.Slice3 {
						n3++
					} else {
						n2++
					}
				}
				return true
			})
			name := fd.Name.Name
			if owner != "" {
				name = owner + "." + name
			}
			out = append(out, fmt.Sprintf("%s:%d/%d", name, n2, n3))
		}
	}
	sort.Strings(out)
	return strings.Join(out, ",")
}

func exprString(e ast.Expr) string {
	switch x := e.(type) {
	case *ast.Ident:
		return x.Name
	case *ast.SelectorExpr:
		return exprString(x.X) + "." + x.Sel.Name
	case *ast.ArrayType:
		if x.Len == nil {
			return "[]" + exprString(x.Elt)
		}
		return "[n]" + exprString(x.Elt)
	case *ast.StarExpr:
		return "*" + exprString(x.X)
	}
	return "?"
}
