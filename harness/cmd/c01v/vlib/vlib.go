// Package vlib: shared part of the VIEWS units of C01 and C02 (cmd/c01v, cmd/c02v).
//
// For every protocol view type of package packet it generates byte strings
// (structured valid messages, boundary lengths, truncations, corrupted length
// fields, random bytes), gives the slice an exact capacity (spare capacity
// 0 / small / large, poisoned), calls IsValid and then EVERY zero-argument
// method found by reflection, each under recover, and records one case per
// method:
//
//	g <Type> <Method> <spare-hex> <view-hex>   ->   observation
//
// Observation, mode "value" (C02): integers in decimal, T/F, returned slices
// that alias the view as r<off>+<len> (offset relative to the view, computed
// from the data pointers; go.mod pins go1.18, so reflect.Value.Pointer stands in for unsafe.SliceData), empty/nil slices as e, copied bytes / netip.Addr
// as x<hex>, strings as s:<text>, lists as [a,b], maps as [[k,v],...] sorted,
// String() and (value, nil-error) results as ok, non-nil error as err, panic.
// Mode "shape" (C01): only what C01 constrains: ok / ranges / err / panic.
//
// The method set comes from reflection, so a method added to the library and
// missing from the model's table makes the model answer "nomodel" (a
// correspondence failure); `m <Type>` compares the whole name set.
package vlib

import (
	"encoding/hex"
	"fmt"
	"io"
	"net/netip"
	"os"
	"os/exec"
	"path/filepath"
	"reflect"
	"regexp"
	"sort"
	"strconv"
	"strings"
	"time"

	"github.com/irai/packet"
	"github.com/irai/packet/fastlog"
	"pvharness/lib"
)

// VT describes one view type.
type VT struct {
	Name string
	Make func(b []byte) interface{}
	// Valid returns a structurally valid message with random field values.
	Valid func(rng *lib.Rand) []byte
	// Fields are byte offsets of length / type / count fields worth corrupting.
	Fields []int
	// Bounds are the length constants the code compares against.
	Bounds []int
	// StringMax > 0: String() is only called on views up to this length (fastlog's own buffer
	// handling is C20's subject, not modelled here).
	StringMax int
}

var quiet bool

// Quiet silences the library's own printing (fmt.Printf diagnostics, fastlog writes).
func Quiet(r *lib.Run) {
	fastlog.DefaultIOWriter = io.Discard
	if dn, err := os.OpenFile(os.DevNull, os.O_WRONLY, 0); err == nil {
		os.Stdout = dn
	}
	quiet = true
}

func hx(b []byte) string { return hex.EncodeToString(b) }

// mkView builds a slice with len = len(b) and cap = len(b)+len(spare) exactly.
func mkView(b, spare []byte) []byte {
	buf := make([]byte, len(b)+len(spare))
	copy(buf, b)
	copy(buf[len(b):], spare)
	return buf[:len(b):len(buf)]
}

var errType = reflect.TypeOf((*error)(nil)).Elem()
var addrType = reflect.TypeOf(netip.Addr{})

func fmtBytes(rv reflect.Value, shape bool, base uintptr, capN int) string {
	n := rv.Len()
	if n == 0 {
		return "e"
	}
	b := rv.Bytes()
	p := rv.Pointer() // data pointer of the returned slice
	if p >= base && p < base+uintptr(capN) {
		return fmt.Sprintf("r%d+%d", int(p-base), n)
	}
	if shape {
		return "ok"
	}
	return "x" + hx(b)
}

func fmtVal(method string, rv reflect.Value, shape bool, base uintptr, capN int) string {
	t := rv.Type()
	if t == addrType {
		if shape {
			return "ok"
		}
		a := rv.Interface().(netip.Addr)
		return "x" + hx(a.AsSlice())
	}
	switch rv.Kind() {
	case reflect.Bool:
		if shape {
			return "ok"
		}
		if rv.Bool() {
			return "T"
		}
		return "F"
	case reflect.Int, reflect.Int8, reflect.Int16, reflect.Int32, reflect.Int64:
		if shape {
			return "ok"
		}
		return fmt.Sprint(rv.Int())
	case reflect.Uint, reflect.Uint8, reflect.Uint16, reflect.Uint32, reflect.Uint64:
		if shape {
			return "ok"
		}
		return fmt.Sprint(rv.Uint())
	case reflect.String:
		if shape || method == "String" {
			return "ok"
		}
		return "s:" + rv.String()
	case reflect.Slice:
		if t.Elem().Kind() == reflect.Uint8 {
			return fmtBytes(rv, shape, base, capN)
		}
		parts := make([]string, rv.Len())
		for i := range parts {
			parts[i] = fmtVal(method, rv.Index(i), shape, base, capN)
		}
		return "[" + strings.Join(parts, ",") + "]"
	case reflect.Map:
		keys := rv.MapKeys()
		sort.Slice(keys, func(i, j int) bool { return keys[i].Uint() < keys[j].Uint() })
		parts := make([]string, len(keys))
		for i, k := range keys {
			kk := fmt.Sprint(k.Uint())
			if shape {
				kk = "ok"
			}
			parts[i] = "[" + kk + "," + fmtVal(method, rv.MapIndex(k), shape, base, capN) + "]"
		}
		return "[" + strings.Join(parts, ",") + "]"
	}
	return "ok"
}

// ndpWouldSpin: routing oracle only. newParseOptions does not advance over an option whose length
// field is 0 when the type is not one of the decoded ones (DESIGN 11 #12): such a call never returns,
// so it is run in a killable child process (see CallGuarded). If this prediction were wrong the child
// simply returns its real observation.
func ndpWouldSpin(b []byte, k int) bool {
	if len(b) <= k {
		return false
	}
	b = b[k:]
	for i := 0; len(b)-i >= 2; {
		t, l := b[i], int(b[i+1])*8
		if l == 0 {
			switch t {
			case 1, 2, 3, 5, 24, 25:
				return false // panics
			}
			return true
		}
		if l > len(b)-i {
			return false
		}
		if (t == 1 || t == 2) && b[i+1] != 1 || t == 3 && b[i+1] != 4 {
			return false
		}
		i += l
	}
	return false
}

var spinBudget = 10 // child processes per run (each waits 1 s)

// CallGuarded is Call, except that an Options() call predicted to spin is executed in a child process
// with a wall-clock limit; a kill is the observation "fuel".
func CallGuarded(vt *VT, method string, b, sp []byte, shape bool) string {
	k := -1
	switch vt.Name {
	case "ICMP6RouterSolicitation":
		k = 24
	case "ICMP6RouterAdvertisement":
		k = 16
	}
	if method == "Options" && k >= 0 && os.Getenv("VLIB_CHILD") == "" && ndpWouldSpin(b, k) {
		tmp, err := os.CreateTemp("", "vchild")
		if err != nil {
			return "child-error"
		}
		tmp.Close()
		defer os.Remove(tmp.Name())
		line := strings.Join([]string{"g", vt.Name, method, lib.Hex(sp), lib.Hex(b)}, " ")
		cmd := exec.Command(os.Args[0], "-out", tmp.Name(), "-replay", line)
		cmd.Env = append(os.Environ(), "VLIB_CHILD=1")
		if err := cmd.Start(); err != nil {
			return "child-error"
		}
		done := make(chan error, 1)
		go func() { done <- cmd.Wait() }()
		select {
		case <-done:
			out, _ := os.ReadFile(tmp.Name())
			f := strings.Split(strings.TrimRight(string(out), "\n"), "\t")
			if len(f) >= 3 {
				return strings.Split(f[2], "\n")[0]
			}
			return "child-error"
		case <-time.After(time.Second):
			cmd.Process.Kill()
			<-done
			return "fuel"
		}
	}
	return Call(vt, method, mkView(b, sp), shape)
}

// copied bytes: x<hex>, an empty one is e
func fx(b []byte) string {
	if len(b) == 0 {
		return "e"
	}
	return "x" + hx(b)
}

func tf(b bool) string {
	if b {
		return "T"
	}
	return "F"
}

// fmtNewOptions prints the decoded NDP options: [mtu,[prefixes],[rdnss lifetime,[servers]],slla,tlla,
// [dnssl lifetime,[domain names as bytes]],[route prefix length,preference,lifetime,prefix]];
// a prefix is [length,on-link,autonomous,valid seconds,preferred seconds,prefix]; lifetimes in seconds.
func fmtNewOptions(o packet.NewOptions) string {
	sec := func(d time.Duration) string { return fmt.Sprint(int64(d / time.Second)) }
	var pf []string
	for _, p := range o.Prefixes {
		pf = append(pf, "["+strings.Join([]string{fmt.Sprint(p.PrefixLength), tf(p.OnLink), tf(p.AutonomousAddressConfiguration),
			sec(p.ValidLifetime), sec(p.PreferredLifetime), fx(p.Prefix)}, ",")+"]")
	}
	var sv []string
	for _, s := range o.RDNSS.Servers {
		sv = append(sv, fx(s))
	}
	var dn []string
	for _, d := range o.DNSSearchList.DomainNames {
		dn = append(dn, fx([]byte(d)))
	}
	r := o.RouteInformation
	return "[" + strings.Join([]string{
		fmt.Sprint(uint32(o.MTU)),
		"[" + strings.Join(pf, ",") + "]",
		"[" + sec(o.RDNSS.Lifetime) + ",[" + strings.Join(sv, ",") + "]]",
		fx(o.SourceLLA.MAC), fx(o.TargetLLA.MAC),
		"[" + sec(o.DNSSearchList.Lifetime) + ",[" + strings.Join(dn, ",") + "]]",
		"[" + strings.Join([]string{fmt.Sprint(r.PrefixLength), fmt.Sprint(int(r.Preference)), sec(r.RouteLifetime), fx(r.Prefix)}, ",") + "]",
	}, ",") + "]"
}

// readOnly wraps one call of a getter / validator / decoder: DECODERS ARE READ-ONLY AND IDEMPOTENT.
// The full backing array (view + spare capacity, poisoned) is compared before and after the call, and the call is
// made twice on the same view: a write is reported as obs!write@<first changed offset>, a different second
// result as obs!again=<second>. The model never prints these (its getters are functions of the bytes:
// Properties/C02_views.v C02_getters_read_only), so either is a correspondence failure with the case as replay.
func readOnly(v []byte, call func() string) string {
	full := v[:cap(v)]
	before := append([]byte{}, full...)
	o1 := call()
	for i := range full {
		if full[i] != before[i] {
			return fmt.Sprintf("%s!write@%d", o1, i)
		}
	}
	if o2 := call(); o2 != o1 {
		return o1 + "!again=" + o2
	}
	for i := range full {
		if full[i] != before[i] {
			return fmt.Sprintf("%s!write2@%d", o1, i)
		}
	}
	return o1
}

// Call runs one zero-argument method of the view (twice, see readOnly), each call under recover.
func Call(vt *VT, method string, v []byte, shape bool) string {
	return readOnly(v, func() string { return call1(vt, method, v, shape) })
}

func call1(vt *VT, method string, v []byte, shape bool) (obs string) {
	defer func() {
		if e := recover(); e != nil {
			obs = "panic"
		}
	}()
	m := reflect.ValueOf(vt.Make(v)).MethodByName(method)
	if !m.IsValid() || m.Type().NumIn() != 0 {
		return "nomethod"
	}
	out := m.Call(nil)
	if method == "IsValid" {
		o := out[0]
		if o.Kind() == reflect.Bool {
			if o.Bool() {
				return "T"
			}
			return "F"
		}
		if o.IsNil() {
			return "T"
		}
		return "F"
	}
	if len(out) == 0 {
		return "ok"
	}
	base := reflect.ValueOf(v).Pointer() // data pointer of the view
	if last := out[len(out)-1]; last.Type() == errType {
		if !last.IsNil() {
			return "err"
		}
		if len(out) == 1 {
			return "ok"
		}
		if o, isOpt := out[0].Interface().(packet.NewOptions); isOpt {
			if shape {
				return "ok"
			}
			return fmtNewOptions(o)
		}
		if out[0].Kind() == reflect.Map && out[0].Len() == 0 || out[0].Kind() == reflect.Struct {
			return "ok"
		}
	}
	obs = fmtVal(method, out[0], shape, base, cap(v))
	if shape && strings.HasPrefix(obs, "[") && !rangeRe.MatchString(obs) {
		return "ok" // a list / map that holds no range into the view
	}
	return obs
}

var rangeRe = regexp.MustCompile(`r[0-9]`)

// API lists every exported method as Name/arity (arity = arguments besides the receiver), sorted by name.
func API(vt *VT) []string {
	t := reflect.TypeOf(vt.Make(nil))
	var names []string
	for i := 0; i < t.NumMethod(); i++ {
		m := t.Method(i)
		names = append(names, fmt.Sprintf("%s/%d", m.Name, m.Type.NumIn()-1))
	}
	return names
}

// Consts prints the exported layout constants of package packet that the model's offsets rest on.
func Consts() string {
	return fmt.Sprintf("EthHeaderLen=%d,EthAddrLen=%d,EthMaxSize=%d,HeaderLen=%d,UDPHeaderLen=%d,IP6HeaderLen=%d,ARPLen=%d,"+
		"EthType8021AD=%d,ARPOperationRequest=%d,ARPOperationReply=%d,ICMP4TypeEchoReply=%d,ICMP4TypeEchoRequest=%d,"+
		"ICMP6TypeEchoRequest=%d,ICMP6TypeEchoReply=%d,DHCP4ServerPort=%d,DHCP4ClientPort=%d,DHCP4End=%d,DHCP4Pad=%d",
		packet.EthHeaderLen, packet.EthAddrLen, packet.EthMaxSize, packet.HeaderLen, packet.UDPHeaderLen, packet.IP6HeaderLen, packet.ARPLen,
		packet.EthType8021AD, packet.ARPOperationRequest, packet.ARPOperationReply, packet.ICMP4TypeEchoReply, packet.ICMP4TypeEchoRequest,
		packet.ICMP6TypeEchoRequest, packet.ICMP6TypeEchoReply, packet.DHCP4ServerPort, packet.DHCP4ClientPort, packet.DHCP4End, packet.DHCP4Pad)
}

// CallArg runs a one-integer-argument accessor of the view (twice, see readOnly), each call under recover.
func CallArg(vt *VT, method string, arg int, v []byte, shape bool) string {
	return readOnly(v, func() string { return callArg1(vt, method, arg, v, shape) })
}

func callArg1(vt *VT, method string, arg int, v []byte, shape bool) (obs string) {
	defer func() {
		if e := recover(); e != nil {
			obs = "panic"
		}
	}()
	m := reflect.ValueOf(vt.Make(v)).MethodByName(method)
	if !m.IsValid() || m.Type().NumIn() != 1 || m.Type().In(0).Kind() != reflect.Int {
		return "nomethod"
	}
	out := m.Call([]reflect.Value{reflect.ValueOf(arg)})
	base := reflect.ValueOf(v).Pointer()
	return fmtVal(method, out[0], shape, base, cap(v))
}

// Methods lists the exported zero-argument methods other than IsValid (reflection order = sorted).
func Methods(vt *VT) []string {
	t := reflect.TypeOf(vt.Make(nil))
	var names []string
	for i := 0; i < t.NumMethod(); i++ {
		m := t.Method(i)
		if m.Type.NumIn() == 1 && m.Name != "IsValid" {
			names = append(names, m.Name)
		}
	}
	return names
}

func find(name string) *VT {
	for i := range Types {
		if Types[i].Name == name {
			return &Types[i]
		}
	}
	return nil
}

// Register installs the runners of the case kinds (used for generation and for -replay).
func Register(r *lib.Run, shape bool) {
	r.Register("g", func(a []string) string {
		vt := find(a[0])
		if vt == nil {
			return "notype"
		}
		return CallGuarded(vt, a[1], lib.UnHex(a[3]), lib.UnHex(a[2]), shape)
	})
	r.Register("types", func(a []string) string { return strings.Join(repoViewTypes(), ",") })
	// api T: census of ALL exported methods of the view type (reflection), as Name/arity, sorted: the model answers
	// with its getter table (arity 0), IsValid/0 and its list of methods accounted for elsewhere (setters and
	// encoders: C03; FastLog: C20; accessors with an argument: kind ga). A method added, removed, renamed or
	// given another arity anywhere in the API of a view type is a correspondence failure.
	r.Register("api", func(a []string) string {
		vt := find(a[0])
		if vt == nil {
			return "notype"
		}
		return strings.Join(API(vt), ",")
	})
	// ga T M ARG spare bytes: a view accessor with one integer argument (LLDP.GetPDU), same observation as g
	r.Register("ga", func(a []string) string {
		vt := find(a[0])
		if vt == nil {
			return "notype"
		}
		n, err := strconv.Atoi(a[2])
		if err != nil {
			return "badarg"
		}
		return CallArg(vt, a[1], n, mkView(lib.UnHex(a[4]), lib.UnHex(a[3])), shape)
	})
	// gb LLDP Capability bytes: the capability decoder takes the TLV value as its argument (no view access)
	r.Register("gb", func(a []string) string {
		if a[0] != "LLDP" || a[1] != "Capability" {
			return "nomethod"
		}
		arg := lib.UnHex(a[2])
		return readOnly(arg, func() string { return "s:" + packet.LLDP(nil).Capability(arg) })
	})
	// consts: the exported layout constants the model hard-codes
	r.Register("consts", func(a []string) string { return Consts() })
	// caps: source census (go/ast) of the slice expressions in the aliasing getters (see SliceCensus)
	r.Register("caps", func(a []string) string { return SliceCensus() })
	r.Register("m", func(a []string) string {
		vt := find(a[0])
		if vt == nil {
			return "notype"
		}
		return strings.Join(Methods(vt), ",")
	})
}

// spare capacity: none / small / large, poisoned with non-zero bytes
func spare(rng *lib.Rand) []byte {
	var n int
	switch rng.Intn(5) {
	case 0, 1:
		n = 0
	case 2:
		n = 1 + rng.Intn(8)
	case 3:
		n = 9 + rng.Intn(40)
	default:
		n = 60 + rng.Intn(300)
	}
	b := rng.Bytes(n)
	for i := range b {
		if b[i] == 0 {
			b[i] = 0xa5
		}
	}
	return b
}

// One runs IsValid and every zero-argument method on one view with one capacity.
func One(r *lib.Run, rng *lib.Rand, vt *VT, b, sp []byte, class string) {
	h, s := lib.Hex(b), lib.Hex(sp)
	valid := r.Do("g", vt.Name, "IsValid", s, h)
	r.Stat("views."+vt.Name+"."+class, 1)
	if valid == "T" {
		r.Stat("valid."+vt.Name, 1)
	} else if !rng.Chance(35) {
		return // getters of an invalid view are outside the property; a sample is still compared
	}
	if vt.Name == "LLDP" { // the TLV accessor with an argument: wanted types present, absent, End (0), out of range
		for _, ty := range []int{0, 1, 2, 3, 5, 7, 127, 128, rng.Intn(128)} {
			r.Do("ga", vt.Name, "GetPDU", strconv.Itoa(ty), s, h)
		}
	}
	for _, m := range Methods(vt) {
		if m == "String" && vt.StringMax > 0 && len(b) > vt.StringMax {
			continue
		}
		if m == "Options" && (vt.Name == "ICMP6RouterSolicitation" && ndpWouldSpin(b, 24) || vt.Name == "ICMP6RouterAdvertisement" && ndpWouldSpin(b, 16)) {
			if spinBudget <= 0 {
				continue
			}
			spinBudget--
			r.Stat("spin-children", 1)
		}
		r.Do("g", vt.Name, m, s, h)
	}
}

func clone(b []byte) []byte { return append([]byte{}, b...) }

// Generate produces the cases of one view type; n scales the random streams.
func Generate(r *lib.Run, rng *lib.Rand, vt *VT, n int) {
	r.Do("m", vt.Name)
	r.Do("api", vt.Name)
	// structured valid messages, each with one capacity; every 4th also with a second capacity
	for i := 0; i < n*6/10; i++ {
		b := vt.Valid(rng)
		One(r, rng, vt, b, spare(rng), "valid")
		if i%4 == 0 {
			One(r, rng, vt, b, spare(rng), "valid2")
		}
	}
	// boundary lengths: every constant c at c-1, c, c+1 (truncate or extend a valid message)
	for _, c := range vt.Bounds {
		for d := -1; d <= 1; d++ {
			for k := 0; k < 2; k++ {
				b := vt.Valid(rng)
				want := c + d
				if want < 0 {
					continue
				}
				for len(b) < want {
					b = append(b, rng.Byte())
				}
				b = b[:want]
				sp := spare(rng)
				if k == 1 {
					sp = nil
				}
				One(r, rng, vt, b, sp, "bound")
			}
		}
	}
	// truncation of a valid message at every offset (sampled for long messages)
	{
		b := vt.Valid(rng)
		step := 1
		if len(b) > 120 {
			step = len(b) / 60
		}
		for l := 0; l <= len(b); l += step {
			One(r, rng, vt, clone(b[:l]), spare(rng), "trunc")
		}
	}
	// length / type field corruption: 0, 1, 0xff, value-1, value+1, random
	for _, off := range vt.Fields {
		for k := 0; k < 6; k++ {
			b := vt.Valid(rng)
			if off >= len(b) {
				continue
			}
			switch k {
			case 0:
				b[off] = 0
			case 1:
				b[off] = 1
			case 2:
				b[off] = 0xff
			case 3:
				b[off]--
			case 4:
				b[off]++
			default:
				b[off] = rng.Byte()
			}
			One(r, rng, vt, b, spare(rng), "field")
		}
	}
	// random bytes and single-byte mutations
	maxb := 0
	for _, c := range vt.Bounds {
		if c > maxb {
			maxb = c
		}
	}
	for i := 0; i < n/10; i++ {
		One(r, rng, vt, rng.Bytes(rng.Intn(2*maxb+8)), spare(rng), "random")
		b := vt.Valid(rng)
		if len(b) > 0 {
			b[rng.Intn(len(b))] = rng.Byte()
		}
		One(r, rng, vt, b, spare(rng), "mutated")
	}
	// all-ones and all-zero messages at each bound
	for _, c := range vt.Bounds {
		for _, fill := range []byte{0x00, 0xff} {
			b := make([]byte, c)
			for i := range b {
				b[i] = fill
			}
			One(r, rng, vt, b, spare(rng), "fill")
		}
	}
}

// Main is the whole harness of one unit.
func Main(shape bool) {
	r := lib.Init()
	defer r.Close()
	Register(r, shape)
	if r.Replayed() {
		return
	}
	Quiet(r)
	rng := r.Rand()
	n := 260
	if r.Thorough() {
		n = 2000
	}
	for _, t := range []int{0, 1, 2, 3, 4, 5, 6, 7, 8, 9, 10, 127, 128, 1000} {
		r.Do("ga", "LLDP", "Type", strconv.Itoa(t), "-", "-")
	}
	for b := 0; b < 256; b++ { // every capability octet, and short / long values
		r.Do("gb", "LLDP", "Capability", lib.Hex([]byte{rng.Byte(), byte(b)}))
	}
	for _, v := range [][]byte{nil, {0xff}, {0, 0x10, 0, 0x10}, {0xff, 0xff, 0xff}} {
		r.Do("gb", "LLDP", "Capability", lib.Hex(v))
	}
	r.Do("types")
	r.Do("consts")
	r.Do("caps")
	for i := range Types {
		Generate(r, rng.Fork(), &Types[i], n)
	}
}

// repoViewTypes lists the []byte-based types of package packet that have an IsValid method, read from the
// sources of the tree under test ($VERIF_REPO): a view type added to the library and missing from the
// model's registry is a correspondence failure of the "types" case.
func repoViewTypes() []string {
	repo := os.Getenv("VERIF_REPO")
	if repo == "" {
		repo = "/repo"
	}
	files, _ := filepath.Glob(filepath.Join(repo, "*.go"))
	reType := regexp.MustCompile(`(?m)^type (\w+) \[\]byte`)
	reValid := regexp.MustCompile(`(?m)^func \(\w+ (\w+)\) IsValid\(\)`)
	types, valid := map[string]bool{}, map[string]bool{}
	for _, f := range files {
		if strings.HasSuffix(f, "_test.go") {
			continue
		}
		src, err := os.ReadFile(f)
		if err != nil {
			continue
		}
		for _, m := range reType.FindAllStringSubmatch(string(src), -1) {
			types[m[1]] = true
		}
		for _, m := range reValid.FindAllStringSubmatch(string(src), -1) {
			valid[m[1]] = true
		}
	}
	var out []string
	for t := range types {
		if valid[t] && t[0] >= 'A' && t[0] <= 'Z' {
			out = append(out, t)
		}
	}
	sort.Strings(out)
	return out
}

var _ = packet.EthMaxSize
