package vlib

import (
	"github.com/irai/packet"
	"pvharness/lib"
)

func be16(b []byte, off int, v int) { b[off] = byte(v >> 8); b[off+1] = byte(v) }

func pick(rng *lib.Rand, v ...int) int { return v[rng.Intn(len(v))] }

// ---- independent message writers (plain byte layout, not the library's encoders) ----

func genIP4(rng *lib.Rand) []byte {
	ihl := pick(rng, 5, 5, 5, 5, 6, 8, 15)
	n := pick(rng, 0, 0, 1, 8, 20, rng.Intn(60))
	b := rng.Bytes(ihl*4 + n)
	b[0] = 0x40 | byte(ihl)
	be16(b, 2, len(b))
	switch rng.Intn(4) { // fragment field: zero, low byte only, high bits only, random
	case 0:
		b[6] &= 0xe0
		b[7] = 0
	case 1:
		b[6] &= 0xe0
	case 2:
		b[7] = 0
	}
	pad := pick(rng, 0, 0, 0, 1, 6, 18)
	return append(b, rng.Bytes(pad)...)
}

func genIP6(rng *lib.Rand) []byte {
	n := pick(rng, 0, 0, 1, 8, 24, rng.Intn(80))
	b := rng.Bytes(40 + n)
	b[0] = 0x60 | b[0]&0x0f
	be16(b, 4, n)
	return append(b, rng.Bytes(pick(rng, 0, 0, 0, 1, 4, 18))...) // trailing bytes (padding, FCS) after the payload
}

func genUDP(rng *lib.Rand) []byte {
	n := pick(rng, 0, 0, 1, 12, rng.Intn(64))
	b := rng.Bytes(8 + n)
	if rng.Chance(80) {
		be16(b, 4, len(b))
	}
	return b
}

func genTCP(rng *lib.Rand) []byte {
	do := pick(rng, 5, 5, 5, 6, 8, 15, 0, 1, 4, rng.Intn(16))
	hl := do * 4
	if hl < 20 {
		hl = 20
	}
	n := pick(rng, 0, 0, 1, 10, rng.Intn(40))
	b := rng.Bytes(hl + n)
	b[12] = byte(do)<<4 | b[12]&0x0f
	return b
}

func genARP(rng *lib.Rand) []byte {
	b := rng.Bytes(28)
	be16(b, 0, 1)
	be16(b, 2, 0x0800)
	b[4], b[5] = 6, 4
	be16(b, 6, pick(rng, 1, 2, 1, 2, rng.Intn(65536)))
	return append(b, rng.Bytes(pick(rng, 0, 0, 18, rng.Intn(20)))...)
}

func genEther(rng *lib.Rand) []byte {
	b := rng.Bytes(14)
	et := pick(rng, 0x0800, 0x0800, 0x86dd, 0x86dd, 0x0806, 0x8100, 0x88a8, 0x88cc, 0x0026, rng.Intn(65536))
	be16(b, 12, et)
	var p []byte
	switch rng.Intn(6) {
	case 0: // header only
	case 1: // short payload
		p = rng.Bytes(1 + rng.Intn(8))
	case 2: // payload shorter than an IP header
		p = rng.Bytes(9 + rng.Intn(32))
	default:
		switch et {
		case 0x0800:
			p = genIP4(rng)
		case 0x86dd:
			p = genIP6(rng)
		case 0x0806:
			p = genARP(rng)
		default:
			p = rng.Bytes(rng.Intn(64))
		}
	}
	return append(b, p...)
}

func genHBH(rng *lib.Rand) []byte {
	L := pick(rng, 0, 0, 1, 2, 3)
	n := 8*L + 8
	b := make([]byte, 0, n+8)
	b = append(b, rng.Byte(), byte(L))
	clean := rng.Chance(40) // only well-formed options before the tail, so that the walk reaches it
	for len(b) < n {
		rem := n - len(b)
		c := rng.Intn(6)
		if clean {
			c = rng.Intn(4)
		}
		switch c {
		case 0: // Pad1
			b = append(b, 0)
		case 1: // PadN
			k := rng.Intn(4)
			if k+2 > rem {
				b = append(b, 0)
				continue
			}
			b = append(b, 1, byte(k))
			b = append(b, make([]byte, k)...)
		case 2: // router alert
			if rem < 4 {
				b = append(b, 0)
				continue
			}
			switch rng.Intn(4) {
			case 0: // jumbo payload (RFC 2675): type 0xC2, length 4
				if rem >= 6 {
					b = append(b, 0xc2, 4, 0, 1, 0, 0)
					continue
				}
			case 1: // router alert / jumbo with a wrong length octet
				b = append(b, byte(pick(rng, 5, 0xc2)), byte(pick(rng, 0, 1, 3, 4, 2)), 0, 0)
				continue
			}
			b = append(b, 5, 2, 0, byte(rng.Intn(3)))
		case 3: // other option
			k := rng.Intn(6)
			if k+2 > rem {
				b = append(b, 0)
				continue
			}
			b = append(b, byte(0x20+rng.Intn(0xc0)), byte(k))
			b = append(b, rng.Bytes(k)...)
		case 4: // option whose length runs past the end
			b = append(b, byte(rng.Intn(256)))
			if len(b) < n {
				b = append(b, byte(rem+rng.Intn(8)))
			}
		default:
			b = append(b, rng.Byte())
		}
	}
	b = b[:n]
	if (clean || rng.Chance(20)) && n >= 8 { // boundary per container: the last option ends at end-1, end, end+1 of the options area
		k := pick(rng, 2, 3, 4, 6)
		d := pick(rng, -1, 0, 0, 1)
		for i := n - k; i < n; i++ {
			b[i] = 0
		}
		b[n-k] = byte(pick(rng, 1, 5, 0x3e, 0xc2))
		if k-2+d >= 0 {
			b[n-k+1] = byte(k - 2 + d)
		}
	}
	return append(b, rng.Bytes(pick(rng, 2, 2, 3, 10))...) // IsValid wants two more bytes than Len()
}

func genICMP(rng *lib.Rand) []byte { return rng.Bytes(8 + pick(rng, 0, 0, 1, 8, rng.Intn(48))) }

func genR4(rng *lib.Rand) []byte {
	n := pick(rng, 0, 1, 1, 2, 3)
	a := pick(rng, 4, 4, 10)
	b := rng.Bytes(8 + n*a*4 + pick(rng, 0, 0, 1, 7))
	b[0] = 137
	b[4], b[5] = byte(n), byte(a)
	return b
}

func mac(rng *lib.Rand) []byte { return rng.Bytes(6) }

// NDP options, written per RFC 4861 / 4191 / 8106
func ndpOption(rng *lib.Rand) []byte {
	switch rng.Intn(12) {
	case 0:
		return append([]byte{1, 1}, mac(rng)...)
	case 1:
		return append([]byte{2, 1}, mac(rng)...)
	case 2:
		b := rng.Bytes(8)
		b[0], b[1], b[2], b[3] = 5, 1, 0, 0
		return b
	case 3:
		b := rng.Bytes(32)
		b[0], b[1] = 3, 4
		b[2] = byte(pick(rng, 0, 48, 64, 64, 96, 128, 129, 200, rng.Intn(129)))
		return b
	case 4:
		l := pick(rng, 1, 2, 3)
		b := rng.Bytes(8 * l)
		b[0], b[1] = 24, byte(l)
		b[2] = byte(pick(rng, 0, 48, 64, 96, 128, rng.Intn(256)))
		b[3] = byte(pick(rng, 0, 8, 24, 16))
		return b
	case 5:
		l := pick(rng, 3, 5, 1, 2)
		b := rng.Bytes(8 * l)
		b[0], b[1] = 25, byte(l)
		return b
	case 6: // DNSSL (RFC 8106 5.2): lifetime, domain names as label sequences, zero padded
		var v []byte
		label := func() { // no label starts with "xn--": puny.ToUnicode is the identity on those (trusted base)
			n := 1 + rng.Intn(5)
			v = append(v, byte(n))
			for i := 0; i < n; i++ {
				v = append(v, byte('a'+rng.Intn(20)))
			}
		}
		for d := 1 + rng.Intn(2); d > 0; d-- {
			for k := 1 + rng.Intn(3); k > 0; k-- {
				label()
			}
			v = append(v, 0)
		}
		switch rng.Intn(8) {
		case 0: // a label with a dot or a space, or a non-ASCII byte
			v[1] = byte(pick(rng, '.', ' ', 0x80, 0xff))
		case 1: // label length past the end
			v[0] = byte(len(v) + rng.Intn(5))
		case 2: // no domain at all
			v = []byte{0}
		}
		b := append([]byte{31, 0, 0, 0}, rng.Bytes(4)...)
		b = append(b, v...)
		for len(b)%8 != 0 {
			b = append(b, 0)
		}
		b[1] = byte(len(b) / 8)
		return b
	case 7: // unknown type
		l := pick(rng, 1, 1, 2)
		b := rng.Bytes(8 * l)
		b[0], b[1] = byte(pick(rng, 14, 4, 38, 200)), byte(l)
		return b
	case 8: // wrong length for the type
		b := rng.Bytes(16)
		b[0], b[1] = byte(pick(rng, 1, 2, 3, 5)), 2
		return b
	case 9: // zero length (DESIGN 11 #12): panics for decoded types, spins for the others
		return []byte{byte(pick(rng, 1, 2, 3, 5, 24, 25, 31, 14, 0)), 0, 0, 0, 0, 0, 0, 0}
	case 10: // length past the end
		return []byte{byte(pick(rng, 1, 3, 25, 14)), byte(4 + rng.Intn(200)), 1, 2, 3, 4, 5, 6}
	default:
		return rng.Bytes(pick(rng, 1, 3, 8))
	}
}

// ndpBoundaryOption: inner length fields relative to the END of the enclosing option, outer length byte
// consistent: an inner element (DNSSL label, RDNSS server list, prefix / route body, MTU) that ends at
// end-1, end, end+1 of its option.
func ndpBoundaryOption(rng *lib.Rand) []byte {
	d := pick(rng, -1, 0, 0, 1) // where the inner element ends relative to the end of the option
	switch rng.Intn(6) {
	case 0, 1: // DNSSL: [labels...] the last label ends at end+d (d = 0: no terminator, no padding after it)
		L := pick(rng, 2, 2, 3)
		area := 8*L - 8
		b := append([]byte{31, byte(L), 0, 0}, rng.Bytes(4)...)
		v := []byte{}
		if rng.Bool() && area >= 8 { // a complete domain first
			v = append(v, 2, 'a', 'b', 0)
		}
		if rng.Chance(30) && area-len(v) >= 5 { // an unterminated label before the last one
			v = append(v, 1, 'c')
		}
		n := area - len(v) - 1 + d // label length so that 1+n bytes end at area+d
		if n < 0 {
			n = 0
		}
		v = append(v, byte(n))
		for len(v) < area {
			v = append(v, byte('a'+rng.Intn(20)))
		}
		return append(b, v[:area]...)
	case 2: // RDNSS: server list of (L-1)/2 addresses; L even (half an address), L = 1 (none), L odd
		L := pick(rng, 1, 2, 3, 4, 5)
		b := rng.Bytes(8 * L)
		b[0], b[1] = 25, byte(L)
		return b
	case 3: // prefix information: body of 30 bytes, option length 3, 4, 5
		L := 4 + d
		b := rng.Bytes(8 * L)
		b[0], b[1] = 3, byte(L)
		b[2] = byte(pick(rng, 0, 1, 64, 127, 128, 129))
		return b
	case 4: // route information: prefix length against the bytes the option length provides
		L := pick(rng, 1, 2, 3, 4)
		b := rng.Bytes(8 * L)
		b[0], b[1] = 24, byte(L)
		b[2] = byte(pick(rng, 0, 1, 8*(L-1)-1, 8*(L-1), 8*(L-1)+1, 64, 65, 128, 129))
		b[3] = byte(pick(rng, 0, 8, 24, 16))
		return b
	default: // MTU with option length 1, 2; link-layer address with length 1, 2
		L := pick(rng, 1, 2)
		b := rng.Bytes(8 * L)
		b[0], b[1] = byte(pick(rng, 5, 1, 2)), byte(L)
		return b
	}
}

func ndpOptions(rng *lib.Rand, first []byte) []byte {
	b := append([]byte{}, first...)
	for k := pick(rng, 0, 0, 1, 1, 2, 3); k > 0; k-- {
		if rng.Chance(35) {
			b = append(b, ndpBoundaryOption(rng)...)
		} else {
			b = append(b, ndpOption(rng)...)
		}
	}
	if rng.Chance(25) { // a boundary option as the LAST one: its end is the end of the block and of the view
		b = append(b, ndpBoundaryOption(rng)...)
	}
	return b
}

func genRS(rng *lib.Rand) []byte {
	b := rng.Bytes(8)
	b[0] = 133
	var first []byte
	switch rng.Intn(5) {
	case 0:
		first = append([]byte{1, 1}, mac(rng)...) // RFC 4861 source link-layer address option
	case 1:
		first = append([]byte{1, 3}, rng.Bytes(22)...) // the 24-byte layout the library looks for
	case 2:
		first = append(append([]byte{1, 1}, mac(rng)...), rng.Bytes(8)...)
	}
	return append(b, ndpOptions(rng, first)...)
}

func genRA(rng *lib.Rand) []byte {
	b := rng.Bytes(16)
	b[0] = 134
	return append(b, ndpOptions(rng, nil)...)
}

func genNDTarget(typ byte, optType byte, hdr int) func(rng *lib.Rand) []byte {
	return func(rng *lib.Rand) []byte {
		b := rng.Bytes(hdr)
		b[0] = typ
		switch rng.Intn(5) {
		case 0:
		case 1, 2:
			b = append(b, optType, 1)
			b = append(b, mac(rng)...)
		case 3:
			b = append(b, byte(pick(rng, 1, 2, 5)), byte(pick(rng, 1, 2, 0)))
			b = append(b, rng.Bytes(pick(rng, 6, 14, 2))...)
		default:
			b = append(b, rng.Bytes(rng.Intn(12))...)
		}
		return b
	}
}

func genDHCP4(rng *lib.Rand) []byte {
	b := rng.Bytes(240)
	b[0] = byte(pick(rng, 1, 2))
	b[1], b[2], b[3] = 1, 6, 0
	// sname / file: NUL-terminated strings, empty, or completely filled
	for _, f := range [][2]int{{44, 64}, {108, 128}} {
		off, n := f[0], f[1]
		switch rng.Intn(4) {
		case 0:
			for i := 0; i < n; i++ {
				b[off+i] = 0
			}
		case 1:
			k := rng.Intn(n)
			for i := 0; i < n; i++ {
				b[off+i] = byte('a' + rng.Intn(26))
			}
			b[off+k] = 0
		case 2:
			for i := 0; i < n; i++ {
				b[off+i] = byte('a' + rng.Intn(26))
			}
		}
	}
	copy(b[236:], []byte{99, 130, 83, 99})
	opt := func(code int, v []byte) { b = append(append(b, byte(code), byte(len(v))), v...) }
	opt(53, []byte{byte(1 + rng.Intn(8))})
	for k := rng.Intn(5); k > 0; k-- {
		switch rng.Intn(8) {
		case 0:
			opt(50, rng.Bytes(4))
		case 1:
			opt(12, []byte("host"+string(rune('a'+rng.Intn(26)))))
		case 2:
			opt(55, rng.Bytes(rng.Intn(10)))
		case 3:
			b = append(b, 0) // pad
		case 4:
			opt(61, append([]byte{1}, mac(rng)...))
		case 5:
			opt(pick(rng, 53, 50, 12), rng.Bytes(rng.Intn(5))) // repeated code: the later one wins
		case 6:
			opt(rng.Intn(254)+1, nil) // zero-length option
		default:
			opt(rng.Intn(254)+1, rng.Bytes(rng.Intn(20)))
		}
	}
	switch rng.Intn(8) {
	case 6, 7: // boundary per container: the last option's value ends at end-1, end, end+1 of the options area
		n := rng.Intn(6)
		d := pick(rng, -1, 0, 0, 1)
		b = append(b, byte(1+rng.Intn(254)), byte(n))
		b = append(b, rng.Bytes(n-d+boolInt(n-d < 0)*(d-n))...)
	case 0: // no end option
	case 1: // truncated last option
		b = append(b, byte(1+rng.Intn(254)), byte(5+rng.Intn(100)), 1, 2)
	case 2: // a single trailing byte
		b = append(b, byte(1+rng.Intn(254)))
	default:
		b = append(b, 255)
		b = append(b, make([]byte, pick(rng, 0, 0, 3, 20))...)
	}
	return b
}

func boolInt(b bool) int {
	if b {
		return 1
	}
	return 0
}

func genDNS(rng *lib.Rand) []byte { return rng.Bytes(12 + pick(rng, 0, 0, 5, 17, rng.Intn(60))) }

func genLLC(rng *lib.Rand) []byte {
	b := rng.Bytes(pick(rng, 3, 3, 4, 4, 5, 8, 20))
	switch rng.Intn(6) {
	case 0:
		b[0], b[1], b[2] = 0xaa, 0xaa, 0x03
	case 1:
		b[2] = byte(pick(rng, 0x03, 0xe3, 0xaf, 0x7f))
	case 2:
		b[2] = byte(pick(rng, 0x01, 0x05, 0x0d))
	case 3:
		b[2] = byte(pick(rng, 0x00, 0x02, 0xfe))
	case 4:
		b[0], b[1] = 0x42, 0x42
	}
	return b
}

func genSNAP(rng *lib.Rand) []byte {
	b := rng.Bytes(9 + pick(rng, 0, 0, 1, 30))
	b[0], b[1], b[2] = 0xaa, 0xaa, 0x03
	return b
}

func genRRCP(rng *lib.Rand) []byte {
	b := rng.Bytes(16 + pick(rng, 0, 0, 30, 44))
	b[0] = byte(pick(rng, 1, 0x23, 0x23, rng.Intn(256)))
	return b
}

func gen1905(rng *lib.Rand) []byte { return rng.Bytes(8 + pick(rng, 0, 0, 3, 38, rng.Intn(100))) }

func genPause(rng *lib.Rand) []byte {
	b := rng.Bytes(46 + pick(rng, 0, 0, 1, 14))
	b[0], b[1] = 0, 1
	return b
}

func genLLDP(rng *lib.Rand) []byte {
	var b []byte
	tlv := func(t, l int, v []byte) { b = append(append(b, byte(t<<1|l>>8), byte(l)), v...) }
	n1 := pick(rng, 7, 7, 5, 2, 2, 1, 0, 20)
	tlv(1, n1, rng.Bytes(n1))
	n2 := pick(rng, 7, 3, 2, 1, 0, 9)
	tlv(2, n2, rng.Bytes(n2))
	tlv(3, 2, []byte{0, 120})
	for k := rng.Intn(4); k > 0; k-- {
		t := pick(rng, 4, 5, 6, 7, 8, 127, rng.Intn(128))
		n := pick(rng, 0, 1, 2, 4, 12, rng.Intn(30))
		if rng.Chance(3) {
			n = 256 + rng.Intn(40) // nine-bit length
		}
		tlv(t, n, rng.Bytes(n))
	}
	switch rng.Intn(5) {
	case 4: // boundary per container: the last TLV's value ends at end-1, end, end+1 of the frame
		n := pick(rng, 0, 1, 2, 5)
		d := pick(rng, -1, 0, 0, 1)
		have := n - d
		if have < 0 {
			have = 0
		}
		b = append(b, byte(pick(rng, 4, 5, 127)<<1), byte(n))
		b = append(b, rng.Bytes(have)...)
	case 0: // no end TLV
	case 1:
		tlv(0, 0, nil)
	default:
		tlv(0, 0, nil)
		b = append(b, make([]byte, pick(rng, 1, 3, 10, 26))...)
	}
	return b
}

func gen880a(rng *lib.Rand) []byte { return rng.Bytes(1 + rng.Intn(40)) }

// Types is the registry of view types driven by this harness.
var Types = []VT{
	{Name: "ARP", Make: func(b []byte) interface{} { return packet.ARP(b) }, Valid: genARP,
		Fields: []int{0, 1, 2, 3, 4, 5}, Bounds: []int{28}},
	{Name: "DHCP4", Make: func(b []byte) interface{} { return packet.DHCP4(b) }, Valid: genDHCP4,
		Fields: []int{0, 2, 44, 107, 108, 235, 240, 241, 242, 243, 244}, Bounds: []int{240, 242, 244}},
	{Name: "DNS", Make: func(b []byte) interface{} { return packet.DNS(b) }, Valid: genDNS,
		Fields: []int{2, 3}, Bounds: []int{12}},
	{Name: "Ether", Make: func(b []byte) interface{} { return packet.Ether(b) }, Valid: genEther,
		Fields: []int{12, 13}, Bounds: []int{14, 18, 22, 30, 34, 38, 54}},
	{Name: "EthernetPause", Make: func(b []byte) interface{} { return packet.EthernetPause(b) }, Valid: genPause,
		Fields: []int{0, 1}, Bounds: []int{46}},
	{Name: "HopByHopExtensionHeader", Make: func(b []byte) interface{} { return packet.HopByHopExtensionHeader(b) }, Valid: genHBH,
		Fields: []int{1, 2, 3}, Bounds: []int{2, 8, 10, 16, 18}},
	{Name: "ICMP", Make: func(b []byte) interface{} { return packet.ICMP(b) }, Valid: genICMP,
		Fields: []int{0}, Bounds: []int{8}},
	{Name: "ICMP4Redirect", Make: func(b []byte) interface{} { return packet.ICMP4Redirect(b) }, Valid: genR4,
		Fields: []int{0, 4, 5}, Bounds: []int{8, 24, 48}},
	{Name: "ICMP6NeighborAdvertisement", Make: func(b []byte) interface{} { return packet.ICMP6NeighborAdvertisement(b) },
		Valid: genNDTarget(136, 2, 24), Fields: []int{4, 24, 25}, Bounds: []int{24, 32}},
	{Name: "ICMP6NeighborSolicitation", Make: func(b []byte) interface{} { return packet.ICMP6NeighborSolicitation(b) },
		Valid: genNDTarget(135, 1, 24), Fields: []int{24, 25}, Bounds: []int{24, 32}},
	{Name: "ICMP6Redirect", Make: func(b []byte) interface{} { return packet.ICMP6Redirect(b) },
		Valid: genNDTarget(137, 2, 40), Fields: []int{40, 41}, Bounds: []int{40, 48}},
	{Name: "ICMP6RouterAdvertisement", Make: func(b []byte) interface{} { return packet.ICMP6RouterAdvertisement(b) }, Valid: genRA,
		Fields: []int{5, 16, 17, 25}, Bounds: []int{16, 17, 18, 24}},
	{Name: "ICMP6RouterSolicitation", Make: func(b []byte) interface{} { return packet.ICMP6RouterSolicitation(b) }, Valid: genRS,
		Fields: []int{0, 8, 9, 24, 25}, Bounds: []int{8, 16, 24, 26, 32}},
	{Name: "ICMPEcho", Make: func(b []byte) interface{} { return packet.ICMPEcho(b) }, Valid: genICMP,
		Fields: []int{0}, Bounds: []int{8}},
	{Name: "IEEE1905", Make: func(b []byte) interface{} { return packet.IEEE1905(b) }, Valid: gen1905,
		Fields: []int{0}, Bounds: []int{8}},
	{Name: "IP4", Make: func(b []byte) interface{} { return packet.IP4(b) }, Valid: genIP4,
		Fields: []int{0, 2, 3, 6, 7}, Bounds: []int{20, 24, 60}},
	{Name: "IP6", Make: func(b []byte) interface{} { return packet.IP6(b) }, Valid: genIP6,
		Fields: []int{0, 1, 4, 5}, Bounds: []int{40}},
	{Name: "LLC", Make: func(b []byte) interface{} { return packet.LLC(b) }, Valid: genLLC,
		Fields: []int{0, 1, 2}, Bounds: []int{3, 4}},
	{Name: "LLDP", Make: func(b []byte) interface{} { return packet.LLDP(b) }, Valid: genLLDP,
		Fields: []int{0, 1, 2, 3, 9, 10}, Bounds: []int{6, 9}, StringMax: 64},
	{Name: "RRCP", Make: func(b []byte) interface{} { return packet.RRCP(b) }, Valid: genRRCP,
		Fields: []int{0, 1}, Bounds: []int{16}},
	{Name: "SNAP", Make: func(b []byte) interface{} { return packet.SNAP(b) }, Valid: genSNAP,
		Fields: []int{2}, Bounds: []int{9}},
	{Name: "TCP", Make: func(b []byte) interface{} { return packet.TCP(b) }, Valid: genTCP,
		Fields: []int{12}, Bounds: []int{20, 24, 60}},
	{Name: "UDP", Make: func(b []byte) interface{} { return packet.UDP(b) }, Valid: genUDP,
		Fields: []int{4, 5}, Bounds: []int{8}},
	{Name: "Unknown880a", Make: func(b []byte) interface{} { return packet.Unknown880a(b) }, Valid: gen880a,
		Fields: nil, Bounds: []int{1}},
}
