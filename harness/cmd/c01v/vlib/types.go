package vlib

import (
	"github.com/irai/packet"
	"pvharness/lib"
)

func be16(b []byte, off int, v int) { b[off] = byte(v >> 8); b[off+1] = byte(v) }

func pick(rng *lib.Rand, v ...int) int { return v[rng.Intn(len(v))] }

// ---- independent message writers (plain byte layout, not the library's encoders) ----

func genIP4(rng *lib.Rand) []byte {
	ihl := pick(rng, 5, 5, 5, 5, 6, 8, 15)
	n := pick(rng, 0, 0, 1, 8, 20, rng.Intn(60))
	b := rng.Bytes(ihl*4 + n)
	b[0] = 0x40 | byte(ihl)
	be16(b, 2, len(b))
	switch rng.Intn(4) { // fragment field: zero, low byte only, high bits only, random
	case 0:
		b[6] &= 0xe0
		b[7] = 0
	case 1:
		b[6] &= 0xe0
	case 2:
		b[7] = 0
	}
	pad := pick(rng, 0, 0, 0, 1, 6, 18)
	return append(b, rng.Bytes(pad)...)
}

func genIP6(rng *lib.Rand) []byte {
	n := pick(rng, 0, 0, 1, 8, 24, rng.Intn(80))
	b := rng.Bytes(40 + n)
	b[0] = 0x60 | b[0]&0x0f
	be16(b, 4, n)
	return b
}

func genUDP(rng *lib.Rand) []byte {
	n := pick(rng, 0, 0, 1, 12, rng.Intn(64))
	b := rng.Bytes(8 + n)
	if rng.Chance(80) {
		be16(b, 4, len(b))
	}
	return b
}

func genTCP(rng *lib.Rand) []byte {
	do := pick(rng, 5, 5, 5, 6, 8, 15, 0, 1, 4, rng.Intn(16))
	hl := do * 4
	if hl < 20 {
		hl = 20
	}
	n := pick(rng, 0, 0, 1, 10, rng.Intn(40))
	b := rng.Bytes(hl + n)
	b[12] = byte(do)<<4 | b[12]&0x0f
	return b
}

func genARP(rng *lib.Rand) []byte {
	b := rng.Bytes(28)
	be16(b, 0, 1)
	be16(b, 2, 0x0800)
	b[4], b[5] = 6, 4
	be16(b, 6, pick(rng, 1, 2, 1, 2, rng.Intn(65536)))
	return append(b, rng.Bytes(pick(rng, 0, 0, 18, rng.Intn(20)))...)
}

func genEther(rng *lib.Rand) []byte {
	b := rng.Bytes(14)
	et := pick(rng, 0x0800, 0x0800, 0x86dd, 0x86dd, 0x0806, 0x8100, 0x88a8, 0x88cc, 0x0026, rng.Intn(65536))
	be16(b, 12, et)
	var p []byte
	switch rng.Intn(6) {
	case 0: // header only
	case 1: // short payload
		p = rng.Bytes(1 + rng.Intn(8))
	case 2: // payload shorter than an IP header
		p = rng.Bytes(9 + rng.Intn(32))
	default:
		switch et {
		case 0x0800:
			p = genIP4(rng)
		case 0x86dd:
			p = genIP6(rng)
		case 0x0806:
			p = genARP(rng)
		default:
			p = rng.Bytes(rng.Intn(64))
		}
	}
	return append(b, p...)
}

// Types is the registry of view types driven by this harness.
var Types = []VT{
	{Name: "ARP", Make: func(b []byte) interface{} { return packet.ARP(b) }, Valid: genARP,
		Fields: []int{0, 1, 2, 3, 4, 5}, Bounds: []int{28}},
	{Name: "Ether", Make: func(b []byte) interface{} { return packet.Ether(b) }, Valid: genEther,
		Fields: []int{12, 13}, Bounds: []int{14, 18, 22, 30, 34, 38, 54}},
	{Name: "IP4", Make: func(b []byte) interface{} { return packet.IP4(b) }, Valid: genIP4,
		Fields: []int{0, 2, 3, 6, 7}, Bounds: []int{20, 24, 60}},
	{Name: "TCP", Make: func(b []byte) interface{} { return packet.TCP(b) }, Valid: genTCP,
		Fields: []int{12}, Bounds: []int{20, 24, 60}},
	{Name: "UDP", Make: func(b []byte) interface{} { return packet.UDP(b) }, Valid: genUDP,
		Fields: []int{4, 5}, Bounds: []int{8}},
}
