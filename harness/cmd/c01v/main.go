// C01, views unit: IsValid()==nil implies every zero-argument method of the view is panic-free
// and the slices it returns stay inside the view. Observation = shape (see vlib).
package main

import "pvharness/cmd/c01v/vlib"

func main() { vlib.Main(true) }
