package main

import (
	"net"
	"net/netip"
	"strconv"
	"strings"

	"pvharness/lib"
)

// Frame variants, built with the independent writers of lib/frames.go. Every variant is a pure
// function of (id, aux, p). `wakes` is the generator's belief (used only to plan waits, never
// compared): does the unchanged library call echoNotify(id) for it.
type variant struct {
	name  string
	wakes bool
	build func(id uint16, aux int, p int) []byte
}

func ip4Echo(src, dst netip.Addr, proto byte, icmp []byte) []byte {
	return lib.MkIP4(src, dst, proto, 64, icmp)
}

func eth4(p int, ip []byte) []byte { return lib.MkEther(lib.HostMAC, peerMAC(p), 0x0800, ip) }
func eth6(p int, ip []byte) []byte { return lib.MkEther(lib.HostMAC, peerMAC(p), 0x86dd, ip) }

func data(aux int) []byte {
	n := aux % 40
	b := make([]byte, n)
	for i := range b {
		b[i] = byte(aux + i*7)
	}
	return b
}

func echo6(src, dst netip.Addr, typ byte, id uint16, d []byte) []byte {
	body := append([]byte{byte(id >> 8), byte(id), 0, 1}, d...)
	return lib.MkICMP6(src, dst, typ, 0, body)
}

func put16(b []byte, off int, v int) { b[off], b[off+1] = byte(v>>8), byte(v) }

var variants = []variant{
	{"rep4", true, func(id uint16, aux, p int) []byte {
		return eth4(p, ip4Echo(peerIP4(p), lib.HostIP4, 1, lib.MkICMPEcho(0, 0, id, 1, data(aux))))
	}},
	{"rep6", true, func(id uint16, aux, p int) []byte {
		return eth6(p, lib.MkIP6(peerIP6(p), lib.HostLLA, 58, 64, echo6(peerIP6(p), lib.HostLLA, 129, id, data(aux))))
	}},
	// echo replies that are not addressed to the host's own IP / MAC: the property puts no condition on
	// the destination (the library itself pings with the router's IP as source: ValidateDefaultRouter)
	{"dst4", true, func(id uint16, aux, p int) []byte {
		ipd := []netip.Addr{lib.HostIP4, lib.RouterIP4, netip.MustParseAddr("192.168.0.77"), netip.MustParseAddr("192.168.0.255"),
			netip.MustParseAddr("255.255.255.255"), netip.MustParseAddr("224.0.0.1"), netip.MustParseAddr("10.1.2.3")}[aux%7]
		ed := []net.HardwareAddr{lib.HostMAC, lib.RouterMAC, {0xff, 0xff, 0xff, 0xff, 0xff, 0xff}, {0x01, 0x00, 0x5e, 0, 0, 1}}[aux/7%4]
		return lib.MkEther(ed, peerMAC(p), 0x0800, ip4Echo(peerIP4(p), ipd, 1, lib.MkICMPEcho(0, 0, id, 1, data(aux))))
	}},
	{"dst6", true, func(id uint16, aux, p int) []byte {
		ipd := []netip.Addr{lib.HostLLA, lib.RouterLLA, netip.MustParseAddr("2001:db8::129"), netip.MustParseAddr("ff02::1"),
			netip.MustParseAddr("fe80::77")}[aux%5]
		ed := []net.HardwareAddr{lib.HostMAC, lib.RouterMAC, {0x33, 0x33, 0, 0, 0, 1}, {0xff, 0xff, 0xff, 0xff, 0xff, 0xff}}[aux/5%4]
		return lib.MkEther(ed, peerMAC(p), 0x86dd, lib.MkIP6(peerIP6(p), ipd, 58, 64, echo6(peerIP6(p), ipd, 129, id, data(aux))))
	}},
	// echo requests never complete a ping
	{"req4", false, func(id uint16, aux, p int) []byte {
		return eth4(p, ip4Echo(peerIP4(p), lib.HostIP4, 1, lib.MkICMPEcho(8, 0, id, 1, data(aux))))
	}},
	{"req6", false, func(id uint16, aux, p int) []byte {
		return eth6(p, lib.MkIP6(peerIP6(p), lib.HostLLA, 58, 64, echo6(peerIP6(p), lib.HostLLA, 128, id, data(aux))))
	}},
	// other ICMP types with the id in the same place
	{"type4x", false, func(id uint16, aux, p int) []byte {
		t := []byte{3, 11, 129, 128, 1, 255, 5, 13}[aux%8]
		return eth4(p, ip4Echo(peerIP4(p), lib.HostIP4, 1, lib.MkICMPEcho(t, 0, id, 1, data(aux))))
	}},
	{"type6x", false, func(id uint16, aux, p int) []byte {
		t := []byte{0, 8, 1, 3, 130, 135, 136, 255}[aux%8]
		return eth6(p, lib.MkIP6(peerIP6(p), lib.HostLLA, 58, 64, echo6(peerIP6(p), lib.HostLLA, t, id, data(aux))))
	}},
	// ICMP message shorter than its 8-byte header (IP lengths consistent with the truncation)
	{"short4", false, func(id uint16, aux, p int) []byte {
		m := lib.MkICMPEcho(0, 0, id, 1, nil)[:aux%8]
		return eth4(p, ip4Echo(peerIP4(p), lib.HostIP4, 1, m))
	}},
	{"short6", false, func(id uint16, aux, p int) []byte {
		m := echo6(peerIP6(p), lib.HostLLA, 129, id, nil)[:aux%8]
		return eth6(p, lib.MkIP6(peerIP6(p), lib.HostLLA, 58, 64, m))
	}},
	// not ICMP at all
	{"udp4", false, func(id uint16, aux, p int) []byte {
		return eth4(p, ip4Echo(peerIP4(p), lib.HostIP4, 17, lib.MkICMPEcho(0, 0, id, 1, data(aux))))
	}},
	{"tcp6", false, func(id uint16, aux, p int) []byte {
		return eth6(p, lib.MkIP6(peerIP6(p), lib.HostLLA, 6, 64, lib.MkTCP(id, 80, data(aux))))
	}},
	// reply with IPv4 options (IHL 6..15)
	{"opt4", true, func(id uint16, aux, p int) []byte {
		ip := ip4Echo(peerIP4(p), lib.HostIP4, 1, lib.MkICMPEcho(0, 0, id, 1, data(aux)))
		words := 1 + aux%10
		opts := make([]byte, 4*words) // NOPs/EOL
		for i := range opts {
			opts[i] = 1
		}
		out := append(append(append([]byte{}, ip[:20]...), opts...), ip[20:]...)
		out[0] = 0x40 | byte(5+words)
		put16(out, 2, len(out))
		put16(out, 10, 0)
		put16(out, 10, int(lib.RFC1071(out[:20+4*words])))
		return eth4(p, out)
	}},
	// reply followed by Ethernet padding
	{"pad4", true, func(id uint16, aux, p int) []byte {
		f := eth4(p, ip4Echo(peerIP4(p), lib.HostIP4, 1, lib.MkICMPEcho(0, 0, id, 1, nil)))
		return append(f, make([]byte, 1+aux%18)...)
	}},
	// wrong ICMP checksum (the library documents that it does not verify it)
	{"sum4", true, func(id uint16, aux, p int) []byte {
		f := eth4(p, ip4Echo(peerIP4(p), lib.HostIP4, 1, lib.MkICMPEcho(0, 0, id, 1, data(aux))))
		f[14+20+2] ^= byte(1 + aux%255)
		return f
	}},
	{"sum6", true, func(id uint16, aux, p int) []byte {
		f := eth6(p, lib.MkIP6(peerIP6(p), lib.HostLLA, 58, 64, echo6(peerIP6(p), lib.HostLLA, 129, id, data(aux))))
		f[54+3] ^= byte(1 + aux%255)
		return f
	}},
	// source MAC with the group bit: Parse ignores the frame
	{"mcast", false, func(id uint16, aux, p int) []byte {
		f := eth4(p, ip4Echo(peerIP4(p), lib.HostIP4, 1, lib.MkICMPEcho(0, 0, id, 1, data(aux))))
		f[6] |= 1
		return f
	}},
	// 802.1Q tagged reply, LLC length field
	{"vlan", false, func(id uint16, aux, p int) []byte {
		ip := ip4Echo(peerIP4(p), lib.HostIP4, 1, lib.MkICMPEcho(0, 0, id, 1, data(aux)))
		return lib.MkEther(lib.HostMAC, peerMAC(p), 0x8100, append([]byte{0, byte(aux), 0x08, 0x00}, ip...))
	}},
	{"llc", false, func(id uint16, aux, p int) []byte {
		ip := ip4Echo(peerIP4(p), lib.HostIP4, 1, lib.MkICMPEcho(0, 0, id, 1, data(aux)))
		return lib.MkEther(lib.HostMAC, peerMAC(p), uint16(len(ip)), ip)
	}},
	// clean reply cut at an arbitrary offset (IP length fields left as they were)
	{"cut4", false, func(id uint16, aux, p int) []byte {
		f := eth4(p, ip4Echo(peerIP4(p), lib.HostIP4, 1, lib.MkICMPEcho(0, 0, id, 1, nil)))
		return f[:aux%len(f)]
	}},
	{"cut6", false, func(id uint16, aux, p int) []byte {
		f := eth6(p, lib.MkIP6(peerIP6(p), lib.HostLLA, 58, 64, echo6(peerIP6(p), lib.HostLLA, 129, id, nil)))
		return f[:aux%len(f)]
	}},
	// IPv6 payload length larger than what is there
	{"len6", false, func(id uint16, aux, p int) []byte {
		f := eth6(p, lib.MkIP6(peerIP6(p), lib.HostLLA, 58, 64, echo6(peerIP6(p), lib.HostLLA, 129, id, data(aux))))
		pl := int(f[18])<<8 | int(f[19])
		put16(f, 18, []int{pl + 1, pl + 8, 65535, 65496 + pl}[aux%4]&0xffff)
		return f
	}},
	// IPv6 reply followed by trailing bytes / payload length cutting the echo data (still >= 8)
	{"trail6", true, func(id uint16, aux, p int) []byte {
		f := eth6(p, lib.MkIP6(peerIP6(p), lib.HostLLA, 58, 64, echo6(peerIP6(p), lib.HostLLA, 129, id, data(20+aux%20))))
		if aux%2 == 0 {
			return append(f, make([]byte, 1+aux%9)...)
		}
		pl := int(f[18])<<8 | int(f[19])
		put16(f, 18, pl-1-aux%10)
		return f
	}},
	// ---- former defect classes (repaired in /repo b8d5cb8, 790e257, b261543): frames that are NOT echo
	// replies by the RFCs and used to reach echoNotify; they must not complete a ping ----
	// IPv4 header with a wrong version nibble or IHL < 5 (IP4.IsValid looks at neither)
	{"hdr4", false, func(id uint16, aux, p int) []byte {
		// version nibble not 4, otherwise a clean reply
		f := eth4(p, ip4Echo(peerIP4(p), lib.HostIP4, 1, lib.MkICMPEcho(0, 0, id, 1, data(aux))))
		f[14] = byte([]int{0, 5, 6, 15}[aux%4])<<4 | 5
		return f
	}},
	// IHL below 5 (rejected by IP4.IsValid since /repo 38ef1da; completed a ping before)
	{"ihl4", false, func(id uint16, aux, p int) []byte {
		if aux%2 == 0 { // first byte 0: version 0, IHL 0 -> the IP header itself would be read as the ICMP message
			ip := ip4Echo(peerIP4(p), lib.HostIP4, 1, lib.MkICMPEcho(8, 0, id^0x5555, 1, nil))
			ip[0] = byte([]int{0, 0x40}[aux/2%2])
			put16(ip, 4, int(id)) // IP identification field sits where the echo id would be read
			return eth4(p, ip)
		}
		// IHL 2: bytes 8.. of the header would be read as the ICMP message (ttl = type, src = id)
		ip := ip4Echo(netip.AddrFrom4([4]byte{byte(id >> 8), byte(id), 1, 1}), lib.HostIP4, 1, lib.MkICMPEcho(8, 0, id^0x3333, 1, nil))
		ip[0] = 0x42
		ip[8] = 0
		return lib.MkEther(lib.HostMAC, peerMAC(p), 0x0800, ip)
	}},
	{"hdr6", false, func(id uint16, aux, p int) []byte {
		f := eth6(p, lib.MkIP6(peerIP6(p), lib.HostLLA, 58, 64, echo6(peerIP6(p), lib.HostLLA, 129, id, data(aux))))
		f[14] = byte([]int{0, 4, 5, 7, 15}[aux%5])<<4 | f[14]&15
		return f
	}},
	// ICMPv6 protocol number in IPv4 (type 129), ICMP protocol number in IPv6 (type 0)
	{"fam4", false, func(id uint16, aux, p int) []byte {
		return eth4(p, ip4Echo(peerIP4(p), lib.HostIP4, 58, lib.MkICMPEcho(129, 0, id, 1, data(aux))))
	}},
	{"fam6", false, func(id uint16, aux, p int) []byte {
		return eth6(p, lib.MkIP6(peerIP6(p), lib.HostLLA, 1, 64, lib.MkICMPEcho(0, 0, id, 1, data(aux))))
	}},
	// IPv4 TotalLength ends before the 8-byte ICMP header is complete, the frame goes on
	{"tl4", false, func(id uint16, aux, p int) []byte {
		f := eth4(p, ip4Echo(peerIP4(p), lib.HostIP4, 1, lib.MkICMPEcho(0, 0, id, 1, data(aux))))
		put16(f, 16, 20+aux%8)
		return f
	}},
	// IPv6 PayloadLength leaves fewer than 8 bytes of ICMPv6, the frame goes on
	{"pl6", false, func(id uint16, aux, p int) []byte {
		f := eth6(p, lib.MkIP6(peerIP6(p), lib.HostLLA, 58, 64, echo6(peerIP6(p), lib.HostLLA, 129, id, data(aux))))
		put16(f, 18, aux%8)
		return f
	}},
	// TotalLength below the header length (rejected by IP4.IsValid since /repo 38ef1da)
	{"tlx4", false, func(id uint16, aux, p int) []byte {
		f := eth4(p, ip4Echo(peerIP4(p), lib.HostIP4, 1, lib.MkICMPEcho(0, 0, id, 1, data(aux))))
		put16(f, 16, aux%20)
		return f
	}},
}

func variantByName(n string) *variant {
	for i := range variants {
		if variants[i].name == n {
			return &variants[i]
		}
	}
	return nil
}

// concretise turns f.<variant>.<p>.<delta>.<aux> into bytes using the id the call p actually got.
func (e *executor) concretise(tok string) ([]byte, bool) {
	f := strings.Split(tok, ".")
	if len(f) != 5 || f[0] != "f" {
		return nil, false
	}
	v := variantByName(f[1])
	p, e1 := strconv.Atoi(f[2])
	delta, e2 := strconv.Atoi(f[3])
	aux, e3 := strconv.Atoi(f[4])
	if v == nil || e1 != nil || e2 != nil || e3 != nil || aux < 0 {
		return nil, false
	}
	id, ok := e.idFor(p)
	if !ok {
		return nil, false
	}
	return v.build(uint16(id+delta), aux, p), true
}

var _ = net.HardwareAddr{}
