package main

// Source-derived constants of the ping code, read from the Go source of $VERIF_REPO with go/ast on
// every run and compared (kind "consts") with what the Coq model COMPUTES from its own functions
// (Extract/D19.v consts_obs).  Everything is found by shape, not by position or by the names of
// local variables, so reordering declarations, renaming locals or the constants themselves is silent;
// changing a value is an alarm.

import (
	"fmt"
	"go/ast"
	"go/parser"
	"go/token"
	"os"
	"path/filepath"
	"sort"
	"strconv"
	"strings"
	"syscall"
)

func intLit(e ast.Expr, consts map[string]int64) (int64, bool) {
	switch x := e.(type) {
	case *ast.BasicLit:
		if x.Kind == token.INT {
			v, err := strconv.ParseInt(x.Value, 0, 64)
			return v, err == nil
		}
	case *ast.Ident:
		v, ok := consts[x.Name]
		return v, ok
	case *ast.ParenExpr:
		return intLit(x.X, consts)
	case *ast.SelectorExpr: // syscall.IPPROTO_ICMP, syscall.IPPROTO_ICMPV6
		if id, ok := x.X.(*ast.Ident); ok && id.Name == "syscall" {
			switch x.Sel.Name {
			case "IPPROTO_ICMP":
				return syscall.IPPROTO_ICMP, true
			case "IPPROTO_ICMPV6":
				return syscall.IPPROTO_ICMPV6, true
			}
		}
	}
	return 0, false
}

// N in `time.Second * N` / `N * time.Second`
func secondsOf(e ast.Expr, consts map[string]int64) (int64, bool) {
	b, ok := e.(*ast.BinaryExpr)
	if !ok || b.Op != token.MUL {
		return 0, false
	}
	isSec := func(x ast.Expr) bool {
		s, ok := x.(*ast.SelectorExpr)
		if !ok {
			return false
		}
		id, ok := s.X.(*ast.Ident)
		return ok && id.Name == "time" && s.Sel.Name == "Second"
	}
	if isSec(b.X) {
		return intLit(b.Y, consts)
	}
	if isSec(b.Y) {
		return intLit(b.X, consts)
	}
	return 0, false
}

func mentions(n ast.Node, name string) bool {
	found := false
	ast.Inspect(n, func(x ast.Node) bool {
		if id, ok := x.(*ast.Ident); ok && id.Name == name {
			found = true
		}
		return !found
	})
	return found
}

func sourceConsts() string {
	repo := os.Getenv("VERIF_REPO")
	if repo == "" {
		repo = "/repo"
	}
	fset := token.NewFileSet()
	parse := func(name string) *ast.File {
		f, err := parser.ParseFile(fset, filepath.Join(repo, name), nil, 0)
		if err != nil {
			return nil
		}
		return f
	}
	icmp, frame := parse("layer_icmp.go"), parse("layer_frame.go")
	if icmp == nil || frame == nil {
		return "source-unreadable"
	}
	// integer constants of layer_icmp.go
	consts := map[string]int64{}
	for _, d := range icmp.Decls {
		g, ok := d.(*ast.GenDecl)
		if !ok || g.Tok != token.CONST {
			continue
		}
		for _, sp := range g.Specs {
			vs := sp.(*ast.ValueSpec)
			for i, n := range vs.Names {
				if i < len(vs.Values) {
					if v, ok := intLit(vs.Values[i], consts); ok {
						consts[n.Name] = v
					}
				}
			}
		}
	}
	// the waiter table: a package variable whose struct type has a map field keyed by an integer type
	// and a counter field of that same type
	mapField, idField, idType, id0 := "", "", "?", "?"
	for _, d := range icmp.Decls {
		g, ok := d.(*ast.GenDecl)
		if !ok || g.Tok != token.VAR {
			continue
		}
		for _, sp := range g.Specs {
			vs := sp.(*ast.ValueSpec)
			for _, val := range vs.Values {
				cl, ok := val.(*ast.CompositeLit)
				if !ok {
					continue
				}
				st, ok := cl.Type.(*ast.StructType)
				if !ok {
					continue
				}
				keyType := ""
				for _, f := range st.Fields.List {
					if mt, ok := f.Type.(*ast.MapType); ok && len(f.Names) == 1 {
						if k, ok := mt.Key.(*ast.Ident); ok {
							mapField, keyType = f.Names[0].Name, k.Name
						}
					}
				}
				if keyType == "" {
					continue
				}
				for _, f := range st.Fields.List {
					if t, ok := f.Type.(*ast.Ident); ok && t.Name == keyType && len(f.Names) == 1 {
						idField, idType = f.Names[0].Name, t.Name
					}
				}
				for _, el := range cl.Elts {
					if kv, ok := el.(*ast.KeyValueExpr); ok {
						if k, ok := kv.Key.(*ast.Ident); ok && k.Name == idField {
							if v, ok := intLit(kv.Value, consts); ok {
								id0 = strconv.FormatInt(v, 10)
							}
						}
					}
				}
			}
		}
	}
	// len(<table>.<map>) > LIT: the refusal bound of the allocator
	full := map[string]bool{}
	// timeout normalisation: in every function with a time.Duration parameter d, the if statement whose
	// condition compares d with time.Second*N and whose body assigns time.Second*M to d
	tmo := map[string]bool{}
	// EncodeICMPEcho(_, TYPE, ...) calls: the request types sent
	reqs := map[int64]bool{}
	// IsValid methods: len(p) >= LIT
	minLens := map[string]int64{}
	for _, d := range icmp.Decls {
		fd, ok := d.(*ast.FuncDecl)
		if !ok || fd.Body == nil {
			continue
		}
		dur := ""
		for _, p := range fd.Type.Params.List {
			if s, ok := p.Type.(*ast.SelectorExpr); ok && s.Sel.Name == "Duration" && len(p.Names) > 0 {
				dur = p.Names[len(p.Names)-1].Name
			}
		}
		ast.Inspect(fd.Body, func(n ast.Node) bool {
			switch x := n.(type) {
			case *ast.BinaryExpr:
				if x.Op == token.GTR {
					if c, ok := x.X.(*ast.CallExpr); ok && len(c.Args) == 1 {
						if f, ok := c.Fun.(*ast.Ident); ok && f.Name == "len" {
							if s, ok := c.Args[0].(*ast.SelectorExpr); ok && s.Sel.Name == mapField {
								if v, ok := intLit(x.Y, consts); ok {
									full[strconv.FormatInt(v, 10)] = true
								}
							}
						}
					}
				}
				if x.Op == token.GEQ && fd.Name.Name == "IsValid" && fd.Recv != nil {
					if c, ok := x.X.(*ast.CallExpr); ok {
						if f, ok := c.Fun.(*ast.Ident); ok && f.Name == "len" {
							if v, ok := intLit(x.Y, consts); ok {
								if rt, ok := fd.Recv.List[0].Type.(*ast.Ident); ok {
									minLens[rt.Name] = v
								}
							}
						}
					}
				}
			case *ast.IfStmt:
				if dur != "" && mentions(x.Cond, dur) {
					var maxS, defS int64 = -1, -1
					ast.Inspect(x.Cond, func(m ast.Node) bool {
						if e, ok := m.(ast.Expr); ok {
							if v, ok := secondsOf(e, consts); ok {
								maxS = v
							}
						}
						return true
					})
					for _, st := range x.Body.List {
						if as, ok := st.(*ast.AssignStmt); ok && len(as.Lhs) == 1 && len(as.Rhs) == 1 {
							if id, ok := as.Lhs[0].(*ast.Ident); ok && id.Name == dur {
								if v, ok := secondsOf(as.Rhs[0], consts); ok {
									defS = v
								}
							}
						}
					}
					if maxS >= 0 && defS >= 0 {
						tmo[fmt.Sprintf("%d/%d", maxS, defS)] = true
					}
				}
			case *ast.CallExpr:
				if f, ok := x.Fun.(*ast.Ident); ok && f.Name == "EncodeICMPEcho" && len(x.Args) >= 2 && fd.Name.Name != "EncodeICMPEcho" {
					if v, ok := intLit(x.Args[1], consts); ok {
						reqs[v] = true
					}
				}
			}
			return true
		})
	}
	// Parse: inside the case clause of protocol P, `<x>.Type() == C` guards echoNotify; and the
	// payload-length guard `len(...Payload()) >= LIT`
	notify := map[string]bool{}
	payloadMin := int64(-1)
	ast.Inspect(frame, func(n ast.Node) bool {
		cc, ok := n.(*ast.CaseClause)
		if !ok || len(cc.List) != 1 {
			return true
		}
		proto, ok := intLit(cc.List[0], consts)
		if !ok {
			return true
		}
		callsNotify := false
		for _, st := range cc.Body {
			ast.Inspect(st, func(m ast.Node) bool {
				if c, ok := m.(*ast.CallExpr); ok {
					if f, ok := c.Fun.(*ast.Ident); ok && f.Name == "echoNotify" {
						callsNotify = true
					}
				}
				return true
			})
		}
		if !callsNotify {
			return true
		}
		for _, st := range cc.Body {
			ifs, ok := st.(*ast.IfStmt)
			if !ok {
				continue
			}
			ast.Inspect(ifs.Cond, func(m ast.Node) bool {
				b, ok := m.(*ast.BinaryExpr)
				if !ok {
					return true
				}
				if b.Op == token.EQL {
					if c, ok := b.X.(*ast.CallExpr); ok {
						if s, ok := c.Fun.(*ast.SelectorExpr); ok && s.Sel.Name == "Type" {
							if v, ok := intLit(b.Y, consts); ok {
								notify[fmt.Sprintf("%d:%d", proto, v)] = true
							}
						}
					}
				}
				if b.Op == token.GEQ {
					if c, ok := b.X.(*ast.CallExpr); ok {
						if f, ok := c.Fun.(*ast.Ident); ok && f.Name == "len" && len(c.Args) == 1 {
							if inner, ok := c.Args[0].(*ast.CallExpr); ok {
								if s, ok := inner.Fun.(*ast.SelectorExpr); ok && s.Sel.Name == "Payload" {
									if v, ok := intLit(b.Y, consts); ok && v > payloadMin {
										payloadMin = v
									}
								}
							}
						}
					}
				}
				return true
			})
		}
		return true
	})
	keys := func(m map[string]bool) string {
		var l []string
		for k := range m {
			l = append(l, k)
		}
		sort.Slice(l, func(i, j int) bool {
			a, _ := strconv.Atoi(strings.SplitN(l[i], ":", 2)[0])
			b, _ := strconv.Atoi(strings.SplitN(l[j], ":", 2)[0])
			if a != b {
				return a < b
			}
			return l[i] < l[j]
		})
		return strings.Join(l, ",")
	}
	var rq []string
	{
		var l []int
		for v := range reqs {
			l = append(l, int(v))
		}
		sort.Ints(l)
		for _, v := range l {
			rq = append(rq, strconv.Itoa(v))
		}
	}
	minlen := payloadMin
	for _, t := range []string{"ICMP", "ICMPEcho"} {
		if v, ok := minLens[t]; !ok {
			minlen = -1
		} else if v > minlen && minlen >= 0 {
			minlen = v
		}
	}
	return fmt.Sprintf("notify=%s;request=%s;id0=%s;idtype=%s;fullgt=%s;tmo=%s;minlen=%d",
		keys(notify), strings.Join(rq, ","), id0, idType, keys(full), keys(tmo), minlen)
}
