package main

// Source-derived constants of the ping code, read from the Go source of $VERIF_REPO on every run and
// compared (kind "consts") with what the Coq model COMPUTES from its own functions (Extract/D19.v
// consts_obs).  Values are folded by go/types (types.Info.Types[expr].Value), so named constants,
// reordered operands and helper constants resolve; expressions are located by shape.  A component whose
// shape is not found or whose value does not fold is UNRESOLVED: it is dropped from the case (stat
// consts.unresolved.<name>) and never alarms; only a resolved value that differs from the model does.

import (
	"fmt"
	"go/ast"
	"go/constant"
	"go/importer"
	"go/parser"
	"go/token"
	"go/types"
	"os"
	"path/filepath"
	"sort"
	"strconv"
	"strings"
)

type srcInfo struct {
	fset  *token.FileSet
	files map[string]*ast.File
	info  *types.Info
}

func loadSource() *srcInfo {
	repo := os.Getenv("VERIF_REPO")
	if repo == "" {
		repo = "/repo"
	}
	si := &srcInfo{fset: token.NewFileSet(), files: map[string]*ast.File{}}
	names, _ := filepath.Glob(filepath.Join(repo, "*.go"))
	var all []*ast.File
	for _, n := range names {
		if strings.HasSuffix(n, "_test.go") {
			continue
		}
		f, err := parser.ParseFile(si.fset, n, nil, 0)
		if err != nil || f.Name.Name != "packet" {
			continue
		}
		si.files[filepath.Base(n)] = f
		all = append(all, f)
	}
	si.info = &types.Info{Types: map[ast.Expr]types.TypeAndValue{}}
	conf := types.Config{Importer: importer.ForCompiler(si.fset, "source", nil), Error: func(error) {}}
	conf.Check("packet", si.fset, all, si.info) // errors (third-party imports, build tags) are irrelevant: constants still fold
	return si
}

func (si *srcInfo) val(e ast.Expr) (int64, bool) {
	tv, ok := si.info.Types[e]
	if !ok || tv.Value == nil {
		return 0, false
	}
	v := constant.ToInt(tv.Value)
	if v.Kind() != constant.Int {
		return 0, false
	}
	return constant.Int64Val(v)
}

func isLenOf(e ast.Expr) (ast.Expr, bool) {
	c, ok := e.(*ast.CallExpr)
	if !ok || len(c.Args) != 1 {
		return nil, false
	}
	f, ok := c.Fun.(*ast.Ident)
	if !ok || f.Name != "len" {
		return nil, false
	}
	return c.Args[0], true
}

// lower bound c of `len(X) >= c`, `len(X) > c-1`, `c <= len(X)`, `!(len(X) < c)` style comparisons
func (si *srcInfo) lenLowerBound(b *ast.BinaryExpr) (ast.Expr, int64, bool) {
	x, y, op := b.X, b.Y, b.Op
	if _, ok := isLenOf(y); ok { // constant on the left: mirror
		x, y = y, x
		switch op {
		case token.LEQ:
			op = token.GEQ
		case token.LSS:
			op = token.GTR
		default:
			return nil, 0, false
		}
	}
	arg, ok := isLenOf(x)
	if !ok {
		return nil, 0, false
	}
	c, ok := si.val(y)
	if !ok {
		return nil, 0, false
	}
	switch op {
	case token.GEQ:
		return arg, c, true
	case token.GTR:
		return arg, c + 1, true
	}
	return nil, 0, false
}

func mentions(n ast.Node, name string) bool {
	found := false
	ast.Inspect(n, func(x ast.Node) bool {
		if id, ok := x.(*ast.Ident); ok && id.Name == name {
			found = true
		}
		return !found
	})
	return found
}

// sourceConsts returns the resolved components (name -> value text) and the names left unresolved.
func sourceConsts() (map[string]string, []string) {
	all := []string{"notify", "request", "id0", "idtype", "fullgt", "tmo", "minlen"}
	res := map[string]string{}
	si := loadSource()
	icmp, frame := si.files["layer_icmp.go"], si.files["layer_frame.go"]
	if icmp != nil {
		si.fromICMP(icmp, res)
	}
	if frame != nil {
		si.fromFrame(frame, res)
	}
	if a, ok1 := res["_icmpmin"]; ok1 {
		b, ok2 := res["_echomin"]
		c, ok3 := res["_payloadmin"]
		if ok2 && ok3 {
			m := 0
			for _, s := range []string{a, b, c} {
				if v, _ := strconv.Atoi(s); v > m {
					m = v
				}
			}
			res["minlen"] = strconv.Itoa(m)
		}
	}
	var un []string
	for _, n := range all {
		if _, ok := res[n]; !ok {
			un = append(un, n)
		}
	}
	for k := range res {
		if strings.HasPrefix(k, "_") {
			delete(res, k)
		}
	}
	return res, un
}

func (si *srcInfo) fromICMP(icmp *ast.File, res map[string]string) {
	// the waiter table: a package variable whose struct type has a map field keyed by an integer type and
	// a counter field of that same type
	mapField, idField := "", ""
	for _, d := range icmp.Decls {
		g, ok := d.(*ast.GenDecl)
		if !ok || g.Tok != token.VAR {
			continue
		}
		for _, sp := range g.Specs {
			for _, val := range sp.(*ast.ValueSpec).Values {
				cl, ok := val.(*ast.CompositeLit)
				if !ok {
					continue
				}
				st, ok := cl.Type.(*ast.StructType)
				if !ok {
					continue
				}
				keyType := ""
				for _, f := range st.Fields.List {
					if mt, ok := f.Type.(*ast.MapType); ok && len(f.Names) == 1 {
						if k, ok := mt.Key.(*ast.Ident); ok {
							mapField, keyType = f.Names[0].Name, k.Name
						}
					}
				}
				if keyType == "" {
					continue
				}
				for _, f := range st.Fields.List {
					if t, ok := f.Type.(*ast.Ident); ok && t.Name == keyType && len(f.Names) == 1 {
						idField = f.Names[0].Name
						res["idtype"] = t.Name
					}
				}
				for _, el := range cl.Elts {
					if kv, ok := el.(*ast.KeyValueExpr); ok {
						if k, ok := kv.Key.(*ast.Ident); ok && k.Name == idField {
							if v, ok := si.val(kv.Value); ok {
								res["id0"] = strconv.FormatInt(v, 10)
							}
						}
					}
				}
			}
		}
	}
	full := map[string]bool{}
	tmo := map[string]bool{}
	reqs := map[int]bool{}
	for _, d := range icmp.Decls {
		fd, ok := d.(*ast.FuncDecl)
		if !ok || fd.Body == nil {
			continue
		}
		dur := ""
		for _, p := range fd.Type.Params.List {
			if s, ok := p.Type.(*ast.SelectorExpr); ok && s.Sel.Name == "Duration" && len(p.Names) > 0 {
				dur = p.Names[len(p.Names)-1].Name
			}
		}
		ast.Inspect(fd.Body, func(n ast.Node) bool {
			switch x := n.(type) {
			case *ast.BinaryExpr:
				if arg, c, ok := si.lenLowerBound(x); ok {
					if s, ok := arg.(*ast.SelectorExpr); ok && mapField != "" && s.Sel.Name == mapField && c > 1 {
						full[strconv.FormatInt(c-1, 10)] = true // len(table) > c-1: refusal
					}
				}
				// IsValid of the two views: the single length comparison, in any of its spellings
				// (len(p) >= c, n < c after n := len(p), ...)
				if fd.Name.Name == "IsValid" && fd.Recv != nil {
					if rt, ok := fd.Recv.List[0].Type.(*ast.Ident); ok && (rt.Name == "ICMP" || rt.Name == "ICMPEcho") {
						if c, ok := si.val(x.Y); ok {
							bound := int64(-1)
							switch x.Op {
							case token.LSS, token.GEQ:
								bound = c
							case token.LEQ, token.GTR:
								bound = c + 1
							}
							if bound >= 0 {
								res[map[string]string{"ICMP": "_icmpmin", "ICMPEcho": "_echomin"}[rt.Name]] = strconv.FormatInt(bound, 10)
							}
						}
					}
				}
			case *ast.IfStmt:
				if dur != "" && mentions(x.Cond, dur) {
					maxNs, defNs := int64(-1), int64(-1)
					ast.Inspect(x.Cond, func(m ast.Node) bool {
						if b, ok := m.(*ast.BinaryExpr); ok && (b.Op == token.GTR || b.Op == token.GEQ || b.Op == token.LSS || b.Op == token.LEQ) {
							for _, side := range []ast.Expr{b.X, b.Y} {
								if v, ok := si.val(side); ok && v > 0 {
									maxNs = v
								}
							}
						}
						return true
					})
					for _, st := range x.Body.List {
						if as, ok := st.(*ast.AssignStmt); ok && len(as.Lhs) == 1 && len(as.Rhs) == 1 {
							if id, ok := as.Lhs[0].(*ast.Ident); ok && id.Name == dur {
								if v, ok := si.val(as.Rhs[0]); ok {
									defNs = v
								}
							}
						}
					}
					if maxNs > 0 && defNs > 0 && maxNs%1000000000 == 0 && defNs%1000000000 == 0 {
						tmo[fmt.Sprintf("%d/%d", maxNs/1000000000, defNs/1000000000)] = true
					}
				}
			case *ast.CallExpr:
				if f, ok := x.Fun.(*ast.Ident); ok && f.Name == "EncodeICMPEcho" && len(x.Args) >= 2 && fd.Name.Name != "EncodeICMPEcho" {
					if v, ok := si.val(x.Args[1]); ok {
						reqs[int(v)] = true
					}
				}
			}
			return true
		})
	}
	if len(full) > 0 {
		res["fullgt"] = joinKeys(full)
	}
	if len(tmo) > 0 {
		res["tmo"] = joinKeys(tmo)
	}
	if len(reqs) > 0 {
		var l []int
		for v := range reqs {
			l = append(l, v)
		}
		sort.Ints(l)
		var s []string
		for _, v := range l {
			s = append(s, strconv.Itoa(v))
		}
		res["request"] = strings.Join(s, ",")
	}
}

// Parse: inside the case clause of a constant protocol P that (somewhere) calls echoNotify, `<x>.Type() == C`
// comparisons and the payload-length guard `len(<y>.Payload()) >= c`, at any nesting depth
func (si *srcInfo) fromFrame(frame *ast.File, res map[string]string) {
	notify := map[string]bool{}
	payloadMin := int64(-1)
	ast.Inspect(frame, func(n ast.Node) bool {
		cc, ok := n.(*ast.CaseClause)
		if !ok || len(cc.List) != 1 {
			return true
		}
		proto, ok := si.val(cc.List[0])
		if !ok {
			return true
		}
		callsNotify := false
		for _, st := range cc.Body {
			ast.Inspect(st, func(m ast.Node) bool {
				if c, ok := m.(*ast.CallExpr); ok {
					if f, ok := c.Fun.(*ast.Ident); ok && f.Name == "echoNotify" {
						callsNotify = true
					}
				}
				return true
			})
		}
		if !callsNotify {
			return true
		}
		for _, st := range cc.Body {
			ast.Inspect(st, func(m ast.Node) bool {
				b, ok := m.(*ast.BinaryExpr)
				if !ok {
					return true
				}
				if b.Op == token.EQL {
					for _, pair := range [][2]ast.Expr{{b.X, b.Y}, {b.Y, b.X}} {
						if c, ok := pair[0].(*ast.CallExpr); ok {
							if s, ok := c.Fun.(*ast.SelectorExpr); ok && s.Sel.Name == "Type" {
								if v, ok := si.val(pair[1]); ok {
									notify[fmt.Sprintf("%d:%d", proto, v)] = true
								}
							}
						}
					}
				}
				if arg, c, ok := si.lenLowerBound(b); ok {
					if inner, ok := arg.(*ast.CallExpr); ok {
						if s, ok := inner.Fun.(*ast.SelectorExpr); ok && s.Sel.Name == "Payload" && c > payloadMin {
							payloadMin = c
						}
					}
				}
				return true
			})
		}
		return true
	})
	if len(notify) > 0 {
		res["notify"] = joinKeys(notify)
	}
	if payloadMin >= 0 {
		res["_payloadmin"] = strconv.FormatInt(payloadMin, 10)
	}
}

func joinKeys(m map[string]bool) string {
	var l []string
	for k := range m {
		l = append(l, k)
	}
	sort.Slice(l, func(i, j int) bool {
		a, _ := strconv.Atoi(strings.SplitN(l[i], ":", 2)[0])
		b, _ := strconv.Atoi(strings.SplitN(l[j], ":", 2)[0])
		if a != b {
			return a < b
		}
		return l[i] < l[j]
	})
	return strings.Join(l, ",")
}

// constsCase: the case argument (resolved component names, in fixed order) and the observation
func constsCase() (arg string, obs string, unresolved []string) {
	res, un := sourceConsts()
	var names, parts []string
	for _, n := range []string{"notify", "request", "id0", "idtype", "fullgt", "tmo", "minlen"} {
		if v, ok := res[n]; ok {
			names = append(names, n)
			parts = append(parts, n+"="+v)
		}
	}
	if len(names) == 0 {
		return "-", "", un
	}
	return strings.Join(names, ","), strings.Join(parts, ";"), un
}
