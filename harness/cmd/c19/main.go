// C19: Session.Ping / Ping6 and the echo waiter table against the Coq event-system model.
//
// A scenario is a script of steps executed on the REAL library:
//
//	b4.<p>.<m>.<tmo> / b6.<p>.<m>.<tmo> start call p of Ping/Ping6 in its own goroutine (timeout ARGUMENT tmo:
//	                                   <ms> possibly 0 or negative, n<ns>, huge) and wait
//	                                   until its Begin section is complete: m=g the echo request is on the
//	                                   recording connection; m=w the connection's WriteTo failed and the call
//	                                   returned; m=a address-family error, the call returned
//	par:<b..>|<b..>|...                the same for several calls started concurrently; linearised by the
//	                                   identifiers read from the wire (ids are allocated under the table lock)
//	f.<variant>.<p>.<delta>.<aux>      build a frame of the given variant carrying id(p)+delta and hand it to
//	                                   Session.Parse (concretised into r.<hex> in the recorded case line)
//	rp:<f..>|<f..>                     several frames handed to Parse from concurrent goroutines (echoNotify
//	                                   calls commute: Proofs/Ping.v notify_comm), recorded in the listed order
//	r.<hex>                            hand this frame to Session.Parse
//	w.<p>                              wait until call p has returned
//	s                                  read the size of the waiter table (hook VerifPingWaiters)
//
// The recorded case line is the linearisation `scn <next0> b.. r.. w.. s ..` (only b4/b6/r/w/s tokens);
// the observation is `res=..;ids=..;sz=..;next=..` (see coq/Extract/D19.v).
//
// Real time: a reply is "before the timeout" only when Parse RETURNED before start+timeout of every
// call that later reports ErrTimeout (the timer is armed after start, so it cannot have fired);
// "after the timeout" means after the call returned.  A run in which a stall of the machine broke
// that margin is discarded (stat discard.jitter) and retried; nothing racy is compared.
//
// The waiter table is process-global, so every scenario runs in its own child process
// (`-child <script>`); the child first drives icmpTable.id to <next0> with address-error pings
// and flushes whatever those leaked with echo replies.
package main

import (
	"bufio"
	"bytes"
	"errors"
	"flag"
	"fmt"
	"io"
	"net"
	"net/netip"
	"os"
	"os/exec"
	"runtime"
	"sort"
	"strconv"
	"strings"
	"sync"
	"sync/atomic"
	"time"

	"github.com/irai/packet"
	"github.com/irai/packet/fastlog"
	"pvharness/lib"
)

var childFlag = flag.String("child", "", "internal: run this script in this process and print the linearised case")

// ---------------------------------------------------------------------------
// connections

type failConn struct{ *lib.RecConn }

func (c failConn) WriteTo(b []byte, a net.Addr) (int, error) {
	c.RecConn.WriteTo(b, a) // record what the library tried to send
	return 0, errors.New("verif: write failed")
}

// hookConn records like RecConn and then runs a scripted action INSIDE WriteTo, i.e. while the
// pinging goroutine is still in its send (a responder faster than the sender).
type hookConn struct {
	*lib.RecConn
	mu   sync.Mutex
	hook func(frame []byte) error
	isClosed bool
}

func (c *hookConn) Close() error {
	c.mu.Lock()
	c.isClosed = true
	c.mu.Unlock()
	return c.RecConn.Close()
}

func (c *hookConn) IsClosed() bool { c.mu.Lock(); defer c.mu.Unlock(); return c.isClosed }

func (c *hookConn) WriteTo(b []byte, a net.Addr) (int, error) {
	c.RecConn.WriteTo(b, a)
	c.mu.Lock()
	h := c.hook
	c.mu.Unlock()
	if h != nil {
		if err := h(append([]byte{}, b...)); err != nil {
			return 0, err
		}
	}
	return len(b), nil
}

func (c *hookConn) setHook(h func([]byte) error) { c.mu.Lock(); c.hook = h; c.mu.Unlock() }

// ---------------------------------------------------------------------------
// executor

type pingRun struct {
	p       int
	v6      bool
	fromRouter bool // internal ping-with-source (VerifPingFrom), source IP = the router's, as ValidateDefaultRouter does
	mode    byte
	tmoTok  string        // timeout field of the token: <ms>, n<ns> or huge
	raw     time.Duration // the timeout ARGUMENT handed to Ping/Ping6
	retAt   time.Time     // when the call returned
	sentAt  time.Time     // when its (scripted) WriteTo returned
	beginDone time.Time   // when its begin step finished
	start   time.Time
	done    chan error
	res     string
	id      int // read from the wire; -1 unknown
	hookID  int // icmpTable.id just before a sequential Begin (used only to build frames for mode a)
	lastNW  time.Time
	waited  bool
	timeout time.Duration
}

type executor struct {
	sess   *packet.Session
	conn   *lib.RecConn
	fsess  *packet.Session
	fconn  failConn
	pings  map[int]*pingRun
	order  []*pingRun
	lin    []string
	sizes  []int
	lastNW time.Time // when the last non-wait step finished
	bad    string
	hconn  *hookConn
	units  map[int]*sessUnit
}

func peerMAC(p int) net.HardwareAddr { return net.HardwareAddr{0x02, 0x19, 0, 0, byte(p >> 8), byte(p)} }
func peerIP4(p int) netip.Addr       { return netip.AddrFrom4([4]byte{192, 168, 0, byte(20 + p%200)}) }
func peerIP6(p int) netip.Addr {
	a := netip.MustParseAddr("fe80::19:0").As16()
	a[14], a[15] = byte(p>>8), byte(20+p)
	return netip.AddrFrom16(a)
}

// One process may hold several sessions (the waiter table is shared by all of them). Session k is
// created on first use (`@k`); steps act on the current one. Each has its own recording connections.
type sessUnit struct {
	sess  *packet.Session
	conn  *lib.RecConn
	hconn *hookConn
	fsess *packet.Session
	fconn failConn
	closing chan struct{}
}

func newSessUnit() *sessUnit {
	u := &sessUnit{}
	u.sess, u.conn = lib.NewSession()
	u.hconn = &hookConn{RecConn: u.conn}
	u.sess.Conn = u.hconn
	u.fsess, _ = lib.NewSession()
	u.fconn = failConn{lib.NewRecConn()}
	u.fsess.Conn = u.fconn
	return u
}

func (e *executor) use(k int) {
	u := e.units[k]
	if u == nil {
		u = newSessUnit()
		e.units[k] = u
	}
	e.sess, e.conn, e.hconn, e.fsess, e.fconn = u.sess, u.conn, u.hconn, u.fsess, u.fconn
}

func newExecutor() *executor {
	e := &executor{pings: map[int]*pingRun{}, units: map[int]*sessUnit{}}
	e.use(0)
	return e
}

// flushFrame: a plain IPv4 echo reply from an off-LAN source (no host is created for it)
func flushFrame(id uint16) []byte {
	return lib.MkEther(lib.HostMAC, lib.RouterMAC, 0x0800,
		lib.MkIP4(netip.MustParseAddr("8.8.8.8"), lib.HostIP4, 1, 60, lib.MkICMPEcho(0, 0, id, 1, nil)))
}

// setNext drives icmpTable.id to want and leaves the table empty.
func (e *executor) setNext(want uint16) error {
	_, cur := packet.VerifPingWaiters()
	bad := packet.Addr{MAC: peerMAC(0), IP: peerIP6(0)} // not an IPv4 address: ICMP4SendEchoRequest refuses it
	for cur != want {
		if err := e.sess.Ping(bad, time.Second); err == nil || errors.Is(err, packet.ErrTimeout) {
			return fmt.Errorf("setNext: address-error ping returned %v", err)
		}
		cur++
	}
	if n, _ := packet.VerifPingWaiters(); n > 0 {
		for id := 0; id < 65536; id++ {
			e.sess.Parse(flushFrame(uint16(id)))
		}
	}
	if n, nx := packet.VerifPingWaiters(); n != 0 || nx != want {
		return fmt.Errorf("setNext: table size %d next %d, wanted 0 %d", n, nx, want)
	}
	return nil
}

// echo request on the wire: returns destination address and identifier
func decodeEchoRequest(f []byte) (dst netip.Addr, id int, ok bool) {
	if len(f) < 14 {
		return
	}
	switch uint16(f[12])<<8 | uint16(f[13]) {
	case 0x0800:
		if len(f) < 34 || f[14]>>4 != 4 || f[14+9] != 1 {
			return
		}
		ihl := int(f[14]&15) * 4
		if ihl < 20 || len(f) < 14+ihl+8 || f[14+ihl] != 8 {
			return
		}
		dst, _ = netip.AddrFromSlice(f[14+16 : 14+20])
		return dst, int(f[14+ihl+4])<<8 | int(f[14+ihl+5]), true
	case 0x86dd:
		if len(f) < 62 || f[14]>>4 != 6 || f[14+6] != 58 || f[54] != 128 {
			return
		}
		dst, _ = netip.AddrFromSlice(f[14+24 : 14+40])
		return dst, int(f[58])<<8 | int(f[59]), true
	}
	return
}

func (pr *pingRun) fam() string {
	switch {
	case pr.v6:
		return "6"
	case pr.fromRouter:
		return "r"
	}
	return "4"
}

func (pr *pingRun) dstIP() netip.Addr {
	if pr.v6 {
		return peerIP6(pr.p)
	}
	return peerIP4(pr.p)
}

func (e *executor) launch(pr *pingRun, gate chan struct{}) {
	s := e.sess
	if pr.mode == 'w' {
		s = e.fsess
	}
	e.launchOn(pr, gate, s)
}

func (e *executor) launchOn(pr *pingRun, gate chan struct{}, s *packet.Session) {
	pr.done = make(chan error, 1)
	pr.timeout = effTimeout(pr.raw)
	dst := packet.Addr{MAC: peerMAC(pr.p), IP: pr.dstIP()}
	if pr.mode == 'a' { // wrong address family for this call
		if pr.v6 {
			dst.IP = peerIP4(pr.p)
		} else {
			dst.IP = peerIP6(pr.p)
		}
	}
	src := packet.Addr{MAC: lib.HostMAC, IP: lib.HostLLA}
	pr.start = time.Now()
	go func() {
		var err error
		if gate != nil {
			<-gate
		}
		if pr.v6 {
			err = s.Ping6(src, dst, pr.raw)
		} else if pr.fromRouter {
			err = s.VerifPingFrom(packet.Addr{MAC: lib.HostMAC, IP: lib.RouterIP4}, dst, pr.raw)
		} else {
			err = s.Ping(dst, pr.raw)
		}
		pr.retAt = time.Now()
		pr.done <- err
	}()
}

func classifyErr(err error) string {
	switch {
	case err == nil:
		return "nil"
	case errors.Is(err, packet.ErrTimeout):
		return "timeout"
	default:
		return "err"
	}
}

// waitBegun blocks until the Begin section of every given call is complete.
func (e *executor) waitBegun(prs []*pingRun) {
	deadline := time.Now().Add(3 * time.Second)
	pending := map[int]*pingRun{}
	for _, pr := range prs {
		pr.id = -1
		pending[pr.p] = pr
	}
	scan := func(frames [][]byte, mode byte) {
		for _, f := range frames {
			dst, id, ok := decodeEchoRequest(f)
			if !ok {
				continue
			}
			for _, pr := range pending {
				if pr.mode == mode && pr.dstIP() == dst {
					pr.id = id
				}
			}
		}
	}
	for len(pending) > 0 && time.Now().Before(deadline) {
		scan(e.conn.Take(), 'g')
		scan(e.fconn.Take(), 'w')
		for k, pr := range pending {
			switch pr.mode {
			case 'g':
				if pr.id >= 0 {
					delete(pending, k)
				}
			default: // the call returns by itself
				select {
				case err := <-pr.done:
					pr.res = classifyErr(err)
					pr.done <- err
					if pr.mode == 'w' {
						scan(e.fconn.Take(), 'w')
					}
					delete(pending, k)
				default:
				}
			}
		}
		if len(pending) > 0 {
			time.Sleep(20 * time.Microsecond)
		}
	}
	if len(pending) > 0 {
		e.bad = "begin-stuck"
	}
}

func parseB(tok string) (*pingRun, bool) {
	f := strings.Split(tok, ".")
	if len(f) != 4 || (f[0] != "b4" && f[0] != "b6" && f[0] != "br") || len(f[2]) != 1 || !strings.Contains("gaw", f[2]) {
		return nil, false
	}
	p, e1 := strconv.Atoi(f[1])
	raw, ok := parseTmo(f[3])
	if e1 != nil || !ok || p < 0 {
		return nil, false
	}
	return &pingRun{p: p, v6: f[0] == "b6", fromRouter: f[0] == "br", mode: f[2][0], tmoTok: f[3], raw: raw, id: -1, hookID: -1}, true
}

// parseTmo: <ms> (decimal, may be 0 or negative), n<ns>, huge (2^62 ns)
func parseTmo(t string) (time.Duration, bool) {
	switch {
	case t == "huge":
		return time.Duration(1) << 62, true
	case strings.HasPrefix(t, "n"):
		n, err := strconv.ParseInt(t[1:], 10, 64)
		return time.Duration(n), err == nil
	default:
		ms, err := strconv.ParseInt(t, 10, 64)
		if err != nil || ms > 1<<40 || ms < -(1<<40) {
			return 0, false
		}
		return time.Duration(ms) * time.Millisecond, true
	}
}

// effTimeout is the harness's own reading of the documented rule (README / doc comment of Ping):
// a timeout that is not positive or is above 10 s means the 2 s default. Used to plan waits and
// for the "early" oracle; never taken from the library.
func effTimeout(raw time.Duration) time.Duration {
	if raw <= 0 || raw > 10*time.Second {
		return 2 * time.Second
	}
	return raw
}

func (e *executor) idFor(p int) (int, bool) {
	pr := e.pings[p]
	if pr == nil {
		return 0, false
	}
	if pr.id >= 0 {
		return pr.id, true
	}
	if pr.hookID >= 0 {
		return pr.hookID, true
	}
	return 0, false
}

func (e *executor) parseFrame(f []byte) {
	g := make([]byte, len(f)) // capacity == length
	copy(g, f)
	e.sess.Parse(g)
}

// stepAt executes the step that starts at toks[i] and returns the index of the next step.
// `q4.p.ms (f..|r..)* z.p.T|F` is ONE step: call p is started on a connection whose WriteTo hands
// the listed frames to Session.Parse before it returns (nil, or an error for z.p.F).
// `asy:<b..>|<f..>` starts the call on a connection whose WriteTo starts a goroutine that parses the
// frame; recorded as `b.. r..` (the send returning and a notification commute: sent_notify_comm).
func (e *executor) stepAt(toks []string, i int) int {
	tok := toks[i]
	switch {
	case strings.HasPrefix(tok, "q4.") || strings.HasPrefix(tok, "q6.") || strings.HasPrefix(tok, "qr."):
		f := strings.Split(tok, ".")
		if len(f) != 3 {
			e.bad = "badscript"
			return i + 1
		}
		pr, ok := parseB("b" + f[0][1:] + "." + f[1] + ".g." + f[2])
		if !ok || e.pings[pr.p] != nil {
			e.bad = "badscript"
			return i + 1
		}
		j := i + 1
		var inner []string
		isInner := func(t string) bool {
			return strings.HasPrefix(t, "f.") || strings.HasPrefix(t, "r.") || strings.HasPrefix(t, "x.") ||
				strings.HasPrefix(t, "sl.") || strings.HasPrefix(t, "fg.") ||
				strings.HasPrefix(t, "b4.") || strings.HasPrefix(t, "b6.") || strings.HasPrefix(t, "br.") || t == "s"
		}
		for ; j < len(toks) && isInner(toks[j]); j++ {
			inner = append(inner, toks[j])
		}
		if j >= len(toks) || (toks[j] != "z."+f[1]+".T" && toks[j] != "z."+f[1]+".F") {
			e.bad = "badscript"
			return j
		}
		sendOK := strings.HasSuffix(toks[j], ".T")
		if !sendOK {
			pr.mode = 'w' // the call returns the write error by itself
		}
		e.pings[pr.p] = pr
		e.order = append(e.order, pr)
		hookBad := ""
		hookDone := make(chan struct{})
		e.lin = append(e.lin, tok)
		e.hconn.setHook(func(frame []byte) error {
			dst, id, ok := decodeEchoRequest(frame)
			if !ok || dst != pr.dstIP() {
				return nil
			}
			defer close(hookDone)
			pr.id = id
			for _, t := range inner {
				// everything here happens while call p is still inside its WriteTo
				if strings.HasPrefix(t, "sl.") { // the write is slow: hold it (not a model event)
					ms, _ := strconv.Atoi(t[3:])
					time.Sleep(time.Duration(ms) * time.Millisecond)
					continue
				}
				if strings.HasPrefix(t, "fg.") { // the reply is parsed by ANOTHER goroutine during the write
					fr, ok := e.concretise("f." + t[3:])
					if !ok {
						hookBad = "badscript"
						return nil
					}
					pd := make(chan struct{})
					go func() { e.parseFrame(fr); close(pd) }()
					<-pd
					e.lin = append(e.lin, "r."+lib.Hex(fr))
					continue
				}
				if !strings.HasPrefix(t, "f.") && !strings.HasPrefix(t, "r.") {
					e.stepAt([]string{t}, 0) // x.<n>, another call's b4/b6, a snapshot
					continue
				}
				var fr []byte
				if strings.HasPrefix(t, "r.") {
					fr = lib.UnHex(t[2:])
				} else if fr, ok = e.concretise(t); !ok {
					hookBad = "badscript"
					return nil
				}
				e.parseFrame(fr)
				e.lin = append(e.lin, "r."+lib.Hex(fr))
			}
			pr.sentAt = time.Now() // the send returns now: the deadline runs from here (time.After after the send)
			if !sendOK {
				return errors.New("verif: write failed after delivering the reply")
			}
			return nil
		})
		e.launchOn(pr, nil, e.sess)
		e.waitBegunHook(pr, hookDone)
		e.hconn.setHook(nil)
		if hookBad != "" {
			e.bad = hookBad
		}
		e.lin = append(e.lin, toks[j])
		e.lastNW = time.Now()
		pr.beginDone = e.lastNW
		return j + 1
	case strings.HasPrefix(tok, "@"):
		k, err := strconv.Atoi(tok[1:])
		if err != nil || k < 0 || k > 7 {
			e.bad = "badscript"
			return i + 1
		}
		e.use(k)
		e.lin = append(e.lin, tok)
		e.lastNW = time.Now()
		return i + 1
	case strings.HasPrefix(tok, "close.") || strings.HasPrefix(tok, "closed."):
		// Session.Close of session k (it ends with a 1 s sleep): close.k starts it in the background and
		// goes on once the connection has been closed (+ a moment for whatever follows before the sleep);
		// closed.k waits until Close has returned.
		f := strings.Split(tok, ".")
		k, err := strconv.Atoi(f[1])
		u := e.units[k]
		if err != nil || u == nil {
			e.bad = "badscript"
			return i + 1
		}
		if f[0] == "close" {
			if u.closing != nil {
				e.bad = "badscript"
				return i + 1
			}
			u.closing = make(chan struct{})
			go func() { u.sess.Close(); u.fsess.Close(); close(u.closing) }()
			deadline := time.Now().Add(2 * time.Second)
			for !u.hconn.IsClosed() && time.Now().Before(deadline) {
				time.Sleep(200 * time.Microsecond)
			}
			time.Sleep(15 * time.Millisecond)
		} else {
			if u.closing == nil {
				e.bad = "badscript"
				return i + 1
			}
			select {
			case <-u.closing:
			case <-time.After(5 * time.Second):
				e.bad = "close-stuck"
				return i + 1
			}
		}
		e.lin = append(e.lin, tok)
		e.lastNW = time.Now()
		return i + 1
	case strings.HasPrefix(tok, "vdr."):
		// Session.ValidateDefaultRouter(peer p): Ping(peer) and then the internal ping with the ROUTER's IP
		// as source; a responder inside WriteTo answers every echo request to the request's own source
		// address (so the second reply is addressed to the router's IP, not to the host's).
		p, err := strconv.Atoi(tok[4:])
		if err != nil || e.pings[p] != nil {
			e.bad = "badscript"
			return i + 1
		}
		type req struct {
			id  int
			rep []byte
		}
		var reqs []req
		e.hconn.setHook(func(frame []byte) error {
			dst, id, ok := decodeEchoRequest(frame)
			if !ok || dst != peerIP4(p) || len(frame) < 34 {
				return nil
			}
			srcIP, _ := netip.AddrFromSlice(frame[14+12 : 14+16])
			rep := lib.MkEther(net.HardwareAddr(frame[6:12]), peerMAC(p), 0x0800,
				lib.MkIP4(peerIP4(p), srcIP, 1, 64, lib.MkICMPEcho(0, 0, uint16(id), 1, []byte("vdr"))))
			e.parseFrame(rep)
			reqs = append(reqs, req{id, rep})
			return nil
		})
		verr := e.sess.ValidateDefaultRouter(packet.Addr{MAC: peerMAC(p), IP: peerIP4(p)})
		e.hconn.setHook(nil)
		e.conn.Take()
		n := len(reqs)
		var rs []string
		switch {
		case verr == nil && n == 2:
			rs = []string{"nil", "nil"}
		case verr == nil && n == 3:
			rs = []string{"nil", "timeout", "nil"}
		case errors.Is(verr, packet.ErrNotRedirected) && n == 3:
			rs = []string{"nil", "timeout", "timeout"}
		case errors.Is(verr, packet.ErrTimeout) && n == 1:
			rs = []string{"timeout"}
		default:
			e.bad = fmt.Sprintf("vdr-unexpected:%v/%d", verr, n)
			return i + 1
		}
		now := time.Now()
		for k, rq := range reqs {
			pid := p + 500*k
			pr := &pingRun{p: pid, fromRouter: k > 0, mode: 'g', tmoTok: "2000", id: rq.id, hookID: -1, res: rs[k], waited: true,
				start: now, beginDone: now, lastNW: now, timeout: 2 * time.Second}
			e.pings[pid] = pr
			e.order = append(e.order, pr)
			fam := "4"
			if k > 0 {
				fam = "r"
			}
			e.lin = append(e.lin, fmt.Sprintf("q%s.%d.2000", fam, pid), "r."+lib.Hex(rq.rep), fmt.Sprintf("z.%d.T", pid), fmt.Sprintf("w.%d", pid))
		}
		e.lastNW = time.Now()
		return i + 1
	case strings.HasPrefix(tok, "asy:"):
		parts := strings.Split(tok[4:], "|")
		if len(parts) != 2 {
			e.bad = "badscript"
			return i + 1
		}
		pr, ok := parseB(parts[0])
		if !ok || e.pings[pr.p] != nil || pr.mode != 'g' {
			e.bad = "badscript"
			return i + 1
		}
		e.pings[pr.p] = pr
		e.order = append(e.order, pr)
		done := make(chan string, 1)
		e.hconn.setHook(func(frame []byte) error {
			dst, id, ok := decodeEchoRequest(frame)
			if !ok || dst != pr.dstIP() {
				return nil
			}
			pr.id = id
			fr, ok := e.concretise(parts[1])
			if !ok {
				done <- ""
				return nil
			}
			go func() { e.parseFrame(fr); done <- "r." + lib.Hex(fr) }()
			return nil
		})
		e.launchOn(pr, nil, e.sess)
		var rl string
		select {
		case rl = <-done:
		case <-time.After(3 * time.Second):
		}
		e.hconn.setHook(nil)
		e.conn.Take()
		if rl == "" {
			e.bad = "asy-stuck"
			return i + 1
		}
		e.lin = append(e.lin, parts[0], rl)
		e.lastNW = time.Now()
		pr.beginDone = pr.start // the injection is part of this step: it must lie before the expiry
		return i + 1
	case strings.HasPrefix(tok, "x."):
		n, err := strconv.Atoi(tok[2:])
		if err != nil || n < 0 || n > 65536 {
			e.bad = "badscript"
			return i + 1
		}
		bad := packet.Addr{MAC: peerMAC(0), IP: peerIP6(0)}
		for k := 0; k < n; k++ {
			if err := e.sess.Ping(bad, time.Second); err == nil || errors.Is(err, packet.ErrTimeout) {
				e.bad = "bulk-ping-returned-" + classifyErr(err)
				return i + 1
			}
		}
		e.lin = append(e.lin, tok)
		e.lastNW = time.Now()
		return i + 1
	}
	e.step(tok)
	return i + 1
}

// waitBegunHook: wait until the scripted WriteTo has finished; a failing send then returns by itself.
func (e *executor) waitBegunHook(pr *pingRun, hookDone chan struct{}) {
	select {
	case <-hookDone:
	case <-time.After(3 * time.Second):
		e.bad = "begin-stuck"
		return
	}
	e.conn.Take()
	if pr.mode != 'g' {
		select {
		case err := <-pr.done:
			pr.res = classifyErr(err)
			pr.done <- err
		case <-time.After(3 * time.Second):
			e.bad = "begin-stuck"
		}
	}
}

func (e *executor) step(tok string) {
	switch {
	case strings.HasPrefix(tok, "b4.") || strings.HasPrefix(tok, "b6.") || strings.HasPrefix(tok, "br."):
		pr, ok := parseB(tok)
		if !ok || e.pings[pr.p] != nil {
			e.bad = "badscript"
			return
		}
		_, nx := packet.VerifPingWaiters()
		pr.hookID = int(nx)
		e.pings[pr.p] = pr
		e.order = append(e.order, pr)
		e.launch(pr, nil)
		e.waitBegun([]*pingRun{pr})
		e.lin = append(e.lin, tok)
		e.lastNW = time.Now()
		pr.beginDone = e.lastNW
	case strings.HasPrefix(tok, "par:"):
		var prs []*pingRun
		for _, t := range strings.Split(tok[4:], "|") {
			pr, ok := parseB(t)
			if !ok || e.pings[pr.p] != nil || pr.mode == 'a' {
				e.bad = "badscript"
				return
			}
			e.pings[pr.p] = pr
			prs = append(prs, pr)
		}
		_, nx := packet.VerifPingWaiters()
		gate := make(chan struct{})
		for _, pr := range prs {
			e.launch(pr, gate)
		}
		runtime.Gosched()
		t0 := time.Now()
		close(gate)
		e.waitBegun(prs)
		for _, pr := range prs {
			pr.start = t0 // earlier than every timer of the batch
			if pr.id < 0 {
				e.bad = "par-id-unknown"
				return
			}
		}
		sort.Slice(prs, func(i, j int) bool {
			return uint16(prs[i].id-int(nx)) < uint16(prs[j].id-int(nx))
		})
		for _, pr := range prs {
			e.order = append(e.order, pr)
			e.lin = append(e.lin, fmt.Sprintf("b%s.%d.%c.%s", pr.fam(), pr.p, pr.mode, pr.tmoTok))
		}
		e.lastNW = time.Now()
		for _, pr := range prs {
			pr.beginDone = e.lastNW
		}
	case strings.HasPrefix(tok, "f."):
		fr, ok := e.concretise(tok)
		if !ok {
			e.bad = "badscript"
			return
		}
		e.parseFrame(fr)
		e.lin = append(e.lin, "r."+lib.Hex(fr))
		e.lastNW = time.Now()
	case strings.HasPrefix(tok, "rp:"):
		var frs [][]byte
		for _, t := range strings.Split(tok[3:], "|") {
			fr, ok := e.concretise(t)
			if !ok {
				e.bad = "badscript"
				return
			}
			frs = append(frs, fr)
		}
		var wg sync.WaitGroup
		for _, fr := range frs {
			wg.Add(1)
			go func(fr []byte) { defer wg.Done(); e.parseFrame(fr) }(fr)
		}
		wg.Wait()
		for _, fr := range frs {
			e.lin = append(e.lin, "r."+lib.Hex(fr))
		}
		e.lastNW = time.Now()
	case strings.HasPrefix(tok, "r."):
		e.parseFrame(lib.UnHex(tok[2:]))
		e.lin = append(e.lin, tok)
		e.lastNW = time.Now()
	case tok == "s":
		n, _ := packet.VerifPingWaiters()
		e.sizes = append(e.sizes, n)
		e.lin = append(e.lin, tok)
		e.lastNW = time.Now()
	case strings.HasPrefix(tok, "w."):
		p, err := strconv.Atoi(tok[2:])
		pr := e.pings[p]
		if err != nil || pr == nil || pr.waited {
			e.bad = "badscript"
			return
		}
		pr.waited = true
		pr.lastNW = e.lastNW
		select {
		case err := <-pr.done:
			pr.res = classifyErr(err)
		case <-time.After(pr.timeout + 3*time.Second):
			pr.res = "hang"
		}
		e.lin = append(e.lin, tok)
	default:
		e.bad = "badscript"
	}
}

// run executes a script; returns the linearised tokens, the observation and whether timing was sound.
func runScript(next0 uint16, toks []string) (lin []string, obs string, jitter bool) {
	e := newExecutor()
	if err := e.setNext(next0); err != nil {
		return toks, "setup:" + err.Error(), false
	}
	e.lastNW = time.Now()
	for i := 0; i < len(toks); {
		i = e.stepAt(toks, i)
		if e.bad != "" {
			return e.lin, e.bad, false
		}
	}
	n, nx := packet.VerifPingWaiters()
	e.sizes = append(e.sizes, n)
	var res, ids, sz []string
	early := 0
	for _, pr := range e.order {
		r := pr.res
		if r == "" || (!pr.waited && pr.mode == 'g') {
			r = "run"
		}
		res = append(res, r)
		switch {
		case pr.mode == 'a':
			ids = append(ids, "-")
		case pr.id < 0:
			ids = append(ids, "?")
		default:
			ids = append(ids, strconv.Itoa(pr.id))
		}
		// a call that timed out must not have seen any non-wait step (other than its own begin) after
		// its earliest possible expiry
		if pr.res == "timeout" && pr.lastNW.After(pr.beginDone) && !pr.lastNW.Before(pr.start.Add(pr.timeout)) {
			jitter = true
		}
		// oracle: ErrTimeout must not come before the EFFECTIVE timeout has elapsed
		from := pr.start
		if pr.sentAt.After(from) {
			from = pr.sentAt
		}
		if pr.res == "timeout" && !pr.retAt.IsZero() && pr.retAt.Sub(from) < pr.timeout {
			early++
		}
	}
	for _, s := range e.sizes {
		sz = append(sz, strconv.Itoa(s))
	}
	obs = "res=" + strings.Join(res, ",") + ";ids=" + strings.Join(ids, ",") + ";sz=" + strings.Join(sz, ",") +
		";next=" + strconv.Itoa(int(nx)) + ";early=" + strconv.Itoa(early)
	return e.lin, obs, jitter
}

func safeRun(next0 uint16, toks []string) (lin []string, obs string, jitter bool) {
	defer func() {
		if x := recover(); x != nil {
			lin, obs, jitter = toks, "panic", false
		}
	}()
	return runScript(next0, toks)
}

// ---------------------------------------------------------------------------
// parent side: one child process per scenario

type scenario struct {
	next0 uint16
	toks  []string
	class string
}

func runChild(exe string, sc scenario) (line string, obs string, ok bool) {
	script := strconv.Itoa(int(sc.next0)) + " " + strings.Join(sc.toks, " ")
	for attempt := 0; attempt < 3; attempt++ {
		cmd := exec.Command(exe, "-child", script)
		var out bytes.Buffer
		cmd.Stdout = &out
		cmd.Stderr = io.Discard
		done := make(chan error, 1)
		if err := cmd.Start(); err != nil {
			return "", "", false
		}
		go func() { done <- cmd.Wait() }()
		select {
		case <-done:
		case <-time.After(45 * time.Second):
			cmd.Process.Kill()
			<-done
			return "scn " + script, "hang", true
		}
		sc2 := bufio.NewScanner(&out)
		sc2.Buffer(make([]byte, 1<<20), 1<<26)
		for sc2.Scan() {
			f := strings.Split(sc2.Text(), "\t")
			if len(f) == 4 && f[0] == "@@C19" {
				if f[3] == "hang" {
					return "scn " + script, "hang", true
				}
				if f[3] == "jitter" {
					break
				}
				return f[1], f[2], true
			}
		}
	}
	return "", "", false
}

// corpusScenarios reads $VERIF_CORPUS/*.txt: one `scn <next0> tok ...` per line (# comments).
func corpusScenarios() []scenario {
	dir := os.Getenv("VERIF_CORPUS")
	if dir == "" {
		return nil
	}
	ents, err := os.ReadDir(dir)
	if err != nil {
		return nil
	}
	var out []scenario
	for _, e := range ents {
		if e.IsDir() || !strings.HasSuffix(e.Name(), ".txt") {
			continue
		}
		b, err := os.ReadFile(dir + "/" + e.Name())
		if err != nil {
			continue
		}
		for _, l := range strings.Split(string(b), "\n") {
			f := strings.Fields(l)
			if len(f) < 3 || f[0] != "scn" {
				continue
			}
			n, err := strconv.Atoi(f[1])
			if err != nil || n < 0 || n > 65535 {
				continue
			}
			out = append(out, scenario{next0: uint16(n), toks: f[2:], class: "corpus"})
		}
	}
	return out
}

func main() {
	r := lib.Init()
	defer r.Close()
	fastlog.DefaultIOWriter = io.Discard
	r.Register("scn", func(a []string) string {
		if len(a) < 1 {
			return "badscript"
		}
		n, err := strconv.Atoi(a[0])
		if err != nil || n < 0 || n > 65535 {
			return "badscript"
		}
		for attempt := 0; ; attempt++ {
			_, obs, jitter := safeRun(uint16(n), a[1:])
			if !jitter || attempt == 2 {
				return obs
			}
		}
	})
	r.Register("consts", func(a []string) string { // replay: the components named in the argument
		res, _ := sourceConsts()
		var parts []string
		if len(a) == 1 && a[0] != "-" {
			for _, n := range strings.Split(a[0], ",") {
				parts = append(parts, n+"="+res[n])
			}
		}
		return strings.Join(parts, ";")
	})
	// vdr a0 a1 a2: Session.ValidateDefaultRouter against a responder inside WriteTo that answers the k-th
	// echo request (to the request's own source address) iff a_k = T; an unanswered ping costs its 2 s
	r.Register("vdr", func(a []string) string {
		if len(a) != 3 {
			return "badargs"
		}
		e := newExecutor()
		k := 0
		e.hconn.setHook(func(frame []byte) error {
			dst, id, ok := decodeEchoRequest(frame)
			if !ok || dst != peerIP4(9) || len(frame) < 34 {
				return nil
			}
			answer := k < 3 && a[k] == "T"
			k++
			if answer {
				srcIP, _ := netip.AddrFromSlice(frame[14+12 : 14+16])
				e.parseFrame(lib.MkEther(net.HardwareAddr(frame[6:12]), peerMAC(9), 0x0800,
					lib.MkIP4(peerIP4(9), srcIP, 1, 64, lib.MkICMPEcho(0, 0, uint16(id), 1, nil))))
			}
			return nil
		})
		err := e.sess.ValidateDefaultRouter(packet.Addr{MAC: peerMAC(9), IP: peerIP4(9)})
		out := "other"
		switch {
		case err == nil:
			out = "nil"
		case errors.Is(err, packet.ErrNotRedirected):
			out = "notredirected"
		case errors.Is(err, packet.ErrTimeout):
			out = "timeout"
		}
		return out + "/" + strconv.Itoa(k)
	})
	if *childFlag != "" {
		a := strings.Fields(*childFlag)
		// watchdog: a scenario takes a few seconds at most; if a step blocks (a lock held across WriteTo,
		// a Ping that never returns, ...) report the hang with the script as replay instead of never ending
		time.AfterFunc(25*time.Second, func() {
			fmt.Printf("@@C19\tscn %s\thang\thang\n", *childFlag)
			os.Stdout.Sync()
			os.Exit(0)
		})
		n, _ := strconv.Atoi(a[0])
		lin, obs, jitter := safeRun(uint16(n), a[1:])
		j := "ok"
		if jitter {
			j = "jitter"
		}
		fmt.Printf("@@C19\tscn %d %s\t%s\t%s\n", n, strings.Join(lin, " "), obs, j)
		return
	}
	if r.Replayed() {
		return
	}
	exe, err := os.Executable()
	if err != nil {
		panic(err)
	}
	// source-derived constants against the model's own computation: only RESOLVED components are compared
	if arg, obs, un := constsCase(); true {
		r.Case("consts", []string{arg}, obs)
		for _, n := range un {
			r.Stat("consts.unresolved."+n, 1)
		}
	}
	// ValidateDefaultRouter's decision in isolation (every unanswered ping is a real 2 s wait)
	vdrMasks := [][3]string{{"T", "T", "T"}, {"T", "T", "F"}, {"T", "F", "T"}}
	if r.Thorough() {
		vdrMasks = append(vdrMasks, [3]string{"F", "T", "T"}, [3]string{"T", "F", "F"}, [3]string{"F", "F", "F"})
	}
	var vwg sync.WaitGroup
	vobs := make([]string, len(vdrMasks))
	for i, m := range vdrMasks {
		vwg.Add(1)
		go func(i int, m [3]string) {
			defer vwg.Done()
			ch := make(chan string, 1)
			go func() { ch <- r.Exec("vdr", m[:]) }()
			select {
			case vobs[i] = <-ch:
			case <-time.After(15 * time.Second): // at most three 2 s pings
				vobs[i] = "hang"
			}
		}(i, m)
	}
	defer func() {
		vwg.Wait()
		for i, m := range vdrMasks {
			r.Case("vdr", m[:], vobs[i])
		}
	}()
	scs := append(corpusScenarios(), generate(r, r.Rand())...)
	workers := runtime.NumCPU() / 2
	if workers < 2 {
		workers = 2
	}
	if workers > 8 {
		workers = 8
	}
	type outT struct {
		line, obs string
		ok        bool
		class     string
	}
	outs := make([]outT, len(scs))
	var wg sync.WaitGroup
	sem := make(chan struct{}, workers)
	var hangs int32
	for i := range scs {
		wg.Add(1)
		sem <- struct{}{}
		go func(i int) {
			defer wg.Done()
			defer func() { <-sem }()
			if atomic.LoadInt32(&hangs) >= 3 { // the library blocks: do not spend the budget on every scenario
				outs[i] = outT{"", "skipped", true, scs[i].class}
				return
			}
			l, o, ok := runChild(exe, scs[i])
			if ok && o == "hang" {
				atomic.AddInt32(&hangs, 1)
			}
			outs[i] = outT{l, o, ok, scs[i].class}
		}(i)
	}
	wg.Wait()
	for _, o := range outs {
		if !o.ok {
			r.Stat("discard.jitter", 1)
			continue
		}
		if o.obs == "skipped" {
			r.Stat("skipped.after-hangs", 1)
			continue
		}
		if o.obs == "hang" { // impl-violates-spec: every call of the property returns (nil or an error) in bounded time
			r.Viol("scenario-hang", "the scenario did not finish: a step of the library blocked (Ping/Ping6/Parse/Close never returned)", o.line)
			r.Stat("hang."+o.class, 1)
			continue
		}
		f := strings.Fields(o.line)
		r.Case(f[0], f[1:], o.obs)
		r.Stat("class."+o.class, 1)
		for _, x := range strings.Split(strings.SplitN(strings.TrimPrefix(o.obs, "res="), ";", 2)[0], ",") {
			r.Stat("result."+x, 1)
		}
	}
}
