package main

import (
	"bytes"
	"errors"
	"fmt"
	"io"
	"os/exec"
	"strings"
	"time"

	"github.com/irai/packet"
	"pvharness/lib"
)

// wrapDemo replays the history of Proofs/PingWrap.v (C19_distinct_refuted) on the real library:
// call A waits; 65535 calls whose send fails advance the uint16 counter once around; call B is
// started. Only A and B are outstanding. The echo reply for A's identifier is then parsed.
// Returns a one-line report; "collision ..." when B got A's identifier, A timed out although its
// reply was parsed before its timeout, and B was completed by it.
func wrapDemo() string {
	e := newExecutor()
	if err := e.setNext(40000); err != nil {
		return "setup:" + err.Error()
	}
	a := &pingRun{p: 0, mode: 'g', ms: 2500, id: -1, hookID: -1}
	e.pings[0] = a
	e.launch(a, nil)
	e.waitBegun([]*pingRun{a})
	bad := packet.Addr{MAC: peerMAC(0), IP: peerIP6(0)}
	for i := 0; i < 65535; i++ {
		if err := e.sess.Ping(bad, time.Second); err == nil || errors.Is(err, packet.ErrTimeout) {
			return "setup: address-error ping returned " + fmt.Sprint(err)
		}
	}
	b := &pingRun{p: 1, v6: true, mode: 'g', ms: 2500, id: -1, hookID: -1}
	e.pings[1] = b
	e.launch(b, nil)
	e.waitBegun([]*pingRun{b})
	if e.bad != "" {
		return "setup:" + e.bad
	}
	n, _ := packet.VerifPingWaiters()
	e.parseFrame(variantByName("rep4").build(uint16(a.id), 3, 0))
	tParsed := time.Now()
	rb := classifyErr(<-b.done)
	ra := classifyErr(<-a.done)
	inTime := tParsed.Before(a.start.Add(a.timeout))
	rep := fmt.Sprintf("idA=%d idB=%d waiters=%d parsedBeforeTimeoutOfA=%v resultA=%s resultB=%s", a.id, b.id, n, inTime, ra, rb)
	if a.id == b.id && inTime && ra == "timeout" && rb == "nil" {
		return "collision " + rep
	}
	return "no-collision " + rep
}

func runWrapDemo(r *lib.Run, exe string) {
	cmd := exec.Command(exe, "-child", "wrapdemo")
	var out bytes.Buffer
	cmd.Stdout = &out
	cmd.Stderr = io.Discard
	done := make(chan error, 1)
	if err := cmd.Start(); err != nil {
		return
	}
	go func() { done <- cmd.Wait() }()
	select {
	case <-done:
	case <-time.After(60 * time.Second):
		cmd.Process.Kill()
		<-done
		r.Stat("wrapdemo.hang", 1)
		return
	}
	for _, l := range strings.Split(out.String(), "\n") {
		f := strings.Split(l, "\t")
		if len(f) == 2 && f[0] == "@@C19W" {
			r.Sample("wrapdemo: " + f[1])
			if strings.HasPrefix(f[1], "collision ") {
				r.Stat("wrapdemo.collision", 1)
				r.Viol("ping_id_wrap_collision",
					"two outstanding calls were handed the same identifier after 65536 Begins; the reply for the first completed the second and the first returned ErrTimeout: "+f[1],
					"c19 -child wrapdemo")
			} else {
				r.Stat("wrapdemo.other", 1)
			}
		}
	}
}
