package main

import (
	"fmt"
	"sort"
	"strings"

	"pvharness/lib"
)

// Scenario generator. It plans on a virtual clock (ms) so that every non-wait step lies at least
// `margin` ms before the expiry of every call that is still unanswered; the executor checks the
// real timestamps afterwards and discards a run in which the machine stalled past a margin.

const margin = 45

// effMs: effective timeout (ms, rounded down) of the timeout field of a b token, for planning only
func effMs(btok string) int {
	raw, _ := parseTmo(btok[strings.LastIndex(btok, ".")+1:])
	return int(effTimeout(raw) / 1000000)
}

type gping struct {
	p        int
	deadline int
	replied  bool // generator's belief
	mode     byte
	done     bool // w emitted
}

type gen struct {
	rng   *lib.Rand
	toks  []string
	vt    int
	pings []*gping
	nextP int
	tmo   []string
	nvar  map[string]int
	class string
}

func (g *gen) emit(t string) { g.toks = append(g.toks, t) }

func (g *gen) live() []*gping {
	var l []*gping
	for _, q := range g.pings {
		if !q.done && q.mode == 'g' {
			l = append(l, q)
		}
	}
	return l
}

// before a non-wait step: wait for every unanswered call whose expiry is too close
func (g *gen) settle() {
	for {
		var due []*gping
		for _, q := range g.live() {
			if !q.replied && q.deadline <= g.vt+margin {
				due = append(due, q)
			}
		}
		if len(due) == 0 {
			break
		}
		sort.Slice(due, func(i, j int) bool { return due[i].deadline < due[j].deadline })
		for _, q := range due {
			g.wait(q)
		}
	}
	g.vt++
}

func (g *gen) wait(q *gping) {
	g.emit(fmt.Sprintf("w.%d", q.p))
	q.done = true
	if !q.replied && q.deadline+3 > g.vt {
		g.vt = q.deadline + 3
	}
}

func (g *gen) btok(mode byte) (string, *gping) {
	p := g.nextP
	g.nextP++
	ms := g.tmo[g.rng.Intn(len(g.tmo))]
	fam := []string{"b4", "b6", "b4", "b6", "br"}[g.rng.Intn(5)]
	q := &gping{p: p, mode: mode}
	if mode != 'g' {
		q.done = true
	}
	g.pings = append(g.pings, q)
	return fmt.Sprintf("%s.%d.%c.%s", fam, p, mode, ms), q
}

func (g *gen) begin(mode byte) {
	g.settle()
	t, q := g.btok(mode)
	q.deadline = g.vt + effMs(t)
	g.emit(t)
}

func (g *gen) par(n int) {
	g.settle()
	var ts []string
	for i := 0; i < n; i++ {
		mode := byte('g')
		if g.rng.Chance(12) {
			mode = 'w'
		}
		t, q := g.btok(mode)
		q.deadline = g.vt + effMs(t)
		ts = append(ts, t)
	}
	g.vt += 2
	g.emit("par:" + strings.Join(ts, "|"))
}

var defectVariant = map[string]bool{"hdr4": true, "hdr6": true, "fam4": true, "fam6": true, "tl4": true, "pl6": true}

// a call whose request is answered while it is still inside its send (scripted WriteTo), or by a
// goroutine started from WriteTo
func (g *gen) beginAnswered() {
	g.settle()
	// a call answered inside its send never waits: here the whole timeout domain is exercised
	saved := g.tmo
	asy := g.rng.Chance(30)
	if !asy {
		g.tmo = []string{"0", "-1", "-5000", "n1", "1", "150", "2000", "10000", "10001", "n10000000001", "huge"}
	} else { // the goroutine races the timer: no tiny timeouts here
		g.tmo = []string{"150", "300", "800", "0", "-2", "10001"}
	}
	t, q := g.btok('g')
	g.tmo = saved
	q.deadline = g.vt + effMs(t)
	f := strings.Split(t, ".")
	wantWake := g.rng.Chance(70) || effMs(t) >= 1000
	if asy { // asynchronous delivery right after WriteTo
		g.emit("asy:" + t + "|" + g.ftok(q, wantWake))
		g.vt += 2
		return
	}
	g.emit("q" + f[0][1:] + "." + f[1] + "." + f[3])
	for n := 1 + g.rng.Intn(2); n > 0; n-- {
		t := g.ftok(q, wantWake)
		g.emit(t)
		if g.rng.Chance(30) { // the same reply twice or three times while the call is still inside its send
			g.emit(t)
			if g.rng.Bool() {
				g.emit(t)
			}
		}
		wantWake = g.rng.Bool()
	}
	if !q.replied && effMs(t) >= 1000 { // never wait out a default
		name := "dst4"
		if f[0] == "b6" {
			name = "dst6"
		}
		g.emit(fmt.Sprintf("f.%s.%d.0.%d", name, q.p, g.rng.Intn(1000)))
		q.replied = true
	}
	if g.rng.Chance(20) { // the write fails after the reply was delivered
		g.emit("z." + f[1] + ".F")
		q.done = true
		q.mode = 'w'
	} else {
		g.emit("z." + f[1] + ".T")
	}
	g.vt += 2
}

func (g *gen) pickVariant(matching bool) *variant {
	for {
		v := &variants[g.rng.Intn(len(variants))]
		if defectVariant[v.name] && !(g.class == "defect" && g.rng.Chance(70)) {
			continue
		}
		if matching && !v.wakes && g.rng.Chance(80) {
			continue
		}
		return v
	}
}

func (g *gen) ftok(q *gping, wantWake bool) string {
	v := g.pickVariant(wantWake)
	delta := 0
	if !wantWake && g.rng.Chance(60) {
		delta = []int{1, -1, 2, 256, -256, 255, 32768, 7, 4096}[g.rng.Intn(9)]
	}
	if v.wakes && delta == 0 {
		q.replied = true
	}
	g.nvar[v.name]++
	return fmt.Sprintf("f.%s.%d.%d.%d", v.name, q.p, delta, g.rng.Intn(1000))
}

func (g *gen) frame(wantWake bool) {
	if len(g.pings) == 0 {
		return
	}
	g.settle()
	q := g.pings[g.rng.Intn(len(g.pings))]
	if l := g.live(); len(l) > 0 && g.rng.Chance(80) {
		q = l[g.rng.Intn(len(l))]
	}
	if g.rng.Chance(10) && len(g.pings) > 1 { // concurrent injection of two frames
		q2 := g.pings[g.rng.Intn(len(g.pings))]
		g.emit("rp:" + g.ftok(q, wantWake) + "|" + g.ftok(q2, g.rng.Bool()))
		return
	}
	t := g.ftok(q, wantWake)
	g.emit(t)
	if g.rng.Chance(25) { // duplicate replies back to back (a second close of the wakeup channel would panic)
		for n := 1 + g.rng.Intn(2); n > 0; n-- {
			g.emit(t)
		}
	} else if g.rng.Chance(8) {
		g.emit("rp:" + t + "|" + t) // ... and concurrently
	}
}

func (g *gen) snap() { g.settle(); g.emit("s") }

func genScenario(rng *lib.Rand, class string, nvar map[string]int) scenario {
	g := &gen{rng: rng, nvar: nvar, class: class}
	var next0 uint16
	switch x := rng.Intn(100); {
	case x < 55:
		next0 = uint16(1 + rng.Intn(60))
	case x < 85:
		next0 = uint16(65536 - 1 - rng.Intn(6)) // the uint16 wrap happens inside the scenario
	default:
		next0 = uint16(rng.Intn(65536))
	}
	switch class {
	case "fast": // every call is answered: no real waiting
		// every call of this class is answered: defaults (0, negative, > 10 s, huge) cost no waiting
		g.tmo = []string{"400", "600", "800", "0", "-3", "10000", "10001", "huge"}
	default:
		g.tmo = []string{"60", "110", "160", "220", "300", "n1", "1", "2"}
	}
	np := 1 + rng.Intn(6)
	steps := 4 + rng.Intn(14)
	multi := rng.Chance(15) // several sessions in this process
	closedSess := map[int]bool{}
	usedSess := map[int]bool{0: true}
	for i := 0; i < steps; i++ {
		if multi && rng.Chance(40) {
			k := rng.Intn(3)
			g.settle()
			g.emit(fmt.Sprintf("@%d", k))
			usedSess[k] = true
			if rng.Chance(15) && !closedSess[k] && len(closedSess) < 2 {
				g.settle()
				g.emit(fmt.Sprintf("close.%d", k))
				g.vt += 25
				closedSess[k] = true
			}
		}
		x := rng.Intn(100)
		switch {
		case g.nextP < np && x < 9:
			g.beginAnswered()
		case g.nextP < np && x < 30:
			mode := byte('g')
			if class == "fail" && rng.Chance(50) {
				mode = []byte{'a', 'w'}[rng.Intn(2)]
			}
			g.begin(mode)
		case g.nextP+1 < np && x < 38:
			g.par(2 + rng.Intn(3))
		case x < 62:
			g.frame(true)
		case x < 80:
			g.frame(false)
		case x < 90:
			g.snap()
		default:
			if l := g.live(); len(l) > 0 {
				q := l[rng.Intn(len(l))]
				if q.replied || class != "fast" {
					g.wait(q)
				}
			}
		}
		if rng.Chance(35) {
			g.snap()
		}
	}
	if g.nextP == 0 {
		g.begin('g')
	}
	if class == "fast" { // answer whoever is still unanswered
		for _, q := range g.live() {
			if !q.replied {
				g.settle()
				name := []string{"rep4", "rep6"}[rng.Intn(2)]
				g.emit(fmt.Sprintf("f.%s.%d.0.%d", name, q.p, rng.Intn(1000)))
				q.replied = true
			}
		}
	}
	g.snap()
	// wait for everybody, earliest expiry first
	l := g.live()
	sort.Slice(l, func(i, j int) bool {
		if l[i].replied != l[j].replied {
			return l[i].replied
		}
		return l[i].deadline < l[j].deadline
	})
	for _, q := range l {
		g.wait(q)
	}
	g.emit("s")
	// late and duplicate frames: after the timeout / after completion
	for i := rng.Intn(4); i > 0 && len(g.pings) > 0; i-- {
		q := g.pings[rng.Intn(len(g.pings))]
		g.emit(g.ftok(q, rng.Bool()))
		g.emit("s")
	}
	return scenario{next0: next0, toks: g.toks, class: class}
}

func generate(r *lib.Run, rng *lib.Rand) []scenario {
	n := 260
	if r.Thorough() {
		n = 6000
	}
	nvar := map[string]int{}
	var scs []scenario
	// the identifier counter goes once around while call 0 waits: call 1 must be handed another identifier
	// (compared against the model through the compressed event x.65535 = BulkFail 65535)
	scs = append(scs, scenario{next0: 40000, class: "wrap", toks: strings.Fields(
		"b4.0.g.5000 s x.65535 s b6.1.g.5000 s f.rep4.0.0.3 s w.1 s w.0 s")})
	// replies addressed to every kind of destination (host, router, other LAN host, broadcast, multicast;
	// Ethernet destination ours / the router's / broadcast / multicast) for Ping, the ping-with-router-source
	// and Ping6, answered inside the send (no waiting) and after it; ValidateDefaultRouter itself
	{
		var t []string
		p := 0
		for aux := 0; aux < 28; aux++ {
			fam := []string{"q4", "qr"}[aux%2]
			t = append(t, fmt.Sprintf("%s.%d.2000", fam, p), fmt.Sprintf("f.dst4.%d.0.%d", p, aux), fmt.Sprintf("z.%d.T", p), fmt.Sprintf("w.%d", p))
			p++
		}
		scs = append(scs, scenario{next0: 500, class: "dst", toks: append(t, "s")})
		t = nil
		for aux := 0; aux < 20; aux++ {
			t = append(t, fmt.Sprintf("q6.%d.2000", p), fmt.Sprintf("f.dst6.%d.0.%d", p, aux), fmt.Sprintf("z.%d.T", p), fmt.Sprintf("w.%d", p))
			p++
		}
		scs = append(scs, scenario{next0: 600, class: "dst", toks: append(t, "s")})
		scs = append(scs, scenario{next0: 700, class: "dst", toks: strings.Fields(
			"vdr.0 s br.1.g.400 s f.dst4.1.0.1 s w.1 br.2.g.400 b4.3.g.400 f.dst4.3.0.8 f.dst4.2.0.15 s w.2 w.3 s vdr.4 s")})
	}
	// SLOW SEND: the connection's WriteTo takes longer than the ping's timeout.  The code arms its timer AFTER
	// the send returned, so (a) a reply parsed during the slow write (inline or by another goroutine) completes
	// the call however long the write takes, and (b) without a reply the call returns ErrTimeout no earlier
	// than timeout after the write returned (early oracle measured from the return of WriteTo).  >= 20 tries of
	// (a) per run: a timer armed before the send makes both select branches ready and fails half of them.
	for k := 0; k < 4; k++ {
		var t []string
		for j := 0; j < 6; j++ {
			p := j
			fam := []string{"4", "6", "r"}[(k+j)%3]
			rep := map[string]string{"4": "rep4", "6": "rep6", "r": "dst4"}[fam]
			inj := []string{"f", "fg"}[(k+j)%2]
			t = append(t, fmt.Sprintf("q%s.%d.15", fam, p), fmt.Sprintf("%s.%s.%d.0.%d", inj, rep, p, j), "sl.35", fmt.Sprintf("z.%d.T", p), fmt.Sprintf("w.%d", p))
		}
		t = append(t, "s", "q4.6.40", "sl.90", "z.6.T", "w.6", "q6.7.40", "sl.90", "z.7.T", "w.7", "s")
		scs = append(scs, scenario{next0: uint16(1000 + 10*k), class: "slow", toks: t})
	}
	// each path in isolation: a process in which only Ping (IPv4) calls and IPv4 frames occur, one with only
	// Ping6 and IPv6 frames, one with only the router-source ping: a change to one path alone has a failing
	// input that involves nothing else
	for _, iso := range [][3]string{{"b4", "rep4", "req4"}, {"b6", "rep6", "req6"}, {"br", "dst4", "type4x"}} {
		b, rp, no := iso[0], iso[1], iso[2]
		q := "q" + b[1:]
		scs = append(scs, scenario{next0: 65533, class: "iso" + b[1:], toks: strings.Fields(fmt.Sprintf(
			"%[1]s.0.g.300 %[1]s.1.g.300 %[1]s.2.g.90 s f.%[3]s.0.0.1 f.%[2]s.0.1.2 f.%[2]s.0.3.2 s f.%[2]s.1.0.3 s w.1 f.%[2]s.1.0.3 s "+
				"w.2 s f.%[2]s.2.0.4 s f.%[2]s.0.0.5 f.%[2]s.0.0.5 s w.0 %[4]s.3.0 f.%[2]s.3.0.6 z.3.T w.3 %[1]s.4.a.100 %[1]s.5.w.100 s "+
				"%[4]s.6.200 f.%[3]s.6.0.1 z.6.F s", b, rp, no, q))})
	}
	// several sessions in one process share the waiter table: pings (v4, v6, router-source) pending on one
	// session while another is created / used / closed; replies parsed by the pinging session, by another live
	// session, by a closed session; identifiers handed out alternately; Close of the pinging session itself
	scs = append(scs, scenario{next0: 900, class: "sess", toks: strings.Fields(
		"@0 b4.0.g.400 @1 b6.1.g.500 br.2.g.500 s @0 close.0 s @1 f.rep6.1.0.1 s w.1 f.dst4.2.0.8 s w.2 s w.0 s @1 f.rep4.0.0.1 s")})
	scs = append(scs, scenario{next0: 65534, class: "sess", toks: strings.Fields(
		"@0 b4.0.g.500 @1 b4.1.g.500 @0 b6.2.g.500 @2 br.3.g.500 s @0 f.rep4.1.0.1 s w.1 @1 close.1 s @2 f.rep6.2.0.2 s w.2 " +
			"@1 f.dst4.3.0.1 s w.3 @2 close.2 s @0 f.rep4.0.0.3 s w.0 s")})
	scs = append(scs, scenario{next0: 910, class: "sess", toks: strings.Fields(
		"@1 b6.0.g.2500 qr.1.300 f.dst4.1.0.1 z.1.T @0 close.0 closed.0 s @1 w.1 s @0 f.rep6.0.0.2 s w.0 s @1 b4.2.g.250 close.1 s w.2 s")})
	// duplicate replies, 2-3 copies back to back and concurrently, while the call is inside its send and
	// while it waits (IPv4, IPv6, router-source): the second notification must find no entry
	scs = append(scs, scenario{next0: 800, class: "dup", toks: strings.Fields(
		"q4.0.400 f.rep4.0.0.1 f.rep4.0.0.1 f.rep4.0.0.1 z.0.T s w.0 q6.1.400 f.rep6.1.0.2 f.rep6.1.0.2 z.1.T s w.1 " +
			"b4.2.g.400 b6.3.g.400 br.4.g.400 s f.rep4.2.0.3 f.rep4.2.0.3 f.rep4.2.0.3 s f.rep6.3.0.4 f.rep6.3.0.4 s " +
			"rp:f.dst4.4.0.1|f.dst4.4.0.1 f.dst4.4.0.1 s w.2 w.3 w.4 s f.rep4.2.0.3 f.rep6.3.0.4 s")})
	// the timeout ARGUMENT domain, Ping and Ping6: answered inside the send (nil at once whatever the
	// argument: 0, negative, 1 ns, typical, exactly 10 s, just above, huge) ...
	sweep := []string{"0", "-1", "-5000", "n1", "1", "150", "10000", "n10000000001", "10001", "huge"}
	for fam, rep := range map[string]string{"4": "rep4", "6": "rep6"} {
		var t []string
		for i, tm := range sweep {
			t = append(t, fmt.Sprintf("q%s.%d.%s", fam, i, tm), fmt.Sprintf("f.%s.%d.0.%d", rep, i, i), fmt.Sprintf("z.%d.T", i), "s", fmt.Sprintf("w.%d", i))
		}
		scs = append(scs, scenario{next0: 100, class: "tmo", toks: append(t, "s")})
	}
	// ... and unanswered with the smallest positive values: ErrTimeout at once, never early
	scs = append(scs, scenario{next0: 200, class: "tmo", toks: strings.Fields(
		"b4.0.g.n1 w.0 s b6.1.g.n1 w.1 s b4.2.g.1 w.2 b6.3.g.2 w.3 s par:b4.4.g.n1|b6.5.g.1|b4.6.g.n2 w.4 w.5 w.6 s f.rep4.0.0.1 f.rep6.1.0.1 s")})
	if r.Thorough() { // the 2 s default is waited out only here
		for i, tm := range []string{"0", "-1", "10001", "huge"} {
			fam := []string{"b4", "b6"}[i%2]
			scs = append(scs, scenario{next0: uint16(300 + i), class: "tmo", toks: strings.Fields(
				fmt.Sprintf("%s.0.g.%s s f.req4.0.0.1 s w.0 s", fam, tm))})
		}
	}
	// the identifier of a call that was answered inside its send is handed to a newer call before the
	// older one returns (send succeeds / send fails): the older call must not delete the newer entry
	scs = append(scs, scenario{next0: 40000, class: "wrap", toks: strings.Fields(
		"q4.0.5000 f.rep4.0.0.1 x.65535 b6.1.g.5000 s z.0.T s w.0 s f.rep6.1.0.2 s w.1 s")})
	scs = append(scs, scenario{next0: 7, class: "wrap", toks: strings.Fields(
		"q6.0.5000 f.rep6.0.0.1 x.65535 b4.1.g.5000 s z.0.F s f.rep4.1.0.2 s w.1 s")})
	scs = append(scs, scenario{next0: 65530, class: "wrap", toks: strings.Fields(
		"b6.0.g.400 x.3 b4.1.g.400 x.20 s b4.2.g.400 s f.rep4.1.0.3 f.rep6.0.0.1 w.0 w.1 s f.rep4.2.0.9 w.2 s")})
	for i := 0; i < n; i++ {
		class := "timed"
		switch x := rng.Intn(100); {
		case x < 45:
			class = "fast"
		case x < 60:
			class = "fail"
		case x < 75:
			class = "defect"
		}
		scs = append(scs, genScenario(rng.Fork(), class, nvar))
	}
	for k, v := range nvar {
		r.Stat("variant."+k, int64(v))
	}
	return scs
}
