// Package srctab: classification tables of Session.Parse derived from the source (shared by cmd/c02, which compares
// them as text, and cmd/c01, which drives every row through the real Parse).
package srctab

// Source-derived classification tables: go/parser + go/ast on $VERIF_REPO/layer_frame.go.
//
// Extracted, in source order, as canonical text (the same text coq/Model/ParseShow.v show_table produces from the
// lists the model is defined from):
//
//	payloadid  "1:PayloadEther,2:Payload8023,..."            the const block of type PayloadID
//	ethertype  "lt1536>2,2048>4,34525>5,..."                 `if frame.ether.EtherType() < 1536` + `switch frame.ether.EtherType()`
//	ipproto    "17>8,6>9,1>6,58>7,2>22"                      `switch proto`
//	udpports   "e443>14,d67.68>10,..."                       the tagless `switch { case ... }` inside the UDP case:
//	                                                         e = Src == p || Dst == p, d = Dst == p || Dst == q ...
//
// Every row is case-constant(s) > PayloadID assigned at the top level of the case body.  The rows of a switch over
// constants (payloadid, ethertype, ipproto) form a SET - Go forbids duplicate constant cases, so their order means
// nothing - and are sorted by key; only the tagless UDP port switch, where the first matching case wins, keeps its
// source order.  The switches are found by their case constants (ETH_P_IP / IPPROTO_UDP), not by the spelling of
// their operand; operands may be locals; a comparison may be written either way round.  A shape that is not
// recognised (a harmless refactor: other variable names, helper functions, a map) yields ok=false: the caller then
// records a stat and relies on the generated frames only.

import (
	"fmt"
	"go/ast"
	"go/parser"
	"go/token"
	"os"
	"path/filepath"
	"sort"
	"strconv"
	"strings"
	"syscall"
)

// the syscall constants layer_frame.go uses, taken from the real package at harness build time
var syscallConst = map[string]int64{
	"ETH_P_IP": syscall.ETH_P_IP, "ETH_P_IPV6": syscall.ETH_P_IPV6, "ETH_P_ARP": syscall.ETH_P_ARP,
	"ETH_P_8021Q": syscall.ETH_P_8021Q,
	"IPPROTO_UDP": syscall.IPPROTO_UDP, "IPPROTO_TCP": syscall.IPPROTO_TCP, "IPPROTO_ICMP": syscall.IPPROTO_ICMP,
	"IPPROTO_ICMPV6": syscall.IPPROTO_ICMPV6, "IPPROTO_IGMP": syscall.IPPROTO_IGMP,
}

type tables struct {
	ids    map[string]int64 // PayloadID name -> value
	consts map[string]int64 // every other integer constant of the file declared with a literal value
	order  []string         // names in source order
	fn     *ast.FuncDecl    // Session.Parse
}

func exprStr(e ast.Expr) string {
	switch x := e.(type) {
	case *ast.Ident:
		return x.Name
	case *ast.SelectorExpr:
		return exprStr(x.X) + "." + x.Sel.Name
	case *ast.CallExpr:
		return exprStr(x.Fun) + "()"
	case *ast.ParenExpr:
		return exprStr(x.X)
	}
	return "?"
}

func (t *tables) constVal(e ast.Expr) (int64, bool) {
	switch x := e.(type) {
	case *ast.BasicLit:
		if x.Kind == token.INT {
			v, err := strconv.ParseInt(x.Value, 0, 64)
			return v, err == nil
		}
	case *ast.SelectorExpr:
		if id, ok := x.X.(*ast.Ident); ok && id.Name == "syscall" {
			v, ok := syscallConst[x.Sel.Name]
			return v, ok
		}
	case *ast.Ident:
		if v, ok := t.ids[x.Name]; ok {
			return v, true
		}
		v, ok := t.consts[x.Name]
		return v, ok
	case *ast.ParenExpr:
		return t.constVal(x.X)
	}
	return 0, false
}

func loadTables(repo string) (*tables, error) {
	fset := token.NewFileSet()
	f, err := parser.ParseFile(fset, filepath.Join(repo, "layer_frame.go"), nil, 0)
	if err != nil {
		return nil, err
	}
	t := &tables{ids: map[string]int64{}, consts: map[string]int64{}}
	for _, d := range f.Decls {
		switch x := d.(type) {
		case *ast.GenDecl:
			if x.Tok != token.CONST {
				continue
			}
			for _, s := range x.Specs {
				vs := s.(*ast.ValueSpec)
				if len(vs.Names) != 1 || len(vs.Values) != 1 {
					continue
				}
				if ty, ok := vs.Type.(*ast.Ident); !ok || ty.Name != "PayloadID" {
					if lit, ok := vs.Values[0].(*ast.BasicLit); ok && lit.Kind == token.INT {
						if v, err := strconv.ParseInt(lit.Value, 0, 64); err == nil {
							t.consts[vs.Names[0].Name] = v
						}
					}
					continue
				}
				if lit, ok := vs.Values[0].(*ast.BasicLit); ok && lit.Kind == token.INT {
					v, _ := strconv.ParseInt(lit.Value, 0, 64)
					t.ids[vs.Names[0].Name] = v
					t.order = append(t.order, vs.Names[0].Name)
				}
			}
		case *ast.FuncDecl:
			if x.Name.Name == "Parse" && x.Recv != nil && len(x.Recv.List) == 1 && strings.HasSuffix(exprStr(starOf(x.Recv.List[0].Type)), "Session") {
				t.fn = x
			}
		}
	}
	if t.fn == nil {
		return nil, fmt.Errorf("Session.Parse not found")
	}
	return t, nil
}

func starOf(e ast.Expr) ast.Expr {
	if s, ok := e.(*ast.StarExpr); ok {
		return s.X
	}
	return e
}

// payloadAssigned: the PayloadID constant assigned to frame.PayloadID at the top level of a statement list
// (exactly one such assignment, else ok=false).
func (t *tables) payloadAssigned(body []ast.Stmt) (int64, bool) {
	var found []int64
	for _, s := range body {
		as, ok := s.(*ast.AssignStmt)
		if !ok || len(as.Lhs) != 1 || len(as.Rhs) != 1 || as.Tok != token.ASSIGN {
			continue
		}
		if sel, ok := as.Lhs[0].(*ast.SelectorExpr); !ok || sel.Sel.Name != "PayloadID" {
			continue
		}
		v, ok := t.constVal(as.Rhs[0])
		if !ok {
			return 0, false
		}
		found = append(found, v)
	}
	if len(found) != 1 {
		return 0, false
	}
	return found[0], true
}

func (t *tables) payloadIDs() (string, bool) {
	if len(t.order) == 0 {
		return "", false
	}
	var rows []string
	for _, n := range t.order {
		rows = append(rows, fmt.Sprintf("%d:%s", t.ids[n], n))
	}
	sortRows(rows)
	return strings.Join(rows, ","), true
}

// findSwitch: the top-level value switch of Parse one of whose case constants is want (the operand's spelling -
// frame.ether.EtherType(), a local, proto - does not matter).
func (t *tables) findSwitch(want int64) *ast.SwitchStmt {
	for _, s := range t.fn.Body.List {
		sw, ok := s.(*ast.SwitchStmt)
		if !ok || sw.Tag == nil {
			continue
		}
		for _, c := range sw.Body.List {
			for _, e := range c.(*ast.CaseClause).List {
				if v, ok := t.constVal(e); ok && v == want {
					return sw
				}
			}
		}
	}
	return nil
}

// sortRows sorts "key>id" rows by numeric key.
func sortRows(rows []string) {
	key := func(s string) int64 {
		v, _ := strconv.ParseInt(s[:strings.IndexAny(s, ">:")], 10, 64)
		return v
	}
	sort.SliceStable(rows, func(i, j int) bool { return key(rows[i]) < key(rows[j]) })
}

// valueSwitch: rows "const>id" of a switch on a value, in source order; default clauses are skipped
// (the model's default is "leave the frame as it is").
func (t *tables) valueSwitch(sw *ast.SwitchStmt) ([]string, bool) {
	var rows []string
	for _, c := range sw.Body.List {
		cc := c.(*ast.CaseClause)
		if cc.List == nil {
			continue
		}
		id, ok := t.payloadAssigned(cc.Body)
		if !ok {
			return nil, false
		}
		for _, e := range cc.List {
			v, ok := t.constVal(e)
			if !ok {
				return nil, false
			}
			rows = append(rows, fmt.Sprintf("%d>%d", v, id))
		}
	}
	sortRows(rows)
	return rows, len(rows) > 0
}

func (t *tables) etherType() (string, bool) {
	sw := t.findSwitch(syscall.ETH_P_IP)
	if sw == nil {
		return "", false
	}
	// the 802.3 length test in front of the switch: if <ethertype> < N { PayloadID = X; return } in any spelling
	// (N > x, x <= N-1, N-1 >= x); it is the only top-level if that assigns a PayloadID constant
	var first string
	for _, s := range t.fn.Body.List {
		is, ok := s.(*ast.IfStmt)
		if !ok {
			continue
		}
		id, ok := t.payloadAssigned(is.Body.List)
		if !ok {
			continue
		}
		be, ok := is.Cond.(*ast.BinaryExpr)
		if !ok {
			return "", false
		}
		var lim int64
		if v, isc := t.constVal(be.Y); isc { // x OP const
			switch be.Op {
			case token.LSS:
				lim = v
			case token.LEQ:
				lim = v + 1
			default:
				return "", false
			}
		} else if v, isc := t.constVal(be.X); isc { // const OP x
			switch be.Op {
			case token.GTR:
				lim = v
			case token.GEQ:
				lim = v + 1
			default:
				return "", false
			}
		} else {
			return "", false
		}
		first = fmt.Sprintf("lt%d>%d", lim, id)
	}
	if first == "" {
		return "", false
	}
	rows, ok := t.valueSwitch(sw)
	if !ok {
		return "", false
	}
	return strings.Join(append([]string{first}, rows...), ","), true
}

func (t *tables) ipProto() (string, bool) {
	sw := t.findSwitch(syscall.IPPROTO_UDP)
	if sw == nil {
		return "", false
	}
	rows, ok := t.valueSwitch(sw)
	return strings.Join(rows, ","), ok
}

// udpPorts: the tagless switch inside the IPPROTO_UDP case of `switch proto`.
func (t *tables) udpPorts() (string, bool) {
	sw := t.findSwitch(syscall.IPPROTO_UDP)
	if sw == nil {
		return "", false
	}
	var inner *ast.SwitchStmt
	locals := map[string]string{} // local identifier -> the expression it was assigned from
	for _, c := range sw.Body.List {
		cc := c.(*ast.CaseClause)
		if len(cc.List) != 1 {
			continue
		}
		if v, ok := t.constVal(cc.List[0]); !ok || v != syscall.IPPROTO_UDP {
			continue
		}
		for _, s := range cc.Body {
			if x, ok := s.(*ast.SwitchStmt); ok && x.Tag == nil {
				inner = x
			}
			if as, ok := s.(*ast.AssignStmt); ok && as.Tok == token.DEFINE && len(as.Lhs) == len(as.Rhs) {
				for i := range as.Lhs {
					if id, ok := as.Lhs[i].(*ast.Ident); ok {
						locals[id.Name] = exprStr(as.Rhs[i])
					}
				}
			}
		}
	}
	if inner == nil {
		return "", false
	}
	var rows []string
	for _, c := range inner.Body.List {
		cc := c.(*ast.CaseClause)
		if cc.List == nil { // default: return frame, nil
			continue
		}
		if len(cc.List) != 1 {
			return "", false
		}
		id, ok := t.payloadAssigned(cc.Body)
		if !ok {
			return "", false
		}
		// disjunction of <source port> == literal / <destination port> == literal, either way round; the operands are
		// frame.SrcAddr.Port / frame.DstAddr.Port, udp.SrcPort() / udp.DstPort(), or locals assigned from them
		var src, dst []int64
		side := func(e ast.Expr) string {
			s := exprStr(e)
			if id, ok := e.(*ast.Ident); ok {
				if r, ok := locals[id.Name]; ok {
					s = r
				}
			}
			switch {
			case strings.HasSuffix(s, "SrcAddr.Port") || strings.HasSuffix(s, "SrcPort()"):
				return "s"
			case strings.HasSuffix(s, "DstAddr.Port") || strings.HasSuffix(s, "DstPort()"):
				return "d"
			}
			return ""
		}
		var walk func(e ast.Expr) bool
		walk = func(e ast.Expr) bool {
			be, ok := e.(*ast.BinaryExpr)
			if !ok {
				if p, ok := e.(*ast.ParenExpr); ok {
					return walk(p.X)
				}
				return false
			}
			switch be.Op {
			case token.LOR:
				return walk(be.X) && walk(be.Y)
			case token.EQL:
				x, y := be.X, be.Y
				v, ok := t.constVal(y)
				if !ok {
					if v, ok = t.constVal(x); !ok {
						return false
					}
					x = y
				}
				switch side(x) {
				case "s":
					src = append(src, v)
				case "d":
					dst = append(dst, v)
				default:
					return false
				}
				return true
			}
			return false
		}
		if !walk(cc.List[0]) {
			return "", false
		}
		join := func(l []int64) string {
			l = append([]int64{}, l...)
			sort.Slice(l, func(i, j int) bool { return l[i] < l[j] })
			s := make([]string, len(l))
			for i, v := range l {
				s[i] = strconv.FormatInt(v, 10)
			}
			return strings.Join(s, ".")
		}
		switch {
		case len(src) == 0 && len(dst) > 0:
			rows = append(rows, fmt.Sprintf("d%s>%d", join(dst), id))
		case len(src) == len(dst) && sameSet(src, dst):
			rows = append(rows, fmt.Sprintf("e%s>%d", join(dst), id))
		default: // a row of another form: reported as it is, the model has no such row
			rows = append(rows, fmt.Sprintf("s%s.d%s>%d", join(src), join(dst), id))
		}
	}
	return strings.Join(rows, ","), len(rows) > 0
}

func sameSet(a, b []int64) bool {
	x := append([]int64{}, a...)
	y := append([]int64{}, b...)
	sort.Slice(x, func(i, j int) bool { return x[i] < x[j] })
	sort.Slice(y, func(i, j int) bool { return y[i] < y[j] })
	for i := range x {
		if x[i] != y[i] {
			return false
		}
	}
	return true
}

// SourceTables returns kind -> canonical text for every table whose shape was recognised.
func SourceTables() (map[string]string, []string) {
	repo := os.Getenv("VERIF_REPO")
	if repo == "" {
		repo = "/repo"
	}
	kinds := []string{"payloadid", "ethertype", "ipproto", "udpports"}
	t, err := loadTables(repo)
	if err != nil {
		return map[string]string{}, kinds
	}
	out := map[string]string{}
	var unrec []string
	for _, k := range kinds {
		var txt string
		var ok bool
		func() {
			defer func() {
				if recover() != nil {
					ok = false
				}
			}()
			switch k {
			case "payloadid":
				txt, ok = t.payloadIDs()
			case "ethertype":
				txt, ok = t.etherType()
			case "ipproto":
				txt, ok = t.ipProto()
			case "udpports":
				txt, ok = t.udpPorts()
			}
		}()
		if ok {
			out[k] = txt
		} else {
			unrec = append(unrec, k)
		}
	}
	return out, unrec
}

// Row is one classification row in structured form.
type Row struct {
	Table string  // "ethertype" | "ipproto" | "udpports"
	Kind  string  // ethertype: "lt" (length test, Keys[0] = bound) or "eq"; ipproto: "eq"; udpports: "e" | "d" | other
	Keys  []int64 // EtherType / protocol number / ports of the row
	ID    int64   // PayloadID the row assigns
	Text  string  // the row as it appears in the canonical text
}

// Rows parses the canonical texts back into rows; ok=false for a row it cannot read (the caller reports it).
func Rows(tabs map[string]string) (rows []Row, bad []string) {
	num := func(s string) (int64, bool) { v, err := strconv.ParseInt(s, 10, 64); return v, err == nil }
	for _, tab := range []string{"ethertype", "ipproto", "udpports"} {
		txt, ok := tabs[tab]
		if !ok {
			continue
		}
		for _, r := range strings.Split(txt, ",") {
			i := strings.Index(r, ">")
			if i < 0 {
				bad = append(bad, tab+":"+r)
				continue
			}
			id, ok := num(r[i+1:])
			key := r[:i]
			row := Row{Table: tab, Kind: "eq", ID: id, Text: tab + ":" + r}
			switch {
			case tab == "ethertype" && strings.HasPrefix(key, "lt"):
				row.Kind = "lt"
				key = key[2:]
			case tab == "udpports":
				row.Kind = key[:1]
				key = key[1:]
				if row.Kind != "e" && row.Kind != "d" { // a row of another form: s<ports>.d<ports>
					row.Kind = "x"
					key = strings.NewReplacer("s", "", "d", "").Replace(r[:i])
				}
			}
			for _, k := range strings.Split(key, ".") {
				if k == "" {
					continue
				}
				v, ok2 := num(k)
				ok = ok && ok2
				row.Keys = append(row.Keys, v)
			}
			if !ok || len(row.Keys) == 0 {
				bad = append(bad, row.Text)
				continue
			}
			rows = append(rows, row)
		}
	}
	return rows, bad
}
