// C02 (Parse half): PayloadID, addresses, ports, layer presence/offsets, payload range and
// error-or-not of the real Session.Parse against the Coq model and the reference decoder
// (coq/Spec/RFC.v through coq/Extract/D02.v).  Same generators as C01 (harness/cmd/c01/pgen).
package main

import (
	"strings"

	"pvharness/cmd/c01/pgen"
	"pvharness/cmd/c01/punit"
	"pvharness/cmd/c02/srctab"
	"pvharness/lib"
)

func statClass(class string) string {
	if strings.HasPrefix(class, "b.len.") {
		return "b.len"
	}
	if i := strings.Index(class, "et."); i >= 0 {
		return class[:i] + "et"
	}
	return class
}

func main() {
	r := lib.Init()
	defer r.Close()
	// d hostMAC routerMAC lan bits frame spare  ->  projection of Parse + accessors
	r.Register("d", func(a []string) string { return pgen.Run(a).C02 })
	// table KIND -> the classification table extracted from layer_frame.go (tables.go); "unrecognised" is never
	// recorded as a case: the check then rests on the generated frames only and says so in a stat.
	// pp FAM MS tok..: Parse with a ping pending on the process-global waiter table (cmd/c01/punit): the C02 projection
	// of every frame must be the model's, whatever the waiter table holds
	r.Register("pp", func(a []string) string { o, _ := punit.RunPing(a, true); return o })
	r.Register("table", func(a []string) string {
		tabs, _ := srctab.SourceTables()
		if txt, ok := tabs[a[0]]; ok {
			return txt
		}
		return "unrecognised"
	})
	if r.Replayed() {
		return
	}
	{
		tabs, unrec := srctab.SourceTables()
		for _, k := range []string{"payloadid", "ethertype", "ipproto", "udpports"} {
			if _, ok := tabs[k]; ok {
				r.Do("table", k)
				r.Stat("table."+k+".compared", 1)
			}
		}
		for _, k := range unrec {
			r.Stat("table."+k+".unrecognised", 1)
			r.Sample("source table " + k + ": AST shape of layer_frame.go not recognised; classification checked through generated frames only")
		}
	}
	pgen.Corpus(r)
	rng := r.Rand()
	cfgs := pgen.Cfgs()
	g := &pgen.G{R: rng, Cfg: pgen.DefaultCfg}
	pgen.Directed(g, func(c pgen.Cfg, frame, spare []byte, class string) {
		r.Do("d", append(c.Toks(), lib.Hex(frame), lib.Hex(spare))...)
		r.Stat("class."+class, 1)
	})
	pgen.Generate(g, r.Thorough(), func(frame, spare []byte, class string) {
		c := cfgs[0]
		if rng.Chance(10) {
			c = cfgs[rng.Intn(len(cfgs))]
		}
		obs := r.Do("d", append(c.Toks(), lib.Hex(frame), lib.Hex(spare))...)
		r.Stat("class."+statClass(class), 1)
		switch {
		case obs == "panic":
			r.Stat("obs.panic", 1)
		case strings.HasPrefix(obs, "err:"):
			r.Stat("obs.err", 1)
		case strings.Contains(obs, "panic"):
			r.Stat("obs.accessor-panic", 1)
		default:
			r.Stat("obs.ok.id"+strings.Fields(obs)[1], 1)
		}
	})
	// last: a failure here can leave the process-global waiter table locked
	punit.Unit(r, true)
}
