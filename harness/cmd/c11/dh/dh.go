// Package dh: shared driver of the DHCP checks C11 and C12.
//
// A case is one whole history (hist: every frame through ONE receive buffer, as a server's read loop
// delivers them; histf: a fresh buffer per frame; stale: hist on a handler that found an old lease file):
//
//	hist MODE HOSTIP HOSTMAC ROUTERIP ROUTERMAC HOMEIP HOMEBITS NFIP NFBITS DNS op op ...
//	op : D|R|X|L,chaddr,xid,ciaddr,cid,req,sid,b,src,prl[,extra]    (X decline, L release; extra = further raw client options)
//	     C,mac  U,mac  T,seconds  E,clientid,seconds
//
// The runner builds every DHCP frame with its own byte writer, feeds it to the
// real Session.Parse + Handler.ProcessPacket of a fresh session/handler, reads
// the reply (server->client frames only) from the recording connection with its
// own decoder and finally the lease table through the verif hook VerifLeases.
package dh

import (
	"bytes"
	"math"
	"encoding/hex"
	"fmt"
	"io"
	"net"
	"net/netip"
	"os"
	"path/filepath"
	"sort"
	"strconv"
	"strings"
	"sync/atomic"
	"time"

	"github.com/irai/packet"
	"github.com/irai/packet/fastlog"
	"github.com/irai/packet/handlers/dhcp4_spoofer"
	"pvharness/lib"
)

// ---------------------------------------------------------------- text helpers

func ip4(x uint32) netip.Addr {
	return netip.AddrFrom4([4]byte{byte(x >> 24), byte(x >> 16), byte(x >> 8), byte(x)})
}
func u32(a netip.Addr) uint32 {
	b := a.As4()
	return uint32(b[0])<<24 | uint32(b[1])<<16 | uint32(b[2])<<8 | uint32(b[3])
}
func hx32(x uint32) string { return fmt.Sprintf("%08x", x) }
func hxmac(m net.HardwareAddr) string { return hex.EncodeToString(m) }
func unhx(s string) []byte {
	b, err := hex.DecodeString(s)
	if err != nil {
		panic("bad hex " + s)
	}
	return b
}
func unhx32(s string) uint32 {
	b := unhx(s)
	if len(b) != 4 {
		panic("bad ip " + s)
	}
	return uint32(b[0])<<24 | uint32(b[1])<<16 | uint32(b[2])<<8 | uint32(b[3])
}

// Cfg is the configuration part of a case line.
type Cfg struct {
	Mode      int
	HostIP    uint32
	HostMAC   net.HardwareAddr
	RouterIP  uint32
	RouterMAC net.HardwareAddr
	HomeIP    uint32
	HomeBits  int
	NfIP      uint32
	NfBits    int
	DNS       uint32
	DNSForm   string // "" plain IPv4 (DNS), "z" zero value, "m" IPv4-mapped form of DNS, "v6" another IPv6 address
}

func (c Cfg) Tokens() []string {
	return []string{strconv.Itoa(c.Mode), hx32(c.HostIP), hxmac(c.HostMAC), hx32(c.RouterIP), hxmac(c.RouterMAC),
		hx32(c.HomeIP), strconv.Itoa(c.HomeBits), hx32(c.NfIP), strconv.Itoa(c.NfBits), c.dnsToken()}
}

func (c Cfg) dnsToken() string {
	switch c.DNSForm {
	case "z", "v6":
		return c.DNSForm
	case "m":
		return "m" + hx32(c.DNS)
	}
	return hx32(c.DNS)
}

// dnsAddr is Config.DNSServer in the form the case asks for.
func (c Cfg) dnsAddr() netip.Addr {
	switch c.DNSForm {
	case "z":
		return netip.Addr{}
	case "v6":
		return netip.MustParseAddr("2001:db8::1")
	case "m":
		return netip.AddrFrom16(ip4(c.DNS).As16())
	}
	return ip4(c.DNS)
}

func ParseCfg(a []string) (Cfg, []string) {
	if len(a) < 10 {
		panic("short cfg")
	}
	at := func(s string) int {
		n, err := strconv.Atoi(s)
		if err != nil {
			panic(err)
		}
		return n
	}
	return Cfg{Mode: at(a[0]), HostIP: unhx32(a[1]), HostMAC: unhx(a[2]), RouterIP: unhx32(a[3]), RouterMAC: unhx(a[4]),
		HomeIP: unhx32(a[5]), HomeBits: at(a[6]), NfIP: unhx32(a[7]), NfBits: at(a[8]), DNS: dnsOf(a[9]), DNSForm: formOf(a[9])}, a[10:]
}

func formOf(t string) string {
	switch {
	case t == "z" || t == "v6":
		return t
	case strings.HasPrefix(t, "m"):
		return "m"
	}
	return ""
}
func dnsOf(t string) uint32 {
	switch formOf(t) {
	case "z", "v6":
		return 0
	case "m":
		return unhx32(t[1:])
	}
	return unhx32(t)
}

// Msg is a decoded client message (one D/R/X/L op).
type Msg struct {
	Kind   byte // 'D','R','X','L'
	Chaddr net.HardwareAddr
	Xid    uint32
	Ciaddr uint32
	Cid    []byte // nil = option absent; empty non-nil = zero-length option
	HasCid bool
	Req    *uint32
	Sid    *uint32
	Bflag  bool
	Src    uint32
	Prl    []byte
	Extra  []byte // further client options, raw code/length/value bytes (51, 57, 12, 60, ...)
}

func optTok(p *uint32) string {
	if p == nil {
		return "~"
	}
	return hx32(*p)
}

func (m Msg) Token() string {
	cid := "~"
	if m.HasCid {
		cid = lib.Hex(m.Cid)
	}
	b := "F"
	if m.Bflag {
		b = "T"
	}
	return strings.Join([]string{string(m.Kind), hxmac(m.Chaddr), hx32(m.Xid), hx32(m.Ciaddr), cid, optTok(m.Req), optTok(m.Sid),
		b, hx32(m.Src), lib.Hex(m.Prl), lib.Hex(m.Extra)}, ",")
}

func parseMsg(f []string) Msg {
	if len(f) != 10 && len(f) != 11 {
		panic("bad op " + strings.Join(f, ","))
	}
	m := Msg{Kind: f[0][0], Chaddr: unhx(f[1]), Xid: unhx32(f[2]), Ciaddr: unhx32(f[3]), Bflag: f[7] == "T", Src: unhx32(f[8]), Prl: lib.UnHex(f[9])}
	if len(f) == 11 {
		m.Extra = lib.UnHex(f[10])
	}
	if f[4] != "~" {
		m.HasCid = true
		m.Cid = lib.UnHex(f[4])
		if m.Cid == nil {
			m.Cid = []byte{}
		}
	}
	if f[5] != "~" {
		v := unhx32(f[5])
		m.Req = &v
	}
	if f[6] != "~" {
		v := unhx32(f[6])
		m.Sid = &v
	}
	return m
}

// ---------------------------------------------------------------- independent DHCP frame writer

func be32(x uint32) []byte { return []byte{byte(x >> 24), byte(x >> 16), byte(x >> 8), byte(x)} }

// Frame builds Ethernet|IPv4|UDP 68->67|BOOTP request in a 1514-byte buffer (as a NIC read would).
func (m Msg) Frame() []byte {
	p := make([]byte, 240, 400)
	p[0], p[1], p[2] = 1, 1, 6
	copy(p[4:8], be32(m.Xid))
	if m.Bflag {
		p[10] = 0x80
	}
	copy(p[12:16], be32(m.Ciaddr))
	copy(p[28:34], m.Chaddr)
	copy(p[236:240], []byte{99, 130, 83, 99})
	var t byte
	switch m.Kind {
	case 'D':
		t = 1
	case 'R':
		t = 3
	case 'X':
		t = 4
	case 'L':
		t = 7
	}
	p = append(p, 53, 1, t)
	if m.HasCid {
		p = append(p, 61, byte(len(m.Cid)))
		p = append(p, m.Cid...)
	}
	if m.Req != nil {
		p = append(p, 50, 4)
		p = append(p, be32(*m.Req)...)
	}
	if m.Sid != nil {
		p = append(p, 54, 4)
		p = append(p, be32(*m.Sid)...)
	}
	if len(m.Prl) > 0 {
		p = append(p, 55, byte(len(m.Prl)))
		p = append(p, m.Prl...)
	}
	p = append(p, m.Extra...)
	p = append(p, 255)
	for len(p) < 300 {
		p = append(p, 0)
	}
	dst := netip.MustParseAddr("255.255.255.255")
	f := lib.MkEther(packet.EthBroadcast, m.Chaddr, 0x0800, lib.MkIP4(ip4(m.Src), dst, 17, 64, lib.MkUDP(68, 67, p)))
	buf := make([]byte, packet.EthMaxSize)
	n := copy(buf, f)
	return buf[:n]
}

// ---------------------------------------------------------------- independent reply decoder

type Reply struct {
	Type           byte
	Yi, Xid        uint32
	Chaddr, DstMAC net.HardwareAddr
	DstIP          uint32
	Opts           [][2]interface{} // (code byte, value []byte) in wire order
	Hdr            string           // fixed BOOTP header fields, see showHdr
}

func decodeReply(f []byte) (r Reply, ok bool) {
	if len(f) < 14+20+8+240 || f[12] != 0x08 || f[13] != 0x00 || f[14]&0x0f != 5 || f[14+9] != 17 {
		return r, false
	}
	udp := f[34:]
	if int(udp[0])<<8|int(udp[1]) != 67 || int(udp[2])<<8|int(udp[3]) != 68 {
		return r, false
	}
	p := udp[8:]
	r.DstMAC = append(net.HardwareAddr{}, f[0:6]...)
	r.DstIP = uint32(f[30])<<24 | uint32(f[31])<<16 | uint32(f[32])<<8 | uint32(f[33])
	r.Xid = uint32(p[4])<<24 | uint32(p[5])<<16 | uint32(p[6])<<8 | uint32(p[7])
	r.Yi = uint32(p[16])<<24 | uint32(p[17])<<16 | uint32(p[18])<<8 | uint32(p[19])
	r.Chaddr = append(net.HardwareAddr{}, p[28:34]...)
	zero := "T"
	for _, b := range p[34:236] { // chaddr padding, sname, file
		if b != 0 {
			zero = "F"
		}
	}
	r.Hdr = fmt.Sprintf(";h=%02x%02x%02x%02x,%02x%02x,%02x%02x,%s,%s,%s,%s,%s", p[0], p[1], p[2], p[3], p[8], p[9], p[10], p[11],
		hex.EncodeToString(p[12:16]), hex.EncodeToString(p[20:24]), hex.EncodeToString(p[24:28]), zero, hex.EncodeToString(p[236:240]))
	o := p[240:]
	for len(o) >= 1 && o[0] != 255 {
		if o[0] == 0 {
			o = o[1:]
			continue
		}
		if len(o) < 2 || len(o) < 2+int(o[1]) {
			break
		}
		v := append([]byte{}, o[2:2+int(o[1])]...)
		if o[0] == 53 && len(v) == 1 {
			r.Type = v[0]
		}
		r.Opts = append(r.Opts, [2]interface{}{o[0], v})
		o = o[2+int(o[1]):]
	}
	return r, true
}

func constrained(code byte) bool {
	return code == 1 || code == 3 || code == 6 || code == 51 || code == 53 || code == 54
}

// showReply prints the summary the model prints: for OFFER/ACK the constrained options, those the
// server places in request order (parameter list ++ 1,33,3) as found on the wire, the map-ordered
// remainder sorted by code.
func showReply(r Reply, prl []byte) string {
	tail := fmt.Sprintf("%08x,%s,%s,%08x", r.Xid, hxmac(r.Chaddr), hxmac(r.DstMAC), r.DstIP)
	var t string
	switch r.Type {
	case 6:
		return "N," + tail
	case 2:
		t = "O"
	case 5:
		t = "A"
	default:
		return fmt.Sprintf("type%d,%s", r.Type, tail)
	}
	ordered := map[byte]bool{1: true, 33: true, 3: true}
	for _, c := range prl {
		ordered[c] = true
	}
	var a, b []string
	type kv struct {
		k byte
		s string
	}
	var rest []kv
	for _, o := range r.Opts {
		code := o[0].(byte)
		if !constrained(code) {
			continue
		}
		s := fmt.Sprintf("%d=%s", code, lib.Hex(o[1].([]byte)))
		if ordered[code] {
			a = append(a, s)
		} else {
			rest = append(rest, kv{code, s})
		}
	}
	sort.SliceStable(rest, func(i, j int) bool { return rest[i].k < rest[j].k })
	for _, x := range rest {
		b = append(b, x.s)
	}
	return fmt.Sprintf("%s,%08x,%s,%s", t, r.Yi, tail, strings.Join(append(a, b...), "."))
}

func showAddr(a netip.Addr) string {
	if !a.IsValid() {
		return "-"
	}
	if !a.Is4() {
		return "v6"
	}
	return hx32(u32(a))
}

func showTable(ls []dhcp4_spoofer.VerifLease) string {
	sort.Slice(ls, func(i, j int) bool {
		a, b := ls[i].ClientID, ls[j].ClientID
		if len(a) != len(b) {
			return len(a) < len(b)
		}
		return bytes.Compare(a, b) < 0
	})
	var out []string
	for _, l := range ls {
		st := "F"
		switch l.State {
		case dhcp4_spoofer.StateDiscover:
			st = "D"
		case dhcp4_spoofer.StateAllocated:
			st = "A"
		}
		xid := "-"
		if len(l.XID) > 0 {
			xid = hex.EncodeToString(l.XID)
		}
		out = append(out, strings.Join([]string{lib.Hex(l.ClientID), st, hxmac(l.Addr.MAC), showAddr(l.Addr.IP), showAddr(l.IPOffer), xid, l.SubnetID}, "/"))
	}
	return strings.Join(out, ";")
}

// ---------------------------------------------------------------- live server

var counter int64

// Server is one fresh session + handler.
type Server struct {
	S    *packet.Session
	H    *dhcp4_spoofer.Handler
	Conn *lib.RecConn
	file string
	// Shared, when non-nil, is THE receive buffer of this server: every frame of the history is copied
	// into it at offset 0 and parsed as Shared[:n], as a read loop does (examples/dhcpd). It is never
	// cleared between frames, so anything the library retained as a sub-slice of an earlier frame now
	// shows the bytes of the current one.
	Shared []byte
}

func init() {
	fastlog.DefaultIOWriter = io.Discard
}

func NewServer(c Cfg) *Server { return NewServerFile(c, "") }

// NewServerFile builds the session and handler on the given lease file ("" = a fresh temporary one);
// the MACs in pre are captured in the session BEFORE the handler is constructed (they are captured at load time).
func NewServerFile(c Cfg, file string, pre ...net.HardwareAddr) *Server {
	nic := &packet.NICInfo{
		HomeLAN4:    netip.PrefixFrom(ip4(c.HomeIP), c.HomeBits),
		HostAddr4:   packet.Addr{MAC: c.HostMAC, IP: ip4(c.HostIP)},
		RouterAddr4: packet.Addr{MAC: c.RouterMAC, IP: ip4(c.RouterIP)},
		HostLLA:     netip.PrefixFrom(lib.HostLLA, 64),
		RouterLLA:   netip.PrefixFrom(lib.RouterLLA, 64),
	}
	s, conn := lib.NewSessionWith(nic)
	for _, m := range pre {
		s.Capture(m)
	}
	dir := os.Getenv("VERIF_SCRATCH")
	if dir == "" {
		dir = os.TempDir()
	}
	if file == "" {
		file = filepath.Join(dir, fmt.Sprintf("dhcp-%d-%d.yaml", os.Getpid(), atomic.AddInt64(&counter, 1)))
	}
	h, err := dhcp4_spoofer.Config{Mode: dhcp4_spoofer.Mode(c.Mode), NetfilterIP: netip.PrefixFrom(ip4(c.NfIP), c.NfBits),
		DNSServer: c.dnsAddr(), LeaseFilename: file}.New(s)
	if err != nil {
		go s.Close()
		return nil // (Config).New rejects this configuration
	}
	return &Server{S: s, H: h, Conn: conn, file: file}
}

func (sv *Server) Close() {
	sv.H.Close()
	os.Remove(sv.file)
	go sv.S.Close() // sleeps 1 s
}

// Step runs one op token on the real code; returns the reply summary ("-" = silence) and the decoded reply.
func (sv *Server) Step(tok string) (string, *Reply) {
	f := strings.Split(tok, ",")
	switch f[0] {
	case "C":
		sv.S.Capture(net.HardwareAddr(unhx(f[1])))
		return "-", nil
	case "U":
		sv.S.Release(net.HardwareAddr(unhx(f[1])))
		return "-", nil
	case "E":
		n, err := strconv.ParseInt(f[2], 10, 64)
		if err != nil {
			panic(err)
		}
		sv.H.VerifSetLeaseExpiry(lib.UnHex(f[1]), time.Now().Add(time.Duration(n)*time.Second))
		return "-", nil
	case "T":
		n, err := strconv.ParseInt(f[1], 10, 64)
		if err != nil {
			panic(err)
		}
		sv.H.MinuteTicker(time.Now().Add(time.Duration(n) * time.Second))
		return "-", nil
	}
	m := parseMsg(f)
	sv.Conn.Take()
	pkt := m.Frame() // a fresh 1514-byte buffer
	if sv.Shared != nil {
		pkt = sv.Shared[:copy(sv.Shared, pkt)]
	}
	frame, err := sv.S.Parse(pkt)
	if err != nil {
		return "parse-error", nil
	}
	sv.H.ProcessPacket(frame)
	var rs []Reply
	for _, fr := range sv.Conn.Take() {
		if r, ok := decodeReply(fr); ok {
			rs = append(rs, r)
		}
	}
	switch len(rs) {
	case 0:
		return "-", nil
	case 1:
		out := showReply(rs[0], m.Prl)
		if rs[0].Type == 5 { // what the server RECORDS for the binding it just acknowledged: expiry - now, to the minute
			key := []byte(m.Chaddr)
			if m.HasCid && len(m.Cid) > 0 {
				key = m.Cid
			}
			rec := "-"
			for _, l := range sv.H.VerifLeases() {
				if bytes.Equal(l.ClientID, key) {
					d := time.Until(l.DHCPExpiry).Seconds()
					rec = strconv.FormatInt(int64(math.Floor((d+30)/60))*60, 10)
				}
			}
			out += ",rec" + rec
		}
		return out + rs[0].Hdr, &rs[0]
	}
	return fmt.Sprintf("multi%d", len(rs)), nil
}

func (sv *Server) Table() string {
	return "m" + strconv.Itoa(int(sv.H.Mode())) + ";" + showTable(sv.H.VerifLeases())
}

// RunHist is the implementation runner of a "hist" case: all frames through one shared receive buffer.
func RunHist(a []string) string { return runHist(a, true) }

// RunHistFresh is the runner of a "histf" case: the same, every frame in a buffer of its own.
func RunHistFresh(a []string) string { return runHist(a, false) }

func runHist(a []string, shared bool) string {
	c, ops := ParseCfg(a)
	sv := NewServer(c)
	if sv == nil {
		return "rejected"
	}
	if shared {
		sv.Shared = make([]byte, packet.EthMaxSize)
	}
	defer sv.Close()
	out := make([]string, 0, len(ops))
	for _, o := range ops {
		s, _ := sv.Step(o)
		out = append(out, s)
	}
	return strings.Join(out, " ") + " | " + sv.Table()
}

// CloseKeep ends the server but leaves its lease file in place; returns the file name.
func (sv *Server) CloseKeep() string {
	sv.H.Close()
	go sv.S.Close()
	return sv.file
}

// SplitBar splits the ops of a restart case at the "|" token.
func SplitBar(a []string) (before, after []string) {
	for i, x := range a {
		if x == "|" {
			return a[:i], a[i+1:]
		}
	}
	return a, nil
}

// RunRestart is the runner of a "restart" case: CFG_A CFG_B opsA | opsB.  A handler of configuration A
// runs opsA and is closed; a handler of configuration B is constructed on the lease file it left and
// runs opsB.  Observation: transcript and lease table of the second run.
func RunRestart(a []string) string {
	cA, rest := ParseCfg(a)
	cB, rest := ParseCfg(rest)
	opsA, opsB := SplitBar(rest)
	svA := NewServer(cA)
	if svA == nil {
		return "rejected"
	}
	svA.Shared = make([]byte, packet.EthMaxSize)
	for _, o := range opsA {
		svA.Step(o)
	}
	file := svA.CloseKeep()
	var pre []net.HardwareAddr
	for len(opsB) > 0 && strings.HasPrefix(opsB[0], "P,") { // captured before the handler is constructed
		pre = append(pre, net.HardwareAddr(unhx(opsB[0][2:])))
		opsB = opsB[1:]
	}
	sv := NewServerFile(cB, file, pre...)
	if sv == nil {
		os.Remove(file)
		return "rejected"
	}
	sv.Shared = make([]byte, packet.EthMaxSize)
	defer sv.Close()
	out := make([]string, 0, len(opsB))
	for _, o := range opsB {
		s, _ := sv.Step(o)
		out = append(out, s)
	}
	return strings.Join(out, " ") + " | " + sv.Table()
}
