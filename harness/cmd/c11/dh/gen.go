package dh

import (
	"net"
	"os"
	"path/filepath"
	"sort"
	"strconv"
	"strings"

	"pvharness/lib"
)

// Standard configurations: deliberately small pools so that exhaustion and wrap-around are reached.
func StdCfg(i, mode int) Cfg {
	host := net.HardwareAddr{0x00, 0x55, 0x55, 0x55, 0x55, 0x55}
	router := net.HardwareAddr{0x00, 0x66, 0x66, 0x66, 0x66, 0x66}
	switch i % 4 {
	case 3: // netfilter prefix = home LAN, as dhcp4_spoofer.New configures it
		return Cfg{Mode: mode, HostIP: 0xc0a80009, HostMAC: host, RouterIP: 0xc0a80001, RouterMAC: router,
			HomeIP: 0xc0a80000, HomeBits: 28, NfIP: 0xc0a80009, NfBits: 28, DNS: 0x08080404}
	case 0: // home /28 (pool of 12), netfilter /29 (pool of 5)
		return Cfg{Mode: mode, HostIP: 0xc0a80009, HostMAC: host, RouterIP: 0xc0a80001, RouterMAC: router,
			HomeIP: 0xc0a80000, HomeBits: 28, NfIP: 0xc0a80009, NfBits: 29, DNS: 0x08080404}
	case 1: // home /29 (pool of 4), netfilter /30 (pool of 1)
		return Cfg{Mode: mode, HostIP: 0x0a000006, HostMAC: host, RouterIP: 0x0a000001, RouterMAC: router,
			HomeIP: 0x0a000000, HomeBits: 29, NfIP: 0x0a000006, NfBits: 30, DNS: 0x0a000001}
	default: // home /24, netfilter /28 (pool of 13)
		return Cfg{Mode: mode, HostIP: 0xc0a80081, HostMAC: host, RouterIP: 0xc0a8000b, RouterMAC: router,
			HomeIP: 0xc0a80000, HomeBits: 24, NfIP: 0xc0a80081, NfBits: 28, DNS: 0xc0a8000b}
	}
}

func (c Cfg) lan(net2 bool) (first, last uint32) {
	ipx, bits := c.HomeIP, c.HomeBits
	if net2 {
		ipx, bits = c.NfIP, c.NfBits
	}
	size := uint32(1) << (32 - uint(bits))
	base := ipx / size * size
	return base, base + size - 1
}

// Gen generates one history against a live server so that REQUESTs can echo what was really offered.
type Gen struct {
	R     *lib.Rand
	C     Cfg
	Level int // 1: fresh clients, plain DISCOVER + matching REQUEST; 2: everything
	sv    *Server
	macs  []net.HardwareAddr
	offer [3]uint32 // last OFFER seen per client
	ack   [3]uint32 // last ACK seen per client
	xid   [3]uint32
	cidv  [3]int
	alpha []uint32
}

func NewGen(r *lib.Rand, c Cfg, level int) *Gen {
	g := &Gen{R: r, C: c, Level: level}
	for i := 1; i <= 3; i++ {
		g.macs = append(g.macs, net.HardwareAddr{0x02, 0, 0, 0, 0, byte(i)})
	}
	n1, b1 := c.lan(false)
	n2, b2 := c.lan(true)
	if b1-n1 < 16 {
		for x := n1; x <= b1; x++ {
			g.alpha = append(g.alpha, x)
		}
	} else {
		g.alpha = append(g.alpha, n1, n1+1, n1+2, n1+3, n1+4, b1-1, b1, n2, n2+1, n2+2, n2+3, n2+4, b2-1, b2)
	}
	g.alpha = append(g.alpha, c.HostIP, c.RouterIP, 0, 0x08080808, 0xffffffff, b1+1, n1-1)
	return g
}

func (g *Gen) anyIP() uint32 {
	if g.R.Chance(35) {
		// somebody's offer or lease
		i := g.R.Intn(3)
		if g.R.Bool() && g.offer[i] != 0 {
			return g.offer[i]
		}
		if g.ack[i] != 0 {
			return g.ack[i]
		}
	}
	return g.alpha[g.R.Intn(len(g.alpha))]
}

var xids = []uint32{0x11111111, 0x22222222, 0x33333333}
var prls = [][]byte{nil, {1, 3, 6}, {1, 3, 6}, {3, 6, 1}, {1, 121, 3, 6, 15, 119, 252}, {1, 33, 3, 6, 15, 26, 28, 51, 58, 59}, {53, 54, 51, 6}, {6, 1}}

func (g *Gen) cid(i int, v int) (bool, []byte) {
	switch v {
	case 0:
		return false, nil
	case 1:
		return true, append([]byte{1}, g.macs[i]...)
	case 2:
		return true, []byte{0xaa} // shared by all clients
	default:
		return true, []byte{}
	}
}

func p32(x uint32) *uint32 { return &x }

func (g *Gen) msg(kind byte, i int) Msg {
	m := Msg{Kind: kind, Chaddr: g.macs[i], Xid: g.xid[i]}
	m.HasCid, m.Cid = g.cid(i, g.cidv[i])
	return m
}

func (g *Gen) next() string {
	r := g.R
	i := r.Intn(3)
	if g.Level == 1 {
		if r.Chance(45) || g.offer[i] == 0 {
			g.xid[i] = xids[r.Intn(len(xids))]
			m := g.msg('D', i)
			m.Prl = prls[r.Intn(3)]
			m.Bflag = r.Bool()
			return m.Token()
		}
		m := g.msg('R', i)
		if r.Chance(70) || g.ack[i] == 0 {
			m.Req, m.Sid = p32(g.offer[i]), p32(g.C.HostIP)
		} else {
			m.Ciaddr, m.Src = g.ack[i], g.ack[i]
		}
		return m.Token()
	}
	k := r.Intn(100)
	switch {
	case k < 30: // DISCOVER
		if r.Chance(60) {
			g.xid[i] = xids[r.Intn(len(xids))]
		}
		if r.Chance(15) {
			g.cidv[i] = r.Pick(0, 0, 1, 1, 2, 3)
		}
		m := g.msg('D', i)
		if r.Chance(45) {
			m.Req = p32(g.anyIP())
		}
		m.Prl = prls[r.Intn(len(prls))]
		m.Bflag = r.Chance(30)
		if r.Chance(10) {
			m.Src = g.anyIP()
		}
		if r.Chance(5) {
			m.Sid = p32(g.C.HostIP)
		}
		return m.Token()
	case k < 72: // REQUEST
		m := g.msg('R', i)
		m.Prl = prls[r.Intn(len(prls))]
		m.Bflag = r.Chance(20)
		switch q := r.Intn(100); {
		case q < 45: // SELECT of our offer
			m.Req, m.Sid = p32(g.offer[i]), p32(g.C.HostIP)
			if g.offer[i] == 0 {
				m.Req = p32(g.anyIP())
			}
		case q < 55: // SELECT of another server
			m.Req, m.Sid = p32(g.anyIP()), p32(g.C.RouterIP)
		case q < 68: // RENEW
			m.Ciaddr = g.ack[i]
			if m.Ciaddr == 0 || r.Chance(20) {
				m.Ciaddr = g.anyIP()
			}
			m.Src = m.Ciaddr
		case q < 74: // REBIND (IP source is the limited broadcast in the code's reading)
			m.Ciaddr = g.ack[i]
			if m.Ciaddr == 0 || r.Chance(20) {
				m.Ciaddr = g.anyIP()
			}
			m.Src = 0xffffffff
		case q < 88: // INIT-REBOOT
			m.Req = p32(g.ack[i])
			if g.ack[i] == 0 || r.Chance(30) {
				m.Req = p32(g.anyIP())
			}
		default: // arbitrary fields
			m.Xid = xids[r.Intn(len(xids))]
			if r.Bool() {
				m.Req = p32(g.anyIP())
			}
			if r.Bool() {
				m.Sid = p32(uint32(r.Pick(int(g.C.HostIP), int(g.C.RouterIP), 0, int(g.C.NfIP))))
			}
			if r.Bool() {
				m.Ciaddr = g.anyIP()
			}
			if r.Bool() {
				m.Src = g.anyIP()
			}
			if r.Chance(20) {
				m.Chaddr = g.macs[r.Intn(3)] // somebody else's hardware address under this client id
			}
		}
		return m.Token()
	case k < 79: // DECLINE
		m := g.msg('X', i)
		m.Req = p32(g.ack[i])
		if r.Chance(40) {
			m.Req = p32(g.anyIP())
		}
		if r.Chance(10) {
			m.Req = nil
		}
		switch r.Intn(6) {
		case 0:
			m.Sid = p32(g.C.RouterIP)
		case 1:
			m.Sid = nil
		default:
			m.Sid = p32(g.C.HostIP)
		}
		return m.Token()
	case k < 83: // RELEASE
		m := g.msg('L', i)
		m.Ciaddr = g.ack[i]
		m.Src = g.ack[i]
		if r.Chance(30) {
			m.Ciaddr = g.anyIP()
		}
		if r.Chance(70) {
			m.Sid = p32(g.C.HostIP)
		}
		return m.Token()
	case k < 89:
		return "C," + hxmac(g.macs[i])
	case k < 93:
		return "U," + hxmac(g.macs[i])
	default: // MinuteTicker: well before / after the 4 h lease end (the real clock moves < 1 min per history)
		return "T," + strconv.Itoa(r.Pick(0, 3600, 13800, 15000, 15000, 30000))
	}
}

// History returns the op tokens of one history of the given depth.
func (g *Gen) History(depth int) []string {
	g.sv = NewServer(g.C)
	defer g.sv.Close()
	var ops []string
	for n := 0; n < depth; n++ {
		tok := g.next()
		ops = append(ops, tok)
		_, rp := g.sv.Step(tok)
		if rp != nil {
			for i, m := range g.macs {
				if string(m) == string(rp.Chaddr) {
					switch rp.Type {
					case 2:
						g.offer[i] = rp.Yi
					case 5:
						g.ack[i] = rp.Yi
					}
				}
			}
		}
	}
	return ops
}

// Generate produces the histories of a run: nCfg configurations x modes, generated (live) and then
// replayed on a fresh server by the registered runner, in parallel workers.
func Generate(r *lib.Run, level int, modes []int, nCfg int) {
	rng := r.Rand()
	n := 1500
	if r.Thorough() {
		n = 20000
	}
	type job struct {
		seed  uint64
		cfg   Cfg
		depth int
	}
	jobs := make(chan job, 64)
	done := make(chan bool)
	workers := 12
	for w := 0; w < workers; w++ {
		go func() {
			for j := range jobs {
				g := NewGen(lib.NewRand(j.seed), j.cfg, level)
				ops := g.History(j.depth)
				args := append(j.cfg.Tokens(), ops...)
				obs := r.Do("hist", args...)
				steps := strings.Fields(strings.SplitN(obs, " | ", 2)[0])
				for i, o := range ops {
					if i < len(steps) && (o[0] == 'D' || o[0] == 'R') {
						r.Stat("class.reply."+o[:1]+"."+steps[i][:1], 1) // D.O offer, D.- exhausted; R.A ack, R.N nak, R.- silence
					}
				}
				r.Stat("class.depth."+bucket(j.depth), 1)
				for _, o := range ops {
					r.Stat("class.op."+o[:1], 1)
				}
			}
			done <- true
		}()
	}
	for i := 0; i < n; i++ {
		depth := 3 + rng.Intn(6) // short ones fit the kernel-replay sample
		if i%3 != 0 {
			depth = 20 + rng.Intn(40)
		}
		jobs <- job{seed: rng.U64(), cfg: StdCfg(rng.Intn(nCfg), modes[rng.Intn(len(modes))]), depth: depth}
	}
	close(jobs)
	for w := 0; w < workers; w++ {
		<-done
	}
}

func bucket(d int) string {
	switch {
	case d < 10:
		return "lt10"
	case d < 30:
		return "lt30"
	default:
		return "ge30"
	}
}

// Corpus runs the recorded witness histories ($VERIF_CORPUS/*.txt, lines "hist ...") first.
func Corpus(r *lib.Run) {
	dir := os.Getenv("VERIF_CORPUS")
	if dir == "" {
		return
	}
	files, _ := filepath.Glob(filepath.Join(dir, "*.txt"))
	sort.Strings(files)
	for _, fn := range files {
		b, err := os.ReadFile(fn)
		if err != nil {
			continue
		}
		for _, l := range strings.Split(string(b), "\n") {
			f := strings.Fields(l)
			if len(f) > 11 && f[0] == "hist" {
				r.Do("hist", f[1:]...)
				r.Stat("class.corpus", 1)
			}
		}
	}
}

// Exhaustive enumerates every history up to the given depth over a small alphabet of ops in the
// /29+/30 configuration (pool 10.0.0.2-.5; first offers are .2 then .3), two clients: the
// interleavings between OFFER and REQUEST, requests for the other client's address, capture,
// expiry and decline.  Thorough tier only (validates the model; the theorems cover every depth).
func Exhaustive(r *lib.Run, mode int, depth int, nTokens int) {
	c := StdCfg(1, mode)
	m1, m2 := net.HardwareAddr{2, 0, 0, 0, 0, 1}, net.HardwareAddr{2, 0, 0, 0, 0, 2}
	a2, a3 := uint32(0x0a000002), uint32(0x0a000003)
	toks := []string{
		Msg{Kind: 'D', Chaddr: m1, Xid: 0x11111111}.Token(),
		Msg{Kind: 'D', Chaddr: m2, Xid: 0x22222222, Req: &a2}.Token(),
		Msg{Kind: 'R', Chaddr: m1, Xid: 0x11111111, Req: &a2, Sid: &c.HostIP}.Token(),
		Msg{Kind: 'R', Chaddr: m2, Xid: 0x22222222, Req: &a2, Sid: &c.HostIP}.Token(),
		"T,15000",
		"C," + hxmac(m1),
		Msg{Kind: 'R', Chaddr: m1, Xid: 0x11111111, Ciaddr: a2}.Token(),
		Msg{Kind: 'D', Chaddr: m2, Xid: 0x22222222}.Token(),
		Msg{Kind: 'R', Chaddr: m2, Xid: 0x22222222, Req: &a3, Sid: &c.HostIP}.Token(),
		Msg{Kind: 'X', Chaddr: m1, Xid: 0x11111111, Req: &a2, Sid: &c.HostIP}.Token(),
	}
	if nTokens < len(toks) {
		toks = toks[:nTokens]
	}
	jobs := make(chan []string, 64)
	done := make(chan bool)
	workers := 12
	for w := 0; w < workers; w++ {
		go func() {
			for ops := range jobs {
				r.Do("hist", append(c.Tokens(), ops...)...)
				r.Stat("class.exhaustive", 1)
			}
			done <- true
		}()
	}
	var rec func(prefix []string, d int)
	rec = func(prefix []string, d int) {
		if len(prefix) > 0 {
			jobs <- append([]string{}, prefix...)
		}
		if d == 0 {
			return
		}
		for _, t := range toks {
			rec(append(prefix, t), d-1)
		}
	}
	rec(nil, depth)
	close(jobs)
	for w := 0; w < workers; w++ {
		<-done
	}
}
