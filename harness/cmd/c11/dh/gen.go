package dh

import (
	"net"
	"os"
	"path/filepath"
	"sort"
	"strconv"
	"strings"

	"pvharness/lib"
)

// NCfg is the number of standard configurations.
const NCfg = 6

// Standard configurations: deliberately small pools so that exhaustion and wrap-around are reached;
// the netfilter subnet in the upper part of the home LAN, in its LOWEST sub-block (same network
// address, longer prefix) and equal to it.
func StdCfg(i, mode int) Cfg {
	host := net.HardwareAddr{0x00, 0x55, 0x55, 0x55, 0x55, 0x55}
	router := net.HardwareAddr{0x00, 0x66, 0x66, 0x66, 0x66, 0x66}
	switch i % NCfg {
	case 5: // home /24, netfilter /25 in the lowest half (192.168.0.10/25 inside 192.168.0.0/24)
		return Cfg{Mode: mode, HostIP: 0xc0a8000a, HostMAC: host, RouterIP: 0xc0a8000b, RouterMAC: router,
			HomeIP: 0xc0a80000, HomeBits: 24, NfIP: 0xc0a8000a, NfBits: 25, DNS: 0x08080808}
	case 4: // home /28 (pool .3-.14), netfilter /29 in the lowest sub-block (pool .3-.6): same network address
		return Cfg{Mode: mode, HostIP: 0x0a000002, HostMAC: host, RouterIP: 0x0a000001, RouterMAC: router,
			HomeIP: 0x0a000000, HomeBits: 28, NfIP: 0x0a000002, NfBits: 29, DNS: 0x0a000001}
	case 3: // netfilter prefix = home LAN, as dhcp4_spoofer.New configures it
		return Cfg{Mode: mode, HostIP: 0xc0a80009, HostMAC: host, RouterIP: 0xc0a80001, RouterMAC: router,
			HomeIP: 0xc0a80000, HomeBits: 28, NfIP: 0xc0a80009, NfBits: 28, DNS: 0x08080404}
	case 0: // home /28 (pool of 12), netfilter /29 in the upper half (pool of 5)
		return Cfg{Mode: mode, HostIP: 0xc0a80009, HostMAC: host, RouterIP: 0xc0a80001, RouterMAC: router,
			HomeIP: 0xc0a80000, HomeBits: 28, NfIP: 0xc0a80009, NfBits: 29, DNS: 0x08080404}
	case 1: // home /29 (pool of 4), netfilter /30 (pool of 1)
		return Cfg{Mode: mode, HostIP: 0x0a000006, HostMAC: host, RouterIP: 0x0a000001, RouterMAC: router,
			HomeIP: 0x0a000000, HomeBits: 29, NfIP: 0x0a000006, NfBits: 30, DNS: 0x0a000001}
	default: // home /24, netfilter /28 (pool of 13)
		return Cfg{Mode: mode, HostIP: 0xc0a80081, HostMAC: host, RouterIP: 0xc0a8000b, RouterMAC: router,
			HomeIP: 0xc0a80000, HomeBits: 24, NfIP: 0xc0a80081, NfBits: 28, DNS: 0xc0a8000b}
	}
}

func (c Cfg) lan(net2 bool) (first, last uint32) {
	ipx, bits := c.HomeIP, c.HomeBits
	if net2 {
		ipx, bits = c.NfIP, c.NfBits
	}
	size := uint32(1) << (32 - uint(bits))
	base := ipx / size * size
	return base, base + size - 1
}

// ident is one DHCP client as the server sees it: a hardware address and a client identifier
// (option 61; absent = chaddr).  Several identifiers share one MAC, one identifier is used from two MACs.
type ident struct {
	mac    int
	hasCid bool
	cid    []byte
	offer  uint32 // last OFFER this identity received
	ack    uint32 // last ACK
	xid    uint32
	prevOffer, prevAck, prevXid []uint32 // what the server may still remember for this client
}

// Gen generates one history against a live server so that REQUESTs can echo what was really offered.
type Gen struct {
	R     *lib.Rand
	C     Cfg
	Level int // 1: fresh clients, plain DISCOVER + matching REQUEST; 2: everything
	sv    *Server
	macs  []net.HardwareAddr
	ids   []*ident
	cur   *ident          // identity of the op just generated (nil for C/U/T/E)
	queue []func() string // scripted continuation (capture toggle, contention for one offer)
	alpha []uint32
	Fresh bool   // histf: a fresh buffer per frame (default: one shared receive buffer)
}

func NewGen(r *lib.Rand, c Cfg, level int) *Gen {
	g := &Gen{R: r, C: c, Level: level}
	for i := 1; i <= 3; i++ {
		g.macs = append(g.macs, net.HardwareAddr{0x02, 0, 0, 0, 0, byte(i)})
	}
	g.ids = []*ident{
		{mac: 0}, {mac: 0, hasCid: true, cid: append([]byte{1}, g.macs[0]...)}, {mac: 0, hasCid: true, cid: []byte{0xb2}},
		{mac: 1}, {mac: 1, hasCid: true, cid: []byte{0xaa}}, {mac: 1, hasCid: true, cid: []byte{}},
		{mac: 2}, {mac: 2, hasCid: true, cid: []byte{0xaa}}, // the identifier aa is used from two MACs
	}
	if level == 1 {
		g.ids = []*ident{g.ids[0], g.ids[3], g.ids[6]}
	}
	for _, id := range g.ids {
		id.xid = xids[0]
	}
	n1, b1 := c.lan(false)
	n2, b2 := c.lan(true)
	if b1-n1 < 16 {
		for x := n1; x <= b1; x++ {
			g.alpha = append(g.alpha, x)
		}
	} else {
		g.alpha = append(g.alpha, n1, n1+1, n1+2, n1+3, n1+4, b1-1, b1, n2, n2+1, n2+2, n2+3, n2+4, b2-1, b2, b2+1, b2+2, c.HostIP+1, c.HostIP+2)
	}
	g.alpha = append(g.alpha, c.HostIP, c.RouterIP, 0, 0x08080808, 0xffffffff, b1+1, n1-1)
	return g
}

func (g *Gen) anyIP() uint32 {
	if g.R.Chance(35) {
		// somebody's offer or lease
		id := g.ids[g.R.Intn(len(g.ids))]
		if g.R.Bool() && id.offer != 0 {
			return id.offer
		}
		if id.ack != 0 {
			return id.ack
		}
	}
	return g.alpha[g.R.Intn(len(g.alpha))]
}

var xids = []uint32{0x11111111, 0x22222222, 0x33333333}
// parameter request lists (option 55) of real clients and shapes around the mask/router rule
var prls = [][]byte{nil, {1, 3, 6}, {3, 6, 1}, {1, 121, 3, 6, 15, 119, 252}, {1, 33, 3, 6, 15, 26, 28, 51, 58, 59}, {53, 54, 51, 6}, {6, 1},
	{1}, {3}, {3, 6, 15}, {6, 121, 3}, {1, 6}, {3, 3, 1}, {1, 1, 3}, {33, 3}, {3, 33}, {6, 51, 54, 53}, {200, 3, 201}, {255, 3, 0, 1}}

// prlCodes: the alphabet of random lists: mask, router, static route, the other constrained codes, codes the
// server has no value for, pad and end
var prlCodes = []byte{1, 3, 3, 1, 6, 33, 51, 53, 54, 121, 31, 15, 119, 252, 200, 0, 255}

// anyPRL: half the time a fixed shape, else a random list (length 0-12, duplicates allowed; sometimes long)
func (g *Gen) anyPRL() []byte {
	r := g.R
	if r.Bool() {
		return prls[r.Intn(len(prls))]
	}
	n := r.Intn(13)
	if r.Chance(5) {
		n = 40 + r.Intn(60)
	}
	l := make([]byte, n)
	for i := range l {
		l[i] = prlCodes[r.Intn(len(prlCodes))]
		if r.Chance(5) {
			l[i] = r.Byte()
		}
	}
	return l
}

// anyExtra: client-supplied options a server might honour: requested lease time (51: 0, 1 s, 60 s, the
// subnet's, longer, 0xffffffff), maximum message size (57), host name (12: empty, short, 255 bytes),
// vendor class (60); usually none.
func (g *Gen) anyExtra() []byte {
	r := g.R
	var e []byte
	if r.Chance(35) {
		v := uint32(r.Pick(0, 1, 60, 14400, 86400, 0xffffffff))
		e = append(e, 51, 4, byte(v>>24), byte(v>>16), byte(v>>8), byte(v))
	}
	if r.Chance(12) {
		v := r.Pick(0, 300, 576, 1500)
		e = append(e, 57, 2, byte(v>>8), byte(v))
	}
	if r.Chance(12) {
		n := r.Pick(0, 4, 255)
		e = append(e, 12, byte(n))
		for i := 0; i < n; i++ {
			e = append(e, 'a'+byte(i%26))
		}
	}
	if r.Chance(8) {
		e = append(append(e, 60, 8), "MSFT 5.0"...)
	}
	return e
}

func p32(x uint32) *uint32 { return &x }

func (g *Gen) msg(kind byte, id *ident) Msg {
	g.cur = id
	m := Msg{Kind: kind, Chaddr: g.macs[id.mac], Xid: id.xid, HasCid: id.hasCid, Cid: id.cid}
	if g.Level > 1 && (kind == 'D' || kind == 'R') {
		m.Extra = g.anyExtra()
	}
	return m
}

func (g *Gen) discover(id *ident, newXid bool, req *uint32) string {
	if newXid {
		id.prevXid = append(id.prevXid, id.xid)
		id.xid = xids[g.R.Intn(len(xids))]
	}
	m := g.msg('D', id)
	m.Req = req
	m.Prl = g.anyPRL()
	return m.Token()
}

// selectOffer: the SELECTING REQUEST for the identity's last offer; with deviate, one field differs from
// the DISCOVER's transaction while the frame layout stays the same (same options, same lengths, so every
// field lands on the offsets the previous frame used in a shared receive buffer).
func (g *Gen) selectOffer(id *ident) string { return g.selectOfferDev(id, g.R.Chance(25)) }

func (g *Gen) selectOfferDev(id *ident, deviate bool) string {
	m := g.msg('R', id)
	m.Req, m.Sid = p32(id.offer), p32(g.C.HostIP)
	if id.offer == 0 {
		m.Req = p32(g.anyIP())
	}
	m.Prl = g.anyPRL()
	if deviate {
		switch g.R.Intn(5) {
		case 0, 1: // a transaction id we never made an offer under
			m.Xid = id.xid ^ 0x01010101
			if g.R.Bool() {
				m.Xid = xids[g.R.Intn(len(xids))]
			}
		case 2: // another hardware address under the same client id
			m.Chaddr = g.macs[(id.mac+1+g.R.Intn(2))%3]
		case 3: // another requested address
			m.Req = p32(g.anyIP())
		default: // a client id of the same length that is not ours
			if id.hasCid && len(id.cid) > 0 {
				m.Cid = append([]byte{}, id.cid...)
				m.Cid[len(m.Cid)-1] ^= 0x10
			} else {
				m.Sid = p32(g.C.RouterIP)
			}
		}
	}
	return m.Token()
}

// rival returns another identity, preferring one that shares the MAC or the client identifier.
func pickOr(r *lib.Rand, l []uint32, d uint32) uint32 {
	if len(l) == 0 {
		return d
	}
	return l[r.Intn(len(l))]
}

// roleIP: an address the server remembers (or not) for this client, by role.
func (g *Gen) roleIP(id *ident) uint32 {
	o := g.rival(id)
	switch g.R.Intn(8) {
	case 0:
		return id.offer // current offer
	case 1:
		return pickOr(g.R, id.prevOffer, id.offer) // a previous offer
	case 2:
		return id.ack // current binding
	case 3:
		return pickOr(g.R, id.prevAck, id.ack) // a previous binding
	case 4:
		return o.offer // another client's offer
	case 5:
		return o.ack // another client's binding
	case 6:
		return pickOr(g.R, o.prevAck, o.ack)
	}
	return g.anyIP()
}

// roleRequest: a REQUEST assembled from roles: address (7 roles + random) x xid (current, previous, foreign)
// x server id (ours, another, none: renew or reboot form) x IP source (0, the address, another address of
// the same client, another client's address, off-LAN) — the IP source is an independent variable.
func (g *Gen) roleRequest(id *ident) string {
	r := g.R
	m := g.msg('R', id)
	a := g.roleIP(id)
	switch r.Intn(3) {
	case 1:
		m.Xid = pickOr(r, id.prevXid, id.xid)
	case 2:
		m.Xid = id.xid ^ 0x0f0f0f0f
	}
	switch r.Intn(4) {
	case 0, 1:
		m.Req, m.Sid = p32(a), p32(g.C.HostIP)
	case 2:
		m.Req, m.Sid = p32(a), p32(g.C.RouterIP)
	default:
		if r.Bool() {
			m.Ciaddr = a // renew / rebind form
		} else {
			m.Req = p32(a) // reboot form
		}
	}
	switch r.Intn(6) {
	case 0, 1:
		m.Src = 0
	case 2:
		m.Src = a
	case 3:
		m.Src = pickOr(r, append(append([]uint32{}, id.prevAck...), id.offer, id.ack), a) // another address of this client
	case 4:
		m.Src = g.rival(id).ack
	default:
		m.Src = 0x08080808
	}
	return m.Token()
}

func (g *Gen) rival(id *ident) *ident {
	var near, all []*ident
	for _, o := range g.ids {
		if o == id {
			continue
		}
		all = append(all, o)
		if o.mac == id.mac || (o.hasCid && id.hasCid && string(o.cid) == string(id.cid)) {
			near = append(near, o)
		}
	}
	if len(near) > 0 && g.R.Chance(60) {
		return near[g.R.Intn(len(near))]
	}
	return all[g.R.Intn(len(all))]
}

func (g *Gen) next() string {
	r := g.R
	g.cur = nil
	if len(g.queue) > 0 {
		f := g.queue[0]
		g.queue = g.queue[1:]
		return f()
	}
	id := g.ids[r.Intn(len(g.ids))]
	if g.Level == 1 {
		if r.Chance(45) || id.offer == 0 {
			id.xid = xids[r.Intn(len(xids))]
			m := g.msg('D', id)
			m.Prl = prls[r.Intn(3)]
			m.Bflag = r.Bool()
			return m.Token()
		}
		m := g.msg('R', id)
		if r.Chance(70) || id.ack == 0 {
			m.Req, m.Sid = p32(id.offer), p32(g.C.HostIP)
		} else {
			m.Ciaddr, m.Src = id.ack, id.ack
		}
		return m.Token()
	}
	k := r.Intn(100)
	switch {
	case k < 5: // script: capture state toggles between acquiring a lease and the next DISCOVER / REQUEST
		tog := "C,"
		if r.Chance(35) {
			tog = "U,"
		}
		g.queue = append(g.queue,
			func() string { return tog + hxmac(g.macs[id.mac]) },
			func() string {
				if r.Chance(60) {
					return g.discover(id, r.Chance(70), nil)
				}
				m := g.msg('R', id) // renew / reboot of the old address right after the toggle
				if r.Bool() {
					m.Ciaddr = id.ack
				} else {
					m.Req = p32(id.ack)
				}
				return m.Token()
			},
			func() string { return g.selectOffer(id) })
		if id.ack == 0 { // first acquire a lease, possibly at a requested address
			var req *uint32
			if r.Bool() {
				req = p32(g.anyIP())
			}
			g.queue = append([]func() string{
				func() string { return g.discover(id, true, req) },
				func() string { return g.selectOffer(id) }}, g.queue...)
		}
		return g.next()
	case k < 7 && id.ack != 0: // script: a bound client DISCOVERs again twice (old binding re-offered, then a new offer), then REQUESTs by role
		g.queue = append(g.queue,
			func() string { return g.discover(id, r.Bool(), nil) },
			func() string { return g.discover(id, true, nil) },
			func() string { return g.roleRequest(id) },
			func() string { return g.roleRequest(id) })
		return g.next()
	case k < 10: // script: two clients hold the same pending offer, then both REQUEST it
		other := g.rival(id)
		g.queue = append(g.queue,
			func() string { return g.discover(id, true, nil) },
			func() string { return g.discover(other, true, p32(id.offer)) },
			func() string { return g.selectOffer(id) },
			func() string { return g.selectOffer(other) })
		if r.Bool() {
			g.queue[2], g.queue[3] = g.queue[3], g.queue[2]
		}
		return g.next()
	case k < 14: // script: the lease's expiry is moved just before / after the handler's clock, then the client comes back
		off := r.Pick(-600, -30, 30, 600)
		g.queue = append(g.queue,
			func() string { return "E," + cidTok(id, g.macs) + "," + strconv.Itoa(off) },
			func() string {
				switch r.Intn(4) {
				case 0:
					return g.discover(id, r.Bool(), nil)
				case 1:
					m := g.msg('R', id) // reboot
					m.Req = p32(id.ack)
					return m.Token()
				default:
					m := g.msg('R', id) // renew
					m.Ciaddr, m.Src = id.ack, id.ack
					return m.Token()
				}
			})
		if id.ack == 0 {
			g.queue = append([]func() string{
				func() string { return g.discover(id, true, nil) },
				func() string { return g.selectOffer(id) }}, g.queue...)
		}
		return g.next()
	case k < 32: // DISCOVER
		var req *uint32
		if r.Chance(45) {
			req = p32(g.anyIP())
		}
		if r.Chance(60) {
			id.xid = xids[r.Intn(len(xids))]
		}
		m := g.msg('D', id)
		m.Req = req
		m.Prl = g.anyPRL()
		m.Bflag = r.Chance(30)
		if r.Chance(10) {
			m.Src = g.anyIP()
		}
		if r.Chance(5) {
			m.Sid = p32(g.C.HostIP)
		}
		return m.Token()
	case k < 70: // REQUEST
		if r.Chance(35) {
			return g.roleRequest(id)
		}
		m := g.msg('R', id)
		m.Prl = g.anyPRL()
		m.Bflag = r.Chance(20)
		switch q := r.Intn(100); {
		case q < 45: // SELECT of our offer (a quarter with one field outside the transaction)
			return g.selectOffer(id)
		case q < 55: // SELECT of another server
			m.Req, m.Sid = p32(g.anyIP()), p32(g.C.RouterIP)
		case q < 68: // RENEW
			m.Ciaddr = id.ack
			if m.Ciaddr == 0 || r.Chance(20) {
				m.Ciaddr = g.anyIP()
			}
			m.Src = m.Ciaddr
			if r.Chance(15) { // option 50 together with ciaddr
				m.Req = p32(m.Ciaddr)
				if r.Bool() {
					m.Req = p32(g.anyIP())
				}
			}
		case q < 74: // REBIND (IP source is the limited broadcast in the code's reading)
			m.Ciaddr = id.ack
			if m.Ciaddr == 0 || r.Chance(20) {
				m.Ciaddr = g.anyIP()
			}
			m.Src = 0xffffffff
		case q < 88: // INIT-REBOOT
			m.Req = p32(id.ack)
			if id.ack == 0 || r.Chance(30) {
				m.Req = p32(g.anyIP())
			}
		default: // arbitrary fields
			m.Xid = xids[r.Intn(len(xids))]
			if r.Bool() {
				m.Req = p32(g.anyIP())
			}
			if r.Bool() {
				m.Sid = p32(uint32(r.Pick(int(g.C.HostIP), int(g.C.RouterIP), 0, int(g.C.NfIP))))
			}
			if r.Bool() {
				m.Ciaddr = g.anyIP()
			}
			if r.Bool() {
				m.Src = g.anyIP()
			}
			if r.Chance(20) {
				m.Chaddr = g.macs[r.Intn(3)] // somebody else's hardware address under this client id
			}
		}
		return m.Token()
	case k < 77: // DECLINE
		m := g.msg('X', id)
		m.Req = p32(id.ack)
		if r.Chance(40) {
			m.Req = p32(g.anyIP())
		}
		if r.Chance(10) {
			m.Req = nil
		}
		switch r.Intn(6) {
		case 0:
			m.Sid = p32(g.C.RouterIP)
		case 1:
			m.Sid = nil
		default:
			m.Sid = p32(g.C.HostIP)
		}
		return m.Token()
	case k < 81: // RELEASE
		m := g.msg('L', id)
		m.Ciaddr = id.ack
		m.Src = id.ack
		if r.Chance(30) {
			m.Ciaddr = g.anyIP()
		}
		if r.Chance(70) {
			m.Sid = p32(g.C.HostIP)
		}
		return m.Token()
	case k < 86:
		return "C," + hxmac(g.macs[id.mac])
	case k < 90:
		return "U," + hxmac(g.macs[id.mac])
	case k < 94: // a lease's expiry moved to just before / after the handler's clock, or far away (verif hook)
		return "E," + cidTok(id, g.macs) + "," + strconv.Itoa(r.Pick(-600, -30, 30, 600))
	default: // MinuteTicker: well before / after the 4 h lease end (the real clock moves < 1 min per history)
		return "T," + strconv.Itoa(r.Pick(0, 3600, 13800, 15000, 15000, 30000))
	}
}

// cidTok is the table key of an identity (option 61, else chaddr) as hex.
func cidTok(id *ident, macs []net.HardwareAddr) string {
	if id.hasCid && len(id.cid) > 0 { // a zero-length option 61 counts as absent
		return lib.Hex(id.cid)
	}
	return hxmac(macs[id.mac])
}

// History returns the op tokens of one history of the given depth.
func (g *Gen) History(depth int) []string {
	g.sv = NewServer(g.C)
	if !g.Fresh {
		g.sv.Shared = make([]byte, 1514)
	}
	defer g.sv.Close()
	return g.play(depth)
}

// play generates depth ops against the live server g.sv.
func (g *Gen) play(depth int) []string {
	var ops []string
	for n := 0; n < depth; n++ {
		tok := g.next()
		ops = append(ops, tok)
		_, rp := g.sv.Step(tok)
		if rp != nil && g.cur != nil {
			switch rp.Type {
			case 2:
				if g.cur.offer != 0 && g.cur.offer != rp.Yi {
					g.cur.prevOffer = append(g.cur.prevOffer, g.cur.offer)
				}
				g.cur.offer = rp.Yi
			case 5:
				if g.cur.ack != 0 && g.cur.ack != rp.Yi {
					g.cur.prevAck = append(g.cur.prevAck, g.cur.ack)
				}
				g.cur.ack = rp.Yi
			}
		}
	}
	return ops
}

// ChangeOne returns configuration c with exactly one parameter changed (what, for the statistics).
func ChangeOne(c Cfg, r *lib.Rand) (Cfg, string) {
	n1, b1 := c.lan(false)
	for {
		d := c
		what := ""
		switch r.Intn(10) {
		case 0:
			return d, "nothing"
		case 1:
			d.Mode = c.Mode%3 + 1
			what = "mode"
		case 2:
			d.DNS = c.DNS ^ 0x00000404
			what = "dns"
		case 3: // another router address inside the home LAN
			d.RouterIP = n1 + 1 + uint32(r.Intn(int(b1-n1-1)))
			what = "router"
		case 4:
			d.HomeBits = c.HomeBits - 1
			what = "home-bits"
		case 5:
			d.NfBits = c.NfBits + 1
			what = "netfilter-bits-longer"
		case 6:
			d.NfBits = c.NfBits - 1
			what = "netfilter-bits-shorter"
		case 7: // our own address (it is also the netfilter gateway)
			d.HostIP = n1 + 1 + uint32(r.Intn(int(b1-n1-1)))
			d.NfIP = d.HostIP
			what = "host"
		case 8:
			d.RouterMAC = net.HardwareAddr{0x00, 0x66, 0x66, 0x66, 0x66, 0x67}
			what = "router-mac"
		default:
			d.HomeBits = c.HomeBits + 1
			what = "home-bits-longer"
		}
		// keep B a configuration (Config).New accepts and cfg_ok: distinct host/router inside the home LAN,
		// netfilter prefix inside the home prefix and not longer than /30
		h1, hb := d.lan(false)
		if d.HostIP == d.RouterIP || d.HostIP <= h1 || d.HostIP >= hb || d.RouterIP <= h1 || d.RouterIP >= hb ||
			d.NfBits < d.HomeBits || d.NfBits > 30 || d.HomeBits < 16 {
			continue
		}
		n2, b2 := d.lan(true)
		if d.HostIP <= n2 || d.HostIP >= b2 {
			continue
		}
		if what == "host" && d.HostIP == c.HostIP || what == "router" && d.RouterIP == c.RouterIP {
			continue
		}
		return d, what
	}
}

// Restart generates one restart case: opsA on configuration A, then B = A with one parameter changed
// started on A's lease file, opsB (restored and new clients, captured and not).
func (g *Gen) Restart(depthA, depthB int) (Cfg, string, []string, []string) {
	g.sv = NewServer(g.C)
	g.sv.Shared = make([]byte, 1514)
	// expiry script: A acquires, its expiry is moved to e0 = now+off0 and written to the file by B's ACK,
	// then A renews (e1 = now+4h, written by that ACK); after the restart MinuteTicker runs before e0,
	// between e0 and e1 or after e1, and A renews / a third client asks for A's address, in both orders
	expiry := g.R.Chance(40)
	var idA, idB, idC *ident
	if expiry {
		p := []int{0, 3, 6} // three identities on three MACs
		idA, idB, idC = g.ids[p[0]], g.ids[p[1]], g.ids[p[2]]
		if len(g.ids) < 7 {
			idA, idB, idC = g.ids[0], g.ids[1], g.ids[2]
		}
		off0 := g.R.Pick(600, 1800)
		g.queue = append(g.queue,
			func() string { return g.discover(idA, true, nil) }, func() string { return g.selectOfferDev(idA, false) },
			func() string { return "E," + cidTok(idA, g.macs) + "," + strconv.Itoa(off0) },
			func() string { return g.discover(idB, true, nil) }, func() string { return g.selectOfferDev(idB, false) },
			func() string { m := g.msg('R', idA); m.Ciaddr = idA.ack; return m.Token() })
		depthA = 6
	}
	// run 1: mostly lease acquisition so that there is something to restore
	for i := 0; i < 3 && !expiry; i++ {
		id := g.ids[g.R.Intn(len(g.ids))]
		g.queue = append(g.queue, func() string { return g.discover(id, true, nil) }, func() string { return g.selectOfferDev(id, false) })
	}
	opsA := g.play(depthA)
	g.queue = nil
	file := g.sv.CloseKeep()
	cB, what := ChangeOne(g.C, g.R)
	if expiry { // same file, same subnets: the table is restored
		cB, what = g.C, "nothing-expiry-script"
		if g.R.Bool() {
			cB.Mode, what = g.C.Mode%3+1, "mode-expiry-script"
		}
	}
	g.C = cB
	g.alpha = append(g.alpha, cB.HostIP, cB.RouterIP)
	var pre []net.HardwareAddr
	var preToks []string
	for i := range g.macs { // MACs captured in the session before the handler is constructed on the file
		if g.R.Chance(30) {
			pre = append(pre, g.macs[i])
			preToks = append(preToks, "P,"+hxmac(g.macs[i]))
		}
	}
	g.sv = NewServerFile(cB, file, pre...)
	g.sv.Shared = make([]byte, 1514)
	defer g.sv.Close()
	if expiry {
		renew := func() string { m := g.msg('R', idA); m.Ciaddr = idA.ack; return m.Token() }
		ask := []func() string{
			func() string { return g.discover(idC, true, p32(idA.ack)) },
			func() string { return g.selectOfferDev(idC, false) }}
		g.queue = append(g.queue, func() string { return "T," + strconv.Itoa(g.R.Pick(300, 3600, 3600, 15000)) })
		if g.R.Bool() {
			g.queue = append(append(g.queue, renew), ask...)
		} else {
			g.queue = append(append(g.queue, ask...), renew)
		}
	}
	// run 2 begins with the old clients coming back (renew / reboot / discover), captured or not
	for i := 0; i < 2 && !expiry; i++ {
		id := g.ids[g.R.Intn(len(g.ids))]
		if g.R.Chance(40) {
			g.queue = append(g.queue, func() string { return "C," + hxmac(g.macs[id.mac]) })
		}
		g.queue = append(g.queue, func() string {
			switch g.R.Intn(3) {
			case 0:
				m := g.msg('R', id)
				m.Ciaddr, m.Src = id.ack, id.ack
				return m.Token()
			case 1:
				m := g.msg('R', id)
				m.Req = p32(id.ack)
				return m.Token()
			}
			return g.discover(id, true, nil)
		}, func() string { return g.selectOffer(id) })
	}
	opsB := append(preToks, g.play(depthB)...)
	return cB, what, opsA, opsB
}

// Generate produces the histories of a run: nCfg configurations x modes, generated (live) and then
// replayed on a fresh server by the registered runner, in parallel workers.
func Generate(r *lib.Run, level int, modes []int, nCfg int) {
	rng := r.Rand()
	n := 1500
	if r.Thorough() {
		n = 20000
	}
	type job struct {
		seed  uint64
		cfg   Cfg
		depth int
		restart bool
		fresh   bool
	}
	jobs := make(chan job, 64)
	done := make(chan bool)
	workers := 12
	for w := 0; w < workers; w++ {
		go func() {
			for j := range jobs {
				g := NewGen(lib.NewRand(j.seed), j.cfg, level)
				g.Fresh = j.fresh
				if j.restart {
					cB, what, opsA, opsB := g.Restart(3+j.depth%8, 4+j.depth%14)
					args := append(append(j.cfg.Tokens(), cB.Tokens()...), opsA...)
					args = append(append(args, "|"), opsB...)
					r.Do("restart", args...)
					r.Stat("class.restart."+what, 1)
					continue
				}
				ops := g.History(j.depth)
				args := append(j.cfg.Tokens(), ops...)
				kind := "hist"
				if j.fresh {
					kind = "histf"
					r.Stat("class.fresh-buffers", 1)
				}
				obs := r.Do(kind, args...)
				steps := strings.Fields(strings.SplitN(obs, " | ", 2)[0])
				for i, o := range ops {
					if i < len(steps) && (o[0] == 'D' || o[0] == 'R') {
						r.Stat("class.reply."+o[:1]+"."+steps[i][:1], 1) // D.O offer, D.- exhausted; R.A ack, R.N nak, R.- silence
					}
				}
				r.Stat("class.depth."+bucket(j.depth), 1)
				for _, o := range ops {
					r.Stat("class.op."+o[:1], 1)
				}
			}
			done <- true
		}()
	}
	for i := 0; i < n; i++ {
		depth := 3 + rng.Intn(6) // short ones fit the kernel-replay sample
		if i%3 != 0 {
			depth = 20 + rng.Intn(40)
		}
		j := job{seed: rng.U64(), cfg: StdCfg(rng.Intn(nCfg), modes[rng.Intn(len(modes))]), depth: depth}
		if level > 1 && i%6 == 3 { // a handler restarted on the lease file of an earlier configuration
			j.restart = true
		} else if i%4 == 1 { // a quarter of the histories with a buffer of its own per frame
			j.fresh = true
		}
		jobs <- j
	}
	close(jobs)
	for w := 0; w < workers; w++ {
		<-done
	}
}

func bucket(d int) string {
	switch {
	case d < 10:
		return "lt10"
	case d < 30:
		return "lt30"
	default:
		return "ge30"
	}
}

// Corpus runs the recorded witness histories ($VERIF_CORPUS/*.txt, lines "hist ...") first.
func Corpus(r *lib.Run) {
	dir := os.Getenv("VERIF_CORPUS")
	if dir == "" {
		return
	}
	files, _ := filepath.Glob(filepath.Join(dir, "*.txt"))
	sort.Strings(files)
	for _, fn := range files {
		b, err := os.ReadFile(fn)
		if err != nil {
			continue
		}
		for _, l := range strings.Split(string(b), "\n") {
			f := strings.Fields(l)
			if len(f) > 11 && (f[0] == "hist" || f[0] == "histf" || f[0] == "restart") {
				r.Do(f[0], f[1:]...)
				r.Stat("class.corpus", 1)
			}
		}
	}
}

// Exhaustive enumerates every history up to the given depth over a small alphabet of ops in the
// /29+/30 configuration (pool 10.0.0.2-.5; first offers are .2 then .3), two clients: the
// interleavings between OFFER and REQUEST, requests for the other client's address, a second client
// identifier behind the same MAC, capture, expiry (MinuteTicker and the expiry hook), decline, release.  Thorough tier only (validates the model; the theorems cover every depth).
func Exhaustive(r *lib.Run, kind string, mode int, depth int, nTokens int) {
	c := StdCfg(1, mode)
	m1, m2 := net.HardwareAddr{2, 0, 0, 0, 0, 1}, net.HardwareAddr{2, 0, 0, 0, 0, 2}
	a2, a3 := uint32(0x0a000002), uint32(0x0a000003)
	cid1 := hxmac(m1)
	toks := []string{
		Msg{Kind: 'D', Chaddr: m1, Xid: 0x11111111}.Token(),
		Msg{Kind: 'D', Chaddr: m2, Xid: 0x22222222, Req: &a2}.Token(),
		Msg{Kind: 'R', Chaddr: m1, Xid: 0x11111111, Req: &a2, Sid: &c.HostIP}.Token(),
		Msg{Kind: 'R', Chaddr: m2, Xid: 0x22222222, Req: &a2, Sid: &c.HostIP}.Token(),
		Msg{Kind: 'R', Chaddr: m1, Xid: 0x11111111, Ciaddr: a2}.Token(), // renew
		"E," + cid1 + ",-30",
		Msg{Kind: 'X', Chaddr: m1, Xid: 0x11111111, Req: &a2, Sid: &c.HostIP}.Token(),
		"T,15000",
		"C," + hxmac(m1),
		Msg{Kind: 'L', Chaddr: m1, Xid: 0x11111111, Ciaddr: a2, Sid: &c.HostIP}.Token(),
		"E," + cid1 + ",30",
		Msg{Kind: 'D', Chaddr: m1, Xid: 0x33333333, HasCid: true, Cid: []byte{0xb2}, Req: &a2}.Token(), // second client id behind m1
		Msg{Kind: 'R', Chaddr: m1, Xid: 0x33333333, HasCid: true, Cid: []byte{0xb2}, Req: &a2, Sid: &c.HostIP}.Token(),
		Msg{Kind: 'D', Chaddr: m2, Xid: 0x22222222}.Token(),
		Msg{Kind: 'R', Chaddr: m2, Xid: 0x22222222, Req: &a3, Sid: &c.HostIP}.Token(),
		Msg{Kind: 'R', Chaddr: m1, Xid: 0x11111111, Req: &a2}.Token(), // reboot
		Msg{Kind: 'R', Chaddr: m1, Xid: 0x44444444, Req: &a2, Sid: &c.HostIP}.Token(), // SELECT under a foreign xid
	}
	toks = append(toks, Msg{Kind: 'R', Chaddr: m1, Xid: 0x11111111, Req: &a2, Sid: &c.HostIP, Extra: []byte{51, 4, 0, 0, 0, 1}}.Token(), "T,600")
	toks[4], toks[16] = toks[16], toks[4] // keep the foreign-xid SELECT ...
	toks[9], toks[17] = toks[17], toks[9] // ... the SELECT asking for a 1 s lease ...
	toks[10], toks[18] = toks[18], toks[10] // ... a MinuteTicker 10 min later ...
	toks[14], toks[17] = toks[17], toks[14] // ... RELEASE ...
	toks[15], toks[18] = toks[18], toks[15] // ... and the expiry hook +30 s inside the short alphabets
	toks[13], toks[16] = toks[16], toks[13] // ... and the renewal inside the short alphabets
	if nTokens < len(toks) {
		toks = toks[:nTokens]
	}
	jobs := make(chan []string, 64)
	done := make(chan bool)
	workers := 12
	for w := 0; w < workers; w++ {
		go func() {
			for ops := range jobs {
				r.Do(kind, append(c.Tokens(), ops...)...)
				r.Stat("class.exhaustive."+kind, 1)
			}
			done <- true
		}()
	}
	var rec func(prefix []string, d int)
	rec = func(prefix []string, d int) {
		if len(prefix) > 0 {
			jobs <- append([]string{}, prefix...)
		}
		if d == 0 {
			return
		}
		for _, t := range toks {
			rec(append(prefix, t), d-1)
		}
	}
	rec(nil, depth)
	close(jobs)
	for w := 0; w < workers; w++ {
		<-done
	}
}

// PrlSweep: every parameter request list up to the given length over {1, 3, 6, 33, 51, 200}, for a
// non-captured and a captured client: DISCOVER then the matching SELECT, both carrying the list.
func PrlSweep(r *lib.Run, mode int, maxLen int) {
	c := StdCfg(0, mode)
	codes := []byte{1, 3, 6, 33, 51, 200}
	m1 := net.HardwareAddr{2, 0, 0, 0, 0, 1}
	first := map[bool]uint32{false: 0xc0a80002, true: 0xc0a8000a} // first pool address of net1 / net2 in StdCfg(0)
	var lists [][]byte
	var rec func(p []byte)
	rec = func(p []byte) {
		lists = append(lists, append([]byte{}, p...))
		if len(p) == maxLen {
			return
		}
		for _, x := range codes {
			rec(append(p, x))
		}
	}
	rec(nil)
	for _, l := range lists {
		for _, cap := range []bool{false, true} {
			a := first[cap]
			ops := []string{}
			if cap {
				ops = append(ops, "C,"+hxmac(m1))
			}
			ops = append(ops, Msg{Kind: 'D', Chaddr: m1, Xid: 0x11111111, Prl: l}.Token(),
				Msg{Kind: 'R', Chaddr: m1, Xid: 0x11111111, Req: &a, Sid: &c.HostIP, Prl: l}.Token())
			r.Do("hist", append(c.Tokens(), ops...)...)
			r.Stat("class.prl-sweep", 1)
		}
	}
}

// CfgGrid: the value domain of dhcp4_spoofer.Config (and the NIC data New reads): every DNS form (zero value,
// plain, 0.0.0.0, IPv4-mapped, IPv6, equal to host / router, outside the LAN), modes incl. invalid ones,
// netfilter prefixes that New rejects (outside the home LAN, wider than it, /32) or accepts (/31, = home),
// a router outside the home LAN — each as a plain history (a non-captured and a captured client DISCOVER and
// SELECT) and as a RESTART on the same file with the SAME configuration (the renewal must find the binding).
func CfgGrid(r *lib.Run) {
	base := StdCfg(0, 2)
	m1, m2 := net.HardwareAddr{2, 0, 0, 0, 0, 1}, net.HardwareAddr{2, 0, 0, 0, 0, 2}
	var cfgs []Cfg
	for _, d := range []struct {
		form string
		v    uint32
	}{{"z", 0}, {"", 0x08080404}, {"", 0}, {"m", 0x08080404}, {"m", 0}, {"v6", 0}, {"", base.HostIP}, {"", base.RouterIP}, {"m", base.RouterIP}, {"", 0xffffffff}} {
		c := base
		c.DNS, c.DNSForm = d.v, d.form
		cfgs = append(cfgs, c)
	}
	for _, md := range []int{0, 1, 3, 4, 99} {
		c := base
		c.Mode = md
		cfgs = append(cfgs, c)
	}
	for _, nf := range []struct {
		ip   uint32
		bits int
	}{{base.HostIP, 27}, {base.HostIP, 28}, {base.HostIP, 30}, {base.HostIP, 31}, {base.HostIP, 32}, {0xc0a80109, 29}} {
		c := base
		c.NfIP, c.NfBits = nf.ip, nf.bits
		cfgs = append(cfgs, c)
	}
	c := base
	c.RouterIP = 0xc0a80101 // router outside the home LAN
	cfgs = append(cfgs, c)
	a2 := uint32(0)
	for _, c := range cfgs {
		n1, _ := c.lan(false)
		a2 = n1 + 2
		d1 := Msg{Kind: 'D', Chaddr: m1, Xid: 0x11111111, Prl: []byte{1, 3, 6}}.Token()
		s1 := Msg{Kind: 'R', Chaddr: m1, Xid: 0x11111111, Req: &a2, Sid: &c.HostIP, Prl: []byte{1, 3, 6}}.Token()
		d2 := Msg{Kind: 'D', Chaddr: m2, Xid: 0x22222222, Prl: []byte{1, 3, 6}}.Token()
		renew := Msg{Kind: 'R', Chaddr: m1, Xid: 0x11111111, Ciaddr: a2}.Token()
		r.Do("hist", append(c.Tokens(), d1, s1, "C,"+hxmac(m2), d2)...)
		args := append(append(c.Tokens(), c.Tokens()...), d1, s1, "|", renew, d2, "C,"+hxmac(m2), d2)
		r.Do("restart", args...)
		r.Stat("class.cfg-grid", 2)
	}
}

// RoleSweep: bounded-exhaustive REQUESTs by symbolic role after a fixed prefix.  Client A acquires W, declines it,
// acquires X, DISCOVERs again (X re-offered), DISCOVERs with a new xid (Y offered); client B holds a binding,
// client C a pending offer.  Then ONE request of A for every combination of address role {current offer Y, previous
// offer / current binding X, previous binding W, B's binding, C's offer, a free pool address, 0} x xid {last, previous,
// foreign} x form {server id ours, another server, none+requested (reboot), none+ciaddr (renew)} x IP source {0, the
// address, X, A's other tracked address W, B's address, off-LAN}; with claim, B has meanwhile sent a frame with IP source X.
func RoleSweep(r *lib.Run, cfgIdx, mode int, claim bool, rediscover bool) {
	c := StdCfg(cfgIdx, mode)
	mA, mB, mC := net.HardwareAddr{2, 0, 0, 0, 0, 1}, net.HardwareAddr{2, 0, 0, 0, 0, 2}, net.HardwareAddr{2, 0, 0, 0, 0, 3}
	sv := NewServer(c)
	if sv == nil {
		return
	}
	sv.Shared = make([]byte, 1514)
	var prefix []string
	yi := func(tok string) uint32 {
		prefix = append(prefix, tok)
		_, rp := sv.Step(tok)
		if rp == nil {
			return 0
		}
		return rp.Yi
	}
	sel := func(mac net.HardwareAddr, xid, a uint32) string {
		return Msg{Kind: 'R', Chaddr: mac, Xid: xid, Req: &a, Sid: &c.HostIP}.Token()
	}
	b1 := yi(Msg{Kind: 'D', Chaddr: mB, Xid: 0x0b0b0b0b}.Token())
	yi(sel(mB, 0x0b0b0b0b, b1))
	w := yi(Msg{Kind: 'D', Chaddr: mA, Xid: 0x0a0a0a00}.Token())
	yi(sel(mA, 0x0a0a0a00, w))
	yi(Msg{Kind: 'X', Chaddr: mA, Xid: 0x0a0a0a00, Req: &w, Sid: &c.HostIP}.Token())
	c1 := yi(Msg{Kind: 'D', Chaddr: mC, Xid: 0x0c0c0c0c}.Token())
	x := yi(Msg{Kind: 'D', Chaddr: mA, Xid: 0x0a0a0a01}.Token())
	yi(sel(mA, 0x0a0a0a01, x))
	if claim { // another MAC shows up with A's address as IP source: the session now tracks X for B's MAC
		yi(Msg{Kind: 'L', Chaddr: mB, Xid: 0x0b0b0b0b, Ciaddr: x, Src: x}.Token())
	}
	y := x
	if rediscover { // else A is still bound (state Allocated) when it sends the request
		yi(Msg{Kind: 'D', Chaddr: mA, Xid: 0x0a0a0a02}.Token())
		y = yi(Msg{Kind: 'D', Chaddr: mA, Xid: 0x0a0a0a03}.Token())
	}
	sv.Close()
	_, last := c.lan(false)
	addrs := []uint32{y, x, w, b1, c1, last - 1, 0}
	xs := []uint32{0x0a0a0a03, 0x0a0a0a02, 0x99999999}
	for _, a := range addrs {
		for _, xid := range xs {
			for form := 0; form < 4; form++ {
				for _, src := range []uint32{0, a, x, w, b1, 0x08080808} { // w: another LAN address the session tracks for A
					m := Msg{Kind: 'R', Chaddr: mA, Xid: xid, Src: src}
					aa := a
					switch form {
					case 0:
						m.Req, m.Sid = &aa, &c.HostIP
					case 1:
						m.Req, m.Sid = &aa, &c.RouterIP
					case 2:
						m.Req = &aa
					default:
						m.Ciaddr = a
					}
					r.Do("hist", append(append(c.Tokens(), prefix...), m.Token())...)
					r.Stat("class.role-sweep", 1)
				}
			}
		}
	}
}
