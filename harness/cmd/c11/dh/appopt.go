package dh

// Kind "ao ORDER OPTS": DHCP4.AppendOptions on its own.  OPTS = code=hex.code=hex... (an option map: every
// size incl. empty; values of 0, 1, 255 bytes), ORDER = requested order (hex, "-" = none; duplicates,
// codes that are not in the map).  The buffer has room for everything (insufficient capacity is C03's).
// Observation: the emitted code/value list: the part in requested order as found on the wire, the
// map-ordered remainder sorted by code.

import (
	"fmt"
	"sort"
	"strings"

	"github.com/irai/packet"
	"pvharness/lib"
)

func RunAppendOptions(a []string) string {
	order := lib.UnHex(a[0])
	opts := packet.DHCP4Options{}
	total := 0
	if a[1] != "-" {
		for _, kv := range strings.Split(a[1], ".") {
			p := strings.SplitN(kv, "=", 2)
			var code int
			fmt.Sscanf(p[0], "%d", &code)
			v := lib.UnHex(p[1])
			if v == nil {
				v = []byte{}
			}
			opts[packet.DHCP4OptionCode(code)] = v
			total += 2 + len(v)
		}
	}
	buf := make([]byte, 240, 240+total+64)
	ordered := map[byte]bool{1: true, 33: true, 3: true}
	for _, c := range order {
		ordered[c] = true
	}
	n := packet.DHCP4(buf).AppendOptions(opts, append([]byte{}, order...))
	o := buf[:cap(buf)][240 : 240+n]
	var first, rest []string
	type kv struct {
		k byte
		s string
	}
	var tail []kv
	for len(o) >= 2 {
		l := int(o[1])
		if len(o) < 2+l {
			return "truncated"
		}
		s := fmt.Sprintf("%d=%s", o[0], lib.Hex(o[2:2+l]))
		if ordered[o[0]] {
			first = append(first, s)
		} else {
			tail = append(tail, kv{o[0], s})
		}
		o = o[2+l:]
	}
	sort.SliceStable(tail, func(i, j int) bool { return tail[i].k < tail[j].k })
	for _, x := range tail {
		rest = append(rest, x.s)
	}
	out := strings.Join(append(first, rest...), ".")
	if out == "" {
		out = "-"
	}
	return fmt.Sprintf("%d %s", n, out)
}

// AppendOptionsCases generates option maps and orders.
func AppendOptionsCases(r *lib.Run, n int) {
	rng := r.Rand()
	codes := []int{1, 3, 6, 33, 51, 53, 54, 61, 121, 200, 12}
	for i := 0; i < n; i++ {
		k := rng.Pick(0, 1, 2, 3, 5, 8, len(codes))
		perm := append([]int{}, codes...)
		for j := range perm {
			x := rng.Intn(len(perm))
			perm[j], perm[x] = perm[x], perm[j]
		}
		var ops []string
		for _, c := range perm[:k] {
			l := rng.Pick(0, 1, 4, 4, 8, 255)
			ops = append(ops, fmt.Sprintf("%d=%s", c, lib.Hex(rng.Bytes(l))))
		}
		opt := "-"
		if len(ops) > 0 {
			opt = strings.Join(ops, ".")
		}
		var order []byte
		for j, m := 0, rng.Pick(0, 0, 1, 2, 3, 6, 12); j < m; j++ {
			order = append(order, byte(codes[rng.Intn(len(codes))]))
			if rng.Chance(10) {
				order[len(order)-1] = rng.Byte()
			}
		}
		r.Do("ao", lib.Hex(order), opt)
		r.Stat("class.ao", 1)
	}
}
