package dh

// Source-derived tie: constants the model hard-codes (option codes, message types, the lease state enum,
// operating modes, ports, the lease duration, the family DNS address) are read from the Go SOURCE with
// go/ast on every run and compared with the model's table (case kind "src NAME").  Lookup is by
// identifier, so reordering declarations does not matter; a value the evaluator cannot resolve (a
// refactoring moved it) is skipped and counted, never an alarm.

import (
	"fmt"
	"go/ast"
	"go/constant"
	"go/importer"
	"go/parser"
	"go/token"
	"go/types"
	"net/netip"
	"os"
	"path/filepath"
	"strconv"
	"strings"

	"pvharness/lib"
)

type srcPkg struct {
	consts map[string]ast.Expr // const name -> defining expression (iota already substituted by index)
	iota   map[string]int
	funcs  map[string]*ast.FuncDecl
	vars   map[string]ast.Expr
}

func loadPkg(dir string) *srcPkg {
	p := &srcPkg{consts: map[string]ast.Expr{}, iota: map[string]int{}, funcs: map[string]*ast.FuncDecl{}, vars: map[string]ast.Expr{}}
	files, _ := filepath.Glob(filepath.Join(dir, "*.go"))
	fset := token.NewFileSet()
	for _, fn := range files {
		if strings.HasSuffix(fn, "_test.go") {
			continue
		}
		f, err := parser.ParseFile(fset, fn, nil, 0)
		if err != nil {
			continue
		}
		for _, d := range f.Decls {
			switch d := d.(type) {
			case *ast.FuncDecl:
				p.funcs[d.Name.Name] = d
			case *ast.GenDecl:
				var last []ast.Expr
				for i, s := range d.Specs {
					vs, ok := s.(*ast.ValueSpec)
					if !ok {
						continue
					}
					vals := vs.Values
					if d.Tok == token.CONST && len(vals) == 0 {
						vals = last // implicit repetition
					}
					last = vals
					for j, n := range vs.Names {
						if j < len(vals) {
							if d.Tok == token.CONST {
								p.consts[n.Name] = vals[j]
								p.iota[n.Name] = i
							} else {
								p.vars[n.Name] = vals[j]
							}
						}
					}
				}
			}
		}
	}
	return p
}

// eval evaluates an integer constant expression (literals, iota, other constants of the package, + - * << and
// conversions T(x); time.Hour/Minute/Second/Millisecond in nanoseconds).
func (p *srcPkg) eval(e ast.Expr, iota int, depth int) (int64, bool) {
	if depth > 20 {
		return 0, false
	}
	switch e := e.(type) {
	case *ast.BasicLit:
		if e.Kind == token.INT {
			v, err := strconv.ParseInt(e.Value, 0, 64)
			return v, err == nil
		}
	case *ast.Ident:
		if e.Name == "iota" {
			return int64(iota), true
		}
		if d, ok := p.consts[e.Name]; ok {
			return p.eval(d, p.iota[e.Name], depth+1)
		}
	case *ast.ParenExpr:
		return p.eval(e.X, iota, depth+1)
	case *ast.CallExpr: // conversion
		if len(e.Args) == 1 {
			return p.eval(e.Args[0], iota, depth+1)
		}
	case *ast.SelectorExpr:
		if x, ok := e.X.(*ast.Ident); ok && x.Name == "time" {
			switch e.Sel.Name {
			case "Hour":
				return 3600e9, true
			case "Minute":
				return 60e9, true
			case "Second":
				return 1e9, true
			case "Millisecond":
				return 1e6, true
			}
		}
	case *ast.BinaryExpr:
		a, ok1 := p.eval(e.X, iota, depth+1)
		b, ok2 := p.eval(e.Y, iota, depth+1)
		if ok1 && ok2 {
			switch e.Op {
			case token.ADD:
				return a + b, true
			case token.SUB:
				return a - b, true
			case token.MUL:
				return a * b, true
			case token.SHL:
				return a << uint(b), true
			}
		}
	}
	return 0, false
}

func (p *srcPkg) constVal(name string) (int64, bool) {
	d, ok := p.consts[name]
	if !ok {
		return 0, false
	}
	return p.eval(d, p.iota[name], 0)
}

// leaseDuration: the default lease time = the one constant value assigned to a field named Duration anywhere
// in the package, folded by go/types (named constants, time.Hour etc. resolved by the type checker; imports
// outside the standard library are stubbed, their errors ignored).  Independent of function names; zero,
// several different values or none => unresolved.
type stubImporter struct{ std types.Importer }

func (i stubImporter) Import(path string) (*types.Package, error) {
	if !strings.Contains(path, ".") { // standard library, from GOROOT source
		if p, err := i.std.Import(path); err == nil {
			return p, nil
		}
	}
	name := path[strings.LastIndex(path, "/")+1:]
	p := types.NewPackage(path, name)
	p.MarkComplete()
	return p, nil
}

func leaseDurationFolded(dir string) (int64, bool) {
	fset := token.NewFileSet()
	names, _ := filepath.Glob(filepath.Join(dir, "*.go"))
	var files []*ast.File
	for _, fn := range names {
		if strings.HasSuffix(fn, "_test.go") {
			continue
		}
		src, err := os.ReadFile(fn)
		if err != nil || strings.Contains(string(src[:min(len(src), 200)]), "go:build verif") {
			continue
		}
		if f, err := parser.ParseFile(fset, fn, src, 0); err == nil {
			files = append(files, f)
		}
	}
	info := &types.Info{Types: map[ast.Expr]types.TypeAndValue{}}
	conf := types.Config{Importer: stubImporter{importer.ForCompiler(fset, "source", nil)}, Error: func(error) {}}
	conf.Check("dhcp4_spoofer", fset, files, info) // errors from the stubbed imports are expected
	vals := map[int64]bool{}
	for _, f := range files {
		ast.Inspect(f, func(n ast.Node) bool {
			as, ok := n.(*ast.AssignStmt)
			if !ok || len(as.Lhs) != 1 || len(as.Rhs) != 1 {
				return true
			}
			if sel, ok := as.Lhs[0].(*ast.SelectorExpr); ok && sel.Sel.Name == "Duration" {
				if tv, ok := info.Types[as.Rhs[0]]; ok && tv.Value != nil {
					if v, exact := constant.Int64Val(constant.ToInt(tv.Value)); exact && v != 0 {
						vals[v/1e9] = true
					}
				}
			}
			return true
		})
	}
	if len(vals) != 1 {
		return 0, false
	}
	for v := range vals {
		return v, true
	}
	return 0, false
}

func min(a, b int) int {
	if a < b {
		return a
	}
	return b
}

var srcCache map[string]string

func srcValues() map[string]string {
	if srcCache != nil {
		return srcCache
	}
	repo := os.Getenv("VERIF_REPO")
	if repo == "" {
		repo = "/repo"
	}
	out := map[string]string{}
	core := loadPkg(repo)
	dh := loadPkg(filepath.Join(repo, "handlers", "dhcp4_spoofer"))
	for _, n := range []string{"DHCP4OptionSubnetMask", "DHCP4OptionRouter", "DHCP4OptionDomainNameServer", "DHCP4OptionHostName",
		"DHCP4OptionPerformRouterDiscovery", "DHCP4OptionStaticRoute", "DHCP4OptionRequestedIPAddress", "DHCP4OptionIPAddressLeaseTime",
		"DHCP4OptionDHCPMessageType", "DHCP4OptionServerIdentifier", "DHCP4OptionParameterRequestList", "DHCP4OptionClientIdentifier",
		"DHCP4OptionClasslessRouteFormat", "DHCP4End", "DHCP4Pad", "DHCP4Discover", "DHCP4Offer", "DHCP4Request", "DHCP4Decline",
		"DHCP4ACK", "DHCP4NAK", "DHCP4Release", "DHCP4BootRequest", "DHCP4BootReply", "DHCP4ServerPort", "DHCP4ClientPort"} {
		if v, ok := core.constVal(n); ok {
			out[n] = fmt.Sprint(v)
		}
	}
	for _, n := range []string{"StateFree", "StateDiscover", "StateAllocated", "ModePrimaryServer", "ModeSecondaryServer", "ModeSecondaryServerNice"} {
		if v, ok := dh.constVal(n); ok {
			out[n] = fmt.Sprint(v)
		}
	}
	if v, ok := leaseDurationFolded(filepath.Join(repo, "handlers", "dhcp4_spoofer")); ok {
		out["lease_duration_seconds"] = fmt.Sprint(v)
	}
	if e, ok := core.vars["DNSv4CloudFlareFamily1"]; ok {
		if call, isCall := e.(*ast.CallExpr); isCall && len(call.Args) == 1 {
			if lit, isLit := call.Args[0].(*ast.BasicLit); isLit && lit.Kind == token.STRING {
				if s, err := strconv.Unquote(lit.Value); err == nil {
					if a, err := netip.ParseAddr(s); err == nil && a.Is4() {
						out["DNSv4CloudFlareFamily1"] = fmt.Sprint(u32(a))
					}
				}
			}
		}
	}
	srcCache = out
	return out
}

// SrcNames is the list of source constants the model's table knows.
var SrcNames = []string{"DHCP4OptionSubnetMask", "DHCP4OptionRouter", "DHCP4OptionDomainNameServer", "DHCP4OptionHostName",
	"DHCP4OptionPerformRouterDiscovery", "DHCP4OptionStaticRoute", "DHCP4OptionRequestedIPAddress", "DHCP4OptionIPAddressLeaseTime",
	"DHCP4OptionDHCPMessageType", "DHCP4OptionServerIdentifier", "DHCP4OptionParameterRequestList", "DHCP4OptionClientIdentifier",
	"DHCP4OptionClasslessRouteFormat", "DHCP4End", "DHCP4Pad", "DHCP4Discover", "DHCP4Offer", "DHCP4Request", "DHCP4Decline",
	"DHCP4ACK", "DHCP4NAK", "DHCP4Release", "DHCP4BootRequest", "DHCP4BootReply", "DHCP4ServerPort", "DHCP4ClientPort",
	"StateFree", "StateDiscover", "StateAllocated", "ModePrimaryServer", "ModeSecondaryServer", "ModeSecondaryServerNice",
	"lease_duration_seconds", "DNSv4CloudFlareFamily1"}

// RunSrc is the runner of a "src NAME" case: the value of that constant in the source tree under test.
func RunSrc(a []string) string {
	if v, ok := srcValues()[a[0]]; ok {
		return v
	}
	return "unresolved"
}

// Source emits one case per constant the evaluator resolves.
func Source(r *lib.Run) {
	vals := srcValues()
	for _, n := range SrcNames {
		if _, ok := vals[n]; !ok {
			r.Stat("src.unresolved."+n, 1)
			continue
		}
		r.Do("src", n)
		r.Stat("class.src", 1)
	}
}
