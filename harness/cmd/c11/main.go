// C11: DHCP never leases one address to two clients or a reserved address.
// Whole histories against the Coq lease-table model (see dh/).
package main

import (
	"os"

	"pvharness/cmd/c11/dh"
	"pvharness/lib"
)

func main() {
	r := lib.Init()
	defer r.Close()
	if os.Getenv("VERIF_KEEP_STDOUT") == "" {
		if f, err := os.OpenFile(os.DevNull, os.O_WRONLY, 0); err == nil && len(os.Args) > 1 {
			os.Stdout = f // the library prints diagnostics with fmt.Println
		}
	}
	r.Register("hist", dh.RunHist)
	r.Register("src", dh.RunSrc)
	r.Register("histf", dh.RunHistFresh)
	r.Register("restart", dh.RunRestart)
	if r.Replayed() {
		return
	}
	dh.Source(r)
	dh.Corpus(r)
	dh.RoleSweep(r, 0, 2, false, true)
	dh.RoleSweep(r, 0, 2, true, false)
	dh.CfgGrid(r)
	dh.Generate(r, 2, []int{1, 2, 3}, dh.NCfg)
	if r.Thorough() {
		dh.PrlSweep(r, 2, 4)
		dh.Exhaustive(r, "hist", 2, 4, 16)
		dh.Exhaustive(r, "histf", 2, 5, 8)
		dh.RoleSweep(r, 0, 1, true, true)
		dh.RoleSweep(r, 0, 3, false, false)
		dh.RoleSweep(r, 4, 2, true, false)
	} else {
		dh.PrlSweep(r, 2, 3)
		dh.Exhaustive(r, "hist", 2, 3, 16)
	}
}
