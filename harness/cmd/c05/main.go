// C05: host and MAC tables stay mutually consistent.
// Histories over a small universe; after every step the exported HostTable.Table / MACTable.Table
// structure is dumped and compared with the model's state, PrintTable is called under recover and
// an independent Go oracle decides the invariant on the real pointer structure.
package main

import (
	"sort"
	"time"
	"strconv"
	"strings"

	"pvharness/cmd/c05/tables"
	"pvharness/lib"
)

func main() {
	r := lib.Init()
	defer r.Close()
	tables.Quiet()
	rng := r.Rand()

	// t5 <cfg> <t0> <op>...
	r.Register("t5", func(a []string) string {
		cfg := tables.ParseCfg(a[0])
		t0, _ := strconv.ParseInt(a[1], 10, 64)
		sm := tables.NewSim(cfg, t0)
		defer sm.Close()
		show := func(out string) string {
			inv := sm.InvOracle()
			if inv != "" {
				r.Viol("c05-invariant-broken", inv, "t5 "+strings.Join(a, " "))
			}
			return out + "|" + sm.DumpTables() + "|pt=" + sm.PrintTable() + "|inv=" + map[bool]string{true: "1", false: "0"}[inv == ""]
		}
		tr := []string{show("init")}
		for _, op := range a[2:] {
			out := sm.Apply(op)
			sm.Drain()
			if sm.Dead {
				tr = append(tr, out)
				break
			}
			tr = append(tr, show(out))
		}
		if !sm.Dead {
			sm.Scribble() // the read loop reuses its buffer: nothing in the tables may change
			tr = append(tr, show("end"))
		}
		return strings.Join(tr, ";")
	})
	// t5s <cfg> <t0> <op>... : large tables; the state is dumped (with the invariant oracle and PrintTable) only at
	// the "S" tokens and at the end, every other op contributes its output alone; the invariant oracle runs after every op
	r.Register("t5s", func(a []string) string {
		cfg := tables.ParseCfg(a[0])
		t0, _ := strconv.ParseInt(a[1], 10, 64)
		sm := tables.NewSim(cfg, t0)
		defer sm.Close()
		show := func(out string) string {
			inv := sm.InvOracle()
			if inv != "" {
				r.Viol("c05-invariant-broken", inv, "t5s "+strings.Join(a[:2], " ")+" ("+strconv.Itoa(len(a)-2)+" ops)")
			}
			return out + "|" + sm.DumpTables() + "|pt=" + sm.PrintTable() + "|inv=" + map[bool]string{true: "1", false: "0"}[inv == ""]
		}
		var tr []string
		for _, op := range a[2:] {
			if op == "S" {
				tr = append(tr, show("S"))
				continue
			}
			out := sm.Apply(op)
			sm.Drain()
			if sm.Dead {
				tr = append(tr, out)
				break
			}
			tr = append(tr, out)
		}
		if !sm.Dead {
			tr = append(tr, show("end"))
		}
		return strings.Join(tr, ";")
	})
	// src writers | consts : source-derived components (source.go)
	r.Register("src", func(a []string) string {
		if a[0] == "writers" {
			return sourceWriters()
		}
		if a[0] == "clocks" {
			return sourceClocks()
		}
		if a[0] == "exported" {
			return exportedFields()
		}
		if a[0] == "observed" { // self-check: fields written by the entry points (census) minus fields the dumps print
			obs := map[string]bool{}
			for _, f := range tables.ObservedFields {
				obs[f] = true
			}
			miss := map[string]bool{}
			for _, e := range strings.Split(sourceWriters(), ";") {
				if i := strings.Index(e, ":"); i >= 0 {
					for _, f := range strings.Split(e[i+1:], "+") {
						if f != "" && !obs[f] {
							miss[f] = true
						}
					}
				}
			}
			var l []string
			for f := range miss {
				l = append(l, f)
			}
			sort.Strings(l)
			return "unobserved=" + strings.Join(l, "+")
		}
		return sourceConsts()
	})
	// dl <probe> <offline> <purge> (seconds): does Config.NewSession accept these deadlines?
	r.Register("dl", func(a []string) string {
		d := func(s string) time.Duration { v, _ := strconv.ParseInt(s, 10, 64); return time.Duration(v) * time.Second }
		if deadlinesAccepted(d(a[0]), d(a[1]), d(a[2])) {
			return "ok"
		}
		return "err"
	})
	// t5q <cfg> <seed> <n>: a concurrent execution under the supported pattern (packet loop / purge / control API and
	// views / channel reader); observation = invariant oracle + PrintTable at the quiescent point
	r.Register("t5q", func(a []string) string {
		cfg := tables.ParseCfg(a[0])
		seed, _ := strconv.ParseUint(a[1], 10, 64)
		n, _ := strconv.Atoi(a[2])
		verdict, _ := tables.ConcurrentRun(cfg, seed, n)
		if verdict != "inv=1|pt=ok" {
			r.Viol("c05-invariant-broken-at-quiescence", verdict, "t5q "+strings.Join(a, " "))
		}
		return verdict
	})
	if r.Replayed() {
		return
	}

	cfg := tables.StdCfg().Tok()
	dcfgs := tables.DeadlineCfgs()
	g := &tables.Gen{U: tables.StdUniverse(), Rng: rng}
	nrun := 0
	run := func(ops []string) {
		cfg := cfg
		if nrun%4 == 1 { // a quarter of all histories runs under other deadlines (orderings, equal, tiny, huge)
			cfg = dcfgs[rng.Intn(len(dcfgs))].Tok()
			r.Stat("cfg.non-default-deadlines", 1)
		}
		// two thirds of the histories carry their frames as RAW BYTES (a fifth of those frames damaged):
		// the model then derives the frame summary itself from the bytes
		nrun++
		if nrun%3 != 0 {
			ops = tables.RawOps(ops, rng, 20, func(k string) { r.Stat(k, 1) })
		}
		r.Do("t5", append([]string{cfg, "0"}, ops...)...)
		for _, o := range ops {
			r.Stat("op."+o[:1], 1)
		}
	}
	nShort, nLong := 400, 500
	if r.Thorough() {
		nShort, nLong = 4000, 12000
	}
	grid := []int64{-1, 0, 1, 2, 119, 120, 121, 300, 1799, 1800, 1801, 3599, 3600, 3601, 86399, 86400, 86401}
	for _, p := range grid {
		for _, o := range grid {
			for _, u := range []int64{-1, 0, 1, 60, 3660, 86400, 86401} {
				r.Do("dl", strconv.FormatInt(p, 10), strconv.FormatInt(o, 10), strconv.FormatInt(u, 10))
			}
		}
	}
	r.Do("src", "writers")
	r.Do("src", "consts")
	r.Do("src", "clocks")
	r.Do("src", "observed")
	r.Do("src", "exported")
	// exported fields the application owns are inputs: Host.HuntStage set to hunt / redirected / normal (op H), then the
	// duplicate-IP branch and the usual ops; and the conflict histories with stage writes sprinkled in
	nHunt := 150
	if r.Thorough() {
		nHunt = 3000
	}
	for i := 0; i < nHunt; i++ {
		ops := g.HuntStageHistory()
		if i%3 == 2 {
			ops = g.WithStages(g.ConflictHistory(6+rng.Intn(20)), 20)
		}
		r.Do("t5", append([]string{cfg, "0"}, ops...)...)
		r.Stat("class.application-fields", 1)
	}
	// op pairs on one MAC in every order (SetDHCPv4IPOffer x DHCPv4Update x frame x purge), client online / offline / unknown
	for i := 0; i < 432; i += 1 + rng.Intn(2) {
		ops := g.OfferPairHistory(i)
		r.Do("t5", append([]string{cfg, "0"}, ops...)...)
		r.Stat("class.offer-pairs", 1)
	}
	// the address-class domain and the NICInfo domain: every class of IPv4 / IPv6 source x {router, own, client, new MAC} x
	// {IP frame, ARP / NDP}, under the standard configuration and under every NICInfo variant
	{
		envs := append([]tables.Cfg{tables.StdCfg()}, tables.EnvCfgs()...)
		nCls := 6
		if r.Thorough() {
			nCls = 60
		}
		k := 0
		for _, ec := range envs {
			for i := 0; i < nCls; i++ {
				ops := g.AddressClassHistory(ec, k)
				k++
				if i%3 == 1 {
					ops = tables.RawOps(ops, rng, 0, func(s string) { r.Stat(s, 1) })
				}
				r.Do("t5", append([]string{ec.Tok(), "0"}, ops...)...)
				r.Stat("class.address-class-x-nicinfo", 1)
			}
			for i := 0; i < 3; i++ { // the usual histories under this NICInfo
				ops := g.ConflictHistory(6 + rng.Intn(20))
				r.Do("t5", append([]string{ec.Tok(), "0"}, ops...)...)
				r.Stat("class.nicinfo-conflict", 1)
			}
		}
	}
	// concurrent executions: Inv at the quiescent point
	nQ := 150
	if r.Thorough() {
		nQ = 3000
	}
	for i := 0; i < nQ; i++ {
		c := cfg
		if i%3 == 1 {
			c = dcfgs[rng.Intn(len(dcfgs))].Tok()
		}
		r.Do("t5q", c, strconv.FormatUint(rng.U64()>>1, 10), strconv.Itoa(10+rng.Intn(60)))
		r.Stat("class.concurrent-quiescence", 1)
	}
	// large tables: many addresses on one MAC (above the 32 / 64 / 128 marks), many MACs
	for _, n := range []int{40, 70, 130} {
		r.Do("t5s", append([]string{cfg, "0"}, g.ManyAddrsHistory(n, n == 70)...)...)
		r.Stat("class.many-addresses-per-mac", 1)
	}
	r.Do("t5s", append([]string{cfg, "0"}, g.ManyMACsHistory(300, false)...)...)
	r.Stat("class.many-macs", 1)
	if r.Thorough() {
		for i := 0; i < 10; i++ {
			r.Do("t5s", append([]string{dcfgs[rng.Intn(len(dcfgs))].Tok(), "0"}, g.ManyAddrsHistory(35+rng.Intn(150), i%2 == 0)...)...)
			r.Do("t5s", append([]string{cfg, "0"}, g.ManyMACsHistory(100+rng.Intn(300), i%2 == 0)...)...)
		}
	}
	// the three deadlines: every accepted ordering, equal, tiny and huge values; purges straddling each cutoff for an
	// address offline by ageing and by IPv4 supersession
	nDl := 8
	if r.Thorough() {
		nDl = 150
	}
	for _, dc := range dcfgs {
		for i := 0; i < nDl; i++ {
			ops := g.DeadlineHistory(dc)
			if i%3 == 2 {
				ops = tables.RawOps(ops, rng, 0, func(k string) { r.Stat(k, 1) })
			}
			r.Do("t5", append([]string{dc.Tok(), "0"}, ops...)...)
			r.Stat("class.deadlines", 1)
		}
	}
	// short histories (also the kernel-replay sample)
	for i := 0; i < nShort; i++ {
		run(g.History(2 + rng.Intn(4)))
	}
	// bounded-exhaustive: every history of depth 1..3 over the 19-letter alphabet; depth 4 in thorough
	maxDepth := 3
	if r.Thorough() {
		maxDepth = 4
	}
	for d := 1; d <= maxDepth; d++ {
		tables.Exhaustive(g.U, d, false, func(ops []string) { run(ops); r.Stat("class.exhaustive", 1) })
	}
	for i := 0; i < nLong; i++ {
		run(g.History(30 + rng.Intn(31)))
	}
	// address conflicts between MACs that own several hosts; DHCP offer pending when the only host is deleted
	nConf, nOff := 500, 200
	if r.Thorough() {
		nConf, nOff = 10000, 3000
	}
	for i := 0; i < nConf; i++ {
		run(g.ConflictHistory(6 + rng.Intn(25)))
		r.Stat("class.conflict", 1)
	}
	for i := 0; i < nOff; i++ {
		run(g.OfferDeletionHistory())
		r.Stat("class.offer-deletion", 1)
	}
	// one address of a MAC silent while the MAC stays active; purges at the host's and the MAC's deadlines +-1
	for i := 0; i < nOff; i++ {
		run(g.QuietAddressHistory())
		r.Stat("class.quiet-address", 1)
	}
	// the DHCP name path: SetDHCPv4IPOffer / DHCPv4Update with names on hosts that are online and announced
	for i := 0; i < 2*nOff; i++ {
		run(g.DHCPExchangeHistory())
		r.Stat("class.dhcp-exchange", 1)
	}
}
