// source.go — the SOURCE-DERIVED half of the TABLES tie (C04/C05/C06).
//
//	src writers : go/ast pass over $VERIF_REPO (root package, no tests): every function that assigns a field of Host or
//	              MACEntry, writes HostTable.Table / MACTable.Table (assignment, delete) or builds a Host / MACEntry
//	              literal, with the set of fields it writes, as "Recv.func:field+field;..." sorted.  The model column is
//	              the list the model's steps were transcribed from (Extract/D05.v, [writers_expected]): a new writer, a
//	              writer that touches another field, or a writer that disappeared changes the line.  Local names,
//	              receivers' names, statement order, comments and formatting do not.
//	src consts  : the constants the model and the harness hard-code, read from the built library: default deadlines,
//	              the limits NewSession enforces (probed through NewSession itself), the capacity of Session.C.
package main

import (
	"go/ast"
	"go/parser"
	"go/token"
	"net"
	"net/netip"
	"os"
	"sort"
	"strconv"
	"strings"
	"time"

	"github.com/irai/packet"
	"pvharness/lib"
)

func sourceWriters() string {
	repo := os.Getenv("VERIF_REPO")
	if repo == "" {
		repo = "/repo"
	}
	fset := token.NewFileSet()
	pkgs, err := parser.ParseDir(fset, repo, func(fi os.FileInfo) bool { return !strings.HasSuffix(fi.Name(), "_test.go") }, 0)
	if err != nil {
		return "parse-error"
	}
	tracked := map[string]map[string]bool{"Host": {}, "MACEntry": {}}
	for _, p := range pkgs {
		for _, f := range p.Files {
			ast.Inspect(f, func(n ast.Node) bool {
				ts, ok := n.(*ast.TypeSpec)
				if !ok {
					return true
				}
				st, ok := ts.Type.(*ast.StructType)
				if !ok || tracked[ts.Name.Name] == nil {
					return true
				}
				for _, fl := range st.Fields.List {
					for _, nm := range fl.Names {
						tracked[ts.Name.Name][nm.Name] = true
					}
				}
				return true
			})
		}
	}
	isField := func(n string) bool {
		if n == "MAC" || n == "Row" { // MACEntry.MAC is only set in its literal; "MAC" is a field of many other structs
			return false
		}
		return tracked["Host"][n] || tracked["MACEntry"][n]
	}
	res := map[string]map[string]bool{}
	for _, p := range pkgs {
		if p.Name != "packet" {
			continue
		}
		for _, f := range p.Files {
			for _, d := range f.Decls {
				fd, ok := d.(*ast.FuncDecl)
				if !ok || fd.Body == nil {
					continue
				}
				name, recv := fd.Name.Name, ""
				if fd.Recv != nil && len(fd.Recv.List) == 1 {
					t := fd.Recv.List[0].Type
					if s, ok := t.(*ast.StarExpr); ok {
						t = s.X
					}
					if id, ok := t.(*ast.Ident); ok {
						recv = id.Name
						name = recv + "." + name
					}
				}
				if strings.HasPrefix(fd.Name.Name, "Verif") || recv == "NameEntry" {
					continue // hooks of the verification build; NameEntry has a Manufacturer field of its own
				}
				add := func(x string) {
					if res[name] == nil {
						res[name] = map[string]bool{}
					}
					res[name][x] = true
				}
				tableOf := func(e ast.Expr) string { // h.HostTable.Table / h.Table inside HostTable/MACTable methods
					se, ok := e.(*ast.SelectorExpr)
					if !ok || se.Sel.Name != "Table" {
						return ""
					}
					if in, ok := se.X.(*ast.SelectorExpr); ok && (in.Sel.Name == "HostTable" || in.Sel.Name == "MACTable") {
						return in.Sel.Name + ".Table"
					}
					if recv == "HostTable" || recv == "MACTable" {
						return recv + ".Table"
					}
					return ""
				}
				lhs := func(e ast.Expr) {
					if ix, ok := e.(*ast.IndexExpr); ok {
						if t := tableOf(ix.X); t != "" {
							add(t)
							return
						}
						e = ix.X
					}
					if t := tableOf(e); t != "" {
						add(t)
						return
					}
					if se, ok := e.(*ast.SelectorExpr); ok && isField(se.Sel.Name) {
						add(se.Sel.Name)
					}
				}
				ast.Inspect(fd.Body, func(n ast.Node) bool {
					switch s := n.(type) {
					case *ast.AssignStmt:
						for _, l := range s.Lhs {
							lhs(l)
						}
					case *ast.IncDecStmt:
						lhs(s.X)
					case *ast.CallExpr:
						if id, ok := s.Fun.(*ast.Ident); ok && id.Name == "delete" && len(s.Args) == 2 {
							if t := tableOf(s.Args[0]); t != "" {
								add(t)
							}
						}
					case *ast.CompositeLit:
						if id, ok := s.Type.(*ast.Ident); ok && (id.Name == "Host" || id.Name == "MACEntry") {
							add("new(" + id.Name + ")")
						}
					}
					return true
				})
			}
		}
	}
	var keys []string
	for k := range res {
		keys = append(keys, k)
	}
	sort.Strings(keys)
	var out []string
	for _, k := range keys {
		var fs []string
		for f := range res[k] {
			fs = append(fs, f)
		}
		sort.Strings(fs)
		out = append(out, k+":"+strings.Join(fs, "+"))
	}
	return strings.Join(out, ";")
}

// sourceClocks: every read of the wall clock (time.Now, time.Since, time.Until) in the four files the tables live in,
// and every comparison of time stamps (Sub, Before, After), per enclosing function with its count: "file:Recv.func:Now*1+Since*1;...".  A NEW clock read there changes the line.
func sourceClocks() string {
	repo := os.Getenv("VERIF_REPO")
	if repo == "" {
		repo = "/repo"
	}
	var out []string
	for _, file := range []string{"hosttable.go", "mactable.go", "session.go", "layer_frame.go", "notification.go"} {
		fset := token.NewFileSet()
		f, err := parser.ParseFile(fset, repo+"/"+file, nil, 0)
		if err != nil {
			return "parse-error:" + file
		}
		for _, d := range f.Decls {
			fd, ok := d.(*ast.FuncDecl)
			if !ok || fd.Body == nil {
				continue
			}
			name := fd.Name.Name
			if fd.Recv != nil && len(fd.Recv.List) == 1 {
				t := fd.Recv.List[0].Type
				if s, ok := t.(*ast.StarExpr); ok {
					t = s.X
				}
				if id, ok := t.(*ast.Ident); ok {
					name = id.Name + "." + name
				}
			}
			cnt := map[string]int{}
			ast.Inspect(fd.Body, func(n ast.Node) bool {
				if se, ok := n.(*ast.SelectorExpr); ok {
					if id, ok := se.X.(*ast.Ident); ok && id.Name == "time" && (se.Sel.Name == "Now" || se.Sel.Name == "Since" || se.Sel.Name == "Until") {
						cnt[se.Sel.Name]++
					} else if se.Sel.Name == "Sub" || se.Sel.Name == "Before" || se.Sel.Name == "After" {
						cnt["cmp"]++ // a comparison / difference of time stamps (time.Time methods)
					}
				}
				return true
			})
			if len(cnt) == 0 {
				continue
			}
			var ks []string
			for k, v := range cnt {
				ks = append(ks, k+"*"+strconv.Itoa(v))
			}
			sort.Strings(ks)
			out = append(out, file+":"+name+":"+strings.Join(ks, "+"))
		}
	}
	sort.Strings(out)
	return strings.Join(out, ";")
}

func deadlinesAccepted(probe, offline, purge time.Duration) bool {
	nic := &packet.NICInfo{HomeLAN4: lib.HomeLAN, HostAddr4: packet.Addr{MAC: lib.HostMAC, IP: lib.HostIP4},
		RouterAddr4: packet.Addr{MAC: lib.RouterMAC, IP: lib.RouterIP4}, HostLLA: netip.PrefixFrom(lib.HostLLA, 64),
		RouterLLA: netip.PrefixFrom(lib.RouterLLA, 64), IFI: &net.Interface{MTU: 1500, Name: "eth0"}}
	s, err := packet.Config{Conn: lib.NewRecConn(), NICInfo: nic, ProbeDeadline: probe, OfflineDeadline: offline, PurgeDeadline: purge}.NewSession("")
	if err == nil {
		go s.Close()
	}
	return err == nil
}

// sourceConsts reads the constants from the built library: exported defaults, NewSession's limits by bisection on its
// own verdict, the channel capacity by reflection on a live session.
func sourceConsts() string {
	mk := func(probe, offline, purge time.Duration) (*packet.Session, error) {
		nic := &packet.NICInfo{HomeLAN4: lib.HomeLAN, HostAddr4: packet.Addr{MAC: lib.HostMAC, IP: lib.HostIP4},
			RouterAddr4: packet.Addr{MAC: lib.RouterMAC, IP: lib.RouterIP4}, HostLLA: netip.PrefixFrom(lib.HostLLA, 64),
			RouterLLA: netip.PrefixFrom(lib.RouterLLA, 64), IFI: &net.Interface{MTU: 1500, Name: "eth0"}}
		return packet.Config{Conn: lib.NewRecConn(), NICInfo: nic, ProbeDeadline: probe, OfflineDeadline: offline, PurgeDeadline: purge}.NewSession("")
	}
	accepts := func(probe, offline, purge int64) bool {
		s, err := mk(time.Duration(probe)*time.Second, time.Duration(offline)*time.Second, time.Duration(purge)*time.Second)
		if err == nil {
			go s.Close()
		}
		return err == nil
	}
	maxOf := func(f func(v int64) bool) int64 { // largest accepted value in 1..2^21 s, f monotone
		lo, hi := int64(1), int64(1<<21)
		if !f(lo) {
			return 0
		}
		for lo < hi {
			mid := (lo + hi + 1) / 2
			if f(mid) {
				lo = mid
			} else {
				hi = mid - 1
			}
		}
		return lo
	}
	maxOffline := maxOf(func(v int64) bool { return accepts(1, v, 1) })
	maxProbe := maxOf(func(v int64) bool { return accepts(v, maxOffline, 1) })
	maxPurge := maxOf(func(v int64) bool { return accepts(1, 1, v) })
	capC := -1
	if s, err := mk(packet.DefaultProbeDeadline, packet.DefaultOfflineDeadline, packet.DefaultPurgeDeadline); err == nil {
		capC = cap(s.C)
		go s.Close()
	}
	i := func(v int64) string { return strconv.FormatInt(v, 10) }
	return "probe=" + i(int64(packet.DefaultProbeDeadline/time.Second)) + ",offline=" + i(int64(packet.DefaultOfflineDeadline/time.Second)) +
		",purge=" + i(int64(packet.DefaultPurgeDeadline/time.Second)) + ",maxprobe=" + i(maxProbe) + ",maxoffline=" + i(maxOffline) +
		",maxpurge=" + i(maxPurge) + ",probe<=offline=" + map[bool]string{true: "1", false: "0"}[!accepts(3, 2, 1) && accepts(2, 2, 1)] +
		",purge-free=" + map[bool]string{true: "1", false: "0"}[accepts(2, 3, 1) && accepts(1, 3, 2) && accepts(1, 2, 3)] +
		",chan=" + strconv.Itoa(capC)
}
