// source.go — the SOURCE-DERIVED half of the TABLES tie (C04/C05/C06).
//
//	src writers : go/ast pass over $VERIF_REPO (root package, no tests): for every API ENTRY POINT of the statements (Parse,
//	              Notify, DHCPv4Update, SetDHCPv4IPOffer, Capture, Release, purge through its hook, NewSession, the five
//	              Update*Name) the set of Host / MACEntry fields and tables it writes, directly or TRANSITIVELY through
//	              unexported helpers (resolved by bare name); T{f: v} counts like x.f = v.  The model column is the list
//	              the model's steps were transcribed from (Extract/D05.v, [writers_expected]): a NEW field written from an
//	              entry point, or a field no longer written, changes the line.  Names of unexported helpers, accessors,
//	              goroutine bodies turned into methods, literals vs assignments, statement order do not.
//	src consts  : the constants the model and the harness hard-code, read from the built library: default deadlines,
//	              the limits NewSession enforces (probed through NewSession itself), the capacity of Session.C.
package main

import (
	"reflect"
	"go/ast"
	"go/parser"
	"go/token"
	"net"
	"net/netip"
	"os"
	"sort"
	"strconv"
	"strings"
	"time"

	"github.com/irai/packet"
	"pvharness/lib"
)

func sourceWriters() string {
	repo := os.Getenv("VERIF_REPO")
	if repo == "" {
		repo = "/repo"
	}
	fset := token.NewFileSet()
	pkgs, err := parser.ParseDir(fset, repo, func(fi os.FileInfo) bool { return !strings.HasSuffix(fi.Name(), "_test.go") }, 0)
	if err != nil {
		return "parse-error"
	}
	p := pkgs["packet"]
	if p == nil {
		return "no-package"
	}
	tracked := map[string]map[string]bool{"Host": {}, "MACEntry": {}}
	for _, f := range p.Files {
		ast.Inspect(f, func(n ast.Node) bool {
			ts, ok := n.(*ast.TypeSpec)
			if !ok {
				return true
			}
			st, ok := ts.Type.(*ast.StructType)
			if !ok || tracked[ts.Name.Name] == nil {
				return true
			}
			for _, fl := range st.Fields.List {
				for _, nm := range fl.Names {
					tracked[ts.Name.Name][nm.Name] = true
				}
			}
			return true
		})
	}
	isField := func(n string) bool {
		if n == "MAC" || n == "Row" { // "MAC" is a field of many other structs; Row is the lock
			return false
		}
		return tracked["Host"][n] || tracked["MACEntry"][n]
	}
	// per function (keyed by bare name: helpers are resolved by name only): the fields it writes itself and the
	// names it calls
	type fn struct {
		recv   string
		writes map[string]bool
		calls  map[string]bool
	}
	funcs := map[string][]*fn{}
	var all []struct {
		name string
		f    *fn
	}
	for _, f := range p.Files {
		for _, d := range f.Decls {
			fd, ok := d.(*ast.FuncDecl)
			if !ok || fd.Body == nil {
				continue
			}
			recv := ""
			if fd.Recv != nil && len(fd.Recv.List) == 1 {
				t := fd.Recv.List[0].Type
				if s, ok := t.(*ast.StarExpr); ok {
					t = s.X
				}
				if id, ok := t.(*ast.Ident); ok {
					recv = id.Name
				}
			}
			if recv == "NameEntry" { // has a Manufacturer field of its own
				continue
			}
			x := &fn{recv: recv, writes: map[string]bool{}, calls: map[string]bool{}}
			tableOf := func(e ast.Expr) string {
				se, ok := e.(*ast.SelectorExpr)
				if !ok || se.Sel.Name != "Table" {
					return ""
				}
				if in, ok := se.X.(*ast.SelectorExpr); ok && (in.Sel.Name == "HostTable" || in.Sel.Name == "MACTable") {
					return in.Sel.Name + ".Table"
				}
				if recv == "HostTable" || recv == "MACTable" {
					return recv + ".Table"
				}
				return ""
			}
			lhs := func(e ast.Expr) {
				if ix, ok := e.(*ast.IndexExpr); ok {
					if t := tableOf(ix.X); t != "" {
						x.writes[t] = true
						return
					}
					e = ix.X
				}
				if t := tableOf(e); t != "" {
					x.writes[t] = true
					return
				}
				if se, ok := e.(*ast.SelectorExpr); ok && isField(se.Sel.Name) {
					x.writes[se.Sel.Name] = true
				}
			}
			ast.Inspect(fd.Body, func(n ast.Node) bool {
				switch s := n.(type) {
				case *ast.AssignStmt:
					for _, l := range s.Lhs {
						lhs(l)
					}
				case *ast.IncDecStmt:
					lhs(s.X)
				case *ast.CallExpr:
					switch c := s.Fun.(type) {
					case *ast.Ident:
						if c.Name == "delete" && len(s.Args) == 2 {
							if t := tableOf(s.Args[0]); t != "" {
								x.writes[t] = true
							}
						}
						x.calls[c.Name] = true
					case *ast.SelectorExpr:
						x.calls[c.Sel.Name] = true
					}
				case *ast.CompositeLit: // T{f: v} writes f exactly like x.f = v
					if id, ok := s.Type.(*ast.Ident); ok && (id.Name == "Host" || id.Name == "MACEntry") {
						for _, el := range s.Elts {
							if kv, ok := el.(*ast.KeyValueExpr); ok {
								if k, ok := kv.Key.(*ast.Ident); ok && isField(k.Name) {
									x.writes[k.Name] = true
								}
							}
						}
					}
				}
				return true
			})
			funcs[fd.Name.Name] = append(funcs[fd.Name.Name], x)
			name := fd.Name.Name
			if recv != "" {
				name = recv + "." + name
			}
			all = append(all, struct {
				name string
				f    *fn
			}{name, x})
		}
	}
	// the entry points: the API calls of the statements (exported; purge through its exported hook) and the five
	// Update*Name methods.  Everything they write, directly or through any helper (resolved by bare name, unexported
	// helpers only: an exported callee is an entry point of its own or outside the tables).
	entries := map[string]string{"Config.NewSession": "NewSession", "Session.Parse": "Parse", "Session.Notify": "Notify",
		"Session.DHCPv4Update": "DHCPv4Update", "Session.SetDHCPv4IPOffer": "SetDHCPv4IPOffer", "Session.Capture": "Capture",
		"Session.Release": "Release", "Session.VerifPurge": "purge", "Host.UpdateDHCP4Name": "UpdateDHCP4Name",
		"Host.UpdateMDNSName": "UpdateMDNSName", "Host.UpdateSSDPName": "UpdateSSDPName", "Host.UpdateLLMNRName": "UpdateLLMNRName",
		"Host.UpdateNBNSName": "UpdateNBNSName"}
	var out []string
	for _, e := range all {
		label, ok := entries[e.name]
		if !ok {
			continue
		}
		seen := map[*fn]bool{}
		ws := map[string]bool{}
		var visit func(x *fn)
		visit = func(x *fn) {
			if seen[x] {
				return
			}
			seen[x] = true
			for w := range x.writes {
				ws[w] = true
			}
			for c := range x.calls {
				if c == "" || (c[0] >= 'A' && c[0] <= 'Z') {
					continue
				}
				for _, y := range funcs[c] {
					visit(y)
				}
			}
		}
		visit(e.f)
		var fs []string
		for w := range ws {
			fs = append(fs, w)
		}
		sort.Strings(fs)
		out = append(out, label+":"+strings.Join(fs, "+"))
	}
	sort.Strings(out)
	return strings.Join(out, ";")
}

// sourceClocks: every read of the wall clock (time.Now, time.Since, time.Until) in the four files the tables live in,
// and every comparison of time stamps (Sub, Before, After), per file with its count: "file:Recv.func:Now*1+Since*1;...".  A NEW clock read there changes the line.
func sourceClocks() string {
	repo := os.Getenv("VERIF_REPO")
	if repo == "" {
		repo = "/repo"
	}
	var out []string
	for _, file := range []string{"hosttable.go", "mactable.go", "session.go", "layer_frame.go", "notification.go"} {
		fset := token.NewFileSet()
		f, err := parser.ParseFile(fset, repo+"/"+file, nil, 0)
		if err != nil {
			return "parse-error:" + file
		}
		cnt := map[string]int{} // per FILE: functions are split, merged and renamed by refactorings, the reads stay
		ast.Inspect(f, func(n ast.Node) bool {
			if se, ok := n.(*ast.SelectorExpr); ok {
				if id, ok := se.X.(*ast.Ident); ok && id.Name == "time" && (se.Sel.Name == "Now" || se.Sel.Name == "Since" || se.Sel.Name == "Until") {
					cnt[se.Sel.Name]++
				} else if se.Sel.Name == "Sub" || se.Sel.Name == "Before" || se.Sel.Name == "After" {
					cnt["cmp"]++ // a comparison / difference of time stamps (time.Time methods)
				}
			}
			return true
		})
		var ks []string
		for k, v := range cnt {
			ks = append(ks, k+"*"+strconv.Itoa(v))
		}
		sort.Strings(ks)
		out = append(out, file+":"+strings.Join(ks, "+"))
	}
	return strings.Join(out, ";")
}

// exportedFields: the exported fields of the structs the application can reach (reflection on the built library).  The
// model column (Extract/D05.v, exported_expected) carries the same list; the classification of each field -- written by the
// library (compared in the dumps), written by the application (varied as an input of the histories), configuration -- is
// next to it there and in docs/C05.md.  A NEW exported field changes the line and has to be classified.
func exportedFields() string {
	var out []string
	for _, v := range []interface{}{packet.Host{}, packet.MACEntry{}, packet.Session{}, packet.NICInfo{}} {
		t := reflect.TypeOf(v)
		var fs []string
		for i := 0; i < t.NumField(); i++ {
			if f := t.Field(i); f.PkgPath == "" {
				fs = append(fs, f.Name)
			}
		}
		sort.Strings(fs)
		out = append(out, t.Name()+":"+strings.Join(fs, "+"))
	}
	return strings.Join(out, ";")
}

func deadlinesAccepted(probe, offline, purge time.Duration) bool {
	nic := &packet.NICInfo{HomeLAN4: lib.HomeLAN, HostAddr4: packet.Addr{MAC: lib.HostMAC, IP: lib.HostIP4},
		RouterAddr4: packet.Addr{MAC: lib.RouterMAC, IP: lib.RouterIP4}, HostLLA: netip.PrefixFrom(lib.HostLLA, 64),
		RouterLLA: netip.PrefixFrom(lib.RouterLLA, 64), IFI: &net.Interface{MTU: 1500, Name: "eth0"}}
	s, err := packet.Config{Conn: lib.NewRecConn(), NICInfo: nic, ProbeDeadline: probe, OfflineDeadline: offline, PurgeDeadline: purge}.NewSession("")
	if err == nil {
		go s.Close()
	}
	return err == nil
}

// sourceConsts reads the constants from the built library: exported defaults, NewSession's limits by bisection on its
// own verdict, the channel capacity by reflection on a live session.
func sourceConsts() string {
	mk := func(probe, offline, purge time.Duration) (*packet.Session, error) {
		nic := &packet.NICInfo{HomeLAN4: lib.HomeLAN, HostAddr4: packet.Addr{MAC: lib.HostMAC, IP: lib.HostIP4},
			RouterAddr4: packet.Addr{MAC: lib.RouterMAC, IP: lib.RouterIP4}, HostLLA: netip.PrefixFrom(lib.HostLLA, 64),
			RouterLLA: netip.PrefixFrom(lib.RouterLLA, 64), IFI: &net.Interface{MTU: 1500, Name: "eth0"}}
		return packet.Config{Conn: lib.NewRecConn(), NICInfo: nic, ProbeDeadline: probe, OfflineDeadline: offline, PurgeDeadline: purge}.NewSession("")
	}
	accepts := func(probe, offline, purge int64) bool {
		s, err := mk(time.Duration(probe)*time.Second, time.Duration(offline)*time.Second, time.Duration(purge)*time.Second)
		if err == nil {
			go s.Close()
		}
		return err == nil
	}
	maxOf := func(f func(v int64) bool) int64 { // largest accepted value in 1..2^21 s, f monotone
		lo, hi := int64(1), int64(1<<21)
		if !f(lo) {
			return 0
		}
		for lo < hi {
			mid := (lo + hi + 1) / 2
			if f(mid) {
				lo = mid
			} else {
				hi = mid - 1
			}
		}
		return lo
	}
	maxOffline := maxOf(func(v int64) bool { return accepts(1, v, 1) })
	maxProbe := maxOf(func(v int64) bool { return accepts(v, maxOffline, 1) })
	maxPurge := maxOf(func(v int64) bool { return accepts(1, 1, v) })
	capC := -1
	if s, err := mk(packet.DefaultProbeDeadline, packet.DefaultOfflineDeadline, packet.DefaultPurgeDeadline); err == nil {
		capC = cap(s.C)
		go s.Close()
	}
	i := func(v int64) string { return strconv.FormatInt(v, 10) }
	return "probe=" + i(int64(packet.DefaultProbeDeadline/time.Second)) + ",offline=" + i(int64(packet.DefaultOfflineDeadline/time.Second)) +
		",purge=" + i(int64(packet.DefaultPurgeDeadline/time.Second)) + ",maxprobe=" + i(maxProbe) + ",maxoffline=" + i(maxOffline) +
		",maxpurge=" + i(maxPurge) + ",probe<=offline=" + map[bool]string{true: "1", false: "0"}[!accepts(3, 2, 1) && accepts(2, 2, 1)] +
		",purge-free=" + map[bool]string{true: "1", false: "0"}[accepts(2, 3, 1) && accepts(1, 3, 2) && accepts(1, 2, 3)] +
		",chan=" + strconv.Itoa(capC)
}
