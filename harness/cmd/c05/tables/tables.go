// Package tables: shared machinery of the TABLES cluster (C04, C05, C06).
//
// A history is one case line  "<kind> <cfg> <t0> <op> <op> ...".  The runner
// builds a fresh Session, feeds REAL frames (built with the plain byte writers
// of lib/frames.go from the frame recipe in the op token) to Session.Parse,
// cross-checks the abstract frame summary of the token with an independent
// mini-decoder of the frame bytes, drives the public API and the VerifPurge
// hook with a virtual clock, and after every step projects the state.
package tables

import (
	"runtime"
	"sync"
	"sync/atomic"
	"bytes"
	"encoding/hex"
	"fmt"
	"io"
	"net"
	"net/netip"
	"os"
	"reflect"
	"sort"
	"strconv"
	"strings"
	"time"

	"github.com/irai/packet"
	"github.com/irai/packet/fastlog"
	"pvharness/lib"
)

// T0 is the virtual epoch (2001-09-09); op times are seconds after it.
var T0 = time.Unix(1000000000, 0)

const Year = 31536000

// Quiet silences the library's logging and PrintTable output.
func Quiet() {
	fastlog.DefaultIOWriter = io.Discard
	packet.Logger.Disable()
	if f, err := os.OpenFile(os.DevNull, os.O_WRONLY, 0); err == nil {
		os.Stdout = f
	}
}

// ---------------------------------------------------------------- tokens

func MacTok(m net.HardwareAddr) string { return hex.EncodeToString(m) }

func IPTok(a netip.Addr) string {
	if !a.IsValid() {
		return "-"
	}
	if a.Is4() {
		b := a.As4()
		return hex.EncodeToString(b[:])
	}
	b := a.As16()
	if a == netip.IPv6Unspecified() {
		return "::"
	}
	return hex.EncodeToString(b[:])
}

func ParseMac(s string) net.HardwareAddr {
	b, err := hex.DecodeString(s)
	if err != nil || len(b) != 6 {
		panic("bad mac token " + s)
	}
	return net.HardwareAddr(b)
}

func ParseIP(s string) netip.Addr {
	if s == "-" {
		return netip.Addr{}
	}
	if s == "::" {
		return netip.IPv6Unspecified()
	}
	b, err := hex.DecodeString(s)
	if err != nil {
		panic("bad ip token " + s)
	}
	switch len(b) {
	case 4:
		return netip.AddrFrom4(*(*[4]byte)(b))
	case 16:
		return netip.AddrFrom16(*(*[16]byte)(b))
	}
	panic("bad ip token " + s)
}

// A learned NameEntry is written as the decimal Name + 10*Model + 100*OS + 1000*Manufacturer, each attribute a
// digit (0 = empty string, d = "<prefix><d>"): all four attributes NameEntry.Merge compares are driven and observed.
var attrPrefix = [4]string{"n", "m", "o", "f"} // Name, Model, OS, Manufacturer

func attrStr(i, d int) string {
	if d == 0 {
		return ""
	}
	return attrPrefix[i] + strconv.Itoa(d)
}

// EntryOf builds the NameEntry of a name token.
func EntryOf(tok string, typ string) packet.NameEntry {
	n, err := strconv.Atoi(tok)
	if err != nil || n < 0 || n > 9999 {
		panic("bad name token " + tok)
	}
	return packet.NameEntry{Type: typ, Name: attrStr(0, n%10), Model: attrStr(1, n/10%10), OS: attrStr(2, n/100%10),
		Manufacturer: attrStr(3, n/1000%10)}
}

// EntryID prints a NameEntry as its token; an attribute that is not one of ours is shown raw.
func EntryID(e packet.NameEntry) string {
	n, mul := 0, 1
	for i, s := range [4]string{e.Name, e.Model, e.OS, e.Manufacturer} {
		if s != "" {
			d, err := strconv.Atoi(strings.TrimPrefix(s, attrPrefix[i]))
			if err != nil || d < 1 || d > 9 || !strings.HasPrefix(s, attrPrefix[i]) {
				return "?" + e.Name + "|" + e.Model + "|" + e.OS + "|" + e.Manufacturer
			}
			n += d * mul
		}
		mul *= 10
	}
	return strconv.Itoa(n)
}

func fiveNames(a, b, c, d, e packet.NameEntry) string {
	return EntryID(a) + "." + EntryID(b) + "." + EntryID(c) + "." + EntryID(d) + "." + EntryID(e)
}

func b01(b bool) string {
	if b {
		return "1"
	}
	return "0"
}

// ---------------------------------------------------------------- configuration

type Cfg struct {
	OwnMAC, RtMAC          net.HardwareAddr
	OwnIP, OwnLLA, RtIP    netip.Addr
	LAN                    netip.Prefix
	OfflineSec, PurgeSec   int64
	Env                    string // the rest of NICInfo, not read by any rule: g/G/z HostGUA = 2001:db8::100 /64, /128, ::/0; r RouterGUA; l no RouterLLA; p RouterPrefix
	ProbeSec               int64 // ProbeDeadline; NewSession requires 0 < Probe <= Offline (and Probe <= 30 min, Offline <= 60 min, Purge <= 24 h)
}

func StdCfg() Cfg {
	return Cfg{OwnMAC: lib.HostMAC, RtMAC: lib.RouterMAC, OwnIP: lib.HostIP4, OwnLLA: lib.HostLLA, RtIP: lib.RouterIP4,
		LAN: lib.HomeLAN, OfflineSec: 300, PurgeSec: 3660, ProbeSec: 120}
}

func (c Cfg) Tok() string {
	return strings.Join([]string{MacTok(c.OwnMAC), IPTok(c.OwnIP), IPTok(c.OwnLLA), MacTok(c.RtMAC), IPTok(c.RtIP),
		IPTok(c.LAN.Addr()), strconv.Itoa(c.LAN.Bits()), strconv.FormatInt(c.OfflineSec, 10), strconv.FormatInt(c.PurgeSec, 10), strconv.FormatInt(c.ProbeSec, 10)}, ",") + c.envTok()
}

func (c Cfg) envTok() string {
	if c.Env == "" {
		return ""
	}
	return "," + c.Env
}

func ParseCfg(s string) Cfg {
	f := strings.Split(s, ",")
	if len(f) < 9 || len(f) > 11 {
		panic("bad cfg token")
	}
	probe := int64(120)
	if len(f) >= 10 {
		probe, _ = strconv.ParseInt(f[9], 10, 64)
	}
	env := ""
	if len(f) == 11 {
		env = f[10]
	}
	bits, _ := strconv.Atoi(f[6])
	off, _ := strconv.ParseInt(f[7], 10, 64)
	pur, _ := strconv.ParseInt(f[8], 10, 64)
	return Cfg{OwnMAC: ParseMac(f[0]), OwnIP: ParseIP(f[1]), OwnLLA: ParseIP(f[2]), RtMAC: ParseMac(f[3]), RtIP: ParseIP(f[4]),
		LAN: netip.PrefixFrom(ParseIP(f[5]), bits), OfflineSec: off, PurgeSec: pur, ProbeSec: probe, Env: env}
}

// ---------------------------------------------------------------- frames

// Summary is the abstract parsed-frame summary the model's Rx takes.
type Summary struct {
	Src    string // Ethernet source (12 hex; 000000000000 when the frame has no Ethernet header)
	Class  string // 4 6 a o x
	IP     string // IPv4/IPv6 source or ARP sender IP, "-" otherwise
	ArpMAC string // ARP sender MAC, 000000000000 otherwise
	DHCP   bool   // Parse ends with PayloadID == PayloadDHCP4
}

func (s Summary) Tok() string {
	d := "F"
	if s.DHCP {
		d = "T"
	}
	return s.Src + "," + s.Class + "," + s.IP + "," + s.ArpMAC + "," + d
}

var bcast = net.HardwareAddr{0xff, 0xff, 0xff, 0xff, 0xff, 0xff}
var zeroMAC = "000000000000"

// BuildFrame builds the concrete frame of a recipe: Ethernet source, class, address, ARP sender MAC, variant.
func BuildFrame(src net.HardwareAddr, class string, ip netip.Addr, arpmac net.HardwareAddr, variant int) []byte {
	dst := lib.RouterMAC
	switch class {
	case "4":
		d4 := netip.MustParseAddr("192.168.0.11")
		var l4 []byte
		proto := byte(17)
		switch variant {
		case 1:
			proto, l4 = 6, lib.MkTCP(40000, 80, []byte("hello"))
		case 2:
			proto, l4 = 1, lib.MkICMPEcho(8, 0, 7, 1, []byte("ping"))
		case 3:
			l4 = lib.MkUDP(68, 67, make([]byte, 16))
		case 4:
			l4 = lib.MkUDP(443, 67, make([]byte, 8))
		case 5:
			l4 = []byte{0, 68, 0, 67} // truncated UDP: Parse returns an error after the host was created
		case 6:
			l4 = lib.MkUDP(67, 68, make([]byte, 16))
		default:
			l4 = lib.MkUDP(1000, 2000, []byte("data"))
		}
		return lib.MkEther(dst, src, 0x0800, lib.MkIP4(ip, d4, proto, 64, l4))
	case "6":
		d6 := netip.MustParseAddr("ff02::1")
		var l4 []byte
		next := byte(17)
		switch variant {
		case 1:
			next, l4 = 6, lib.MkTCP(40000, 80, []byte("hello"))
		case 2:
			next, l4 = 58, lib.MkICMP6(ip, d6, 128, 0, []byte{0, 7, 0, 1, 'p', 'i', 'n', 'g'})
		case 3:
			l4 = lib.MkUDP(546, 547, make([]byte, 8))
		case 4:
			l4 = lib.MkUDP(1000, 67, make([]byte, 8))
		case 5: // NDP neighbour solicitation (target fe80::99, source link-layer address option)
			tgt := netip.MustParseAddr("fe80::99").As16()
			next, l4 = 58, lib.MkICMP6(ip, d6, 135, 0, append(append([]byte{0, 0, 0, 0}, tgt[:]...), append([]byte{1, 1}, src...)...))
		case 6: // NDP neighbour advertisement (target = the source, target link-layer address option)
			tgt := ip.As16()
			next, l4 = 58, lib.MkICMP6(ip, d6, 136, 0, append(append([]byte{0x20, 0, 0, 0}, tgt[:]...), append([]byte{2, 1}, src...)...))
		default:
			l4 = lib.MkUDP(1000, 2000, []byte("data"))
		}
		return lib.MkEther(dst, src, 0x86dd, lib.MkIP6(ip, d6, next, 64, l4))
	case "a":
		op := uint16(1)
		if variant == 1 {
			op = 2
		}
		return lib.MkEther(bcast, src, 0x0806, lib.MkARP(op, arpmac, ip, net.HardwareAddr{0, 0, 0, 0, 0, 0}, netip.MustParseAddr("192.168.0.11")))
	case "o":
		switch variant {
		case 1:
			return lib.MkEther(dst, src, 0x0040, make([]byte, 64))
		case 2:
			return lib.MkEther(dst, src, 0x1234, make([]byte, 20))
		default:
			return lib.MkEther(dst, src, 0x88cc, []byte{2, 7, 4, 0, 1, 2, 3, 4, 5, 0, 0})
		}
	default: // "x": Parse returns before any creation predicate
		switch variant {
		case 1: // IPv4 total length larger than the frame
			p := lib.MkIP4(netip.MustParseAddr("192.168.0.1"), netip.MustParseAddr("192.168.0.11"), 17, 64, lib.MkUDP(1, 2, nil))
			p[2], p[3] = 0x01, 0x00
			return lib.MkEther(dst, src, 0x0800, p)
		case 2: // IPv6 payload length disagrees with the frame
			p := lib.MkIP6(netip.MustParseAddr("fe80::1"), netip.MustParseAddr("ff02::1"), 17, 64, lib.MkUDP(1, 2, nil))
			p[5]++
			return lib.MkEther(dst, src, 0x86dd, p)
		case 3: // IPv4 header shorter than 20 bytes
			return lib.MkEther(dst, src, 0x0800, []byte{0x45, 0, 0, 10, 0, 0, 0, 0, 64, 17})
		default: // shorter than an Ethernet header
			return []byte{1, 2, 3, 4, 5, 6, 7, 8, 9, 10}
		}
	}
}

// Decode is the independent mini-decoder: the fields Parse reads on the way to the host-creation
// predicates and the final DHCPv4 classification, from the frame bytes alone.
func Decode(b []byte) Summary {
	s := Summary{Src: zeroMAC, Class: "x", IP: "-", ArpMAC: zeroMAC}
	if len(b) < 14 {
		return s
	}
	s.Src = hex.EncodeToString(b[6:12])
	unicast := b[6]&1 == 0
	et := int(b[12])<<8 | int(b[13])
	p := b[14:]
	udpDHCP := func(l4 []byte) bool {
		if len(l4) < 8 {
			return false
		}
		sp, dp := int(l4[0])<<8|int(l4[1]), int(l4[2])<<8|int(l4[3])
		if sp == 443 || dp == 443 {
			return false
		}
		return dp == 67 || dp == 68
	}
	switch {
	case et < 1536:
		s.Class = "o"
	case et == 0x0800:
		if len(p) < 20 {
			return s
		}
		ihl := int(p[0]&0x0f) * 4
		tl := int(p[2])<<8 | int(p[3])
		if len(p) < ihl || len(p) < tl {
			return s
		}
		s.Class = "4"
		s.IP = hex.EncodeToString(p[12:16])
		if unicast && p[9] == 17 && ihl <= len(p) {
			s.DHCP = udpDHCP(p[ihl:])
		}
	case et == 0x86dd:
		if len(p) < 40 || (int(p[4])<<8|int(p[5]))+40 != len(p) {
			return s
		}
		s.Class = "6"
		s.IP = hex.EncodeToString(p[8:24])
		if s.IP == "00000000000000000000000000000000" {
			s.IP = "::"
		}
		if unicast && p[6] == 17 {
			s.DHCP = udpDHCP(p[40:])
		}
	case et == 0x0806:
		if len(p) < 28 {
			return s
		}
		s.Class = "a"
		s.IP = hex.EncodeToString(p[14:18])
		s.ArpMAC = hex.EncodeToString(p[8:14])
	default:
		s.Class = "o"
	}
	return s
}

// RxTok builds the op token of a received frame from a recipe.
func RxTok(src net.HardwareAddr, class string, ip netip.Addr, arpmac net.HardwareAddr, variant int, now int64) string {
	sum := Decode(BuildFrame(src, class, ip, arpmac, variant))
	return "R," + sum.Tok() + "," + strconv.FormatInt(now, 10) + "," + strconv.Itoa(variant)
}

// ---------------------------------------------------------------- simulation of one history

type Sim struct {
	S         *packet.Session
	Conn      *lib.RecConn
	cfg       Cfg
	last      packet.Frame
	haveLast  bool
	realStart time.Time
	vnow      int64
	Dead      bool // a step panicked: the session may hold its mutex, nothing more is run
	// one receive buffer for every frame of the history (a real read loop reuses its buffer): the frame is
	// copied into it and Parse sees buf[:n]; the buffer is overwritten before the next frame and at the end,
	// so anything the tables retained by reference instead of by copy shows up in the next dump
	buf     [2048]byte
	argbuf  [16]byte // MAC arguments of API calls live here and are overwritten after the call
	scribbleN byte
}

// Scribble overwrites the receive buffer (the caller's buffer is reused for the next read).
func (sm *Sim) Scribble() {
	sm.scribbleN++
	for i := range sm.buf {
		sm.buf[i] = 0xa5 ^ sm.scribbleN ^ byte(i)
	}
}

// macArg places a MAC argument in caller-owned scratch memory that is overwritten after the call.
func (sm *Sim) macArg(tok string) net.HardwareAddr {
	copy(sm.argbuf[:6], ParseMac(tok))
	return net.HardwareAddr(sm.argbuf[:6])
}

func (sm *Sim) argDone() {
	for i := range sm.argbuf {
		sm.argbuf[i] = 0x5a
	}
}

// NIC builds the NICInfo of a configuration, incl. the fields no rule reads (Env).
func (cfg Cfg) NIC() *packet.NICInfo {
	nic := &packet.NICInfo{
		HomeLAN4:    cfg.LAN,
		HostAddr4:   packet.Addr{MAC: cfg.OwnMAC, IP: cfg.OwnIP},
		RouterAddr4: packet.Addr{MAC: cfg.RtMAC, IP: cfg.RtIP},
		RouterLLA:   netip.PrefixFrom(lib.RouterLLA, 64),
		IFI:         &net.Interface{MTU: 1500, Name: "eth0"},
	}
	if cfg.OwnLLA.IsValid() {
		nic.HostLLA = netip.PrefixFrom(cfg.OwnLLA, 64)
	}
	gua := netip.MustParseAddr("2001:db8::100")
	for _, e := range cfg.Env {
		switch e {
		case 'g':
			nic.HostGUA = netip.PrefixFrom(gua, 64)
		case 'G':
			nic.HostGUA = netip.PrefixFrom(gua, 128)
		case 'z':
			nic.HostGUA = netip.PrefixFrom(netip.IPv6Unspecified(), 0)
		case 'r':
			nic.RouterGUA = netip.PrefixFrom(netip.MustParseAddr("2001:db8::ff"), 64)
		case 'l':
			nic.RouterLLA = netip.Prefix{}
		case 'p':
			nic.RouterPrefix = net.ParseIP("2001:db8::")
		}
	}
	return nic
}

func NewSim(cfg Cfg, t0 int64) *Sim {
	start := time.Now().Add(-time.Hour)
	packet.VerifSetMonitorNICFrequency(24 * time.Hour)
	conn := lib.NewRecConn()
	nic := cfg.NIC()
	s, err := packet.Config{Conn: conn, NICInfo: nic, ProbeDeadline: time.Duration(cfg.ProbeSec) * time.Second,
		OfflineDeadline: time.Duration(cfg.OfflineSec) * time.Second, PurgeDeadline: time.Duration(cfg.PurgeSec) * time.Second}.NewSession("")
	if err != nil {
		panic(err)
	}
	sm := &Sim{S: s, Conn: conn, cfg: cfg, realStart: start, vnow: t0}
	// virtual time of the two manual entries: NewSession wrote now+365d on our own host, now on the router
	for _, h := range s.HostTable.Table {
		if h.LastSeen.After(time.Now().Add(24 * time.Hour)) {
			h.LastSeen = T0.Add(time.Duration(t0+Year) * time.Second)
		} else {
			h.LastSeen = T0.Add(time.Duration(t0) * time.Second)
		}
		h.MACEntry.LastSeen = h.LastSeen
	}
	return sm
}

// Close releases the session in the background (Session.Close sleeps one second).
func (sm *Sim) Close() {
	if sm.Dead {
		return // a panicking step may have left the session mutex locked; Close would not block on it, but leave it alone
	}
	go sm.S.Close()
}

// settle rewrites every LastSeen the implementation has just written (real clock) to the virtual clock.
func (sm *Sim) settle() {
	v := T0.Add(time.Duration(sm.vnow) * time.Second)
	for _, h := range sm.S.HostTable.Table {
		if h.LastSeen.After(sm.realStart) {
			h.LastSeen = v
		}
		if h.MACEntry != nil && h.MACEntry.LastSeen.After(sm.realStart) {
			h.MACEntry.LastSeen = v
		}
	}
}

func frameFlags(f packet.Frame) uint64 {
	return reflect.ValueOf(f).FieldByName("flags").Uint()
}

// Drain empties the notification channel.
func (sm *Sim) Drain() []packet.Notification {
	var l []packet.Notification
	for {
		select {
		case n := <-sm.S.C:
			l = append(l, n)
		default:
			return l
		}
	}
}

func ShowNotif(n packet.Notification) string {
	return IPTok(n.Addr.IP) + "/" + MacTok(n.Addr.MAC) + "/" + b01(n.Online) + b01(n.IsRouter) + "/" +
		fiveNames(n.DHCP4Name, n.MDNSName, n.SSDPName, n.LLMNRName, n.NBNSName)
}

// Apply runs one op token on the real session and returns the step's output.
func (sm *Sim) Apply(tok string) (out string) {
	if sm.Dead {
		return "dead"
	}
	defer func() {
		if e := recover(); e != nil {
			sm.Dead = true
			out = "panic"
		}
	}()
	f := strings.Split(tok, ",")
	atoi := func(s string) int64 { v, _ := strconv.ParseInt(s, 10, 64); return v }
	switch f[0] {
	case "R":
		variant := int(atoi(f[7]))
		sm.vnow = atoi(f[6])
		frame := BuildFrame(ParseMac(f[1]), f[2], ParseIP(f[3]), ParseMac(f[4]), variant)
		if got := Decode(frame).Tok(); got != strings.Join(f[1:6], ",") {
			return "summary-mismatch:" + got
		}
		sm.Scribble() // the previous frame's bytes are gone: the loop reads into the same buffer
		n := copy(sm.buf[:], frame)
		fr, _ := sm.S.Parse(sm.buf[:n])
		sm.last, sm.haveLast = fr, true
		sm.settle()
		h := "nil"
		if fr.Host != nil {
			h = IPTok(fr.Host.Addr.IP)
		}
		return "f:" + h + "/" + b01(frameFlags(fr)&1 == 1)
	case "B":
		// a received frame as raw bytes: the MODEL computes the summary (Model/TablesGlue.v over Model/Parse.v);
		// the harness's own mini-decoder only feeds statistics
		sm.vnow = atoi(f[2])
		frame := lib.UnHex(f[1])
		sm.Scribble()
		n := copy(sm.buf[:], frame)
		fr, _ := sm.S.Parse(sm.buf[:n])
		sm.last, sm.haveLast = fr, true
		sm.settle()
		h := "nil"
		if fr.Host != nil {
			h = IPTok(fr.Host.Addr.IP)
		}
		return "f:" + h + "/" + b01(frameFlags(fr)&1 == 1)
	case "N":
		if !sm.haveLast {
			return "stale"
		}
		if sm.last.Host != nil && sm.S.HostTable.Table[sm.last.Host.Addr.IP] != sm.last.Host {
			sm.haveLast = false
			return "stale"
		}
		sm.S.Notify(sm.last)
		sm.settle()
		return "ok"
	case "U":
		sm.vnow = atoi(f[4])
		err := sm.S.DHCPv4Update(sm.macArg(f[1]), ParseIP(f[2]), EntryOf(f[3], "dhcp4"))
		sm.argDone()
		sm.settle()
		if err == packet.ErrInvalidIP {
			return "e:InvalidIP"
		} else if err != nil {
			return "e:other"
		}
		return "ok"
	case "O":
		sm.S.SetDHCPv4IPOffer(sm.macArg(f[1]), ParseIP(f[2]), EntryOf(f[3], "dhcp4"))
		sm.argDone()
		sm.settle()
		return "ok"
	case "C":
		err := sm.S.Capture(sm.macArg(f[1]))
		sm.argDone()
		sm.settle()
		if err == packet.ErrIsRouter {
			return "e:IsRouter"
		} else if err != nil {
			return "e:other"
		}
		return "ok"
	case "L":
		err := sm.S.Release(sm.macArg(f[1]))
		sm.argDone()
		if err != nil {
			return "e:other"
		}
		sm.settle()
		return "ok"
	case "P":
		sm.vnow = atoi(f[1])
		if err := sm.S.VerifPurge(T0.Add(time.Duration(sm.vnow) * time.Second)); err != nil {
			return "e:other"
		}
		sm.settle()
		return "ok"
	case "M":
		if h := sm.S.FindIP(ParseIP(f[2])); h != nil {
			ne := EntryOf(f[3], "t")
			switch f[1] {
			case "0":
				h.UpdateDHCP4Name(ne)
			case "1":
				h.UpdateMDNSName(ne)
			case "2":
				h.UpdateSSDPName(ne)
			case "3":
				h.UpdateLLMNRName(ne)
			case "4":
				h.UpdateNBNSName(ne)
			}
		}
		sm.settle()
		return "ok"
	case "H": // the APPLICATION writes an exported field it owns: Host.HuntStage of FindIP(ip), under the row lock
		if h := sm.S.FindIP(ParseIP(f[1])); h != nil {
			h.MACEntry.Row.Lock()
			h.HuntStage = packet.HuntStage(atoi(f[2]))
			h.MACEntry.Row.Unlock()
		}
		return "ok"
	case "D":
		l := sm.Drain()
		s := make([]string, len(l))
		for i, n := range l {
			s[i] = ShowNotif(n)
		}
		return "n:" + strings.Join(s, ",")
	}
	panic("bad op token " + tok)
}

// ---------------------------------------------------------------- projections

func vsec(t time.Time) string { return strconv.FormatInt(t.Unix()-T0.Unix(), 10) }

func hostNames(h *packet.Host) string {
	return fiveNames(h.DHCP4Name, h.MDNSName, h.SSDPName, h.LLMNRName, h.NBNSName)
}

func macNames(e *packet.MACEntry) string {
	return fiveNames(e.DHCP4Name, e.MDNSName, e.SSDPName, e.LLMNRName, e.NBNSName)
}

func sortedKeys(t map[netip.Addr]*packet.Host) []netip.Addr {
	keys := make([]netip.Addr, 0, len(t))
	for k := range t {
		keys = append(keys, k)
	}
	sort.Slice(keys, func(i, j int) bool { return keys[i].Compare(keys[j]) < 0 })
	return keys
}

// DumpTables prints the exported HostTable.Table / MACTable.Table structure (model: show_tables).
func (sm *Sim) DumpTables() string {
	t := sm.S.HostTable.Table
	var hs []string
	for _, k := range sortedKeys(t) {
		h := t[k]
		mac := "nil"
		if h.MACEntry != nil {
			mac = MacTok(h.MACEntry.MAC)
		}
		hs = append(hs, IPTok(k)+"/"+IPTok(h.Addr.IP)+"/"+mac+"/"+MacTok(h.Addr.MAC)+"/"+b01(h.Online)+b01(h.Dirty())+"/"+vsec(h.LastSeen)+"/"+hostNames(h)+"/"+h.HuntStage.String()+"/"+notOUI(h.Manufacturer, h.Addr.MAC))
	}
	var ms []string
	for _, e := range sm.S.MACTable.Table {
		var l []string
		for _, h := range e.HostList {
			l = append(l, IPTok(h.Addr.IP))
		}
		ms = append(ms, MacTok(e.MAC)+"/"+b01(e.Online)+b01(e.Captured)+b01(e.IsRouter)+"/"+IPTok(e.IP4)+"/"+IPTok(e.IP4Offer)+"/"+
			IPTok(e.IP6GUA)+"/"+IPTok(e.IP6LLA)+"/["+strings.Join(l, "+")+"]/"+macNames(e)+"/"+notOUI(e.Manufacturer, e.MAC))
	}
	return "H:" + strings.Join(hs, ",") + "|M:" + strings.Join(ms, ",")
}

// PrintTable calls Session.PrintTable under recover.
func (sm *Sim) PrintTable() (res string) {
	defer func() {
		if e := recover(); e != nil {
			res = "panic"
		}
	}()
	sm.S.PrintTable()
	return "ok"
}

// InvOracle decides the C05 invariant on the real pointer structure (independent of the model):
// returns "" when it holds, else the first broken clause.
func (sm *Sim) InvOracle() string {
	t := sm.S.HostTable.Table
	mt := sm.S.MACTable.Table
	count := 0
	for i, e := range mt {
		for j := i + 1; j < len(mt); j++ {
			if bytes.Equal(e.MAC, mt[j].MAC) {
				return fmt.Sprintf("two MAC entries for %s", e.MAC)
			}
		}
		for a, h := range e.HostList {
			count++
			if t[h.Addr.IP] != h {
				return fmt.Sprintf("host %s listed under %s is not the indexed host", h.Addr.IP, e.MAC)
			}
			if h.MACEntry != e {
				return fmt.Sprintf("host %s listed under %s points to another MAC entry", h.Addr.IP, e.MAC)
			}
			for b := a + 1; b < len(e.HostList); b++ {
				if e.HostList[b] == h {
					return fmt.Sprintf("host %s listed twice under %s", h.Addr.IP, e.MAC)
				}
			}
		}
	}
	for k, h := range t {
		if h.Addr.IP != k {
			return fmt.Sprintf("host %s indexed under %s", h.Addr.IP, k)
		}
		if h.MACEntry == nil {
			return fmt.Sprintf("host %s has no MAC entry", k)
		}
		if !bytes.Equal(h.MACEntry.MAC, h.Addr.MAC) {
			return fmt.Sprintf("host %s: MAC %s but entry %s", k, h.Addr.MAC, h.MACEntry.MAC)
		}
		n := 0
		for _, e := range mt {
			listed := false
			for _, x := range e.HostList {
				if x == h {
					listed = true
				}
			}
			if listed {
				n++
				if e != h.MACEntry {
					return fmt.Sprintf("host %s listed under foreign entry %s", k, e.MAC)
				}
			}
		}
		if n != 1 {
			return fmt.Sprintf("host %s belongs to %d MAC entries", k, n)
		}
		if h.Online && !h.MACEntry.Online {
			return fmt.Sprintf("host %s online but MAC entry %s offline", k, h.MACEntry.MAC)
		}
	}
	if count != len(t) {
		return fmt.Sprintf("%d hosts listed under MAC entries, %d indexed", count, len(t))
	}
	return ""
}

// Triples: the (MAC, IP, online) triples through GetHosts, sorted (model: show_triples).
func (sm *Sim) Triples() string {
	l := sm.S.GetHosts()
	sort.Slice(l, func(i, j int) bool { return l[i].Addr.IP.Compare(l[j].Addr.IP) < 0 })
	s := make([]string, len(l))
	for i, h := range l {
		s[i] = MacTok(h.MACEntry.MAC) + "/" + IPTok(h.Addr.IP) + "/" + b01(h.Online)
	}
	return strings.Join(s, ",")
}

// Views: the read-only API after a step (model: m_views, reference: r_views in Extract/D04.v).
func (sm *Sim) Views(ips []netip.Addr, macs []net.HardwareAddr) string {
	tr := func(h *packet.Host) string { return MacTok(h.MACEntry.MAC) + "/" + IPTok(h.Addr.IP) + "/" + b01(h.Online) }
	sortedIPs := func(l []packet.Addr) string {
		a := make([]netip.Addr, len(l))
		for i, x := range l {
			a[i] = x.IP
		}
		sort.Slice(a, func(i, j int) bool { return a[i].Compare(a[j]) < 0 })
		s := make([]string, len(a))
		for i, x := range a {
			s[i] = IPTok(x)
		}
		return strings.Join(s, "+")
	}
	var f, a, b []string
	e, x := "", ""
	for _, k := range ips {
		if h := sm.S.FindIP(k); h != nil {
			f = append(f, tr(h))
		} else {
			f = append(f, "-")
		}
	}
	for _, m := range macs {
		l := sm.S.IPAddrs(m)
		if l == nil {
			x += "n"
		} else {
			x += "e"
		}
		a = append(a, sortedIPs(l))
		b = append(b, sortedIPs(sm.S.FindByMAC(m)))
		ent := sm.S.FindMACEntry(m)
		e += b01(ent != nil && len(ent.HostList) > 0)
	}
	// every other field the model has (compared with the model only): per candidate MAC the entry's DHCPv4IPOffer, IP4,
	// GUA, LLA, online / captured / router flags and names; per host dirty and names; the order of the hosts by LastSeen
	var o []string
	for _, m := range macs {
		ent := sm.S.FindMACEntry(m)
		if ent == nil {
			o = append(o, "-")
			continue
		}
		o = append(o, IPTok(sm.S.DHCPv4IPOffer(m))+"/"+IPTok(ent.IP4)+"/"+IPTok(ent.IP6GUA)+"/"+IPTok(ent.IP6LLA)+"/"+
			b01(ent.Online)+b01(sm.S.IsCaptured(m))+b01(ent.IsRouter)+"/"+macNames(ent))
	}
	hosts := sm.S.GetHosts()
	sort.Slice(hosts, func(i, j int) bool { return hosts[i].Addr.IP.Compare(hosts[j].Addr.IP) < 0 })
	d := make([]string, len(hosts))
	for i, h := range hosts {
		d[i] = IPTok(h.Addr.IP) + "/" + b01(h.Dirty()) + "/" + hostNames(h)
	}
	sort.SliceStable(hosts, func(i, j int) bool { return hosts[i].LastSeen.Before(hosts[j].LastSeen) })
	l := make([]string, len(hosts))
	for i, h := range hosts {
		l[i] = IPTok(h.Addr.IP)
	}
	return "G:" + sm.Triples() + "|F:" + strings.Join(f, ",") + "|A:" + strings.Join(a, ",") + "|B:" + strings.Join(b, ",") + "|E:" + e + "|X:" + x +
		"|O:" + strings.Join(o, ",") + "|D:" + strings.Join(d, ",") + "|L:" + strings.Join(l, "<")
}

// ObservedFields: the Host / MACEntry fields and tables that the dumps of this package print (DumpTables, Views) or the
// invariant oracle checks by identity. The per-run self-check of c05 (src observed) requires every field the entry
// points WRITE (go/ast census) to be in this list.
var ObservedFields = []string{"Addr", "MACEntry", "Online", "dirty", "LastSeen", "HuntStage", "Manufacturer", "DHCP4Name", "MDNSName",
	"SSDPName", "LLMNRName", "NBNSName", "HostList", "HostTable.Table", "MACTable.Table", "IP4", "IP4Offer", "IP6GUA", "IP6LLA", "IsRouter", "Captured"}

// OfferPairHistory: every ordered pair of {SetDHCPv4IPOffer, DHCPv4Update, frame, purge} on ONE client MAC, with the
// client online / offline (aged) / unknown beforehand, the two ops on the same or on different addresses, a DHCP-path
// Notify and repeat traffic afterwards. idx enumerates the combinations.
func (g *Gen) OfferPairHistory(idx int) []string {
	u := g.U
	m := u.MACs[2+idx%3]
	ip4 := []netip.Addr{u.IP4s[2], u.IP4s[3], u.IP4s[4]}
	y := ip4[g.Rng.Intn(3)]
	x := ip4[(indexOf(ip4, y)+1+g.Rng.Intn(2))%3]
	now := int64(0)
	t := func(d int64) int64 { now += d; return now }
	var ops []string
	switch (idx / 3) % 3 { // before: online at y / offline at y / unknown
	case 0:
		ops = append(ops, RxTok(m, "4", y, nil, 0, t(1)), "N")
	case 1:
		ops = append(ops, RxTok(m, "4", y, nil, 0, t(1)), "N", fmt.Sprintf("P,%d", t(301)))
	}
	one := func(k int, ip netip.Addr) []string {
		switch k {
		case 0:
			return []string{fmt.Sprintf("O,%s,%s,%s", MacTok(m), IPTok(ip), g.name())}
		case 1:
			return []string{fmt.Sprintf("U,%s,%s,%s,%d", MacTok(m), IPTok(ip), g.name(), t(1))}
		case 2:
			return []string{RxTok(m, "4", ip, nil, 0, t(1)), "N"}
		}
		return []string{fmt.Sprintf("P,%d", t(int64(g.Rng.Pick(1, 301))))}
	}
	a, b := (idx/9)%4, (idx/36)%4
	ipA, ipB := x, y // different addresses ...
	switch (idx / 144) % 3 {
	case 1:
		ipA, ipB = y, y // ... the current address twice
	case 2:
		ipA, ipB = y, x
	}
	ops = append(ops, one(a, ipA)...)
	ops = append(ops, one(b, ipB)...)
	ops = append(ops, RxTok(m, "4", u.IP4s[6], nil, 3, t(1)), "N") // the DHCP path of Notify reads the offer
	ops = append(ops, RxTok(m, "4", y, nil, 0, t(1)), "N")
	return ops
}


// Candidates collects the distinct addresses and MACs mentioned in a configuration and an op list.
func Candidates(cfg Cfg, ops []string) (ips []netip.Addr, macs []net.HardwareAddr) {
	seenI := map[netip.Addr]bool{}
	seenM := map[string]bool{}
	addI := func(a netip.Addr) {
		if a.IsValid() && !seenI[a] {
			seenI[a] = true
			ips = append(ips, a)
		}
	}
	addM := func(m net.HardwareAddr) {
		if !seenM[string(m)] {
			seenM[string(m)] = true
			macs = append(macs, m)
		}
	}
	addI(cfg.OwnIP)
	addI(cfg.RtIP)
	addM(cfg.OwnMAC)
	addM(cfg.RtMAC)
	for _, op := range ops {
		f := strings.Split(op, ",")
		switch f[0] {
		case "R":
			if len(f[1]) == 12 {
				addM(ParseMac(f[1]))
			}
			addI(ParseIP(f[3]))
			addM(ParseMac(f[4]))
		case "B":
			// candidates only say WHICH addresses the views are asked for: take every position an address can
			// be read from (IPv4 source, ARP sender, IPv6 source), whether or not the frame is valid
			b := lib.UnHex(f[1])
			if len(b) >= 12 {
				addM(net.HardwareAddr(append([]byte{}, b[6:12]...)))
			}
			if len(b) >= 28 {
				addM(net.HardwareAddr(append([]byte{}, b[22:28]...)))
			}
			if len(b) >= 30 {
				addI(netip.AddrFrom4(*(*[4]byte)(b[26:30])))
			}
			if len(b) >= 32 {
				addI(netip.AddrFrom4(*(*[4]byte)(b[28:32])))
			}
			if len(b) >= 38 {
				addI(netip.AddrFrom16(*(*[16]byte)(b[22:38])))
			}
		case "U", "O":
			addM(ParseMac(f[1]))
			addI(ParseIP(f[2]))
		case "C", "L":
			addM(ParseMac(f[1]))
		case "M":
			addI(ParseIP(f[2]))
		}
	}
	sort.Slice(ips, func(i, j int) bool { return ips[i].Compare(ips[j]) < 0 })
	return
}

func IPsTok(l []netip.Addr) string {
	s := make([]string, len(l))
	for i, a := range l {
		s[i] = IPTok(a)
	}
	return strings.Join(s, "+")
}

func MacsTok(l []net.HardwareAddr) string {
	s := make([]string, len(l))
	for i, a := range l {
		s[i] = MacTok(a)
	}
	return strings.Join(s, "+")
}

func ParseIPs(s string) (l []netip.Addr) {
	for _, x := range strings.Split(s, "+") {
		l = append(l, ParseIP(x))
	}
	return
}

func ParseMacs(s string) (l []net.HardwareAddr) {
	for _, x := range strings.Split(s, "+") {
		l = append(l, ParseMac(x))
	}
	return
}

// ---------------------------------------------------------------- universe and generators

type Universe struct {
	MACs  []net.HardwareAddr
	IP4s  []netip.Addr
	IP6s  []netip.Addr
}

func StdUniverse() Universe {
	return Universe{
		MACs: []net.HardwareAddr{lib.HostMAC, lib.RouterMAC,
			{0x02, 0xaa, 0xaa, 0xaa, 0xaa, 0x01}, {0x02, 0xaa, 0xaa, 0xaa, 0xaa, 0x02}, {0x02, 0xaa, 0xaa, 0xaa, 0xaa, 0x03},
			{0x01, 0x00, 0x5e, 0x00, 0x00, 0xfb}},
		IP4s: []netip.Addr{lib.HostIP4, lib.RouterIP4, netip.MustParseAddr("192.168.0.1"), netip.MustParseAddr("192.168.0.2"),
			netip.MustParseAddr("192.168.0.3"), netip.MustParseAddr("10.0.0.1"), netip.MustParseAddr("0.0.0.0"),
			netip.MustParseAddr("192.168.0.255")},
		IP6s: []netip.Addr{netip.MustParseAddr("fe80::1"), netip.MustParseAddr("fe80::2"), netip.MustParseAddr("2001:db8::1"),
			netip.MustParseAddr("2001:db8::2"), netip.MustParseAddr("ff02::1"), netip.MustParseAddr("::"),
			netip.MustParseAddr("::ffff:192.168.0.1"),
			// further address classes (appended: the generators index the first seven): unique local fd00::/8 and fc00::/8,
			// a global address outside 2001:db8::/32, site-local, NAT64, 6to4
			netip.MustParseAddr("fd00::1"), netip.MustParseAddr("fc00::7"), netip.MustParseAddr("2600::1"),
			netip.MustParseAddr("fec0::1"), netip.MustParseAddr("64:ff9b::808:808"), netip.MustParseAddr("2002:c0a8:1::1")},
	}
}

// Gen produces random histories.
type Gen struct {
	U          Universe
	Rng        *lib.Rand
	Discipline bool // C06: Notify after every Rx
	ExplicitDrain bool // append an explicit D op after every step
	now        int64
	lastName   string
}

var timeSteps = []int64{0, 0, 1, 1, 10, 60, 100, 200, 299, 300, 301, 400, 3000, 3659, 3660, 3661, 4000}

// name draws a name token over all four attributes (each empty / 1 / 2): the empty entry, a Name only, one other
// attribute only, or any combination; every third draw repeats the previous token (an identical announcement).
func (g *Gen) name() string {
	if g.lastName != "" && g.Rng.Chance(33) {
		return g.lastName
	}
	n := 0
	r := g.Rng.Intn(100)
	switch {
	case r < 10:
	case r < 30:
		n = 1 + g.Rng.Intn(2)
	case r < 45:
		n = (1 + g.Rng.Intn(2)) * []int{10, 100, 1000}[g.Rng.Intn(3)]
	default:
		n = g.Rng.Intn(3) + 10*g.Rng.Intn(3) + 100*g.Rng.Intn(3) + 1000*g.Rng.Intn(3)
	}
	g.lastName = strconv.Itoa(n)
	return g.lastName
}

// nameOps: one announcement through Update*Name, with probability 1/2 repeated identically once or twice
// (the repeats must be quiet), sometimes through a second source as well.
func (g *Gen) nameOps(ip netip.Addr) []string {
	kd := g.Rng.Intn(5)
	op := fmt.Sprintf("M,%d,%s,%s", kd, IPTok(ip), g.name())
	ops := []string{op}
	if g.Rng.Chance(50) {
		for i := 0; i <= g.Rng.Intn(2); i++ {
			ops = append(ops, op)
		}
	}
	if g.Rng.Chance(15) {
		ops = append(ops, fmt.Sprintf("M,%d,%s,%s", (kd+1+g.Rng.Intn(4))%5, IPTok(ip), g.lastName))
	}
	return ops
}

func (g *Gen) clientMAC() net.HardwareAddr {
	// clients dominate; own, router and multicast MACs appear regularly
	r := g.Rng.Intn(100)
	switch {
	case r < 8:
		return g.U.MACs[0]
	case r < 20:
		return g.U.MACs[1]
	case r < 26:
		return g.U.MACs[5]
	default:
		return g.U.MACs[2+g.Rng.Intn(3)]
	}
}

func (g *Gen) anyIP() netip.Addr {
	if g.Rng.Chance(70) {
		return g.U.IP4s[g.Rng.Intn(len(g.U.IP4s))]
	}
	return g.U.IP6s[g.Rng.Intn(len(g.U.IP6s))]
}

func (g *Gen) advance() int64 {
	if g.Rng.Chance(55) {
		g.now += timeSteps[g.Rng.Intn(len(timeSteps))]
	}
	return g.now
}

// ip4For / ip6For: a client mostly keeps "its" address (repeat traffic), sometimes roams or collides.
func (g *Gen) ip4For(src net.HardwareAddr) netip.Addr {
	if g.Rng.Chance(55) {
		for i := 0; i < 3; i++ {
			if bytes.Equal(src, g.U.MACs[2+i]) {
				return g.U.IP4s[2+i]
			}
		}
		if bytes.Equal(src, g.U.MACs[1]) {
			return g.U.IP4s[1]
		}
	}
	return g.U.IP4s[g.Rng.Intn(len(g.U.IP4s))]
}

func (g *Gen) ip6For(src net.HardwareAddr) netip.Addr {
	if g.Rng.Chance(55) {
		for i := 0; i < 2; i++ {
			if bytes.Equal(src, g.U.MACs[2+i]) {
				return g.U.IP6s[i+2*g.Rng.Intn(2)]
			}
		}
	}
	return g.U.IP6s[g.Rng.Intn(len(g.U.IP6s))]
}

// RxOp draws one received frame.
func (g *Gen) RxOp() string {
	src := g.clientMAC()
	r := g.Rng.Intn(100)
	now := g.advance()
	switch {
	case r < 45:
		return RxTok(src, "4", g.ip4For(src), nil, g.Rng.Pick(0, 0, 1, 2, 3, 3, 4, 5, 6), now)
	case r < 65:
		return RxTok(src, "6", g.ip6For(src), nil, g.Rng.Pick(0, 1, 2, 3, 4), now)
	case r < 90:
		am := src
		if g.Rng.Chance(30) {
			am = g.U.MACs[g.Rng.Intn(len(g.U.MACs))]
		}
		return RxTok(src, "a", g.ip4For(am), am, g.Rng.Intn(2), now)
	case r < 95:
		return RxTok(src, "o", netip.Addr{}, nil, g.Rng.Intn(3), now)
	default:
		return RxTok(src, "x", netip.Addr{}, nil, g.Rng.Intn(4), now)
	}
}

// History draws n ops.
func (g *Gen) History(n int) []string {
	g.now = 0
	var ops []string
	for len(ops) < n {
		r := g.Rng.Intn(100)
		switch {
		case r < 50:
			ops = append(ops, g.RxOp())
			if g.Discipline || g.Rng.Chance(60) {
				ops = append(ops, "N")
			}
		case r < 53:
			if !g.Discipline { // a second Notify with an old frame is outside the property's discipline
				ops = append(ops, "N")
			}
		case r < 62:
			ip := g.anyIP()
			if g.Rng.Chance(10) {
				ip = netip.Addr{}
			}
			m := g.clientMAC()
			if g.Rng.Chance(50) {
				ip = g.ip4For(m)
			}
			ops = append(ops, fmt.Sprintf("U,%s,%s,%s,%d", MacTok(m), IPTok(ip), g.name(), g.advance()))
		case r < 66:
			ops = append(ops, fmt.Sprintf("O,%s,%s,%s", MacTok(g.clientMAC()), IPTok(g.anyIP()), g.name()))
		case r < 70:
			ops = append(ops, "C,"+MacTok(g.clientMAC()))
		case r < 73:
			ops = append(ops, "L,"+MacTok(g.clientMAC()))
		case r < 90:
			ops = append(ops, fmt.Sprintf("P,%d", g.advance()))
		default:
			ops = append(ops, g.nameOps(g.anyIP())...)
		}
		if g.Discipline && g.ExplicitDrain {
			ops = append(ops, "D")
		}
	}
	return ops
}

// PureHistory draws n units of the property's discipline: frame (R N), purge, name update, DHCP offer / update, Capture, Release
// (no DHCP offers, so the DHCP path of Notify stays silent; the t6 histories cover it).
func (g *Gen) PureHistory(n int) []string {
	g.now = 0
	var ops []string
	for i := 0; i < n; i++ {
		r := g.Rng.Intn(100)
		switch {
		case r < 66:
			ops = append(ops, g.RxOp(), "N")
		case r < 70: // a DHCP frame without host (source 0.0.0.0): the DHCP path of Notify
			ops = append(ops, RxTok(g.clientMAC(), "4", g.U.IP4s[6], nil, 3, g.advance()), "N")
		case r < 90:
			ops = append(ops, fmt.Sprintf("P,%d", g.advance()))
		case r < 94: // a learned name through one of the five Update*Name methods (with identical repeats)
			ops = append(ops, g.nameOps(g.anyIP())...)
		case r < 96: // DHCP: the server records an offer, the client's request is acknowledged
			ops = append(ops, fmt.Sprintf("O,%s,%s,%s", MacTok(g.clientMAC()), IPTok(g.anyIP()), g.name()))
		case r < 98:
			m := g.clientMAC()
			ops = append(ops, fmt.Sprintf("U,%s,%s,%s,%d", MacTok(m), IPTok(g.ip4For(m)), g.name(), g.advance()))
		case r < 99:
			ops = append(ops, "C,"+MacTok(g.clientMAC()))
		default:
			ops = append(ops, "L,"+MacTok(g.clientMAC()))
		}
	}
	return ops
}

// DrainShown drains the channel and prints the notifications (sorted by address when sorted is set).
func (sm *Sim) DrainShown(sorted bool, pairs bool) string {
	l := sm.Drain()
	if sorted {
		sort.SliceStable(l, func(i, j int) bool { return l[i].Addr.IP.Compare(l[j].Addr.IP) < 0 })
	}
	s := make([]string, len(l))
	if pairs { // pairs are compared sorted by address inside one unit
		sort.SliceStable(l, func(i, j int) bool { return l[i].Addr.IP.Compare(l[j].Addr.IP) < 0 })
	}
	for i, n := range l {
		if pairs {
			s[i] = IPTok(n.Addr.IP) + "/" + b01(n.Online)
		} else {
			s[i] = ShowNotif(n)
		}
	}
	return strings.Join(s, ",")
}

// Exhaustive enumerates every history of exactly `depth` letters over a 19-letter alphabet (frames of two
// clients on two LAN addresses incl. a collision, ARP, IPv6 LLA, router GUA, a DHCP frame without host,
// DHCPv4Update, two purge distances, Notify, Capture, SetOffer, a name update). Virtual time advances by one
// second per letter; the purge letters jump past the offline / purge deadline.
func Exhaustive(u Universe, depth int, discipline bool, f func(ops []string)) {
	c1, c2, rt := u.MACs[2], u.MACs[3], u.MACs[1]
	ipA, ipB, ipC := u.IP4s[2], u.IP4s[3], u.IP4s[4]
	type letter func(now *int64) []string
	rx := func(src net.HardwareAddr, class string, ip netip.Addr, am net.HardwareAddr, variant int) letter {
		return func(now *int64) []string {
			*now++
			ops := []string{RxTok(src, class, ip, am, variant, *now)}
			if discipline {
				ops = append(ops, "N")
			}
			return ops
		}
	}
	alphabet := []letter{
		rx(c1, "4", ipA, nil, 0), rx(c1, "4", ipB, nil, 1), rx(c2, "4", ipA, nil, 2), rx(c1, "a", ipA, c1, 0),
		rx(c1, "6", u.IP6s[0], nil, 0), rx(rt, "6", u.IP6s[2], nil, 2), rx(c1, "4", u.IP4s[6], nil, 3),
		rx(c2, "4", ipB, nil, 0), rx(c1, "4", ipC, nil, 0),
		rx(c1, "a", ipC, u.MACs[0], 1), rx(u.MACs[0], "a", ipC, c1, 1), // exactly one of Ethernet source / ARP sender is our own MAC
		func(now *int64) []string { *now++; return []string{fmt.Sprintf("U,%s,%s,1202,%d", MacTok(c2), IPTok(ipA), *now)} },
		func(now *int64) []string { *now++; return []string{fmt.Sprintf("U,%s,%s,2011,%d", MacTok(c1), IPTok(ipB), *now)} },
		func(now *int64) []string { *now += 301; return []string{fmt.Sprintf("P,%d", *now)} },
		func(now *int64) []string { *now += 3661; return []string{fmt.Sprintf("P,%d", *now)} },
		func(now *int64) []string { return []string{"C," + MacTok(c1)} },
		func(now *int64) []string { return []string{"O," + MacTok(c1) + "," + IPTok(ipC) + ",1022"} },
		func(now *int64) []string { return []string{"M,1," + IPTok(ipA) + ",1102"} },
	}
	if !discipline {
		alphabet = append(alphabet, func(now *int64) []string { return []string{"N"} })
	}
	idx := make([]int, depth)
	for {
		var now int64
		var ops []string
		for _, i := range idx {
			ops = append(ops, alphabet[i](&now)...)
		}
		f(ops)
		p := depth - 1
		for p >= 0 {
			idx[p]++
			if idx[p] < len(alphabet) {
				break
			}
			idx[p] = 0
			p--
		}
		if p < 0 {
			return
		}
	}
}


// ConflictHistory draws a history biased towards address conflicts between MACs: two or three client MACs
// compete for three LAN IPv4 addresses and keep IPv6 link-local addresses beside them, so that a MAC often
// owns several hosts (IPv4 + LLA, IPv4 + an older offline IPv4), loses one of them to another MAC (re-binding,
// or purge and later capture by the other MAC) and is then seen on a new IPv4 (frame, ARP or DHCPv4Update).
func (g *Gen) ConflictHistory(n int) []string {
	g.now = 0
	u := g.U
	macs := []net.HardwareAddr{u.MACs[2], u.MACs[3], u.MACs[4]}
	if g.Rng.Chance(50) {
		macs = macs[:2]
	}
	if g.Rng.Chance(15) {
		macs = append(macs, u.MACs[1]) // the router takes part
	}
	ip4 := []netip.Addr{u.IP4s[2], u.IP4s[3], u.IP4s[4]}
	lla := []netip.Addr{u.IP6s[0], u.IP6s[1]}
	step := func() int64 {
		g.now += int64(g.Rng.Pick(1, 1, 1, 5, 60, 200))
		return g.now
	}
	var ops []string
	frame := func(tok string) {
		ops = append(ops, tok)
		if g.Discipline || g.Rng.Chance(70) {
			ops = append(ops, "N")
		}
	}
	for len(ops) < n {
		m := macs[g.Rng.Intn(len(macs))]
		r := g.Rng.Intn(100)
		switch {
		case r < 40:
			frame(RxTok(m, "4", ip4[g.Rng.Intn(len(ip4))], nil, g.Rng.Pick(0, 1, 2, 3), step()))
		case r < 52:
			am, es := m, m
			switch g.Rng.Intn(8) {
			case 0, 1:
				am = macs[g.Rng.Intn(len(macs))]
			case 2:
				am = u.MACs[0] // ARP sender hardware address = our own MAC, Ethernet source a client
			case 3:
				es = u.MACs[0] // Ethernet source = our own MAC, ARP sender a client
			}
			frame(RxTok(es, "a", ip4[g.Rng.Intn(len(ip4))], am, g.Rng.Intn(2), step()))
		case r < 64:
			frame(RxTok(m, "6", lla[g.Rng.Intn(len(lla))], nil, g.Rng.Pick(0, 2), step()))
		case r < 76:
			ops = append(ops, fmt.Sprintf("U,%s,%s,%s,%d", MacTok(m), IPTok(ip4[g.Rng.Intn(len(ip4))]), g.name(), step()))
		case r < 80:
			ops = append(ops, fmt.Sprintf("O,%s,%s,%s", MacTok(m), IPTok(ip4[g.Rng.Intn(len(ip4))]), g.name()))
		case r < 84:
			frame(RxTok(m, "4", u.IP4s[6], nil, 3, step())) // DHCP frame without host
		case r < 88:
			ops = append(ops, fmt.Sprintf("M,%d,%s,%s", g.Rng.Intn(5), IPTok(ip4[g.Rng.Intn(len(ip4))]), g.name()))
		case r < 95:
			g.now += int64(g.Rng.Pick(290, 301, 301, 400))
			ops = append(ops, fmt.Sprintf("P,%d", g.now))
		default:
			g.now += int64(g.Rng.Pick(3661, 4000))
			ops = append(ops, fmt.Sprintf("P,%d", g.now))
		}
	}
	return ops
}

// OfferDeletionHistory: SetDHCPv4IPOffer(mac, Y) while mac's ONLY host is X != Y, then that host is deleted,
// by ageing and purge or by re-binding of X from another MAC, followed by further traffic of both MACs.
func (g *Gen) OfferDeletionHistory() []string {
	g.now = 0
	u := g.U
	m1, m2 := u.MACs[2+g.Rng.Intn(2)], u.MACs[4]
	x, y, z := u.IP4s[2], u.IP4s[3], u.IP4s[4]
	if g.Rng.Chance(30) {
		x = u.IP6s[0] // the only host is an IPv6 link-local address
	}
	t := func(d int64) int64 { g.now += d; return g.now }
	cls := "4"
	if !x.Is4() {
		cls = "6"
	}
	var ops []string
	offer := fmt.Sprintf("O,%s,%s,%s", MacTok(m1), IPTok(y), g.name())
	if g.Rng.Chance(50) {
		ops = append(ops, offer, RxTok(m1, cls, x, nil, 0, t(1)), "N")
	} else {
		ops = append(ops, RxTok(m1, cls, x, nil, 0, t(1)), "N", offer)
	}
	if g.Rng.Chance(30) {
		ops = append(ops, "C,"+MacTok(m1))
	}
	switch g.Rng.Intn(3) {
	case 0: // ageing, then purge
		ops = append(ops, fmt.Sprintf("P,%d", t(301)), fmt.Sprintf("P,%d", t(3661)))
	case 1: // re-binding by another MAC
		ops = append(ops, RxTok(m2, cls, x, nil, 1, t(2)), "N")
	default: // re-binding through DHCPv4Update of another MAC
		ops = append(ops, fmt.Sprintf("U,%s,%s,1,%d", MacTok(m2), IPTok(x), t(2)))
	}
	// afterwards: the DHCP path, the offered address, a new address of the first MAC
	for i := 0; i < 1+g.Rng.Intn(4); i++ {
		switch g.Rng.Intn(5) {
		case 0:
			ops = append(ops, RxTok(m1, "4", u.IP4s[6], nil, 3, t(1)), "N")
		case 1:
			ops = append(ops, RxTok(m1, "4", y, nil, 0, t(1)), "N")
		case 2:
			ops = append(ops, fmt.Sprintf("U,%s,%s,2,%d", MacTok(m1), IPTok(z), t(1)))
		case 3:
			ops = append(ops, RxTok(m2, "4", y, nil, 0, t(1)), "N")
		case 4:
			ops = append(ops, fmt.Sprintf("P,%d", t(301)))
		}
	}
	return ops
}

// QuietAddressHistory: a MAC with two tracked addresses; address A goes silent (offline by IP change, or just
// silent) while the MAC keeps sending from the second address. Purges are placed at last(A)+OfflineDeadline+-1,
// last(A)+PurgeDeadline+-1 and relative to the second address's (= the MAC entry's) last-seen time, so that
// "goes offline" and "is removed" are decided between the host's and the MAC entry's timestamps.
func (g *Gen) QuietAddressHistory() []string {
	u := g.U
	m := u.MACs[2+g.Rng.Intn(3)]
	a := u.IP4s[2+g.Rng.Intn(3)]
	var second netip.Addr
	cls := "6"
	switch g.Rng.Intn(3) {
	case 0:
		second = u.IP6s[g.Rng.Intn(2)] // link-local beside the IPv4 address: A stays online until it ages
	case 1:
		second = u.IP6s[2+g.Rng.Intn(2)] // global
	default:
		second, cls = u.IP4s[2+(g.Rng.Intn(2)+1+indexOf(u.IP4s, a)-2)%3], "4" // IP change: A offline at once
	}
	type ev struct {
		t   int64
		ops []string
	}
	var evs []ev
	lastA := int64(g.Rng.Intn(50))
	evs = append(evs, ev{lastA, []string{RxTok(m, "4", a, nil, g.Rng.Intn(3), lastA), "N"}})
	period := int64(g.Rng.Pick(120, 200, 250, 290))
	horizon := lastA + 3660 + 400
	for t := lastA + 1 + int64(g.Rng.Intn(40)); t < horizon; t += period {
		evs = append(evs, ev{t, []string{RxTok(m, cls, second, nil, 0, t), "N"}})
	}
	crit := []int64{lastA + 299, lastA + 300, lastA + 301, lastA + 302, lastA + 3659, lastA + 3660, lastA + 3661, lastA + 3662}
	for _, c := range crit {
		if g.Rng.Chance(45) {
			evs = append(evs, ev{c, []string{fmt.Sprintf("P,%d", c)}})
		}
	}
	// purges relative to the active address's last frame
	for i := 0; i < 2; i++ {
		k := 1 + g.Rng.Intn(len(evs)-1)
		t := evs[k].t + int64(g.Rng.Pick(1, 150, 299, 300, 301))
		evs = append(evs, ev{t, []string{fmt.Sprintf("P,%d", t)}})
	}
	if g.Rng.Chance(25) { // A speaks once more somewhere in the quiet period
		t := lastA + int64(g.Rng.Pick(100, 305, 2000))
		evs = append(evs, ev{t, []string{RxTok(m, "4", a, nil, 0, t), "N"}})
	}
	sort.SliceStable(evs, func(i, j int) bool { return evs[i].t < evs[j].t })
	var ops []string
	for _, e := range evs {
		ops = append(ops, e.ops...)
	}
	return ops
}

func indexOf(l []netip.Addr, a netip.Addr) int {
	for i, x := range l {
		if x == a {
			return i
		}
	}
	return 0
}


// RawOps rewrites every "R,..." op (frame recipe + summary) of a history into a "B,<hex>,<now>" op that carries
// the frame BYTES only. With probability `damage` percent the frame is damaged first: truncated at a random
// offset, a random byte changed, a length field changed, trailing bytes appended, a VLAN tag type written, or
// replaced by random bytes. Damaged frames must be no-ops on the tables unless Parse accepts them.
func RawOps(ops []string, rng *lib.Rand, damage int, stat func(string)) []string {
	out := make([]string, len(ops))
	for i, op := range ops {
		if !strings.HasPrefix(op, "R,") {
			out[i] = op
			continue
		}
		f := strings.Split(op, ",")
		v, _ := strconv.Atoi(f[7])
		src := f[1]
		if f[2] == "x" && v == 0 {
			src = "020000000000"
		}
		frame := BuildFrame(ParseMac(src), f[2], ParseIP(f[3]), ParseMac(f[4]), v)
		if rng.Chance(damage) && len(frame) > 0 {
			switch rng.Intn(7) {
			case 0:
				frame = frame[:rng.Intn(len(frame))]
				stat("damage.truncate")
			case 1:
				frame = append([]byte{}, frame...)
				frame[rng.Intn(len(frame))] = rng.Byte()
				stat("damage.byte")
			case 2: // a length field: IPv4 total length / IHL, IPv6 payload length, ARP hlen
				frame = append([]byte{}, frame...)
				if len(frame) > 20 {
					frame[14+rng.Pick(0, 2, 3, 4, 5)] = byte(rng.Pick(0, 1, 4, 5, 6, 0x45, 0x4f, 0x46, 255))
				}
				stat("damage.length-field")
			case 3:
				frame = append(append([]byte{}, frame...), rng.Bytes(1+rng.Intn(8))...)
				stat("damage.trailing")
			case 4: // 802.1Q / 802.1ad type in front of whatever follows
				frame = append([]byte{}, frame...)
				if len(frame) >= 14 {
					frame[12], frame[13] = 0x81, 0x00
					if rng.Bool() {
						frame[12], frame[13] = 0x88, 0xa8
					}
					frame = frame[:14+rng.Intn(len(frame)-13)]
				}
				stat("damage.vlan")
			case 5:
				frame = rng.Bytes(rng.Intn(64))
				stat("damage.random")
			case 6: // truncate inside layer 4: the host is created, then Parse returns an error
				if len(frame) > 38 {
					frame = frame[:34+rng.Intn(len(frame)-34)]
				}
				stat("damage.l4")
			}
		}
		stat("minidecoder.class." + Decode(frame).Class)
		out[i] = "B," + lib.Hex(frame) + "," + f[6]
	}
	return out
}


// DHCPExchangeHistory: the DHCP name path. A client is online and announced on X (optionally with a DHCP name
// already learned and notified); then one or more DHCP exchanges as the DHCP server drives them:
// SetDHCPv4IPOffer(mac, offer, name) on DISCOVER (offer = the current address or another one; name the same,
// a changed or an empty one), DHCPv4Update(mac, ip, name) on REQUEST (ip = offer, current address or a third),
// followed by Notify through the DHCP path (frame without host, classified DHCPv4) and/or through the normal
// path (a frame from the host), interleaved with purges, name updates from other sources and a second MAC.
func (g *Gen) DHCPExchangeHistory() []string {
	g.now = 0
	u := g.U
	m := u.MACs[2+g.Rng.Intn(3)]
	other := u.MACs[2+(g.Rng.Intn(2)+1+indexOfMAC(u.MACs, m)-2)%3]
	ip4 := []netip.Addr{u.IP4s[2], u.IP4s[3], u.IP4s[4]}
	x := ip4[g.Rng.Intn(3)]
	t := func(d int64) int64 { g.now += d; return g.now }
	name := g.name
	dhcpFrame := func() []string { return []string{RxTok(m, "4", u.IP4s[6], nil, 3, t(1)), "N"} }
	hostFrame := func(ip netip.Addr) []string { return []string{RxTok(m, "4", ip, nil, g.Rng.Pick(0, 1, 2), t(1)), "N"} }
	var ops []string
	// online and announced on X, possibly with a name already learned and delivered
	ops = append(ops, hostFrame(x)...)
	cur := x
	if g.Rng.Chance(60) {
		ops = append(ops, fmt.Sprintf("U,%s,%s,%s,%d", MacTok(m), IPTok(x), name(), t(1)))
		if g.Rng.Chance(50) {
			ops = append(ops, dhcpFrame()...)
		} else {
			ops = append(ops, hostFrame(x)...)
		}
	}
	for i := 0; i < 1+g.Rng.Intn(3); i++ {
		n1 := name()
		n2 := n1
		if g.Rng.Chance(25) {
			n2 = name()
		}
		offer := cur
		if g.Rng.Chance(35) {
			offer = ip4[g.Rng.Intn(3)]
		}
		req := offer
		if g.Rng.Chance(20) {
			req = ip4[g.Rng.Intn(3)]
		}
		steps := g.Rng.Pick(0, 0, 0, 1, 2) // 0: offer+update, 1: offer only, 2: update only
		if steps != 2 {
			ops = append(ops, fmt.Sprintf("O,%s,%s,%s", MacTok(m), IPTok(offer), n1))
		}
		if g.Rng.Chance(30) {
			ops = append(ops, dhcpFrame()...) // the DISCOVER/REQUEST frame itself, before the update
		}
		if steps != 1 {
			ops = append(ops, fmt.Sprintf("U,%s,%s,%s,%d", MacTok(m), IPTok(req), n2, t(1)))
			cur = req
		}
		switch g.Rng.Intn(4) {
		case 0:
			ops = append(ops, dhcpFrame()...)
		case 1:
			ops = append(ops, hostFrame(cur)...)
		case 2:
			ops = append(ops, dhcpFrame()...)
			ops = append(ops, hostFrame(cur)...)
		case 3:
			ops = append(ops, hostFrame(cur)...)
			ops = append(ops, dhcpFrame()...)
		}
		switch g.Rng.Intn(6) {
		case 0:
			ops = append(ops, fmt.Sprintf("P,%d", t(int64(g.Rng.Pick(100, 301)))))
		case 1:
			ops = append(ops, fmt.Sprintf("M,%d,%s,%s", g.Rng.Intn(5), IPTok(cur), name()))
		case 2:
			ops = append(ops, RxTok(other, "4", ip4[g.Rng.Intn(3)], nil, 0, t(1)), "N")
		case 3:
			ops = append(ops, fmt.Sprintf("P,%d", t(3661)))
		}
	}
	if g.Rng.Chance(50) {
		ops = append(ops, hostFrame(cur)...) // repeat traffic at the end: must be quiet if nothing is owed
	}
	return ops
}

func indexOfMAC(l []net.HardwareAddr, m net.HardwareAddr) int {
	for i, x := range l {
		if bytes.Equal(x, m) {
			return i
		}
	}
	return 0
}

// NameRepeatHistory: the learned-name class. A client is online and announced on an address (IPv4 or IPv6
// link-local); entries over all four attributes (Name, Model, OS, Manufacturer; each empty / 1 / 2) are announced
// through the five Update*Name sources and through DHCPv4Update / SetDHCPv4IPOffer. Each announcement is followed
// by any of: the identical entry again (1-2 times, before and after the notification is delivered), a frame from
// the address (delivers what is owed; quiet afterwards), the DHCP path, a purge to offline and a return.
// The next entry differs from the previous one in one to three attributes (some of them only by being empty,
// which teaches nothing). Expectation: one notification per real change of the learned names, none on a repeat.
func (g *Gen) NameRepeatHistory() []string {
	g.now = 0
	u := g.U
	m := u.MACs[2+g.Rng.Intn(3)]
	other := u.MACs[2+(g.Rng.Intn(2)+1+indexOfMAC(u.MACs, m)-2)%3]
	x := u.IP4s[2+g.Rng.Intn(3)]
	class := "4"
	if g.Rng.Chance(25) {
		x, class = u.IP6s[g.Rng.Intn(2)], "6"
	}
	t := func(d int64) int64 { g.now += d; return g.now }
	frame := func() []string { return []string{RxTok(m, class, x, nil, g.Rng.Pick(0, 1, 2), t(1)), "N"} }
	dhcpFrame := func() []string { return []string{RxTok(m, "4", u.IP4s[6], nil, 3, t(1)), "N"} }
	ent := [4]int{}
	tok := func() string { return strconv.Itoa(ent[0] + 10*ent[1] + 100*ent[2] + 1000*ent[3]) }
	mutate := func() {
		for i := 0; i <= g.Rng.Intn(3); i++ {
			ent[g.Rng.Intn(4)] = g.Rng.Intn(3)
		}
	}
	for i := range ent {
		ent[i] = g.Rng.Intn(3)
	}
	if ent == [4]int{} || g.Rng.Chance(40) {
		ent[0], ent[3] = 1+g.Rng.Intn(2), 1+g.Rng.Intn(2) // Name and Manufacturer (first and last attribute merged) together
	}
	ops := frame()
	for round := 0; round < 2+g.Rng.Intn(3); round++ {
		src := g.Rng.Intn(7) // 0..4 Update*Name, 5 DHCPv4Update, 6 SetDHCPv4IPOffer then DHCPv4Update
		if class == "6" && src > 4 {
			src = g.Rng.Intn(5)
		}
		announce := func() []string {
			switch {
			case src < 5:
				return []string{fmt.Sprintf("M,%d,%s,%s", src, IPTok(x), tok())}
			case src == 5:
				return []string{fmt.Sprintf("U,%s,%s,%s,%d", MacTok(m), IPTok(x), tok(), t(1))}
			}
			return []string{fmt.Sprintf("O,%s,%s,%s", MacTok(m), IPTok(x), tok()),
				fmt.Sprintf("U,%s,%s,%s,%d", MacTok(m), IPTok(x), tok(), t(1))}
		}
		ops = append(ops, announce()...)
		for i := 0; i < g.Rng.Intn(3); i++ { // identical repeats before delivery
			ops = append(ops, announce()...)
		}
		switch g.Rng.Intn(6) { // delivery
		case 0:
			if src >= 5 {
				ops = append(ops, dhcpFrame()...)
			} else {
				ops = append(ops, frame()...)
			}
		case 1:
			ops = append(ops, fmt.Sprintf("P,%d", t(301)))
			ops = append(ops, frame()...)
		default:
			ops = append(ops, frame()...)
		}
		for i := 0; i < 1+g.Rng.Intn(2); i++ { // identical repeats after delivery: nothing is owed, the next frames are quiet
			ops = append(ops, announce()...)
			if g.Rng.Chance(70) {
				ops = append(ops, frame()...)
			}
			if src >= 5 && g.Rng.Chance(30) {
				ops = append(ops, dhcpFrame()...)
			}
		}
		switch g.Rng.Intn(8) {
		case 0:
			ops = append(ops, RxTok(other, "4", u.IP4s[2+g.Rng.Intn(3)], nil, 0, t(1)), "N")
		case 1:
			ops = append(ops, fmt.Sprintf("P,%d", t(int64(g.Rng.Pick(100, 301)))))
		case 2: // the same entry through another source
			ops = append(ops, fmt.Sprintf("M,%d,%s,%s", g.Rng.Intn(5), IPTok(x), tok()))
		}
		mutate()
	}
	ops = append(ops, frame()...)
	return ops
}

// DeadlineCfgs: the standard configuration with other (Probe, Offline, Purge) deadlines: the defaults, every ordering of
// the three that NewSession accepts (it requires only Probe <= Offline), equal values, very small and very large ones.
func DeadlineCfgs() []Cfg {
	var l []Cfg
	for _, d := range [][3]int64{
		{120, 300, 3660},                    // defaults: Probe < Offline < Purge
		{120, 300, 60}, {120, 300, 119},     // Purge < Probe <= Offline
		{60, 300, 120}, {120, 300, 121}, {10, 50, 30}, // Probe < Purge < Offline
		{120, 300, 300}, {120, 120, 3660}, {120, 120, 120}, {60, 60, 60}, {120, 300, 120}, // equal values
		{1, 1, 1}, {1, 2, 1}, {1, 1, 3}, {2, 3, 1}, {1, 5, 2}, // very small
		{1800, 3600, 86400}, {1, 3600, 86400}, {1800, 1800, 1}, {1800, 3600, 600}, {1, 1, 86400}, // very large / extreme mixes
	} {
		c := StdCfg()
		c.ProbeSec, c.OfflineSec, c.PurgeSec = d[0], d[1], d[2]
		l = append(l, c)
	}
	return l
}

// DeadlineHistory: purges straddling each of the three cutoffs of cfg, for an address A of a client MAC that goes
// offline by AGEING (silent; the MAC stays active on a link-local address, or is silent as well) or by IPv4
// SUPERSESSION (the MAC is seen on A and right after on B: A is offline with a fresh last-seen time). Purges are placed
// at last(A)+D-1..D+2 for D in {Probe, Offline, Purge, Offline+Purge}, relative to the second address's frames, and
// a pass or two later (removal needs the host offline at the pass). A may speak again in between.
func (g *Gen) DeadlineHistory(cfg Cfg) []string {
	u := g.U
	m := u.MACs[2+g.Rng.Intn(3)]
	a := u.IP4s[2+g.Rng.Intn(3)]
	type ev struct {
		t   int64
		ops []string
	}
	var evs []ev
	lastA := int64(1 + g.Rng.Intn(30))
	evs = append(evs, ev{lastA, []string{RxTok(m, "4", a, nil, g.Rng.Intn(3), lastA), "N"}})
	dls := []int64{cfg.ProbeSec, cfg.OfflineSec, cfg.PurgeSec, cfg.OfflineSec + cfg.PurgeSec}
	minDL, maxDL := dls[0], dls[3]
	for _, d := range dls[:3] {
		if d < minDL {
			minDL = d
		}
	}
	horizon := lastA + maxDL + 5
	mode := g.Rng.Intn(4) // 0,1: supersession; 2: ageing beside an active link-local address; 3: ageing, MAC silent
	var second netip.Addr
	cls := "4"
	switch mode {
	case 0, 1:
		second = u.IP4s[2+(g.Rng.Intn(2)+1+indexOf(u.IP4s, a)-2)%3]
	case 2:
		second, cls = u.IP6s[g.Rng.Intn(2)], "6"
	}
	if mode != 3 {
		t := lastA + int64(g.Rng.Pick(0, 1, 1, 2, 10))
		if mode == 1 && g.Rng.Chance(50) { // supersession through DHCPv4Update instead of a frame
			evs = append(evs, ev{t, []string{fmt.Sprintf("U,%s,%s,%s,%d", MacTok(m), IPTok(second), g.name(), t)}})
		} else {
			evs = append(evs, ev{t, []string{RxTok(m, cls, second, nil, 0, t), "N"}})
		}
		if g.Rng.Chance(60) { // the second address keeps talking (at most a dozen frames)
			period := minDL/2 + 1
			if horizon/12 > period {
				period = horizon/12 + int64(g.Rng.Intn(3))
			}
			for t += period; t < horizon; t += period {
				evs = append(evs, ev{t, []string{RxTok(m, cls, second, nil, 0, t), "N"}})
			}
		}
	}
	purgeAt := func(t int64) { evs = append(evs, ev{t, []string{fmt.Sprintf("P,%d", t)}}) }
	for _, d := range dls {
		for _, e := range []int64{-1, 0, 1, 2} {
			if g.Rng.Chance(45) && lastA+d+e > lastA {
				purgeAt(lastA + d + e)
			}
		}
	}
	for i := 0; i < 2; i++ { // relative to some other event (the second address's frames)
		k := g.Rng.Intn(len(evs))
		purgeAt(evs[k].t + dls[g.Rng.Intn(3)] + int64(g.Rng.Pick(0, 1, 1, 2)))
	}
	if g.Rng.Chance(25) { // A speaks once more
		t := lastA + dls[g.Rng.Intn(3)] + int64(g.Rng.Pick(-1, 0, 1, 3))
		if t > lastA {
			evs = append(evs, ev{t, []string{RxTok(m, "4", a, nil, 0, t), "N"}})
		}
	}
	if g.Rng.Chance(20) { // another MAC takes A over
		t := lastA + dls[g.Rng.Intn(3)] + int64(g.Rng.Pick(-1, 1))
		if t > lastA {
			other := u.MACs[2+(g.Rng.Intn(2)+1+indexOfMAC(u.MACs, m)-2)%3]
			evs = append(evs, ev{t, []string{RxTok(other, "4", a, nil, 0, t), "N"}})
		}
	}
	sort.SliceStable(evs, func(i, j int) bool { return evs[i].t < evs[j].t })
	var ops []string
	for _, e := range evs {
		ops = append(ops, e.ops...)
	}
	last := evs[len(evs)-1].t
	ops = append(ops, fmt.Sprintf("P,%d", last+1), fmt.Sprintf("P,%d", last+1+maxDL)) // two closing passes
	return ops
}

// ---------------------------------------------------------------- large tables (kind t5s: "S" = dump here)

func scaleIP6(i int) netip.Addr {
	b := netip.MustParseAddr("2001:db8::").As16()
	b[13], b[14], b[15] = 0x10, byte(i>>8), byte(i)
	return netip.AddrFrom16(b)
}

func scaleIP4(i int) netip.Addr { // i-th LAN address that is neither ours nor the router's
	n := 0
	for x := 1; x < 255; x++ {
		ip := netip.AddrFrom4([4]byte{192, 168, 0, byte(x)})
		if ip == lib.HostIP4 || ip == lib.RouterIP4 {
			continue
		}
		if n == i {
			return ip
		}
		n++
	}
	panic("scaleIP4")
}

// ManyAddrsHistory: ONE client MAC with n tracked addresses: IPv4 addresses (each new one supersedes the previous,
// which stays tracked offline), a link-local address and many IPv6 privacy addresses, learned through Parse and
// through DHCPv4Update. Dumps ("S") at 31, 32, 33, 34 addresses, at n, after a purge past the offline deadline while one
// address keeps talking, and after the purge that removes the silent ones. One second per op.
func (g *Gen) ManyAddrsHistory(n int, discipline bool) []string {
	u := g.U
	m := u.MACs[2+g.Rng.Intn(3)]
	now := int64(0)
	var ops []string
	n4, n6 := 0, 0
	rx := func(cls string, ip netip.Addr) {
		now++
		ops = append(ops, RxTok(m, cls, ip, nil, 0, now))
		if discipline || g.Rng.Chance(50) {
			ops = append(ops, "N")
		}
	}
	rx("6", u.IP6s[0]) // link-local
	for k := 1; k < n; k++ {
		switch r := g.Rng.Intn(10); {
		case r < 2 && n4 < 200:
			rx("4", scaleIP4(n4))
			n4++
		case r < 4 && n4 < 200:
			now++
			ops = append(ops, fmt.Sprintf("U,%s,%s,%s,%d", MacTok(m), IPTok(scaleIP4(n4)), g.name(), now))
			n4++
		default:
			rx("6", scaleIP6(n6))
			n6++
		}
		if k+1 >= 31 && k+1 <= 34 || k+1 == 64 || k+1 == 65 || k+1 == 128 || k+1 == 129 {
			ops = append(ops, "S")
		}
	}
	ops = append(ops, "S")
	keep := func() { rx("6", u.IP6s[0]) }
	keep()
	now += 300
	ops = append(ops, fmt.Sprintf("P,%d", now), "S") // everything but the link-local address ages
	keep()
	rx("6", scaleIP6(0)) // one aged address returns
	ops = append(ops, "S")
	now += 3661
	ops = append(ops, fmt.Sprintf("P,%d", now), "S") // the link-local address ages, the offline ones are removed
	rx("4", scaleIP4(0))
	ops = append(ops, fmt.Sprintf("P,%d", now+3662+300), fmt.Sprintf("P,%d", now+2*3662+300))
	return ops
}

// ManyMACsHistory: n client MACs with one address each (IPv4 in the LAN for the first 240, IPv6 global beyond),
// some with a link-local address beside it; dumps after the growth, after a purge past the offline deadline with a
// part of the clients still talking, and after the purge that removes the silent ones.
func (g *Gen) ManyMACsHistory(n int, discipline bool) []string {
	now := int64(0)
	var ops []string
	mac := func(i int) net.HardwareAddr { return net.HardwareAddr{0x02, 0xbb, 0xbb, 0xbb, byte(i >> 8), byte(i)} }
	addr := func(i int) (string, netip.Addr) {
		if i < 240 {
			return "4", scaleIP4(i)
		}
		return "6", scaleIP6(i)
	}
	rx := func(i int, cls string, ip netip.Addr) {
		now++
		ops = append(ops, RxTok(mac(i), cls, ip, nil, 0, now))
		if discipline || g.Rng.Chance(50) {
			ops = append(ops, "N")
		}
	}
	hosts := 0
	for i := 0; hosts < n; i++ {
		cls, ip := addr(i)
		rx(i, cls, ip)
		hosts++
		if g.Rng.Chance(10) && hosts < n {
			b := netip.MustParseAddr("fe80::").As16()
			b[14], b[15] = byte(i>>8), byte(i+1)
			rx(i, "6", netip.AddrFrom16(b))
			hosts++
		}
	}
	ops = append(ops, "S")
	now += 200
	for i := 0; i < 40; i++ { // a part keeps talking
		j := g.Rng.Intn(n / 2)
		cls, ip := addr(j)
		rx(j, cls, ip)
	}
	now += 150
	ops = append(ops, fmt.Sprintf("P,%d", now), "S")
	for i := 0; i < 10; i++ { // some return on a new IPv4 address (supersession) or by DHCPv4Update
		j := g.Rng.Intn(100)
		now++
		if i%2 == 0 {
			ops = append(ops, RxTok(mac(j), "4", scaleIP4(241+i), nil, 0, now), "N")
		} else {
			ops = append(ops, fmt.Sprintf("U,%s,%s,%s,%d", MacTok(mac(j)), IPTok(scaleIP4(241+i)), g.name(), now))
		}
	}
	now += 3661
	ops = append(ops, fmt.Sprintf("P,%d", now), "S", fmt.Sprintf("P,%d", now+3661), "S")
	return ops
}

// ---------------------------------------------------------------- concurrent executions (kind t5q)

// ConcurrentRun executes a random workload under the supported concurrency pattern and returns, at quiescence (all
// goroutines joined), the verdict of the invariant oracle and of PrintTable:
//   - the packet loop goroutine: Parse, Notify with that Parse's frame, and what handlers call from the loop
//     (DHCPv4Update, SetDHCPv4IPOffer, Update*Name), one operation at a time;
//   - the purge goroutine: purge at now, now+Offline+1 s, now+Purge+1 s (wall-clock LastSeen values; only Inv matters);
//   - a control goroutine: Capture, Release and the read-only views (FindIP, GetHosts, IPAddrs, FindByMAC, PrintTable);
//   - a drain goroutine reading the notification channel.
// No linearisation is attempted: the observation is Inv at the quiescent point, which holds after every sequential
// history (C05_history) and must survive the interleaving.
func ConcurrentRun(cfg Cfg, seed uint64, n int) (verdict string, ops int) {
	sm := NewSim(cfg, 0)
	defer sm.Close()
	s := sm.S
	rng := lib.NewRand(seed)
	g := &Gen{U: StdUniverse(), Rng: rng.Fork()}
	u := g.U
	loopOps := g.ConflictHistory(n)
	if rng.Chance(50) {
		loopOps = g.History(n)
	}
	type ctl struct {
		kind int
		mac  net.HardwareAddr
		ip   netip.Addr
	}
	var ctls []ctl
	crng := rng.Fork()
	for i := 0; i < n; i++ {
		ctls = append(ctls, ctl{crng.Intn(7), u.MACs[crng.Intn(len(u.MACs))], u.IP4s[crng.Intn(len(u.IP4s))]})
	}
	prng := rng.Fork()
	var purges []time.Duration
	for i := 0; i < n/2+1; i++ {
		purges = append(purges, time.Duration(prng.Pick(0, 0, int(cfg.OfflineSec)+1, int(cfg.OfflineSec)+1, int(cfg.PurgeSec)+1))*time.Second)
	}
	var wg sync.WaitGroup
	var panicked atomic.Value
	guard := func(f func()) {
		defer wg.Done()
		defer func() {
			if e := recover(); e != nil {
				panicked.Store(fmt.Sprint(e))
			}
		}()
		f()
	}
	stopDrain := make(chan struct{})
	drained := make(chan struct{})
	go func() {
		defer close(drained)
		for {
			select {
			case <-s.C:
			case <-stopDrain:
				return
			}
		}
	}()
	wg.Add(3)
	go guard(func() { // the packet loop
		var buf [2048]byte
		var last packet.Frame
		have := false
		for _, tok := range loopOps {
			f := strings.Split(tok, ",")
			switch f[0] {
			case "R":
				v, _ := strconv.Atoi(f[7])
				fr := BuildFrame(ParseMac(f[1]), f[2], ParseIP(f[3]), ParseMac(f[4]), v)
				k := copy(buf[:], fr)
				last, _ = s.Parse(buf[:k])
				have = true
			case "N":
				// Notify directly after its Parse only (a frame whose host was deleted in between is the caller's
				// responsibility in the loop: the loop calls Notify at once)
				if have {
					s.Notify(last)
					have = false
				}
			case "U":
				s.DHCPv4Update(ParseMac(f[1]), ParseIP(f[2]), EntryOf(f[3], "dhcp4"))
			case "O":
				s.SetDHCPv4IPOffer(ParseMac(f[1]), ParseIP(f[2]), EntryOf(f[3], "dhcp4"))
			case "M":
				if h := s.FindIP(ParseIP(f[2])); h != nil {
					h.UpdateMDNSName(EntryOf(f[3], "t"))
				}
			}
			runtime.Gosched()
		}
	})
	go guard(func() { // the purge goroutine
		for _, d := range purges {
			s.VerifPurge(time.Now().Add(d))
			runtime.Gosched()
		}
	})
	go guard(func() { // control API and views
		for _, c := range ctls {
			switch c.kind {
			case 0:
				s.Capture(c.mac)
			case 1:
				s.Release(c.mac)
			case 2:
				s.FindIP(c.ip)
			case 3:
				s.GetHosts()
			case 4:
				s.IPAddrs(c.mac)
			case 5:
				s.FindByMAC(c.mac)
			case 6:
				s.PrintTable()
			}
			runtime.Gosched()
		}
	})
	wg.Wait()
	close(stopDrain)
	<-drained
	if p := panicked.Load(); p != nil {
		return "panic:" + p.(string), len(loopOps)
	}
	inv := sm.InvOracle()
	return "inv=" + map[bool]string{true: "1", false: "0:" + inv}[inv == ""] + "|pt=" + sm.PrintTable(), len(loopOps)
}

// FullChannelHistory (kind t6n, no implicit drain, no purge): one client MAC learns n addresses (Parse;Notify each, some
// through DHCPv4Update + DHCP-path Notify), so the channel holds n notifications and overflows above 128; new IPv4
// addresses then supersede the previous one (makeOffline with the channel full: the offline notification is dropped
// and no longer pending); Notify is called twice now and then; a drain; afterwards repeat traffic must be silent
// (what was dropped is not reported later) and new transitions are reported again.
func (g *Gen) FullChannelHistory(n int) []string {
	u := g.U
	m := u.MACs[2+g.Rng.Intn(3)]
	now := int64(0)
	var ops []string
	n4 := 0
	rx := func(cls string, ip netip.Addr) {
		now++
		ops = append(ops, RxTok(m, cls, ip, nil, 0, now), "N")
		if g.Rng.Chance(20) {
			ops = append(ops, "N")
		}
	}
	rx("6", u.IP6s[0])
	for k := 1; k < n; k++ {
		switch r := g.Rng.Intn(10); {
		case r < 2:
			rx("4", scaleIP4(n4))
			n4++
		case r < 3:
			now++
			ops = append(ops, fmt.Sprintf("U,%s,%s,%s,%d", MacTok(m), IPTok(scaleIP4(n4)), g.name(), now))
			now++
			ops = append(ops, RxTok(m, "4", u.IP4s[6], nil, 3, now), "N")
			n4++
		default:
			rx("6", scaleIP6(k))
		}
	}
	for i := 0; i < 4; i++ { // with the channel (nearly) full: supersession
		rx("4", scaleIP4(n4))
		n4++
	}
	ops = append(ops, "D")
	rx("4", scaleIP4(n4-1)) // repeat traffic: silent
	rx("4", scaleIP4(n4-2)) // return of a superseded address: its offline notification was lost, now online again
	rx("6", u.IP6s[0])
	ops = append(ops, "D")
	return ops
}

// ---------------------------------------------------------------- the address-class domain and the NICInfo domain

// ClassIP6 / ClassIP4: one or more representatives of every address class (first / last / inside).
var ClassIP6 = []string{
	"::", "::1", "::2", "::192.168.0.5", // unspecified, loopback, low / v4-compatible
	"::ffff:0.0.0.0", "::ffff:192.168.0.1", "::ffff:169.254.1.1", "::ffff:127.0.0.1", "::ffff:224.0.0.1", "::ffff:255.255.255.255", "::ffff:8.8.8.8", // v4-mapped, by IPv4 class
	"64:ff9b::808:808", "100::1", // NAT64, discard-only
	"2000::1", "2001::1", "2001:db8::5", "2001:db8::105", "2002:c0a8:1::1", "2600::1", "3fff:ffff::1", "4000::1", // GUA 2000::/3 (Teredo, documentation, 6to4), unassigned
	"fc00::1", "fcff::1", "fd00::1", "fd12:3456::1", "fdff:ffff:ffff:ffff:ffff:ffff:ffff:ffff", // unique local fc00::/8, fd00::/8
	"fe00::1", "fe7f:ffff::1", "fe80::5", "fe80::", "febf:ffff:ffff:ffff:ffff:ffff:ffff:ffff", // below / link-local fe80::/10 first / last
	"fec0::1", "feff::1", // site-local
	"ff01::1", "ff02::1", "ff02::1:ff00:5", "ff05::2", "ff0e::1", "ffff:ffff:ffff:ffff:ffff:ffff:ffff:ffff", // multicast scopes, solicited-node
}

var ClassIP4 = []string{
	"0.0.0.0", "127.0.0.1", "169.254.1.1", "224.0.0.1", "239.255.255.250", "240.0.0.1", "255.255.255.255",
	"10.0.0.1", "172.16.0.1", "100.64.0.1", "8.8.8.8", "192.168.1.1", "192.167.255.255", "192.168.1.0", // RFC 1918, shared, public, just outside the LAN
	"192.168.0.0", "192.168.0.255", "192.168.0.1", "192.168.0.254", "192.168.0.128", "192.168.0.3", "192.168.0.4", // the LAN's network / broadcast / first / last, around /30 /31 boundaries
}

// AddressClassHistory: a few frames, each with a source from one address class, from {router MAC, own MAC, a client MAC,
// a MAC never seen before}, as IP frame (UDP / TCP / echo) or as ARP request / reply (IPv4) and NDP neighbour
// solicitation / advertisement (IPv6), Notify after each; a purge at the end.
func (g *Gen) AddressClassHistory(cfg Cfg, idx int) []string {
	u := g.U
	macs := []net.HardwareAddr{cfg.RtMAC, cfg.OwnMAC, u.MACs[2], u.MACs[3], {0x02, 0xcc, 0xcc, 0xcc, byte(g.Rng.Intn(256)), byte(g.Rng.Intn(256))}}
	now := int64(0)
	var ops []string
	n := 3 + g.Rng.Intn(5)
	for k := 0; k < n; k++ {
		now += int64(g.Rng.Pick(1, 1, 5, 60))
		m := macs[g.Rng.Intn(len(macs))]
		i := idx*n + k // walks through both lists in order: every class is hit in every run
		if g.Rng.Chance(60) {
			ip := netip.MustParseAddr(ClassIP6[i%len(ClassIP6)])
			ops = append(ops, RxTok(m, "6", ip, nil, g.Rng.Pick(0, 0, 1, 2, 5, 5, 6, 6), now), "N")
		} else {
			ip := netip.MustParseAddr(ClassIP4[i%len(ClassIP4)])
			if g.Rng.Chance(50) {
				am := m
				if g.Rng.Chance(25) { // ARP sender hardware address differs from the Ethernet source
					am = macs[g.Rng.Intn(len(macs))]
				}
				ops = append(ops, RxTok(m, "a", ip, am, g.Rng.Intn(2), now), "N")
			} else {
				ops = append(ops, RxTok(m, "4", ip, nil, g.Rng.Pick(0, 1, 2), now), "N")
			}
		}
	}
	ops = append(ops, fmt.Sprintf("P,%d", now+cfg.OfflineSec+1))
	return ops
}

// EnvCfgs: the NICInfo domain. Every field of NICInfo as configuration: HostGUA unset / a /64 that contains the global
// sources of the universe / a /128 / ::/0, RouterGUA, RouterLLA unset, RouterPrefix; HostLLA unset; HostAddr4 without
// IPv4; the router being the host itself; the router MAC equal to a client's MAC; HomeLAN4 /30 /31 /32 /16 /0.
func EnvCfgs() []Cfg {
	var l []Cfg
	for _, env := range []string{"g", "G", "z", "gr", "grp", "l", "gl", "zrl"} {
		c := StdCfg()
		c.Env = env
		l = append(l, c)
	}
	u := StdUniverse()
	c := StdCfg()
	c.OwnLLA = netip.Addr{}
	c.Env = "g"
	l = append(l, c)
	c = StdCfg()
	c.RtMAC, c.Env = u.MACs[2], "g" // the router's MAC is a client's MAC of the universe
	l = append(l, c)
	c = StdCfg()
	c.RtMAC, c.RtIP = c.OwnMAC, c.OwnIP // the host is its own router
	l = append(l, c)
	for _, pf := range []string{"192.168.0.0/30", "192.168.0.2/31", "192.168.0.1/32", "192.168.0.0/16", "192.168.0.128/25", "0.0.0.0/0"} {
		c = StdCfg()
		c.LAN = netip.MustParsePrefix(pf).Masked()
		c.Env = "g"
		l = append(l, c)
	}
	return l
}

// notOUI prints a Manufacturer field unless it is what the library's static OUI database gives for that MAC: the
// database lookup is a function of the MAC alone and not part of the tables' model (a generated MAC such as
// 00:0a:55:.. happens to have a registered OUI); a value learned from a name source is printed.
func notOUI(m string, mac net.HardwareAddr) string {
	if m != "" && m == packet.FindManufacturer(mac) {
		return ""
	}
	return m
}

// WithStages inserts application writes of Host.HuntStage (op H: hunt / redirected / normal) on the LAN addresses and the
// link-local addresses of the universe at random points of a history.
func (g *Gen) WithStages(ops []string, percent int) []string {
	u := g.U
	var out []string
	for _, o := range ops {
		out = append(out, o)
		if o != "N" && g.Rng.Chance(percent) { // not between a Parse and its Notify
			var ip netip.Addr
			if g.Rng.Chance(75) {
				ip = u.IP4s[2+g.Rng.Intn(3)]
			} else {
				ip = u.IP6s[g.Rng.Intn(4)]
			}
			out = append(out, fmt.Sprintf("H,%s,%d", IPTok(ip), g.Rng.Pick(2, 2, 3, 3, 1)))
		}
	}
	return out
}

// HuntStageHistory: a client online (or aged offline) on address A is put into stage hunt / redirected by the application;
// then ANOTHER MAC claims A (frame, ARP, DHCPv4Update: the duplicate-IP branch), with Notify; then the usual follow-ups:
// repeat traffic of both MACs, the first client on a new address, purges, a stage change back.
func (g *Gen) HuntStageHistory() []string {
	u := g.U
	m1 := u.MACs[2+g.Rng.Intn(3)]
	m2 := u.MACs[2+(g.Rng.Intn(2)+1+indexOfMAC(u.MACs, m1)-2)%3]
	ip4 := []netip.Addr{u.IP4s[2], u.IP4s[3], u.IP4s[4]}
	a := ip4[g.Rng.Intn(3)]
	now := int64(0)
	t := func(d int64) int64 { now += d; return now }
	ops := []string{RxTok(m1, "4", a, nil, 0, t(1)), "N"}
	if g.Rng.Chance(30) {
		ops = append(ops, RxTok(m1, "6", u.IP6s[0], nil, 0, t(1)), "N")
	}
	if g.Rng.Chance(25) {
		ops = append(ops, fmt.Sprintf("P,%d", t(301))) // offline before the stage is set
	}
	ops = append(ops, fmt.Sprintf("H,%s,%d", IPTok(a), g.Rng.Pick(2, 3)))
	switch g.Rng.Intn(3) { // the duplicate-IP branch
	case 0:
		ops = append(ops, RxTok(m2, "4", a, nil, g.Rng.Intn(3), t(1)), "N")
	case 1:
		ops = append(ops, RxTok(m2, "a", a, m2, g.Rng.Intn(2), t(1)), "N")
	default:
		ops = append(ops, fmt.Sprintf("U,%s,%s,%s,%d", MacTok(m2), IPTok(a), g.name(), t(1)))
		ops = append(ops, RxTok(m2, "4", u.IP4s[6], nil, 3, t(1)), "N")
	}
	for k := 0; k < 1+g.Rng.Intn(4); k++ {
		switch g.Rng.Intn(6) {
		case 0:
			ops = append(ops, RxTok(m2, "4", a, nil, 0, t(1)), "N")
		case 1:
			ops = append(ops, RxTok(m1, "4", ip4[g.Rng.Intn(3)], nil, 0, t(1)), "N")
		case 2:
			ops = append(ops, fmt.Sprintf("P,%d", t(int64(g.Rng.Pick(100, 301)))))
		case 3:
			ops = append(ops, fmt.Sprintf("H,%s,%d", IPTok(a), g.Rng.Pick(1, 2, 3)))
		case 4:
			ops = append(ops, RxTok(m1, "4", a, nil, 0, t(1)), "N") // the first owner claims the address back
		case 5:
			ops = append(ops, fmt.Sprintf("P,%d", t(3661)))
		}
	}
	return ops
}
