// realtime.go — REAL-TIME histories (kind rt of C04 and C06).
//
// The library reads the clock itself: findOrCreateHostWithLock stamps LastSeen with time.Now(), NewSession stamps the two
// registered entries.  The virtual-time kinds never let real time pass between packets, so a stale stamp is
// invisible to them.  Here a session with short deadlines (hundreds of milliseconds; Config takes time.Duration and
// NewSession accepts them) runs a schedule with real sleeps; time.Now() is recorded before and after every call and the
// model gets the interval (see Model/TablesShow.v, rt_model).  Nothing is rewritten in the tables.
package tables

import (
	"fmt"
	"net"
	"net/netip"
	"sort"
	"strconv"
	"strings"
	"sync"
	"time"

	"github.com/irai/packet"
	"pvharness/lib"
)

// RTEvent: at At milliseconds after the start of the session do Op ("R"/"U"/"P"; an R is followed by Notify).
type RTEvent struct {
	At   int64
	Kind byte // 'R' frame + Notify, 'U' DHCPv4Update, 'P' purge(time.Now())
	MAC  net.HardwareAddr
	Cls  string
	IP   netip.Addr
	Name string
}

type RTResult struct {
	Args      []string // case arguments: cfg, observation, t0B, t0C, ops B..., ops C...
	Obs       string
	Ambiguous bool
	Skew      int64 // largest lateness of an event against its schedule (ms)
}

// RTDeadlines: (probe, offline, purge) in MILLISECONDS; all accepted by NewSession (Probe <= Offline).
var RTDeadlines = [][3]int64{{100, 300, 700}, {150, 400, 250}, {100, 250, 900}, {200, 200, 200}, {120, 350, 120}, {100, 500, 1000}}

// RTSchedule draws a schedule of about two seconds: stations with several addresses whose frames follow each other
// within 40-60 ms, addresses that keep talking across purges, addresses silent just below / just above the offline and
// purge deadlines at a purge (margins of 45 ms), IPv4 supersession, DHCPv4Update; consecutive events >= 40 ms apart.
func RTSchedule(rng *lib.Rand, u Universe, dl [3]int64) []RTEvent {
	off, pur := dl[1], dl[2]
	var evs []RTEvent
	macs := []net.HardwareAddr{u.MACs[2], u.MACs[3], u.MACs[4]}
	ip4 := []netip.Addr{u.IP4s[2], u.IP4s[3], u.IP4s[4]}
	horizon := int64(1500 + rng.Intn(900))
	type addr struct {
		m   net.HardwareAddr
		cls string
		ip  netip.Addr
	}
	frame := func(t int64, a addr) { evs = append(evs, RTEvent{At: t, Kind: 'R', MAC: a.m, Cls: a.cls, IP: a.ip}) }
	purge := func(t int64) {
		if t > 0 {
			evs = append(evs, RTEvent{At: t, Kind: 'P'})
		}
	}
	nst := 1 + rng.Intn(2)
	for si := 0; si < nst; si++ {
		m := macs[si]
		a4 := addr{m, "4", ip4[si]}
		lla := addr{m, "6", u.IP6s[si]}
		start := int64(50 + rng.Intn(150))
		switch rng.Intn(4) {
		case 0: // dual stack, the pair announced back to back, keeps talking across every purge
			period := int64(rng.Pick(110, 150, 190))
			for t := start; t < horizon; t += period {
				frame(t, a4)
				frame(t+int64(rng.Pick(40, 50, 60)), lla)
			}
			purge(start + off + 60)
			purge(start + off + pur + 80)
		case 1: // talks for a while, then silent: purges just below / above the deadlines after its last frame
			last := start
			for k := 0; k < 1+rng.Intn(4); k++ {
				frame(last, a4)
				if rng.Chance(50) {
					frame(last+50, lla)
				}
				last += int64(rng.Pick(90, 140, 220))
			}
			last -= 0
			lastFrame := evs[len(evs)-1].At
			for _, d := range []int64{off - 45, off + 45, off + pur - 45, off + pur + 60} {
				if rng.Chance(70) {
					purge(lastFrame + d)
				}
			}
		case 2: // IPv4 supersession: A, then B shortly after; A offline with a fresh stamp; purges around A's purge deadline
			frame(start, a4)
			frame(start+50, lla)
			b := addr{m, "4", ip4[(si+1+rng.Intn(2))%3]}
			tb := start + int64(rng.Pick(100, 180, 260))
			if rng.Chance(30) {
				evs = append(evs, RTEvent{At: tb, Kind: 'U', MAC: m, IP: b.ip, Name: strconv.Itoa(1 + rng.Intn(2))})
			} else {
				frame(tb, b)
			}
			for t := tb + 120; t < horizon; t += int64(rng.Pick(120, 170)) { // B and the link-local address keep talking
				frame(t, b)
				if rng.Chance(60) {
					frame(t+45, lla)
				}
			}
			purge(start + pur - 45)
			purge(start + pur + 50)
			purge(start + off + 50)
		case 3: // one address, frames with gaps just below and just above the offline deadline, a purge after each gap
			t := start
			for k := 0; k < 3 && t < horizon; k++ {
				frame(t, a4)
				gap := off + int64(rng.Pick(-60, 60))
				purge(t + gap)
				t += gap + 50
			}
		}
	}
	for k := 0; k < rng.Intn(3); k++ {
		purge(int64(200 + rng.Intn(int(horizon))))
	}
	sort.SliceStable(evs, func(i, j int) bool { return evs[i].At < evs[j].At })
	for i := 1; i < len(evs); i++ { // keep consecutive events >= 40 ms apart
		if evs[i].At < evs[i-1].At+40 {
			evs[i].At = evs[i-1].At + 40
		}
	}
	if len(evs) > 60 {
		evs = evs[:60]
	}
	// margins: no purge within 30 ms of (latest frame of any address, or the start of the session) + Offline / Purge
	// deadline; a purge that is too close is moved later (and the spacing restored)
	for round := 0; round < 40; round++ {
		moved := false
		for i := range evs {
			if evs[i].Kind != 'P' {
				continue
			}
			latest := map[netip.Addr]int64{{}: 0}
			for j := 0; j < i; j++ {
				if evs[j].Kind != 'P' {
					latest[evs[j].IP] = evs[j].At
				}
			}
			for _, f := range latest {
				for _, d := range []int64{off, pur} {
					if x := evs[i].At - f - d; x > -30 && x < 30 {
						evs[i].At += 35
						moved = true
					}
				}
			}
		}
		if !moved {
			break
		}
		sort.SliceStable(evs, func(i, j int) bool { return evs[i].At < evs[j].At })
		for i := 1; i < len(evs); i++ {
			if evs[i].At < evs[i-1].At+40 {
				evs[i].At = evs[i-1].At + 40
			}
		}
	}
	return evs
}

var rtInit sync.Once

// RealTimeRun executes one schedule on a fresh session and returns the case arguments.
func RealTimeRun(cfg Cfg, evs []RTEvent) RTResult {
	rtInit.Do(func() { packet.VerifSetMonitorNICFrequency(24 * time.Hour) })
	conn := lib.NewRecConn()
	nic := &packet.NICInfo{
		HomeLAN4:    cfg.LAN,
		HostAddr4:   packet.Addr{MAC: cfg.OwnMAC, IP: cfg.OwnIP},
		RouterAddr4: packet.Addr{MAC: cfg.RtMAC, IP: cfg.RtIP},
		HostLLA:     netip.PrefixFrom(cfg.OwnLLA, 64),
		RouterLLA:   netip.PrefixFrom(lib.RouterLLA, 64),
		IFI:         &net.Interface{MTU: 1500, Name: "eth0"},
	}
	origin := time.Now()
	ms := func(t time.Time, up bool) int64 { // floor / ceil of the milliseconds since origin
		d := t.Sub(origin)
		v := int64(d / time.Millisecond)
		if up && d%time.Millisecond != 0 {
			v++
		}
		return v
	}
	s, err := packet.Config{Conn: conn, NICInfo: nic, ProbeDeadline: time.Duration(cfg.ProbeSec) * time.Millisecond,
		OfflineDeadline: time.Duration(cfg.OfflineSec) * time.Millisecond, PurgeDeadline: time.Duration(cfg.PurgeSec) * time.Millisecond}.NewSession("")
	if err != nil {
		panic(err)
	}
	t0a := time.Now()
	defer func() { go s.Close() }()
	sm := &Sim{S: s, Conn: conn, cfg: cfg}
	observe := func(sorted bool) string {
		hosts := s.GetHosts()
		sort.Slice(hosts, func(i, j int) bool {
			if !hosts[i].LastSeen.Equal(hosts[j].LastSeen) {
				return hosts[i].LastSeen.Before(hosts[j].LastSeen)
			}
			return hosts[i].Addr.IP.Compare(hosts[j].Addr.IP) < 0
		})
		ord := make([]string, len(hosts))
		for i, h := range hosts {
			ord[i] = IPTok(h.Addr.IP)
		}
		l := sm.Drain()
		if sorted { // inside a purge the emission order is the map's
			sort.SliceStable(l, func(i, j int) bool { return l[i].Addr.IP.Compare(l[j].Addr.IP) < 0 })
		}
		ns := make([]string, len(l))
		for i, n := range l {
			ns[i] = IPTok(n.Addr.IP) + "/" + b01(n.Online)
		}
		return "G:" + sm.Triples() + "|ord=" + strings.Join(ord, "<") + "|n:" + strings.Join(ns, ",")
	}
	type iv struct {
		b, a time.Time
		ip   netip.Addr
	}
	var stamps []iv // intervals of the calls that stamp LastSeen (incl. NewSession), with the address they stamp
	stamps = append(stamps, iv{origin, t0a, cfg.RtIP})
	var purges []iv
	tr := []string{observe(false)}
	var opsB, opsC []string
	var buf [2048]byte
	res := RTResult{}
	for _, e := range evs {
		target := origin.Add(time.Duration(e.At) * time.Millisecond)
		if d := time.Until(target); d > 3*time.Millisecond {
			time.Sleep(d)
		} else {
			time.Sleep(3 * time.Millisecond) // a late event still keeps its distance from the previous call
		}
		if late := int64(time.Since(target) / time.Millisecond); late > res.Skew {
			res.Skew = late
		}
		switch e.Kind {
		case 'R':
			fr := BuildFrame(e.MAC, e.Cls, e.IP, nil, 0)
			sum := Decode(fr).Tok()
			k := copy(buf[:], fr)
			tb := time.Now()
			f, _ := s.Parse(buf[:k])
			ta := time.Now()
			stamps = append(stamps, iv{tb, ta, e.IP})
			opsB = append(opsB, fmt.Sprintf("R,%s,%d,0", sum, ms(tb, false)))
			opsC = append(opsC, fmt.Sprintf("R,%s,%d,0", sum, ms(ta, true)))
			tr = append(tr, observe(false))
			s.Notify(f)
			opsB, opsC = append(opsB, "N"), append(opsC, "N")
			tr = append(tr, observe(false))
		case 'U':
			tb := time.Now()
			s.DHCPv4Update(e.MAC, e.IP, EntryOf(e.Name, "dhcp4"))
			ta := time.Now()
			stamps = append(stamps, iv{tb, ta, e.IP})
			opsB = append(opsB, fmt.Sprintf("U,%s,%s,%s,%d", MacTok(e.MAC), IPTok(e.IP), e.Name, ms(tb, false)))
			opsC = append(opsC, fmt.Sprintf("U,%s,%s,%s,%d", MacTok(e.MAC), IPTok(e.IP), e.Name, ms(ta, true)))
			tr = append(tr, observe(false))
		case 'P':
			tb := time.Now()
			s.VerifPurge(time.Now())
			ta := time.Now()
			purges = append(purges, iv{b: tb, a: ta})
			opsB = append(opsB, fmt.Sprintf("P,%d", ms(ta, true)))
			opsC = append(opsC, fmt.Sprintf("P,%d", ms(tb, false)))
			tr = append(tr, observe(true))
		}
	}
	// two stamps whose millisecond intervals touch: their LastSeen order is not determined by the recorded times
	for i := 1; i < len(stamps); i++ {
		if ms(stamps[i].b, false) <= ms(stamps[i-1].a, true) {
			res.Ambiguous = true
		}
	}
	// a purge whose verdict on some stamp depends on the instant inside the intervals: timing-ambiguous
	for _, p := range purges {
		latest := map[netip.Addr]iv{} // only the latest stamp of an address before the purge decides
		for _, f := range stamps {
			if f.b.Before(p.a) {
				latest[f.ip] = f
			}
		}
		for _, f := range latest {
			diffB, diffC := ms(p.a, true)-ms(f.b, false), ms(p.b, false)-ms(f.a, true)
			for _, dl := range []int64{cfg.OfflineSec, cfg.PurgeSec} {
				if (diffB > dl) != (diffC > dl) {
					res.Ambiguous = true
				}
			}
		}
	}
	res.Obs = strings.Join(tr, ";")
	res.Args = append([]string{cfg.Tok(), res.Obs, "0", strconv.FormatInt(ms(t0a, true), 10)}, append(opsB, opsC...)...)
	return res
}

// RealTimeBatch runs n schedules in parallel goroutines (waves of `par`) and returns the results in a fixed order.
func RealTimeBatch(rng *lib.Rand, n, par int) []RTResult {
	u := StdUniverse()
	type job struct {
		cfg Cfg
		evs []RTEvent
	}
	jobs := make([]job, n)
	for i := range jobs {
		dl := RTDeadlines[rng.Intn(len(RTDeadlines))]
		c := StdCfg()
		c.ProbeSec, c.OfflineSec, c.PurgeSec = dl[0], dl[1], dl[2]
		jobs[i] = job{c, RTSchedule(rng, u, dl)}
	}
	out := make([]RTResult, n)
	for w := 0; w < n; w += par {
		var wg sync.WaitGroup
		for i := w; i < w+par && i < n; i++ {
			wg.Add(1)
			go func(i int) {
				defer wg.Done()
				out[i] = RealTimeRun(jobs[i].cfg, jobs[i].evs)
			}(i)
		}
		wg.Wait()
	}
	return out
}
