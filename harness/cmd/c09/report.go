package main

import (
	"bufio"
	"fmt"
	"os"
	"path/filepath"
	"regexp"
	"sort"
	"strings"
	"sync"
)

// ---------------------------------------------------------------- observation

type observation struct {
	repo          string
	keys          map[string]bool
	desc          map[string]string
	nReports      int
	nUnrestorable int
	src           map[string][]string // file -> lines
}

func newObservation(repo string) *observation {
	return &observation{repo: repo, keys: map[string]bool{}, desc: map[string]string{}, src: map[string][]string{}}
}

func (o *observation) add(key, desc string) {
	if !o.keys[key] {
		o.keys[key] = true
		o.desc[key] = desc
	}
}

func (o *observation) sortedKeys() []string {
	var k []string
	for x := range o.keys {
		k = append(k, x)
	}
	sort.Strings(k)
	return k
}

// srcSnapshot: the library sources as they were when the harness started (the binary was built from them
// seconds before); a repair committed to the tree during a long run must not shift the lines under the reports
var srcSnapshot = map[string][]string{}

func snapshotSources(root string) {
	filepath.Walk(root, func(path string, info os.FileInfo, err error) error {
		if err != nil {
			return nil
		}
		if info.IsDir() {
			if n := info.Name(); n == ".git" || n == "examples" {
				return filepath.SkipDir
			}
			return nil
		}
		if strings.HasSuffix(path, ".go") && !strings.HasSuffix(path, "_test.go") {
			if b, err := os.ReadFile(path); err == nil {
				srcSnapshot[path] = strings.Split(string(b), "\n")
			}
		}
		return nil
	})
}

func (o *observation) line(file string, n int) string {
	l, ok := srcSnapshot[file]
	if !ok {
		l, ok = o.src[file]
	}
	if !ok {
		f, err := os.Open(file)
		if err == nil {
			sc := bufio.NewScanner(f)
			sc.Buffer(make([]byte, 1<<20), 1<<20)
			for sc.Scan() {
				l = append(l, sc.Text())
			}
			f.Close()
		}
		o.src[file] = l
	}
	if n >= 1 && n <= len(l) {
		return l[n-1]
	}
	return ""
}

// ---------------------------------------------------------------- stacks

type frame struct {
	fn   string
	file string
	line int
}

type section struct {
	header string
	frames []frame // innermost first
}

var reCrashLoc = regexp.MustCompile(`^\s+(\S+):(\d+)`)
var reFrameLoc = regexp.MustCompile(`^\s+(\S+):(\d+)(\s+\+0x[0-9a-f]+)?\s*$`)
var reGoroutineOf = regexp.MustCompile(`by (goroutine \d+|main goroutine)`)
var reCreated = regexp.MustCompile(`^Goroutine (\d+) \(.*\) created at:`)

func parseSections(block string) []section {
	var secs []section
	var cur *section
	lines := strings.Split(block, "\n")
	for i := 0; i < len(lines); i++ {
		l := lines[i]
		if strings.TrimSpace(l) == "" {
			cur = nil
			continue
		}
		if !strings.HasPrefix(l, " ") {
			secs = append(secs, section{header: l})
			cur = &secs[len(secs)-1]
			continue
		}
		if cur == nil {
			continue
		}
		// function line followed by location line
		fn := strings.TrimSpace(l)
		if i+1 < len(lines) {
			if m := reFrameLoc.FindStringSubmatch(lines[i+1]); m != nil {
				n := 0
				fmt.Sscanf(m[2], "%d", &n)
				if j := strings.LastIndex(fn, "("); j > 0 {
					fn = fn[:j]
				}
				cur.frames = append(cur.frames, frame{fn: fn, file: m[1], line: n})
				i++
				continue
			}
		}
		cur.frames = append(cur.frames, frame{fn: fn})
	}
	return secs
}

const libPrefix = "github.com/irai/packet"

// opOf attributes a stack (and, failing that, the stack that created the goroutine) to a modelled operation.
func (o *observation) opOf(own, creator []frame) string {
	for _, st := range [][]frame{own, creator} {
		// outermost first: the root of the goroutine decides
		for i := len(st) - 1; i >= 0; i-- {
			fn := st[i].fn
			if strings.HasPrefix(fn, "main.op_") {
				id := strings.TrimPrefix(fn, "main.op_")
				if j := strings.IndexAny(id, ".("); j >= 0 {
					id = id[:j]
				}
				if n, ok := wrapperOp[id]; ok {
					return o.refine(n, own)
				}
			}
			for _, r := range rootFuncs {
				if strings.HasSuffix(fn, r.suffix) {
					return o.refine(r.op, own)
				}
			}
		}
	}
	return ""
}

// refine: the two paths of findOrCreateHostWithLock are separate operations of the model; an access
// inside that function belongs to the path its line lies on (after the write Lock = slow path).
func (o *observation) refine(op string, own []frame) string {
	if op != "Parse.fast" && op != "Parse.slow" {
		return op
	}
	for _, f := range own {
		if strings.HasSuffix(f.fn, ".findOrCreateHostWithLock") {
			lockLine := 0
			for n := f.line; n >= 1 && n > f.line-80; n-- {
				t := o.line(f.file, n)
				if strings.Contains(t, "h.mutex.Lock()") {
					lockLine = n
					break
				}
				if strings.HasPrefix(t, "func ") {
					break
				}
			}
			if lockLine > 0 {
				return "Parse.slow"
			}
			return "Parse.fast"
		}
	}
	return op
}

// ---------------------------------------------------------------- fields

type fieldRule struct {
	re    *regexp.Regexp
	field string
}

func rules(list ...string) []fieldRule {
	var r []fieldRule
	for i := 0; i+1 < len(list); i += 2 {
		r = append(r, fieldRule{regexp.MustCompile(list[i]), list[i+1]})
	}
	return r
}

const names = `(DHCP4Name|MDNSName|SSDPName|LLMNRName|NBNSName)`

// MAC-entry qualified selectors are matched (and removed) first, the bare ones then belong to Host
var macRules = rules(
	`(MACEntry|macEntry|entry|\bmac)\.LastSeen`, "MACEntry.LastSeen",
	`(MACEntry|macEntry|entry)\.Online`, "MACEntry.Online",
	`(MACEntry|macEntry|entry)\.Manufacturer`, "MACEntry.Manufacturer",
	`(MACEntry|macEntry|entry)\.`+names, "MACEntry.Names",
	`\.Captured\b`, "MACEntry.Captured",
	`\.IsRouter\b`, "MACEntry.IsRouter",
	`\.(IP4|IP6GUA|IP6LLA)\b`, "MACEntry.IPs",
	`\.IP4Offer\b`, "MACEntry.IP4Offer",
	`\.HostList\b`, "MACEntry.HostList",
)
var hostRules = rules(
	`\.LastSeen\b`, "Host.LastSeen",
	`\.Online\b`, "Host.Online",
	`\.dirty\b`, "Host.dirty",
	`\.HuntStage\b`, "Host.HuntStage",
	`\.Manufacturer\b`, "Host.Manufacturer",
	`\.`+names+`\b`, "Host.Names",
)
var sessRules = rules(
	`HostTable\.Table|h\.HostTable\b`, "HostTable.Table",
	`MACTable\.Table|\bs\.Table\b`, "MACTable.Table",
	`\.Statistics\b`, "Session.Statistics",
)

var allHostFields = []string{"Host.LastSeen", "Host.Online", "Host.dirty", "Host.HuntStage", "Host.Manufacturer", "Host.Names"}
var allMacFields = []string{"MACEntry.LastSeen", "MACEntry.Online", "MACEntry.Manufacturer", "MACEntry.Names", "MACEntry.Captured",
	"MACEntry.IsRouter", "MACEntry.IPs", "MACEntry.IP4Offer", "MACEntry.HostList"}

var reSessClosed = regexp.MustCompile(`\bh\.closed\b`)

type candEntry struct {
	cands []string
	where string
}

var candCache sync.Map // "fn|file|line" -> candEntry

// chanOp: the runtime channel primitive at the top of an access stack ("" if none)
func chanOp(st []frame) string {
	for _, f := range st {
		switch f.fn {
		case "runtime.closechan":
			return "close"
		case "runtime.chansend", "runtime.chansend1", "runtime.selectnbsend":
			return "send"
		case "runtime.chanrecv", "runtime.chanrecv1", "runtime.chanrecv2", "runtime.selectgo":
			return "recv"
		}
		if strings.HasPrefix(f.fn, libPrefix) || strings.HasPrefix(f.fn, "main.") {
			return ""
		}
	}
	return ""
}

// candidates: the fields the innermost library frame of an access may touch; when that frame is a generic
// helper whose line names no field (CopyMAC, fmt glue), the nearest caller frame that names one decides
func (o *observation) candidates(st []frame) (cands []string, where string) {
	for _, f := range st {
		if !strings.HasPrefix(f.fn, libPrefix) {
			continue
		}
		ck := fmt.Sprintf("%s|%s|%d", f.fn, f.file, f.line)
		var e candEntry
		if v, ok := candCache.Load(ck); ok {
			e = v.(candEntry)
		} else {
			e.cands, e.where = o.candidates1(f)
			candCache.Store(ck, e)
		}
		if where == "" {
			where = e.where
		}
		if len(e.cands) > 0 {
			return e.cands, where
		}
	}
	return nil, where
}

func (o *observation) candidates1(f frame) (cands []string, where string) {
	{
		where = fmt.Sprintf("%s %s:%d", strings.TrimPrefix(f.fn, libPrefix), shortFile(f.file), f.line)
		pkg := pkgOf(f.fn)
		// value-receiver copies of whole records
		if strings.HasSuffix(f.fn, ".(*Host).FastLog") && strings.Contains(f.file, "autogenerated") {
			return allHostFields, where
		}
		text := o.line(f.file, f.line)
		if strings.Contains(text, "&Host{") { // the literal initialises the whole record
			return allHostFields, where
		}
		if strings.Contains(text, "&MACEntry{") {
			return allMacFields, where
		}
		if strings.Contains(text, "&Router{") {
			return []string{"icmp6.LANRouters"}, where
		}
		if i := strings.Index(text, "//"); i >= 0 {
			text = text[:i]
		}
		set := map[string]bool{}
		inMacMethod := strings.Contains(f.fn, ".(*MACEntry).") || strings.Contains(f.fn, ".MACEntry.")
		if pkg == "packet" {
			t := text
			for _, r := range macRules {
				if r.re.MatchString(t) {
					set[r.field] = true
					t = r.re.ReplaceAllString(t, " ")
				}
			}
			for _, r := range hostRules {
				if r.re.MatchString(t) {
					fld := r.field
					if inMacMethod {
						fld = strings.Replace(fld, "Host.", "MACEntry.", 1)
					}
					set[fld] = true
				}
			}
			for _, r := range sessRules {
				if r.re.MatchString(t) {
					set[r.field] = true
				}
			}
			if reSessClosed.MatchString(t) {
				set["Session.closed"] = true
			}
			// toNotification(host) / Struct(host): the callee line is reported, nothing to add here
		}
		for _, r := range handlerRules[pkg] {
			if r.re.MatchString(text) {
				set[r.field] = true
			}
		}
		for k := range set {
			cands = append(cands, k)
		}
		sort.Strings(cands)
		return cands, where
	}
}

func shortFile(f string) string {
	if i := strings.LastIndex(f, "/"); i >= 0 {
		return f[i+1:]
	}
	return f
}

func pkgOf(fn string) string {
	s := strings.TrimPrefix(fn, libPrefix)
	s = strings.TrimPrefix(s, "/handlers/")
	s = strings.TrimPrefix(s, "/")
	if strings.HasPrefix(s, ".") || s == fn {
		return "packet"
	}
	if i := strings.Index(s, "."); i >= 0 {
		s = s[:i]
	}
	if s == "" {
		return "packet"
	}
	return s
}

func intersect(a, b []string) []string {
	m := map[string]bool{}
	for _, x := range a {
		m[x] = true
	}
	var r []string
	for _, x := range b {
		if m[x] {
			r = append(r, x)
		}
	}
	return r
}

// ---------------------------------------------------------------- detector log

func pairName(a, b string) string {
	ia, ib := -1, -1
	for i, o := range opNames {
		if o == a {
			ia = i
		}
		if o == b {
			ib = i
		}
	}
	if ia < 0 || ib < 0 {
		if a > b {
			a, b = b, a
		}
		return a + "/" + b
	}
	if ia <= ib {
		return a + "/" + b
	}
	return b + "/" + a
}

func (o *observation) parseRaceLog(txt string) {
	blocks := strings.Split(txt, "==================")
	for _, b := range blocks {
		if !strings.Contains(b, "WARNING: DATA RACE") {
			continue
		}
		o.nReports++
		secs := parseSections(b)
		var acc []section
		created := map[string][]frame{}
		for _, s := range secs {
			if m := reCreated.FindStringSubmatch(s.header); m != nil {
				created["goroutine "+m[1]] = s.frames
			} else if reGoroutineOf.MatchString(s.header) {
				acc = append(acc, s)
			}
		}
		if len(acc) != 2 {
			continue
		}
		if strings.Contains(b, "failed to restore the stack") {
			o.nUnrestorable++
			continue
		}
		var ops [2]string
		var cands [2][]string
		var where [2]string
		for i := 0; i < 2; i++ {
			g := reGoroutineOf.FindStringSubmatch(acc[i].header)[1]
			ops[i] = o.opOf(acc[i].frames, created[g])
			if ops[i] == "" {
				ops[i] = "?" + outermost(acc[i].frames)
			}
			cands[i], where[i] = o.candidates(acc[i].frames)
		}
		// unordered send/close or close/close on a channel: the detector's witness of the panic classes
		if c0, c1 := chanOp(acc[0].frames), chanOp(acc[1].frames); c0 != "" && c1 != "" {
			class := ""
			switch {
			case c0 == "close" && c1 == "close":
				class = "close-of-closed-channel"
			case (c0 == "close" && c1 == "send") || (c0 == "send" && c1 == "close"):
				class = "send-on-closed-channel"
			}
			if class != "" {
				o.add("panic:"+pairName(ops[0], ops[1])+":"+class,
					fmt.Sprintf("detector: channel %s [%s] unordered with %s [%s]", c0, where[0], c1, where[1]))
				continue
			}
		}
		if where[0] == "" && where[1] == "" {
			// a race between harness-only code: the harness's own bug, never the library's
			o.add("harness-race:"+outermost(acc[0].frames)+"|"+outermost(acc[1].frames), "race without library frames")
			continue
		}
		fields := intersect(cands[0], cands[1])
		if len(fields) == 0 {
			// whole-record copy on one side matches any field of the record on the other
			fields = nil
			if where[0] == "" {
				fields = cands[1]
			} else if where[1] == "" {
				fields = cands[0]
			}
		}
		desc := fmt.Sprintf("%s [%s] vs %s [%s]", kindOf(acc[0].header), where[0], kindOf(acc[1].header), where[1])
		if len(fields) == 0 {
			o.add("race:"+pairName(ops[0], ops[1])+":?"+strings.Join(cands[0], "+")+"|"+strings.Join(cands[1], "+"), desc)
			continue
		}
		// several candidate fields on both lines: the report does not tell which; every candidate is recorded
		// (the set is then compared with the prediction as a whole)
		if len(fields) > 1 {
			exp := 0
			for _, f := range fields {
				if predictedAnywhere["race:"+pairName(ops[0], ops[1])+":"+f] {
					exp++
				}
			}
			if exp > 0 {
				// keep only the candidates the model predicts: one of them is the racing field
				var keep []string
				for _, f := range fields {
					if predictedAnywhere["race:"+pairName(ops[0], ops[1])+":"+f] {
						keep = append(keep, f)
					}
				}
				if len(keep) == 1 {
					fields = keep
				} else {
					o.add("race-ambiguous:"+pairName(ops[0], ops[1])+":"+strings.Join(keep, "+"), desc)
					continue
				}
			} else {
				o.add("race:"+pairName(ops[0], ops[1])+":"+strings.Join(fields, "+"), desc)
				continue
			}
		}
		o.add("race:"+pairName(ops[0], ops[1])+":"+fields[0], desc)
	}
}

func kindOf(h string) string {
	if i := strings.Index(h, " at "); i > 0 {
		return h[:i]
	}
	return h
}

func outermost(st []frame) string {
	if len(st) == 0 {
		return "nostack"
	}
	return st[len(st)-1].fn
}

// ---------------------------------------------------------------- child result, crashes

var rePanicClass = []struct {
	re    *regexp.Regexp
	class string
}{
	{regexp.MustCompile(`send on closed channel`), "send-on-closed-channel"},
	{regexp.MustCompile(`close of closed channel`), "close-of-closed-channel"},
	{regexp.MustCompile(`close of nil channel`), "close-of-nil-channel"},
	{regexp.MustCompile(`concurrent map`), "concurrent-map-access"},
	{regexp.MustCompile(`assignment to entry in nil map`), "nil-map-write"},
	{regexp.MustCompile(`host table differ`), "table-invariant"},
	{regexp.MustCompile(`nil pointer dereference`), "nil-dereference"},
	{regexp.MustCompile(`index out of range|slice bounds out of range`), "index-out-of-range"},
}

func panicClass(msg string) string {
	for _, p := range rePanicClass {
		if p.re.MatchString(msg) {
			return p.class
		}
	}
	return "other"
}

// panicKey: a panic of operation op; the partner is the operation whose action makes it possible
func panicKey(op, class string) string {
	partner := op
	switch class {
	case "send-on-closed-channel", "close-of-closed-channel", "nil-map-write":
		partner = closerOf(op)
	}
	return "panic:" + pairName(op, partner) + ":" + class
}

// parseResult reads the child's result file; returns whether the child reached its end.
func (o *observation) parseResult(txt string) bool {
	finished := false
	for _, l := range strings.Split(txt, "\n") {
		f := strings.SplitN(l, "\t", 3)
		switch f[0] {
		case "panic": // panic <op> <message>
			if len(f) == 3 {
				o.add(panicKey(f[1], panicClass(f[2])), "recovered panic in "+f[1]+": "+f[2])
			}
		case "key": // key <key> <description>
			if len(f) == 3 {
				o.add(f[1], f[2])
			}
		case "done":
			finished = true
		}
	}
	return finished
}

// parseCrash: the child died (unrecovered panic in a library goroutine, runtime fatal error)
func (o *observation) parseCrash(stderr string, werr error) {
	msg := ""
	for _, l := range strings.Split(stderr, "\n") {
		if strings.HasPrefix(l, "panic: ") || strings.HasPrefix(l, "fatal error: ") {
			msg = l
			break
		}
	}
	if msg == "" {
		o.add("crash:child-exit", fmt.Sprintf("child ended without result (%v): %s", werr, tail(stderr, 300)))
		return
	}
	// the first goroutine trace after the message is the failing goroutine
	idx := strings.Index(stderr, msg)
	rest := stderr[idx:]
	var st []frame
	lines := strings.Split(rest, "\n")
	started := false
	for i := 0; i < len(lines); i++ {
		l := lines[i]
		if strings.HasPrefix(l, "goroutine ") {
			if started {
				break
			}
			started = true
			continue
		}
		if !started {
			continue
		}
		if strings.TrimSpace(l) == "" {
			break
		}
		if !strings.HasPrefix(l, "\t") && !strings.HasPrefix(l, " ") {
			fn := l
			if j := strings.LastIndex(fn, "("); j > 0 {
				fn = fn[:j]
			}
			fr := frame{fn: strings.TrimPrefix(fn, "created by ")}
			if i+1 < len(lines) {
				if m := reCrashLoc.FindStringSubmatch(lines[i+1]); m != nil {
					fr.file = m[1]
					fmt.Sscanf(m[2], "%d", &fr.line)
					i++
				}
			}
			st = append(st, fr)
		}
	}
	op := o.opOf(st, nil)
	if op == "" {
		op = "?" + outermost(st)
	}
	class := panicClass(msg)
	if class == "concurrent-map-access" {
		c, where := o.candidates(st)
		o.add("fatal:"+op+":"+strings.Join(c, "+")+":concurrent-map-access", msg+" at "+where)
		return
	}
	o.add(panicKey(op, class), "unrecovered "+msg)
}

func tail(s string, n int) string {
	s = strings.ReplaceAll(s, "\n", " | ")
	if len(s) > n {
		return s[len(s)-n:]
	}
	return s
}
