package main

// census.go — whole-package censuses derived from the source of the five packages on every run (round 7b).
// A path-sensitive, intra-procedural walk over EVERY function and function literal (not only the entry
// functions of the modelled operations) with the set of locks and pooled buffers the path holds:
//
//	balance     every return path releases what it acquired (explicit Unlock/Put on all branches or defer);
//	            a lock still held at a return, an unlock/Put of something the path does not hold ("double"),
//	            are reported with function and line.  Expected: none.
//	blockcensus for every blocking operation (PacketConn/UDPConn write, file write, blocking channel send,
//	            time.Sleep, http request) the lock classes held there, also through calls: a call to a function
//	            of the five packages that may block, made with a lock held, counts.  Canonical: the set of
//	            "<held classes>><kind>" — compared with the as-found list of the model.
//	pkgvars     every package-level variable of the five packages that is written outside init() and outside its
//	            declaration (assigned, appended to, indexed/field-selected for write, ++/--, passed by address,
//	            target of copy/delete), with the lock classes held at its write sites.

import (
	"fmt"
	"go/ast"
	"go/token"
	"go/types"
	"sort"
	"strings"
)

type censusResult struct {
	balance  map[string]bool
	blocking map[string]bool
	pkgvars  map[string]bool
}

type cwalker struct {
	sa       *staticAnalysis
	pkg      *staticPkg
	fn       string
	res      *censusResult
	mayBlock map[string]map[string]bool // function full name -> kinds of blocking operations it (transitively) performs
	aliases  map[types.Object]string
	inInit   bool
}

type cstate struct {
	held   []string // lock classes ("Sess:W") and "Pool" tokens
	defers []*ast.CallExpr
}

func (s cstate) copy() cstate {
	return cstate{held: append([]string{}, s.held...), defers: append([]*ast.CallExpr{}, s.defers...)}
}

func (sa *staticAnalysis) pos(n ast.Node) string {
	p := sa.fset.Position(n.Pos())
	return fmt.Sprintf("%s:%d", shortFile(p.Filename), p.Line)
}

// blockKind: the call is itself a blocking operation ("" = no)
func (w *cwalker) blockKind(c *ast.CallExpr) string {
	se, ok := c.Fun.(*ast.SelectorExpr)
	if !ok {
		return ""
	}
	name := se.Sel.Name
	if id, ok := se.X.(*ast.Ident); ok {
		if pn, ok := w.pkg.info.Uses[id].(*types.PkgName); ok {
			switch pn.Imported().Path() + "." + name {
			case "time.Sleep":
				return "sleep"
			case "os.WriteFile", "io/ioutil.WriteFile", "os.Rename", "os.Create", "os.OpenFile", "os.ReadFile", "io/ioutil.ReadFile":
				return "file"
			case "net/http.Get":
				return "http"
			}
			return ""
		}
	}
	switch name {
	case "WriteTo", "WriteToUDP", "WriteMsgUDP":
		if tv, ok := w.pkg.info.Types[se.X]; ok {
			t := tv.Type.String()
			if strings.Contains(t, "net.PacketConn") || strings.Contains(t, "net.UDPConn") || strings.Contains(t, "net.Conn") ||
				strings.Contains(t, "packet.") {
				return "connwrite"
			}
		}
	case "Write", "WriteString", "Sync", "Close":
		if tv, ok := w.pkg.info.Types[se.X]; ok && strings.Contains(tv.Type.String(), "os.File") {
			return "file"
		}
	case "Do", "Get":
		if tv, ok := w.pkg.info.Types[se.X]; ok && strings.Contains(tv.Type.String(), "http.Client") {
			return "http"
		}
	}
	return ""
}

func (w *cwalker) callee(c *ast.CallExpr) string {
	var fn *types.Func
	switch f := c.Fun.(type) {
	case *ast.Ident:
		fn, _ = w.pkg.info.Uses[f].(*types.Func)
	case *ast.SelectorExpr:
		if sel := w.pkg.info.Selections[f]; sel != nil {
			fn, _ = sel.Obj().(*types.Func)
		} else {
			fn, _ = w.pkg.info.Uses[f.Sel].(*types.Func)
		}
	}
	if fn == nil || fn.Pkg() == nil || !strings.HasPrefix(fn.Pkg().Path(), pktPath) {
		return ""
	}
	return fn.FullName()
}

func heldLocks(h []string) string {
	var l []string
	for _, x := range h {
		if x != "Pool" {
			l = append(l, x)
		}
	}
	if len(l) == 0 {
		return ""
	}
	sort.Strings(l)
	return strings.Join(l, "+")
}

func (w *cwalker) lockOf(e ast.Expr) string {
	lw := &walker{sa: w.sa, lockAlias: w.aliases}
	return lw.lockOfExpr(w.pkg, e)
}

func isPool(pkg *staticPkg, e ast.Expr) bool {
	tv, ok := pkg.info.Types[e]
	if !ok {
		return false
	}
	t := tv.Type
	if p, ok := t.(*types.Pointer); ok {
		t = p.Elem()
	}
	n, ok := t.(*types.Named)
	return ok && n.Obj().Pkg() != nil && n.Obj().Pkg().Path() == "sync" && n.Obj().Name() == "Pool"
}

func pop(h []string, tok string) ([]string, bool) {
	for i := len(h) - 1; i >= 0; i-- {
		if h[i] == tok || (tok != "Pool" && strings.HasPrefix(h[i], tok+":")) {
			return append(append([]string{}, h[:i]...), h[i+1:]...), true
		}
	}
	return h, false
}

// apply the effect of one call on the held set
func (w *cwalker) call(c *ast.CallExpr, st *cstate, deferred bool) {
	if lit, ok := c.Fun.(*ast.FuncLit); ok && deferred { // defer func() { ...; mu.Unlock() }()
		ast.Inspect(lit.Body, func(n ast.Node) bool {
			if cc, ok := n.(*ast.CallExpr); ok {
				w.call(cc, st, true)
			}
			return true
		})
		return
	}
	se, _ := c.Fun.(*ast.SelectorExpr)
	if se != nil {
		if sel := w.pkg.info.Selections[se]; sel != nil && sel.Obj().Pkg() != nil && sel.Obj().Pkg().Path() == "sync" {
			switch se.Sel.Name {
			case "Lock", "RLock":
				cl := w.lockOf(se.X)
				if cl == "" {
					cl = "?" + exprText(se.X)
				}
				mode := ":W"
				if se.Sel.Name == "RLock" {
					mode = ":R"
				}
				for _, h := range st.held {
					if strings.HasPrefix(h, cl+":") {
						w.res.balance["reacquire:"+cl+"@"+w.fn+" "+w.sa.pos(c)] = true
					}
				}
				st.held = append(st.held, cl+mode)
				return
			case "Unlock", "RUnlock":
				cl := w.lockOf(se.X)
				if cl == "" {
					cl = "?" + exprText(se.X)
				}
				var ok bool
				if st.held, ok = pop(st.held, cl); !ok {
					w.res.balance["unlock-not-held:"+cl+"@"+w.fn+" "+w.sa.pos(c)] = true
				}
				return
			case "Get":
				if isPool(w.pkg, se.X) {
					st.held = append(st.held, "Pool")
					return
				}
			case "Put":
				if isPool(w.pkg, se.X) {
					var ok bool
					if st.held, ok = pop(st.held, "Pool"); !ok {
						w.res.balance["double-put@"+w.fn+" "+w.sa.pos(c)] = true
					}
					return
				}
			}
		}
	}
	if deferred {
		return
	}
	// blocking operations with a lock held
	if h := heldLocks(st.held); h != "" {
		// a call of a function VALUE (parameter, variable, field of func type): unknown code runs under the lock
		var fobj types.Object
		switch f := c.Fun.(type) {
		case *ast.Ident:
			fobj = w.pkg.info.Uses[f]
		case *ast.SelectorExpr:
			if sel := w.pkg.info.Selections[f]; sel != nil && sel.Kind() == types.FieldVal {
				fobj = sel.Obj()
			}
		}
		if v, ok := fobj.(*types.Var); ok {
			if _, isFunc := v.Type().Underlying().(*types.Signature); isFunc {
				w.res.blocking[h+">callback"] = true
			}
		}
		if kind := w.blockKind(c); kind != "" {
			w.res.blocking[h+">"+kind] = true
		} else if f := w.callee(c); f != "" {
			for kind := range w.mayBlock[f] {
				w.res.blocking[h+">"+kind] = true
			}
		}
	}
}

func (w *cwalker) atReturn(st cstate, n ast.Node) {
	s := st.copy()
	for i := len(s.defers) - 1; i >= 0; i-- {
		w.call(s.defers[i], &s, true)
	}
	for _, h := range s.held {
		w.res.balance["leak:"+h+"@"+w.fn+" "+w.sa.pos(n)] = true
	}
}

// expression: calls in evaluation order (approximately source order), package-variable writes via &v
func (w *cwalker) expr(e ast.Node, st *cstate) {
	if e == nil {
		return
	}
	ast.Inspect(e, func(n ast.Node) bool {
		switch x := n.(type) {
		case *ast.FuncLit:
			return false
		case *ast.CallExpr:
			for _, a := range x.Args {
				w.expr(a, st)
			}
			if se, ok := x.Fun.(*ast.SelectorExpr); ok {
				w.expr(se.X, st)
			}
			if id, ok := x.Fun.(*ast.Ident); ok {
				if _, b := w.pkg.info.Uses[id].(*types.Builtin); b && (id.Name == "copy" || id.Name == "delete") && len(x.Args) > 0 {
					w.pkgWrite(x.Args[0], st)
				}
			}
			w.call(x, st, false)
			return false
		case *ast.UnaryExpr:
			if x.Op == token.AND {
				w.pkgWrite(x.X, st)
			}
			if x.Op == token.ARROW {
				if h := heldLocks(st.held); h != "" {
					w.res.blocking[h+">recv"] = true
				}
			}
		}
		return true
	})
}

// pkgWrite: the base of a written expression is a package-level variable of the five packages
func (w *cwalker) pkgWrite(e ast.Expr, st *cstate) {
	for {
		switch x := e.(type) {
		case *ast.IndexExpr:
			e = x.X
			continue
		case *ast.SliceExpr:
			e = x.X
			continue
		case *ast.StarExpr:
			e = x.X
			continue
		case *ast.ParenExpr:
			e = x.X
			continue
		case *ast.SelectorExpr:
			if sel := w.pkg.info.Selections[x]; sel != nil && sel.Kind() == types.FieldVal {
				e = x.X
				continue
			}
		}
		break
	}
	var obj types.Object
	switch x := e.(type) {
	case *ast.Ident:
		obj = w.pkg.info.Uses[x]
	case *ast.SelectorExpr: // otherpkg.Var
		obj = w.pkg.info.Uses[x.Sel]
	}
	v, ok := obj.(*types.Var)
	if !ok || v.Pkg() == nil || v.Parent() != v.Pkg().Scope() || !strings.HasPrefix(v.Pkg().Path(), pktPath) || w.inInit {
		return
	}
	if isSyncLocker(v.Type()) {
		return
	}
	p := strings.TrimPrefix(strings.TrimPrefix(v.Pkg().Path(), pktPath), "/handlers/")
	if p == "" {
		p = "packet"
	}
	p = strings.TrimPrefix(p, "/")
	h := heldLocks(st.held)
	if h == "" {
		h = "-"
	}
	w.res.pkgvars[p+"."+v.Name()+"@"+h] = true
}

func (w *cwalker) block(b *ast.BlockStmt, st cstate) cstate {
	if b == nil {
		return st
	}
	for _, s := range b.List {
		st = w.stmt(s, st)
	}
	return st
}

func (w *cwalker) stmt(s ast.Stmt, st cstate) cstate {
	switch x := s.(type) {
	case nil:
	case *ast.BlockStmt:
		return w.block(x, st)
	case *ast.ExprStmt:
		w.expr(x.X, &st)
	case *ast.DeclStmt:
		if gd, ok := x.Decl.(*ast.GenDecl); ok {
			for _, sp := range gd.Specs {
				if vs, ok := sp.(*ast.ValueSpec); ok && len(vs.Names) == len(vs.Values) {
					for i, id := range vs.Names {
						if tv, ok := w.pkg.info.Types[vs.Values[i]]; ok && isSyncLocker(tv.Type) {
							if c := w.lockOf(vs.Values[i]); c != "" && w.pkg.info.Defs[id] != nil {
								w.aliases[w.pkg.info.Defs[id]] = c
							}
						}
					}
				}
			}
		}
		w.expr(x.Decl, &st)
	case *ast.AssignStmt:
		for _, r := range x.Rhs {
			w.expr(r, &st)
		}
		for i, l := range x.Lhs {
			if x.Tok != token.DEFINE {
				w.pkgWrite(l, &st)
			}
			w.expr(l, &st)
			if id, ok := l.(*ast.Ident); ok && len(x.Lhs) == len(x.Rhs) {
				if tv, ok := w.pkg.info.Types[x.Rhs[i]]; ok && isSyncLocker(tv.Type) {
					obj := w.pkg.info.Defs[id]
					if obj == nil {
						obj = w.pkg.info.Uses[id]
					}
					if c := w.lockOf(x.Rhs[i]); c != "" && obj != nil {
						w.aliases[obj] = c
					}
				}
			}
		}
	case *ast.IncDecStmt:
		w.pkgWrite(x.X, &st)
		w.expr(x.X, &st)
	case *ast.SendStmt: // blocking send
		w.expr(x.Value, &st)
		if h := heldLocks(st.held); h != "" {
			w.res.blocking[h+">send"] = true
		}
	case *ast.GoStmt:
		for _, a := range x.Call.Args {
			w.expr(a, &st)
		}
	case *ast.DeferStmt:
		for _, a := range x.Call.Args {
			w.expr(a, &st)
		}
		st.defers = append(st.defers, x.Call)
	case *ast.ReturnStmt:
		for _, r := range x.Results {
			w.expr(r, &st)
		}
		w.atReturn(st, x)
	case *ast.LabeledStmt:
		return w.stmt(x.Stmt, st)
	case *ast.IfStmt:
		st = w.stmt(x.Init, st)
		w.expr(x.Cond, &st)
		hb := w.block(x.Body, st.copy())
		he := st
		elseTerm := false
		switch e := x.Else.(type) {
		case *ast.BlockStmt:
			he = w.block(e, st.copy())
			elseTerm = terminates(e)
		case *ast.IfStmt:
			he = w.stmt(e, st.copy())
		}
		if terminates(x.Body) {
			return he
		}
		if elseTerm {
			return hb
		}
		// (a branch may lock with a deferred unlock: the state carries its defers; the return check decides)
		if len(hb.held) >= len(he.held) {
			return hb
		}
		return he
	case *ast.ForStmt:
		st = w.stmt(x.Init, st)
		w.expr(x.Cond, &st)
		b := w.block(x.Body, st.copy())
		w.stmt(x.Post, b.copy())
		if !terminates(x.Body) && strings.Join(b.held, ",") != strings.Join(st.held, ",") {
			w.res.balance["loop-unbalanced@"+w.fn+" "+w.sa.pos(x)] = true
		}
	case *ast.RangeStmt:
		w.expr(x.X, &st)
		b := w.block(x.Body, st.copy())
		if !terminates(x.Body) && strings.Join(b.held, ",") != strings.Join(st.held, ",") {
			w.res.balance["loop-unbalanced@"+w.fn+" "+w.sa.pos(x)] = true
		}
	case *ast.SwitchStmt:
		st = w.stmt(x.Init, st)
		w.expr(x.Tag, &st)
		return w.clauses(x.Body, st, false)
	case *ast.TypeSwitchStmt:
		st = w.stmt(x.Init, st)
		st = w.stmt(x.Assign, st)
		return w.clauses(x.Body, st, false)
	case *ast.SelectStmt:
		hasDefault := false
		for _, c := range x.Body.List {
			if cc, ok := c.(*ast.CommClause); ok && cc.Comm == nil {
				hasDefault = true
			}
		}
		if !hasDefault {
			if h := heldLocks(st.held); h != "" {
				w.res.blocking[h+">select"] = true
			}
		}
		return w.clauses(x.Body, st, true)
	}
	return st
}

func (w *cwalker) clauses(body *ast.BlockStmt, st cstate, isSelect bool) cstate {
	result := st
	first := true
	for _, c := range body.List {
		var list []ast.Stmt
		h := st.copy()
		switch cc := c.(type) {
		case *ast.CaseClause:
			for _, e := range cc.List {
				w.expr(e, &h)
			}
			list = cc.Body
		case *ast.CommClause:
			list = cc.Body
		}
		blk := &ast.BlockStmt{List: list}
		h = w.block(blk, h)
		if !terminates(blk) && first {
			result, first = h, false
		}
	}
	return result
}

// every function body and function literal of the five packages
type cfunc struct {
	full string
	name string
	pkg  *staticPkg
	body *ast.BlockStmt
	init bool
}

func (sa *staticAnalysis) allBodies() []cfunc {
	var out []cfunc
	var paths []string
	for p := range sa.pkgs {
		paths = append(paths, p)
	}
	sort.Strings(paths)
	for _, p := range paths {
		sp := sa.pkgs[p]
		for _, f := range sp.files {
			for _, d := range f.Decls {
				fd, ok := d.(*ast.FuncDecl)
				if !ok || fd.Body == nil {
					continue
				}
				name, full := fd.Name.Name, fd.Name.Name
				if obj, _ := sp.info.Defs[fd.Name].(*types.Func); obj != nil {
					full = obj.FullName()
					name = strings.Replace(full, pktPath, "", 1)
				}
				out = append(out, cfunc{full, name, sp, fd.Body, fd.Name.Name == "init" && fd.Recv == nil})
				k := 0
				ast.Inspect(fd.Body, func(n ast.Node) bool {
					if lit, ok := n.(*ast.FuncLit); ok {
						k++
						out = append(out, cfunc{"", fmt.Sprintf("%s$%d", name, k), sp, lit.Body, false})
					}
					return true
				})
			}
		}
	}
	return out
}

func (sa *staticAnalysis) census() *censusResult {
	res := &censusResult{balance: map[string]bool{}, blocking: map[string]bool{}, pkgvars: map[string]bool{}}
	bodies := sa.allBodies()
	// may-block closure over the call graph of the five packages
	mayBlock := map[string]map[string]bool{}
	addKind := func(f, k string) bool {
		if mayBlock[f] == nil {
			mayBlock[f] = map[string]bool{}
		}
		if mayBlock[f][k] {
			return false
		}
		mayBlock[f][k] = true
		return true
	}
	calls := map[string][]string{}
	for _, b := range bodies {
		if strings.Contains(b.name, "$") {
			continue
		}
		full := b.full
		w := &cwalker{sa: sa, pkg: b.pkg}
		ast.Inspect(b.body, func(n ast.Node) bool {
			switch x := n.(type) {
			case *ast.GoStmt:
				return false // runs in another goroutine
			case *ast.FuncLit:
				return false
			case *ast.CallExpr:
				if k := w.blockKind(x); k != "" {
					addKind(full, k)
				}
				if c := w.callee(x); c != "" {
					calls[full] = append(calls[full], c)
				}
			case *ast.SendStmt:
				addKind(full, "send")
			}
			return true
		})
	}
	for changed := true; changed; {
		changed = false
		for f, cs := range calls {
			for _, c := range cs {
				for k := range mayBlock[c] {
					if addKind(f, k) {
						changed = true
					}
				}
			}
		}
	}
	for _, b := range bodies {
		w := &cwalker{sa: sa, pkg: b.pkg, fn: b.name, res: res, mayBlock: mayBlock, aliases: map[types.Object]string{}, inInit: b.init}
		st := w.block(b.body, cstate{})
		if !terminates(b.body) {
			end := b.body
			w.atReturnAt(st, end)
		}
	}
	return res
}

func (w *cwalker) atReturnAt(st cstate, body *ast.BlockStmt) {
	s := st.copy()
	for i := len(s.defers) - 1; i >= 0; i-- {
		w.call(s.defers[i], &s, true)
	}
	p := w.sa.fset.Position(body.Rbrace)
	for _, h := range s.held {
		w.res.balance[fmt.Sprintf("leak:%s@%s %s:%d", h, w.fn, shortFile(p.Filename), p.Line)] = true
	}
}

// switches: every runtime-settable switch of the five packages — package-level *fastlog.Logger variables (their level
// is set by Disable/EnableInfo/EnableDebug/SetLevel at any time) and exported boolean Debug-style variables.  The
// @toggle mixes flip the loggers while the pattern runs; a switch that is not in the model's list is an alarm, so
// a new one cannot stay outside the toggler unnoticed.
func (sa *staticAnalysis) switches() string {
	set := map[string]bool{}
	for path, sp := range sa.pkgs {
		short := strings.TrimPrefix(strings.TrimPrefix(path, pktPath), "/handlers/")
		if short == "" {
			short = "packet"
		}
		for _, f := range sp.files {
			for _, d := range f.Decls {
				gd, ok := d.(*ast.GenDecl)
				if !ok || gd.Tok != token.VAR {
					continue
				}
				for _, spc := range gd.Specs {
					vs := spc.(*ast.ValueSpec)
					for _, id := range vs.Names {
						v, ok := sp.info.Defs[id].(*types.Var)
						if !ok {
							continue
						}
						t := v.Type().String()
						switch {
						case strings.HasSuffix(t, "fastlog.Logger"):
							set[short+"."+v.Name()+":logger"] = true
						case t == "bool" && v.Exported():
							set[short+"."+v.Name()+":bool"] = true
						}
					}
				}
			}
		}
	}
	return setText(set)
}
