package main

// encpar.go — "@encpar" directive: the encoders are pure functions of their arguments and the caller's buffer.
// Several goroutines encode concurrently, each into its OWN buffer (the library itself encodes from the server
// goroutine, `go h.forceDecline` and the decline/release senders at the same time), and every result is compared
// with the result of the same call made sequentially before: hidden shared state (a package-level scratch
// buffer) shows up as a data race and as a corrupted message.  Then, after calls that fail on their error path
// (a router advertisement too big for one frame), two goroutines send frames that each take a pooled buffer:
// every recorded frame must be one of the two frames the same calls produce sequentially (a buffer returned
// to the pool twice would be handed to both senders).

import (
	"bytes"
	"fmt"
	"net"
	"net/netip"
	"sync"
	"syscall"

	"github.com/irai/packet"

	"pvharness/lib"
)

type encJob struct {
	name string
	run  func(buf []byte) []byte
}

func encJobs() []encJob {
	var jobs []encJob
	for i := 0; i < 6; i++ {
		i := i
		ch := mac(1 + i)
		opts := packet.DHCP4Options{}
		opts[packet.DHCP4OptionHostName] = bytes.Repeat([]byte{byte('a' + i)}, 3+5*i)
		opts[packet.DHCP4OptionClientIdentifier] = append([]byte{1}, ch...)
		opts[packet.DHCP4OptionRequestedIPAddress] = []byte{192, 168, 0, byte(130 + i)}
		opts[packet.DHCP4OptionServerIdentifier] = []byte{192, 168, 0, 129}
		opts[packet.DHCP4OptionMessage] = []byte(fmt.Sprintf("message-%d-%s", i, bytes.Repeat([]byte{'x'}, 7*i)))
		// every option is named in the order list: options outside it are appended in map iteration order,
		// which is not a function of the arguments
		order := []byte{byte(packet.DHCP4OptionDHCPMessageType), byte(packet.DHCP4OptionHostName), byte(packet.DHCP4OptionMessage),
			byte(packet.DHCP4OptionClientIdentifier), byte(packet.DHCP4OptionRequestedIPAddress), byte(packet.DHCP4OptionServerIdentifier)}
		jobs = append(jobs, encJob{fmt.Sprintf("EncodeDHCP4#%d", i), func(buf []byte) []byte {
			own := packet.DHCP4Options{} // EncodeDHCP4 stores the message type into the caller's map: one map per call
			for k, v := range opts {
				own[k] = v
			}
			p := packet.EncodeDHCP4(buf, packet.DHCP4BootRequest, packet.DHCP4MessageType(1+i%7), ch, ip4(130+i), packet.IPv4zero,
				[]byte{1, 2, 3, byte(i)}, i%2 == 0, own, order)
			return append([]byte{}, p...)
		}})
		data := bytes.Repeat([]byte{byte(i)}, 20+30*i)
		jobs = append(jobs, encJob{fmt.Sprintf("Ether/IP4/UDP#%d", i), func(buf []byte) []byte {
			ether := packet.EncodeEther(buf, syscall.ETH_P_IP, mac(1+i), lib.RouterMAC)
			ip := packet.EncodeIP4(ether.Payload(), 64, ip4(130+i), lib.RouterIP4)
			udp := packet.EncodeUDP(ip.Payload(), uint16(1000+i), 53)
			udp, err := udp.AppendPayload(data)
			if err != nil {
				return []byte("err:" + err.Error())
			}
			ip = ip.SetPayload(udp, syscall.IPPROTO_UDP)
			ether, err = ether.SetPayload(ip)
			if err != nil {
				return []byte("err:" + err.Error())
			}
			return append([]byte{}, ether...)
		}})
		jobs = append(jobs, encJob{fmt.Sprintf("EncodeARP#%d", i), func(buf []byte) []byte {
			ether := packet.EncodeEther(buf, syscall.ETH_P_ARP, mac(1+i), packet.EthernetBroadcast)
			arp := packet.EncodeARP(ether.Payload(), packet.ARPOperationRequest, packet.Addr{MAC: mac(1 + i), IP: ip4(130 + i)},
				packet.Addr{MAC: packet.EthernetBroadcast, IP: lib.RouterIP4})
			ether, err := ether.SetPayload(arp)
			if err != nil {
				return []byte("err:" + err.Error())
			}
			return append([]byte{}, ether...)
		}})
		name := []byte(fmt.Sprintf("\x05host%d\x05local\x00", i))
		jobs = append(jobs, encJob{fmt.Sprintf("EncodeDNSQuery#%d", i), func(buf []byte) []byte {
			return append([]byte{}, packet.EncodeDNSQuery(uint16(100+i), 0x0100, name, 1)...)
		}})
		target := lla(1 + i)
		jobs = append(jobs, encJob{fmt.Sprintf("NDP-NS#%d", i), func(buf []byte) []byte {
			p, err := packet.ICMP6NeighborSolicitationMarshal(target, mac(1+i))
			if err != nil {
				return []byte("err:" + err.Error())
			}
			return append([]byte{}, p...)
		}})
	}
	return jobs
}

func encMain(c *ctx, rng *lib.Rand) {
	jobs := encJobs()
	want := make([][]byte, len(jobs))
	for i, j := range jobs {
		want[i] = j.run(make([]byte, packet.EthMaxSize))
	}
	var mu sync.Mutex
	bad := map[string]bool{}
	var wg sync.WaitGroup
	for g := 0; g < 6; g++ {
		wg.Add(1)
		r := rng.Fork()
		go func() {
			defer wg.Done()
			buf := make([]byte, packet.EthMaxSize) // this goroutine's own buffer
			for k := 0; k < 400; k++ {
				i := r.Intn(len(jobs))
				if got := jobs[i].run(buf); !bytes.Equal(got, want[i]) {
					mu.Lock()
					bad[jobs[i].name[:indexByte(jobs[i].name, 0x23)]] = true
					mu.Unlock()
				}
			}
		}()
	}
	wg.Wait()
	for n := range bad {
		c.emit("key", "encpar:concurrent-result-differs:"+n, "the encoder returned a different message than the same call made sequentially")
	}

	// error paths, then two concurrent senders that each take a pooled buffer
	c.conn.Take()
	src4 := packet.Addr{MAC: lib.HostMAC, IP: lib.HostIP4}
	dst4 := packet.Addr{MAC: mac(1), IP: ip4(131)}
	src6 := packet.Addr{MAC: lib.HostMAC, IP: lib.HostLLA}
	dst6 := packet.Addr{MAC: net.HardwareAddr{0x33, 0x33, 0xff, 0, 1, 1}, IP: netip.MustParseAddr("ff02::1:ff00:101")}
	send4 := func() { c.s.ICMP4SendEchoRequest(src4, dst4, 77, 5) }
	send6 := func() { c.s.ICMP6SendNeighbourSolicitation(src6, dst6, lla(1)) }
	send4()
	send6()
	base := c.conn.Take()
	if len(base) != 2 {
		c.emit("key", "encpar:baseline-frames", fmt.Sprintf("%d frames instead of 2", len(base)))
		return
	}
	var prefixes []packet.PrefixInformation
	for i := 0; i < 45; i++ {
		prefixes = append(prefixes, packet.PrefixInformation{PrefixLength: 64, Prefix: netip.MustParseAddr(fmt.Sprintf("2001:db8:%x::", i)).AsSlice()})
	}
	failed := 0
	for k := 0; k < 8; k++ {
		if p, _ := lib.Catch(func() {
			if err := c.s.ICMP6SendRouterAdvertisement(prefixes, nil, packet.IP6AllNodesAddr); err != nil {
				failed++
			}
		}); p {
			failed++
		}
	}
	c.emit("stat", "encpar.error-path-calls-failed", fmt.Sprint(failed))
	c.conn.Take()
	var wg2 sync.WaitGroup
	for g := 0; g < 2; g++ {
		wg2.Add(1)
		f := send4
		if g == 1 {
			f = send6
		}
		go func() {
			defer wg2.Done()
			for k := 0; k < 300; k++ {
				f()
			}
		}()
	}
	wg2.Wait()
	n4, n6, other := 0, 0, 0
	for _, fr := range c.conn.Take() {
		switch {
		case bytes.Equal(fr, base[0]):
			n4++
		case bytes.Equal(fr, base[1]):
			n6++
		default:
			other++
		}
	}
	if other != 0 || n4 != 300 || n6 != 300 {
		c.emit("key", "encpar:frames-after-error-path-differ", fmt.Sprintf("echo=%d ns=%d other=%d (expected 300/300/0)", n4, n6, other))
	}
}

func indexByte(s string, b byte) int {
	for i := 0; i < len(s); i++ {
		if s[i] == b {
			return i
		}
	}
	return len(s)
}
