#!/usr/bin/env python3
"""Appends to /verif/known_findings.txt one `finding:` line per key the C09 model predicts (predicted_gen.go)
that is not listed yet.  Keys = operation pair + field / panic class; the text names the root cause in the Go source."""
import os, re, fcntl, sys
here = os.path.dirname(os.path.abspath(__file__))
verif = os.path.abspath(os.path.join(here, "..", "..", ".."))
src = open(os.path.join(here, "predicted_gen.go")).read()
keys = sorted(set(re.findall(r'"((?:race|panic):[^"]+)"', src)))
seen = set()
sf = os.path.join(here, "seen_keys.txt")   # keys reproduced by the detector so far (maintained by hand from runs)
if os.path.exists(sf):
    seen = set(l.strip() for l in open(sf) if l.strip())

def cause(k):
    kind, pair, what = k.split(":", 2)
    a, b = pair.split("/")
    ops = {a, b}
    w = []
    if kind == "panic" and what == "nil-map-write":
        return "DNSHandler.Close sets DNSTable/mdnsCache to nil (dns.go:55-58); a ProcessDNS/ProcessMDNS of the packet loop that runs afterwards assigns into the nil map and panics (dns.go:141, mdns.go:307)"
    if kind == "panic":
        if what == "send-on-closed-channel":
            return "Close closes the notification channel / a handler close channel (session.go:240) while %s may still send on it (sendNotification, notification.go:50: len<cap test then send, no ordering with Close): send on closed channel panics" % (a if b.endswith("Close") else b)
        if what == "close-of-closed-channel":
            return "two overlapping Close calls both pass the unsynchronised `closed` test and close the same channel twice (close of closed channel panics)"
    f = what
    par = [o for o in ops if o.startswith("Parse") or o == "DHCPv4Update"]
    if f in ("Host.LastSeen", "MACEntry.LastSeen") and ("Parse.fast" in ops or "DHCPv4Update" in ops):
        w.append("findOrCreateHostWithLock writes LastSeen under the session READ lock (hosttable.go:116-117)")
    if f in ("Host.Online", "Host.dirty", "MACEntry.Online", "MACEntry.IPs", "MACEntry.HostList") and ("Parse.fast" in ops or "Parse.slow" in ops):
        w.append("Parse tests Host.Online and runs onlineTransition with no lock at all (layer_frame.go:197-199, 415-445)")
    if "PrintTable" in ops or ("Parse.slow" in ops or "DHCPv4Update" in ops):
        if f.startswith("Host.") or f.startswith("MACEntry."):
            w.append("printHostTable/printMACTable (also run by the duplicated-IP branch of findOrCreateHostWithLock) read Host and MACEntry fields under the session lock only, without the row lock (hosttable.go:89-100, Host.FastLog copies the whole record)")
    if f == "MACEntry.HostList":
        w.append("HostList is modified under the session write lock only (deleteHost/unlink mactable.go:75, creation hosttable.go:152) but read by notify/makeOffline/onlineTransition under the row lock or no lock (session.go:420,454; layer_frame.go:435)")
    if f in ("MACEntry.Names", "MACEntry.IP4Offer") and ("SetDHCPv4IPOffer" in ops or "DHCPv4IPOffer" in ops or "Notify.dhcp" in ops):
        w.append("SetDHCPv4IPOffer/DHCPv4IPOffer access IP4Offer and DHCP4Name under the session lock only (session.go:493-510) while DHCPv4Update/toNotification access them under the row lock only (session.go:484, notification.go:43)")
    if f == "HostTable.Table":
        w.append("Notify calls findIP on the host map with no lock (session.go:399) while the map is written under the session write lock")
    if f == "Session.closed":
        w.append("Session.closed is read and written by Close without synchronisation (session.go:235-238)")
    if f in ("Host.Names", "MACEntry.Manufacturer", "Host.Manufacturer", "Host.HuntStage") and not w:
        w.append("the record is initialised/updated under the session write lock only (hosttable.go:140-147) and read under the row lock only (toNotification, notification.go:41)")
    hc = {
     "arp.closed": "arp Handler.closed is written by Close (arp.go:66) and read by ProcessPacket and spoofLoop with no lock",
     "arp.huntList": "IsHunting -> findHuntByIP ranges over the hunt-list map with no lock (spoof.go:11-22) while StartHunt/StopHunt write it under arpMutex (can end in the runtime's fatal 'concurrent map iteration and map write')",
     "icmp6.closed": "Handler6.closed is written by Close with no lock (icmp6.go:71) and read by spoofLoop under the handler lock / by the RA branch of ProcessPacket with no lock",
     "icmp6.closeChan": "the RA branch of ProcessPacket replaces h.closeChan with no lock (icmp6.go:180-184) while spoofLoop's select and Close read it with no lock",
     "icmp6.huntList": "the RA branch of ProcessPacket calls h.huntList.Len() with no lock (icmp6.go:180) while StartHunt/StopHunt modify the list under the handler lock",
     "icmp6.LANRouters": "Handler6.PrintTable ranges over LANRouters and reads router fields with no lock (icmp6.go:43-57) while the RA branch updates them under the handler lock",
     "dhcp4.closed": "dhcp4 Handler.closed is read and written by Close with no lock (dhcp4.go:166-169)",
     "dns.table": "DNSHandler.Close stores nil into DNSTable with no lock (dns.go:56) while ProcessDNS/DNSFind use it under the handler lock",
     "dns.mdnsCache": "DNSHandler.Close stores nil into mdnsCache with no lock (dns.go:57) while ProcessMDNS uses it under the handler lock",
    }
    if f in hc:
        w = [hc[f]]
    if kind == "panic" and what == "nil-map-write":
        return "DNSHandler.Close sets DNSTable/mdnsCache to nil (dns.go:55-58); a ProcessDNS/ProcessMDNS of the packet loop that runs afterwards assigns into the nil map and panics (dns.go:141, mdns.go:307)"
    if not w:
        w.append("conflicting accesses with no common lock")
    return "; ".join(dict.fromkeys(w))

path = os.path.join(verif, "known_findings.txt")
with open("/tmp/kf.lock", "w") as lk:
    fcntl.flock(lk, fcntl.LOCK_EX)
    have = set(re.findall(r"^finding:\s+property=C09\s+key=(\S+)", open(path).read(), flags=re.M))
    new = [k for k in keys if k not in have]
    with open(path, "a") as f:
        for k in new:
            kind, pair, what = k.split(":", 2)
            status = "reproduced by the race detector" if k in seen else "predicted by the lockset model from the same unprotected access; not yet reported by the detector"
            if kind == "race":
                f.write("finding: property=C09 key=%s data race on %s between %s (%s): %s\n" % (k, what, pair.replace("/", " and "), status, cause(k)))
            else:
                f.write("finding: property=C09 key=%s %s between %s (%s): %s\n" % (k, what, pair.replace("/", " and "), status, cause(k)))
print("added %d, total predicted %d" % (len(new), len(keys)))
