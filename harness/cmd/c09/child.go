package main

import (
	"fmt"
	"net"
	"net/netip"
	"os"
	"os/signal"
	"regexp"
	"runtime"
	"sort"
	"strconv"
	"strings"
	"sync"
	"sync/atomic"
	"syscall"
	"time"

	"github.com/irai/packet"

	"pvharness/lib"
)

// ---------------------------------------------------------------- operation registry

type opDef struct {
	name    string // model name
	wrapper string // suffix of the Go wrapper main.op_<wrapper>
	pkt     bool   // runs in the single packet-loop goroutine
	once    bool   // called once in the middle of the run (Close)
	run     func(c *ctx, g *gctx)
	needs   string // handler needed: "", "arp", "icmp6", "dhcp4", "dns"
}

var opDefs []opDef
var wrapperOp = map[string]string{}

func reg(d opDef) {
	opDefs = append(opDefs, d)
	wrapperOp[d.wrapper] = d.name
}

func findOp(name string) *opDef {
	for i := range opDefs {
		if opDefs[i].name == name {
			return &opDefs[i]
		}
	}
	return nil
}
func isRunnable(name string) bool { return findOp(name) != nil }
func runnableOps() []string {
	var r []string
	for _, n := range opNames { // table order
		if isRunnable(n) {
			r = append(r, n)
		}
	}
	return r
}

// goroutines the library starts itself: root function suffix -> modelled operation
var rootFuncs = []struct{ suffix, op string }{
	{".(*Session).purge.func1", "purge.probe"},
	{".(*Session).purge", "purge"},
	{".Config.NewSession.func2", "minuteLoop"},
	{".Config.NewSession.func1", "nicMonitor"},
}

var handlerRules = map[string][]fieldRule{}

// closerOf: the operation that closes the channels an operation may send on / close
func closerOf(op string) string {
	if i := strings.Index(op, "."); i > 0 {
		switch op[:i] {
		case "arp", "icmp6", "dhcp4", "dns":
			return op[:i] + ".Close"
		}
	}
	return "Close"
}

var predictedAnywhere = map[string]bool{}

func init() {
	for _, ks := range predictedTable {
		for _, k := range ks {
			predictedAnywhere[k] = true
		}
	}
	registerSessionOps()
}

func directedMixes() [][]string {
	return [][]string{
		// overlapping Close calls (both fire at the same instant), the packet loop and background still running
		// the notification channel with exactly one free slot / full and NO consumer: two legitimate senders
		// (packet loop Notify, background purge -> makeOffline) compete for the slot while a prober needs the
		// session write lock; a sender that blocks with the lock held stalls the prober, Close, Capture
		{"@slot", "Parse.fast", "Notify", "purge", "purge", "Close"},
		{"@slot", "Parse.fast", "Parse.slow", "Notify", "purge", "purge", "Capture", "Release"},
		{"@full", "Parse.fast", "Notify", "purge", "Close"},
		// concurrent encoders with their own buffers vs the sequential results; pooled senders after error paths
		// every runtime-settable log level flips between off and Info while every frame is a host creation or an
		// online/offline transition (purge with a late clock takes the hosts offline again)
		{"@toggle", "Parse.fast", "Parse.slow", "Notify", "purge", "purge"},
		{"@toggle", "Parse.fast", "Notify", "DHCPv4Update", "purge", "arp.ProcessPacket", "arp.StartHunt", "arp.StopHunt"},
		{"@toggle", "Parse.slow", "Notify.dhcp", "purge", "dhcp4.ProcessPacket", "icmp6.ProcessPacket.RA", "icmp6.StartHunt", "icmp6.StopHunt", "dns.ProcessDNS"},
		{"@encpar"},
		{"@encpar", "Parse.fast", "purge"},
		{"Close", "Close", "Notify", "purge", "Parse.fast"},
		{"arp.Close", "arp.Close", "arp.ProcessPacket", "arp.StartHunt", "arp.IsHunting"},
		{"icmp6.Close", "icmp6.Close", "icmp6.ProcessPacket.RA", "icmp6.StartHunt", "icmp6.StopHunt"},
		{"dhcp4.Close", "dhcp4.Close", "dhcp4.ProcessPacket", "dhcp4.MinuteTicker"},
		{"dns.Close", "dns.ProcessDNS", "dns.ProcessMDNS", "dns.DNSFind"},
		// IPv6 hosts: icmp6.PrintTable's row-locked read of Host.Online against the packet loop and purge
		{"Parse.fast", "Parse.slow", "icmp6.PrintTable", "purge"},
		{"DHCPv4Update", "icmp6.PrintTable", "dhcp4.ProcessPacket", "purge"},
		// host creation (names, manufacturer) against purge's notifications
		{"Parse.slow", "DHCPv4Update", "purge", "Notify"},
		{"dhcp4.ProcessPacket", "purge", "PrintTable", "SetDHCPv4IPOffer"},
		{"Parse.fast", "purge"},
		{"Parse.fast", "Notify", "purge", "PrintTable"},
		{"Parse.slow", "Notify.dhcp", "purge", "DHCPv4Update"},
		{"Parse.fast", "Notify", "purge", "Close"},
		{"Close", "Close", "purge"},
		{"Notify.dhcp", "Parse.slow", "SetDHCPv4IPOffer", "DHCPv4IPOffer"},
	}
}

// ---------------------------------------------------------------- child context

type ctx struct {
	s       *packet.Session
	conn    *lib.RecConn
	closed  int32
	res     *os.File
	resMu   sync.Mutex
	fast    [][]byte // frames of hosts that exist from the start
	dhcpFrm packet.Frame
	pre     []packet.Frame
}

type gctx struct { // per goroutine
	rng  *lib.Rand
	last packet.Frame
	have bool
	n    int
}

func (c *ctx) emit(kind, a, b string) {
	c.resMu.Lock()
	defer c.resMu.Unlock()
	b = strings.ReplaceAll(strings.ReplaceAll(b, "\n", " | "), "\t", " ")
	fmt.Fprintf(c.res, "%s\t%s\t%s\n", kind, a, b)
}

func mac(i int) net.HardwareAddr { return net.HardwareAddr{0x02, 0, 0, 0, 0, byte(i)} }
func ip4(i int) netip.Addr       { return netip.AddrFrom4([4]byte{192, 168, 0, byte(i)}) }

// fast hosts: MAC i <-> 192.168.0.(130+i), i=1..4 ; MAC 1 also owns .139
// slow range: 192.168.0.140-199 on MACs 0x10..0x17 (several hosts per MAC), MAC flips on .200-.203
func udpFrame(m net.HardwareAddr, src netip.Addr, sp, dp uint16) []byte {
	return lib.MkEther(lib.RouterMAC, m, 0x0800, lib.MkIP4(src, lib.RouterIP4, 17, 64, lib.MkUDP(sp, dp, []byte("payload!"))))
}

func setup(c *ctx) {
	c.s, c.conn = lib.NewSession()
	for i := 1; i <= 4; i++ {
		c.fast = append(c.fast, udpFrame(mac(i), ip4(130+i), 40000, 9999))
	}
	c.fast = append(c.fast, udpFrame(mac(1), ip4(139), 40000, 9999))
	for i := 1; i <= 2; i++ { // IPv6 link-local hosts of MAC 1 and 2
		src := netip.AddrFrom16([16]byte{0xfe, 0x80, 0, 0, 0, 0, 0, 0, 0, 0, 0, 0, 0, 0, 1, byte(i)})
		c.fast = append(c.fast, lib.MkEther(lib.RouterMAC, mac(i), 0x86dd, lib.MkIP6(src, lib.RouterLLA, 17, 64, lib.MkUDP(40000, 9999, []byte("payload6")))))
	}
	for _, f := range c.fast {
		fr, err := c.s.Parse(f)
		if err != nil {
			panic(err)
		}
		c.s.Notify(fr)
		c.pre = append(c.pre, fr)
	}
	// a DHCP client (MAC 2) with an offer recorded for its address: Notify's DHCP path finds the host by the offer
	c.s.SetDHCPv4IPOffer(mac(2), ip4(132), packet.NameEntry{Type: "dhcp4", Name: "two"})
	d := lib.MkEther(net.HardwareAddr{0xff, 0xff, 0xff, 0xff, 0xff, 0xff}, mac(2), 0x0800,
		lib.MkIP4(netip.IPv4Unspecified(), netip.MustParseAddr("255.255.255.255"), 17, 64, lib.MkUDP(68, 67, make([]byte, 300))))
	fr, err := c.s.Parse(d)
	if err != nil {
		panic(err)
	}
	if fr.Host != nil || fr.PayloadID != packet.PayloadDHCP4 {
		panic("dhcp frame not classified as expected")
	}
	c.dhcpFrm = fr
}

func registerSessionOps() {
	reg(opDef{name: "Parse.fast", wrapper: "ParseFast", pkt: true, run: op_ParseFast})
	reg(opDef{name: "Parse.slow", wrapper: "ParseSlow", pkt: true, run: op_ParseSlow})
	reg(opDef{name: "Notify", wrapper: "Notify", pkt: true, run: op_Notify})
	reg(opDef{name: "Notify.dhcp", wrapper: "NotifyDhcp", pkt: true, run: op_NotifyDhcp})
	reg(opDef{name: "purge", wrapper: "Purge", run: op_Purge})
	reg(opDef{name: "FindIP", wrapper: "FindIP", run: op_FindIP})
	reg(opDef{name: "GetHosts", wrapper: "GetHosts", run: op_GetHosts})
	reg(opDef{name: "IPAddrs", wrapper: "IPAddrs", run: op_IPAddrs})
	reg(opDef{name: "FindByMAC", wrapper: "FindByMAC", run: op_FindByMAC})
	reg(opDef{name: "FindMACEntry", wrapper: "FindMACEntry", run: op_FindMACEntry})
	reg(opDef{name: "PrintTable", wrapper: "PrintTable", run: op_PrintTable})
	reg(opDef{name: "Capture", wrapper: "Capture", run: op_Capture})
	reg(opDef{name: "Release", wrapper: "Release", run: op_Release})
	reg(opDef{name: "IsCaptured", wrapper: "IsCaptured", run: op_IsCaptured})
	reg(opDef{name: "DHCPv4IPOffer", wrapper: "DHCPv4IPOffer", run: op_DHCPv4IPOffer})
	reg(opDef{name: "SetDHCPv4IPOffer", wrapper: "SetDHCPv4IPOffer", run: op_SetDHCPv4IPOffer})
	reg(opDef{name: "DHCPv4Update", wrapper: "DHCPv4Update", pkt: true, run: op_DHCPv4Update})
	reg(opDef{name: "Close", wrapper: "SessClose", once: true, run: op_SessClose})
}

func anyMAC(g *gctx) net.HardwareAddr {
	if g.rng.Chance(60) {
		return mac(1 + g.rng.Intn(4))
	}
	return mac(0x10 + g.rng.Intn(8))
}
func anyIP(g *gctx) netip.Addr {
	if g.rng.Chance(60) {
		return ip4(131 + g.rng.Intn(4))
	}
	return ip4(140 + g.rng.Intn(64))
}

//go:noinline
func body_ParseFast(c *ctx, g *gctx) {
	f, err := c.s.Parse(c.fast[g.rng.Intn(len(c.fast))])
	if err == nil {
		g.last, g.have = f, true
	}
}

//go:noinline
func body_ParseSlow(c *ctx, g *gctx) {
	var b []byte
	if g.rng.Chance(50) {
		// a new address, several per MAC
		k := g.rng.Intn(60)
		b = udpFrame(mac(0x10+k%8), ip4(140+k), 40001, 9999)
	} else {
		// the same address from alternating MACs: the duplicated-IP branch (delete + create) every time
		g.n++
		k := g.rng.Intn(4)
		b = udpFrame(mac(0x20+(g.n+k)%3), ip4(200+k), 40002, 9999)
	}
	f, err := c.s.Parse(b)
	if err == nil {
		g.last, g.have = f, true
	}
}

//go:noinline
func body_Notify(c *ctx, g *gctx) {
	if g.have {
		c.s.Notify(g.last)
		return
	}
	c.s.Notify(c.pre[g.rng.Intn(len(c.pre))])
}

//go:noinline
func body_NotifyDhcp(c *ctx, g *gctx) { c.s.Notify(c.dhcpFrm) }

//go:noinline
func body_Purge(c *ctx, g *gctx) {
	now := time.Now()
	switch g.rng.Intn(4) {
	case 1:
		now = now.Add(6 * time.Minute) // offline transitions
	case 2, 3:
		now = now.Add(2 * time.Hour) // deletions of offline hosts
	}
	c.s.VerifPurge(now)
}

//go:noinline
func body_FindIP(c *ctx, g *gctx) { _ = c.s.FindIP(anyIP(g)) }

//go:noinline
func body_GetHosts(c *ctx, g *gctx) { _ = c.s.GetHosts() }

//go:noinline
func body_IPAddrs(c *ctx, g *gctx) { _ = c.s.IPAddrs(anyMAC(g)) }

//go:noinline
func body_FindByMAC(c *ctx, g *gctx) { _ = c.s.FindByMAC(anyMAC(g)) }

//go:noinline
func body_FindMACEntry(c *ctx, g *gctx) { _ = c.s.FindMACEntry(anyMAC(g)) }

//go:noinline
func body_PrintTable(c *ctx, g *gctx) { c.s.PrintTable() }

//go:noinline
func body_Capture(c *ctx, g *gctx) { _ = c.s.Capture(anyMAC(g)) }

//go:noinline
func body_Release(c *ctx, g *gctx) { _ = c.s.Release(anyMAC(g)) }

//go:noinline
func body_IsCaptured(c *ctx, g *gctx) { _ = c.s.IsCaptured(anyMAC(g)) }

//go:noinline
func body_DHCPv4IPOffer(c *ctx, g *gctx) { _ = c.s.DHCPv4IPOffer(anyMAC(g)) }

//go:noinline
func body_SetDHCPv4IPOffer(c *ctx, g *gctx) {
	c.s.SetDHCPv4IPOffer(anyMAC(g), anyIP(g), packet.NameEntry{Type: "dhcp4", Name: "n" + strconv.Itoa(g.rng.Intn(3))})
}

//go:noinline
func body_DHCPv4Update(c *ctx, g *gctx) {
	_ = c.s.DHCPv4Update(anyMAC(g), anyIP(g), packet.NameEntry{Type: "dhcp4", Name: "u" + strconv.Itoa(g.rng.Intn(3))})
}

//go:noinline
func body_SessClose(c *ctx, g *gctx) {
	atomic.StoreInt32(&c.closed, 1)
	c.s.Close()
}

// ---------------------------------------------------------------- child main

func childMain() {
	signal.Ignore(syscall.SIGTERM)
	mix := strings.Split(os.Getenv("C09_MIX"), ",")
	seed, _ := strconv.ParseUint(os.Getenv("C09_SEED"), 10, 64)
	durMS, _ := strconv.Atoi(os.Getenv("C09_DUR_MS"))
	res, err := os.Create(os.Getenv("C09_RES"))
	if err != nil {
		fmt.Fprintln(os.Stderr, err)
		os.Exit(2)
	}
	c := &ctx{res: res}
	rng := lib.NewRand(seed)
	base := runtime.NumGoroutine()
	setup(c)
	for _, o := range mix {
		if d := findOp(o); d != nil && d.needs != "" {
			setupHandler(c, d.needs)
		}
	}

	mode := ""
	for _, o := range mix {
		if strings.HasPrefix(o, "@") {
			mode = o
		}
	}
	if mode == "@encpar" {
		encMain(c, rng)
	}
	if mode == "@toggle" {
		go toggler(rng.Fork())
		base++
	}
	var stuck int32
	switch mode {
	case "":
		// consumer of the notification channel ("the caller is reading")
		go func() {
			for range c.s.C {
			}
		}()
	case "@encpar", "@toggle":
		go func() {
			for range c.s.C {
			}
		}()
	case "@full", "@slot":
		// nobody reads: the channel is pre-filled to capacity (@full) or capacity-1 (@slot)
		n := cap(c.s.C)
		if mode == "@slot" {
			n--
		}
		for len(c.s.C) < n {
			c.s.C <- packet.Notification{}
		}
		if mode == "@slot" {
			go slotter(c, &stuck)
			base++
		}
	}

	// the recording connection is emptied regularly (the DHCP handler can emit bursts)
	go func() {
		for {
			time.Sleep(50 * time.Millisecond)
			c.conn.Take()
		}
	}()
	base++

	var stop int32
	var wg sync.WaitGroup
	var seenPanic sync.Map
	// guard runs one operation; a recovered panic is recorded once per (operation, message) and reported to
	// the caller, which then continues in a FRESH goroutine: the detector's shadow call stack of a goroutine
	// is not reliable after a recover, and stacks are what attributes reports to operations
	guard := func(d *opDef, g *gctx) (ok bool) {
		ok = true
		defer func() {
			if e := recover(); e != nil {
				ok = false
				msg := fmt.Sprint(e)
				if _, dup := seenPanic.LoadOrStore(d.name+"|"+msg, true); !dup {
					c.emit("panic", d.name, msg)
				}
			}
		}()
		d.run(c, g)
		return
	}
	perturb := func(g *gctx) {
		switch g.rng.Intn(8) {
		case 0, 1, 2:
			runtime.Gosched()
		case 3:
			time.Sleep(time.Duration(g.rng.Intn(50)) * time.Microsecond)
		}
	}
	var loop func(pick func(g *gctx) *opDef, g *gctx)
	loop = func(pick func(g *gctx) *opDef, g *gctx) {
		defer wg.Done()
		for atomic.LoadInt32(&stop) == 0 {
			if !guard(pick(g), g) {
				wg.Add(1)
				go loop(pick, g)
				return
			}
			perturb(g)
		}
	}
	var pkt []*opDef
	onceAt := map[string]time.Duration{}
	for _, o := range mix {
		d := findOp(o)
		if d == nil {
			continue
		}
		if d.pkt {
			pkt = append(pkt, d)
			continue
		}
		g := &gctx{rng: rng.Fork()}
		wg.Add(1)
		if d.once {
			// instances of the same once-operation fire at the same instant (overlapping Close calls)
			at, ok := onceAt[d.name]
			if !ok {
				at = time.Duration(durMS) * time.Millisecond * time.Duration(40+g.rng.Intn(30)) / 100
				onceAt[d.name] = at
			}
			go func(d *opDef) {
				defer wg.Done()
				time.Sleep(at)
				guard(d, g)
			}(d)
			continue
		}
		dd := d
		go loop(func(*gctx) *opDef { return dd }, g)
	}
	if len(pkt) > 0 {
		// THE packet loop goroutine (one at a time)
		wg.Add(1)
		go loop(func(g *gctx) *opDef { return pkt[g.rng.Intn(len(pkt))] }, &gctx{rng: rng.Fork()})
	}
	time.Sleep(time.Duration(durMS) * time.Millisecond)
	atomic.StoreInt32(&stop, 1)
	joined := make(chan struct{})
	go func() { wg.Wait(); close(joined) }()
	select {
	case <-joined:
	case <-time.After(8 * time.Second):
		buf := make([]byte, 1<<20)
		n := runtime.Stack(buf, true)
		// a recovered panic inside the library may have left a lock held (the real program would have died)
		panicked := false
		seenPanic.Range(func(_, _ interface{}) bool { panicked = true; return false })
		if panicked {
			c.emit("key", "note:stuck-after-recovered-panic", summarizeStacks(string(buf[:n])))
		} else {
			c.emit("key", "watchdog:operations-did-not-return", summarizeStacks(string(buf[:n])))
		}
		c.emit("done", "", "")
		res.Close()
		os.Exit(3)
	}

	// quiescent point: table consistency through the public API and the exported tables
	if p, msg := lib.Catch(func() { c.s.PrintTable() }); p {
		c.emit("key", "invariant:PrintTable-panics", msg)
	}
	if msg := checkTables(c.s); msg != "" {
		c.emit("key", "invariant:"+msg, "tables inconsistent at quiescence")
	}

	// Close stops the background goroutines
	closeHandlers(c)
	if p, msg := lib.Catch(func() { op_SessClose(c, &gctx{rng: lib.NewRand(1)}) }); p {
		c.emit("key", "panic:final-Close", msg)
	}
	deadline := time.Now().Add(4 * time.Second)
	for runtime.NumGoroutine() > base && time.Now().Before(deadline) {
		time.Sleep(20 * time.Millisecond)
	}
	if n := runtime.NumGoroutine(); n > base {
		buf := make([]byte, 1<<20)
		k := runtime.Stack(buf, true)
		c.emit("key", "leak:goroutines-after-Close", fmt.Sprintf("%d goroutines beyond the %d at start: %s", n-base, base, summarizeStacks(string(buf[:k]))))
	}
	c.emit("done", "", "")
	res.Close()
}

// slotter keeps the unread notification channel at "exactly one free slot": whenever it is full it takes
// ONE notification out, then checks that the session write lock can still be taken (Release of an unknown
// MAC).  A sender blocked on the channel with the session lock held makes that probe hang: reported as
// watchdog:session-lock-stuck (then the channel is drained so that the child can end).
func slotter(c *ctx, stuck *int32) {
	probeMAC := net.HardwareAddr{0x02, 0xfe, 0xfe, 0xfe, 0xfe, 0xfe}
	for {
		if len(c.s.C) >= cap(c.s.C) {
			select {
			case <-c.s.C:
			default:
			}
		}
		time.Sleep(2 * time.Millisecond)
		done := make(chan struct{})
		go func() { c.s.Release(probeMAC); close(done) }()
		select {
		case <-done:
		case <-time.After(4 * time.Second):
			buf := make([]byte, 1<<20)
			n := runtime.Stack(buf, true)
			c.emit("key", "watchdog:session-lock-stuck", "the session write lock could not be taken for 4 s with the notification channel unread: "+summarizeStacks(string(buf[:n])))
			atomic.StoreInt32(stuck, 1)
			for {
				select {
				case _, ok := <-c.s.C:
					if !ok {
						return
					}
				case <-time.After(10 * time.Second):
					return
				}
			}
		}
		if atomic.LoadInt32(&c.closed) == 1 {
			return
		}
	}
}

var reGoroutineHdr = regexp.MustCompile(`(?m)^goroutine \d+ \[([^\]]*)\]:\n(\S+)`)

func summarizeStacks(s string) string {
	cnt := map[string]int{}
	for _, m := range reGoroutineHdr.FindAllStringSubmatch(s, -1) {
		cnt[m[2]+"["+m[1]+"]"]++
	}
	var k []string
	for x, n := range cnt {
		k = append(k, fmt.Sprintf("%s x%d", x, n))
	}
	sort.Strings(k)
	return strings.Join(k, "; ")
}

// checkTables: the C05 consistency conditions, read at quiescence under the session lock's absence (no goroutine runs)
func checkTables(s *packet.Session) string {
	cnt := 0
	seen := map[string]bool{}
	for _, e := range s.MACTable.Table {
		if seen[string(e.MAC)] {
			return "duplicate-mac-entry"
		}
		seen[string(e.MAC)] = true
		online := false
		for _, h := range e.HostList {
			cnt++
			if h.MACEntry != e {
				return "host-backpointer"
			}
			if s.HostTable.Table[h.Addr.IP] != h {
				return "host-not-indexed"
			}
			if h.Online {
				online = true
			}
		}
		if online && !e.Online {
			return "online-host-offline-mac"
		}
	}
	if cnt != len(s.HostTable.Table) {
		return "host-count"
	}
	for ip, h := range s.HostTable.Table {
		if h.Addr.IP != ip {
			return "host-index-key"
		}
	}
	return ""
}

// handlers are added by handlers.go
var setupHandler = func(c *ctx, which string) {}
var closeHandlers = func(c *ctx) {}
