package main

// static.go — the SOURCE-DERIVED half of the C09 tie.  A go/ast + go/types pass over $VERIF_REPO that, for
// the entry function of every modelled operation, walks the statements in program structure (branches are
// walked from the state at the branch, a branch that ends in return/continue/break/panic does not flow on),
// inlines the calls to functions of the five packages (packet and the four handlers; recursion and depth
// overflow are `unrecognised`), simulates the set of held locks and records
//
//	acquire contexts   "<held>[+<held>]><class>:<mode>"   (a re-acquisition shows as "Sess:R>Sess:R")
//	channel operations "<held>>send:<chan>" / "<held>>close:<chan>"
//	goroutines started "go:<operation>"
//	tracked struct fields accessed with no lock held ("F:r", "F:w") or written under read locks only ("F:w@Sess:R")
//
// as sorted sets.  The model answers the same canonical text from its templates (coq/Model/LocksStatic.v), so a
// nested RLock, a changed lock order, a removed lock or an access moved out of its lock region breaks the
// correspondence without any scheduling luck.

import (
	"fmt"
	"go/ast"
	"go/importer"
	"go/parser"
	"go/token"
	"go/types"
	"os"
	"path/filepath"
	"sort"
	"strings"
)

const pktPath = "github.com/irai/packet"

type staticPkg struct {
	path  string
	files []*ast.File
	info  *types.Info
}

type funcBody struct {
	name   string // types.Func full name or "<parent>$lit<n>"
	pkg    *staticPkg
	body   *ast.BlockStmt
	lits   []*ast.FuncLit // go-statement literals, in source order
	params []*ast.Ident   // parameter names, flattened, in order (nil for literals)
}

type staticAnalysis struct {
	fset       *token.FileSet
	pkgs       map[string]*staticPkg
	funcs      map[string]*funcBody
	unrec      map[string]int
	errors     []string
	targets    map[string]bool
	classified map[string]string
}

// entry functions: unit name -> (function, model operations whose templates are its paths)
type entryDef struct {
	unit string
	fn   string // full name as printed by types.Func.FullName, "#k" suffix = k-th `go func` literal inside
	ops  string
}

var entryDefs = []entryDef{
	{"Parse", "(*" + pktPath + ".Session).Parse", "Parse.fast,Parse.slow"},
	{"Notify", "(*" + pktPath + ".Session).Notify", "Notify,Notify.dhcp"},
	{"DHCPv4Update", "(*" + pktPath + ".Session).DHCPv4Update", "DHCPv4Update"},
	{"ReadFrom", "(*" + pktPath + ".Session).ReadFrom", "ReadFrom"},
	{"purge", "(*" + pktPath + ".Session).purge", "purge"},
	{"purge.probe", "(*" + pktPath + ".Session).purge#1", "purge.probe"},
	{"nicMonitor", "(" + pktPath + ".Config).NewSession#1", "nicMonitor"},
	{"minuteLoop", "(" + pktPath + ".Config).NewSession#2", "minuteLoop"},
	{"FindIP", "(*" + pktPath + ".Session).FindIP", "FindIP"},
	{"GetHosts", "(*" + pktPath + ".Session).GetHosts", "GetHosts"},
	{"IPAddrs", "(*" + pktPath + ".Session).IPAddrs", "IPAddrs"},
	{"FindByMAC", "(*" + pktPath + ".Session).FindByMAC", "FindByMAC"},
	{"FindMACEntry", "(*" + pktPath + ".Session).FindMACEntry", "FindMACEntry"},
	{"PrintTable", "(*" + pktPath + ".Session).PrintTable", "PrintTable"},
	{"Capture", "(*" + pktPath + ".Session).Capture", "Capture"},
	{"Release", "(*" + pktPath + ".Session).Release", "Release"},
	{"IsCaptured", "(*" + pktPath + ".Session).IsCaptured", "IsCaptured"},
	{"DHCPv4IPOffer", "(*" + pktPath + ".Session).DHCPv4IPOffer", "DHCPv4IPOffer"},
	{"SetDHCPv4IPOffer", "(*" + pktPath + ".Session).SetDHCPv4IPOffer", "SetDHCPv4IPOffer"},
	{"Close", "(*" + pktPath + ".Session).Close", "Close"},
	{"arp.ProcessPacket", "(*" + pktPath + "/handlers/arp_spoofer.Handler).ProcessPacket", "arp.ProcessPacket"},
	{"arp.StartHunt", "(*" + pktPath + "/handlers/arp_spoofer.Handler).StartHunt", "arp.StartHunt"},
	{"arp.StopHunt", "(*" + pktPath + "/handlers/arp_spoofer.Handler).StopHunt", "arp.StopHunt"},
	{"arp.IsHunting", "(*" + pktPath + "/handlers/arp_spoofer.Handler).IsHunting", "arp.IsHunting"},
	{"arp.PrintTable", "(*" + pktPath + "/handlers/arp_spoofer.Handler).PrintTable", "arp.PrintTable"},
	{"arp.spoofLoop", "(*" + pktPath + "/handlers/arp_spoofer.Handler).spoofLoop", "arp.spoofLoop"},
	{"arp.Close", "(*" + pktPath + "/handlers/arp_spoofer.Handler).Close", "arp.Close"},
	{"icmp6.ProcessPacket", "(*" + pktPath + "/handlers/icmp_spoofer.Handler6).ProcessPacket", "icmp6.ProcessPacket.RA"},
	{"icmp6.StartHunt", "(*" + pktPath + "/handlers/icmp_spoofer.Handler6).StartHunt", "icmp6.StartHunt"},
	{"icmp6.StopHunt", "(*" + pktPath + "/handlers/icmp_spoofer.Handler6).StopHunt", "icmp6.StopHunt"},
	{"icmp6.PrintTable", "(*" + pktPath + "/handlers/icmp_spoofer.Handler6).PrintTable", "icmp6.PrintTable"},
	{"icmp6.spoofLoop", "(*" + pktPath + "/handlers/icmp_spoofer.Handler6).spoofLoop", "icmp6.spoofLoop"},
	{"icmp6.Close", "(*" + pktPath + "/handlers/icmp_spoofer.Handler6).Close", "icmp6.Close"},
	{"dhcp4.ProcessPacket", "(*" + pktPath + "/handlers/dhcp4_spoofer.Handler).ProcessPacket", "dhcp4.ProcessPacket"},
	{"dhcp4.MinuteTicker", "(*" + pktPath + "/handlers/dhcp4_spoofer.Handler).MinuteTicker", "dhcp4.MinuteTicker"},
	{"dhcp4.StartHunt", "(*" + pktPath + "/handlers/dhcp4_spoofer.Handler).StartHunt", "dhcp4.StartHunt"},
	{"dhcp4.PrintTable", "(*" + pktPath + "/handlers/dhcp4_spoofer.Handler).PrintTable", "dhcp4.PrintTable"},
	{"dhcp4.forceDecline.go", "(*" + pktPath + "/handlers/dhcp4_spoofer.Handler).forceDecline#1", "dhcp4.sendDeclineRelease"},
	{"dhcp4.forceRelease.go", "(*" + pktPath + "/handlers/dhcp4_spoofer.Handler).forceRelease#1", "dhcp4.sendDeclineRelease"},
	{"dhcp4.Close", "(*" + pktPath + "/handlers/dhcp4_spoofer.Handler).Close", "dhcp4.Close"},
	{"dns.ProcessDNS", "(*" + pktPath + "/handlers/dns_naming.DNSHandler).ProcessDNS", "dns.ProcessDNS"},
	{"dns.ProcessMDNS", "(*" + pktPath + "/handlers/dns_naming.DNSHandler).ProcessMDNS", "dns.ProcessMDNS"},
	{"dns.DNSFind", "(*" + pktPath + "/handlers/dns_naming.DNSHandler).DNSFind", "dns.DNSFind"},
	{"dns.Close", "(*" + pktPath + "/handlers/dns_naming.DNSHandler).Close", "dns.Close"},
}

// goroutine start -> modelled operation
var spawnOp = map[string]string{
	"(*" + pktPath + ".Session).purge":                                      "purge",
	"(*" + pktPath + ".Session).purge#1":                                    "purge.probe",
	"(*" + pktPath + "/handlers/arp_spoofer.Handler).spoofLoop":             "arp.spoofLoop",
	"(*" + pktPath + "/handlers/icmp_spoofer.Handler6).spoofLoop":           "icmp6.spoofLoop",
	"(*" + pktPath + "/handlers/dhcp4_spoofer.Handler).forceDecline":        "dhcp4.sendDeclineRelease",
	"(*" + pktPath + "/handlers/dhcp4_spoofer.Handler).forceDecline#1":      "dhcp4.sendDeclineRelease",
	"(*" + pktPath + "/handlers/dhcp4_spoofer.Handler).forceRelease#1":      "dhcp4.sendDeclineRelease",
	"(*" + pktPath + "/handlers/icmp_spoofer.RADVS).sendAdvertistementLoop": "", // not in the supported pattern
}

// (type, field) -> lock class
var lockClassOf = map[string]string{
	pktPath + ".Session.mutex":                         "Sess",
	pktPath + ".MACEntry.Row":                          "Row",
	pktPath + "/handlers/arp_spoofer.Handler.arpMutex": "Arp",
	pktPath + "/handlers/icmp_spoofer.Handler6.Mutex":  "Icmp6",
	pktPath + "/handlers/dhcp4_spoofer.Handler.Mutex":  "Dhcp",
	pktPath + "/handlers/dns_naming.DNSHandler.mutex":  "Dns",
}

// (type, field) -> channel name of the model
var chanOf = map[string]string{
	pktPath + ".Session.C":                                "Session.C",
	pktPath + ".Session.closeChan":                        "Session.closeChan",
	pktPath + "/handlers/arp_spoofer.Handler.closeChan":   "arp.closeChan",
	pktPath + "/handlers/icmp_spoofer.Handler6.closeChan": "icmp6.closeChan",
	pktPath + "/handlers/dhcp4_spoofer.Handler.closeChan": "dhcp4.closeChan",
}

// (type, field) -> tracked field of the model ("" = every field of the type maps to the value of "<type>.*")
var fieldOf = map[string]string{}

func init() {
	h, m := pktPath+".Host.", pktPath+".MACEntry."
	for _, n := range []string{"DHCP4Name", "MDNSName", "SSDPName", "LLMNRName", "NBNSName"} {
		fieldOf[h+n] = "Host.Names"
		fieldOf[m+n] = "MACEntry.Names"
	}
	for k, v := range map[string]string{
		h + "LastSeen": "Host.LastSeen", h + "Online": "Host.Online", h + "dirty": "Host.dirty", h + "HuntStage": "Host.HuntStage",
		h + "Manufacturer": "Host.Manufacturer",
		m + "LastSeen":     "MACEntry.LastSeen", m + "Online": "MACEntry.Online", m + "Captured": "MACEntry.Captured",
		m + "IsRouter": "MACEntry.IsRouter", m + "IP4": "MACEntry.IPs", m + "IP6GUA": "MACEntry.IPs", m + "IP6LLA": "MACEntry.IPs",
		m + "IP4Offer": "MACEntry.IP4Offer", m + "HostList": "MACEntry.HostList", m + "Manufacturer": "MACEntry.Manufacturer",
		pktPath + ".HostTable.Table": "HostTable.Table", pktPath + ".MACTable.Table": "MACTable.Table",
		pktPath + ".Session.closed": "Session.closed", pktPath + ".Session.Statistics": "Session.Statistics",
		pktPath + ".ProtoStats.*":                          "Session.Statistics",
		pktPath + ".AddrList.list":                         "icmp6.huntList",
		pktPath + "/handlers/arp_spoofer.Handler.huntList": "arp.huntList", pktPath + "/handlers/arp_spoofer.Handler.closed": "arp.closed",
		pktPath + "/handlers/icmp_spoofer.Handler6.closed": "icmp6.closed", pktPath + "/handlers/icmp_spoofer.Handler6.closeChan": "icmp6.closeChan",
		pktPath + "/handlers/icmp_spoofer.Handler6.LANRouters": "icmp6.LANRouters", pktPath + "/handlers/icmp_spoofer.Handler6.Router": "icmp6.Router",
		pktPath + "/handlers/icmp_spoofer.Router.*":       "icmp6.LANRouters",
		pktPath + "/handlers/icmp_spoofer.repeat":         "icmp6.repeat",
		pktPath + "/handlers/dhcp4_spoofer.Handler.table": "dhcp4.table", pktPath + "/handlers/dhcp4_spoofer.Handler.closed": "dhcp4.closed",
		pktPath + "/handlers/dhcp4_spoofer.Handler.mode": "dhcp4.mode", pktPath + "/handlers/dhcp4_spoofer.Lease.*": "dhcp4.table",
		pktPath + "/handlers/dns_naming.DNSHandler.DNSTable": "dns.table", pktPath + "/handlers/dns_naming.DNSHandler.mdnsCache": "dns.mdnsCache",
	} {
		fieldOf[k] = v
	}
}

func loadStatic(root string) (*staticAnalysis, error) {
	cwd, _ := os.Getwd()
	defer os.Chdir(cwd)
	if err := os.Chdir(root); err != nil { // the source importer resolves the module from the working directory
		return nil, err
	}
	sa := &staticAnalysis{fset: token.NewFileSet(), pkgs: map[string]*staticPkg{}, funcs: map[string]*funcBody{}, unrec: map[string]int{}}
	imp := importer.ForCompiler(sa.fset, "source", nil)
	for _, dir := range []string{".", "handlers/arp_spoofer", "handlers/icmp_spoofer", "handlers/dhcp4_spoofer", "handlers/dns_naming"} {
		pkgs, err := parser.ParseDir(sa.fset, filepath.Join(root, dir), func(fi os.FileInfo) bool {
			return !strings.HasSuffix(fi.Name(), "_test.go") && fi.Name() != "verif_hooks.go"
		}, 0)
		if err != nil {
			return nil, err
		}
		path := pktPath
		if dir != "." {
			path += "/" + dir
		}
		for _, p := range pkgs {
			sp := &staticPkg{path: path, info: &types.Info{Uses: map[*ast.Ident]types.Object{}, Defs: map[*ast.Ident]types.Object{},
				Selections: map[*ast.SelectorExpr]*types.Selection{}, Types: map[ast.Expr]types.TypeAndValue{}}}
			var names []string
			for n := range p.Files {
				names = append(names, n)
			}
			sort.Strings(names)
			for _, n := range names {
				sp.files = append(sp.files, p.Files[n])
			}
			conf := types.Config{Importer: imp, Error: func(e error) { sa.errors = append(sa.errors, e.Error()) }}
			conf.Check(path, sa.fset, sp.files, sp.info)
			sa.pkgs[path] = sp
			for _, f := range sp.files {
				for _, d := range f.Decls {
					fd, ok := d.(*ast.FuncDecl)
					if !ok || fd.Body == nil {
						continue
					}
					obj, _ := sp.info.Defs[fd.Name].(*types.Func)
					if obj == nil {
						continue
					}
					fb := &funcBody{name: obj.FullName(), pkg: sp, body: fd.Body}
					for _, fl := range fd.Type.Params.List {
						if len(fl.Names) == 0 {
							fb.params = append(fb.params, nil)
						}
						for _, n := range fl.Names {
							fb.params = append(fb.params, n)
						}
					}
					sa.funcs[fb.name] = fb
					sa.collectLits(fb)
				}
			}
		}
	}
	return sa, nil
}

// go-statement function literals of a function are units of their own: "<function>#k"
func (sa *staticAnalysis) collectLits(fb *funcBody) {
	k := 0
	ast.Inspect(fb.body, func(n ast.Node) bool {
		if g, ok := n.(*ast.GoStmt); ok {
			if lit, ok := g.Call.Fun.(*ast.FuncLit); ok {
				k++
				lb := &funcBody{name: fmt.Sprintf("%s#%d", fb.name, k), pkg: fb.pkg, body: lit.Body}
				sa.funcs[lb.name] = lb
				fb.lits = append(fb.lits, lit)
			}
		}
		return true
	})
}

// ---------------------------------------------------------------- walk

type heldLock struct{ class, mode string }

type walker struct {
	sa           *staticAnalysis
	locks        map[string]bool // acquire contexts, channel ops, spawns
	fields       map[string]bool
	writes       map[string]bool // every write of a tracked / watched field with its held context
	stack        []string
	alias        map[types.Object]string // local variable -> channel name it was loaded from
	lockAlias    map[types.Object]string // local variable / parameter -> lock class of the mutex it points to
	unrecognised string                  // non-empty: a Lock-like operation on a mutex the pass cannot classify
}

func heldText(h []heldLock) string {
	if len(h) == 0 {
		return "-"
	}
	var s []string
	for _, l := range h {
		s = append(s, l.class+":"+l.mode)
	}
	sort.Strings(s)
	return strings.Join(s, "+")
}

func copyHeld(h []heldLock) []heldLock { return append([]heldLock{}, h...) }

func release(h []heldLock, class string) []heldLock {
	for i := len(h) - 1; i >= 0; i-- { // most recent acquisition of the class
		if h[i].class == class {
			return append(copyHeld(h[:i]), h[i+1:]...)
		}
	}
	return h // release of a lock this path does not hold (released on an alternative branch)
}

func terminates(b *ast.BlockStmt) bool {
	if b == nil || len(b.List) == 0 {
		return false
	}
	switch s := b.List[len(b.List)-1].(type) {
	case *ast.ReturnStmt:
		return true
	case *ast.BranchStmt:
		return s.Tok == token.CONTINUE || s.Tok == token.BREAK || s.Tok == token.GOTO
	case *ast.ExprStmt:
		if c, ok := s.X.(*ast.CallExpr); ok {
			if id, ok := c.Fun.(*ast.Ident); ok && id.Name == "panic" {
				return true
			}
		}
	}
	return false
}

func ownerField(sel *types.Selection) string {
	t := sel.Recv()
	for {
		if p, ok := t.(*types.Pointer); ok {
			t = p.Elem()
			continue
		}
		break
	}
	// walk the embedding path to the struct that declares the field
	idx := sel.Index()
	for i := 0; i < len(idx)-1; i++ {
		st, ok := t.Underlying().(*types.Struct)
		if !ok {
			break
		}
		t = st.Field(idx[i]).Type()
		for {
			if p, ok := t.(*types.Pointer); ok {
				t = p.Elem()
				continue
			}
			break
		}
	}
	if n, ok := t.(*types.Named); ok && n.Obj().Pkg() != nil {
		return n.Obj().Pkg().Path() + "." + n.Obj().Name() + "." + sel.Obj().Name()
	}
	return ""
}

func typeKey(t types.Type) string {
	for {
		if p, ok := t.(*types.Pointer); ok {
			t = p.Elem()
			continue
		}
		break
	}
	if n, ok := t.(*types.Named); ok && n.Obj().Pkg() != nil {
		return n.Obj().Pkg().Path() + "." + n.Obj().Name()
	}
	return ""
}

func trackedField(key string) string {
	if f, ok := fieldOf[key]; ok {
		return f
	}
	if i := strings.LastIndex(key, "."); i > 0 {
		if f, ok := fieldOf[key[:i]+".*"]; ok {
			return f
		}
	}
	for _, t := range watchedTypes {
		if strings.HasPrefix(key, t) {
			f := strings.TrimPrefix(key, pktPath)
			f = strings.TrimPrefix(f, "/handlers/")
			return "imm:" + strings.TrimPrefix(f, ".")
		}
	}
	return ""
}

// structs whose every field is shared state: a write to a field the model does not track (it treats those as
// set at construction) is reported as "imm:<Type>.<field>"
var watchedTypes = []string{
	pktPath + ".Session.", pktPath + ".Host.", pktPath + ".MACEntry.", pktPath + ".HostTable.", pktPath + ".MACTable.",
	pktPath + "/handlers/arp_spoofer.Handler.", pktPath + "/handlers/icmp_spoofer.Handler6.",
	pktPath + "/handlers/dhcp4_spoofer.Handler.", pktPath + "/handlers/dns_naming.DNSHandler.",
}

// lockClass: the class of the mutex a Lock/RLock/Unlock/RUnlock call operates on ("" = not a tracked lock)
// isSyncLocker: t is (a pointer to) sync.Mutex or sync.RWMutex
func isSyncLocker(t types.Type) bool {
	for {
		if p, ok := t.(*types.Pointer); ok {
			t = p.Elem()
			continue
		}
		break
	}
	if n, ok := t.(*types.Named); ok && n.Obj().Pkg() != nil && n.Obj().Pkg().Path() == "sync" {
		return n.Obj().Name() == "Mutex" || n.Obj().Name() == "RWMutex"
	}
	return false
}

// lockOfExpr resolves an expression denoting a mutex (h.mutex, &host.MACEntry.Row, a local alias of one, a
// *sync.RWMutex parameter bound at an inlined call site, a struct embedding sync.Mutex) to its lock class
// through the selected FIELD (struct type + field name); "" = cannot classify.
func (w *walker) lockOfExpr(pkg *staticPkg, e ast.Expr) string {
	for {
		switch x := e.(type) {
		case *ast.ParenExpr:
			e = x.X
			continue
		case *ast.StarExpr:
			e = x.X
			continue
		case *ast.UnaryExpr:
			if x.Op == token.AND {
				e = x.X
				continue
			}
		}
		break
	}
	switch x := e.(type) {
	case *ast.SelectorExpr:
		if fs := pkg.info.Selections[x]; fs != nil && fs.Kind() == types.FieldVal {
			if c, ok := lockClassOf[ownerField(fs)]; ok {
				return c
			}
		}
	case *ast.Ident:
		if obj := pkg.info.Uses[x]; obj != nil {
			if c, ok := w.lockAlias[obj]; ok {
				return c
			}
			if v, ok := obj.(*types.Var); ok && v.Pkg() != nil && v.Parent() == v.Pkg().Scope() && v.Name() == "icmpTable" {
				return "Ping"
			}
		}
	}
	// a value whose type embeds the mutex (h.Lock() on Handler6 / dhcp4 Handler)
	if tv, ok := pkg.info.Types[e]; ok {
		if c, ok := lockClassOf[typeKey(tv.Type)+".Mutex"]; ok {
			return c
		}
	}
	return ""
}

// lockClass: the class of the mutex a Lock/RLock/Unlock/RUnlock call operates on ("" = not a lock operation,
// "?" = a lock operation on a mutex the pass cannot classify: the entry function becomes `unrecognised`)
func (w *walker) lockClass(pkg *staticPkg, call *ast.CallExpr) (class, op string) {
	se, ok := call.Fun.(*ast.SelectorExpr)
	if !ok {
		return "", ""
	}
	switch se.Sel.Name {
	case "Lock", "RLock", "Unlock", "RUnlock":
	default:
		return "", ""
	}
	sel := pkg.info.Selections[se]
	if sel == nil || sel.Obj().Pkg() == nil || sel.Obj().Pkg().Path() != "sync" {
		return "", ""
	}
	op = se.Sel.Name
	if c := w.lockOfExpr(pkg, se.X); c != "" {
		return c, op
	}
	w.sa.unrec["lock:"+exprText(se.X)]++
	if w.unrecognised == "" {
		w.unrecognised = "lock-receiver:" + exprText(se.X)
	}
	return "?", op
}

func exprText(e ast.Expr) string {
	switch x := e.(type) {
	case *ast.Ident:
		return x.Name
	case *ast.SelectorExpr:
		return exprText(x.X) + "." + x.Sel.Name
	case *ast.IndexExpr:
		return exprText(x.X) + "[]"
	case *ast.StarExpr:
		return "*" + exprText(x.X)
	case *ast.CallExpr:
		return exprText(x.Fun) + "()"
	}
	return "?"
}

func (w *walker) chanName(pkg *staticPkg, e ast.Expr) string {
	switch x := e.(type) {
	case *ast.SelectorExpr:
		if fs := pkg.info.Selections[x]; fs != nil && fs.Kind() == types.FieldVal {
			return chanOf[ownerField(fs)]
		}
	case *ast.Ident:
		if obj := pkg.info.Uses[x]; obj != nil {
			return w.alias[obj]
		}
	case *ast.ParenExpr:
		return w.chanName(pkg, x.X)
	}
	return ""
}

func (w *walker) access(field string, write bool, held []heldLock) {
	if field == "" {
		return
	}
	if write {
		w.writes[field+":w@"+heldText(held)] = true
	}
	if strings.HasPrefix(field, "imm:") {
		return
	}
	hasW := false
	for _, l := range held {
		if l.mode == "W" {
			hasW = true
		}
	}
	if len(held) == 0 {
		if write {
			w.fields[field+":w"] = true
		} else {
			w.fields[field+":r"] = true
		}
	} else if write && !hasW {
		w.fields[field+":w@"+heldText(held)] = true
	}
}

// base of an assignable expression: strips index, slice, star and parentheses
func baseExpr(e ast.Expr) ast.Expr {
	for {
		switch x := e.(type) {
		case *ast.IndexExpr:
			e = x.X
		case *ast.SliceExpr:
			e = x.X
		case *ast.StarExpr:
			e = x.X
		case *ast.ParenExpr:
			e = x.X
		default:
			return e
		}
	}
}

func (w *walker) fieldOfExpr(pkg *staticPkg, e ast.Expr) string {
	switch x := e.(type) {
	case *ast.SelectorExpr:
		if fs := pkg.info.Selections[x]; fs != nil && fs.Kind() == types.FieldVal {
			return trackedField(ownerField(fs))
		}
	case *ast.Ident:
		if v, ok := pkg.info.Uses[x].(*types.Var); ok && v.Pkg() != nil && v.Parent() == v.Pkg().Scope() {
			return trackedField(v.Pkg().Path() + "." + v.Name())
		}
	}
	return ""
}

// expr walks an expression: reads of tracked fields, lock calls, calls into the five packages
func (w *walker) expr(fb *funcBody, e ast.Node, held []heldLock, depth int, writes map[ast.Expr]bool) []heldLock {
	if e == nil {
		return held
	}
	ast.Inspect(e, func(n ast.Node) bool {
		switch x := n.(type) {
		case *ast.FuncLit:
			return false // runs elsewhere (goroutine bodies are units of their own; deferred literals are walked by the caller)
		case *ast.CompositeLit:
			// a fresh record: its field keys are not accesses; the values are walked.  A new Host is the one record
			// the model initialises explicitly (it is published through HostTable/HostList): all its tracked fields
			if tv, ok := fb.pkg.info.Types[x]; ok && typeKey(tv.Type) == pktPath+".Host" {
				for _, f := range []string{"Host.LastSeen", "Host.Online", "Host.dirty", "Host.HuntStage", "Host.Manufacturer", "Host.Names"} {
					w.access(f, true, held)
				}
			}
			for _, el := range x.Elts {
				if kv, ok := el.(*ast.KeyValueExpr); ok {
					held = w.expr(fb, kv.Value, held, depth, writes)
				} else {
					held = w.expr(fb, el, held, depth, writes)
				}
			}
			return false
		case *ast.SelectorExpr:
			if sel := fb.pkg.info.Selections[x]; sel != nil && sel.Kind() == types.MethodVal && sel.Obj().Pkg() != nil &&
				sel.Obj().Pkg().Path() == "sync" {
				switch x.Sel.Name {
				case "Lock", "RLock", "Unlock", "RUnlock": // unlock := h.mutex.Unlock ; defer unlock()
					if w.unrecognised == "" {
						w.unrecognised = "lock-method-value:" + exprText(x)
					}
				}
			}
			if !writes[x] {
				if f := w.fieldOfExpr(fb.pkg, x); !strings.HasPrefix(f, "imm:") {
					w.access(f, false, held)
				}
			}
		case *ast.Ident:
			if !writes[x] {
				w.access(w.fieldOfExpr(fb.pkg, x), false, held)
			}
		case *ast.UnaryExpr:
			if x.Op == token.ARROW { // <-ch outside a select: a blocking receive
				w.chanOp(fb.pkg, "recv", x.X, held)
			}
			if x.Op == token.AND { // &h.ipHeartBeat etc.: address taken for an atomic operation
				if _, ok := x.X.(*ast.SelectorExpr); ok {
					if w.fieldOfExpr(fb.pkg, x.X) == "" {
						return false
					}
				}
			}
		case *ast.CallExpr:
			held = w.call(fb, x, held, depth)
			return false
		}
		return true
	})
	return held
}

func (w *walker) call(fb *funcBody, c *ast.CallExpr, held []heldLock, depth int) []heldLock {
	pkg := fb.pkg
	// receiver / function expression and arguments are evaluated first
	if se, ok := c.Fun.(*ast.SelectorExpr); ok {
		held = w.expr(fb, se.X, held, depth, nil)
	}
	// builtins that write their first argument
	if id, ok := c.Fun.(*ast.Ident); ok {
		if _, isBuiltin := pkg.info.Uses[id].(*types.Builtin); isBuiltin {
			switch id.Name {
			case "delete", "copy":
				if len(c.Args) > 0 {
					b := baseExpr(c.Args[0])
					w.access(w.fieldOfExpr(pkg, b), true, held)
					wr := map[ast.Expr]bool{b: true}
					held = w.expr(fb, c.Args[0], held, depth, wr)
					for _, a := range c.Args[1:] {
						held = w.expr(fb, a, held, depth, nil)
					}
					return held
				}
			case "close":
				if len(c.Args) == 1 {
					if ch := w.chanName(pkg, c.Args[0]); ch != "" {
						w.locks[heldText(held)+">close:"+ch] = true
					} else {
						w.sa.unrec["close:"+exprText(c.Args[0])]++
					}
				}
			}
		}
	}
	for _, a := range c.Args {
		held = w.expr(fb, a, held, depth, nil)
	}
	if class, op := w.lockClass(pkg, c); class != "" {
		if class == "Ping" || class == "?" {
			return held
		}
		switch op {
		case "Lock", "RLock":
			mode := "W"
			if op == "RLock" {
				mode = "R"
			}
			w.locks[heldText(held)+">"+class+":"+mode] = true
			return append(copyHeld(held), heldLock{class, mode})
		default:
			return release(held, class)
		}
	}
	// static callee inside the five packages
	var fn *types.Func
	switch f := c.Fun.(type) {
	case *ast.Ident:
		fn, _ = pkg.info.Uses[f].(*types.Func)
	case *ast.SelectorExpr:
		if sel := pkg.info.Selections[f]; sel != nil {
			fn, _ = sel.Obj().(*types.Func)
		} else {
			fn, _ = pkg.info.Uses[f.Sel].(*types.Func)
		}
	}
	if fn == nil || fn.Pkg() == nil || !strings.HasPrefix(fn.Pkg().Path(), pktPath) || strings.Contains(fn.Pkg().Path(), "/fastlog") {
		return held
	}
	callee := w.sa.funcs[fn.FullName()]
	if callee == nil {
		return held // interface method or body-less
	}
	for _, s := range w.stack {
		if s == callee.name {
			w.sa.unrec["recursion:"+callee.name]++
			return held
		}
	}
	if depth > 10 {
		w.sa.unrec["depth:"+callee.name]++
		return held
	}
	// a *sync.RWMutex / channel passed as an argument stands for the caller's lock / channel inside the callee
	for i, a := range c.Args {
		if i >= len(callee.params) || callee.params[i] == nil {
			continue
		}
		pobj := callee.pkg.info.Defs[callee.params[i]]
		if pobj == nil {
			continue
		}
		if tv, ok := pkg.info.Types[a]; ok && isSyncLocker(tv.Type) {
			if cl := w.lockOfExpr(pkg, a); cl != "" {
				w.lockAlias[pobj] = cl
			} else if w.unrecognised == "" {
				w.unrecognised = "lock-argument:" + exprText(a)
			}
		}
		if ch := w.chanName(pkg, a); ch != "" {
			w.alias[pobj] = ch
		}
	}
	return w.function(callee, held, depth+1)
}

func (w *walker) function(fb *funcBody, held []heldLock, depth int) []heldLock {
	w.stack = append(w.stack, fb.name)
	var defers []*ast.CallExpr
	held = w.block(fb, fb.body, held, depth, &defers)
	for i := len(defers) - 1; i >= 0; i-- {
		d := defers[i]
		if lit, ok := d.Fun.(*ast.FuncLit); ok {
			var inner []*ast.CallExpr
			held = w.block(fb, lit.Body, held, depth, &inner)
			continue
		}
		held = w.call(fb, d, held, depth)
	}
	w.stack = w.stack[:len(w.stack)-1]
	return held
}

func (w *walker) block(fb *funcBody, b *ast.BlockStmt, held []heldLock, depth int, defers *[]*ast.CallExpr) []heldLock {
	if b == nil {
		return held
	}
	for _, s := range b.List {
		held = w.stmt(fb, s, held, depth, defers)
	}
	return held
}

func (w *walker) stmt(fb *funcBody, s ast.Stmt, held []heldLock, depth int, defers *[]*ast.CallExpr) []heldLock {
	pkg := fb.pkg
	switch x := s.(type) {
	case nil:
		return held
	case *ast.BlockStmt:
		return w.block(fb, x, held, depth, defers)
	case *ast.ExprStmt:
		return w.expr(fb, x.X, held, depth, nil)
	case *ast.DeclStmt:
		// var row *sync.RWMutex = &host.MACEntry.Row
		if gd, ok := x.Decl.(*ast.GenDecl); ok {
			for _, sp := range gd.Specs {
				vs, ok := sp.(*ast.ValueSpec)
				if !ok || len(vs.Names) != len(vs.Values) {
					continue
				}
				for i, id := range vs.Names {
					if tv, ok := pkg.info.Types[vs.Values[i]]; ok && isSyncLocker(tv.Type) {
						if c := w.lockOfExpr(pkg, vs.Values[i]); c != "" && pkg.info.Defs[id] != nil {
							w.lockAlias[pkg.info.Defs[id]] = c
						} else if w.unrecognised == "" {
							w.unrecognised = "lock-alias:" + exprText(vs.Values[i])
						}
					}
					if ch := w.chanName(pkg, vs.Values[i]); ch != "" && pkg.info.Defs[id] != nil {
						w.alias[pkg.info.Defs[id]] = ch
					}
				}
			}
		}
		return w.expr(fb, x.Decl, held, depth, nil)
	case *ast.AssignStmt:
		for _, r := range x.Rhs {
			held = w.expr(fb, r, held, depth, nil)
		}
		wr := map[ast.Expr]bool{}
		for i, l := range x.Lhs {
			b := baseExpr(l)
			if x.Tok != token.DEFINE {
				w.access(w.fieldOfExpr(pkg, b), true, held)
				if x.Tok != token.ASSIGN { // += etc. also read
					w.access(w.fieldOfExpr(pkg, b), false, held)
				}
			}
			wr[b] = true
			// row := &host.MACEntry.Row : remember which mutex the local stands for
			if id, ok := l.(*ast.Ident); ok && i < len(x.Rhs) && len(x.Lhs) == len(x.Rhs) {
				if tv, ok := pkg.info.Types[x.Rhs[i]]; ok && isSyncLocker(tv.Type) {
					obj := pkg.info.Defs[id]
					if obj == nil {
						obj = pkg.info.Uses[id]
					}
					if c := w.lockOfExpr(pkg, x.Rhs[i]); c != "" && obj != nil {
						w.lockAlias[obj] = c
					} else if w.unrecognised == "" {
						w.unrecognised = "lock-alias:" + exprText(x.Rhs[i])
					}
				}
			}
			// ch := h.closeChan : remember which channel the local stands for
			if id, ok := l.(*ast.Ident); ok && i < len(x.Rhs) && len(x.Lhs) == len(x.Rhs) {
				if ch := w.chanName(pkg, x.Rhs[i]); ch != "" {
					if obj := pkg.info.Defs[id]; obj != nil {
						w.alias[obj] = ch
					} else if obj := pkg.info.Uses[id]; obj != nil {
						w.alias[obj] = ch
					}
				}
			}
		}
		for _, l := range x.Lhs {
			held = w.expr(fb, l, held, depth, wr)
		}
		return held
	case *ast.IncDecStmt:
		b := baseExpr(x.X)
		w.access(w.fieldOfExpr(pkg, b), true, held)
		w.access(w.fieldOfExpr(pkg, b), false, held)
		return w.expr(fb, x.X, held, depth, map[ast.Expr]bool{b: true})
	case *ast.SendStmt: // outside a select: a BLOCKING send
		held = w.expr(fb, x.Value, held, depth, nil)
		w.chanOp(pkg, "send", x.Chan, held)
		return held
	case *ast.GoStmt:
		for _, a := range x.Call.Args {
			held = w.expr(fb, a, held, depth, nil)
		}
		name := ""
		if lit, ok := x.Call.Fun.(*ast.FuncLit); ok {
			for i, l := range w.sa.funcs[w.stack[len(w.stack)-1]].lits {
				if l == lit {
					name = fmt.Sprintf("%s#%d", w.stack[len(w.stack)-1], i+1)
				}
			}
		} else {
			var fn *types.Func
			switch f := x.Call.Fun.(type) {
			case *ast.Ident:
				fn, _ = pkg.info.Uses[f].(*types.Func)
			case *ast.SelectorExpr:
				if sel := pkg.info.Selections[f]; sel != nil {
					fn, _ = sel.Obj().(*types.Func)
				}
			}
			if fn != nil {
				name = fn.FullName()
			}
		}
		if op := w.sa.classifyGo(name); op != "" && !strings.HasPrefix(op, "?") {
			if op != "icmp6.radvs" {
				w.locks["go:"+op] = true
			}
		} else {
			w.sa.unrec["go:"+name]++
		}
		return held
	case *ast.DeferStmt:
		*defers = append(*defers, x.Call)
		return held
	case *ast.ReturnStmt:
		for _, r := range x.Results {
			held = w.expr(fb, r, held, depth, nil)
		}
		return held
	case *ast.LabeledStmt:
		return w.stmt(fb, x.Stmt, held, depth, defers)
	case *ast.IfStmt:
		held = w.stmt(fb, x.Init, held, depth, defers)
		held = w.expr(fb, x.Cond, held, depth, nil)
		hb := w.block(fb, x.Body, copyHeld(held), depth, defers)
		he := held
		elseTerm := false
		switch e := x.Else.(type) {
		case *ast.BlockStmt:
			he = w.block(fb, e, copyHeld(held), depth, defers)
			elseTerm = terminates(e)
		case *ast.IfStmt:
			he = w.stmt(fb, e, copyHeld(held), depth, defers)
		}
		if terminates(x.Body) {
			return he
		}
		if elseTerm {
			return hb
		}
		if heldText(hb) != heldText(he) {
			// the branches leave different locks held: keep what both hold
			w.sa.unrec["unbalanced-if:"+fb.name]++
			var common []heldLock
			rest := copyHeld(he)
			for _, l := range hb {
				for i, r := range rest {
					if r == l {
						common = append(common, l)
						rest = append(rest[:i], rest[i+1:]...)
						break
					}
				}
			}
			return common
		}
		return hb
	case *ast.ForStmt:
		held = w.stmt(fb, x.Init, held, depth, defers)
		held = w.expr(fb, x.Cond, held, depth, nil)
		w.block(fb, x.Body, copyHeld(held), depth, defers)
		w.stmt(fb, x.Post, copyHeld(held), depth, defers)
		return held
	case *ast.RangeStmt:
		held = w.expr(fb, x.X, held, depth, nil)
		w.block(fb, x.Body, copyHeld(held), depth, defers)
		return held
	case *ast.SwitchStmt:
		held = w.stmt(fb, x.Init, held, depth, defers)
		held = w.expr(fb, x.Tag, held, depth, nil)
		return w.clauses(fb, x.Body, held, depth, defers)
	case *ast.TypeSwitchStmt:
		held = w.stmt(fb, x.Init, held, depth, defers)
		held = w.stmt(fb, x.Assign, held, depth, defers)
		return w.clauses(fb, x.Body, held, depth, defers)
	case *ast.SelectStmt:
		// a select with a default clause never blocks: its sends are "trysend", its receives are not recorded;
		// without default the select blocks on its communications
		hasDefault := false
		for _, c := range x.Body.List {
			if cc, ok := c.(*ast.CommClause); ok && cc.Comm == nil {
				hasDefault = true
			}
		}
		for _, c := range x.Body.List {
			cc, ok := c.(*ast.CommClause)
			if !ok || cc.Comm == nil {
				continue
			}
			switch cm := cc.Comm.(type) {
			case *ast.SendStmt:
				held = w.expr(fb, cm.Value, held, depth, nil)
				if hasDefault {
					w.chanOp(pkg, "trysend", cm.Chan, held)
				} else {
					w.chanOp(pkg, "send", cm.Chan, held)
				}
			case *ast.ExprStmt:
				if u, ok := cm.X.(*ast.UnaryExpr); ok && u.Op == token.ARROW && !hasDefault {
					w.chanOp(pkg, "recv", u.X, held)
				}
			case *ast.AssignStmt:
				if len(cm.Rhs) == 1 {
					if u, ok := cm.Rhs[0].(*ast.UnaryExpr); ok && u.Op == token.ARROW && !hasDefault {
						w.chanOp(pkg, "recv", u.X, held)
					}
				}
			}
		}
		return w.clauses(fb, x.Body, held, depth, defers)
	}
	return held
}

// chanOp records a channel operation with its held-lock context.  A channel the model does not know is
// ignored when no lock is held, and recorded as "?" (which no template has) when a lock is held.
func (w *walker) chanOp(pkg *staticPkg, kind string, ch ast.Expr, held []heldLock) {
	name := w.chanName(pkg, ch)
	if name == "" {
		if len(held) == 0 {
			w.sa.unrec[kind+":"+exprText(ch)]++
			return
		}
		name = "?" + exprText(ch)
	}
	w.locks[heldText(held)+">"+kind+":"+name] = true
}

func (w *walker) clauses(fb *funcBody, body *ast.BlockStmt, held []heldLock, depth int, defers *[]*ast.CallExpr) []heldLock {
	result := held
	first := true
	for _, c := range body.List {
		var list []ast.Stmt
		h := copyHeld(held)
		switch cc := c.(type) {
		case *ast.CaseClause:
			for _, e := range cc.List {
				h = w.expr(fb, e, h, depth, nil)
			}
			list = cc.Body
		case *ast.CommClause:
			list = cc.Body // the communication itself was recorded by the select case above
		}
		blk := &ast.BlockStmt{List: list}
		h = w.block(fb, blk, h, depth, defers)
		if !terminates(blk) && first {
			result, first = h, false
		}
	}
	return result
}

// analyse one entry function: canonical texts of the two compared observables
// goCensus: the goroutines started by every `go` statement of the five packages (set of model operation names)
func (sa *staticAnalysis) goCensus() string {
	set := map[string]bool{}
	for _, fb := range sa.funcs {
		if strings.Contains(fb.name, "#") {
			continue // literals are visited through their enclosing function
		}
		k := 0
		ast.Inspect(fb.body, func(n ast.Node) bool {
			g, ok := n.(*ast.GoStmt)
			if !ok {
				return true
			}
			name := ""
			if _, ok := g.Call.Fun.(*ast.FuncLit); ok {
				k++
				name = fmt.Sprintf("%s#%d", fb.name, k)
			} else {
				var fn *types.Func
				switch f := g.Call.Fun.(type) {
				case *ast.Ident:
					fn, _ = fb.pkg.info.Uses[f].(*types.Func)
				case *ast.SelectorExpr:
					if sel := fb.pkg.info.Selections[f]; sel != nil {
						fn, _ = sel.Obj().(*types.Func)
					}
				}
				if fn != nil {
					name = fn.FullName()
				}
			}
			set[sa.classifyGo(name)] = true
			return true
		})
	}
	return setText(set)
}

var censusOp = map[string]string{
	"(" + pktPath + ".Config).NewSession#1":                                 "nicMonitor",
	"(" + pktPath + ".Config).NewSession#2":                                 "minuteLoop",
	"(*" + pktPath + "/handlers/icmp_spoofer.RADVS).sendAdvertistementLoop": "icmp6.radvs",
}

func init() {
	for k, v := range spawnOp {
		if v != "" {
			censusOp[k] = v
		}
	}
}

func (sa *staticAnalysis) analyse(fn string) (locks, unlocked string, ok bool) {
	l, u, _, k := sa.analyse3(fn)
	return l, u, k
}

func (sa *staticAnalysis) analyse3(fn string) (locks, unlocked, writes string, ok bool) {
	fb := sa.funcs[fn]
	if fb == nil {
		return "", "", "", false
	}
	return sa.analyseBody(fb)
}

// goroutine bodies are found by what they do, not by their name: "<parent>#k" literal or a named method
func (sa *staticAnalysis) goTargetOf(op string) *funcBody {
	var names []string
	for n := range sa.goTargets() {
		names = append(names, n)
	}
	sort.Strings(names)
	for _, n := range names {
		if sa.classifyGo(n) == op && sa.funcs[n] != nil {
			return sa.funcs[n]
		}
	}
	return nil
}

func (sa *staticAnalysis) analyseBody(fb *funcBody) (locks, unlocked, writes string, ok bool) {
	fn := fb.name
	w := &walker{sa: sa, locks: map[string]bool{}, fields: map[string]bool{}, writes: map[string]bool{}, alias: map[types.Object]string{},
		lockAlias: map[types.Object]string{}}
	// a literal's enclosing function supplies the lits table used to name nested go statements
	left := w.function(fb, nil, 0)
	if len(left) != 0 {
		sa.unrec["held-at-exit:"+fn]++
	}
	if w.unrecognised != "" { // never a silent drop: no case is emitted for this entry function
		return "unrecognised:" + w.unrecognised, "unrecognised:" + w.unrecognised, "unrecognised:" + w.unrecognised, true
	}
	return setText(w.locks), setText(w.fields), setText(w.writes), true
}

func setText(m map[string]bool) string {
	if len(m) == 0 {
		return "none"
	}
	var s []string
	for k := range m {
		s = append(s, k)
	}
	sort.Strings(s)
	return strings.Join(s, ",")
}

// goTargets: the function (literal "<parent>#k" or named) started by every `go` statement of the five packages
func (sa *staticAnalysis) goTargets() map[string]bool {
	if sa.targets != nil {
		return sa.targets
	}
	sa.targets = map[string]bool{}
	for _, fb := range sa.funcs {
		if strings.Contains(fb.name, "#") {
			continue
		}
		k := 0
		ast.Inspect(fb.body, func(n ast.Node) bool {
			g, ok := n.(*ast.GoStmt)
			if !ok {
				return true
			}
			if _, ok := g.Call.Fun.(*ast.FuncLit); ok {
				k++
				sa.targets[fmt.Sprintf("%s#%d", fb.name, k)] = true
				return true
			}
			var fn *types.Func
			switch f := g.Call.Fun.(type) {
			case *ast.Ident:
				fn, _ = fb.pkg.info.Uses[f].(*types.Func)
			case *ast.SelectorExpr:
				if sel := fb.pkg.info.Selections[f]; sel != nil {
					fn, _ = sel.Obj().(*types.Func)
				}
			}
			if fn != nil {
				sa.targets[fn.FullName()] = true
			}
			return true
		})
	}
	return sa.targets
}

// classifyGo names the goroutine a `go` statement starts by WHAT ITS BODY DOES (package, locks it takes, whether it
// starts goroutines itself, the heartbeat field), so that turning a literal into a named method, or renaming
// one, does not change the census.
func (sa *staticAnalysis) classifyGo(name string) string {
	if op, ok := sa.classified[name]; ok {
		return op
	}
	if sa.classified == nil {
		sa.classified = map[string]string{}
	}
	sa.classified[name] = "?" + name // recursion guard
	fb := sa.funcs[name]
	if fb == nil {
		return "?" + name
	}
	w := &walker{sa: sa, locks: map[string]bool{}, fields: map[string]bool{}, writes: map[string]bool{}, alias: map[types.Object]string{},
		lockAlias: map[types.Object]string{}}
	w.function(fb, nil, 0)
	acq := func(class string) bool {
		for k := range w.locks {
			if strings.Contains(k, ">"+class+":") {
				return true
			}
		}
		return false
	}
	spawns := false
	for k := range w.locks {
		if strings.HasPrefix(k, "go:") {
			spawns = true
		}
	}
	heartbeat := false
	ast.Inspect(fb.body, func(n ast.Node) bool {
		if se, ok := n.(*ast.SelectorExpr); ok && se.Sel.Name == "ipHeartBeat" {
			heartbeat = true
		}
		return true
	})
	op := "?" + name
	switch fb.pkg.path {
	case pktPath:
		switch {
		case acq("Row") || acq("Sess"):
			op = "purge"
		case heartbeat:
			op = "nicMonitor"
		case spawns:
			op = "minuteLoop"
		default:
			op = "purge.probe"
		}
	case pktPath + "/handlers/arp_spoofer":
		if acq("Arp") {
			op = "arp.spoofLoop"
		}
	case pktPath + "/handlers/icmp_spoofer":
		if acq("Icmp6") {
			op = "icmp6.spoofLoop"
		} else {
			op = "icmp6.radvs"
		}
	case pktPath + "/handlers/dhcp4_spoofer":
		if !acq("Dhcp") {
			op = "dhcp4.sendDeclineRelease"
		}
	}
	sa.classified[name] = op
	return op
}
