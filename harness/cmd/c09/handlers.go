package main

import (
	"encoding/binary"
	"net"
	"net/netip"
	"os"
	"path/filepath"
	"sync/atomic"
	"time"

	"github.com/irai/packet"
	"github.com/irai/packet/handlers/arp_spoofer"
	"github.com/irai/packet/handlers/dhcp4_spoofer"
	"github.com/irai/packet/handlers/dns_naming"
	"github.com/irai/packet/handlers/icmp_spoofer"

	"pvharness/lib"
)

type handlers struct {
	arp      *arp_spoofer.Handler
	arpFrm   []packet.Frame
	i6       *icmp_spoofer.Handler6
	raFrm    packet.Frame
	dhcp     *dhcp4_spoofer.Handler
	dhcpFrm  []packet.Frame
	dns      *dns_naming.DNSHandler
	dnsFrm   packet.Frame
	mdnsFrm  packet.Frame
	arpDone  int32
	i6Done   int32
	dhcpDone int32
	dnsDone  int32
}

var hs handlers

func lla(i int) netip.Addr {
	return netip.AddrFrom16([16]byte{0xfe, 0x80, 0, 0, 0, 0, 0, 0, 0, 0, 0, 0, 0, 0, 1, byte(i)})
}

// pristine copies of the frame bytes: handlers may write into the packet buffer (aliasing is C10's subject);
// every call gets the original bytes back
var pristine = map[*byte][]byte{}

func mustParse(c *ctx, b []byte) packet.Frame {
	f, err := c.s.Parse(b)
	if err != nil {
		panic(err)
	}
	pristine[&b[0]] = append([]byte{}, b...)
	return f
}

func restore(f packet.Frame) packet.Frame {
	e := f.Ether()
	if p, ok := pristine[&e[0]]; ok {
		copy(e, p)
	}
	return f
}

func dhcpPayload(mtype byte, xid uint32, ci netip.Addr, ch net.HardwareAddr, req netip.Addr) []byte {
	b := make([]byte, 240)
	b[0], b[1], b[2] = 1, 1, 6
	binary.BigEndian.PutUint32(b[4:8], xid)
	if ci.Is4() {
		a := ci.As4()
		copy(b[12:16], a[:])
	}
	copy(b[28:34], ch)
	copy(b[236:240], []byte{99, 130, 83, 99})
	b = append(b, 53, 1, mtype)
	b = append(b, 61, 7, 1)
	b = append(b, ch...)
	if req.Is4() {
		a := req.As4()
		b = append(b, 50, 4)
		b = append(b, a[:]...)
	}
	b = append(b, 12, 4, 'h', 'o', 's', 't')
	b = append(b, 55, 3, 1, 3, 6, 255)
	for len(b) < 300 {
		b = append(b, 0)
	}
	return b
}

func init() {
	setupHandler = func(c *ctx, which string) {
		switch which {
		case "arp":
			if hs.arp != nil {
				return
			}
			h, err := arp_spoofer.New(c.s)
			if err != nil {
				panic(err)
			}
			hs.arp = h
			// a request for the router from each fast host, an ACD probe, an announcement
			for i := 1; i <= 4; i++ {
				hs.arpFrm = append(hs.arpFrm, mustParse(c, lib.MkEther(net.HardwareAddr{0xff, 0xff, 0xff, 0xff, 0xff, 0xff}, mac(i), 0x0806,
					lib.MkARP(1, mac(i), ip4(130+i), net.HardwareAddr{0, 0, 0, 0, 0, 0}, lib.RouterIP4))))
			}
			hs.arpFrm = append(hs.arpFrm, mustParse(c, lib.MkEther(net.HardwareAddr{0xff, 0xff, 0xff, 0xff, 0xff, 0xff}, mac(2), 0x0806,
				lib.MkARP(1, mac(2), netip.IPv4Unspecified(), net.HardwareAddr{0, 0, 0, 0, 0, 0}, ip4(150)))))
		case "icmp6":
			if hs.i6 != nil {
				return
			}
			h, err := icmp_spoofer.New6(c.s)
			if err != nil {
				panic(err)
			}
			hs.i6 = h
			// router advertisement from the router's LLA with a source link-layer address option
			body := []byte{64, 0, 0x07, 0x08, 0, 0, 0, 0, 0, 0, 0, 0}
			body = append(body, 1, 1)
			body = append(body, lib.RouterMAC...)
			all := netip.MustParseAddr("ff02::1")
			msg := lib.MkICMP6(lib.RouterLLA, all, 134, 0, body)
			hs.raFrm = mustParse(c, lib.MkEther(net.HardwareAddr{0x33, 0x33, 0, 0, 0, 1}, lib.RouterMAC, 0x86dd, lib.MkIP6(lib.RouterLLA, all, 58, 255, msg)))
			// one hunted host so that the RA wake-up path is live
			h.StartHunt(packet.Addr{MAC: mac(1), IP: lla(1)})
		case "dhcp4":
			if hs.dhcp != nil {
				return
			}
			dir, _ := os.Getwd()
			h, err := dhcp4_spoofer.Config{Mode: dhcp4_spoofer.ModeSecondaryServerNice,
				NetfilterIP:   netip.MustParsePrefix("192.168.0.225/27"),
				DNSServer:     lib.RouterIP4,
				LeaseFilename: filepath.Join(dir, "leases.yaml")}.New(c.s)
			if err != nil {
				panic(err)
			}
			hs.dhcp = h
			bc := net.HardwareAddr{0xff, 0xff, 0xff, 0xff, 0xff, 0xff}
			mk := func(m net.HardwareAddr, src netip.Addr, pl []byte) packet.Frame {
				return mustParse(c, lib.MkEther(bc, m, 0x0800, lib.MkIP4(src, netip.MustParseAddr("255.255.255.255"), 17, 64, lib.MkUDP(68, 67, pl))))
			}
			for i := 1; i <= 3; i++ {
				hs.dhcpFrm = append(hs.dhcpFrm,
					mk(mac(i), netip.IPv4Unspecified(), dhcpPayload(1, uint32(100+i), netip.Addr{}, mac(i), netip.Addr{})), // DISCOVER
					mk(mac(i), netip.IPv4Unspecified(), dhcpPayload(3, uint32(100+i), netip.Addr{}, mac(i), ip4(130+i))),   // REQUEST (selecting/rebooting)
					mk(mac(i), ip4(130+i), dhcpPayload(3, uint32(200+i), ip4(130+i), mac(i), netip.Addr{})),                // REQUEST (renewing)
					mk(mac(i), ip4(130+i), dhcpPayload(7, uint32(300+i), ip4(130+i), mac(i), netip.Addr{})))                // RELEASE
			}
		case "dns":
			if hs.dns != nil {
				return
			}
			hs.dns = dns_naming.VerifNew(c.s)
			// DNS response: example.com A 1.2.3.4
			q := []byte{7, 'e', 'x', 'a', 'm', 'p', 'l', 'e', 3, 'c', 'o', 'm', 0, 0, 1, 0, 1}
			msg := append([]byte{0x12, 0x34, 0x81, 0x80, 0, 1, 0, 1, 0, 0, 0, 0}, q...)
			msg = append(msg, 0xc0, 12, 0, 1, 0, 1, 0, 0, 0, 60, 0, 4, 1, 2, 3, 4)
			hs.dnsFrm = mustParse(c, lib.MkEther(mac(1), lib.RouterMAC, 0x0800, lib.MkIP4(netip.MustParseAddr("8.8.8.8"), ip4(131), 17, 64, lib.MkUDP(53, 40000, msg))))
			// mDNS response: host1.local A 192.168.0.131
			mq := []byte{5, 'h', 'o', 's', 't', '1', 5, 'l', 'o', 'c', 'a', 'l', 0}
			mm := append([]byte{0, 0, 0x84, 0, 0, 0, 0, 1, 0, 0, 0, 0}, mq...)
			mm = append(mm, 0, 1, 0x80, 1, 0, 0, 0, 120, 0, 4, 192, 168, 0, 131)
			hs.mdnsFrm = mustParse(c, lib.MkEther(net.HardwareAddr{0x01, 0, 0x5e, 0, 0, 0xfb}, mac(1), 0x0800,
				lib.MkIP4(ip4(131), netip.MustParseAddr("224.0.0.251"), 17, 255, lib.MkUDP(5353, 5353, mm))))
		}
	}
	closeHandlers = func(c *ctx) {
		g := &gctx{rng: lib.NewRand(1)}
		if hs.arp != nil {
			lib.Catch(func() { op_ArpClose(c, g) })
		}
		if hs.i6 != nil {
			lib.Catch(func() { op_I6Close(c, g) })
		}
		if hs.dhcp != nil {
			lib.Catch(func() { op_DhcpClose(c, g) })
		}
		if hs.dns != nil && atomic.LoadInt32(&hs.dnsDone) == 0 {
			lib.Catch(func() { op_DnsClose(c, g) })
		}
	}

	reg(opDef{name: "arp.ProcessPacket", wrapper: "ArpProcess", pkt: true, needs: "arp", run: op_ArpProcess})
	reg(opDef{name: "arp.StartHunt", wrapper: "ArpStartHunt", needs: "arp", run: op_ArpStartHunt})
	reg(opDef{name: "arp.StopHunt", wrapper: "ArpStopHunt", needs: "arp", run: op_ArpStopHunt})
	reg(opDef{name: "arp.IsHunting", wrapper: "ArpIsHunting", needs: "arp", run: op_ArpIsHunting})
	reg(opDef{name: "arp.PrintTable", wrapper: "ArpPrintTable", needs: "arp", run: op_ArpPrintTable})
	reg(opDef{name: "arp.Close", wrapper: "ArpClose", once: true, needs: "arp", run: op_ArpClose})
	reg(opDef{name: "icmp6.ProcessPacket.RA", wrapper: "I6ProcessRA", pkt: true, needs: "icmp6", run: op_I6ProcessRA})
	reg(opDef{name: "icmp6.StartHunt", wrapper: "I6StartHunt", needs: "icmp6", run: op_I6StartHunt})
	reg(opDef{name: "icmp6.StopHunt", wrapper: "I6StopHunt", needs: "icmp6", run: op_I6StopHunt})
	reg(opDef{name: "icmp6.PrintTable", wrapper: "I6PrintTable", needs: "icmp6", run: op_I6PrintTable})
	reg(opDef{name: "icmp6.Close", wrapper: "I6Close", once: true, needs: "icmp6", run: op_I6Close})
	reg(opDef{name: "dhcp4.ProcessPacket", wrapper: "DhcpProcess", pkt: true, needs: "dhcp4", run: op_DhcpProcess})
	reg(opDef{name: "dhcp4.MinuteTicker", wrapper: "DhcpMinuteTicker", needs: "dhcp4", run: op_DhcpMinuteTicker})
	reg(opDef{name: "dhcp4.StartHunt", wrapper: "DhcpStartHunt", needs: "dhcp4", run: op_DhcpStartHunt})
	reg(opDef{name: "dhcp4.PrintTable", wrapper: "DhcpPrintTable", needs: "dhcp4", run: op_DhcpPrintTable})
	reg(opDef{name: "dhcp4.Close", wrapper: "DhcpClose", once: true, needs: "dhcp4", run: op_DhcpClose})
	reg(opDef{name: "dns.ProcessDNS", wrapper: "DnsProcessDNS", pkt: true, needs: "dns", run: op_DnsProcessDNS})
	reg(opDef{name: "dns.ProcessMDNS", wrapper: "DnsProcessMDNS", pkt: true, needs: "dns", run: op_DnsProcessMDNS})
	reg(opDef{name: "dns.DNSFind", wrapper: "DnsFind", needs: "dns", run: op_DnsFind})
	reg(opDef{name: "dns.Close", wrapper: "DnsClose", once: true, needs: "dns", run: op_DnsClose})

	rootFuncs = append(rootFuncs,
		struct{ suffix, op string }{"arp_spoofer.(*Handler).spoofLoop", "arp.spoofLoop"},
		struct{ suffix, op string }{"icmp_spoofer.(*Handler6).spoofLoop", "icmp6.spoofLoop"},
		struct{ suffix, op string }{"dhcp4_spoofer.(*Handler).forceDecline.func1", "dhcp4.sendDeclineRelease"},
		struct{ suffix, op string }{"dhcp4_spoofer.(*Handler).forceRelease.func1", "dhcp4.sendDeclineRelease"},
	)

	handlerRules["arp_spoofer"] = rules(`\bh\.closed\b`, "arp.closed", `huntList`, "arp.huntList", `closeChan`, "arp.closeChan")
	handlerRules["icmp_spoofer"] = rules(`\bh\.closed\b`, "icmp6.closed", `huntList`, "icmp6.huntList", `closeChan`, "icmp6.closeChan",
		`LANRouters`, "icmp6.LANRouters", `h\.Router\b`, "icmp6.Router", `\brepeat\b`, "icmp6.repeat",
		`frame\.Options\(\)|\brouter\.\w+\s*=|\bv\.(ManagedFlag|OtherCondigFlag|Addr|Prefixes|RDNSS|Options)\b|router\.Addr\b`, "icmp6.LANRouters")
	handlerRules["dhcp4_spoofer"] = rules(`\bh\.closed\b`, "dhcp4.closed", `\bh\.mode\b`, "dhcp4.mode", `\bh\.table\b|lease\.`, "dhcp4.table")
	handlerRules["dns_naming"] = rules(`DNSTable`, "dns.table", `mdnsCache`, "dns.mdnsCache")
	// the hunt list of Handler6 is a packet.AddrList: its methods live in package packet
	handlerRules["packet"] = rules(`\bs\.list\b`, "icmp6.huntList")
}

//go:noinline
func body_ArpProcess(c *ctx, g *gctx) {
	hs.arp.ProcessPacket(restore(hs.arpFrm[g.rng.Intn(len(hs.arpFrm))]))
}

//go:noinline
func body_ArpStartHunt(c *ctx, g *gctx) {
	i := 1 + g.rng.Intn(4)
	hs.arp.StartHunt(packet.Addr{MAC: mac(i), IP: ip4(130 + i)})
}

//go:noinline
func body_ArpStopHunt(c *ctx, g *gctx) {
	i := 1 + g.rng.Intn(4)
	hs.arp.StopHunt(packet.Addr{MAC: mac(i), IP: ip4(130 + i)})
}

//go:noinline
func body_ArpIsHunting(c *ctx, g *gctx) { _ = hs.arp.IsHunting(ip4(131 + g.rng.Intn(4))) }

//go:noinline
func body_ArpPrintTable(c *ctx, g *gctx) { hs.arp.PrintTable() }

//go:noinline
func body_ArpClose(c *ctx, g *gctx) { hs.arp.Close() }

//go:noinline
func body_I6ProcessRA(c *ctx, g *gctx) {
	if g.rng.Chance(50) {
		icmp_spoofer.VerifSetRepeat(-1) // the next RA is processed (router table update), not only the wake-up
	}
	hs.i6.ProcessPacket(restore(hs.raFrm))
}

//go:noinline
func body_I6StartHunt(c *ctx, g *gctx) {
	i := 1 + g.rng.Intn(4)
	hs.i6.StartHunt(packet.Addr{MAC: mac(i), IP: lla(i)})
}

//go:noinline
func body_I6StopHunt(c *ctx, g *gctx) {
	i := 1 + g.rng.Intn(4)
	hs.i6.StopHunt(packet.Addr{MAC: mac(i), IP: lla(i)})
}

//go:noinline
func body_I6PrintTable(c *ctx, g *gctx) { hs.i6.PrintTable() }

//go:noinline
func body_I6Close(c *ctx, g *gctx) { hs.i6.Close() }

//go:noinline
func body_DhcpProcess(c *ctx, g *gctx) {
	hs.dhcp.ProcessPacket(restore(hs.dhcpFrm[g.rng.Intn(len(hs.dhcpFrm))]))
}

//go:noinline
func body_DhcpMinuteTicker(c *ctx, g *gctx) {
	now := time.Now()
	if g.rng.Chance(30) {
		now = now.Add(5 * time.Hour)
	}
	hs.dhcp.MinuteTicker(now)
}

//go:noinline
func body_DhcpStartHunt(c *ctx, g *gctx) {
	i := 1 + g.rng.Intn(3)
	hs.dhcp.StartHunt(packet.Addr{MAC: mac(i), IP: ip4(130 + i)})
}

//go:noinline
func body_DhcpPrintTable(c *ctx, g *gctx) { hs.dhcp.PrintTable() }

//go:noinline
func body_DhcpClose(c *ctx, g *gctx) { hs.dhcp.Close() }

//go:noinline
func body_DnsProcessDNS(c *ctx, g *gctx) { hs.dns.ProcessDNS(restore(hs.dnsFrm)) }

//go:noinline
func body_DnsProcessMDNS(c *ctx, g *gctx) { hs.dns.ProcessMDNS(restore(hs.mdnsFrm)) }

//go:noinline
func body_DnsFind(c *ctx, g *gctx) { _ = hs.dns.DNSFind("example.com") }

//go:noinline
func body_DnsClose(c *ctx, g *gctx) {
	atomic.StoreInt32(&hs.dnsDone, 1)
	hs.dns.Close()
}
