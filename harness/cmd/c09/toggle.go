package main

import (
	"time"

	"github.com/irai/packet"
	"github.com/irai/packet/fastlog"
	"github.com/irai/packet/handlers/arp_spoofer"
	"github.com/irai/packet/handlers/dhcp4_spoofer"
	"github.com/irai/packet/handlers/dns_naming"
	"github.com/irai/packet/handlers/icmp_spoofer"

	"pvharness/lib"
)

// the exported loggers of the five packages (the `switches` census compares the list with the source; the
// unexported dns_naming.ssdpLogger cannot be reached, the plain bool dns_naming.Debug is not atomic: setting it while
// the handlers run would be the caller's own data race, so it is listed but not flipped)
var toggled = []*fastlog.Logger{packet.Logger, arp_spoofer.Logger, icmp_spoofer.Logger6, icmp_spoofer.Logger4,
	dhcp4_spoofer.Logger, dns_naming.Logger, dns_naming.LoggerMDNS}

// toggler flips the level of every logger between off and Info while the mix runs (Debug is left out: the Debug-level
// log lines are outside the transcribed model).  A level test re-read on one path (check-then-use of a line that
// was only created when the level was on) then meets both answers.
func toggler(r *lib.Rand) {
	for {
		l := toggled[r.Intn(len(toggled))]
		if r.Bool() {
			l.Disable()
		} else {
			l.EnableInfo()
		}
		if r.Intn(4) == 0 {
			time.Sleep(time.Duration(r.Intn(30)) * time.Microsecond)
		}
	}
}
