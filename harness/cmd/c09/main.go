// Command c09: race-detector correspondence for C09 (locking discipline of irai/packet).
//
// Built with -race.  The parent process generates operation mixes; each mix runs in a CHILD process
// (re-exec of this binary, GORACE="halt_on_error=0 log_path=...") on a fresh real session
// (lib.NewSession on a recording connection) and, when the mix needs them, real handlers.  Every
// operation of the mix runs in its own goroutine (the packet-loop operations share ONE goroutine, as
// the supported pattern demands) with runtime.Gosched perturbation and a watchdog.  The parent parses
// the detector reports, recovered panics, fatal errors and quiescence checks into keys
//
//	race:<opA>/<opB>:<field>      panic:<opA>/<opB>:<class>     watchdog:...   invariant:...   leak:...
//
// and compares them with the keys the Coq model predicts for the pairs of the mix (predicted_gen.go,
// exported from the model and re-checked against it on every run by the `oplist`/`table`/`spawns`
// cases).  Observation of a mix: "ok" when every observed key is predicted, else "unexpected:<keys>".
// The model's answer for a mix is "ok".  Predicted keys that are observed are `known` records
// (KNOWN-FINDING when listed in known_findings.txt).
package main

import (
	"fmt"
	"os"
	"os/exec"
	"path/filepath"
	"sort"
	"strconv"
	"strings"
	"sync"
	"time"

	"pvharness/lib"
)

func main() {
	if os.Getenv("C09_CHILD") == "1" {
		childMain()
		return
	}
	r := lib.Init()
	defer r.Close()
	rng := r.Rand()

	scratch := os.Getenv("VERIF_SCRATCH")
	if scratch == "" {
		scratch = os.TempDir()
	}
	workdir, err := os.MkdirTemp(scratch, "c09_")
	if err != nil {
		panic(err)
	}
	defer os.RemoveAll(workdir)
	p := &parent{r: r, workdir: workdir, repo: os.Getenv("VERIF_REPO"), durMS: 2000}
	if p.repo == "" {
		p.repo = "/repo"
	}
	snapshotSources(p.repo)

	r.Register("oplist", func(a []string) string { return strings.Join(opNames, ",") })
	r.Register("table", func(a []string) string {
		if len(a) != 2 {
			return "badargs"
		}
		k := predictedTable[a[0]+"/"+a[1]]
		if len(k) == 0 {
			return "none"
		}
		return strings.Join(k, ",")
	})
	r.Register("spawns", func(a []string) string {
		if len(a) != 1 || len(spawnTable[a[0]]) == 0 {
			return "none"
		}
		return strings.Join(spawnTable[a[0]], ",")
	})
	var sa *staticAnalysis
	var saErr error
	static := func(a []string, which int) string {
		if len(a) != 2 {
			return "badargs"
		}
		if sa == nil && saErr == nil {
			sa, saErr = loadStatic(p.repo)
		}
		if saErr != nil {
			return "static-load-failed:" + saErr.Error()
		}
		for _, e := range entryDefs {
			if e.unit == a[0] {
				l, u, ok := sa.analyse(e.fn)
				if !ok && strings.Contains(e.fn, "#") { // a goroutine body: found by what it does
					if fb := sa.goTargetOf(strings.Split(e.ops, ",")[0]); fb != nil {
						var wr string
						l, u, wr, ok = sa.analyseBody(fb)
						if which == 2 {
							return wr
						}
					}
				}
				if !ok {
					return "unrecognised:no-such-function"
				}
				if which == 2 {
					_, _, wr, _ := sa.analyse3(e.fn)
					return wr
				}
				if which == 0 {
					return l
				}
				return u
			}
		}
		return "badargs"
	}
	r.Register("locks", func(a []string) string { return static(a, 0) })
	r.Register("unlocked", func(a []string) string { return static(a, 1) })
	r.Register("writes", func(a []string) string { return static(a, 2) })
	var cres *censusResult
	censusOf := func(which string) string {
		if sa == nil && saErr == nil {
			sa, saErr = loadStatic(p.repo)
		}
		if saErr != nil {
			return "static-load-failed:" + saErr.Error()
		}
		if cres == nil {
			cres = sa.census()
		}
		switch which {
		case "balance":
			return setText(cres.balance)
		case "blockcensus":
			return setText(cres.blocking)
		}
		return setText(cres.pkgvars)
	}
	r.Register("balance", func(a []string) string { return censusOf("balance") })
	r.Register("blockcensus", func(a []string) string { return censusOf("blockcensus") })
	r.Register("pkgvars", func(a []string) string { return censusOf("pkgvars") })
	r.Register("switches", func(a []string) string {
		if sa == nil && saErr == nil {
			sa, saErr = loadStatic(p.repo)
		}
		if saErr != nil {
			return "static-load-failed:" + saErr.Error()
		}
		return sa.switches()
	})
	r.Register("gocensus", func(a []string) string {
		if sa == nil && saErr == nil {
			sa, saErr = loadStatic(p.repo)
		}
		if saErr != nil {
			return "static-load-failed:" + saErr.Error()
		}
		return sa.goCensus()
	})
	r.Register("mix", func(a []string) string {
		if len(a) != 2 {
			return "badargs"
		}
		seed, _ := strconv.ParseUint(a[1], 10, 64)
		return p.runMix(strings.Split(a[0], ","), seed, true)
	})
	if r.Replayed() {
		return
	}

	// 1. the exported table is the model's table
	r.Do("oplist")
	for i, a := range opNames {
		r.Do("spawns", a)
		for _, b := range opNames[i:] {
			r.Do("table", a, b)
		}
	}

	// 1b. the source-derived lock structure of every entry function equals the projection of the model's templates
	for _, e := range entryDefs {
		if l := r.Exec("locks", []string{e.unit, e.ops}); strings.HasPrefix(l, "unrecognised") || strings.HasPrefix(l, "static-load-failed") {
			r.Stat("static."+l, 1) // an entry function the pass cannot find / a tree it cannot load is not a verdict
			continue
		}
		r.Do("locks", e.unit, e.ops)
		r.Do("unlocked", e.unit, e.ops)
		r.Do("writes", e.unit, e.ops)
	}
	if sa != nil {
		r.Do("gocensus")
		r.Do("balance")
		r.Do("blockcensus")
		r.Do("pkgvars")
		r.Do("switches")
		for k, n := range sa.unrec {
			r.Stat("static.unrecognised."+k, int64(n))
		}
		r.Stat("static.type-errors", int64(len(sa.errors)))
	}

	// 2. mixes
	type job struct {
		ops  []string
		seed uint64
	}
	var jobs []job
	add := func(ops []string) { jobs = append(jobs, job{ops, rng.U64() % 1000000}) }
	runnable := runnableOps()
	nRandom, nPairs := 36, 16
	if r.Thorough() {
		p.durMS = 6000
		nRandom, nPairs = 400, 0
		// every pair of runnable operations once
		for i, a := range runnable {
			for _, b := range runnable[i:] {
				add([]string{a, b})
			}
		}
	}
	for i := 0; i < nPairs; i++ {
		a := runnable[rng.Intn(len(runnable))]
		b := runnable[rng.Intn(len(runnable))]
		add([]string{a, b})
	}
	for i := 0; i < nRandom; i++ {
		n := 3 + rng.Intn(4)
		var ops []string
		for j := 0; j < n; j++ {
			ops = append(ops, runnable[rng.Intn(len(runnable))])
		}
		// the packet loop is almost always present in the supported pattern
		if rng.Chance(70) {
			ops = append(ops, "Parse.fast", "Notify")
		}
		if rng.Chance(40) {
			ops = append(ops, "Parse.slow")
		}
		if rng.Chance(30) {
			ops = append(ops, "purge")
		}
		if rng.Chance(25) {
			ops = append(ops, "Close")
		}
		add(ops)
	}
	// directed mixes for the recorded finding classes
	for _, m := range directedMixes() {
		add(m)
	}

	workers := 16
	var wg sync.WaitGroup
	ch := make(chan job)
	for w := 0; w < workers; w++ {
		wg.Add(1)
		go func() {
			defer wg.Done()
			for j := range ch {
				ops := canonMix(j.ops)
				obs := p.runMix(ops, j.seed, false)
				r.Case("mix", []string{strings.Join(ops, ","), strconv.FormatUint(j.seed, 10)}, obs)
				r.Stat("mix.size."+strconv.Itoa(len(ops)), 1)
				if obs != "ok" {
					r.Stat("mix.notok", 1)
				}
			}
		}()
	}
	for _, j := range jobs {
		ch <- j
	}
	close(ch)
	wg.Wait()
}

// canonMix sorts the operations in table order (duplicates kept: two goroutines of the same op).
func canonMix(ops []string) []string {
	idx := map[string]int{}
	for i, o := range opNames {
		idx[o] = i
	}
	var out, dirs []string
	for _, o := range ops {
		if strings.HasPrefix(o, "@") { // harness directives stay in front
			dirs = append(dirs, o)
		} else {
			out = append(out, o)
		}
	}
	sort.Strings(dirs)
	sort.SliceStable(out, func(i, j int) bool { return idx[out[i]] < idx[out[j]] })
	// at most two goroutines per operation
	res := dirs
	cnt := map[string]int{}
	for _, o := range out {
		if cnt[o] < 2 {
			res = append(res, o)
			cnt[o]++
		}
	}
	return res
}

type parent struct {
	r       *lib.Run
	workdir string
	repo    string
	durMS   int
	mu      sync.Mutex
	n       int
	seenKey map[string]bool
}

// expected returns the keys the model predicts for a mix: all pairs of the operations of the mix, the
// goroutines they spawn and the ambient goroutines of every session.
func expected(ops []string) map[string]bool {
	set := map[string]bool{}
	var all []string
	var addOp func(o string)
	addOp = func(o string) {
		if set["op:"+o] {
			return
		}
		set["op:"+o] = true
		all = append(all, o)
		for _, s := range spawnTable[o] {
			addOp(s)
		}
	}
	for _, o := range ops {
		addOp(o)
		// an operation steered to one path of the host lookup runs the other path when a concurrent
		// purge deleted (or a concurrent creation added) its host
		for _, alias := range mayRunAs[o] {
			addOp(alias)
		}
		// the set-up of the icmp6 handler hunts one host (so that the RA wake-up path is live): its spoof loop runs;
		// every child ends by closing its handlers and the session (background goroutines may still run then)
		if d := findOp(o); d != nil && d.needs != "" {
			if d.needs == "icmp6" {
				addOp("icmp6.StartHunt")
			}
			addOp(d.needs + ".Close")
		}
	}
	for _, o := range ambientOps {
		addOp(o)
	}
	addOp("Close")
	exp := map[string]bool{}
	for _, a := range all {
		for _, b := range all {
			for _, k := range predictedTable[a+"/"+b] {
				exp[k] = true
			}
		}
	}
	return exp
}

var mayRunAs = map[string][]string{"Parse.fast": {"Parse.slow"}, "Parse.slow": {"Parse.fast"}}

// consequence: observations that are effects of a predicted race rather than detector reports.
//
//	fatal:<op>:<field>:concurrent-map-access  <- a predicted race of <op> on the map <field>
//	invariant:online-host-offline-mac         <- a predicted race on MACEntry.Online (makeOffline's scan vs onlineTransition)
//
// Returns the predicted key that explains k, or "".
func consequence(k string, exp map[string]bool) string {
	var fields []string
	op := ""
	switch {
	case strings.HasPrefix(k, "fatal:") && strings.HasSuffix(k, ":concurrent-map-access"):
		f := strings.Split(k, ":")
		if len(f) != 4 {
			return ""
		}
		op, fields = f[1], strings.Split(f[2], "+")
	case k == "invariant:online-host-offline-mac":
		fields = []string{"MACEntry.Online"}
	default:
		return ""
	}
	var cands []string
	for e := range exp {
		if !strings.HasPrefix(e, "race:") {
			continue
		}
		for _, fl := range fields {
			if strings.HasSuffix(e, ":"+fl) {
				pair := strings.TrimSuffix(strings.TrimPrefix(e, "race:"), ":"+fl)
				ab := strings.SplitN(pair, "/", 2)
				if op == "" || (len(ab) == 2 && (ab[0] == op || ab[1] == op)) {
					cands = append(cands, e)
				}
			}
		}
	}
	if len(cands) == 0 {
		return ""
	}
	sort.Strings(cands)
	return cands[0]
}

// runMix runs one mix in a child process and returns the observation.
func (p *parent) runMix(ops []string, seed uint64, verbose bool) string {
	for _, o := range ops {
		if !isRunnable(o) && !strings.HasPrefix(o, "@") {
			return "badargs"
		}
	}
	p.mu.Lock()
	p.n++
	id := p.n
	p.mu.Unlock()
	dir := filepath.Join(p.workdir, fmt.Sprintf("m%d", id))
	os.MkdirAll(dir, 0o755)
	res := filepath.Join(dir, "result")
	stderrPath := filepath.Join(dir, "stderr")
	exe, _ := os.Executable()
	cmd := exec.Command(exe)
	cmd.Env = append(os.Environ(),
		"C09_CHILD=1", "C09_MIX="+strings.Join(ops, ","), "C09_SEED="+strconv.FormatUint(seed, 10),
		"C09_DUR_MS="+strconv.Itoa(p.durMS), "C09_RES="+res,
		"GORACE=halt_on_error=0 history_size=5 log_path="+filepath.Join(dir, "race"))
	cmd.Stdout = nil
	ef, _ := os.Create(stderrPath)
	cmd.Stderr = ef
	cmd.Dir = dir
	done := make(chan error, 1)
	t0 := time.Now()
	if err := cmd.Start(); err != nil {
		ef.Close()
		return "harness-error:" + err.Error()
	}
	go func() { done <- cmd.Wait() }()
	var werr error
	killed := false
	select {
	case werr = <-done:
	case <-time.After(time.Duration(p.durMS)*time.Millisecond + 25*time.Second):
		cmd.Process.Kill()
		werr = <-done
		killed = true
	}
	ef.Close()
	if os.Getenv("C09_TIMING") != "" {
		fmt.Fprintf(os.Stderr, "child %v took %.1fs\n", ops, time.Since(t0).Seconds())
	}

	obs := newObservation(p.repo)
	// detector reports
	logs, _ := filepath.Glob(filepath.Join(dir, "race.*"))
	for _, l := range logs {
		b, _ := os.ReadFile(l)
		obs.parseRaceLog(string(b))
	}
	// child result file and stderr
	rb, _ := os.ReadFile(res)
	eb, _ := os.ReadFile(stderrPath)
	obs.parseRaceLog(string(eb)) // reports go to stderr when log_path cannot be opened
	finished := obs.parseResult(string(rb))
	if killed {
		obs.add("watchdog:parent-killed-child", "child did not finish within the limit")
	} else if !finished {
		obs.parseCrash(string(eb), werr)
	}

	if os.Getenv("C09_TIMING") != "" {
		fmt.Fprintf(os.Stderr, "parsed at %.1fs\n", time.Since(t0).Seconds())
	}
	exp := expected(ops)
	if os.Getenv("C09_TIMING") != "" {
		fmt.Fprintf(os.Stderr, "expected at %.1fs\n", time.Since(t0).Seconds())
	}
	var unexpected []string
	keys := obs.sortedKeys()
	for _, k := range keys {
		if strings.HasPrefix(k, "note:") {
			p.r.Stat(k, 1)
			continue
		}
		if strings.HasPrefix(k, "race-ambiguous:") {
			// the report names a line with several fields, all of which the model predicts for this pair
			p.r.Stat("races.ambiguous", 1)
			continue
		}
		if via := consequence(k, exp); via != "" {
			p.r.Known(via, "consequence "+k+" in mix "+strings.Join(ops, ",")+": "+obs.desc[k])
			p.r.Stat("seen."+k, 1)
			continue
		}
		if exp[k] {
			p.r.Known(k, "reproduced in mix "+strings.Join(ops, ",")+": "+obs.desc[k])
			p.r.Stat("seen."+k, 1)
		} else {
			unexpected = append(unexpected, k)
		}
	}
	p.r.Stat("races.reports", int64(obs.nReports))
	p.r.Stat("races.unrestorable", int64(obs.nUnrestorable))
	if verbose {
		fmt.Fprintf(os.Stderr, "mix %v seed %d: keys=%v\nexpected=%d keys\n", ops, seed, keys, len(exp))
		for _, k := range keys {
			fmt.Fprintf(os.Stderr, "  %s: %s\n", k, obs.desc[k])
		}
	}
	if len(unexpected) == 0 {
		return "ok"
	}
	for _, k := range unexpected {
		p.r.Sample("unexpected " + k + " in mix " + strings.Join(ops, ",") + " seed " + strconv.FormatUint(seed, 10) + ": " + obs.desc[k])
	}
	return "unexpected:" + strings.Join(unexpected, ",")
}
