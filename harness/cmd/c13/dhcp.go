package main

// DHCP traffic through the real dhcp4_spoofer handler attached to the SAME session as the ARP handler: the
// offer the ARP handler reads is then produced by the DHCP server's own calls (SetDHCPv4IPOffer on OFFER,
// DHCPv4Update on ACK). The DHCP history the monitor judges by is read OFF THE WIRE (the OFFER / ACK frames the
// server wrote), never from the session's field.

import (
	"net"
	"net/netip"

	"pvharness/lib"
)

// mkDHCP: BOOTREQUEST + magic cookie + option 53 + options + end, padded to 300 bytes
func mkDHCP(mtype byte, xid uint32, chaddr net.HardwareAddr, opts ...[]byte) []byte {
	b := make([]byte, 240, 320)
	b[0], b[1], b[2] = 1, 1, 6
	b[4], b[5], b[6], b[7] = byte(xid>>24), byte(xid>>16), byte(xid>>8), byte(xid)
	copy(b[28:34], chaddr)
	copy(b[236:240], []byte{99, 130, 83, 99})
	b = append(b, 53, 1, mtype)
	for _, o := range opts {
		b = append(b, o...)
	}
	b = append(b, 255)
	for len(b) < 300 {
		b = append(b, 0)
	}
	return b
}

func dhcpFrame(src net.HardwareAddr, msg []byte) []byte {
	zero4 := netip.AddrFrom4([4]byte{})
	bcast4 := netip.AddrFrom4([4]byte{255, 255, 255, 255})
	return lib.MkEther(net.HardwareAddr{0xff, 0xff, 0xff, 0xff, 0xff, 0xff}, src, 0x0800, lib.MkIP4(zero4, bcast4, 17, 64, lib.MkUDP(68, 67, msg)))
}

// dhcpReply: message type and yiaddr of the BOOTREPLY for (xid, chaddr) among the frames written
func dhcpReply(frames [][]byte, xid uint32, chaddr net.HardwareAddr) (mtype byte, yiaddr [4]byte, ok bool) {
	for _, f := range frames {
		if len(f) < 14+20+8+240 || f[12] != 0x08 || f[13] != 0x00 || f[14+9] != 17 {
			continue
		}
		u := f[14+int(f[14]&0x0f)*4:]
		if len(u) < 8+240 || (uint16(u[2])<<8|uint16(u[3])) != 68 {
			continue
		}
		d := u[8:]
		if d[0] != 2 || (uint32(d[4])<<24|uint32(d[5])<<16|uint32(d[6])<<8|uint32(d[7])) != xid || string(d[28:34]) != string(chaddr) {
			continue
		}
		copy(yiaddr[:], d[16:20])
		for i := 240; i+1 < len(d) && d[i] != 255; {
			if d[i] == 0 {
				i++
				continue
			}
			l := int(d[i+1])
			if d[i] == 53 && l == 1 && i+2 < len(d) {
				mtype = d[i+2]
			}
			i += 2 + l
		}
		return mtype, yiaddr, true
	}
	return
}
