// C13: the REAL arp_spoofer handler on a recording connection, driven by event scripts.
//
// A case is one whole event sequence (see coq/Extract/D13.v for the token syntax):
//
//	seq <cfg> [@ms] <ev> [@ms] <ev> ...
//
// "@ms" tokens are a schedule (sleep until ms after the start of the script); the model ignores
// them. "L,i K,i D,i,mac" stand for one iteration of spoof loop i (lookup, check, write): the two
// first are invisible, at "D" the harness listens for the write that iteration makes (right after
// StartHunt: the goroutine's first iteration; after "@ms": the loop's 6 s ticker firing) and records
// the Ethernet destination it saw. Every other token is an API call / received packet / change of the
// environment (offer table, failing connection), and its observation is what the handler wrote to the
// connection during the call. Observation = frames per event, exactly as the model prints them.
package main

import (
	"encoding/hex"
	"errors"
	"fmt"
	"net"
	"net/netip"
	"os"
	"sort"
	"strconv"
	"strings"
	"sync"
	"time"

	"github.com/irai/packet"
	"github.com/irai/packet/fastlog"
	"github.com/irai/packet/handlers/arp_spoofer"
	dhcp "github.com/irai/packet/handlers/dhcp4_spoofer"
	"pvharness/lib"
)

const period = 6000 // ms: ticker period of spoofLoop (spoof.go: time.NewTicker(time.Second * 6))

// ---------------------------------------------------------------- configuration

type cfg struct {
	hostMAC, routerMAC net.HardwareAddr
	hostIP, routerIP   netip.Addr
	lan                netip.Prefix
}

func (c cfg) tok() string {
	a := c.lan.Addr().As4()
	r := c.routerIP.As4()
	hi := c.hostIP.As4()
	return fmt.Sprintf("c,%s,%s,%s,%s,%s,%d", hex.EncodeToString(c.hostMAC), hex.EncodeToString(hi[:]), hex.EncodeToString(c.routerMAC),
		hex.EncodeToString(r[:]), hex.EncodeToString(a[:]), c.lan.Bits())
}

func parseCfg(t string) (c cfg, ok bool) {
	f := strings.Split(t, ",")
	if len(f) != 7 || f[0] != "c" {
		return c, false
	}
	hm, e1 := hex.DecodeString(f[1])
	hi, e0 := hex.DecodeString(f[2])
	rm, e2 := hex.DecodeString(f[3])
	ri, e3 := hex.DecodeString(f[4])
	la, e4 := hex.DecodeString(f[5])
	bits, e5 := strconv.Atoi(f[6])
	if e0 != nil || e1 != nil || e2 != nil || e3 != nil || e4 != nil || e5 != nil || len(hm) != 6 || len(rm) != 6 || len(ri) != 4 || len(la) != 4 || len(hi) != 4 {
		return c, false
	}
	c.hostMAC, c.routerMAC = hm, rm
	c.hostIP = netip.AddrFrom4(*(*[4]byte)(hi))
	c.routerIP = netip.AddrFrom4(*(*[4]byte)(ri))
	c.lan = netip.PrefixFrom(netip.AddrFrom4(*(*[4]byte)(la)), bits)
	return c, true
}

func stdCfg() cfg {
	return cfg{hostMAC: lib.HostMAC, routerMAC: lib.RouterMAC, hostIP: lib.HostIP4, routerIP: lib.RouterIP4, lan: lib.HomeLAN}
}

// other NIC configurations: the router address stays 192.168.0.11 (the generators aim at it); the home LAN
// varies so that the probed addresses of the universe fall on both sides of its boundary
func altCfgs() []cfg {
	mk := func(p string) cfg {
		c := stdCfg()
		c.lan = netip.MustParsePrefix(p)
		return c
	}
	c5 := mk("192.168.0.0/24")
	c5.hostMAC = net.HardwareAddr{0x02, 0xaa, 0, 0, 0, 0x01}
	c5.routerMAC = net.HardwareAddr{0x02, 0xbb, 0, 0, 0, 0x02}
	c6 := mk("192.168.0.128/29") // the host's own address inside a small LAN
	c7 := mk("192.168.0.8/29")   // the router's address inside a small LAN
	c8 := mk("192.168.0.0/24")
	c8.hostIP = netip.MustParseAddr("192.168.0.4") // host address = one of the universe's addresses
	return []cfg{mk("192.168.0.0/25"), mk("192.168.0.0/16"), mk("192.168.0.0/30"), mk("192.168.0.2/32"),
		mk("10.0.0.0/8"), mk("128.0.0.0/1"), netipZeroBits(), c5, c6, c7, c8, mk("192.168.0.0/28")}
}

func netipZeroBits() cfg {
	c := stdCfg()
	c.lan = netip.PrefixFrom(netip.MustParseAddr("192.168.0.0"), 0) // contains every IPv4 address
	return c
}

// failConn is the recording connection with a switch: the next failN writes are refused with an error
// (not a net.Error: "not temporary"). Every WriteTo call counts as an attempt.
type failConn struct {
	*lib.RecConn
	mu       sync.Mutex
	failN    int
	attempts int
	// gate: while hold is set every WriteTo blocks (after it has been counted as an attempt) until Release lets
	// exactly one writer through or Unhold opens the gate. The write is the one point of a spoof-loop iteration
	// (and of ProcessPacket, Scan) the harness can stop the REAL handler at: lookup and check have happened,
	// the frame is decided, nothing is on the wire yet.
	hold    bool
	blocked int             // writers that have arrived at the gate (cumulative)
	passed  int             // writes completed (cumulative)
	gate    chan struct{}   // closed by Unhold: everybody passes
	waiters []chan struct{} // one per writer standing at the gate, in order of arrival
}

func (c *failConn) WriteTo(b []byte, a net.Addr) (int, error) {
	c.mu.Lock()
	c.attempts++
	fail := c.failN > 0
	if fail {
		c.failN--
	}
	hold, gate := c.hold, c.gate
	var mine chan struct{}
	if hold {
		c.blocked++
		mine = make(chan struct{})
		c.waiters = append(c.waiters, mine)
	}
	c.mu.Unlock()
	if hold {
		select {
		case <-mine:
		case <-gate:
		}
	}
	var n int
	var err error
	if fail {
		err = errors.New("injected write error")
	} else {
		n, err = c.RecConn.WriteTo(b, a)
	}
	c.mu.Lock()
	c.passed++
	c.mu.Unlock()
	return n, err
}
func (c *failConn) SetFail(k int) { c.mu.Lock(); c.failN = k; c.mu.Unlock() }
func (c *failConn) Fail() int     { c.mu.Lock(); defer c.mu.Unlock(); return c.failN }
func (c *failConn) Attempts() int {
	c.mu.Lock()
	defer c.mu.Unlock()
	return c.attempts
}
func (c *failConn) Hold() {
	c.mu.Lock()
	c.hold = true
	c.gate = make(chan struct{})
	c.waiters = nil
	c.mu.Unlock()
}

// Unhold opens the gate for good: every writer waiting passes, later writes do not stop.
func (c *failConn) Unhold() {
	c.mu.Lock()
	if c.hold {
		c.hold = false
		close(c.gate)
	}
	c.mu.Unlock()
}
func (c *failConn) counters() (blocked, passed int) {
	c.mu.Lock()
	defer c.mu.Unlock()
	return c.blocked, c.passed
}

// WaitBlocked waits until more than seen writers have arrived at the gate.
func (c *failConn) WaitBlocked(seen int, max time.Duration) bool {
	deadline := time.Now().Add(max)
	for time.Now().Before(deadline) {
		if b, _ := c.counters(); b > seen {
			return true
		}
		time.Sleep(50 * time.Microsecond)
	}
	return false
}

// Release lets exactly one waiting writer through — the one that arrived first, or (newest) the one that arrived
// last — and waits until its write is done.
func (c *failConn) Release(max time.Duration, newest bool) bool {
	deadline := time.Now().Add(max)
	var w chan struct{}
	for w == nil && time.Now().Before(deadline) {
		c.mu.Lock()
		if n := len(c.waiters); n > 0 {
			if newest {
				w = c.waiters[n-1]
				c.waiters = c.waiters[:n-1]
			} else {
				w = c.waiters[0]
				c.waiters = c.waiters[1:]
			}
		}
		c.mu.Unlock()
		if w == nil {
			time.Sleep(50 * time.Microsecond)
		}
	}
	if w == nil {
		return false
	}
	_, p0 := c.counters()
	close(w)
	for time.Now().Before(deadline) {
		if _, p := c.counters(); p > p0 {
			return true
		}
		time.Sleep(50 * time.Microsecond)
	}
	return false
}

func (c cfg) session() (*packet.Session, *failConn) {
	packet.VerifSetMonitorNICFrequency(24 * time.Hour)
	conn := &failConn{RecConn: lib.NewRecConn()}
	s, err := packet.Config{Conn: conn, NICInfo: &packet.NICInfo{
		HomeLAN4:    c.lan,
		HostAddr4:   packet.Addr{MAC: c.hostMAC, IP: c.hostIP},
		RouterAddr4: packet.Addr{MAC: c.routerMAC, IP: c.routerIP},
		HostLLA:     netip.PrefixFrom(lib.HostLLA, 64),
		RouterLLA:   netip.PrefixFrom(lib.RouterLLA, 64),
	}, ProbeDeadline: packet.DefaultProbeDeadline, OfflineDeadline: packet.DefaultOfflineDeadline,
		PurgeDeadline: packet.DefaultPurgeDeadline}.NewSession("")
	if err != nil {
		panic(err)
	}
	return s, conn
}

// ---------------------------------------------------------------- frames -> text

func showFrame(f []byte) string {
	if len(f) < 14+28 || f[12] != 0x08 || f[13] != 0x06 ||
		f[14] != 0 || f[15] != 1 || f[16] != 8 || f[17] != 0 || f[18] != 6 || f[19] != 4 {
		return "x" + hex.EncodeToString(f)
	}
	a := f[14:]
	op := int(a[6])<<8 | int(a[7])
	return fmt.Sprintf("%d.%s.%s.%s.%s.%s", op, hex.EncodeToString(f[0:6]), hex.EncodeToString(a[8:14]),
		hex.EncodeToString(a[14:18]), hex.EncodeToString(a[18:24]), hex.EncodeToString(a[24:28]))
}

func showOut(fs [][]byte) string {
	if len(fs) == 0 {
		return "-"
	}
	s := make([]string, len(fs))
	for i, f := range fs {
		s[i] = showFrame(f)
	}
	return strings.Join(s, "+")
}

func mac6(s string) net.HardwareAddr {
	b, err := hex.DecodeString(s)
	if err != nil || len(b) != 6 {
		panic("bad mac token " + s)
	}
	return net.HardwareAddr(b)
}

func ip4(s string) netip.Addr {
	b, err := hex.DecodeString(s)
	if err != nil || len(b) != 4 {
		panic("bad ip token " + s)
	}
	return netip.AddrFrom4(*(*[4]byte)(b))
}

// ---------------------------------------------------------------- script interpreter

type result struct {
	toks                 []string // the script with the hints actually observed
	obs                  string
	suspicious           bool // a frame arrived where the schedule does not expect one (timing jitter or a defect)
	why                  string
	envOffers            int // offer changes made by the session itself (Parse), reported as O events
	staleOffers          int // the IP4Offer field read an address no DHCP event put there (OV observation)
	dhcpNone             int // @DH tokens skipped: the DHCP server refused the configuration
	dhcpOffers, dhcpAcks int // OFFER / ACK frames of the real DHCP server on the same session, taken as DHCP events
	dur                  time.Duration
}

// waitAttempt polls until the handler has called WriteTo again (successfully or not) or the deadline passes.
func waitAttempt(conn *failConn, seen int, max time.Duration) {
	deadline := time.Now().Add(max)
	for conn.Attempts() == seen && time.Now().Before(deadline) {
		time.Sleep(50 * time.Microsecond)
	}
}

var invalidAddrs = []packet.Addr{
	{MAC: nil, IP: netip.MustParseAddr("192.168.0.2")},                                       // nil MAC
	{MAC: net.HardwareAddr{2, 0, 0, 0, 0, 9}, IP: netip.MustParseAddr("fe80::1")},            // IPv6
	{MAC: net.HardwareAddr{2, 0, 0, 0, 0, 9}, IP: netip.Addr{}},                              // zero Addr
	{MAC: net.HardwareAddr{2, 0, 0, 0, 0, 9}, IP: netip.MustParseAddr("::ffff:192.168.0.2")}, // 4in6: not Is4
}

// public send calls with an address that is not IPv4 or a MAC that is not 6 bytes
func invalidCalls(h *arp_spoofer.Handler) []func() error {
	m1, m2 := mac6(macs[0]), mac6(macs[1])
	good := packet.Addr{MAC: m1, IP: ip4(ipA)}
	v6 := netip.MustParseAddr("fe80::1")
	in6 := netip.MustParseAddr("::ffff:192.168.0.11")
	return []func() error{
		func() error { return h.AnnounceTo(m2, netip.Addr{}) },
		func() error { return h.AnnounceTo(m2, in6) },
		func() error { return h.AnnounceTo(nil, lib.RouterIP4) },
		func() error { return h.Probe(netip.Addr{}) },
		func() error { return h.Probe(v6) },
		func() error { return h.RequestRaw(m2, packet.Addr{MAC: m1}, good) },
		func() error { return h.RequestRaw(nil, good, good) },
		func() error { return h.RequestRaw(m2, packet.Addr{IP: ip4(ipA)}, good) },
		func() error { return h.RequestRaw(m2, good, packet.Addr{MAC: net.HardwareAddr{1, 2, 3}, IP: ip4(ipA)}) },
		func() error { return h.Reply(m2, good, packet.Addr{MAC: m1, IP: in6}) },
		func() error {
			return h.Reply(m2, packet.Addr{MAC: net.HardwareAddr{1, 2, 3, 4, 5, 6, 7}, IP: lib.RouterIP4}, good)
		},
		func() error { return h.Request(netip.Addr{}) },
		func() error { return h.Request(v6) },
		func() error { return h.RequestTo(m2, in6) },
		func() error { return h.RequestTo(nil, ip4(ipA)) },
	}
}

func execScript(args []string) (res result) {
	c, ok := parseCfg(args[0])
	if !ok {
		return result{toks: args, obs: "badargs"}
	}
	session, conn := c.session()
	h, err := arp_spoofer.New(session)
	if err != nil {
		return result{toks: args, obs: "err:new"}
	}
	closed := false
	defer func() {
		conn.Unhold()
		h.Close()
		go session.Close() // sleeps 1 s
	}()
	start := time.Now()
	// timed scripts only make sense while this process gets scheduled promptly: a probe goroutine measures
	// how much a 5 ms sleep oversleeps; a stall above 150 ms voids the run (it is repeated by runCase)
	timedScript := false
	heldScript := false // the script stops the handler at its writes (@H): RR / SC / SS tokens are explicit
	for _, t := range args[1:] {
		if t == "@H" {
			heldScript = true
		} else if strings.HasPrefix(t, "@") && t != "@R" && t != "@RL" && t != "@U" && !strings.HasPrefix(t, "@PG,") && !strings.HasPrefix(t, "@DH,") {
			timedScript = true
		}
	}
	stopProbe := make(chan struct{})
	var maxStall time.Duration
	var probeDone sync.WaitGroup
	if timedScript {
		probeDone.Add(1)
		go func() {
			defer probeDone.Done()
			for {
				select {
				case <-stopProbe:
					return
				default:
				}
				t0 := time.Now()
				time.Sleep(5 * time.Millisecond)
				if d := time.Since(t0) - 5*time.Millisecond; d > maxStall {
					maxStall = d
				}
			}
		}()
	}
	defer func() {
		close(stopProbe)
		probeDone.Wait()
		if maxStall > 150*time.Millisecond {
			res.suspicious = true
			res.why += "stall "
		}
	}()
	var obs []string
	toks := []string{args[0]}
	var lastAt time.Duration = -1 // schedule time of the most recent @ token not yet consumed by a W
	nInvalid := 0
	nScans, nInvalidCalls := 0, 0
	skipLKD := 0
	skipOU := 0 // a replayed line carries the O / U tokens an @DH exchange regenerates
	var dh *dhcp.Handler
	xid := uint32(0x13000000)
	var loopMAC []string           // MAC of loop i (a StartHunt of a MAC not hunted starts the next loop)
	huntedNow := map[string]bool{} // the harness's own view of the hunt list (only to number the loops)
	gated := false                 // the connection holds every write
	seenBlocked := 0               // writers seen at the gate so far
	var bg chan struct{}           // a ProcessPacket / Scan call running in the background while the gate is held
	seenAttempts := 0
	take := func() [][]byte { seenAttempts = conn.Attempts(); return conn.Take() }
	// ARGUMENT OWNERSHIP. A real caller hands the handler views of its own buffers (StartHunt(frame.SrcAddr), frames
	// parsed in one receive buffer) and reuses them as soon as the call returns. So every MAC argument lives in
	// this scratch buffer and every received frame in this receive buffer, and both are overwritten right after
	// the call returns (another host's MAC / zeros / the router's MAC, in turn). The model takes arguments as
	// values: a handler that retains a caller's slice instead of a copy diverges from it.
	scratch := make([]byte, 32)
	rxbuf := make([]byte, 2048)
	nScribble := 0
	defer0 := false // the receive buffer was handed to the handler during this event
	own := func(slot int, m net.HardwareAddr) net.HardwareAddr {
		if m == nil {
			return nil
		}
		b := scratch[slot*8 : slot*8+len(m) : slot*8+len(m)]
		copy(b, m)
		return b
	}
	scribble := func() {
		var pat []byte
		switch nScribble % 3 {
		case 0:
			pat = mac6(macs[(nScribble/3)%len(macs)])
		case 1:
			pat = []byte{0, 0, 0, 0, 0, 0}
		default:
			pat = c.routerMAC
		}
		nScribble++
		for i := range scratch {
			scratch[i] = pat[i%6]
		}
		for i := range rxbuf {
			rxbuf[i] = pat[i%6]
		}
	}
	// one receive buffer for all frames
	recv := func(b []byte) []byte { n := copy(rxbuf, b); return rxbuf[:n:n] }
	// The session's offer table is the handler's environment: it changes by SetDHCPv4IPOffer but also
	// when Parse moves an IP between MACs and drops a MAC entry. Whatever changed is reported to the
	// model as an explicit "O" event before the handler runs.
	universe := map[string]bool{}
	for _, t := range args[1:] {
		for _, x := range strings.Split(t, ",") {
			if len(x) == 12 {
				universe[x] = true
			}
		}
	}
	var umacs []string
	for x := range universe {
		umacs = append(umacs, x)
	}
	sort.Strings(umacs)
	offerView := map[string]string{}
	syncOffers := func() {
		for _, m := range umacs {
			cur := "-"
			if o := session.DHCPv4IPOffer(mac6(m)); o.Is4() {
				a := o.As4()
				cur = hex.EncodeToString(a[:])
			}
			old, seen := offerView[m]
			if !seen {
				old = "-"
			}
			if cur != old {
				offerView[m] = cur
				if cur == "-" {
					// the entry (and the offer with it) vanished: Parse moved the IP, a purge deleted the MAC: a
					// DHCP-relevant event of the history (the offer is withdrawn)
					toks = append(toks, "O,"+m+","+cur)
				} else {
					// the field reads an address that no DHCP event of the history put there (a stale or invented
					// offer): the model follows the field, the monitor judges by the history and is not told
					toks = append(toks, "OV,"+m+","+cur)
					res.staleOffers++
				}
				obs = append(obs, "-")
				res.envOffers++
			}
		}
	}
	for _, t := range args[1:] {
		if t == "@H" || t == "@R" || t == "@RL" || t == "@U" {
			// hold the connection / let one blocked write through / open the gate (not events of the model)
			switch t {
			case "@H":
				conn.Hold()
				gated = true
				seenBlocked, _ = conn.counters()
			case "@R", "@RL":
				if !conn.Release(2*time.Second, t == "@RL") {
					res.suspicious = true
					res.why += "norelease "
				}
			case "@U":
				conn.Unhold()
				gated = false
				if bg != nil {
					<-bg
					bg = nil
				}
			}
			toks = append(toks, t)
			continue
		}
		if strings.HasPrefix(t, "@WN,") {
			toks = append(toks, t)
			// many loops tick at (almost) the same time: wait until every started loop has had the chance to write
			// (n attempts, or the end of the window), then give each loop the frames addressed to its own MAC
			// (a loop writes only to its own MAC: C13_loop_frames) as its Lookup/Check/Send
			n, _ := strconv.Atoi(strings.TrimPrefix(t, "@WN,"))
			spread := time.Duration(len(loopMAC)) * 8 * time.Millisecond
			deadline := time.Now().Add(450*time.Millisecond + spread)
			for conn.Attempts() < seenAttempts+n && time.Now().Before(deadline) {
				time.Sleep(200 * time.Microsecond)
			}
			time.Sleep(3 * time.Millisecond)
			fs := take()
			used := make([]bool, len(fs))
			for i, m := range loopMAC {
				var mine [][]byte
				for x, fr := range fs {
					if !used[x] && len(fr) >= 6 && hex.EncodeToString(fr[0:6]) == m {
						mine = append(mine, fr)
						used[x] = true
						break // one frame per loop and tick; a second one stays for the next loop of the same MAC
					}
				}
				if i == len(loopMAC)-1 {
					for x, fr := range fs {
						if !used[x] {
							mine = append(mine, fr)
						}
					}
				}
				is := strconv.Itoa(i)
				hint := "000000000000"
				if len(mine) > 0 {
					hint = hex.EncodeToString(mine[0][0:6])
				}
				toks = append(toks, "L,"+is, "K,"+is, "D,"+is+","+hint)
				obs = append(obs, "-", "-", showOut(mine))
			}
			lastAt = -1
			skipLKD = 3 * len(loopMAC) // a replayed line carries the L/K/D tokens this step regenerates
			continue
		}
		if strings.HasPrefix(t, "@DH,") {
			// "@DH,<mac>": a whole DHCP exchange of this client with the real dhcp4_spoofer server attached to this
			// session: DISCOVER -> OFFER (the server calls SetDHCPv4IPOffer), REQUEST of the offered address -> ACK
			// (the server calls DHCPv4Update). "@DH,<mac>,D": the DISCOVER / OFFER half only. The DHCP events of
			// the history are what the server WROTE: "O,<mac>,<yiaddr>" for the OFFER, "U,<mac>,<yiaddr>" for the ACK.
			f := strings.Split(t, ",")
			toks = append(toks, t)
			if dh == nil {
				d, err := dhcp.Config{Mode: dhcp.ModePrimaryServer, NetfilterIP: netip.PrefixFrom(netip.AddrFrom4([4]byte{192, 168, 0, 129}), 25), DNSServer: c.routerIP}.New(session)
				if err != nil || d == nil {
					res.dhcpNone++ // this configuration's LAN has no room for the server's second subnet: no exchange
					continue
				}
				dh = d
			}
			fk := conn.Fail()
			conn.SetFail(0)
			take()
			cm := mac6(f[1])
			xid++
			say := func(msg []byte) (byte, [4]byte, bool) {
				fr, err := session.Parse(dhcpFrame(cm, msg))
				if err != nil {
					return 0, [4]byte{}, false
				}
				dh.ProcessPacket(fr)
				return dhcpReply(take(), xid, cm)
			}
			if mt, y, ok := say(mkDHCP(1, xid, cm)); ok && mt == 2 {
				ys := hex.EncodeToString(y[:])
				toks = append(toks, "O,"+f[1]+","+ys)
				obs = append(obs, "-")
				offerView[f[1]] = ys
				skipOU++
				res.dhcpOffers++
				syncOffers()
				if len(f) < 3 {
					hi := c.hostIP.As4()
					if mt, y2, ok := say(mkDHCP(3, xid, cm, append([]byte{50, 4}, y[:]...), append([]byte{54, 4}, hi[:]...))); ok && mt == 5 {
						ys = hex.EncodeToString(y2[:])
						toks = append(toks, "U,"+f[1]+","+ys)
						obs = append(obs, "-")
						offerView[f[1]] = ys
						skipOU++
						res.dhcpAcks++
					}
				}
			}
			conn.SetFail(fk)
			seenAttempts = conn.Attempts()
			syncOffers()
			continue
		}
		if strings.HasPrefix(t, "@PG,") {
			// the session's purge run with the clock moved forward by so many minutes (5: online hosts go offline,
			// 70: offline hosts and their MAC entries are deleted). Not an event of the model; the ARP probes the
			// session itself sends to its online hosts are not the handler's and are dropped (and do not eat a
			// refused-write budget); what the purge did to the offers is reported by syncOffers.
			min, _ := strconv.Atoi(strings.TrimPrefix(t, "@PG,"))
			fk := conn.Fail()
			conn.SetFail(0)
			stray := take()
			n := 0
			for _, e := range session.GetHosts() {
				e.MACEntry.Row.RLock()
				if e.Online && e.Addr.IP.Is4() {
					n++
				}
				e.MACEntry.Row.RUnlock()
			}
			before := conn.Attempts()
			session.VerifPurge(time.Now().Add(time.Duration(min) * time.Minute))
			for dl := time.Now().Add(time.Second); conn.Attempts() < before+n && time.Now().Before(dl); {
				time.Sleep(200 * time.Microsecond)
			}
			time.Sleep(2 * time.Millisecond)
			take()
			if len(stray) > 0 {
				res.suspicious = true
				res.why += "purge-stray "
			}
			conn.SetFail(fk)
			seenAttempts = conn.Attempts()
			toks = append(toks, t)
			syncOffers()
			continue
		}
		if strings.HasPrefix(t, "@") {
			ms, _ := strconv.Atoi(t[1:])
			lastAt = time.Duration(ms) * time.Millisecond
			if d := time.Until(start.Add(lastAt)); d > 0 {
				time.Sleep(d)
			}
			toks = append(toks, t)
			continue
		}
		f := strings.Split(t, ",")
		if skipLKD > 0 && (f[0] == "L" || f[0] == "K" || f[0] == "D") {
			skipLKD--
			continue
		}
		skipLKD = 0
		// (generators never put an O / U token right behind an @DH token)
		if skipOU > 0 && (f[0] == "O" || f[0] == "U" || f[0] == "OV") {
			if f[0] != "OV" {
				skipOU--
			}
			continue
		}
		skipOU = 0
		switch f[0] {
		case "S":
			h.StartHunt(packet.Addr{MAC: own(0, mac6(f[1])), IP: ip4(f[2])})
			scribble()
			if !huntedNow[f[1]] {
				huntedNow[f[1]] = true
				loopMAC = append(loopMAC, f[1])
			}
			// what the new goroutine emits belongs to the D token that follows; nothing is taken here
			obs = append(obs, "-")
			toks = append(toks, t)
		case "SI":
			h.StartHunt(invalidAddrs[nInvalid%len(invalidAddrs)])
			nInvalid++
			obs = append(obs, showOut(take()))
			toks = append(toks, t)
		case "T":
			h.StopHunt(packet.Addr{MAC: own(0, mac6(f[1]))})
			scribble()
			delete(huntedNow, f[1])
			obs = append(obs, showOut(take()))
			toks = append(toks, t)
		case "C":
			h.Close()
			closed = true
			time.Sleep(2 * time.Millisecond) // every loop passes its select now; none may send
			obs = append(obs, showOut(take()))
			toks = append(toks, t)
		case "O":
			o := netip.Addr{}
			if f[2] != "-" {
				o = ip4(f[2])
			}
			session.SetDHCPv4IPOffer(mac6(f[1]), o, packet.NameEntry{})
			obs = append(obs, showOut(take()))
			toks = append(toks, t)
			offerView[f[1]] = f[2]
		case "U":
			// the DHCP server's confirmation through the real session: DHCPv4Update(mac, ip). The history now says
			// "confirmed ip"; whatever else the session's field reads afterwards is reported as OV by syncOffers.
			err := session.DHCPv4Update(own(0, mac6(f[1])), ip4(f[2]), packet.NameEntry{})
			scribble()
			obs = append(obs, showOut(take()))
			toks = append(toks, t)
			if err == nil {
				offerView[f[1]] = f[2]
			} else {
				res.suspicious = true
				res.why += "update-refused "
			}
			syncOffers()
		case "OV":
			// a replayed line carries the observation tokens syncOffers regenerates
		case "R":
			op, _ := strconv.Atoi(f[1])
			dst := packet.EthernetBroadcast
			if op == 2 {
				dst = c.hostMAC
			}
			b := lib.MkEther(dst, mac6(f[2]), 0x0806, lib.MkARP(uint16(op), mac6(f[3]), ip4(f[4]), mac6(f[5]), ip4(f[6])))
			if !gated {
				b = recv(b) // the caller's one receive buffer (a held ProcessPacket keeps its own until it returns)
				defer0 = true
			}
			frame, err := session.Parse(b)
			syncOffers()
			toks = append(toks, t)
			if err != nil {
				obs = append(obs, "parse-error")
			} else if gated {
				// ProcessPacket would block in its write: run it in the background; the script carries the RR token
				done := make(chan struct{})
				bg = done
				go func() { h.ProcessPacket(frame); close(done) }()
				if conn.WaitBlocked(seenBlocked, 2*time.Second) {
					seenBlocked++
				}
				obs = append(obs, showOut(take()))
			} else {
				h.ProcessPacket(frame)
				// a spoof reply (request branch: sender IP set) is decided by R and written by RR; a probe reject is R's own
				if heldScript {
					obs = append(obs, showOut(take()))
				} else {
					// ProcessPacket decides (R), the write after its unlock is RR: spoof reply and probe reject alike
					obs = append(obs, "-", showOut(take()))
					toks = append(toks, "RR,0")
				}
			}
		case "L", "K":
			// lookup and check of a loop iteration: nothing to see; the write is the "D" token. While the gate is
			// held, "K" waits until the loop stands at its (blocked) write: lookup and check are then behind it.
			if gated && f[0] == "K" {
				max := 3 * time.Second
				if lastAt >= 0 {
					max = 450 * time.Millisecond
				}
				if conn.WaitBlocked(seenBlocked, max) {
					seenBlocked++
				}
			}
			obs = append(obs, "-")
			toks = append(toks, t)
		case "D":
			// the write of one loop iteration shows up by itself
			if closed || gated {
				time.Sleep(2 * time.Millisecond)
			} else if lastAt >= 0 {
				waitAttempt(conn, seenAttempts, 450*time.Millisecond) // ticker wake-up: listen from 150 ms before to 300 ms after the tick
				time.Sleep(2 * time.Millisecond)
			} else {
				waitAttempt(conn, seenAttempts, 3*time.Second) // first iteration of a new goroutine: immediate unless the machine stalls
				time.Sleep(2 * time.Millisecond)
			}
			seenAttempts = conn.Attempts()
			fs, ts := conn.TakeTimed()
			if lastAt >= 0 && len(fs) > 0 {
				// ticker wake-up scheduled 150 ms after the @ token: the frame must not come early
				if ts[0].Sub(start) < lastAt+50*time.Millisecond {
					res.suspicious = true
					res.why += "early "
				}
				// ... and what is taken here must have been written inside the listening window (a frame of the
				// next loop's tick, picked up because this goroutine was descheduled, voids the run)
				if ts[len(ts)-1].Sub(start) > lastAt+460*time.Millisecond {
					res.suspicious = true
					res.why += "late "
				}
			}
			lastAt = -1
			hint := "000000000000"
			if len(fs) > 0 && len(fs[0]) >= 6 {
				hint = hex.EncodeToString(fs[0][0:6])
			}
			obs = append(obs, showOut(fs))
			toks = append(toks, "D,"+f[1]+","+hint)
		case "F":
			k, _ := strconv.Atoi(f[1])
			conn.SetFail(k)
			obs = append(obs, showOut(take()))
			toks = append(toks, t)
		case "X":
			et, _ := strconv.ParseUint(f[1], 16, 16)
			b := lib.MkEther(packet.EthernetBroadcast, mac6(macs[0]), uint16(et), lib.UnHex(f[2]))
			b = recv(b)
			defer0 = true
			frame, _ := session.Parse(b) // whatever Parse hands over, error or not, goes to the handler
			syncOffers()
			toks = append(toks, t)
			if p, _ := lib.Catch(func() { h.ProcessPacket(frame) }); p {
				obs = append(obs, "panic")
				take()
			} else {
				obs = append(obs, "-", showOut(take()))
				toks = append(toks, "RR,0")
			}
		case "AR":
			h.Request(ip4(f[1]))
			obs = append(obs, showOut(take()))
			toks = append(toks, t)
		case "AT":
			h.RequestTo(own(0, mac6(f[1])), ip4(f[2]))
			scribble()
			obs = append(obs, showOut(take()))
			toks = append(toks, t)
		case "AP":
			h.Probe(ip4(f[1]))
			obs = append(obs, showOut(take()))
			toks = append(toks, t)
		case "AA":
			h.AnnounceTo(own(0, mac6(f[1])), ip4(f[2]))
			scribble()
			obs = append(obs, showOut(take()))
			toks = append(toks, t)
		case "AW":
			h.RequestRaw(own(0, mac6(f[1])), packet.Addr{MAC: own(1, mac6(f[2])), IP: ip4(f[3])}, packet.Addr{MAC: own(2, mac6(f[4])), IP: ip4(f[5])})
			scribble()
			obs = append(obs, showOut(take()))
			toks = append(toks, t)
		case "AY":
			h.Reply(own(0, mac6(f[1])), packet.Addr{MAC: own(1, mac6(f[2])), IP: ip4(f[3])}, packet.Addr{MAC: own(2, mac6(f[4])), IP: ip4(f[5])})
			scribble()
			obs = append(obs, showOut(take()))
			toks = append(toks, t)
		case "AS":
			// Scan() visits lan+1 .. lan+2^(32-bits)-2; for every address the model takes a ScanCheck and a ScanSend
			// step; the request whose target is the k-th address is the observation of the k-th ScanSend
			if gated {
				done := make(chan struct{})
				bg = done
				go func() { h.Scan(); close(done) }()
				obs = append(obs, "-")
				toks = append(toks, t)
				nScans++
				continue
			}
			h.Scan()
			fs := take()
			obs = append(obs, "-")
			toks = append(toks, t)
			nips := (1 << (32 - c.lan.Bits())) - 2
			base := c.lan.Addr().As4()
			b0 := uint32(base[0])<<24 | uint32(base[1])<<16 | uint32(base[2])<<8 | uint32(base[3])
			used := make([]bool, len(fs))
			for k := 1; k <= nips; k++ {
				ipk := b0 + uint32(k)
				var mine [][]byte
				for x, fr := range fs {
					if !used[x] && len(fr) >= 42 && uint32(fr[38])<<24|uint32(fr[39])<<16|uint32(fr[40])<<8|uint32(fr[41]) == ipk {
						mine = append(mine, fr)
						used[x] = true
					}
				}
				if k == nips {
					for x, fr := range fs { // whatever is left is unexpected: it ends up in the last step
						if !used[x] {
							mine = append(mine, fr)
						}
					}
				}
				obs = append(obs, "-", showOut(mine))
				toks = append(toks, "SC,"+strconv.Itoa(nScans), "SS,"+strconv.Itoa(nScans))
			}
			nScans++
		case "RR", "SC", "SS":
			// regenerated by R / X / AS: tokens of a replayed line are dropped here -- except in a held script,
			// where they stand for themselves (the call runs in the background, the write is released by @R)
			if heldScript {
				switch f[0] {
				case "RR", "SS":
					time.Sleep(2 * time.Millisecond)
					obs = append(obs, showOut(take()))
				case "SC":
					if gated && conn.WaitBlocked(seenBlocked, 2*time.Second) {
						seenBlocked++
					}
					obs = append(obs, "-")
				}
				toks = append(toks, t)
			}
		case "AX":
			// a public send call with an unusable address or MAC
			calls := invalidCalls(h)
			k := nInvalidCalls % len(calls)
			nInvalidCalls++
			if p, _ := lib.Catch(func() { calls[k]() }); p {
				obs = append(obs, "panic")
				take()
			} else {
				obs = append(obs, showOut(take()))
			}
			toks = append(toks, t)
		case "AH":
			// tries = how often FindIP failed = how many writes WhoIs attempted (a refused write ends it:
			// then the model is told one more try than it needs, which it ignores)
			before := conn.Attempts()
			_, err := h.WhoIs(ip4(f[1]))
			tries := conn.Attempts() - before
			if err != nil && err != packet.ErrNotFound {
				tries = 3
			}
			obs = append(obs, showOut(take()))
			toks = append(toks, "AH,"+f[1]+","+strconv.Itoa(tries))
		default:
			return result{toks: args, obs: "badargs"}
		}
		if f[0] != "D" && f[0] != "L" && f[0] != "K" {
			lastAt = -1
		}
		if defer0 {
			scribble() // the receive buffer is reused for the next frame
			defer0 = false
		}
	}
	// nothing may trickle in after the last event
	time.Sleep(2 * time.Millisecond)
	if fs := take(); len(fs) > 0 {
		obs = append(obs, "stray:"+showOut(fs))
		res.suspicious = true
		res.why += "stray "
	}
	res.toks = toks
	res.obs = strings.Join(obs, "/")
	if len(obs) == 0 {
		res.obs = "-"
	}
	res.dur = time.Since(start)
	if !timedScript && res.dur > 4*time.Second {
		res.suspicious = true // a 6 s ticker may have fired inside an unscheduled script: repeat
		res.why += "slow "
	}
	return res
}

// ---------------------------------------------------------------- generators

var macs = []string{"020000000001", "020000000002", "020000000003", "020000000004"}

const (
	ipA      = "c0a80002" // 192.168.0.2
	ipB      = "c0a80003"
	ipC      = "c0a80004"
	ipRouter = "c0a8000b" // 192.168.0.11
	ipHost   = "c0a80081" // 192.168.0.129
	ipZero   = "00000000"
	ipOff    = "0a000005" // 10.0.0.5: outside the home LAN
	ipDNS    = "08080808"
	ipLL     = "a9fe0101" // 169.254.1.1
	ipBcast  = "ffffffff"
	ipLanTop = "c0a800ff"
)

var lanIPs = []string{ipA, ipB, ipC}
var anyIPs = []string{ipA, ipB, ipC, ipRouter, ipHost, ipZero, ipOff, ipDNS, ipLL, ipBcast, ipLanTop}

func pick(rng *lib.Rand, l []string) string { return l[rng.Intn(len(l))] }

// a received ARP packet of a chosen class
func genRx(rng *lib.Rand) string {
	m := pick(rng, macs)
	eth := m
	if rng.Chance(10) {
		eth = pick(rng, macs) // Ethernet source differs from the ARP sender
	}
	op := "1"
	sip, tip, tmac := pick(rng, lanIPs), ipRouter, "000000000000"
	switch k := rng.Intn(100); {
	case k < 30: // who-has router from a LAN host
	case k < 40: // who-has something else
		tip = pick(rng, anyIPs)
	case k < 65: // probe
		sip = ipZero
		tip = pick(rng, []string{ipA, ipB, ipC, ipRouter, ipRouter, ipOff, ipDNS, ipLL, ipLanTop, ipZero, ipHost})
	case k < 72: // announcement
		sip = pick(rng, []string{ipA, ipB, ipRouter, ipZero})
		tip = sip
		tmac = "ffffffffffff"
	case k < 82: // reply / gratuitous
		op = "2"
		sip = pick(rng, anyIPs)
		tip = pick(rng, anyIPs)
		tmac = pick(rng, []string{"005555555555", "ffffffffffff"})
	case k < 88: // link local on either side
		if rng.Bool() {
			sip = ipLL
		} else {
			tip = ipLL
		}
	case k < 93: // unknown operation
		op = pick(rng, []string{"0", "3", "4", "256", "65535"})
		sip = pick(rng, anyIPs)
	default: // anything
		sip = pick(rng, anyIPs)
		tip = pick(rng, anyIPs)
		if rng.Bool() {
			tmac = "ffffffffffff"
		}
	}
	if rng.Chance(4) {
		m = pick(rng, []string{"005555555555", "006666666666", "ffffffffffff"})
	}
	return "R," + op + "," + eth + "," + m + "," + sip + "," + tmac + "," + tip
}

// a raw frame for ProcessPacket: any EtherType, ARP payloads valid / truncated / padded / with a bad header field
func genRaw(rng *lib.Rand) string {
	m := mac6(pick(rng, macs))
	arp := lib.MkARP(uint16(rng.Pick(1, 1, 1, 2, 0, 3)), m, ip4(pick(rng, anyIPs)), mac6("000000000000"), ip4(pick(rng, []string{ipRouter, ipRouter, ipA, ipB, ipZero})))
	if rng.Chance(40) {
		copy(arp[14:18], []byte{0, 0, 0, 0}) // probe
	}
	et := "0806"
	switch k := rng.Intn(100); {
	case k < 25: // valid, exact length
	case k < 40: // valid, padded as on the wire
		arp = append(arp, make([]byte, rng.Pick(1, 18, 32))...)
	case k < 60: // truncated at any offset
		arp = arp[:rng.Intn(28)]
	case k < 80: // one header field off
		i := rng.Intn(6)
		arp[i] ^= byte(1 + rng.Intn(255))
	case k < 90: // not ARP at all
		et = pick(rng, []string{"0800", "86dd", "88cc", "0805", "0807", "0600", "05dc", "0000", "ffff"})
		if rng.Bool() {
			arp = rng.Bytes(rng.Intn(60))
		}
	default:
		arp = rng.Bytes(rng.Pick(0, 1, 27, 28, 29, 46))
	}
	return "X," + et + "," + lib.Hex(arp)
}

// a call of the public send API
func genAPI(rng *lib.Rand) string {
	ip := pick(rng, []string{ipA, ipB, ipRouter, ipRouter, ipHost, ipZero, ipOff, ipBcast})
	dst := pick(rng, append([]string{"ffffffffffff"}, macs...))
	sm := pick(rng, []string{"005555555555", "005555555555", "006666666666", macs[0]})
	si := pick(rng, []string{ipRouter, ipRouter, ipHost, ipA, ipZero})
	tm := pick(rng, []string{"ffffffffffff", "000000000000", macs[1]})
	switch rng.Intn(8) {
	case 0:
		return "AR," + ip
	case 1:
		return "AT," + dst + "," + ip
	case 2:
		return "AP," + ip
	case 3:
		return "AA," + dst + "," + ip
	case 4:
		return "AW," + dst + "," + sm + "," + si + "," + tm + "," + ip
	case 5:
		return "AY," + dst + "," + sm + "," + si + "," + tm + "," + ip
	case 6:
		return "AH," + pick(rng, []string{ipA, ipB, ipC, ipOff}) + ",0"
	default:
		return "AX"
	}
}

// random call sequence without schedule: only immediate effects are visible (the 6 s tickers never fire)
func genImmediate(rng *lib.Rand, n int) []string {
	toks := []string{}
	hunted := map[string]bool{}
	nloops := 0
	for len(toks) < n {
		switch k := rng.Intn(100); {
		case k < 3:
			// refused first announcement, recovery, the hunted host asks for the router, StopHunt / Close
			m := pick(rng, macs)
			ip := pick(rng, lanIPs)
			toks = append(toks, "F,1", "S,"+m+","+ip)
			if !hunted[m] {
				hunted[m] = true
				toks = append(toks, "W,"+strconv.Itoa(nloops)+",000000000000")
				nloops++
			}
			toks = append(toks, "F,0", "R,1,"+m+","+m+","+ip+",000000000000,"+ipRouter)
			if rng.Chance(20) {
				toks = append(toks, "C")
			} else {
				toks = append(toks, "T,"+m)
				delete(hunted, m)
			}
		case k < 22:
			m := pick(rng, macs)
			ip := pick(rng, lanIPs)
			if rng.Chance(10) {
				ip = pick(rng, anyIPs)
			}
			toks = append(toks, "S,"+m+","+ip)
			if !hunted[m] {
				hunted[m] = true
				toks = append(toks, "W,"+strconv.Itoa(nloops)+",000000000000")
				nloops++
			}
		case k < 34:
			m := pick(rng, macs)
			toks = append(toks, "T,"+m)
			delete(hunted, m)
		case k < 42:
			o := pick(rng, []string{ipA, ipB, ipC, ipRouter, ipOff, "-"})
			toks = append(toks, "O,"+pick(rng, macs)+","+o)
		case k < 45:
			// the DHCP confirmation through the real session (client online, offline or unknown at this point)
			toks = append(toks, "U,"+pick(rng, macs)+","+pick(rng, []string{ipA, ipB, ipC}))
		case k < 46 && rng.Chance(50):
			// the real DHCP server on the same session (never directly followed by an O / U token)
			m := pick(rng, macs)
			toks = append(toks, "@DH,"+m+pick(rng, []string{"", "", ",D"}), "R,1,"+m+","+m+","+ipZero+",000000000000,"+pick(rng, lanIPs))
		case k < 46:
			toks = append(toks, "@PG,"+pick(rng, []string{"6", "6", "70"}))
		case k < 49:
			toks = append(toks, "C")
		case k < 52:
			toks = append(toks, "SI")
		case k < 56:
			toks = append(toks, "F,"+strconv.Itoa(rng.Pick(0, 0, 1, 1, 2, 3)))
		case k < 64:
			toks = append(toks, genRaw(rng))
		case k < 72:
			toks = append(toks, genAPI(rng))
		default:
			toks = append(toks, genRx(rng))
		}
	}
	return toks
}

// exhaustive: every sequence of the given depth over a small alphabet of calls and packets (two MACs on
// one IPv4 address, one offer, one refused write); W tokens are inserted after every StartHunt that starts a loop
func genExhaustive(depth int, emit func([]string)) {
	m1, m2 := macs[0], macs[1]
	alpha := []string{
		"S," + m1 + "," + ipA, "S," + m2 + "," + ipA, "T," + m1, "T," + m2, "C",
		"R,1," + m1 + "," + m1 + "," + ipA + ",000000000000," + ipRouter,
		"R,1," + m2 + "," + m2 + "," + ipB + ",000000000000," + ipRouter,
		"O," + m1 + "," + ipA,
		"R,1," + m1 + "," + m1 + "," + ipZero + ",000000000000," + ipB,
		"F,1",
		"F,0",
	}
	idx := make([]int, depth)
	for {
		var toks []string
		hunted := map[string]bool{}
		nloops := 0
		for _, k := range idx {
			t := alpha[k]
			toks = append(toks, t)
			f := strings.Split(t, ",")
			switch f[0] {
			case "S":
				if !hunted[f[1]] {
					hunted[f[1]] = true
					toks = append(toks, "W,"+strconv.Itoa(nloops)+",000000000000")
					nloops++
				}
			case "T":
				delete(hunted, f[1])
			}
		}
		emit(toks)
		i := depth - 1
		for i >= 0 {
			idx[i]++
			if idx[i] < len(alpha) {
				break
			}
			idx[i] = 0
			i--
		}
		if i < 0 {
			return
		}
	}
}

// runCase executes a script and records it (tokens with the observed hints, "@" tokens kept).
// expandW replaces the generators' shorthand "W,i,x" (one loop iteration) by its three events.
func expandW(script []string) []string {
	var out []string
	for _, t := range script {
		if strings.HasPrefix(t, "W,") {
			f := strings.Split(t, ",")
			out = append(out, "L,"+f[1], "K,"+f[1], "D,"+f[1]+",000000000000")
		} else {
			out = append(out, t)
		}
	}
	return out
}

func runCase(r *lib.Run, script []string, tries int) result {
	script = expandW(script)
	var res result
	for i := 0; i < tries; i++ {
		res = execScript(script)
		if !res.suspicious {
			break
		}
		r.Stat("retry.suspicious-timing", 1)
		for _, w := range strings.Fields(res.why) {
			r.Stat("retry.why."+w, 1)
		}
	}
	if res.suspicious && strings.TrimSpace(res.why) != "" && strings.Trim(res.why, "stal ") == "" {
		// every attempt hit a scheduling stall and nothing else was odd: the machine, not the handler, was
		// observed; the case is dropped (and counted) rather than compared
		r.Stat("dropped.persistent-stall", 1)
		return res
	}
	r.Case("seq", res.toks, res.obs)
	return res
}

// ---------------------------------------------------------------- timed scenarios

func sortedKeys(m map[string]string) []string {
	var ks []string
	for x := range m {
		ks = append(ks, x)
	}
	sort.Strings(ks)
	return ks
}

type sched struct {
	at  int
	tok []string
}

// genTimed builds a schedule over [cycles] ticker periods. Loops are started on phase slots 500 ms
// apart inside [0,3000] of a period; every other call happens inside [3800,5400], far from any tick.
// Every started loop gets a W token at each of its ticks (terminated loops must stay silent).
func genTimed(rng *lib.Rand, cycles int, flavour int) []string {
	type lp struct{ phase, born int }
	var evs []sched
	var loops []lp
	hunted := map[string]string{}
	slotsFree := []int{0, 500, 1000, 1500, 2000, 2500, 3000}
	closedAt := -1
	takeSlot := func() int {
		if len(slotsFree) == 0 {
			return -1
		}
		i := rng.Intn(len(slotsFree))
		s := slotsFree[i]
		slotsFree = append(slotsFree[:i], slotsFree[i+1:]...)
		return s
	}
	for c := 0; c < cycles; c++ {
		base := c * period
		// ticks of the loops started in earlier cycles
		for i, l := range loops {
			if l.born < c {
				evs = append(evs, sched{base + l.phase - 150, []string{"W," + strconv.Itoa(i) + ",000000000000"}})
			}
		}
		// new hunts on free slots
		nNew := 0
		switch {
		case c == 0:
			nNew = 2 + rng.Intn(3)
		case c < cycles-1:
			nNew = rng.Intn(3)
		}
		var slots []int
		for k := 0; k < nNew; k++ {
			if s := takeSlot(); s >= 0 {
				slots = append(slots, s)
			}
		}
		sort.Ints(slots) // loop indices follow the order in which StartHunt is executed
		for _, s := range slots {
			var m string
			for _, x := range macs {
				if _, h := hunted[x]; !h && (m == "" || rng.Bool()) {
					m = x
				}
			}
			if m == "" {
				break
			}
			ip := pick(rng, lanIPs)
			if flavour == 1 && len(hunted) > 0 && rng.Chance(70) {
				ip = hunted[sortedKeys(hunted)[0]] // share the IPv4 address of a hunted MAC (#27)
			}
			hunted[m] = ip
			grp := []string{"S," + m + "," + ip, "W," + strconv.Itoa(len(loops)) + ",000000000000"}
			if flavour == 4 {
				// the connection refuses the first announcement of this hunt and recovers right after: the only forged
				// frames the target gets are spoof replies of ProcessPacket; StopHunt must still be undone at the tick
				grp = []string{"F,1", grp[0], grp[1], "F,0", "R,1," + m + "," + m + "," + ip + ",000000000000," + ipRouter}
			}
			evs = append(evs, sched{base + s, grp})
			loops = append(loops, lp{s, c})
		}
		if c == cycles-1 {
			break
		}
		// call window
		t := base + 3800
		ncalls := 3 + rng.Intn(6)
		for k := 0; k < ncalls && t < base+5400; k++ {
			var tok []string
			switch q := rng.Intn(100); {
			case q >= 50 && q < 70 && flavour == 4 && len(hunted) > 0:
				x := sortedKeys(hunted)[rng.Intn(len(hunted))] // the hunted host asks for the router: forged reply
				tok = []string{"R,1," + x + "," + x + "," + hunted[x] + ",000000000000," + ipRouter}
			case q >= 70 && q < 80 && flavour == 4:
				tok = []string{"F," + strconv.Itoa(rng.Pick(1, 1, 0))}
			case q >= 50 && q < 64 && flavour == 3:
				tok = []string{"F," + strconv.Itoa(rng.Pick(0, 1, 1, 2))}
			case q < 35 && len(hunted) > 0:
				ks := sortedKeys(hunted)
				m := ks[rng.Intn(len(ks))]
				delete(hunted, m)
				tok = []string{"T," + m}
			case q < 42:
				tok = []string{"T," + pick(rng, macs)}
				delete(hunted, tok[0][2:])
			case q < 50 && len(hunted) > 0:
				x := sortedKeys(hunted)[0] // StartHunt of a hunted MAC: no new loop
				tok = []string{"S," + x + "," + hunted[x]}
			case q < 60:
				tok = []string{"O," + pick(rng, macs) + "," + pick(rng, []string{ipA, ipB, ipRouter, "-"})}
			case q < 72:
				tok = []string{genAPI(rng)}
				if strings.HasPrefix(tok[0], "AH") {
					tok = []string{"AR," + ipA} // WhoIs sleeps up to 300 ms: keep it out of the schedule
				}
			case q < 63 && flavour == 2 && closedAt < 0:
				tok = []string{"C"}
				for i := range loops {
					tok = append(tok, "W,"+strconv.Itoa(i)+",000000000000")
				}
				closedAt = t
			default:
				tok = []string{genRx(rng)}
			}
			evs = append(evs, sched{t, tok})
			t += 100 + rng.Intn(200)
		}
	}
	sort.SliceStable(evs, func(i, j int) bool { return evs[i].at < evs[j].at })
	var toks []string
	for _, e := range evs {
		at := e.at
		if at < 0 {
			at = 0
		}
		toks = append(toks, "@"+strconv.Itoa(at))
		toks = append(toks, e.tok...)
	}
	return toks
}

// ---------------------------------------------------------------- directed cases

func directed() [][]string {
	m1, m2, m3 := macs[0], macs[1], macs[2]
	who := func(m, sip string) string { return "R,1," + m + "," + m + "," + sip + ",000000000000," + ipRouter }
	probe := func(m, tip string) string { return "R,1," + m + "," + m + "," + ipZero + ",000000000000," + tip }
	return [][]string{
		// first announcement, spoof reply to a hunted host, none to others
		{"S," + m1 + "," + ipA, "W,0,0", who(m1, ipA), who(m2, ipB), "T," + m1, who(m1, ipA)},
		// idempotent StartHunt
		{"S," + m1 + "," + ipA, "W,0,0", "S," + m1 + "," + ipA, "S," + m1 + "," + ipB, who(m1, ipA)},
		// probe reject: offer differs and target in LAN / equal / off LAN / no offer / cleared
		{"O," + m3 + "," + ipA, probe(m3, ipB), probe(m3, ipA), probe(m3, ipOff), probe(m2, ipB), "O," + m3 + ",-", probe(m3, ipB)},
		// probe-reject at the boundary of the home LAN 192.168.0.0/24 (offer .2): network address, broadcast address,
		// first, last, one below the network, one above the broadcast address; the offered address itself
		{"O," + m3 + "," + ipA, probe(m3, "c0a80000"), probe(m3, "c0a800ff"), probe(m3, "c0a80001"), probe(m3, "c0a800fe"),
			probe(m3, "c0a7ffff"), probe(m3, "c0a80100"), probe(m3, ipA)},
		// whose offer: none for this MAC (another MAC holds one), an offer that was withdrawn / expired, one renewed
		// with the probed address, one renewed with another address
		{"O," + m2 + "," + ipA, probe(m3, ipB), "O," + m3 + "," + ipA, probe(m3, ipB), "O," + m3 + ",-", probe(m3, ipB),
			"O," + m3 + "," + ipB, probe(m3, ipB), "O," + m3 + "," + ipC, probe(m3, ipB), probe(m2, ipA), probe(m2, ipB)},
		// the offer state produced by the real session API in every order, client unknown / online (sighted) / offline
		// (purged to offline) / deleted: SetDHCPv4IPOffer (O), DHCPv4Update (U), frame sighting (who), purge (@PG)
		// unknown client: offer A, confirmed B: its probe for B passes, for C is rejected (offer B outstanding)
		{"O," + m3 + "," + ipA, "U," + m3 + "," + ipB, probe(m3, ipB), probe(m3, ipC)},
		// online at B (sighted), offered A, confirmed B while online: the probe for B must pass
		{who(m3, ipB), "O," + m3 + "," + ipA, probe(m3, ipB), "U," + m3 + "," + ipB, probe(m3, ipB), probe(m3, ipA), probe(m3, ipC)},
		// the same with the confirmation first, and with the client offline / deleted in between
		{who(m3, ipB), "U," + m3 + "," + ipB, "O," + m3 + "," + ipA, probe(m3, ipB), probe(m3, ipA)},
		{who(m3, ipB), "O," + m3 + "," + ipA, "@PG,6", probe(m3, ipB), "U," + m3 + "," + ipB, probe(m3, ipB), probe(m3, ipA)},
		{who(m3, ipB), "O," + m3 + "," + ipA, "@PG,6", "@PG,70", probe(m3, ipB), "U," + m3 + "," + ipB, probe(m3, ipB), who(m3, ipB), probe(m3, ipC)},
		{who(m3, ipB), "U," + m3 + "," + ipB, "@PG,6", "O," + m3 + "," + ipA, who(m3, ipB), "U," + m3 + "," + ipB, probe(m3, ipB), "U," + m3 + "," + ipC, probe(m3, ipB), probe(m3, ipC)},
		// two clients: m2 takes over m3's address by confirmation; each MAC's offer is its own
		{who(m3, ipB), who(m2, ipA), "O," + m3 + "," + ipC, "O," + m2 + "," + ipC, "U," + m2 + "," + ipB, probe(m2, ipB), probe(m3, ipB), "U," + m3 + "," + ipA, probe(m3, ipA), probe(m2, ipA)},
		// a hunted client is confirmed while online: spoof replies go on, its probe for the confirmed address passes
		{"S," + m1 + "," + ipA, "W,0,0", who(m1, ipA), "O," + m1 + "," + ipB, "U," + m1 + "," + ipA, probe(m1, ipA), who(m1, ipA), probe(m1, ipB)},
		// the offer produced by the real DHCP server (dhcp4_spoofer) on the same session: OFFER then ACK off the wire;
		// the client's probe for the address it was given passes, a probe for another one is rejected; a client
		// that was online elsewhere, or holds an API offer, or is hunted, goes through the same exchange
		{"@DH," + m3, probe(m3, ipA), probe(m3, ipB), probe(m3, ipC), probe(m3, "c0a80081"), probe(m3, "c0a80082")},
		{"@DH," + m3 + ",D", probe(m3, ipA), probe(m3, ipB), "@DH," + m3, probe(m3, ipA), probe(m3, ipB)},
		{who(m3, ipB), "O," + m3 + "," + ipC, "@DH," + m3, probe(m3, ipA), probe(m3, ipB), probe(m3, ipC), "@PG,6", probe(m3, ipA), probe(m3, ipB)},
		{who(m2, ipA), "@DH," + m2 + ",D", probe(m2, ipA), "U," + m2 + "," + ipA, probe(m2, ipA), probe(m2, ipB), "@DH," + m2, probe(m2, ipA), probe(m2, ipB)},
		{"S," + m1 + "," + ipA, "W,0,0", "@DH," + m1, who(m1, ipA), probe(m1, ipA), probe(m1, ipB), "@DH," + m3, probe(m3, ipA), probe(m3, ipB), probe(m1, ipB)},
		// K1: probe for the router's address from an unhunted MAC with another offer
		{"O," + m3 + "," + ipA, probe(m3, ipRouter)},
		// K3: spoof reply after Close
		{"S," + m1 + "," + ipA, "W,0,0", "C", "W,0,0", who(m1, ipA)},
		// Close first: StartHunt still registers, the loop dies silently
		{"C", "S," + m1 + "," + ipA, "W,0,0", "T," + m1, "S," + m1 + "," + ipA, "W,1,0"},
		// invalid StartHunt
		{"SI", "SI", "SI", "SI", who(m1, ipA)},
		// public send API: ordinary calls, and the caller's own forgery (AnnounceTo / RequestRaw / Reply with our MAC + router IP)
		{"AR," + ipA, "AT," + m1 + "," + ipB, "AP," + ipA, "AA," + m1 + "," + ipA, "AA," + m2 + "," + ipRouter,
			"AW," + m2 + ",005555555555," + ipRouter + ",ffffffffffff," + ipRouter, "AY," + m2 + ",005555555555," + ipRouter + "," + m2 + "," + ipB,
			"AW," + m2 + ",006666666666," + ipRouter + ",006666666666," + ipRouter, "AH," + ipA + ",0", who(m3, ipC), "AH," + ipC + ",0"},
		// unusable arguments: every public send call refuses, nothing is written (after a caller-forged announcement filled the pooled buffer)
		{"AA," + m1 + "," + ipRouter, "AX", "AX", "AX", "AX", "AX", "AX", "AX", "AX", "AX", "AX", "AX", "AX", "AX", "AX", "AX", "AR," + ipA},
		// API calls still send after Close (the caller's call); the handler itself is silent
		{"S," + m1 + "," + ipA, "W,0,0", "C", "W,0,0", "AR," + ipA, "AA," + m1 + "," + ipRouter, who(m1, ipA)},
		// refused writes: first announcement, spoof reply, probe reject, API
		{"F,1", "S," + m1 + "," + ipA, "W,0,0", who(m1, ipA), "F,2", who(m1, ipA), "AR," + ipA, "AR," + ipA, "O," + m3 + "," + ipA, "F,1", probe(m3, ipB), probe(m3, ipB)},
		// raw frames: not ARP, truncated, bad header, padded valid request from a hunted MAC
		{"S," + m1 + "," + ipA, "W,0,0", "X,0800,4500001400000000", "X,0806,-", "X,0806,000108000604", "X,0806,0001080006040001020000000001c0a80002000000000000c0a800",
			"X,0806,0002080006040001020000000001c0a80002000000000000c0a8000b", "X,0806,0001080006040001020000000001c0a80002000000000000c0a8000b000000000000000000000000000000000000"},
	}
}

// scripted scenarios on the real ticker: StopHunt -> restore at the next tick -> silence; the shared-IP
// defect (K2); Close in the middle of a hunt
func directedTimed() [][]string {
	m1, m2 := macs[0], macs[1]
	who := func(m, sip string) string { return "R,1," + m + "," + m + "," + sip + ",000000000000," + ipRouter }
	return [][]string{
		{"@0", "S," + m1 + "," + ipA, "W,0,0", "@1000", "S," + m2 + "," + ipB, "W,1,0", "@3800", "T," + m1, "@4000", who(m1, ipA),
			"@5850", "W,0,0", "@6850", "W,1,0", "@9800", "C", "W,0,0", "W,1,0", "@10000", who(m2, ipB),
			"@11850", "W,0,0", "@12850", "W,1,0"},
		{"@0", "S," + m1 + "," + ipA, "W,0,0", "@500", "S," + m2 + "," + ipA, "W,1,0", "@3800", "T," + m1, "@4000", who(m1, ipA),
			"@5850", "W,0,0", "@6350", "W,1,0", "@9800", "T," + m2, "@11850", "W,0,0", "@12350", "W,1,0"},
		// send fault x the other source of forged packets: the first announcement is refused, the connection recovers, the
		// hunted host asks for the router and gets the forged reply, StopHunt: the tick must still restore (then silence)
		{"@0", "F,1", "S," + m1 + "," + ipA, "W,0,0", "F,0", "@3800", who(m1, ipA), "@4000", "T," + m1, "@5850", "W,0,0", "@11850", "W,0,0"},
		// ... the same with no forged frame at all before StopHunt: the restore is unconditional
		{"@0", "F,1", "S," + m1 + "," + ipA, "W,0,0", "F,0", "@3800", "T," + m1, "@5850", "W,0,0", "@11850", "W,0,0"},
		// ... every TICK announcement refused as well, a spoof reply in between, StopHunt after the second tick
		{"@0", "F,1", "S," + m1 + "," + ipA, "W,0,0", "@3800", "F,1", "@5850", "W,0,0", "@7000", "F,0", "@8000", who(m1, ipA),
			"@9800", "T," + m1, "@11850", "W,0,0", "@17850", "W,0,0"},
		// ... and Close instead of StopHunt: no restore, silence
		{"@0", "F,1", "S," + m1 + "," + ipA, "W,0,0", "F,0", "@3800", who(m1, ipA), "@4000", "C", "W,0,0", "@5850", "W,0,0"},
		// K4: the announcement of the tick at 6 s is refused; the loop must still spoof at 12 s and restore after StopHunt
		{"@0", "S," + m1 + "," + ipA, "W,0,0", "@3800", "F,1", "@5850", "W,0,0", "@7000", "F,0", "@11850", "W,0,0",
			"@15800", "T," + m1, "@17850", "W,0,0", "@18400", "S," + m1 + "," + ipA, "W,1,0"},
		{"@0", "S," + m1 + "," + ipA, "W,0,0", "@3800", "T," + m1, "@4000", "S," + m1 + "," + ipA, "W,1,0",
			"@5850", "W,0,0", "@9800", "T," + m1, "@9850", "W,1,0", "@11850", "W,0,0", "@12000", "W,1,0"},
	}
}

// scripts that stop the REAL handler at a write (@H ... @R ... @U) and let StopHunt / StartHunt / Close land
// between a decision and its write: the Lookup/Check/.../Send (RxArp/RxReply, ScanCheck/ScanSend) interleavings
// of the model, on the implementation. First element: the configuration token.
func directedHeld() [][]string {
	m1 := macs[0]
	std := stdCfg().tok()
	smallLAN := stdCfg()
	smallLAN.lan = netip.MustParsePrefix("192.168.0.8/29")
	who := func(m, sip string) string { return "R,1," + m + "," + m + "," + sip + ",000000000000," + ipRouter }
	s1 := "S," + m1 + "," + ipA
	return [][]string{
		// StopHunt while the first announcement is held: the frame already decided still leaves; restore at the tick
		{std, "@0", "@H", s1, "L,0", "K,0", "T," + m1, "@R", "D,0,0", "@U", "@5850", "W,0,0"},
		// Close while the announcement is held: that one frame leaves, then the loop ends silently
		{std, "@H", s1, "L,0", "K,0", "C", "@R", "D,0,0", "@U", "W,0,0", who(m1, ipA)},
		// StopHunt and StartHunt again while the announcement is held: a second loop, both frames leave
		{std, "@H", s1, "L,0", "K,0", "T," + m1, s1, "L,1", "K,1", "@R", "D,0,0", "@R", "D,1,0", "@U"},
		// StopHunt while the announcement of a TICK is held; restore at the next tick; then silence
		{std, "@0", s1, "W,0,0", "@5850", "@H", "L,0", "K,0", "T," + m1, "@R", "D,0,0", "@U", "@11850", "W,0,0", "@12400", "W,0,0"},
		// ProcessPacket: StopHunt / Close between the lookup of the sender and the write of the spoof reply
		{std, s1, "W,0,0", "@H", who(m1, ipA), "T," + m1, "@R", "RR,0", "@U", who(m1, ipA), "RR,0"},
		{std, s1, "W,0,0", "@H", who(m1, ipA), "C", "@R", "RR,0", "@U", who(m1, ipA), "RR,0"},
		// RECORDED FINDING (restore is not always the last frame): the spoof reply to m1's who-has-router is decided
		// under the lock and held inside WriteTo; StopHunt(m1); at the tick the loop's restore is written (released
		// first, @RL = newest writer); then the held forged reply is written AFTER the restoring packet
		{std, "@0", s1, "W,0,0", "@3800", "@H", who(m1, ipA), "T," + m1, "@5850", "L,0", "K,0", "@RL", "D,0,0", "@R", "RR,0", "@U",
			"@11850", "W,0,0"},
		// probe branch: the reject is decided on the offer read under the session's lock and held inside WriteTo; the
		// offer is then renewed WITH the probed address (no reject would be due any more) / the handler is closed:
		// the reject already decided is still written
		{std, "O," + macs[2] + "," + ipA, "@H", "R,1," + macs[2] + "," + macs[2] + "," + ipZero + ",000000000000," + ipB,
			"O," + macs[2] + "," + ipB, "@R", "RR,0", "@U", "R,1," + macs[2] + "," + macs[2] + "," + ipZero + ",000000000000," + ipB, "RR,0"},
		{std, "O," + macs[2] + "," + ipA, "@H", "R,1," + macs[2] + "," + macs[2] + "," + ipZero + ",000000000000," + ipB,
			"C", "@R", "RR,0", "@U"},
		// Scan: Close between the h.closed test and the write of a request: that request leaves, the scan ends
		{smallLAN.tok(), "@H", "AS", "SC,0", "C", "@R", "SS,0", "@U", "SC,0", "SS,0"},
	}
}

// many hunted hosts on one handler: n loops, half of them stopped before the first tick; every tick is one WN
// token (all loops wake within a few milliseconds of each other). Each stopped host must get its restoring packet
// at the FIRST tick after its StopHunt (the one-cycle bound per host), each hunted host its announcement at every
// tick, terminated loops stay silent.
func scaleScenario(n int) []string {
	toks := []string{stdCfg().tok(), "@0"}
	macOf := func(i int) string { return fmt.Sprintf("0200000001%02x", i) }
	for i := 0; i < n; i++ {
		toks = append(toks, "S,"+macOf(i)+","+fmt.Sprintf("c0a800%02x", 20+i%200), "W,"+strconv.Itoa(i)+",0")
	}
	toks = append(toks, "@3800")
	for i := 0; i < n; i += 2 {
		toks = append(toks, "T,"+macOf(i))
	}
	if n >= 2 {
		toks = append(toks, "R,1,"+macOf(1)+","+macOf(1)+",c0a80015,000000000000,"+ipRouter)
	}
	toks = append(toks, "@5850", "@WN,"+strconv.Itoa(n), "@9800")
	for i := 1; i < n; i += 4 {
		toks = append(toks, "T,"+macOf(i))
	}
	toks = append(toks, "@11850", "@WN,"+strconv.Itoa(n))
	return toks
}

func fixHints(toks []string) []string {
	out := make([]string, len(toks))
	for i, t := range toks {
		if strings.HasPrefix(t, "W,") {
			f := strings.Split(t, ",")
			if len(f[2]) != 12 {
				f[2] = "000000000000"
			}
			t = strings.Join(f, ",")
		}
		out[i] = t
	}
	return out
}

// ---------------------------------------------------------------- Go-side oracle: public send API with unusable arguments

// A call of the public send API with an address that is not IPv4 or a MAC that is not 6 bytes must fail
// without handing anything to the connection (and without a panic). Each deviation is reported as a viol record.
func oracleBadArgs(r *lib.Run) {
	session, conn := stdCfg().session()
	h, err := arp_spoofer.New(session)
	if err != nil {
		return
	}
	defer func() { h.Close(); go session.Close() }()
	m1, m2 := mac6(macs[0]), mac6(macs[1])
	good := packet.Addr{MAC: m1, IP: ip4(ipA)}
	bad := []struct {
		name string
		call func() error
	}{
		{"AnnounceTo(m2, netip.Addr{})", func() error { return h.AnnounceTo(m2, netip.Addr{}) }},
		{"AnnounceTo(m2, fe80::1)", func() error { return h.AnnounceTo(m2, netip.MustParseAddr("fe80::1")) }},
		{"Probe(netip.Addr{})", func() error { return h.Probe(netip.Addr{}) }},
		{"RequestRaw(m2, {m1, invalid}, good)", func() error { return h.RequestRaw(m2, packet.Addr{MAC: m1}, good) }},
		{"Reply(m2, good, {m1, ::ffff:192.168.0.2})", func() error {
			return h.Reply(m2, good, packet.Addr{MAC: m1, IP: netip.MustParseAddr("::ffff:192.168.0.2")})
		}},
		{"RequestRaw(nil, good, good)", func() error { return h.RequestRaw(nil, good, good) }},
		{"RequestRaw(m2, {nil MAC}, good)", func() error { return h.RequestRaw(m2, packet.Addr{IP: ip4(ipA)}, good) }},
		{"Reply(m2, good, {3-byte MAC})", func() error { return h.Reply(m2, good, packet.Addr{MAC: net.HardwareAddr{1, 2, 3}, IP: ip4(ipA)}) }},
		{"Request(netip.Addr{})", func() error { return h.Request(netip.Addr{}) }},
		{"RequestTo(m2, fe80::1)", func() error { return h.RequestTo(m2, netip.MustParseAddr("fe80::1")) }},
	}
	for _, b := range bad {
		// a caller-forged announcement first: whatever stays in the pooled buffer is the router binding
		h.AnnounceTo(m1, lib.RouterIP4)
		conn.Take()
		var cerr error
		panicked, _ := lib.Catch(func() { cerr = b.call() })
		fs := conn.Take()
		r.Stat("oracle.badargs", 1)
		switch {
		case panicked:
			r.Viol("send-api-short-mac-panics", "public send call "+b.name+" panics (MAC[:6] on a MAC shorter than 6 bytes)", "oracleBadArgs: "+b.name)
		case len(fs) > 0:
			r.Viol("send-api-invalid-address-sends-stale-bytes", "public send call "+b.name+" hands a frame to the connection although an address is unusable; the address bytes are whatever the pooled buffer held ("+showOut(fs)+")", "oracleBadArgs: "+b.name)
		case cerr == nil:
			r.Viol("send-api-invalid-argument-no-error", "public send call "+b.name+" returns nil", "oracleBadArgs: "+b.name)
		}
	}
}

// ---------------------------------------------------------------- main

func main() {
	arp_spoofer.Logger.SetLevel(fastlog.LevelError)
	packet.Logger.SetLevel(fastlog.LevelError)
	r := lib.Init()
	defer r.Close()
	rng := r.Rand()
	r.Register("seq", func(a []string) string {
		// the hints in the replayed line were produced by Go map order; retry until the run reproduces them
		var res result
		for i := 0; i < 20; i++ {
			res = execScript(a)
			if strings.Join(res.toks, " ") == strings.Join(a, " ") {
				break
			}
		}
		return res.obs
	})
	// source-derived constants: read from the Go source of this run's tree, compared with the model (srcarp,
	// srcops) and with the schedule constant of this harness (period)
	src := readSource()
	r.Register("srcarp", func(a []string) string {
		_, want := src.probePayload(len(lib.UnHex(a[0])))
		return want
	})
	r.Register("srcops", func(a []string) string {
		q, p := strconv.Itoa(src.opRequestRaw), strconv.Itoa(src.opRep)
		return strings.Join([]string{q, q, q, q, q, p, p, p}, " ")
	})
	if r.Replayed() {
		return
	}
	// An AST shape that cannot be resolved is a stat, never a violation; a resolved value that disagrees is a
	// tie-only alarm (key prefix "source-": props/C13.json tie_viol_prefixes). The ticker period is also measured
	// behaviourally by the timed scenarios; the AST value is a cross-check.
	if src.err != "" {
		r.Stat("source.unresolved", 1)
		r.Sample("source-derived constants not resolved by go/ast: " + src.err)
	}
	if src.tickerMs >= 0 && src.tickerMs != period {
		r.Viol("source-ticker-period", fmt.Sprintf("the spoof loop's ticker period in the source is %d ms; the schedule of the timed scenarios and docs assume %d ms", src.tickerMs, period), "readSource")
	}
	if src.opRequestRaw >= 0 && src.opRep >= 0 && src.opRequest >= 0 && src.opReply >= 0 &&
		(src.opRequest != src.opRequestRaw || src.opReply != src.opRep) {
		r.Viol("source-arp-operation", fmt.Sprintf("RequestRaw encodes operation %d (ARPOperationRequest = %d), reply encodes %d (ARPOperationReply = %d)", src.opRequestRaw, src.opRequest, src.opRep, src.opReply), "readSource")
	}
	offsetsResolved := src.arpLen >= 0
	for _, g := range []string{"HType", "Proto", "HLen", "PLen", "Operation", "SrcMAC", "SrcIP", "DstMAC", "DstIP"} {
		if _, ok := src.off[g]; !ok {
			offsetsResolved = false
		}
	}
	if src.htype == 0 || src.proto == 0 || src.hlen == 0 || src.plen == 0 {
		offsetsResolved = false
	}
	if offsetsResolved {
		for _, n := range []int{src.arpLen, src.arpLen - 1, src.arpLen + 18, 0} {
			if n >= 0 {
				pl, _ := src.probePayload(n)
				r.Do("srcarp", lib.Hex(pl))
			}
		}
	} else {
		r.Stat("source.unresolved", 1)
	}
	if src.opRequestRaw >= 0 && src.opRep >= 0 {
		r.Do("srcops")
	}
	r.Stat("source.ticker-ms", int64(src.tickerMs))
	std := stdCfg().tok()
	oracleBadArgs(r)

	var wg sync.WaitGroup
	// timed scenarios run alongside everything else (they mostly sleep)
	nTimed, cycles := 24, 3
	if r.Thorough() {
		nTimed, cycles = 120, 5
	}
	for i := 0; i < nTimed; i++ {
		script := append([]string{std}, genTimed(rng.Fork(), cycles, i%5)...)
		wg.Add(1)
		go func(script []string) {
			defer wg.Done()
			res := runCase(r, script, 4)
			r.Stat("class.timed", 1)
			if res.suspicious {
				r.Stat("timed.suspicious-after-retries", 1)
			}
		}(script)
	}

	for _, d := range directedTimed() {
		script := append([]string{std}, fixHints(d)...)
		wg.Add(1)
		go func(script []string) {
			defer wg.Done()
			runCase(r, script, 4)
			r.Stat("class.timed-directed", 1)
		}(script)
	}
	for _, n := range []int{1, 2, 3, 10, 50} {
		wg.Add(1)
		go func(script []string) {
			defer wg.Done()
			runCase(r, script, 4)
			r.Stat("class.scale", 1)
		}(scaleScenario(n))
	}
	for _, d := range directedHeld() {
		wg.Add(1)
		go func(script []string) {
			defer wg.Done()
			runCase(r, fixHints(script), 4)
			r.Stat("class.held", 1)
		}(d)
	}
	for _, d := range directed() {
		runCase(r, append([]string{std}, fixHints(d)...), 1)
		r.Stat("class.directed", 1)
	}
	// corpus: the witnesses of the repaired defects and past disagreements ("seq ..." lines)
	if dir := os.Getenv("VERIF_CORPUS"); dir != "" {
		if ents, err := os.ReadDir(dir); err == nil {
			for _, e := range ents {
				b, err := os.ReadFile(dir + "/" + e.Name())
				if err != nil {
					continue
				}
				for _, l := range strings.Split(string(b), "\n") {
					f := strings.Fields(l)
					if len(f) < 2 || f[0] != "seq" {
						continue
					}
					timedLine := false
					for _, t := range f {
						if strings.HasPrefix(t, "@") {
							timedLine = true
						}
					}
					if timedLine {
						wg.Add(1)
						go func(script []string) {
							defer wg.Done()
							runCase(r, script, 3)
							r.Stat("class.corpus", 1)
						}(f[1:])
					} else {
						runCase(r, f[1:], 1)
						r.Stat("class.corpus", 1)
					}
				}
			}
		}
	}

	// immediate-effect sequences, in parallel workers
	nImm := 1500
	if r.Thorough() {
		nImm = 20000
	}
	jobs := make(chan []string, 64)
	var wg2 sync.WaitGroup
	for w := 0; w < 12; w++ {
		wg2.Add(1)
		go func() {
			defer wg2.Done()
			for s := range jobs {
				res := runCase(r, s, 3)
				r.Stat("class.immediate", 1)
				r.Stat("env.offer-changed-by-parse", int64(res.envOffers))
				r.Stat("env.offer-field-without-dhcp-event", int64(res.staleOffers))
				r.Stat("env.dhcp-server-offer-on-the-wire", int64(res.dhcpOffers))
				r.Stat("env.dhcp-server-refused-configuration", int64(res.dhcpNone))
				r.Stat("env.dhcp-server-ack-on-the-wire", int64(res.dhcpAcks))
			}
		}()
	}
	alts := altCfgs()
	for i := 0; i < nImm; i++ {
		n := 3 + rng.Intn(40)
		ct := std
		if i%4 == 3 {
			ct = alts[(i/4)%len(alts)].tok()
		}
		script := genImmediate(rng.Fork(), n)
		if cc, ok := parseCfg(ct); ok && cc.lan.Bits() >= 28 {
			// Scan walks the whole LAN with 8 ms between requests: only on small ones
			at := rng.Intn(len(script) + 1)
			for at < len(script) && strings.HasPrefix(script[at], "W,") {
				at++ // not between a StartHunt and the first iteration of its loop
			}
			script = append(script[:at:at], append([]string{"AS"}, script[at:]...)...)
		}
		jobs <- append([]string{ct}, script...)
	}
	if r.Thorough() {
		genExhaustive(5, func(toks []string) { jobs <- append([]string{std}, toks...) })
	} else {
		genExhaustive(2, func(toks []string) { jobs <- append([]string{std}, toks...) })
	}
	close(jobs)
	wg2.Wait()
	wg.Wait()
	if os.Getenv("C13_DEBUG") != "" {
		fmt.Fprintln(os.Stderr, "done")
	}
}
