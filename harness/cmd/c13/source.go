// Source-derived constants of C13 (round 7): read from the Go source of $VERIF_REPO on every run with go/ast,
// never copied by hand.  Robust against renames of locals/receivers and reordering of declarations: things are
// found by what they ARE (a method of type ARP returning a slice/index of its receiver; a time.NewTicker call in
// the function that also calls AnnounceTo; the operation argument of the EncodeARP call in RequestRaw / reply).
package main

import (
	"fmt"
	"go/ast"
	"go/parser"
	"go/token"
	"os"
	"path/filepath"
	"strconv"
	"strings"
	"syscall"
)

type srcConsts struct {
	arpLen              int
	opRequest, opReply  int
	htype, proto        int // values IsValid demands
	hlen, plen          int
	off                 map[string][2]int // getter -> [lo, hi) ; single index i -> [i, i+1)
	tickerMs            int
	opRequestRaw, opRep int // operation passed to EncodeARP in RequestRaw / reply
	err                 string
}

func repoDir() string {
	if d := os.Getenv("VERIF_REPO"); d != "" {
		return d
	}
	return "/repo"
}

// evalInt evaluates integer constant expressions made of literals, + - * / ( ), named constants of the file and
// time.Second / time.Millisecond (as milliseconds), syscall.ETH_P_*.
func evalInt(e ast.Expr, names map[string]ast.Expr) (int, bool) {
	switch x := e.(type) {
	case *ast.BasicLit:
		v, err := strconv.ParseInt(x.Value, 0, 64)
		return int(v), err == nil
	case *ast.ParenExpr:
		return evalInt(x.X, names)
	case *ast.Ident:
		if d, ok := names[x.Name]; ok {
			return evalInt(d, names)
		}
	case *ast.SelectorExpr:
		if p, ok := x.X.(*ast.Ident); ok {
			switch p.Name + "." + x.Sel.Name {
			case "time.Second":
				return 1000, true
			case "time.Millisecond":
				return 1, true
			case "time.Minute":
				return 60000, true
			case "syscall.ETH_P_IP":
				return syscall.ETH_P_IP, true
			case "syscall.ETH_P_ARP":
				return syscall.ETH_P_ARP, true
			}
			if p.Name == "packet" {
				if d, ok := names[x.Sel.Name]; ok {
					return evalInt(d, names)
				}
			}
		}
	case *ast.BinaryExpr:
		a, ok1 := evalInt(x.X, names)
		b, ok2 := evalInt(x.Y, names)
		if ok1 && ok2 {
			switch x.Op {
			case token.ADD:
				return a + b, true
			case token.SUB:
				return a - b, true
			case token.MUL:
				return a * b, true
			case token.QUO:
				if b != 0 {
					return a / b, true
				}
			}
		}
	case *ast.CallExpr: // conversions such as time.Duration(6)
		if len(x.Args) == 1 {
			return evalInt(x.Args[0], names)
		}
	}
	return 0, false
}

func parseDirFiles(dir string) (*token.FileSet, []*ast.File) {
	fset := token.NewFileSet()
	var files []*ast.File
	ms, _ := filepath.Glob(filepath.Join(dir, "*.go"))
	for _, m := range ms {
		if strings.HasSuffix(m, "_test.go") {
			continue
		}
		if f, err := parser.ParseFile(fset, m, nil, 0); err == nil {
			files = append(files, f)
		}
	}
	return fset, files
}

func constTable(files []*ast.File) map[string]ast.Expr {
	names := map[string]ast.Expr{}
	for _, f := range files {
		for _, d := range f.Decls {
			g, ok := d.(*ast.GenDecl)
			if !ok || g.Tok != token.CONST {
				continue
			}
			for _, sp := range g.Specs {
				vs := sp.(*ast.ValueSpec)
				for i, n := range vs.Names {
					if i < len(vs.Values) {
						names[n.Name] = vs.Values[i]
					}
				}
			}
		}
	}
	return names
}

func readSource() (sc srcConsts) {
	sc.off = map[string][2]int{}
	fail := func(f string, a ...interface{}) { sc.err += fmt.Sprintf(f, a...) + "; " }
	// ---- package packet: layer_arp.go (found by the type named ARP, wherever it is declared)
	_, pfiles := parseDirFiles(repoDir())
	names := constTable(pfiles)
	get := func(n string) int {
		if e, ok := names[n]; ok {
			if v, ok := evalInt(e, names); ok {
				return v
			}
		}
		fail("constant %s not found", n)
		return -1
	}
	sc.arpLen, sc.opRequest, sc.opReply = get("ARPLen"), get("ARPOperationRequest"), get("ARPOperationReply")
	for _, f := range pfiles {
		for _, d := range f.Decls {
			fd, ok := d.(*ast.FuncDecl)
			if !ok || fd.Recv == nil || len(fd.Recv.List) != 1 || fd.Body == nil {
				continue
			}
			if t, ok := fd.Recv.List[0].Type.(*ast.Ident); !ok || t.Name != "ARP" || len(fd.Recv.List[0].Names) != 1 {
				continue
			}
			recv := fd.Recv.List[0].Names[0].Name
			switch fd.Name.Name {
			case "HType", "Proto", "HLen", "PLen", "Operation", "SrcMAC", "SrcIP", "DstMAC", "DstIP":
				ast.Inspect(fd.Body, func(n ast.Node) bool {
					if _, done := sc.off[fd.Name.Name]; done {
						return false
					}
					switch x := n.(type) {
					case *ast.SliceExpr:
						if id, ok := x.X.(*ast.Ident); ok && id.Name == recv && x.Low != nil && x.High != nil {
							lo, ok1 := evalInt(x.Low, names)
							hi, ok2 := evalInt(x.High, names)
							if ok1 && ok2 {
								sc.off[fd.Name.Name] = [2]int{lo, hi}
							}
						}
					case *ast.IndexExpr:
						if id, ok := x.X.(*ast.Ident); ok && id.Name == recv {
							if i, ok := evalInt(x.Index, names); ok {
								sc.off[fd.Name.Name] = [2]int{i, i + 1}
							}
						}
					}
					return true
				})
			case "IsValid":
				// "b.X() != v" comparisons
				ast.Inspect(fd.Body, func(n ast.Node) bool {
					be, ok := n.(*ast.BinaryExpr)
					if !ok || be.Op != token.NEQ {
						return true
					}
					call, ok := be.X.(*ast.CallExpr)
					if !ok {
						return true
					}
					sel, ok := call.Fun.(*ast.SelectorExpr)
					if !ok {
						return true
					}
					if v, ok := evalInt(be.Y, names); ok {
						switch sel.Sel.Name {
						case "HType":
							sc.htype = v
						case "Proto":
							sc.proto = v
						case "HLen":
							sc.hlen = v
						case "PLen":
							sc.plen = v
						}
					}
					return true
				})
			}
		}
	}
	for _, g := range []string{"HType", "Proto", "HLen", "PLen", "Operation", "SrcMAC", "SrcIP", "DstMAC", "DstIP"} {
		if _, ok := sc.off[g]; !ok {
			fail("offset of ARP.%s not found", g)
		}
	}
	// ---- package arp_spoofer
	_, hfiles := parseDirFiles(filepath.Join(repoDir(), "handlers", "arp_spoofer"))
	for k, v := range constTable(hfiles) { // named constants of the handler package (e.g. a named ticker period)
		if _, dup := names[k]; !dup {
			names[k] = v
		}
	}
	sc.tickerMs, sc.opRequestRaw, sc.opRep = -1, -1, -1
	for _, f := range hfiles {
		for _, d := range f.Decls {
			fd, ok := d.(*ast.FuncDecl)
			if !ok || fd.Body == nil {
				continue
			}
			var ticker ast.Expr
			announces := false
			var encOp ast.Expr
			locals := map[string]ast.Expr{} // x := <expr> / var x = <expr> inside this function
			ast.Inspect(fd.Body, func(n ast.Node) bool {
				if as, ok := n.(*ast.AssignStmt); ok && len(as.Lhs) == len(as.Rhs) {
					for i, l := range as.Lhs {
						if id, ok := l.(*ast.Ident); ok {
							locals[id.Name] = as.Rhs[i]
						}
					}
				}
				if vs, ok := n.(*ast.ValueSpec); ok {
					for i, id := range vs.Names {
						if i < len(vs.Values) {
							locals[id.Name] = vs.Values[i]
						}
					}
				}
				return true
			})
			withLocals := map[string]ast.Expr{}
			for k, v := range names {
				withLocals[k] = v
			}
			for k, v := range locals {
				if _, dup := withLocals[k]; !dup {
					withLocals[k] = v
				}
			}
			ast.Inspect(fd.Body, func(n ast.Node) bool {
				call, ok := n.(*ast.CallExpr)
				if !ok {
					return true
				}
				if sel, ok := call.Fun.(*ast.SelectorExpr); ok {
					if p, ok := sel.X.(*ast.Ident); ok && p.Name == "time" && sel.Sel.Name == "NewTicker" && len(call.Args) == 1 {
						ticker = call.Args[0]
					}
					if sel.Sel.Name == "AnnounceTo" {
						announces = true
					}
					if sel.Sel.Name == "EncodeARP" && len(call.Args) == 4 {
						encOp = call.Args[1]
					}
				}
				return true
			})
			if ticker != nil && announces {
				if v, ok := evalInt(ticker, withLocals); ok {
					sc.tickerMs = v
				}
			}
			if encOp != nil {
				if v, ok := evalInt(encOp, withLocals); ok {
					switch fd.Name.Name {
					case "RequestRaw":
						sc.opRequestRaw = v
					case "reply":
						sc.opRep = v
					}
				}
			}
		}
	}
	if sc.tickerMs < 0 {
		fail("ticker period of the spoof loop not found")
	}
	if sc.opRequestRaw < 0 || sc.opRep < 0 {
		fail("operation argument of EncodeARP in RequestRaw / reply not found")
	}
	return sc
}

// probePayload builds an ARP payload of the source's ARPLen bytes with the header values IsValid demands at the
// getters' offsets and distinct bytes elsewhere; want is what the source's getter offsets read off it.
func (sc srcConsts) probePayload(n int) (payload []byte, want string) {
	b := make([]byte, n)
	for i := range b {
		b[i] = byte(0x40 + i)
	}
	put := func(g string, v int) {
		o := sc.off[g]
		for k := o[1] - 1; k >= o[0]; k-- {
			if k < len(b) {
				b[k] = byte(v)
			}
			v >>= 8
		}
	}
	put("HType", sc.htype)
	put("Proto", sc.proto)
	put("HLen", sc.hlen)
	put("PLen", sc.plen)
	fld := func(g string) string {
		o := sc.off[g]
		if o[1] > len(b) {
			return "short"
		}
		return fmt.Sprintf("%x", b[o[0]:o[1]])
	}
	if n < sc.arpLen {
		return b, "invalid"
	}
	o := sc.off["Operation"]
	op := 0
	for k := o[0]; k < o[1]; k++ {
		op = op<<8 | int(b[k])
	}
	return b, fmt.Sprintf("valid %d.%s.%s.%s.%s", op, fld("SrcMAC"), fld("SrcIP"), fld("DstMAC"), fld("DstIP"))
}
