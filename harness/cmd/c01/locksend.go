package main

// Source-derived table: which mutexes are lexically held at a call that can reach Conn.WriteTo, in package packet
// (go/parser + go/ast over $VERIF_REPO/*.go, no test files, no verif hooks).  Parse takes the session RWMutex, the
// MACEntry row locks and the ping-table mutex; a sender that holds one of them across its I/O makes Parse wait for
// the network ("returns without blocking").  Rows: "<function>:<lock expression>><callee>", sorted.
//
//   may-write functions: those that call x.WriteTo(..) and, transitively, their callers (by name);
//   held locks: X.Lock()/X.RLock() statements seen so far in the enclosing blocks, minus X.Unlock()/X.RUnlock()
//   (a deferred unlock keeps the lock to the end); a nested block starts from the state at its head and its changes
//   do not flow out;
//   callees: WriteTo itself, a may-write function, or a function-typed parameter of the enclosing function (a send
//   callback invoked under the lock).
//
// CONC (cmd/c09/static.go) owns the full lock-order templates; it has no send-site table, so this one is kept here,
// deliberately small and lexical.  An unrecognised shape is a stat, not a case.

import (
	"go/ast"
	"go/parser"
	"go/token"
	"os"
	"path/filepath"
	"sort"
	"strings"
)

func lockExprStr(e ast.Expr) string {
	switch x := e.(type) {
	case *ast.Ident:
		return x.Name
	case *ast.SelectorExpr:
		return lockExprStr(x.X) + "." + x.Sel.Name
	case *ast.CallExpr:
		return lockExprStr(x.Fun) + "()"
	case *ast.StarExpr:
		return lockExprStr(x.X)
	case *ast.UnaryExpr:
		return lockExprStr(x.X)
	case *ast.ParenExpr:
		return lockExprStr(x.X)
	case *ast.IndexExpr:
		return lockExprStr(x.X) + "[]"
	}
	return "?"
}

func calleeName(c *ast.CallExpr) string {
	switch f := c.Fun.(type) {
	case *ast.Ident:
		return f.Name
	case *ast.SelectorExpr:
		return f.Sel.Name
	}
	return ""
}

func locksAcrossSend() (string, bool) {
	repo := os.Getenv("VERIF_REPO")
	if repo == "" {
		repo = "/repo"
	}
	names, err := filepath.Glob(filepath.Join(repo, "*.go"))
	if err != nil || len(names) == 0 {
		return "", false
	}
	fset := token.NewFileSet()
	type fn struct {
		name   string
		decl   *ast.FuncDecl
		params map[string]bool // function-typed parameters
	}
	var fns []fn
	for _, n := range names {
		base := filepath.Base(n)
		if strings.HasSuffix(base, "_test.go") || strings.HasPrefix(base, "verif_") {
			continue
		}
		f, err := parser.ParseFile(fset, n, nil, 0)
		if err != nil {
			return "", false
		}
		for _, d := range f.Decls {
			if fd, ok := d.(*ast.FuncDecl); ok && fd.Body != nil {
				ps := map[string]bool{}
				if fd.Type.Params != nil {
					for _, p := range fd.Type.Params.List {
						if _, isFunc := p.Type.(*ast.FuncType); isFunc {
							for _, id := range p.Names {
								ps[id.Name] = true
							}
						}
					}
				}
				fns = append(fns, fn{fd.Name.Name, fd, ps})
			}
		}
	}
	// may-write closure by name
	mayWrite := map[string]bool{}
	calls := map[string]map[string]bool{}
	for _, f := range fns {
		calls[f.name] = map[string]bool{}
		ast.Inspect(f.decl.Body, func(x ast.Node) bool {
			if c, ok := x.(*ast.CallExpr); ok {
				n := calleeName(c)
				calls[f.name][n] = true
				if n == "WriteTo" {
					mayWrite[f.name] = true
				}
			}
			return true
		})
	}
	for changed := true; changed; {
		changed = false
		for f, cs := range calls {
			if mayWrite[f] {
				continue
			}
			for c := range cs {
				if mayWrite[c] {
					mayWrite[f] = true
					changed = true
					break
				}
			}
		}
	}
	rows := map[string]bool{}
	var walk func(f fn, stmts []ast.Stmt, held []string)
	scan := func(f fn, n ast.Node, held []string) {
		if len(held) == 0 || n == nil {
			return
		}
		ast.Inspect(n, func(x ast.Node) bool {
			if _, isLit := x.(*ast.FuncLit); isLit {
				return false // runs later, not under this lock
			}
			if c, ok := x.(*ast.CallExpr); ok {
				cn := calleeName(c)
				if cn == "WriteTo" || mayWrite[cn] || f.params[cn] {
					for _, h := range held {
						rows[f.name+":"+h+">"+cn] = true
					}
				}
			}
			return true
		})
	}
	walk = func(f fn, stmts []ast.Stmt, held []string) {
		held = append([]string{}, held...)
		for _, s := range stmts {
			if es, ok := s.(*ast.ExprStmt); ok {
				if c, ok := es.X.(*ast.CallExpr); ok {
					if se, ok := c.Fun.(*ast.SelectorExpr); ok {
						switch se.Sel.Name {
						case "Lock", "RLock":
							held = append(held, lockExprStr(se.X))
							continue
						case "Unlock", "RUnlock":
							l := lockExprStr(se.X)
							for i := len(held) - 1; i >= 0; i-- {
								if held[i] == l {
									held = append(held[:i], held[i+1:]...)
									break
								}
							}
							continue
						}
					}
				}
			}
			switch x := s.(type) {
			case *ast.BlockStmt:
				walk(f, x.List, held)
			case *ast.IfStmt:
				scan(f, x.Init, held)
				scan(f, x.Cond, held)
				walk(f, x.Body.List, held)
				if x.Else != nil {
					walk(f, []ast.Stmt{x.Else}, held)
				}
			case *ast.ForStmt:
				scan(f, x.Cond, held)
				walk(f, x.Body.List, held)
			case *ast.RangeStmt:
				scan(f, x.X, held)
				walk(f, x.Body.List, held)
			case *ast.SwitchStmt:
				scan(f, x.Tag, held)
				for _, c := range x.Body.List {
					walk(f, c.(*ast.CaseClause).Body, held)
				}
			case *ast.SelectStmt:
				for _, c := range x.Body.List {
					walk(f, c.(*ast.CommClause).Body, held)
				}
			case *ast.DeferStmt: // a deferred unlock keeps the lock; other deferred calls run at the end: scan them
				if se, ok := x.Call.Fun.(*ast.SelectorExpr); !ok || (se.Sel.Name != "Unlock" && se.Sel.Name != "RUnlock") {
					scan(f, x.Call, held)
				}
			case *ast.GoStmt: // another goroutine: not under this lock
			default:
				scan(f, s, held)
			}
		}
	}
	for _, f := range fns {
		walk(f, f.decl.Body.List, nil)
	}
	out := make([]string, 0, len(rows))
	for r := range rows {
		out = append(out, r)
	}
	sort.Strings(out)
	if len(out) == 0 {
		return "-", true
	}
	return strings.Join(out, ","), true
}
