package main

// Configuration changed concurrently with Parse.
//
// A toggler goroutine flips every runtime-settable switch the library exposes - the level of every package logger
// (Disable / EnableInfo / EnableDebug / SetLevel) and the exported Debug variables; the list is taken from the source
// (kind "census switches": exported package-level fastlog loggers and Debug booleans of package packet and its
// handlers) - in a tight loop, while the goroutine that plays the read loop parses a stream in which EVERY frame is an
// online transition: one MAC alternating between two addresses (the other address of the MAC goes offline each time).
// Every Parse runs under recover (pgen.Observe) and the whole stream under a watchdog.
//
//	tog N hexA hexB      observation: "all: <full observation of A> | <full observation of B>" when every one of the
//	                     2N calls gave the same observation as the first call with that frame; otherwise
//	                     "dev@<i>: <observation>" (a panic, a different result) or "fuel@<i>" (Parse did not return)
//
// Model: the full observation of A and of B - Parse's result does not depend on log levels or Debug switches, and it
// returns.

import (
	"go/ast"
	"go/parser"
	"go/token"
	"os"
	"path/filepath"
	"sort"
	"strconv"
	"strings"
	"sync/atomic"
	"time"

	"github.com/irai/packet"
	"github.com/irai/packet/fastlog"
	"github.com/irai/packet/handlers/arp_spoofer"
	"github.com/irai/packet/handlers/dhcp4_spoofer"
	"github.com/irai/packet/handlers/dns_naming"
	"github.com/irai/packet/handlers/icmp_spoofer"
	"pvharness/cmd/c01/pgen"
	"pvharness/lib"
)

// the switches this unit flips; censusSwitches() must list exactly these
var togLoggers = map[string]*fastlog.Logger{
	"packet.Logger": packet.Logger, "arp_spoofer.Logger": arp_spoofer.Logger, "dhcp4_spoofer.Logger": dhcp4_spoofer.Logger,
	"dns_naming.Logger": dns_naming.Logger, "dns_naming.LoggerMDNS": dns_naming.LoggerMDNS, "icmp_spoofer.Logger4": icmp_spoofer.Logger4, "icmp_spoofer.Logger6": icmp_spoofer.Logger6,
}
var togBools = map[string]*bool{"dns_naming.Debug": &dns_naming.Debug}

// censusSwitches: exported package-level loggers (initialised with fastlog.New) and exported Debug booleans, from the source.
func censusSwitches() (string, bool) {
	repo := os.Getenv("VERIF_REPO")
	if repo == "" {
		repo = "/repo"
	}
	dirs := []string{repo}
	hs, _ := filepath.Glob(filepath.Join(repo, "handlers", "*"))
	dirs = append(dirs, hs...)
	var out []string
	fset := token.NewFileSet()
	for _, d := range dirs {
		files, _ := filepath.Glob(filepath.Join(d, "*.go"))
		for _, fn := range files {
			if strings.HasSuffix(fn, "_test.go") {
				continue
			}
			f, err := parser.ParseFile(fset, fn, nil, 0)
			if err != nil {
				return "", false
			}
			pkg := f.Name.Name
			for _, decl := range f.Decls {
				gd, ok := decl.(*ast.GenDecl)
				if !ok || gd.Tok != token.VAR {
					continue
				}
				for _, s := range gd.Specs {
					vs := s.(*ast.ValueSpec)
					for i, n := range vs.Names {
						if !n.IsExported() {
							continue
						}
						isLogger := false
						if i < len(vs.Values) {
							if c, ok := vs.Values[i].(*ast.CallExpr); ok {
								if se, ok := c.Fun.(*ast.SelectorExpr); ok {
									if id, ok := se.X.(*ast.Ident); ok && id.Name == "fastlog" && se.Sel.Name == "New" {
										isLogger = true
									}
								}
							}
						}
						isDebug := false
						if id, ok := vs.Type.(*ast.Ident); ok && id.Name == "bool" && strings.Contains(n.Name, "Debug") {
							isDebug = true
						}
						if isLogger || isDebug {
							out = append(out, pkg+"."+n.Name)
						}
					}
				}
			}
		}
	}
	sort.Strings(out)
	return strings.Join(out, ","), true
}

func runTog(a []string) (obs string, poisoned bool) {
	n, _ := strconv.Atoi(a[0])
	fa, fb := lib.UnHex(a[1]), lib.UnHex(a[2])
	s := pgen.NewSession(pgen.DefaultCfg)
	var stop int32
	tdone := make(chan struct{})
	go func() { // the toggler
		defer close(tdone)
		levels := []fastlog.LogLevel{fastlog.LevelError, fastlog.LevelInfo, fastlog.LevelDebug}
		for i := 0; atomic.LoadInt32(&stop) == 0; i++ {
			for _, l := range togLoggers {
				switch i % 4 {
				case 0:
					l.Disable()
				case 1:
					l.EnableInfo()
				case 2:
					l.EnableDebug()
				default:
					l.SetLevel(levels[(i/4)%3])
				}
			}
			for _, b := range togBools {
				*b = i%2 == 0
			}
		}
	}()
	var firstA, firstB, dev string
	var progress int64
	rdone := make(chan struct{})
	go func() { // the read loop
		defer close(rdone)
		for i := 0; i < 2*n; i++ {
			f := fa
			if i%2 == 1 {
				f = fb
			}
			buf, p := pgen.Buffer(f, nil)
			o := pgen.Observe(s, buf, p).Full
			first := &firstA
			if i%2 == 1 {
				first = &firstB
			}
			if *first == "" {
				*first = o
			} else if o != *first && dev == "" {
				dev = "dev@" + strconv.Itoa(i) + ": " + o
				return
			}
			atomic.StoreInt64(&progress, int64(i+1))
		}
	}()
	select {
	case <-rdone:
	case <-time.After(20 * time.Second):
		poisoned = true
	}
	atomic.StoreInt32(&stop, 1)
	<-tdone
	for _, l := range togLoggers {
		l.SetLevel(fastlog.LevelInfo)
	}
	switch {
	case poisoned:
		return "fuel@" + strconv.FormatInt(atomic.LoadInt64(&progress), 10), true
	case dev != "":
		return dev, true
	}
	return "all: " + firstA + " | " + firstB, false
}

func togUnit(r *lib.Run) (poisoned bool) {
	c := pgen.DefaultCfg
	if txt, ok := censusSwitches(); ok {
		r.Do("census", "switches")
		_ = txt
	} else {
		r.Stat("census.switches.unrecognised", 1)
	}
	mac := pgen.MACClient2
	udp := pgen.UDP(4000, 53, []byte{1, 2, 3, 4})
	pairs := [][2][]byte{
		{pgen.Ether(c.RouterMAC, mac, 0x0800, pgen.IP4(5, 20+len(udp), 17, []byte{192, 168, 0, 21}, []byte{8, 8, 8, 8}, nil, udp)),
			pgen.Ether(c.RouterMAC, mac, 0x0800, pgen.IP4(5, 20+len(udp), 17, []byte{192, 168, 0, 22}, []byte{8, 8, 8, 8}, nil, udp))},
		{pgen.Ether(pgen.MACBcast, mac, 0x0806, pgen.ARP(6, 4, 1, mac, []byte{192, 168, 0, 23}, c.RouterMAC, []byte{192, 168, 0, 11})),
			pgen.Ether(pgen.MACBcast, mac, 0x0806, pgen.ARP(6, 4, 1, mac, []byte{192, 168, 0, 24}, c.RouterMAC, []byte{192, 168, 0, 11}))},
		{pgen.Ether(c.RouterMAC, mac, 0x86dd, pgen.IP6(len(udp), 17, pgen.IP6s[4], pgen.IP6s[5], udp)),
			pgen.Ether(c.RouterMAC, mac, 0x86dd, pgen.IP6(len(udp), 17, pgen.IP6s[5], pgen.IP6s[4], udp))},
	}
	n := 20000
	if r.Thorough() {
		n = 200000
	}
	for _, pr := range pairs {
		args := []string{strconv.Itoa(n), lib.Hex(pr[0]), lib.Hex(pr[1])}
		obs, p := runTog(args)
		r.Case("tog", args, obs)
		r.Stat("class.tog", 1)
		if p {
			r.Stat("tog.poisoned", 1)
			return true
		}
	}
	return false
}
