// C01 (Parse half): Session.Parse and every Frame accessor on generated frames, under recover,
// with capacity = length and with poisoned spare capacity; compared with the Coq model
// (coq/Model/Parse.v through coq/Extract/D01.v).
package main

import (
	"strings"

	"pvharness/cmd/c01/pgen"
	"pvharness/lib"
)

func main() {
	r := lib.Init()
	defer r.Close()
	// p hostMAC routerMAC lan bits frame spare  ->  full observation of Parse + accessors
	r.Register("p", func(a []string) string { return pgen.Run(a).Full })
	// m Frame -> exported methods and fields of packet.Frame by reflection (completeness of the accessor table)
	r.Register("m", func(a []string) string { return pgen.FrameAPI() })
	// pp FAM MS tok..: Parse fed back to back while a ping is pending (pingunit.go)
	r.Register("pp", func(a []string) string { o, _ := runPing(a); return o })
	// pt ..: the frame parsed twice on one session, the second call observed (source tracked by then)
	r.Register("pt", func(a []string) string {
		c := pgen.CfgOfToks(a[0:4])
		s := pgen.NewSession(c)
		frame, spare := lib.UnHex(a[4]), lib.UnHex(a[5])
		buf, p := pgen.Buffer(frame, spare)
		lib.Catch(func() { s.Parse(p) })
		buf, p = pgen.Buffer(frame, spare)
		return pgen.Observe(s, buf, p).Full
	})
	// tog N hexA hexB: a stream of online transitions parsed while every runtime switch is flipped concurrently (togunit.go)
	r.Register("tog", func(a []string) string { o, _ := runTog(a); return o })
	r.Register("census", func(a []string) string {
		if txt, ok := censusSwitches(); ok {
			return txt
		}
		return "unrecognised"
	})
	// consts NAME: a size the library fixes in its constructor (rowsunit.go)
	r.Register("consts", constsRunner)
	// locks send: mutexes lexically held at calls that can reach Conn.WriteTo in package packet (locksend.go)
	r.Register("locks", func(a []string) string {
		if txt, ok := locksAcrossSend(); ok {
			return txt
		}
		return "unrecognised"
	})
	// gate SEND hex..: Parse while a send of that kind is held inside Conn.WriteTo (gateunit.go)
	r.Register("gate", func(a []string) string { o, _ := runGate(a); return o })
	if r.Replayed() {
		return
	}
	r.Do("m", "Frame")
	rowsUnit(r)
	if _, ok := locksAcrossSend(); ok {
		r.Do("locks", "send")
		r.Stat("locks.send.compared", 1)
	} else {
		r.Stat("locks.send.unrecognised", 1)
	}
	pgen.Corpus(r)
	rng := r.Rand()
	cfgs := pgen.Cfgs()
	g := &pgen.G{R: rng, Cfg: pgen.DefaultCfg}
	pgen.Directed(g, func(c pgen.Cfg, frame, spare []byte, class string) {
		r.Do("p", append(c.Toks(), lib.Hex(frame), lib.Hex(spare))...)
		r.Stat("class."+class, 1)
	})
	pgen.Generate(g, r.Thorough(), func(frame, spare []byte, class string) {
		c := cfgs[0]
		if rng.Chance(25) {
			c = cfgs[rng.Intn(len(cfgs))]
		}
		obs := r.Do("p", append(c.Toks(), lib.Hex(frame), lib.Hex(spare))...)
		cl := class
		if strings.HasPrefix(cl, "b.len.") {
			cl = "b.len"
		} else if i := strings.Index(cl, "et."); i >= 0 {
			cl = cl[:i] + "et"
		}
		r.Stat("class."+cl, 1)
		switch {
		case obs == "panic":
			r.Stat("obs.panic", 1)
		case strings.HasPrefix(obs, "err:"):
			r.Stat("obs.err", 1)
		case strings.Contains(obs, "panic"):
			r.Stat("obs.accessor-panic", 1)
		default:
			r.Stat("obs.ok.id"+strings.Fields(obs)[1], 1)
		}
		if len(spare) > 0 {
			r.Stat("cap.spare", 1)
		} else {
			r.Stat("cap.exact", 1)
		}
	})
	// last: a violation in these two units can leave a process-global or session lock held for good
	if !togUnit(r) && !gateUnit(r) {
		pingUnit(r)
	}
}
